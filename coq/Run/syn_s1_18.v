From FP Require Import Lexer Parser ShowPT Digest.
From Coq Require Import String List NArith.
Import ListNotations.
Open Scope string_scope.
Set Printing Width 100000000.
Set Printing Depth 100000000.
Definition nl : string := String (Ascii.ascii_of_nat 10) EmptyString.
Definition model_lex (rs : list rune) : string := show_toks (lex rs).
Definition model_parse (rs : list rune) : string :=
  show_pt (match lex rs with Some ts => parse ts | None => None end).
(* coqc is slow at printing long strings: digests first (Digest.v), full texts on demand *)
Definition check (rs : list rune) : string :=
  digest (model_lex rs) ++ " " ++ digest (model_parse rs).
Definition full (rs : list rune) : string := model_lex rs ++ nl ++ model_parse rs.
Definition terms (ts : list tok) (t : pt) : string :=
  digest (show_toks (Some ts)) ++ " " ++ digest (show_pt (Some t)) ++ " " ++ digest (show_pt (parse ts)).
Definition terms_full (ts : list tok) (t : pt) : string :=
  show_toks (Some ts) ++ nl ++ show_pt (Some t) ++ nl ++ show_pt (parse ts).
Eval vm_compute in ("<<<M18>>>" ++ check (runes_of_ascii "root  packet
Pad {
@tag(65535 ) @lengthOf(
matchKey) //
int32 pack
    , // `tick` ""quote"" 'q'
zchar[65535  ]
charz @calculatedFrom(""""
    )
`crlf
line` , }
MetaData
options1
    {charz crc
//
// " ++ [27880; 37322]%N ++ runes_of_ascii "
, body packetx `// not a comment`, } packet string_ { char[	7 // @lengthOf(
]
T	@calculatedFrom(""\" ++ [233]%N ++ runes_of_ascii """) // c
, @leftPad ( '\x00')@calculatedFrom(
""packet"" )
@tag( 42
// " ++ [128512]%N ++ runes_of_ascii " emoji
// " ++ [128512]%N ++ runes_of_ascii " emoji
) string string_ @calculatedFrom( """ ++ [28040; 24687]%N ++ runes_of_ascii """ ) `a\` , }
")).
Eval vm_compute in ("<<<M50>>>" ++ check (runes_of_ascii "  options { zchar =  007
Header =
char[// c
007 ] ;
    lengthOf= char[
7 ]; chars =//
"""" // a // b
;
}
")).
Eval vm_compute in ("<<<M82>>>" ++ check (runes_of_ascii "packet u8x {
    //	t
    }

")).
Eval vm_compute in ("<<<M114>>>" ++ check (runes_of_ascii "packet i64_
{	@tag( // a // b
0123456789) x_y_z@calculatedFrom( ""it's"" ) , @rightPad ( ' ' ) @tag( 007
    ) leftPad {
    zchar[00 ]Pad , }
,int32 _x@lengthOf( BodyLength
/// triple
//
) ,
}
")).
Eval vm_compute in ("<<<M146>>>" ++ check (runes_of_ascii "packet Logon {
    stringy
crc	`crlf
line`
, T
@calculatedFrom( ""a\""b""
    ) // packet A { u8 x, }
`u8 x,` // " ++ [27880; 37322]%N ++ runes_of_ascii "
, }  options {	leftPad =  '\x00'}
")).
Eval vm_compute in ("<<<T146>>>" ++ terms [mkTok 35 "packet" 1 0 false; mkTok 42 "Logon" 1 7 false; mkTok 2 "{" 1 13 false; mkTok 42 "stringy" 2 4 false; mkTok 42 "crc" 3 0 false; mkTok 43 (string_of_bytes [96; 99; 114; 108; 102; 13; 10; 108; 105; 110; 101; 96]%N) 3 4 false; mkTok 40 "," 5 0 false; mkTok 42 "T" 5 2 false; mkTok 5 "@calculatedFrom(" 6 0 false; mkTok 31 """a\""b""" 6 17 false; mkTok 6 ")" 7 4 false; mkTok 44 "// packet A { u8 x, }" 7 6 true; mkTok 43 "`u8 x,`" 8 0 false; mkTok 44 (string_of_bytes [47; 47; 32; 230; 179; 168; 233; 135; 138]%N) 8 8 true; mkTok 40 "," 9 0 false; mkTok 3 "}" 9 2 false; mkTok 1 "options" 9 5 false; mkTok 2 "{" 9 13 false; mkTok 42 "leftPad" 9 15 false; mkTok 4 "=" 9 23 false; mkTok 33 "'\x00'" 9 26 false; mkTok 3 "}" 9 32 false; mkTok 0 "<EOF>" 10 0 false] (mkPacket (mkPtok 35 "packet" 1 0 0) (Some (mkPtok 3 "}" 9 32 21)) [(DPacket (mkPacketDef (mkSpan (mkPtok 35 "packet" 1 0 0) (mkPtok 3 "}" 9 2 15)) None (mkPtok 35 "packet" 1 0 0) (mkPtok 42 "Logon" 1 7 1) (mkPtok 2 "{" 1 13 2) [(mkFieldWithAttr (mkSpan (mkPtok 42 "stringy" 2 4 3) (mkPtok 40 "," 5 0 6)) [] (ObjectField (mkSpan (mkPtok 42 "stringy" 2 4 3) (mkPtok 40 "," 5 0 6)) None (mkPtok 42 "stringy" 2 4 3) (Some (mkPtok 42 "crc" 3 0 4)) (Some (mkPtok 43 (string_of_bytes [96; 99; 114; 108; 102; 13; 10; 108; 105; 110; 101; 96]%N) 3 4 5)) (mkPtok 40 "," 5 0 6))); (mkFieldWithAttr (mkSpan (mkPtok 42 "T" 5 2 7) (mkPtok 40 "," 9 0 14)) [] (CheckSumField (mkSpan (mkPtok 42 "T" 5 2 7) (mkPtok 40 "," 9 0 14)) (mkChecksumFieldDecl (mkSpan (mkPtok 42 "T" 5 2 7) (mkPtok 40 "," 9 0 14)) None (mkPtok 42 "T" 5 2 7) (mkCalculatedFrom (mkSpan (mkPtok 5 "@calculatedFrom(" 6 0 8) (mkPtok 6 ")" 7 4 10)) (mkPtok 5 "@calculatedFrom(" 6 0 8) (mkPtok 31 """a\""b""" 6 17 9) (mkPtok 6 ")" 7 4 10)) (Some (mkPtok 43 "`u8 x,`" 8 0 12)) (mkPtok 40 "," 9 0 14))))] (mkPtok 3 "}" 9 2 15))); (DOption (mkOptionDef (mkSpan (mkPtok 1 "options" 9 5 16) (mkPtok 3 "}" 9 32 21)) (mkPtok 1 "options" 9 5 16) (mkPtok 2 "{" 9 13 17) [(mkOptionDecl (mkSpan (mkPtok 42 "leftPad" 9 15 18) (mkPtok 33 "'\x00'" 9 26 20)) (mkPtok 42 "leftPad" 9 15 18) (mkPtok 4 "=" 9 23 19) (VPaddingChar (mkSpan (mkPtok 33 "'\x00'" 9 26 20) (mkPtok 33 "'\x00'" 9 26 20)) (mkPtok 33 "'\x00'" 9 26 20)) None)] (mkPtok 3 "}" 9 32 21)))])).
Eval vm_compute in ("<<<M178>>>" ++ check (runes_of_ascii "packet options1 {  }

")).
Eval vm_compute in ("<<<M210>>>" ++ check (runes_of_ascii "packet u128  { @calculatedFrom(
""a	b"" ) repeat  uint8x u128
`line1
line2`  , }
    packet string_ { @calculatedFrom(
// `tick` ""quote"" 'q'
// packet A { u8 x, }
""" ++ [128512]%N ++ runes_of_ascii """ )
uint8 Pad
    @lengthOf(
    o )
`{ , }`, }")).
Eval vm_compute in ("<<<M242>>>" ++ check (runes_of_ascii "
options { }
")).
Eval vm_compute in ("<<<M274>>>" ++ check (runes_of_ascii "root
packet i8i8 { @lengthOf(
Packet)
    u32 u8x, }")).
Eval vm_compute in ("<<<M306>>>" ++ check (runes_of_ascii "options { asx = ""{,}"" } packet len{repeat	float
    As, char[] Packet ,
i8 body @lengthOf( T
) //
,
}// @lengthOf(
packet
    Pad {uint32
u8x // packet A { u8 x, }
, /// triple
@tag( 4294967296 ) @tag(65535)
@rightPad(
    )rootA
    trueish `{ , }`
    ,
    } 	 ")).
Eval vm_compute in ("<<<M338>>>" ++ check (runes_of_ascii "MetaData As  {
// " ++ [128512]%N ++ runes_of_ascii " emoji
// @lengthOf(
a1 Pad , zchar[ 00 ] // `tick` ""quote"" 'q'
body`// not a comment` ,
crc uint8x `// not a comment` ,uint32
packetx ``
    ,}
")).
Eval vm_compute in ("<<<M370>>>" ++ check (runes_of_ascii "MetaData	matchKey
{ float64	string_, string pack`doc`	,Foo float `` ,x chars
    `crlf
line`
    ,
} packet Header { float64 lengthOf //x
@lengthOf(
    calculatedFrom ) `crlf
line` , zchar[1 ]
int @lengthOf( int),u8  string_,
//x
// c
@tag(3 // packet A { u8 x, }
) @tag( 10 // c
)
i64_
    // " ++ [128512]%N ++ runes_of_ascii " emoji
    {repeat	i16 body
    //x
    `crlf
line` , f64 repeatCount @lengthOf( x_y_z )
    , x{ char[ 0 ]// a // b
int , }
, match u128
    as
    MetaDataX { [ 007 ,
    //x
    ""// no comment"" ] : string_,
// a // b
// trailing space 
0 : int,  [  42 , ""`tick`"" , 0123456789
, ""\" ++ [233]%N ++ runes_of_ascii """  , ""1"", ""packet"" , 255
, ""{,}"" ]:	crc ,
0123456789  :	rootA [ ""\n"" ] :
    // packet A { u8 x, }
    charz , [ ""packet"", 10 ]
:T , }
, }//
, // packet A { u8 x, }
repeat
zchar[ 007  ]matchKey `crlf
line` ,
    @rightPad // `tick` ""quote"" 'q'
(
    '0' )
    // `tick` ""quote"" 'q'
    repeat char[ 00	]
pack`{ , }` , // " ++ [27880; 37322]%N ++ runes_of_ascii "
i8i8
, f32a
    { u128
    packetx , MetaDataX msg_type ,
char[ 65535] falsey `" ++ [28040; 24687; 31867; 22411]%N ++ runes_of_ascii "`
, }
    , } packet uint8x { uint32 msg_type`u8 x,` , char[ 65535 ] // c
o // trailing space 
`u8 x,` , @rightPad
( '\x00' )
int @lengthOf( int )`crlf
line` ,}packet Logon{ char[] string_ ,
    string repeatCount// trailing space 
@lengthOf( _x
)
    // packet A { u8 x, }
    ,  @calculatedFrom( ""\" ++ [233]%N ++ runes_of_ascii """ )@lengthOf( trueish) @tag(
//
// `tick` ""quote"" 'q'
007 ) i8
    a1
@lengthOf(
BodyLength
) `it's` ,	@rightPad ( ' ') @calculatedFrom(
    ""{,}"" // c
) @lengthOf(
    // `tick` ""quote"" 'q'
    zchar
// c
//	t
) repeat
    _x {
    len
, repeat	uint16
    /// triple
    trueish `say ""hi""` , u16 roots `two words` ,},} // `tick` ""quote"" 'q'")).
Eval vm_compute in ("<<<T370>>>" ++ terms [mkTok 37 "MetaData" 1 0 false; mkTok 42 "matchKey" 1 9 false; mkTok 2 "{" 2 0 false; mkTok 29 "float64" 2 2 false; mkTok 42 "string_" 2 10 false; mkTok 40 "," 2 17 false; mkTok 15 "string" 2 19 false; mkTok 42 "pack" 2 26 false; mkTok 43 "`doc`" 2 30 false; mkTok 40 "," 2 36 false; mkTok 42 "Foo" 2 37 false; mkTok 42 "float" 2 41 false; mkTok 43 "``" 2 47 false; mkTok 40 "," 2 50 false; mkTok 42 "x" 2 51 false; mkTok 42 "chars" 2 53 false; mkTok 43 (string_of_bytes [96; 99; 114; 108; 102; 13; 10; 108; 105; 110; 101; 96]%N) 3 4 false; mkTok 40 "," 5 4 false; mkTok 3 "}" 6 0 false; mkTok 35 "packet" 6 2 false; mkTok 42 "Header" 6 9 false; mkTok 2 "{" 6 16 false; mkTok 29 "float64" 6 18 false; mkTok 42 "lengthOf" 6 26 false; mkTok 44 "//x" 6 35 true; mkTok 7 "@lengthOf(" 7 0 false; mkTok 42 "calculatedFrom" 8 4 false; mkTok 6 ")" 8 19 false; mkTok 43 (string_of_bytes [96; 99; 114; 108; 102; 13; 10; 108; 105; 110; 101; 96]%N) 8 21 false; mkTok 40 "," 9 6 false; mkTok 14 "zchar[" 9 8 false; mkTok 30 "1" 9 14 false; mkTok 13 "]" 9 16 false; mkTok 42 "int" 10 0 false; mkTok 7 "@lengthOf(" 10 4 false; mkTok 42 "int" 10 15 false; mkTok 6 ")" 10 18 false; mkTok 40 "," 10 19 false; mkTok 20 "u8" 10 20 false; mkTok 42 "string_" 10 24 false; mkTok 40 "," 10 31 false; mkTok 44 "//x" 11 0 true; mkTok 44 "// c" 12 0 true; mkTok 9 "@tag(" 13 0 false; mkTok 30 "3" 13 5 false; mkTok 44 "// packet A { u8 x, }" 13 7 true; mkTok 6 ")" 14 0 false; mkTok 9 "@tag(" 14 2 false; mkTok 30 "10" 14 8 false; mkTok 44 "// c" 14 11 true; mkTok 6 ")" 15 0 false; mkTok 42 "i64_" 16 0 false; mkTok 44 (string_of_bytes [47; 47; 32; 240; 159; 152; 128; 32; 101; 109; 111; 106; 105]%N) 17 4 true; mkTok 2 "{" 18 4 false; mkTok 36 "repeat" 18 5 false; mkTok 25 "i16" 18 12 false; mkTok 42 "body" 18 16 false; mkTok 44 "//x" 19 4 true; mkTok 43 (string_of_bytes [96; 99; 114; 108; 102; 13; 10; 108; 105; 110; 101; 96]%N) 20 4 false; mkTok 40 "," 21 6 false; mkTok 29 "f64" 21 8 false; mkTok 42 "repeatCount" 21 12 false; mkTok 7 "@lengthOf(" 21 24 false; mkTok 42 "x_y_z" 21 35 false; mkTok 6 ")" 21 41 false; mkTok 40 "," 22 4 false; mkTok 42 "x" 22 6 false; mkTok 2 "{" 22 7 false; mkTok 12 "char[" 22 9 false; mkTok 30 "0" 22 15 false; mkTok 13 "]" 22 17 false; mkTok 44 "// a // b" 22 18 true; mkTok 42 "int" 23 0 false; mkTok 40 "," 23 4 false; mkTok 3 "}" 23 6 false; mkTok 40 "," 24 0 false; mkTok 38 "match" 24 2 false; mkTok 42 "u128" 24 8 false; mkTok 17 "as" 25 4 false; mkTok 42 "MetaDataX" 26 4 false; mkTok 2 "{" 26 14 false; mkTok 18 "[" 26 16 false; mkTok 30 "007" 26 18 false; mkTok 40 "," 26 22 false; mkTok 44 "//x" 27 4 true; mkTok 31 """// no comment""" 28 4 false; mkTok 13 "]" 28 20 false; mkTok 39 ":" 28 22 false; mkTok 42 "string_" 28 24 false; mkTok 40 "," 28 31 false; mkTok 44 "// a // b" 29 0 true; mkTok 44 "// trailing space " 30 0 true; mkTok 30 "0" 31 0 false; mkTok 39 ":" 31 2 false; mkTok 42 "int" 31 4 false; mkTok 40 "," 31 7 false; mkTok 18 "[" 31 10 false; mkTok 30 "42" 31 13 false; mkTok 40 "," 31 16 false; mkTok 31 """`tick`""" 31 18 false; mkTok 40 "," 31 27 false; mkTok 30 "0123456789" 31 29 false; mkTok 40 "," 32 0 false; mkTok 31 (string_of_bytes [34; 92; 195; 169; 34]%N) 32 2 false; mkTok 40 "," 32 8 false; mkTok 31 """1""" 32 10 false; mkTok 40 "," 32 13 false; mkTok 31 """packet""" 32 15 false; mkTok 40 "," 32 24 false; mkTok 30 "255" 32 26 false; mkTok 40 "," 33 0 false; mkTok 31 """{,}""" 33 2 false; mkTok 13 "]" 33 8 false; mkTok 39 ":" 33 9 false; mkTok 42 "crc" 33 11 false; mkTok 40 "," 33 15 false; mkTok 30 "0123456789" 34 0 false; mkTok 39 ":" 34 12 false; mkTok 42 "rootA" 34 14 false; mkTok 18 "[" 34 20 false; mkTok 31 """\n""" 34 22 false; mkTok 13 "]" 34 27 false; mkTok 39 ":" 34 29 false; mkTok 44 "// packet A { u8 x, }" 35 4 true; mkTok 42 "charz" 36 4 false; mkTok 40 "," 36 10 false; mkTok 18 "[" 36 12 false; mkTok 31 """packet""" 36 14 false; mkTok 40 "," 36 22 false; mkTok 30 "10" 36 24 false; mkTok 13 "]" 36 27 false; mkTok 39 ":" 37 0 false; mkTok 42 "T" 37 1 false; mkTok 40 "," 37 3 false; mkTok 3 "}" 37 5 false; mkTok 40 "," 38 0 false; mkTok 3 "}" 38 2 false; mkTok 44 "//" 38 3 true; mkTok 40 "," 39 0 false; mkTok 44 "// packet A { u8 x, }" 39 2 true; mkTok 36 "repeat" 40 0 false; mkTok 14 "zchar[" 41 0 false; mkTok 30 "007" 41 7 false; mkTok 13 "]" 41 12 false; mkTok 42 "matchKey" 41 13 false; mkTok 43 (string_of_bytes [96; 99; 114; 108; 102; 13; 10; 108; 105; 110; 101; 96]%N) 41 22 false; mkTok 40 "," 42 6 false; mkTok 32 "@rightPad" 43 4 false; mkTok 44 "// `tick` ""quote"" 'q'" 43 14 true; mkTok 8 "(" 44 0 false; mkTok 33 "'0'" 45 4 false; mkTok 6 ")" 45 8 false; mkTok 44 "// `tick` ""quote"" 'q'" 46 4 true; mkTok 36 "repeat" 47 4 false; mkTok 12 "char[" 47 11 false; mkTok 30 "00" 47 17 false; mkTok 13 "]" 47 20 false; mkTok 42 "pack" 48 0 false; mkTok 43 "`{ , }`" 48 4 false; mkTok 40 "," 48 12 false; mkTok 44 (string_of_bytes [47; 47; 32; 230; 179; 168; 233; 135; 138]%N) 48 14 true; mkTok 42 "i8i8" 49 0 false; mkTok 40 "," 50 0 false; mkTok 42 "f32a" 50 2 false; mkTok 2 "{" 51 4 false; mkTok 42 "u128" 51 6 false; mkTok 42 "packetx" 52 4 false; mkTok 40 "," 52 12 false; mkTok 42 "MetaDataX" 52 14 false; mkTok 42 "msg_type" 52 24 false; mkTok 40 "," 52 33 false; mkTok 12 "char[" 53 0 false; mkTok 30 "65535" 53 6 false; mkTok 13 "]" 53 11 false; mkTok 42 "falsey" 53 13 false; mkTok 43 (string_of_bytes [96; 230; 182; 136; 230; 129; 175; 231; 177; 187; 229; 158; 139; 96]%N) 53 20 false; mkTok 40 "," 54 0 false; mkTok 3 "}" 54 2 false; mkTok 40 "," 55 4 false; mkTok 3 "}" 55 6 false; mkTok 35 "packet" 55 8 false; mkTok 42 "uint8x" 55 15 false; mkTok 2 "{" 55 22 false; mkTok 22 "uint32" 55 24 false; mkTok 42 "msg_type" 55 31 false; mkTok 43 "`u8 x,`" 55 39 false; mkTok 40 "," 55 47 false; mkTok 12 "char[" 55 49 false; mkTok 30 "65535" 55 55 false; mkTok 13 "]" 55 61 false; mkTok 44 "// c" 55 63 true; mkTok 42 "o" 56 0 false; mkTok 44 "// trailing space " 56 2 true; mkTok 43 "`u8 x,`" 57 0 false; mkTok 40 "," 57 8 false; mkTok 32 "@rightPad" 57 10 false; mkTok 8 "(" 58 0 false; mkTok 33 "'\x00'" 58 2 false; mkTok 6 ")" 58 9 false; mkTok 42 "int" 59 0 false; mkTok 7 "@lengthOf(" 59 4 false; mkTok 42 "int" 59 15 false; mkTok 6 ")" 59 19 false; mkTok 43 (string_of_bytes [96; 99; 114; 108; 102; 13; 10; 108; 105; 110; 101; 96]%N) 59 20 false; mkTok 40 "," 60 6 false; mkTok 3 "}" 60 7 false; mkTok 35 "packet" 60 8 false; mkTok 42 "Logon" 60 15 false; mkTok 2 "{" 60 20 false; mkTok 16 "char[]" 60 22 false; mkTok 42 "string_" 60 29 false; mkTok 40 "," 60 37 false; mkTok 15 "string" 61 4 false; mkTok 42 "repeatCount" 61 11 false; mkTok 44 "// trailing space " 61 22 true; mkTok 7 "@lengthOf(" 62 0 false; mkTok 42 "_x" 62 11 false; mkTok 6 ")" 63 0 false; mkTok 44 "// packet A { u8 x, }" 64 4 true; mkTok 40 "," 65 4 false; mkTok 5 "@calculatedFrom(" 65 7 false; mkTok 31 (string_of_bytes [34; 92; 195; 169; 34]%N) 65 24 false; mkTok 6 ")" 65 29 false; mkTok 7 "@lengthOf(" 65 30 false; mkTok 42 "trueish" 65 41 false; mkTok 6 ")" 65 48 false; mkTok 9 "@tag(" 65 50 false; mkTok 44 "//" 66 0 true; mkTok 44 "// `tick` ""quote"" 'q'" 67 0 true; mkTok 30 "007" 68 0 false; mkTok 6 ")" 68 4 false; mkTok 24 "i8" 68 6 false; mkTok 42 "a1" 69 4 false; mkTok 7 "@lengthOf(" 70 0 false; mkTok 42 "BodyLength" 71 0 false; mkTok 6 ")" 72 0 false; mkTok 43 "`it's`" 72 2 false; mkTok 40 "," 72 9 false; mkTok 32 "@rightPad" 72 11 false; mkTok 8 "(" 72 21 false; mkTok 33 "' '" 72 23 false; mkTok 6 ")" 72 26 false; mkTok 5 "@calculatedFrom(" 72 28 false; mkTok 31 """{,}""" 73 4 false; mkTok 44 "// c" 73 10 true; mkTok 6 ")" 74 0 false; mkTok 7 "@lengthOf(" 74 2 false; mkTok 44 "// `tick` ""quote"" 'q'" 75 4 true; mkTok 42 "zchar" 76 4 false; mkTok 44 "// c" 77 0 true; mkTok 44 (string_of_bytes [47; 47; 9; 116]%N) 78 0 true; mkTok 6 ")" 79 0 false; mkTok 36 "repeat" 79 2 false; mkTok 42 "_x" 80 4 false; mkTok 2 "{" 80 7 false; mkTok 42 "len" 81 4 false; mkTok 40 "," 82 0 false; mkTok 36 "repeat" 82 2 false; mkTok 21 "uint16" 82 9 false; mkTok 44 "/// triple" 83 4 true; mkTok 42 "trueish" 84 4 false; mkTok 43 "`say ""hi""`" 84 12 false; mkTok 40 "," 84 23 false; mkTok 21 "u16" 84 25 false; mkTok 42 "roots" 84 29 false; mkTok 43 "`two words`" 84 35 false; mkTok 40 "," 84 47 false; mkTok 3 "}" 84 48 false; mkTok 40 "," 84 49 false; mkTok 3 "}" 84 50 false; mkTok 44 "// `tick` ""quote"" 'q'" 84 52 true; mkTok 0 "<EOF>" 84 73 false] (mkPacket (mkPtok 37 "MetaData" 1 0 0) (Some (mkPtok 3 "}" 84 50 269)) [(DMeta (mkMetaDef (mkSpan (mkPtok 37 "MetaData" 1 0 0) (mkPtok 3 "}" 6 0 18)) (mkPtok 37 "MetaData" 1 0 0) (mkPtok 42 "matchKey" 1 9 1) (mkPtok 2 "{" 2 0 2) [(MIDecl (mkMetaDecl (mkSpan (mkPtok 29 "float64" 2 2 3) (mkPtok 40 "," 2 17 5)) (TyBasic (mkSpan (mkPtok 29 "float64" 2 2 3) (mkPtok 29 "float64" 2 2 3)) (mkBasicType (mkSpan (mkPtok 29 "float64" 2 2 3) (mkPtok 29 "float64" 2 2 3)) (mkPtok 29 "float64" 2 2 3))) (mkPtok 42 "string_" 2 10 4) None (mkPtok 40 "," 2 17 5))); (MIDecl (mkMetaDecl (mkSpan (mkPtok 15 "string" 2 19 6) (mkPtok 40 "," 2 36 9)) (TyDynamic (mkSpan (mkPtok 15 "string" 2 19 6) (mkPtok 15 "string" 2 19 6)) (mkDynamicString (mkSpan (mkPtok 15 "string" 2 19 6) (mkPtok 15 "string" 2 19 6)) (mkPtok 15 "string" 2 19 6))) (mkPtok 42 "pack" 2 26 7) (Some (mkPtok 43 "`doc`" 2 30 8)) (mkPtok 40 "," 2 36 9))); (MIRef (mkRefMetaDecl (mkSpan (mkPtok 42 "Foo" 2 37 10) (mkPtok 40 "," 2 50 13)) (mkPtok 42 "Foo" 2 37 10) (mkPtok 42 "float" 2 41 11) (Some (mkPtok 43 "``" 2 47 12)) (mkPtok 40 "," 2 50 13))); (MIRef (mkRefMetaDecl (mkSpan (mkPtok 42 "x" 2 51 14) (mkPtok 40 "," 5 4 17)) (mkPtok 42 "x" 2 51 14) (mkPtok 42 "chars" 2 53 15) (Some (mkPtok 43 (string_of_bytes [96; 99; 114; 108; 102; 13; 10; 108; 105; 110; 101; 96]%N) 3 4 16)) (mkPtok 40 "," 5 4 17)))] (mkPtok 3 "}" 6 0 18))); (DPacket (mkPacketDef (mkSpan (mkPtok 35 "packet" 6 2 19) (mkPtok 3 "}" 55 6 179)) None (mkPtok 35 "packet" 6 2 19) (mkPtok 42 "Header" 6 9 20) (mkPtok 2 "{" 6 16 21) [(mkFieldWithAttr (mkSpan (mkPtok 29 "float64" 6 18 22) (mkPtok 40 "," 9 6 29)) [] (LengthField (mkSpan (mkPtok 29 "float64" 6 18 22) (mkPtok 40 "," 9 6 29)) (mkLengthFieldDecl (mkSpan (mkPtok 29 "float64" 6 18 22) (mkPtok 40 "," 9 6 29)) (Some (TyBasic (mkSpan (mkPtok 29 "float64" 6 18 22) (mkPtok 29 "float64" 6 18 22)) (mkBasicType (mkSpan (mkPtok 29 "float64" 6 18 22) (mkPtok 29 "float64" 6 18 22)) (mkPtok 29 "float64" 6 18 22)))) (mkPtok 42 "lengthOf" 6 26 23) (mkLengthOf (mkSpan (mkPtok 7 "@lengthOf(" 7 0 25) (mkPtok 6 ")" 8 19 27)) (mkPtok 7 "@lengthOf(" 7 0 25) (mkPtok 42 "calculatedFrom" 8 4 26) (mkPtok 6 ")" 8 19 27)) (Some (mkPtok 43 (string_of_bytes [96; 99; 114; 108; 102; 13; 10; 108; 105; 110; 101; 96]%N) 8 21 28)) (mkPtok 40 "," 9 6 29)))); (mkFieldWithAttr (mkSpan (mkPtok 14 "zchar[" 9 8 30) (mkPtok 40 "," 10 19 37)) [] (LengthField (mkSpan (mkPtok 14 "zchar[" 9 8 30) (mkPtok 40 "," 10 19 37)) (mkLengthFieldDecl (mkSpan (mkPtok 14 "zchar[" 9 8 30) (mkPtok 40 "," 10 19 37)) (Some (TyFixed (mkSpan (mkPtok 14 "zchar[" 9 8 30) (mkPtok 13 "]" 9 16 32)) (mkFixedString (mkSpan (mkPtok 14 "zchar[" 9 8 30) (mkPtok 13 "]" 9 16 32)) (mkPtok 14 "zchar[" 9 8 30) (mkPtok 30 "1" 9 14 31) (mkPtok 13 "]" 9 16 32)))) (mkPtok 42 "int" 10 0 33) (mkLengthOf (mkSpan (mkPtok 7 "@lengthOf(" 10 4 34) (mkPtok 6 ")" 10 18 36)) (mkPtok 7 "@lengthOf(" 10 4 34) (mkPtok 42 "int" 10 15 35) (mkPtok 6 ")" 10 18 36)) None (mkPtok 40 "," 10 19 37)))); (mkFieldWithAttr (mkSpan (mkPtok 20 "u8" 10 20 38) (mkPtok 40 "," 10 31 40)) [] (MetaField (mkSpan (mkPtok 20 "u8" 10 20 38) (mkPtok 40 "," 10 31 40)) None (mkMetaDecl (mkSpan (mkPtok 20 "u8" 10 20 38) (mkPtok 40 "," 10 31 40)) (TyBasic (mkSpan (mkPtok 20 "u8" 10 20 38) (mkPtok 20 "u8" 10 20 38)) (mkBasicType (mkSpan (mkPtok 20 "u8" 10 20 38) (mkPtok 20 "u8" 10 20 38)) (mkPtok 20 "u8" 10 20 38))) (mkPtok 42 "string_" 10 24 39) None (mkPtok 40 "," 10 31 40)))); (mkFieldWithAttr (mkSpan (mkPtok 9 "@tag(" 13 0 43) (mkPtok 40 "," 39 0 138)) [(FATag (mkSpan (mkPtok 9 "@tag(" 13 0 43) (mkPtok 6 ")" 14 0 46)) (mkTagAttr (mkSpan (mkPtok 9 "@tag(" 13 0 43) (mkPtok 6 ")" 14 0 46)) (mkPtok 9 "@tag(" 13 0 43) (mkPtok 30 "3" 13 5 44) (mkPtok 6 ")" 14 0 46))); (FATag (mkSpan (mkPtok 9 "@tag(" 14 2 47) (mkPtok 6 ")" 15 0 50)) (mkTagAttr (mkSpan (mkPtok 9 "@tag(" 14 2 47) (mkPtok 6 ")" 15 0 50)) (mkPtok 9 "@tag(" 14 2 47) (mkPtok 30 "10" 14 8 48) (mkPtok 6 ")" 15 0 50)))] (InerObjectField (mkSpan (mkPtok 42 "i64_" 16 0 51) (mkPtok 40 "," 39 0 138)) None (InerObjectDecl (mkSpan (mkPtok 42 "i64_" 16 0 51) (mkPtok 3 "}" 38 2 136)) (mkPtok 42 "i64_" 16 0 51) (mkPtok 2 "{" 18 4 53) [(MetaField (mkSpan (mkPtok 36 "repeat" 18 5 54) (mkPtok 40 "," 21 6 59)) (Some (mkPtok 36 "repeat" 18 5 54)) (mkMetaDecl (mkSpan (mkPtok 25 "i16" 18 12 55) (mkPtok 40 "," 21 6 59)) (TyBasic (mkSpan (mkPtok 25 "i16" 18 12 55) (mkPtok 25 "i16" 18 12 55)) (mkBasicType (mkSpan (mkPtok 25 "i16" 18 12 55) (mkPtok 25 "i16" 18 12 55)) (mkPtok 25 "i16" 18 12 55))) (mkPtok 42 "body" 18 16 56) (Some (mkPtok 43 (string_of_bytes [96; 99; 114; 108; 102; 13; 10; 108; 105; 110; 101; 96]%N) 20 4 58)) (mkPtok 40 "," 21 6 59))); (LengthField (mkSpan (mkPtok 29 "f64" 21 8 60) (mkPtok 40 "," 22 4 65)) (mkLengthFieldDecl (mkSpan (mkPtok 29 "f64" 21 8 60) (mkPtok 40 "," 22 4 65)) (Some (TyBasic (mkSpan (mkPtok 29 "f64" 21 8 60) (mkPtok 29 "f64" 21 8 60)) (mkBasicType (mkSpan (mkPtok 29 "f64" 21 8 60) (mkPtok 29 "f64" 21 8 60)) (mkPtok 29 "f64" 21 8 60)))) (mkPtok 42 "repeatCount" 21 12 61) (mkLengthOf (mkSpan (mkPtok 7 "@lengthOf(" 21 24 62) (mkPtok 6 ")" 21 41 64)) (mkPtok 7 "@lengthOf(" 21 24 62) (mkPtok 42 "x_y_z" 21 35 63) (mkPtok 6 ")" 21 41 64)) None (mkPtok 40 "," 22 4 65))); (InerObjectField (mkSpan (mkPtok 42 "x" 22 6 66) (mkPtok 40 "," 24 0 75)) None (InerObjectDecl (mkSpan (mkPtok 42 "x" 22 6 66) (mkPtok 3 "}" 23 6 74)) (mkPtok 42 "x" 22 6 66) (mkPtok 2 "{" 22 7 67) [(MetaField (mkSpan (mkPtok 12 "char[" 22 9 68) (mkPtok 40 "," 23 4 73)) None (mkMetaDecl (mkSpan (mkPtok 12 "char[" 22 9 68) (mkPtok 40 "," 23 4 73)) (TyFixed (mkSpan (mkPtok 12 "char[" 22 9 68) (mkPtok 13 "]" 22 17 70)) (mkFixedString (mkSpan (mkPtok 12 "char[" 22 9 68) (mkPtok 13 "]" 22 17 70)) (mkPtok 12 "char[" 22 9 68) (mkPtok 30 "0" 22 15 69) (mkPtok 13 "]" 22 17 70))) (mkPtok 42 "int" 23 0 72) None (mkPtok 40 "," 23 4 73)))] (mkPtok 3 "}" 23 6 74)) (mkPtok 40 "," 24 0 75)); (MatchField (mkSpan (mkPtok 38 "match" 24 2 76) (mkPtok 40 "," 38 0 135)) (mkMatchFieldDecl (mkSpan (mkPtok 38 "match" 24 2 76) (mkPtok 3 "}" 37 5 134)) (mkPtok 38 "match" 24 2 76) (mkPtok 42 "u128" 24 8 77) (mkPtok 17 "as" 25 4 78) (mkPtok 42 "MetaDataX" 26 4 79) (mkPtok 2 "{" 26 14 80) [(mkMatchPair (mkSpan (mkPtok 18 "[" 26 16 81) (mkPtok 40 "," 28 31 89)) (MKList (mkKeyList (mkSpan (mkPtok 18 "[" 26 16 81) (mkPtok 13 "]" 28 20 86)) (mkPtok 18 "[" 26 16 81) (mkPtok 30 "007" 26 18 82) [((mkPtok 40 "," 26 22 83), (mkPtok 31 """// no comment""" 28 4 85))] (mkPtok 13 "]" 28 20 86))) (mkPtok 39 ":" 28 22 87) (mkPtok 42 "string_" 28 24 88) (Some (mkPtok 40 "," 28 31 89))); (mkMatchPair (mkSpan (mkPtok 30 "0" 31 0 92) (mkPtok 40 "," 31 7 95)) (MKDigits (mkPtok 30 "0" 31 0 92)) (mkPtok 39 ":" 31 2 93) (mkPtok 42 "int" 31 4 94) (Some (mkPtok 40 "," 31 7 95))); (mkMatchPair (mkSpan (mkPtok 18 "[" 31 10 96) (mkPtok 40 "," 33 15 115)) (MKList (mkKeyList (mkSpan (mkPtok 18 "[" 31 10 96) (mkPtok 13 "]" 33 8 112)) (mkPtok 18 "[" 31 10 96) (mkPtok 30 "42" 31 13 97) [((mkPtok 40 "," 31 16 98), (mkPtok 31 """`tick`""" 31 18 99)); ((mkPtok 40 "," 31 27 100), (mkPtok 30 "0123456789" 31 29 101)); ((mkPtok 40 "," 32 0 102), (mkPtok 31 (string_of_bytes [34; 92; 195; 169; 34]%N) 32 2 103)); ((mkPtok 40 "," 32 8 104), (mkPtok 31 """1""" 32 10 105)); ((mkPtok 40 "," 32 13 106), (mkPtok 31 """packet""" 32 15 107)); ((mkPtok 40 "," 32 24 108), (mkPtok 30 "255" 32 26 109)); ((mkPtok 40 "," 33 0 110), (mkPtok 31 """{,}""" 33 2 111))] (mkPtok 13 "]" 33 8 112))) (mkPtok 39 ":" 33 9 113) (mkPtok 42 "crc" 33 11 114) (Some (mkPtok 40 "," 33 15 115))); (mkMatchPair (mkSpan (mkPtok 30 "0123456789" 34 0 116) (mkPtok 42 "rootA" 34 14 118)) (MKDigits (mkPtok 30 "0123456789" 34 0 116)) (mkPtok 39 ":" 34 12 117) (mkPtok 42 "rootA" 34 14 118) None); (mkMatchPair (mkSpan (mkPtok 18 "[" 34 20 119) (mkPtok 40 "," 36 10 125)) (MKList (mkKeyList (mkSpan (mkPtok 18 "[" 34 20 119) (mkPtok 13 "]" 34 27 121)) (mkPtok 18 "[" 34 20 119) (mkPtok 31 """\n""" 34 22 120) [] (mkPtok 13 "]" 34 27 121))) (mkPtok 39 ":" 34 29 122) (mkPtok 42 "charz" 36 4 124) (Some (mkPtok 40 "," 36 10 125))); (mkMatchPair (mkSpan (mkPtok 18 "[" 36 12 126) (mkPtok 40 "," 37 3 133)) (MKList (mkKeyList (mkSpan (mkPtok 18 "[" 36 12 126) (mkPtok 13 "]" 36 27 130)) (mkPtok 18 "[" 36 12 126) (mkPtok 31 """packet""" 36 14 127) [((mkPtok 40 "," 36 22 128), (mkPtok 30 "10" 36 24 129))] (mkPtok 13 "]" 36 27 130))) (mkPtok 39 ":" 37 0 131) (mkPtok 42 "T" 37 1 132) (Some (mkPtok 40 "," 37 3 133)))] (mkPtok 3 "}" 37 5 134)) (mkPtok 40 "," 38 0 135))] (mkPtok 3 "}" 38 2 136)) (mkPtok 40 "," 39 0 138))); (mkFieldWithAttr (mkSpan (mkPtok 36 "repeat" 40 0 140) (mkPtok 40 "," 42 6 146)) [] (MetaField (mkSpan (mkPtok 36 "repeat" 40 0 140) (mkPtok 40 "," 42 6 146)) (Some (mkPtok 36 "repeat" 40 0 140)) (mkMetaDecl (mkSpan (mkPtok 14 "zchar[" 41 0 141) (mkPtok 40 "," 42 6 146)) (TyFixed (mkSpan (mkPtok 14 "zchar[" 41 0 141) (mkPtok 13 "]" 41 12 143)) (mkFixedString (mkSpan (mkPtok 14 "zchar[" 41 0 141) (mkPtok 13 "]" 41 12 143)) (mkPtok 14 "zchar[" 41 0 141) (mkPtok 30 "007" 41 7 142) (mkPtok 13 "]" 41 12 143))) (mkPtok 42 "matchKey" 41 13 144) (Some (mkPtok 43 (string_of_bytes [96; 99; 114; 108; 102; 13; 10; 108; 105; 110; 101; 96]%N) 41 22 145)) (mkPtok 40 "," 42 6 146)))); (mkFieldWithAttr (mkSpan (mkPtok 32 "@rightPad" 43 4 147) (mkPtok 40 "," 48 12 159)) [(FAPadding (mkSpan (mkPtok 32 "@rightPad" 43 4 147) (mkPtok 6 ")" 45 8 151)) (mkPaddingAttr (mkSpan (mkPtok 32 "@rightPad" 43 4 147) (mkPtok 6 ")" 45 8 151)) (mkPtok 32 "@rightPad" 43 4 147) (mkPtok 8 "(" 44 0 149) (Some (mkPtok 33 "'0'" 45 4 150)) (mkPtok 6 ")" 45 8 151)))] (MetaField (mkSpan (mkPtok 36 "repeat" 47 4 153) (mkPtok 40 "," 48 12 159)) (Some (mkPtok 36 "repeat" 47 4 153)) (mkMetaDecl (mkSpan (mkPtok 12 "char[" 47 11 154) (mkPtok 40 "," 48 12 159)) (TyFixed (mkSpan (mkPtok 12 "char[" 47 11 154) (mkPtok 13 "]" 47 20 156)) (mkFixedString (mkSpan (mkPtok 12 "char[" 47 11 154) (mkPtok 13 "]" 47 20 156)) (mkPtok 12 "char[" 47 11 154) (mkPtok 30 "00" 47 17 155) (mkPtok 13 "]" 47 20 156))) (mkPtok 42 "pack" 48 0 157) (Some (mkPtok 43 "`{ , }`" 48 4 158)) (mkPtok 40 "," 48 12 159)))); (mkFieldWithAttr (mkSpan (mkPtok 42 "i8i8" 49 0 161) (mkPtok 40 "," 50 0 162)) [] (ObjectField (mkSpan (mkPtok 42 "i8i8" 49 0 161) (mkPtok 40 "," 50 0 162)) None (mkPtok 42 "i8i8" 49 0 161) None None (mkPtok 40 "," 50 0 162))); (mkFieldWithAttr (mkSpan (mkPtok 42 "f32a" 50 2 163) (mkPtok 40 "," 55 4 178)) [] (InerObjectField (mkSpan (mkPtok 42 "f32a" 50 2 163) (mkPtok 40 "," 55 4 178)) None (InerObjectDecl (mkSpan (mkPtok 42 "f32a" 50 2 163) (mkPtok 3 "}" 54 2 177)) (mkPtok 42 "f32a" 50 2 163) (mkPtok 2 "{" 51 4 164) [(ObjectField (mkSpan (mkPtok 42 "u128" 51 6 165) (mkPtok 40 "," 52 12 167)) None (mkPtok 42 "u128" 51 6 165) (Some (mkPtok 42 "packetx" 52 4 166)) None (mkPtok 40 "," 52 12 167)); (ObjectField (mkSpan (mkPtok 42 "MetaDataX" 52 14 168) (mkPtok 40 "," 52 33 170)) None (mkPtok 42 "MetaDataX" 52 14 168) (Some (mkPtok 42 "msg_type" 52 24 169)) None (mkPtok 40 "," 52 33 170)); (MetaField (mkSpan (mkPtok 12 "char[" 53 0 171) (mkPtok 40 "," 54 0 176)) None (mkMetaDecl (mkSpan (mkPtok 12 "char[" 53 0 171) (mkPtok 40 "," 54 0 176)) (TyFixed (mkSpan (mkPtok 12 "char[" 53 0 171) (mkPtok 13 "]" 53 11 173)) (mkFixedString (mkSpan (mkPtok 12 "char[" 53 0 171) (mkPtok 13 "]" 53 11 173)) (mkPtok 12 "char[" 53 0 171) (mkPtok 30 "65535" 53 6 172) (mkPtok 13 "]" 53 11 173))) (mkPtok 42 "falsey" 53 13 174) (Some (mkPtok 43 (string_of_bytes [96; 230; 182; 136; 230; 129; 175; 231; 177; 187; 229; 158; 139; 96]%N) 53 20 175)) (mkPtok 40 "," 54 0 176)))] (mkPtok 3 "}" 54 2 177)) (mkPtok 40 "," 55 4 178)))] (mkPtok 3 "}" 55 6 179))); (DPacket (mkPacketDef (mkSpan (mkPtok 35 "packet" 55 8 180) (mkPtok 3 "}" 60 7 205)) None (mkPtok 35 "packet" 55 8 180) (mkPtok 42 "uint8x" 55 15 181) (mkPtok 2 "{" 55 22 182) [(mkFieldWithAttr (mkSpan (mkPtok 22 "uint32" 55 24 183) (mkPtok 40 "," 55 47 186)) [] (MetaField (mkSpan (mkPtok 22 "uint32" 55 24 183) (mkPtok 40 "," 55 47 186)) None (mkMetaDecl (mkSpan (mkPtok 22 "uint32" 55 24 183) (mkPtok 40 "," 55 47 186)) (TyBasic (mkSpan (mkPtok 22 "uint32" 55 24 183) (mkPtok 22 "uint32" 55 24 183)) (mkBasicType (mkSpan (mkPtok 22 "uint32" 55 24 183) (mkPtok 22 "uint32" 55 24 183)) (mkPtok 22 "uint32" 55 24 183))) (mkPtok 42 "msg_type" 55 31 184) (Some (mkPtok 43 "`u8 x,`" 55 39 185)) (mkPtok 40 "," 55 47 186)))); (mkFieldWithAttr (mkSpan (mkPtok 12 "char[" 55 49 187) (mkPtok 40 "," 57 8 194)) [] (MetaField (mkSpan (mkPtok 12 "char[" 55 49 187) (mkPtok 40 "," 57 8 194)) None (mkMetaDecl (mkSpan (mkPtok 12 "char[" 55 49 187) (mkPtok 40 "," 57 8 194)) (TyFixed (mkSpan (mkPtok 12 "char[" 55 49 187) (mkPtok 13 "]" 55 61 189)) (mkFixedString (mkSpan (mkPtok 12 "char[" 55 49 187) (mkPtok 13 "]" 55 61 189)) (mkPtok 12 "char[" 55 49 187) (mkPtok 30 "65535" 55 55 188) (mkPtok 13 "]" 55 61 189))) (mkPtok 42 "o" 56 0 191) (Some (mkPtok 43 "`u8 x,`" 57 0 193)) (mkPtok 40 "," 57 8 194)))); (mkFieldWithAttr (mkSpan (mkPtok 32 "@rightPad" 57 10 195) (mkPtok 40 "," 60 6 204)) [(FAPadding (mkSpan (mkPtok 32 "@rightPad" 57 10 195) (mkPtok 6 ")" 58 9 198)) (mkPaddingAttr (mkSpan (mkPtok 32 "@rightPad" 57 10 195) (mkPtok 6 ")" 58 9 198)) (mkPtok 32 "@rightPad" 57 10 195) (mkPtok 8 "(" 58 0 196) (Some (mkPtok 33 "'\x00'" 58 2 197)) (mkPtok 6 ")" 58 9 198)))] (LengthField (mkSpan (mkPtok 42 "int" 59 0 199) (mkPtok 40 "," 60 6 204)) (mkLengthFieldDecl (mkSpan (mkPtok 42 "int" 59 0 199) (mkPtok 40 "," 60 6 204)) None (mkPtok 42 "int" 59 0 199) (mkLengthOf (mkSpan (mkPtok 7 "@lengthOf(" 59 4 200) (mkPtok 6 ")" 59 19 202)) (mkPtok 7 "@lengthOf(" 59 4 200) (mkPtok 42 "int" 59 15 201) (mkPtok 6 ")" 59 19 202)) (Some (mkPtok 43 (string_of_bytes [96; 99; 114; 108; 102; 13; 10; 108; 105; 110; 101; 96]%N) 59 20 203)) (mkPtok 40 "," 60 6 204))))] (mkPtok 3 "}" 60 7 205))); (DPacket (mkPacketDef (mkSpan (mkPtok 35 "packet" 60 8 206) (mkPtok 3 "}" 84 50 269)) None (mkPtok 35 "packet" 60 8 206) (mkPtok 42 "Logon" 60 15 207) (mkPtok 2 "{" 60 20 208) [(mkFieldWithAttr (mkSpan (mkPtok 16 "char[]" 60 22 209) (mkPtok 40 "," 60 37 211)) [] (MetaField (mkSpan (mkPtok 16 "char[]" 60 22 209) (mkPtok 40 "," 60 37 211)) None (mkMetaDecl (mkSpan (mkPtok 16 "char[]" 60 22 209) (mkPtok 40 "," 60 37 211)) (TyDynamic (mkSpan (mkPtok 16 "char[]" 60 22 209) (mkPtok 16 "char[]" 60 22 209)) (mkDynamicString (mkSpan (mkPtok 16 "char[]" 60 22 209) (mkPtok 16 "char[]" 60 22 209)) (mkPtok 16 "char[]" 60 22 209))) (mkPtok 42 "string_" 60 29 210) None (mkPtok 40 "," 60 37 211)))); (mkFieldWithAttr (mkSpan (mkPtok 15 "string" 61 4 212) (mkPtok 40 "," 65 4 219)) [] (LengthField (mkSpan (mkPtok 15 "string" 61 4 212) (mkPtok 40 "," 65 4 219)) (mkLengthFieldDecl (mkSpan (mkPtok 15 "string" 61 4 212) (mkPtok 40 "," 65 4 219)) (Some (TyDynamic (mkSpan (mkPtok 15 "string" 61 4 212) (mkPtok 15 "string" 61 4 212)) (mkDynamicString (mkSpan (mkPtok 15 "string" 61 4 212) (mkPtok 15 "string" 61 4 212)) (mkPtok 15 "string" 61 4 212)))) (mkPtok 42 "repeatCount" 61 11 213) (mkLengthOf (mkSpan (mkPtok 7 "@lengthOf(" 62 0 215) (mkPtok 6 ")" 63 0 217)) (mkPtok 7 "@lengthOf(" 62 0 215) (mkPtok 42 "_x" 62 11 216) (mkPtok 6 ")" 63 0 217)) None (mkPtok 40 "," 65 4 219)))); (mkFieldWithAttr (mkSpan (mkPtok 5 "@calculatedFrom(" 65 7 220) (mkPtok 40 "," 72 9 237)) [(FACalculatedFrom (mkSpan (mkPtok 5 "@calculatedFrom(" 65 7 220) (mkPtok 6 ")" 65 29 222)) (mkCalculatedFrom (mkSpan (mkPtok 5 "@calculatedFrom(" 65 7 220) (mkPtok 6 ")" 65 29 222)) (mkPtok 5 "@calculatedFrom(" 65 7 220) (mkPtok 31 (string_of_bytes [34; 92; 195; 169; 34]%N) 65 24 221) (mkPtok 6 ")" 65 29 222))); (FALengthOf (mkSpan (mkPtok 7 "@lengthOf(" 65 30 223) (mkPtok 6 ")" 65 48 225)) (mkLengthOf (mkSpan (mkPtok 7 "@lengthOf(" 65 30 223) (mkPtok 6 ")" 65 48 225)) (mkPtok 7 "@lengthOf(" 65 30 223) (mkPtok 42 "trueish" 65 41 224) (mkPtok 6 ")" 65 48 225))); (FATag (mkSpan (mkPtok 9 "@tag(" 65 50 226) (mkPtok 6 ")" 68 4 230)) (mkTagAttr (mkSpan (mkPtok 9 "@tag(" 65 50 226) (mkPtok 6 ")" 68 4 230)) (mkPtok 9 "@tag(" 65 50 226) (mkPtok 30 "007" 68 0 229) (mkPtok 6 ")" 68 4 230)))] (LengthField (mkSpan (mkPtok 24 "i8" 68 6 231) (mkPtok 40 "," 72 9 237)) (mkLengthFieldDecl (mkSpan (mkPtok 24 "i8" 68 6 231) (mkPtok 40 "," 72 9 237)) (Some (TyBasic (mkSpan (mkPtok 24 "i8" 68 6 231) (mkPtok 24 "i8" 68 6 231)) (mkBasicType (mkSpan (mkPtok 24 "i8" 68 6 231) (mkPtok 24 "i8" 68 6 231)) (mkPtok 24 "i8" 68 6 231)))) (mkPtok 42 "a1" 69 4 232) (mkLengthOf (mkSpan (mkPtok 7 "@lengthOf(" 70 0 233) (mkPtok 6 ")" 72 0 235)) (mkPtok 7 "@lengthOf(" 70 0 233) (mkPtok 42 "BodyLength" 71 0 234) (mkPtok 6 ")" 72 0 235)) (Some (mkPtok 43 "`it's`" 72 2 236)) (mkPtok 40 "," 72 9 237)))); (mkFieldWithAttr (mkSpan (mkPtok 32 "@rightPad" 72 11 238) (mkPtok 40 "," 84 49 268)) [(FAPadding (mkSpan (mkPtok 32 "@rightPad" 72 11 238) (mkPtok 6 ")" 72 26 241)) (mkPaddingAttr (mkSpan (mkPtok 32 "@rightPad" 72 11 238) (mkPtok 6 ")" 72 26 241)) (mkPtok 32 "@rightPad" 72 11 238) (mkPtok 8 "(" 72 21 239) (Some (mkPtok 33 "' '" 72 23 240)) (mkPtok 6 ")" 72 26 241))); (FACalculatedFrom (mkSpan (mkPtok 5 "@calculatedFrom(" 72 28 242) (mkPtok 6 ")" 74 0 245)) (mkCalculatedFrom (mkSpan (mkPtok 5 "@calculatedFrom(" 72 28 242) (mkPtok 6 ")" 74 0 245)) (mkPtok 5 "@calculatedFrom(" 72 28 242) (mkPtok 31 """{,}""" 73 4 243) (mkPtok 6 ")" 74 0 245))); (FALengthOf (mkSpan (mkPtok 7 "@lengthOf(" 74 2 246) (mkPtok 6 ")" 79 0 251)) (mkLengthOf (mkSpan (mkPtok 7 "@lengthOf(" 74 2 246) (mkPtok 6 ")" 79 0 251)) (mkPtok 7 "@lengthOf(" 74 2 246) (mkPtok 42 "zchar" 76 4 248) (mkPtok 6 ")" 79 0 251)))] (InerObjectField (mkSpan (mkPtok 36 "repeat" 79 2 252) (mkPtok 40 "," 84 49 268)) (Some (mkPtok 36 "repeat" 79 2 252)) (InerObjectDecl (mkSpan (mkPtok 42 "_x" 80 4 253) (mkPtok 3 "}" 84 48 267)) (mkPtok 42 "_x" 80 4 253) (mkPtok 2 "{" 80 7 254) [(ObjectField (mkSpan (mkPtok 42 "len" 81 4 255) (mkPtok 40 "," 82 0 256)) None (mkPtok 42 "len" 81 4 255) None None (mkPtok 40 "," 82 0 256)); (MetaField (mkSpan (mkPtok 36 "repeat" 82 2 257) (mkPtok 40 "," 84 23 262)) (Some (mkPtok 36 "repeat" 82 2 257)) (mkMetaDecl (mkSpan (mkPtok 21 "uint16" 82 9 258) (mkPtok 40 "," 84 23 262)) (TyBasic (mkSpan (mkPtok 21 "uint16" 82 9 258) (mkPtok 21 "uint16" 82 9 258)) (mkBasicType (mkSpan (mkPtok 21 "uint16" 82 9 258) (mkPtok 21 "uint16" 82 9 258)) (mkPtok 21 "uint16" 82 9 258))) (mkPtok 42 "trueish" 84 4 260) (Some (mkPtok 43 "`say ""hi""`" 84 12 261)) (mkPtok 40 "," 84 23 262))); (MetaField (mkSpan (mkPtok 21 "u16" 84 25 263) (mkPtok 40 "," 84 47 266)) None (mkMetaDecl (mkSpan (mkPtok 21 "u16" 84 25 263) (mkPtok 40 "," 84 47 266)) (TyBasic (mkSpan (mkPtok 21 "u16" 84 25 263) (mkPtok 21 "u16" 84 25 263)) (mkBasicType (mkSpan (mkPtok 21 "u16" 84 25 263) (mkPtok 21 "u16" 84 25 263)) (mkPtok 21 "u16" 84 25 263))) (mkPtok 42 "roots" 84 29 264) (Some (mkPtok 43 "`two words`" 84 35 265)) (mkPtok 40 "," 84 47 266)))] (mkPtok 3 "}" 84 48 267)) (mkPtok 40 "," 84 49 268)))] (mkPtok 3 "}" 84 50 269)))])).
Eval vm_compute in ("<<<M402>>>" ++ check (runes_of_ascii "packet
len
    /// triple
    { @tag(1
) zchar[1 ] Foo
@lengthOf( Foo )
,T zchar
``
, }

")).
Eval vm_compute in ("<<<M434>>>" ++ check (runes_of_ascii "// " ++ [128512]%N ++ runes_of_ascii " emoji
")).
Eval vm_compute in ("<<<M466>>>" ++ check (runes_of_ascii "
")).
Eval vm_compute in ("<<<M498>>>" ++ check (runes_of_ascii "options { i64_	= ""\n""; BodyLength
    = float64 i64_ =
    false ; }MetaData  Packet  {	uint16 A `u8 x,` ,
    zchar[ 007 ]i64_ , char[ 007	]
chars ,
    float64
x_y_z,MetaDataX stringy`// not a comment`, }
MetaData
msg_type { }")).
Eval vm_compute in ("<<<M530>>>" ++ check (runes_of_ascii "
root
packet  a1 { uint64
    charz
,
BodyLength	_x`
`
    ,	u64 roots `tab	here`	,
match calculatedFrom as calculatedFrom { 10:  leftPad } ,
i64_ @calculatedFrom( ""// no comment"" )
,
match
// a // b
/// triple
len as BodyLength { [ ""CRC32"" //x
, ""\" ++ [233]%N ++ runes_of_ascii """]
:  MetaDataX , } ,uint64 trueish `u8 x,`// trailing space 
, repeat
i32 options1
,// @lengthOf(
}
packet pack//	t
{float32 asx
    `a\` , int64 charz
    //	t
    @lengthOf(  repeatCount ) `" ++ [28040; 24687; 31867; 22411]%N ++ runes_of_ascii "`, @lengthOf(	u8x )
BodyLength @calculatedFrom(  ""a\\"")  , @lengthOf(
    Packet )repeat
    u32 Pad	,/// triple
}	packet options1{
    @rightPad  ('0'
    )i8i8  @lengthOf( stringy) ,
int64
    As ,	f64 crc
    @lengthOf( u128 ) , rootA @calculatedFrom( ""1"" ) `a\`	,
    }packet _x { repeat T x_y_z
// trailing space 
// @lengthOf(
`line1
line2`
, }root	packet //x
Foo
{ @lengthOf(
Logon
) @calculatedFrom( ""{,}""
    ) @calculatedFrom( ""`tick`"" )match roots// packet A { u8 x, }
as charz	{ 7 :
string_
//
// `tick` ""quote"" 'q'
},u64// trailing space 
u@calculatedFrom( ""\" ++ [233]%N ++ runes_of_ascii """ )
// trailing space 
// a // b
,
@tag(
007 )
    // packet A { u8 x, }
    @lengthOf( zchar ) match body as trueish
{ [ 10
, ""packet"" ,3 ,
    0 ,
    00 , """"	]
:repeatCount
    // a // b
    , // " ++ [128512]%N ++ runes_of_ascii " emoji
[ // `tick` ""quote"" 'q'
4294967296 ]  : Logon [ ""CRC32"" , ""it's""
] :  x_y_z ,} ,  T x
,Pad , u8x T
`{ , }`  ,@lengthOf( As
    ) match o as repeatCount// a // b
{[
    255  ] :uint8x// a // b
, } , u128 Foo ,} 	 ")).
Eval vm_compute in ("<<<M562>>>" ++ check (runes_of_ascii "
packet x_y_z // " ++ [27880; 37322]%N ++ runes_of_ascii "
{ x_y_z @calculatedFrom(""CRC32"" )
, x{ char[	0123456789 ]
    msg_type @lengthOf( float
    ), body
    calculatedFrom `line1
line2`
, match
Header
as stringy
    { [ 255 ] :x , 10: options1 // trailing space 
, } ,
    } , repeat char[] options1 `u8 x,`// " ++ [128512]%N ++ runes_of_ascii " emoji
, metadata @calculatedFrom(""\" ++ [233]%N ++ runes_of_ascii """
    //
    )
`` , string
falsey ,
    @rightPad
    // packet A { u8 x, }
    ( ' '
) @tag( 007 ) string repeatCount ,
    options1 @calculatedFrom(
// c
//
""packet"")// @lengthOf(
,
@lengthOf(
    BodyLength ) char[] matchKey//x
@calculatedFrom( ""a	b"" ),} // packet A { u8 x, }")).
Eval vm_compute in ("<<<M594>>>" ++ check (runes_of_ascii "options {
    uint8x= 3	;
    crc= 42 Logon  = '\x00' falsey= false }  root
    packet zchar {int16// trailing space 
u, } root packet
Header {@rightPad ( ' ' )@lengthOf( a1 )repeat body, zchar[
65535 ] string_ // `tick` ""quote"" 'q'
@lengthOf( MetaDataX ) , // @lengthOf(
}
")).
Eval vm_compute in ("<<<T594>>>" ++ terms [mkTok 1 "options" 1 0 false; mkTok 2 "{" 1 8 false; mkTok 42 "uint8x" 2 4 false; mkTok 4 "=" 2 10 false; mkTok 30 "3" 2 12 false; mkTok 41 ";" 2 14 false; mkTok 42 "crc" 3 4 false; mkTok 4 "=" 3 7 false; mkTok 30 "42" 3 9 false; mkTok 42 "Logon" 3 12 false; mkTok 4 "=" 3 19 false; mkTok 33 "'\x00'" 3 21 false; mkTok 42 "falsey" 3 28 false; mkTok 4 "=" 3 34 false; mkTok 11 "false" 3 36 false; mkTok 3 "}" 3 42 false; mkTok 34 "root" 3 45 false; mkTok 35 "packet" 4 4 false; mkTok 42 "zchar" 4 11 false; mkTok 2 "{" 4 17 false; mkTok 25 "int16" 4 18 false; mkTok 44 "// trailing space " 4 23 true; mkTok 42 "u" 5 0 false; mkTok 40 "," 5 1 false; mkTok 3 "}" 5 3 false; mkTok 34 "root" 5 5 false; mkTok 35 "packet" 5 10 false; mkTok 42 "Header" 6 0 false; mkTok 2 "{" 6 7 false; mkTok 32 "@rightPad" 6 8 false; mkTok 8 "(" 6 18 false; mkTok 33 "' '" 6 20 false; mkTok 6 ")" 6 24 false; mkTok 7 "@lengthOf(" 6 25 false; mkTok 42 "a1" 6 36 false; mkTok 6 ")" 6 39 false; mkTok 36 "repeat" 6 40 false; mkTok 42 "body" 6 47 false; mkTok 40 "," 6 51 false; mkTok 14 "zchar[" 6 53 false; mkTok 30 "65535" 7 0 false; mkTok 13 "]" 7 6 false; mkTok 42 "string_" 7 8 false; mkTok 44 "// `tick` ""quote"" 'q'" 7 16 true; mkTok 7 "@lengthOf(" 8 0 false; mkTok 42 "MetaDataX" 8 11 false; mkTok 6 ")" 8 21 false; mkTok 40 "," 8 23 false; mkTok 44 "// @lengthOf(" 8 25 true; mkTok 3 "}" 9 0 false; mkTok 0 "<EOF>" 10 0 false] (mkPacket (mkPtok 1 "options" 1 0 0) (Some (mkPtok 3 "}" 9 0 49)) [(DOption (mkOptionDef (mkSpan (mkPtok 1 "options" 1 0 0) (mkPtok 3 "}" 3 42 15)) (mkPtok 1 "options" 1 0 0) (mkPtok 2 "{" 1 8 1) [(mkOptionDecl (mkSpan (mkPtok 42 "uint8x" 2 4 2) (mkPtok 41 ";" 2 14 5)) (mkPtok 42 "uint8x" 2 4 2) (mkPtok 4 "=" 2 10 3) (VDigits (mkSpan (mkPtok 30 "3" 2 12 4) (mkPtok 30 "3" 2 12 4)) (mkPtok 30 "3" 2 12 4)) (Some (mkPtok 41 ";" 2 14 5))); (mkOptionDecl (mkSpan (mkPtok 42 "crc" 3 4 6) (mkPtok 30 "42" 3 9 8)) (mkPtok 42 "crc" 3 4 6) (mkPtok 4 "=" 3 7 7) (VDigits (mkSpan (mkPtok 30 "42" 3 9 8) (mkPtok 30 "42" 3 9 8)) (mkPtok 30 "42" 3 9 8)) None); (mkOptionDecl (mkSpan (mkPtok 42 "Logon" 3 12 9) (mkPtok 33 "'\x00'" 3 21 11)) (mkPtok 42 "Logon" 3 12 9) (mkPtok 4 "=" 3 19 10) (VPaddingChar (mkSpan (mkPtok 33 "'\x00'" 3 21 11) (mkPtok 33 "'\x00'" 3 21 11)) (mkPtok 33 "'\x00'" 3 21 11)) None); (mkOptionDecl (mkSpan (mkPtok 42 "falsey" 3 28 12) (mkPtok 11 "false" 3 36 14)) (mkPtok 42 "falsey" 3 28 12) (mkPtok 4 "=" 3 34 13) (VFalse (mkSpan (mkPtok 11 "false" 3 36 14) (mkPtok 11 "false" 3 36 14)) (mkPtok 11 "false" 3 36 14)) None)] (mkPtok 3 "}" 3 42 15))); (DPacket (mkPacketDef (mkSpan (mkPtok 34 "root" 3 45 16) (mkPtok 3 "}" 5 3 24)) (Some (mkPtok 34 "root" 3 45 16)) (mkPtok 35 "packet" 4 4 17) (mkPtok 42 "zchar" 4 11 18) (mkPtok 2 "{" 4 17 19) [(mkFieldWithAttr (mkSpan (mkPtok 25 "int16" 4 18 20) (mkPtok 40 "," 5 1 23)) [] (MetaField (mkSpan (mkPtok 25 "int16" 4 18 20) (mkPtok 40 "," 5 1 23)) None (mkMetaDecl (mkSpan (mkPtok 25 "int16" 4 18 20) (mkPtok 40 "," 5 1 23)) (TyBasic (mkSpan (mkPtok 25 "int16" 4 18 20) (mkPtok 25 "int16" 4 18 20)) (mkBasicType (mkSpan (mkPtok 25 "int16" 4 18 20) (mkPtok 25 "int16" 4 18 20)) (mkPtok 25 "int16" 4 18 20))) (mkPtok 42 "u" 5 0 22) None (mkPtok 40 "," 5 1 23))))] (mkPtok 3 "}" 5 3 24))); (DPacket (mkPacketDef (mkSpan (mkPtok 34 "root" 5 5 25) (mkPtok 3 "}" 9 0 49)) (Some (mkPtok 34 "root" 5 5 25)) (mkPtok 35 "packet" 5 10 26) (mkPtok 42 "Header" 6 0 27) (mkPtok 2 "{" 6 7 28) [(mkFieldWithAttr (mkSpan (mkPtok 32 "@rightPad" 6 8 29) (mkPtok 40 "," 6 51 38)) [(FAPadding (mkSpan (mkPtok 32 "@rightPad" 6 8 29) (mkPtok 6 ")" 6 24 32)) (mkPaddingAttr (mkSpan (mkPtok 32 "@rightPad" 6 8 29) (mkPtok 6 ")" 6 24 32)) (mkPtok 32 "@rightPad" 6 8 29) (mkPtok 8 "(" 6 18 30) (Some (mkPtok 33 "' '" 6 20 31)) (mkPtok 6 ")" 6 24 32))); (FALengthOf (mkSpan (mkPtok 7 "@lengthOf(" 6 25 33) (mkPtok 6 ")" 6 39 35)) (mkLengthOf (mkSpan (mkPtok 7 "@lengthOf(" 6 25 33) (mkPtok 6 ")" 6 39 35)) (mkPtok 7 "@lengthOf(" 6 25 33) (mkPtok 42 "a1" 6 36 34) (mkPtok 6 ")" 6 39 35)))] (ObjectField (mkSpan (mkPtok 36 "repeat" 6 40 36) (mkPtok 40 "," 6 51 38)) (Some (mkPtok 36 "repeat" 6 40 36)) (mkPtok 42 "body" 6 47 37) None None (mkPtok 40 "," 6 51 38))); (mkFieldWithAttr (mkSpan (mkPtok 14 "zchar[" 6 53 39) (mkPtok 40 "," 8 23 47)) [] (LengthField (mkSpan (mkPtok 14 "zchar[" 6 53 39) (mkPtok 40 "," 8 23 47)) (mkLengthFieldDecl (mkSpan (mkPtok 14 "zchar[" 6 53 39) (mkPtok 40 "," 8 23 47)) (Some (TyFixed (mkSpan (mkPtok 14 "zchar[" 6 53 39) (mkPtok 13 "]" 7 6 41)) (mkFixedString (mkSpan (mkPtok 14 "zchar[" 6 53 39) (mkPtok 13 "]" 7 6 41)) (mkPtok 14 "zchar[" 6 53 39) (mkPtok 30 "65535" 7 0 40) (mkPtok 13 "]" 7 6 41)))) (mkPtok 42 "string_" 7 8 42) (mkLengthOf (mkSpan (mkPtok 7 "@lengthOf(" 8 0 44) (mkPtok 6 ")" 8 21 46)) (mkPtok 7 "@lengthOf(" 8 0 44) (mkPtok 42 "MetaDataX" 8 11 45) (mkPtok 6 ")" 8 21 46)) None (mkPtok 40 "," 8 23 47))))] (mkPtok 3 "}" 9 0 49)))])).
Eval vm_compute in ("<<<M626>>>" ++ check (runes_of_ascii "
")).
Eval vm_compute in ("<<<M658>>>" ++ check (runes_of_ascii "root packet
packetx
    {	string_  leftPad ,
// " ++ [27880; 37322]%N ++ runes_of_ascii "
//x
} root
    packet  o
{x metadata `it's`, uint8
metadata , i32
    trueish, i64_ @calculatedFrom( ""`tick`"") ,// packet A { u8 x, }
match matchKey  as
repeatCount {[ //x
""`tick`""
]
: Pad , 10
    :
    // `tick` ""quote"" 'q'
    charz ,  7 : msg_type// c
}
, float64 body
    @calculatedFrom( ""it's"") ,x_y_z @lengthOf(Header /// triple
),body @calculatedFrom(
    """ ++ [28040; 24687]%N ++ runes_of_ascii """
    )`{ , }` ,
} options{ } // " ++ [128512]%N ++ runes_of_ascii " emoji
options{ Z9_/// triple
=
    true;Z9_ = false leftPad = //x
' 'As =char[] ;	}")).
Eval vm_compute in ("<<<M690>>>" ++ check (runes_of_ascii "packet lengthOf
{match u128	as i8i8
// " ++ [128512]%N ++ runes_of_ascii " emoji
// c
{""a\\"" :Header
, } // `tick` ""quote"" 'q'
, }")).
Eval vm_compute in ("<<<M722>>>" ++ check (runes_of_ascii "packet charz { @tag(7) repeat _x , }MetaData x	{ i32 float , f32 u8x,uint64
rootA	`crlf
line` , }  options{ T
= f64 ;
    calculatedFrom=
true	}
packet trueish {
    } root
    //	t
    packet rootA
{ crc _x `say ""hi""`, stringy
    //
    uint8x, repeat
x_y_z`u8 x,`
, }
")).
Eval vm_compute in ("<<<M754>>>" ++ check (runes_of_ascii "packet
As // trailing space 
{
match asx as Header {  10
:Packet ""abc""	:u ,
    42
:Header , [ ""a	b"" ,
    255,42
    ] // trailing space 
:  leftPad 00 : int  , [ ""x y"",
7] : packetx
    , } , repeat zchar[
007
]options1
, body // @lengthOf(
MetaDataX
    // " ++ [27880; 37322]%N ++ runes_of_ascii "
    ,
    @leftPad
()
string x_y_z ,
    @lengthOf(x )
@rightPad	('0' )match
    T as tag { ""CRC32""
:
    stringy  ,00://x
packetx [
    // `tick` ""quote"" 'q'
    255	,""packet"" // a // b
]: A
    , [ 255 ,
//x
//	t
1
//	t
// @lengthOf(
,
    // @lengthOf(
    ""abc"" , 1
// " ++ [27880; 37322]%N ++ runes_of_ascii "
//	t
,
""1"" , """ ++ [233]%N ++ runes_of_ascii "t" ++ [233]%N ++ runes_of_ascii """ , 10 , // packet A { u8 x, }
00] : i8i8
    ""\n"" // a // b
:
_x,
    } ,MetaDataX {match trueish as uint8x { 1
:x , 3
:
    a1 , ""a\""b"" : u128 ,  },
} , float64 calculatedFrom @calculatedFrom( """ ++ [28040; 24687]%N ++ runes_of_ascii """
//	t
//x
) // c
`u8 x,`	,u64
    float @lengthOf( // " ++ [128512]%N ++ runes_of_ascii " emoji
matchKey ), }options
{ metadata
= //x
""{,}""//
a1 =
    u8 ;
falsey=  1 ; _x =
zchar[65535 ] Header =	' ' }
    MetaData T {
} MetaData Z9_{  string
// " ++ [27880; 37322]%N ++ runes_of_ascii "
//	t
f32a
,
len zchar
    ,
    }
")).
Eval vm_compute in ("<<<M786>>>" ++ check (runes_of_ascii "packet metadata { match trueish
as body
    { 0123456789
    :A, 1
    :
    rootA [//
""packet"" ,65535 , 65535 , ""a	b""
    ,42 , ""x y"" , 1// @lengthOf(
, 0 ]	:
// packet A { u8 x, }
// " ++ [128512]%N ++ runes_of_ascii " emoji
u128 ,//	t
10 :
As ,
    0123456789 :stringy ,
""x y""	: BodyLength, } ,
i64_ options1`a\` , } packet
trueish {
    /// triple
    }packet BodyLength	{ i32 charz ,
@calculatedFrom(// @lengthOf(
""" ++ [28040; 24687]%N ++ runes_of_ascii """ )	repeat float32 asx `doc` , } // trailing space ")).
Eval vm_compute in ("<<<M818>>>" ++ check (runes_of_ascii "MetaData
msg_type { float32 metadata `line1
line2`,
    uint16 msg_type `// not a comment` ,
    float
    Pad, float64 trueish`{ , }`, x
    stringy
    // " ++ [128512]%N ++ runes_of_ascii " emoji
    `tab	here` ,}")).
Eval vm_compute in ("<<<T818>>>" ++ terms [mkTok 37 "MetaData" 1 0 false; mkTok 42 "msg_type" 2 0 false; mkTok 2 "{" 2 9 false; mkTok 28 "float32" 2 11 false; mkTok 42 "metadata" 2 19 false; mkTok 43 (string_of_bytes [96; 108; 105; 110; 101; 49; 10; 108; 105; 110; 101; 50; 96]%N) 2 28 false; mkTok 40 "," 3 6 false; mkTok 21 "uint16" 4 4 false; mkTok 42 "msg_type" 4 11 false; mkTok 43 "`// not a comment`" 4 20 false; mkTok 40 "," 4 39 false; mkTok 42 "float" 5 4 false; mkTok 42 "Pad" 6 4 false; mkTok 40 "," 6 7 false; mkTok 29 "float64" 6 9 false; mkTok 42 "trueish" 6 17 false; mkTok 43 "`{ , }`" 6 24 false; mkTok 40 "," 6 31 false; mkTok 42 "x" 6 33 false; mkTok 42 "stringy" 7 4 false; mkTok 44 (string_of_bytes [47; 47; 32; 240; 159; 152; 128; 32; 101; 109; 111; 106; 105]%N) 8 4 true; mkTok 43 (string_of_bytes [96; 116; 97; 98; 9; 104; 101; 114; 101; 96]%N) 9 4 false; mkTok 40 "," 9 15 false; mkTok 3 "}" 9 16 false; mkTok 0 "<EOF>" 9 17 false] (mkPacket (mkPtok 37 "MetaData" 1 0 0) (Some (mkPtok 3 "}" 9 16 23)) [(DMeta (mkMetaDef (mkSpan (mkPtok 37 "MetaData" 1 0 0) (mkPtok 3 "}" 9 16 23)) (mkPtok 37 "MetaData" 1 0 0) (mkPtok 42 "msg_type" 2 0 1) (mkPtok 2 "{" 2 9 2) [(MIDecl (mkMetaDecl (mkSpan (mkPtok 28 "float32" 2 11 3) (mkPtok 40 "," 3 6 6)) (TyBasic (mkSpan (mkPtok 28 "float32" 2 11 3) (mkPtok 28 "float32" 2 11 3)) (mkBasicType (mkSpan (mkPtok 28 "float32" 2 11 3) (mkPtok 28 "float32" 2 11 3)) (mkPtok 28 "float32" 2 11 3))) (mkPtok 42 "metadata" 2 19 4) (Some (mkPtok 43 (string_of_bytes [96; 108; 105; 110; 101; 49; 10; 108; 105; 110; 101; 50; 96]%N) 2 28 5)) (mkPtok 40 "," 3 6 6))); (MIDecl (mkMetaDecl (mkSpan (mkPtok 21 "uint16" 4 4 7) (mkPtok 40 "," 4 39 10)) (TyBasic (mkSpan (mkPtok 21 "uint16" 4 4 7) (mkPtok 21 "uint16" 4 4 7)) (mkBasicType (mkSpan (mkPtok 21 "uint16" 4 4 7) (mkPtok 21 "uint16" 4 4 7)) (mkPtok 21 "uint16" 4 4 7))) (mkPtok 42 "msg_type" 4 11 8) (Some (mkPtok 43 "`// not a comment`" 4 20 9)) (mkPtok 40 "," 4 39 10))); (MIRef (mkRefMetaDecl (mkSpan (mkPtok 42 "float" 5 4 11) (mkPtok 40 "," 6 7 13)) (mkPtok 42 "float" 5 4 11) (mkPtok 42 "Pad" 6 4 12) None (mkPtok 40 "," 6 7 13))); (MIDecl (mkMetaDecl (mkSpan (mkPtok 29 "float64" 6 9 14) (mkPtok 40 "," 6 31 17)) (TyBasic (mkSpan (mkPtok 29 "float64" 6 9 14) (mkPtok 29 "float64" 6 9 14)) (mkBasicType (mkSpan (mkPtok 29 "float64" 6 9 14) (mkPtok 29 "float64" 6 9 14)) (mkPtok 29 "float64" 6 9 14))) (mkPtok 42 "trueish" 6 17 15) (Some (mkPtok 43 "`{ , }`" 6 24 16)) (mkPtok 40 "," 6 31 17))); (MIRef (mkRefMetaDecl (mkSpan (mkPtok 42 "x" 6 33 18) (mkPtok 40 "," 9 15 22)) (mkPtok 42 "x" 6 33 18) (mkPtok 42 "stringy" 7 4 19) (Some (mkPtok 43 (string_of_bytes [96; 116; 97; 98; 9; 104; 101; 114; 101; 96]%N) 9 4 21)) (mkPtok 40 "," 9 15 22)))] (mkPtok 3 "}" 9 16 23)))])).
Eval vm_compute in ("<<<M850>>>" ++ check (runes_of_ascii "packet lengthOf {
    @lengthOf( zchar//x
)char[]// trailing space 
metadata  , @tag(
10 ) string leftPad
,
@lengthOf(i8i8  )//
@leftPad
    //x
    (
'\x00')
    repeat Packet `a\`
, options1 { float
@calculatedFrom( ""it's""), repeat
    calculatedFrom
    i64_	,	}
, uint8 A @lengthOf( leftPad
) `two words`
,
} MetaData repeatCount { }MetaData u8x
{}
")).
Eval vm_compute in ("<<<M882>>>" ++ check (runes_of_ascii "
")).
Eval vm_compute in ("<<<M914>>>" ++ check (runes_of_ascii "
root packet crc
{	@rightPad
    // `tick` ""quote"" 'q'
    (
// `tick` ""quote"" 'q'
// c
'\x00' )// a // b
repeat i64 As ,
// @lengthOf(
// a // b
}
packet// c
body // " ++ [128512]%N ++ runes_of_ascii " emoji
{
}
packet  uint8x { options1 @calculatedFrom(""a	b"" ) ,
} MetaData  Packet { }
/// triple
//
MetaData
    // a // b
    falsey{	char[ 007 ]
// trailing space 
//x
tag `it's` , As leftPad
`line1
line2`,
    } 	 ")).
Eval vm_compute in ("<<<M946>>>" ++ check (runes_of_ascii "options /// triple
{
    asx ='\x00' ;
    }
    //	t
    options
{ pack =""CRC32""
;} root packet
f32a { }")).
Eval vm_compute in ("<<<M978>>>" ++ check (runes_of_ascii "
")).
Eval vm_compute in ("<<<M1010>>>" ++ check (runes_of_ascii "
root packet As
{ repeat
    //	t
    x
    msg_type ,}MetaData crc { // c
u8 x , } root packet
    // " ++ [128512]%N ++ runes_of_ascii " emoji
    Logon{ @calculatedFrom(
""1"" )
@rightPad (  ' ') @leftPad
( ) string msg_type @lengthOf(
uint8x )	`a\`
, match calculatedFrom
as i8i8
{ [
""\" ++ [233]%N ++ runes_of_ascii """ ]  : options1 , // c
1
: asx
, [ 42,
42
    //
    ,//	t
""" ++ [28040; 24687]%N ++ runes_of_ascii """// `tick` ""quote"" 'q'
,"""" ,// " ++ [128512]%N ++ runes_of_ascii " emoji
7] // @lengthOf(
: x_y_z,  [// " ++ [27880; 37322]%N ++ runes_of_ascii "
0//x
] :
    // packet A { u8 x, }
    asx
    //
    7:
    u8x [
7
    ] :u , } ,} MetaData repeatCount
    { float Foo
    , As //	t
i8i8	,} packet tag {@leftPad (
' '
) match Z9_ as msg_type {
    //
    [ 10
, ""a\""b"" ,0 ,255 , 7 ,0123456789 , 10
]: Logon ,
    """ ++ [233]%N ++ runes_of_ascii "t" ++ [233]%N ++ runes_of_ascii """: a1 , 7
// packet A { u8 x, }
/// triple
: i64_  ,  255
:	leftPad
    }
    , }
")).
Eval vm_compute in ("<<<M1042>>>" ++ check (runes_of_ascii "root packet
stringy {
int8 As @lengthOf( trueish ) ,}
packet
string_ {
stringy
`crlf
line`
,uint16
    metadata
    // `tick` ""quote"" 'q'
    ,  @tag( 4294967296
    // `tick` ""quote"" 'q'
    ) @tag( 255)
f32a u	`doc`  ,
    //x
    zchar[ 3 ] Packet ,@leftPad
(
    //	t
    '0')@lengthOf( uint8x  ) zchar[ 0 ]uint8x@lengthOf(
    // packet A { u8 x, }
    Pad
) `two words` ,
// " ++ [27880; 37322]%N ++ runes_of_ascii "
// " ++ [128512]%N ++ runes_of_ascii " emoji
@rightPad
( '\x00'  ) i8i8 roots ,@tag(
    007 ) u128	@calculatedFrom( """ ++ [233]%N ++ runes_of_ascii "t" ++ [233]%N ++ runes_of_ascii """ ) `two words`	, string string_ @lengthOf( falsey)
`a\`
,match tag as i8i8
{
""x y"":
asx , } ,
}
    packet	u8x { } options{
zchar =
    f64
    ;} packet
    T	{
@lengthOf( string_
)
    crc { metadata // a // b
charz , char[]uint8x
    `line1
line2`
    ,
    uint8 Packet, }
// a // b
/// triple
, metadata @calculatedFrom( ""\" ++ [233]%N ++ runes_of_ascii """ )
// " ++ [128512]%N ++ runes_of_ascii " emoji
// " ++ [27880; 37322]%N ++ runes_of_ascii "
`{ , }` ,
zchar @calculatedFrom( ""it's"" ) `a\`
, u64  packetx , match //	t
u128 as i8i8 { 4294967296 :x_y_z
// trailing space 
//x
} ,
int16 float
,	match chars as
    Pad
    { ""packet"" : Packet ,
}
    ,
    matchKey { metadata@lengthOf( Pad )`" ++ [233]%N ++ runes_of_ascii "` ,BodyLength``  , A , } ,
    // " ++ [27880; 37322]%N ++ runes_of_ascii "
    } 	 ")).
Eval vm_compute in ("<<<T1042>>>" ++ terms [mkTok 34 "root" 1 0 false; mkTok 35 "packet" 1 5 false; mkTok 42 "stringy" 2 0 false; mkTok 2 "{" 2 8 false; mkTok 24 "int8" 3 0 false; mkTok 42 "As" 3 5 false; mkTok 7 "@lengthOf(" 3 8 false; mkTok 42 "trueish" 3 19 false; mkTok 6 ")" 3 27 false; mkTok 40 "," 3 29 false; mkTok 3 "}" 3 30 false; mkTok 35 "packet" 4 0 false; mkTok 42 "string_" 5 0 false; mkTok 2 "{" 5 8 false; mkTok 42 "stringy" 6 0 false; mkTok 43 (string_of_bytes [96; 99; 114; 108; 102; 13; 10; 108; 105; 110; 101; 96]%N) 7 0 false; mkTok 40 "," 9 0 false; mkTok 21 "uint16" 9 1 false; mkTok 42 "metadata" 10 4 false; mkTok 44 "// `tick` ""quote"" 'q'" 11 4 true; mkTok 40 "," 12 4 false; mkTok 9 "@tag(" 12 7 false; mkTok 30 "4294967296" 12 13 false; mkTok 44 "// `tick` ""quote"" 'q'" 13 4 true; mkTok 6 ")" 14 4 false; mkTok 9 "@tag(" 14 6 false; mkTok 30 "255" 14 12 false; mkTok 6 ")" 14 15 false; mkTok 42 "f32a" 15 0 false; mkTok 42 "u" 15 5 false; mkTok 43 "`doc`" 15 7 false; mkTok 40 "," 15 14 false; mkTok 44 "//x" 16 4 true; mkTok 14 "zchar[" 17 4 false; mkTok 30 "3" 17 11 false; mkTok 13 "]" 17 13 false; mkTok 42 "Packet" 17 15 false; mkTok 40 "," 17 22 false; mkTok 32 "@leftPad" 17 23 false; mkTok 8 "(" 18 0 false; mkTok 44 (string_of_bytes [47; 47; 9; 116]%N) 19 4 true; mkTok 33 "'0'" 20 4 false; mkTok 6 ")" 20 7 false; mkTok 7 "@lengthOf(" 20 8 false; mkTok 42 "uint8x" 20 19 false; mkTok 6 ")" 20 27 false; mkTok 14 "zchar[" 20 29 false; mkTok 30 "0" 20 36 false; mkTok 13 "]" 20 38 false; mkTok 42 "uint8x" 20 39 false; mkTok 7 "@lengthOf(" 20 45 false; mkTok 44 "// packet A { u8 x, }" 21 4 true; mkTok 42 "Pad" 22 4 false; mkTok 6 ")" 23 0 false; mkTok 43 "`two words`" 23 2 false; mkTok 40 "," 23 14 false; mkTok 44 (string_of_bytes [47; 47; 32; 230; 179; 168; 233; 135; 138]%N) 24 0 true; mkTok 44 (string_of_bytes [47; 47; 32; 240; 159; 152; 128; 32; 101; 109; 111; 106; 105]%N) 25 0 true; mkTok 32 "@rightPad" 26 0 false; mkTok 8 "(" 27 0 false; mkTok 33 "'\x00'" 27 2 false; mkTok 6 ")" 27 10 false; mkTok 42 "i8i8" 27 12 false; mkTok 42 "roots" 27 17 false; mkTok 40 "," 27 23 false; mkTok 9 "@tag(" 27 24 false; mkTok 30 "007" 28 4 false; mkTok 6 ")" 28 8 false; mkTok 42 "u128" 28 10 false; mkTok 5 "@calculatedFrom(" 28 15 false; mkTok 31 (string_of_bytes [34; 195; 169; 116; 195; 169; 34]%N) 28 32 false; mkTok 6 ")" 28 38 false; mkTok 43 "`two words`" 28 40 false; mkTok 40 "," 28 52 false; mkTok 15 "string" 28 54 false; mkTok 42 "string_" 28 61 false; mkTok 7 "@lengthOf(" 28 69 false; mkTok 42 "falsey" 28 80 false; mkTok 6 ")" 28 86 false; mkTok 43 "`a\`" 29 0 false; mkTok 40 "," 30 0 false; mkTok 38 "match" 30 1 false; mkTok 42 "tag" 30 7 false; mkTok 17 "as" 30 11 false; mkTok 42 "i8i8" 30 14 false; mkTok 2 "{" 31 0 false; mkTok 31 """x y""" 32 0 false; mkTok 39 ":" 32 5 false; mkTok 42 "asx" 33 0 false; mkTok 40 "," 33 4 false; mkTok 3 "}" 33 6 false; mkTok 40 "," 33 8 false; mkTok 3 "}" 34 0 false; mkTok 35 "packet" 35 4 false; mkTok 42 "u8x" 35 11 false; mkTok 2 "{" 35 15 false; mkTok 3 "}" 35 17 false; mkTok 1 "options" 35 19 false; mkTok 2 "{" 35 26 false; mkTok 42 "zchar" 36 0 false; mkTok 4 "=" 36 6 false; mkTok 29 "f64" 37 4 false; mkTok 41 ";" 38 4 false; mkTok 3 "}" 38 5 false; mkTok 35 "packet" 38 7 false; mkTok 42 "T" 39 4 false; mkTok 2 "{" 39 6 false; mkTok 7 "@lengthOf(" 40 0 false; mkTok 42 "string_" 40 11 false; mkTok 6 ")" 41 0 false; mkTok 42 "crc" 42 4 false; mkTok 2 "{" 42 8 false; mkTok 42 "metadata" 42 10 false; mkTok 44 "// a // b" 42 19 true; mkTok 42 "charz" 43 0 false; mkTok 40 "," 43 6 false; mkTok 16 "char[]" 43 8 false; mkTok 42 "uint8x" 43 14 false; mkTok 43 (string_of_bytes [96; 108; 105; 110; 101; 49; 10; 108; 105; 110; 101; 50; 96]%N) 44 4 false; mkTok 40 "," 46 4 false; mkTok 20 "uint8" 47 4 false; mkTok 42 "Packet" 47 10 false; mkTok 40 "," 47 16 false; mkTok 3 "}" 47 18 false; mkTok 44 "// a // b" 48 0 true; mkTok 44 "/// triple" 49 0 true; mkTok 40 "," 50 0 false; mkTok 42 "metadata" 50 2 false; mkTok 5 "@calculatedFrom(" 50 11 false; mkTok 31 (string_of_bytes [34; 92; 195; 169; 34]%N) 50 28 false; mkTok 6 ")" 50 33 false; mkTok 44 (string_of_bytes [47; 47; 32; 240; 159; 152; 128; 32; 101; 109; 111; 106; 105]%N) 51 0 true; mkTok 44 (string_of_bytes [47; 47; 32; 230; 179; 168; 233; 135; 138]%N) 52 0 true; mkTok 43 "`{ , }`" 53 0 false; mkTok 40 "," 53 8 false; mkTok 42 "zchar" 54 0 false; mkTok 5 "@calculatedFrom(" 54 6 false; mkTok 31 """it's""" 54 23 false; mkTok 6 ")" 54 30 false; mkTok 43 "`a\`" 54 32 false; mkTok 40 "," 55 0 false; mkTok 23 "u64" 55 2 false; mkTok 42 "packetx" 55 7 false; mkTok 40 "," 55 15 false; mkTok 38 "match" 55 17 false; mkTok 44 (string_of_bytes [47; 47; 9; 116]%N) 55 23 true; mkTok 42 "u128" 56 0 false; mkTok 17 "as" 56 5 false; mkTok 42 "i8i8" 56 8 false; mkTok 2 "{" 56 13 false; mkTok 30 "4294967296" 56 15 false; mkTok 39 ":" 56 26 false; mkTok 42 "x_y_z" 56 27 false; mkTok 44 "// trailing space " 57 0 true; mkTok 44 "//x" 58 0 true; mkTok 3 "}" 59 0 false; mkTok 40 "," 59 2 false; mkTok 25 "int16" 60 0 false; mkTok 42 "float" 60 6 false; mkTok 40 "," 61 0 false; mkTok 38 "match" 61 2 false; mkTok 42 "chars" 61 8 false; mkTok 17 "as" 61 14 false; mkTok 42 "Pad" 62 4 false; mkTok 2 "{" 63 4 false; mkTok 31 """packet""" 63 6 false; mkTok 39 ":" 63 15 false; mkTok 42 "Packet" 63 17 false; mkTok 40 "," 63 24 false; mkTok 3 "}" 64 0 false; mkTok 40 "," 65 4 false; mkTok 42 "matchKey" 66 4 false; mkTok 2 "{" 66 13 false; mkTok 42 "metadata" 66 15 false; mkTok 7 "@lengthOf(" 66 23 false; mkTok 42 "Pad" 66 34 false; mkTok 6 ")" 66 38 false; mkTok 43 (string_of_bytes [96; 195; 169; 96]%N) 66 39 false; mkTok 40 "," 66 43 false; mkTok 42 "BodyLength" 66 44 false; mkTok 43 "``" 66 54 false; mkTok 40 "," 66 58 false; mkTok 42 "A" 66 60 false; mkTok 40 "," 66 62 false; mkTok 3 "}" 66 64 false; mkTok 40 "," 66 66 false; mkTok 44 (string_of_bytes [47; 47; 32; 230; 179; 168; 233; 135; 138]%N) 67 4 true; mkTok 3 "}" 68 4 false; mkTok 0 "<EOF>" 68 8 false] (mkPacket (mkPtok 34 "root" 1 0 0) (Some (mkPtok 3 "}" 68 4 187)) [(DPacket (mkPacketDef (mkSpan (mkPtok 34 "root" 1 0 0) (mkPtok 3 "}" 3 30 10)) (Some (mkPtok 34 "root" 1 0 0)) (mkPtok 35 "packet" 1 5 1) (mkPtok 42 "stringy" 2 0 2) (mkPtok 2 "{" 2 8 3) [(mkFieldWithAttr (mkSpan (mkPtok 24 "int8" 3 0 4) (mkPtok 40 "," 3 29 9)) [] (LengthField (mkSpan (mkPtok 24 "int8" 3 0 4) (mkPtok 40 "," 3 29 9)) (mkLengthFieldDecl (mkSpan (mkPtok 24 "int8" 3 0 4) (mkPtok 40 "," 3 29 9)) (Some (TyBasic (mkSpan (mkPtok 24 "int8" 3 0 4) (mkPtok 24 "int8" 3 0 4)) (mkBasicType (mkSpan (mkPtok 24 "int8" 3 0 4) (mkPtok 24 "int8" 3 0 4)) (mkPtok 24 "int8" 3 0 4)))) (mkPtok 42 "As" 3 5 5) (mkLengthOf (mkSpan (mkPtok 7 "@lengthOf(" 3 8 6) (mkPtok 6 ")" 3 27 8)) (mkPtok 7 "@lengthOf(" 3 8 6) (mkPtok 42 "trueish" 3 19 7) (mkPtok 6 ")" 3 27 8)) None (mkPtok 40 "," 3 29 9))))] (mkPtok 3 "}" 3 30 10))); (DPacket (mkPacketDef (mkSpan (mkPtok 35 "packet" 4 0 11) (mkPtok 3 "}" 34 0 92)) None (mkPtok 35 "packet" 4 0 11) (mkPtok 42 "string_" 5 0 12) (mkPtok 2 "{" 5 8 13) [(mkFieldWithAttr (mkSpan (mkPtok 42 "stringy" 6 0 14) (mkPtok 40 "," 9 0 16)) [] (ObjectField (mkSpan (mkPtok 42 "stringy" 6 0 14) (mkPtok 40 "," 9 0 16)) None (mkPtok 42 "stringy" 6 0 14) None (Some (mkPtok 43 (string_of_bytes [96; 99; 114; 108; 102; 13; 10; 108; 105; 110; 101; 96]%N) 7 0 15)) (mkPtok 40 "," 9 0 16))); (mkFieldWithAttr (mkSpan (mkPtok 21 "uint16" 9 1 17) (mkPtok 40 "," 12 4 20)) [] (MetaField (mkSpan (mkPtok 21 "uint16" 9 1 17) (mkPtok 40 "," 12 4 20)) None (mkMetaDecl (mkSpan (mkPtok 21 "uint16" 9 1 17) (mkPtok 40 "," 12 4 20)) (TyBasic (mkSpan (mkPtok 21 "uint16" 9 1 17) (mkPtok 21 "uint16" 9 1 17)) (mkBasicType (mkSpan (mkPtok 21 "uint16" 9 1 17) (mkPtok 21 "uint16" 9 1 17)) (mkPtok 21 "uint16" 9 1 17))) (mkPtok 42 "metadata" 10 4 18) None (mkPtok 40 "," 12 4 20)))); (mkFieldWithAttr (mkSpan (mkPtok 9 "@tag(" 12 7 21) (mkPtok 40 "," 15 14 31)) [(FATag (mkSpan (mkPtok 9 "@tag(" 12 7 21) (mkPtok 6 ")" 14 4 24)) (mkTagAttr (mkSpan (mkPtok 9 "@tag(" 12 7 21) (mkPtok 6 ")" 14 4 24)) (mkPtok 9 "@tag(" 12 7 21) (mkPtok 30 "4294967296" 12 13 22) (mkPtok 6 ")" 14 4 24))); (FATag (mkSpan (mkPtok 9 "@tag(" 14 6 25) (mkPtok 6 ")" 14 15 27)) (mkTagAttr (mkSpan (mkPtok 9 "@tag(" 14 6 25) (mkPtok 6 ")" 14 15 27)) (mkPtok 9 "@tag(" 14 6 25) (mkPtok 30 "255" 14 12 26) (mkPtok 6 ")" 14 15 27)))] (ObjectField (mkSpan (mkPtok 42 "f32a" 15 0 28) (mkPtok 40 "," 15 14 31)) None (mkPtok 42 "f32a" 15 0 28) (Some (mkPtok 42 "u" 15 5 29)) (Some (mkPtok 43 "`doc`" 15 7 30)) (mkPtok 40 "," 15 14 31))); (mkFieldWithAttr (mkSpan (mkPtok 14 "zchar[" 17 4 33) (mkPtok 40 "," 17 22 37)) [] (MetaField (mkSpan (mkPtok 14 "zchar[" 17 4 33) (mkPtok 40 "," 17 22 37)) None (mkMetaDecl (mkSpan (mkPtok 14 "zchar[" 17 4 33) (mkPtok 40 "," 17 22 37)) (TyFixed (mkSpan (mkPtok 14 "zchar[" 17 4 33) (mkPtok 13 "]" 17 13 35)) (mkFixedString (mkSpan (mkPtok 14 "zchar[" 17 4 33) (mkPtok 13 "]" 17 13 35)) (mkPtok 14 "zchar[" 17 4 33) (mkPtok 30 "3" 17 11 34) (mkPtok 13 "]" 17 13 35))) (mkPtok 42 "Packet" 17 15 36) None (mkPtok 40 "," 17 22 37)))); (mkFieldWithAttr (mkSpan (mkPtok 32 "@leftPad" 17 23 38) (mkPtok 40 "," 23 14 55)) [(FAPadding (mkSpan (mkPtok 32 "@leftPad" 17 23 38) (mkPtok 6 ")" 20 7 42)) (mkPaddingAttr (mkSpan (mkPtok 32 "@leftPad" 17 23 38) (mkPtok 6 ")" 20 7 42)) (mkPtok 32 "@leftPad" 17 23 38) (mkPtok 8 "(" 18 0 39) (Some (mkPtok 33 "'0'" 20 4 41)) (mkPtok 6 ")" 20 7 42))); (FALengthOf (mkSpan (mkPtok 7 "@lengthOf(" 20 8 43) (mkPtok 6 ")" 20 27 45)) (mkLengthOf (mkSpan (mkPtok 7 "@lengthOf(" 20 8 43) (mkPtok 6 ")" 20 27 45)) (mkPtok 7 "@lengthOf(" 20 8 43) (mkPtok 42 "uint8x" 20 19 44) (mkPtok 6 ")" 20 27 45)))] (LengthField (mkSpan (mkPtok 14 "zchar[" 20 29 46) (mkPtok 40 "," 23 14 55)) (mkLengthFieldDecl (mkSpan (mkPtok 14 "zchar[" 20 29 46) (mkPtok 40 "," 23 14 55)) (Some (TyFixed (mkSpan (mkPtok 14 "zchar[" 20 29 46) (mkPtok 13 "]" 20 38 48)) (mkFixedString (mkSpan (mkPtok 14 "zchar[" 20 29 46) (mkPtok 13 "]" 20 38 48)) (mkPtok 14 "zchar[" 20 29 46) (mkPtok 30 "0" 20 36 47) (mkPtok 13 "]" 20 38 48)))) (mkPtok 42 "uint8x" 20 39 49) (mkLengthOf (mkSpan (mkPtok 7 "@lengthOf(" 20 45 50) (mkPtok 6 ")" 23 0 53)) (mkPtok 7 "@lengthOf(" 20 45 50) (mkPtok 42 "Pad" 22 4 52) (mkPtok 6 ")" 23 0 53)) (Some (mkPtok 43 "`two words`" 23 2 54)) (mkPtok 40 "," 23 14 55)))); (mkFieldWithAttr (mkSpan (mkPtok 32 "@rightPad" 26 0 58) (mkPtok 40 "," 27 23 64)) [(FAPadding (mkSpan (mkPtok 32 "@rightPad" 26 0 58) (mkPtok 6 ")" 27 10 61)) (mkPaddingAttr (mkSpan (mkPtok 32 "@rightPad" 26 0 58) (mkPtok 6 ")" 27 10 61)) (mkPtok 32 "@rightPad" 26 0 58) (mkPtok 8 "(" 27 0 59) (Some (mkPtok 33 "'\x00'" 27 2 60)) (mkPtok 6 ")" 27 10 61)))] (ObjectField (mkSpan (mkPtok 42 "i8i8" 27 12 62) (mkPtok 40 "," 27 23 64)) None (mkPtok 42 "i8i8" 27 12 62) (Some (mkPtok 42 "roots" 27 17 63)) None (mkPtok 40 "," 27 23 64))); (mkFieldWithAttr (mkSpan (mkPtok 9 "@tag(" 27 24 65) (mkPtok 40 "," 28 52 73)) [(FATag (mkSpan (mkPtok 9 "@tag(" 27 24 65) (mkPtok 6 ")" 28 8 67)) (mkTagAttr (mkSpan (mkPtok 9 "@tag(" 27 24 65) (mkPtok 6 ")" 28 8 67)) (mkPtok 9 "@tag(" 27 24 65) (mkPtok 30 "007" 28 4 66) (mkPtok 6 ")" 28 8 67)))] (CheckSumField (mkSpan (mkPtok 42 "u128" 28 10 68) (mkPtok 40 "," 28 52 73)) (mkChecksumFieldDecl (mkSpan (mkPtok 42 "u128" 28 10 68) (mkPtok 40 "," 28 52 73)) None (mkPtok 42 "u128" 28 10 68) (mkCalculatedFrom (mkSpan (mkPtok 5 "@calculatedFrom(" 28 15 69) (mkPtok 6 ")" 28 38 71)) (mkPtok 5 "@calculatedFrom(" 28 15 69) (mkPtok 31 (string_of_bytes [34; 195; 169; 116; 195; 169; 34]%N) 28 32 70) (mkPtok 6 ")" 28 38 71)) (Some (mkPtok 43 "`two words`" 28 40 72)) (mkPtok 40 "," 28 52 73)))); (mkFieldWithAttr (mkSpan (mkPtok 15 "string" 28 54 74) (mkPtok 40 "," 30 0 80)) [] (LengthField (mkSpan (mkPtok 15 "string" 28 54 74) (mkPtok 40 "," 30 0 80)) (mkLengthFieldDecl (mkSpan (mkPtok 15 "string" 28 54 74) (mkPtok 40 "," 30 0 80)) (Some (TyDynamic (mkSpan (mkPtok 15 "string" 28 54 74) (mkPtok 15 "string" 28 54 74)) (mkDynamicString (mkSpan (mkPtok 15 "string" 28 54 74) (mkPtok 15 "string" 28 54 74)) (mkPtok 15 "string" 28 54 74)))) (mkPtok 42 "string_" 28 61 75) (mkLengthOf (mkSpan (mkPtok 7 "@lengthOf(" 28 69 76) (mkPtok 6 ")" 28 86 78)) (mkPtok 7 "@lengthOf(" 28 69 76) (mkPtok 42 "falsey" 28 80 77) (mkPtok 6 ")" 28 86 78)) (Some (mkPtok 43 "`a\`" 29 0 79)) (mkPtok 40 "," 30 0 80)))); (mkFieldWithAttr (mkSpan (mkPtok 38 "match" 30 1 81) (mkPtok 40 "," 33 8 91)) [] (MatchField (mkSpan (mkPtok 38 "match" 30 1 81) (mkPtok 40 "," 33 8 91)) (mkMatchFieldDecl (mkSpan (mkPtok 38 "match" 30 1 81) (mkPtok 3 "}" 33 6 90)) (mkPtok 38 "match" 30 1 81) (mkPtok 42 "tag" 30 7 82) (mkPtok 17 "as" 30 11 83) (mkPtok 42 "i8i8" 30 14 84) (mkPtok 2 "{" 31 0 85) [(mkMatchPair (mkSpan (mkPtok 31 """x y""" 32 0 86) (mkPtok 40 "," 33 4 89)) (MKString (mkPtok 31 """x y""" 32 0 86)) (mkPtok 39 ":" 32 5 87) (mkPtok 42 "asx" 33 0 88) (Some (mkPtok 40 "," 33 4 89)))] (mkPtok 3 "}" 33 6 90)) (mkPtok 40 "," 33 8 91)))] (mkPtok 3 "}" 34 0 92))); (DPacket (mkPacketDef (mkSpan (mkPtok 35 "packet" 35 4 93) (mkPtok 3 "}" 35 17 96)) None (mkPtok 35 "packet" 35 4 93) (mkPtok 42 "u8x" 35 11 94) (mkPtok 2 "{" 35 15 95) [] (mkPtok 3 "}" 35 17 96))); (DOption (mkOptionDef (mkSpan (mkPtok 1 "options" 35 19 97) (mkPtok 3 "}" 38 5 103)) (mkPtok 1 "options" 35 19 97) (mkPtok 2 "{" 35 26 98) [(mkOptionDecl (mkSpan (mkPtok 42 "zchar" 36 0 99) (mkPtok 41 ";" 38 4 102)) (mkPtok 42 "zchar" 36 0 99) (mkPtok 4 "=" 36 6 100) (VType (mkSpan (mkPtok 29 "f64" 37 4 101) (mkPtok 29 "f64" 37 4 101)) (TyBasic (mkSpan (mkPtok 29 "f64" 37 4 101) (mkPtok 29 "f64" 37 4 101)) (mkBasicType (mkSpan (mkPtok 29 "f64" 37 4 101) (mkPtok 29 "f64" 37 4 101)) (mkPtok 29 "f64" 37 4 101)))) (Some (mkPtok 41 ";" 38 4 102)))] (mkPtok 3 "}" 38 5 103))); (DPacket (mkPacketDef (mkSpan (mkPtok 35 "packet" 38 7 104) (mkPtok 3 "}" 68 4 187)) None (mkPtok 35 "packet" 38 7 104) (mkPtok 42 "T" 39 4 105) (mkPtok 2 "{" 39 6 106) [(mkFieldWithAttr (mkSpan (mkPtok 7 "@lengthOf(" 40 0 107) (mkPtok 40 "," 50 0 126)) [(FALengthOf (mkSpan (mkPtok 7 "@lengthOf(" 40 0 107) (mkPtok 6 ")" 41 0 109)) (mkLengthOf (mkSpan (mkPtok 7 "@lengthOf(" 40 0 107) (mkPtok 6 ")" 41 0 109)) (mkPtok 7 "@lengthOf(" 40 0 107) (mkPtok 42 "string_" 40 11 108) (mkPtok 6 ")" 41 0 109)))] (InerObjectField (mkSpan (mkPtok 42 "crc" 42 4 110) (mkPtok 40 "," 50 0 126)) None (InerObjectDecl (mkSpan (mkPtok 42 "crc" 42 4 110) (mkPtok 3 "}" 47 18 123)) (mkPtok 42 "crc" 42 4 110) (mkPtok 2 "{" 42 8 111) [(ObjectField (mkSpan (mkPtok 42 "metadata" 42 10 112) (mkPtok 40 "," 43 6 115)) None (mkPtok 42 "metadata" 42 10 112) (Some (mkPtok 42 "charz" 43 0 114)) None (mkPtok 40 "," 43 6 115)); (MetaField (mkSpan (mkPtok 16 "char[]" 43 8 116) (mkPtok 40 "," 46 4 119)) None (mkMetaDecl (mkSpan (mkPtok 16 "char[]" 43 8 116) (mkPtok 40 "," 46 4 119)) (TyDynamic (mkSpan (mkPtok 16 "char[]" 43 8 116) (mkPtok 16 "char[]" 43 8 116)) (mkDynamicString (mkSpan (mkPtok 16 "char[]" 43 8 116) (mkPtok 16 "char[]" 43 8 116)) (mkPtok 16 "char[]" 43 8 116))) (mkPtok 42 "uint8x" 43 14 117) (Some (mkPtok 43 (string_of_bytes [96; 108; 105; 110; 101; 49; 10; 108; 105; 110; 101; 50; 96]%N) 44 4 118)) (mkPtok 40 "," 46 4 119))); (MetaField (mkSpan (mkPtok 20 "uint8" 47 4 120) (mkPtok 40 "," 47 16 122)) None (mkMetaDecl (mkSpan (mkPtok 20 "uint8" 47 4 120) (mkPtok 40 "," 47 16 122)) (TyBasic (mkSpan (mkPtok 20 "uint8" 47 4 120) (mkPtok 20 "uint8" 47 4 120)) (mkBasicType (mkSpan (mkPtok 20 "uint8" 47 4 120) (mkPtok 20 "uint8" 47 4 120)) (mkPtok 20 "uint8" 47 4 120))) (mkPtok 42 "Packet" 47 10 121) None (mkPtok 40 "," 47 16 122)))] (mkPtok 3 "}" 47 18 123)) (mkPtok 40 "," 50 0 126))); (mkFieldWithAttr (mkSpan (mkPtok 42 "metadata" 50 2 127) (mkPtok 40 "," 53 8 134)) [] (CheckSumField (mkSpan (mkPtok 42 "metadata" 50 2 127) (mkPtok 40 "," 53 8 134)) (mkChecksumFieldDecl (mkSpan (mkPtok 42 "metadata" 50 2 127) (mkPtok 40 "," 53 8 134)) None (mkPtok 42 "metadata" 50 2 127) (mkCalculatedFrom (mkSpan (mkPtok 5 "@calculatedFrom(" 50 11 128) (mkPtok 6 ")" 50 33 130)) (mkPtok 5 "@calculatedFrom(" 50 11 128) (mkPtok 31 (string_of_bytes [34; 92; 195; 169; 34]%N) 50 28 129) (mkPtok 6 ")" 50 33 130)) (Some (mkPtok 43 "`{ , }`" 53 0 133)) (mkPtok 40 "," 53 8 134)))); (mkFieldWithAttr (mkSpan (mkPtok 42 "zchar" 54 0 135) (mkPtok 40 "," 55 0 140)) [] (CheckSumField (mkSpan (mkPtok 42 "zchar" 54 0 135) (mkPtok 40 "," 55 0 140)) (mkChecksumFieldDecl (mkSpan (mkPtok 42 "zchar" 54 0 135) (mkPtok 40 "," 55 0 140)) None (mkPtok 42 "zchar" 54 0 135) (mkCalculatedFrom (mkSpan (mkPtok 5 "@calculatedFrom(" 54 6 136) (mkPtok 6 ")" 54 30 138)) (mkPtok 5 "@calculatedFrom(" 54 6 136) (mkPtok 31 """it's""" 54 23 137) (mkPtok 6 ")" 54 30 138)) (Some (mkPtok 43 "`a\`" 54 32 139)) (mkPtok 40 "," 55 0 140)))); (mkFieldWithAttr (mkSpan (mkPtok 23 "u64" 55 2 141) (mkPtok 40 "," 55 15 143)) [] (MetaField (mkSpan (mkPtok 23 "u64" 55 2 141) (mkPtok 40 "," 55 15 143)) None (mkMetaDecl (mkSpan (mkPtok 23 "u64" 55 2 141) (mkPtok 40 "," 55 15 143)) (TyBasic (mkSpan (mkPtok 23 "u64" 55 2 141) (mkPtok 23 "u64" 55 2 141)) (mkBasicType (mkSpan (mkPtok 23 "u64" 55 2 141) (mkPtok 23 "u64" 55 2 141)) (mkPtok 23 "u64" 55 2 141))) (mkPtok 42 "packetx" 55 7 142) None (mkPtok 40 "," 55 15 143)))); (mkFieldWithAttr (mkSpan (mkPtok 38 "match" 55 17 144) (mkPtok 40 "," 59 2 156)) [] (MatchField (mkSpan (mkPtok 38 "match" 55 17 144) (mkPtok 40 "," 59 2 156)) (mkMatchFieldDecl (mkSpan (mkPtok 38 "match" 55 17 144) (mkPtok 3 "}" 59 0 155)) (mkPtok 38 "match" 55 17 144) (mkPtok 42 "u128" 56 0 146) (mkPtok 17 "as" 56 5 147) (mkPtok 42 "i8i8" 56 8 148) (mkPtok 2 "{" 56 13 149) [(mkMatchPair (mkSpan (mkPtok 30 "4294967296" 56 15 150) (mkPtok 42 "x_y_z" 56 27 152)) (MKDigits (mkPtok 30 "4294967296" 56 15 150)) (mkPtok 39 ":" 56 26 151) (mkPtok 42 "x_y_z" 56 27 152) None)] (mkPtok 3 "}" 59 0 155)) (mkPtok 40 "," 59 2 156))); (mkFieldWithAttr (mkSpan (mkPtok 25 "int16" 60 0 157) (mkPtok 40 "," 61 0 159)) [] (MetaField (mkSpan (mkPtok 25 "int16" 60 0 157) (mkPtok 40 "," 61 0 159)) None (mkMetaDecl (mkSpan (mkPtok 25 "int16" 60 0 157) (mkPtok 40 "," 61 0 159)) (TyBasic (mkSpan (mkPtok 25 "int16" 60 0 157) (mkPtok 25 "int16" 60 0 157)) (mkBasicType (mkSpan (mkPtok 25 "int16" 60 0 157) (mkPtok 25 "int16" 60 0 157)) (mkPtok 25 "int16" 60 0 157))) (mkPtok 42 "float" 60 6 158) None (mkPtok 40 "," 61 0 159)))); (mkFieldWithAttr (mkSpan (mkPtok 38 "match" 61 2 160) (mkPtok 40 "," 65 4 170)) [] (MatchField (mkSpan (mkPtok 38 "match" 61 2 160) (mkPtok 40 "," 65 4 170)) (mkMatchFieldDecl (mkSpan (mkPtok 38 "match" 61 2 160) (mkPtok 3 "}" 64 0 169)) (mkPtok 38 "match" 61 2 160) (mkPtok 42 "chars" 61 8 161) (mkPtok 17 "as" 61 14 162) (mkPtok 42 "Pad" 62 4 163) (mkPtok 2 "{" 63 4 164) [(mkMatchPair (mkSpan (mkPtok 31 """packet""" 63 6 165) (mkPtok 40 "," 63 24 168)) (MKString (mkPtok 31 """packet""" 63 6 165)) (mkPtok 39 ":" 63 15 166) (mkPtok 42 "Packet" 63 17 167) (Some (mkPtok 40 "," 63 24 168)))] (mkPtok 3 "}" 64 0 169)) (mkPtok 40 "," 65 4 170))); (mkFieldWithAttr (mkSpan (mkPtok 42 "matchKey" 66 4 171) (mkPtok 40 "," 66 66 185)) [] (InerObjectField (mkSpan (mkPtok 42 "matchKey" 66 4 171) (mkPtok 40 "," 66 66 185)) None (InerObjectDecl (mkSpan (mkPtok 42 "matchKey" 66 4 171) (mkPtok 3 "}" 66 64 184)) (mkPtok 42 "matchKey" 66 4 171) (mkPtok 2 "{" 66 13 172) [(LengthField (mkSpan (mkPtok 42 "metadata" 66 15 173) (mkPtok 40 "," 66 43 178)) (mkLengthFieldDecl (mkSpan (mkPtok 42 "metadata" 66 15 173) (mkPtok 40 "," 66 43 178)) None (mkPtok 42 "metadata" 66 15 173) (mkLengthOf (mkSpan (mkPtok 7 "@lengthOf(" 66 23 174) (mkPtok 6 ")" 66 38 176)) (mkPtok 7 "@lengthOf(" 66 23 174) (mkPtok 42 "Pad" 66 34 175) (mkPtok 6 ")" 66 38 176)) (Some (mkPtok 43 (string_of_bytes [96; 195; 169; 96]%N) 66 39 177)) (mkPtok 40 "," 66 43 178))); (ObjectField (mkSpan (mkPtok 42 "BodyLength" 66 44 179) (mkPtok 40 "," 66 58 181)) None (mkPtok 42 "BodyLength" 66 44 179) None (Some (mkPtok 43 "``" 66 54 180)) (mkPtok 40 "," 66 58 181)); (ObjectField (mkSpan (mkPtok 42 "A" 66 60 182) (mkPtok 40 "," 66 62 183)) None (mkPtok 42 "A" 66 60 182) None None (mkPtok 40 "," 66 62 183))] (mkPtok 3 "}" 66 64 184)) (mkPtok 40 "," 66 66 185)))] (mkPtok 3 "}" 68 4 187)))])).
Eval vm_compute in ("<<<M1074>>>" ++ check (runes_of_ascii "
MetaData // `tick` ""quote"" 'q'
Foo { char[
    4294967296
    ] // packet A { u8 x, }
string_ , T float , }
")).
Eval vm_compute in ("<<<M1106>>>" ++ check (runes_of_ascii "root packet
roots //
{ // trailing space 
} root packet MetaDataX
{
char[255 ]	rootA , }/// triple
packet u8x { @rightPad
( // " ++ [27880; 37322]%N ++ runes_of_ascii "
) msg_type@lengthOf( Z9_
) , char[
    0
] x_y_z @lengthOf( len )// " ++ [27880; 37322]%N ++ runes_of_ascii "
`it's`// " ++ [128512]%N ++ runes_of_ascii " emoji
, @rightPad
( ' ') int16 calculatedFrom ,chars @lengthOf(//x
msg_type
)
//	t
// @lengthOf(
`it's`
,
    repeat pack { repeat u64 // c
x
    ,
}	, i8
metadata @calculatedFrom(""" ++ [28040; 24687]%N ++ runes_of_ascii """ )
,
    match o as len { [ 0123456789 ,
""a\""b"" , 65535
    // `tick` ""quote"" 'q'
    ,
""" ++ [128512]%N ++ runes_of_ascii """ , 0123456789 ,
""{,}""] : body 3:
As , 3: As ,
42 : int , 1// @lengthOf(
:
    o
    ,  [ 1
    ]
: o// c
,
} ,
zchar[ 007] asx
,
    asx
@lengthOf( zchar
// packet A { u8 x, }
// @lengthOf(
) ,
f64 Logon
    ``
    // " ++ [27880; 37322]%N ++ runes_of_ascii "
    ,
} //")).
Eval vm_compute in ("<<<M1138>>>" ++ check (runes_of_ascii "packet
    repeatCount
    {	match	float as u { // trailing space 
""" ++ [128512]%N ++ runes_of_ascii """ :	i64_ , // trailing space 
}
    , repeat Z9_
    {string metadata `u8 x,` , }	,
u8 lengthOf ,
repeat float { zchar[ 255 // `tick` ""quote"" 'q'
]
    matchKey@lengthOf( u8x ) , uint8 Packet
    `" ++ [233]%N ++ runes_of_ascii "`	,x_y_z As	, zchar[
/// triple
// " ++ [128512]%N ++ runes_of_ascii " emoji
3 ] chars `it's` ,
} ,
    repeat a1
,@calculatedFrom(  ""it's"")uint64 x_y_z ,
match metadata  as Packet
{ [ """ ++ [233]%N ++ runes_of_ascii "t" ++ [233]%N ++ runes_of_ascii """]
: BodyLength , 3 :
    o  ,
    //
    65535 : Z9_// " ++ [27880; 37322]%N ++ runes_of_ascii "
, [ ""CRC32""] :
    Packet ,  ""a\\"":
int , 4294967296 : Foo,}
, repeat
// trailing space 
// c
int {
    // `tick` ""quote"" 'q'
    lengthOf @lengthOf(o
// trailing space 
// " ++ [27880; 37322]%N ++ runes_of_ascii "
) // " ++ [128512]%N ++ runes_of_ascii " emoji
`// not a comment`// c
, repeat Packet a1 ,}	,
    //
    @lengthOf( u )char[ 10 // @lengthOf(
] packetx @calculatedFrom(""abc"" ) , @rightPad
    ( '0' )  T,}
")).
Eval vm_compute in ("<<<M1170>>>" ++ check (runes_of_ascii "packet
tag { int8 packetx , }packet Foo/// triple
{//x
repeatCount@calculatedFrom( ""x y"" /// triple
)
,char[00
] As @lengthOf( a1 )
`crlf
line`
,
    @tag( 10) len {  char[	10// " ++ [128512]%N ++ runes_of_ascii " emoji
] matchKey `" ++ [233]%N ++ runes_of_ascii "` , f32a@lengthOf( u128
    )
    `it's` ,
    } ,
}
")).
Eval vm_compute in ("<<<M1202>>>" ++ check (runes_of_ascii "
packet calculatedFrom
{
@lengthOf( rootA
    )
    @tag( 0 )  repeat  lengthOf
    // trailing space 
    Pad `doc`,
} // packet A { u8 x, }
options
    {
lengthOf	= false x_y_z= true  ;_x = u8; zchar=
    char[ 10 ] MetaDataX
    =
    true } packet	T { }")).
Eval vm_compute in ("<<<M1234>>>" ++ check (runes_of_ascii "
options { options1= false
    }")).
Eval vm_compute in ("<<<M1266>>>" ++ check (runes_of_ascii "root  packet
msg_type {
// @lengthOf(
//	t
string repeatCount `crlf
line` , i8	Foo @lengthOf( MetaDataX )
    , @tag( 10 ) @calculatedFrom(
    ""abc"" ) @lengthOf( falsey
    ) repeat stringy pack `doc`,  } options { As =65535}")).
Eval vm_compute in ("<<<T1266>>>" ++ terms [mkTok 34 "root" 1 0 false; mkTok 35 "packet" 1 6 false; mkTok 42 "msg_type" 2 0 false; mkTok 2 "{" 2 9 false; mkTok 44 "// @lengthOf(" 3 0 true; mkTok 44 (string_of_bytes [47; 47; 9; 116]%N) 4 0 true; mkTok 15 "string" 5 0 false; mkTok 42 "repeatCount" 5 7 false; mkTok 43 (string_of_bytes [96; 99; 114; 108; 102; 13; 10; 108; 105; 110; 101; 96]%N) 5 19 false; mkTok 40 "," 6 6 false; mkTok 24 "i8" 6 8 false; mkTok 42 "Foo" 6 11 false; mkTok 7 "@lengthOf(" 6 15 false; mkTok 42 "MetaDataX" 6 26 false; mkTok 6 ")" 6 36 false; mkTok 40 "," 7 4 false; mkTok 9 "@tag(" 7 6 false; mkTok 30 "10" 7 12 false; mkTok 6 ")" 7 15 false; mkTok 5 "@calculatedFrom(" 7 17 false; mkTok 31 """abc""" 8 4 false; mkTok 6 ")" 8 10 false; mkTok 7 "@lengthOf(" 8 12 false; mkTok 42 "falsey" 8 23 false; mkTok 6 ")" 9 4 false; mkTok 36 "repeat" 9 6 false; mkTok 42 "stringy" 9 13 false; mkTok 42 "pack" 9 21 false; mkTok 43 "`doc`" 9 26 false; mkTok 40 "," 9 31 false; mkTok 3 "}" 9 34 false; mkTok 1 "options" 9 36 false; mkTok 2 "{" 9 44 false; mkTok 42 "As" 9 46 false; mkTok 4 "=" 9 49 false; mkTok 30 "65535" 9 50 false; mkTok 3 "}" 9 55 false; mkTok 0 "<EOF>" 9 56 false] (mkPacket (mkPtok 34 "root" 1 0 0) (Some (mkPtok 3 "}" 9 55 36)) [(DPacket (mkPacketDef (mkSpan (mkPtok 34 "root" 1 0 0) (mkPtok 3 "}" 9 34 30)) (Some (mkPtok 34 "root" 1 0 0)) (mkPtok 35 "packet" 1 6 1) (mkPtok 42 "msg_type" 2 0 2) (mkPtok 2 "{" 2 9 3) [(mkFieldWithAttr (mkSpan (mkPtok 15 "string" 5 0 6) (mkPtok 40 "," 6 6 9)) [] (MetaField (mkSpan (mkPtok 15 "string" 5 0 6) (mkPtok 40 "," 6 6 9)) None (mkMetaDecl (mkSpan (mkPtok 15 "string" 5 0 6) (mkPtok 40 "," 6 6 9)) (TyDynamic (mkSpan (mkPtok 15 "string" 5 0 6) (mkPtok 15 "string" 5 0 6)) (mkDynamicString (mkSpan (mkPtok 15 "string" 5 0 6) (mkPtok 15 "string" 5 0 6)) (mkPtok 15 "string" 5 0 6))) (mkPtok 42 "repeatCount" 5 7 7) (Some (mkPtok 43 (string_of_bytes [96; 99; 114; 108; 102; 13; 10; 108; 105; 110; 101; 96]%N) 5 19 8)) (mkPtok 40 "," 6 6 9)))); (mkFieldWithAttr (mkSpan (mkPtok 24 "i8" 6 8 10) (mkPtok 40 "," 7 4 15)) [] (LengthField (mkSpan (mkPtok 24 "i8" 6 8 10) (mkPtok 40 "," 7 4 15)) (mkLengthFieldDecl (mkSpan (mkPtok 24 "i8" 6 8 10) (mkPtok 40 "," 7 4 15)) (Some (TyBasic (mkSpan (mkPtok 24 "i8" 6 8 10) (mkPtok 24 "i8" 6 8 10)) (mkBasicType (mkSpan (mkPtok 24 "i8" 6 8 10) (mkPtok 24 "i8" 6 8 10)) (mkPtok 24 "i8" 6 8 10)))) (mkPtok 42 "Foo" 6 11 11) (mkLengthOf (mkSpan (mkPtok 7 "@lengthOf(" 6 15 12) (mkPtok 6 ")" 6 36 14)) (mkPtok 7 "@lengthOf(" 6 15 12) (mkPtok 42 "MetaDataX" 6 26 13) (mkPtok 6 ")" 6 36 14)) None (mkPtok 40 "," 7 4 15)))); (mkFieldWithAttr (mkSpan (mkPtok 9 "@tag(" 7 6 16) (mkPtok 40 "," 9 31 29)) [(FATag (mkSpan (mkPtok 9 "@tag(" 7 6 16) (mkPtok 6 ")" 7 15 18)) (mkTagAttr (mkSpan (mkPtok 9 "@tag(" 7 6 16) (mkPtok 6 ")" 7 15 18)) (mkPtok 9 "@tag(" 7 6 16) (mkPtok 30 "10" 7 12 17) (mkPtok 6 ")" 7 15 18))); (FACalculatedFrom (mkSpan (mkPtok 5 "@calculatedFrom(" 7 17 19) (mkPtok 6 ")" 8 10 21)) (mkCalculatedFrom (mkSpan (mkPtok 5 "@calculatedFrom(" 7 17 19) (mkPtok 6 ")" 8 10 21)) (mkPtok 5 "@calculatedFrom(" 7 17 19) (mkPtok 31 """abc""" 8 4 20) (mkPtok 6 ")" 8 10 21))); (FALengthOf (mkSpan (mkPtok 7 "@lengthOf(" 8 12 22) (mkPtok 6 ")" 9 4 24)) (mkLengthOf (mkSpan (mkPtok 7 "@lengthOf(" 8 12 22) (mkPtok 6 ")" 9 4 24)) (mkPtok 7 "@lengthOf(" 8 12 22) (mkPtok 42 "falsey" 8 23 23) (mkPtok 6 ")" 9 4 24)))] (ObjectField (mkSpan (mkPtok 36 "repeat" 9 6 25) (mkPtok 40 "," 9 31 29)) (Some (mkPtok 36 "repeat" 9 6 25)) (mkPtok 42 "stringy" 9 13 26) (Some (mkPtok 42 "pack" 9 21 27)) (Some (mkPtok 43 "`doc`" 9 26 28)) (mkPtok 40 "," 9 31 29)))] (mkPtok 3 "}" 9 34 30))); (DOption (mkOptionDef (mkSpan (mkPtok 1 "options" 9 36 31) (mkPtok 3 "}" 9 55 36)) (mkPtok 1 "options" 9 36 31) (mkPtok 2 "{" 9 44 32) [(mkOptionDecl (mkSpan (mkPtok 42 "As" 9 46 33) (mkPtok 30 "65535" 9 50 35)) (mkPtok 42 "As" 9 46 33) (mkPtok 4 "=" 9 49 34) (VDigits (mkSpan (mkPtok 30 "65535" 9 50 35) (mkPtok 30 "65535" 9 50 35)) (mkPtok 30 "65535" 9 50 35)) None)] (mkPtok 3 "}" 9 55 36)))])).
Eval vm_compute in ("<<<M1298>>>" ++ check (runes_of_ascii "packet
falsey {lengthOf
{ char[
    // packet A { u8 x, }
    65535 ] Header	@calculatedFrom(""a\\""
)
    /// triple
    ,
repeat x
len,},
    } MetaData
x_y_z {	}
")).
Eval vm_compute in ("<<<M1330>>>" ++ check (runes_of_ascii "root packet roots { } // `tick` ""quote"" 'q'
MetaData As
{ string u
`{ , }` ,	zchar[ 3 ]
x_y_z, i32 roots ,
u16 rootA
    `line1
line2` ,
// `tick` ""quote"" 'q'
// a // b
i32// @lengthOf(
matchKey
    `doc`, u _x //	t
`{ , }` , }
")).
Eval vm_compute in ("<<<M1362>>>" ++ check (@nil rune)).
Eval vm_compute in ("<<<M1394>>>" ++ check (runes_of_ascii "
packet u { repeat char[// " ++ [27880; 37322]%N ++ runes_of_ascii "
10] crc
, repeat string x  ,  match
//	t
//
charz as
    tag{
007 :
options1
    , } ,Packet @lengthOf(trueish
) ,
}")).
Eval vm_compute in ("<<<M1426>>>" ++ check (runes_of_ascii "MetaData  u{ metadata x_y_z	, i8i8
    len`it's`
    , zchar[ // " ++ [27880; 37322]%N ++ runes_of_ascii "
42	]
options1 `{ , }` ,
} packet u {
@calculatedFrom(""abc""// a // b
)
// c
// " ++ [27880; 37322]%N ++ runes_of_ascii "
char[ 0123456789 ] string_ @lengthOf(
Logon) `a\`	, string string_
@lengthOf( // packet A { u8 x, }
float )	, char[]// c
crc
`line1
line2` , @lengthOf(
/// triple
// `tick` ""quote"" 'q'
metadata
    )  u128 {
    char[]  T ,}, f64  As
@calculatedFrom(// a // b
""// no comment""
)// " ++ [27880; 37322]%N ++ runes_of_ascii "
,  repeat Z9_
    chars`u8 x,` ,  @calculatedFrom(
""packet"" )repeat
    // @lengthOf(
    a1  tag , } packet A
    {	@tag(7
    )@rightPad
(
) @tag( 0123456789 ) repeat
    crc { repeatCount As
// @lengthOf(
//	t
,}
, match pack
    as u {
""packet"" :Pad  , ""1"":u8x 007
    : Packet [ ""packet"", """ ++ [28040; 24687]%N ++ runes_of_ascii """ ] // " ++ [27880; 37322]%N ++ runes_of_ascii "
: BodyLength
""1"" :asx ,
} , match i64_
as Header{ 4294967296: _x	007 :packetx
, [007 ]
:
A
    , //	t
} ,uint8 BodyLength ,@lengthOf(
// `tick` ""quote"" 'q'
// packet A { u8 x, }
i64_ //	t
)
    u8
falsey //	t
, }
")).
Eval vm_compute in ("<<<M1458>>>" ++ check (runes_of_ascii "
root
    packet x_y_z{@lengthOf( _x ) _x  @lengthOf( trueish)	,} packet
    BodyLength {// packet A { u8 x, }
}
    // " ++ [128512]%N ++ runes_of_ascii " emoji
    MetaData // @lengthOf(
a1 { Pad
    repeatCount	,i16 zchar `` ,//	t
}")).
Eval vm_compute in ("<<<M1490>>>" ++ check (runes_of_ascii "packet metadata {
    @lengthOf(  Header) // " ++ [27880; 37322]%N ++ runes_of_ascii "
float32
options1
    `line1
line2`
,}")).
Eval vm_compute in ("<<<T1490>>>" ++ terms [mkTok 35 "packet" 1 0 false; mkTok 42 "metadata" 1 7 false; mkTok 2 "{" 1 16 false; mkTok 7 "@lengthOf(" 2 4 false; mkTok 42 "Header" 2 16 false; mkTok 6 ")" 2 22 false; mkTok 44 (string_of_bytes [47; 47; 32; 230; 179; 168; 233; 135; 138]%N) 2 24 true; mkTok 28 "float32" 3 0 false; mkTok 42 "options1" 4 0 false; mkTok 43 (string_of_bytes [96; 108; 105; 110; 101; 49; 10; 108; 105; 110; 101; 50; 96]%N) 5 4 false; mkTok 40 "," 7 0 false; mkTok 3 "}" 7 1 false; mkTok 0 "<EOF>" 7 2 false] (mkPacket (mkPtok 35 "packet" 1 0 0) (Some (mkPtok 3 "}" 7 1 11)) [(DPacket (mkPacketDef (mkSpan (mkPtok 35 "packet" 1 0 0) (mkPtok 3 "}" 7 1 11)) None (mkPtok 35 "packet" 1 0 0) (mkPtok 42 "metadata" 1 7 1) (mkPtok 2 "{" 1 16 2) [(mkFieldWithAttr (mkSpan (mkPtok 7 "@lengthOf(" 2 4 3) (mkPtok 40 "," 7 0 10)) [(FALengthOf (mkSpan (mkPtok 7 "@lengthOf(" 2 4 3) (mkPtok 6 ")" 2 22 5)) (mkLengthOf (mkSpan (mkPtok 7 "@lengthOf(" 2 4 3) (mkPtok 6 ")" 2 22 5)) (mkPtok 7 "@lengthOf(" 2 4 3) (mkPtok 42 "Header" 2 16 4) (mkPtok 6 ")" 2 22 5)))] (MetaField (mkSpan (mkPtok 28 "float32" 3 0 7) (mkPtok 40 "," 7 0 10)) None (mkMetaDecl (mkSpan (mkPtok 28 "float32" 3 0 7) (mkPtok 40 "," 7 0 10)) (TyBasic (mkSpan (mkPtok 28 "float32" 3 0 7) (mkPtok 28 "float32" 3 0 7)) (mkBasicType (mkSpan (mkPtok 28 "float32" 3 0 7) (mkPtok 28 "float32" 3 0 7)) (mkPtok 28 "float32" 3 0 7))) (mkPtok 42 "options1" 4 0 8) (Some (mkPtok 43 (string_of_bytes [96; 108; 105; 110; 101; 49; 10; 108; 105; 110; 101; 50; 96]%N) 5 4 9)) (mkPtok 40 "," 7 0 10))))] (mkPtok 3 "}" 7 1 11)))])).
Eval vm_compute in ("<<<M1522>>>" ++ check (runes_of_ascii "MetaData Packet { string	crc `doc` ,}
")).
Eval vm_compute in ("<<<M1554>>>" ++ check (runes_of_ascii "MetaData lengthOf { } packet	x {string calculatedFrom , } packet len { }
")).
Eval vm_compute in ("<<<M1586>>>" ++ check (runes_of_ascii "options
{ } //	t")).
Eval vm_compute in ("<<<M1618>>>" ++ check (runes_of_ascii "packet metadata{ }packet u8x { string u128@lengthOf( len
/// triple
/// triple
) `tab	here` , @tag(
    3
    // a // b
    )	char[]	Z9_ ,	match stringy as
As
{ [ 0123456789 , // @lengthOf(
4294967296// c
, ""\" ++ [233]%N ++ runes_of_ascii """,
10, 255 ,
42
,
    0123456789 ] : o
7:
    Pad , 0123456789: Logon ,
[ """" , 0123456789 , ""a	b""
    , ""{,}"" // `tick` ""quote"" 'q'
, 0
    ]// @lengthOf(
:// a // b
Logon	,
// " ++ [128512]%N ++ runes_of_ascii " emoji
// c
""" ++ [233]%N ++ runes_of_ascii "t" ++ [233]%N ++ runes_of_ascii """ // @lengthOf(
:u8x , }
,
asx	trueish ,repeat zchar[ 1 ] A
, @leftPad
(
'0'	)
    repeat //
BodyLength
    , repeat lengthOf { char[] falsey
`u8 x,`  ,	match len as
    options1
    // packet A { u8 x, }
    {
    ""`tick`""
    : metadata , 0 : asx ""a	b"" : lengthOf ,  } , leftPad
    //x
    {char u128 ,
    Packet `` , }  ,
i16
    i64_ // a // b
,} , A {
    /// triple
    repeat
f32 roots ,
    repeat
//	t
/// triple
u32 crc,
uint8 MetaDataX,	string
    u8x `tab	here`, }
    , @lengthOf(i64_ ) int32 T ,
} packet T{ zchar {
    u8 Z9_	@lengthOf(
    // " ++ [27880; 37322]%N ++ runes_of_ascii "
    chars
) `line1
line2`
    // `tick` ""quote"" 'q'
    , } ,repeat x_y_z { // " ++ [128512]%N ++ runes_of_ascii " emoji
match f32a
// c
//
as
Pad {//x
255 :
repeatCount
,
    007 :
charz ,} , repeat zchar[ 0
]
roots , i32 tag @lengthOf(  falsey ) `" ++ [233]%N ++ runes_of_ascii "` ,
T `line1
line2`, } ,	@tag( 007)repeat
    /// triple
    Foo {
tag {
    match
string_  as chars
    { ""a\\""
    :
    i8i8 } ,}, match trueish as
calculatedFrom{[
    0123456789 ] : i64_ // @lengthOf(
[ ""a\""b"" // packet A { u8 x, }
,
""abc""] : i64_ ,	""" ++ [233]%N ++ runes_of_ascii "t" ++ [233]%N ++ runes_of_ascii """ :int,	3:  lengthOf ,
""a\""b"" // c
: len
} ,
// @lengthOf(
//	t
zchar[ 10  ] metadata
    @lengthOf(options1
) `line1
line2` , char[] body@calculatedFrom( ""abc""
    )
`two words` , }
, @lengthOf(matchKey ) string i64_
@lengthOf( Pad )`doc` ,@tag(0)
    repeat int { uint64 u128 `doc` ,	},	@leftPad	(' '
) zchar[
    //x
    7 ] chars @lengthOf( matchKey
// `tick` ""quote"" 'q'
// @lengthOf(
)
, } // trailing space ")).
Eval vm_compute in ("<<<M1650>>>" ++ check (runes_of_ascii "  MetaData u
    // packet A { u8 x, }
    {int pack `u8 x,` , } packet tag{
    @tag(
    65535 )
    len @calculatedFrom( """"
    ), } MetaData
    Foo {
zchar[
    1
] Logon
,_x leftPad , u
    roots , }
")).
Eval vm_compute in ("<<<M1682>>>" ++ check (runes_of_ascii "MetaData /// triple
crc { zchar[42
    ]
// c
//	t
u8x , int64 roots `line1
line2` ,u16 falsey `// not a comment` // trailing space 
, char[]// trailing space 
tag,}
")).
Eval vm_compute in ("<<<M1714>>>" ++ check (runes_of_ascii "packet	uint8x {
    @lengthOf(  x_y_z )
repeat int32 lengthOf	`u8 x,` ,
    repeat int	,repeat f32 uint8x`{ , }` , o
{ match A
    as roots{ ""a\\""
    : packetx, } , zchar[ 42 ]packetx
    //x
    @calculatedFrom( ""abc"" )
,} , repeat uint8	options1
    ,
    @rightPad(  '0' // " ++ [27880; 37322]%N ++ runes_of_ascii "
) match calculatedFrom as
// " ++ [128512]%N ++ runes_of_ascii " emoji
/// triple
x { 65535
    : uint8x , 4294967296 :i64_
    //x
    ,// a // b
}	, match len as
_x{ """ ++ [233]%N ++ runes_of_ascii "t" ++ [233]%N ++ runes_of_ascii """ : lengthOf, 3
/// triple
/// triple
: zchar// a // b
,	}
    /// triple
    , @tag( 0123456789 )@tag(
4294967296
) @leftPad (
    '\x00' ) match calculatedFrom as x {""" ++ [128512]%N ++ runes_of_ascii """ : matchKey, ""it's"" :
metadata
[ //
1 // @lengthOf(
,
""" ++ [128512]%N ++ runes_of_ascii """ ] :
tag
    ,3 :
i64_ 3: u , } , repeat
string_
{	o@lengthOf(
    MetaDataX
) , i8i8
    , repeat Packet
,	_x @lengthOf( o) // `tick` ""quote"" 'q'
, },
    // `tick` ""quote"" 'q'
    } root
packet body {
char[] calculatedFrom ,	@rightPad ( ' ') match Logon	as T	{ [
    // packet A { u8 x, }
    ""1"",
""a\""b""
    ,
// a // b
// a // b
""{,}"", 10,""1"" , """ ++ [128512]%N ++ runes_of_ascii """ // packet A { u8 x, }
] : metadata
,// @lengthOf(
""it's""
: // c
u } , match
packetx as
    roots { // `tick` ""quote"" 'q'
0123456789 :T
    , } , @calculatedFrom(	""x y"" // " ++ [128512]%N ++ runes_of_ascii " emoji
) i64_ { char[] trueish , char[65535] BodyLength @calculatedFrom(
""" ++ [233]%N ++ runes_of_ascii "t" ++ [233]%N ++ runes_of_ascii """ ), } , repeat u8 tag , }root packet BodyLength {
    //
    chars , @lengthOf( Foo) int32 u8x, string trueish `u8 x,`
, i64 options1 , }
")).
Eval vm_compute in ("<<<T1714>>>" ++ terms [mkTok 35 "packet" 1 0 false; mkTok 42 "uint8x" 1 7 false; mkTok 2 "{" 1 14 false; mkTok 7 "@lengthOf(" 2 4 false; mkTok 42 "x_y_z" 2 16 false; mkTok 6 ")" 2 22 false; mkTok 36 "repeat" 3 0 false; mkTok 26 "int32" 3 7 false; mkTok 42 "lengthOf" 3 13 false; mkTok 43 "`u8 x,`" 3 22 false; mkTok 40 "," 3 30 false; mkTok 36 "repeat" 4 4 false; mkTok 42 "int" 4 11 false; mkTok 40 "," 4 15 false; mkTok 36 "repeat" 4 16 false; mkTok 28 "f32" 4 23 false; mkTok 42 "uint8x" 4 27 false; mkTok 43 "`{ , }`" 4 33 false; mkTok 40 "," 4 41 false; mkTok 42 "o" 4 43 false; mkTok 2 "{" 5 0 false; mkTok 38 "match" 5 2 false; mkTok 42 "A" 5 8 false; mkTok 17 "as" 6 4 false; mkTok 42 "roots" 6 7 false; mkTok 2 "{" 6 12 false; mkTok 31 """a\\""" 6 14 false; mkTok 39 ":" 7 4 false; mkTok 42 "packetx" 7 6 false; mkTok 40 "," 7 13 false; mkTok 3 "}" 7 15 false; mkTok 40 "," 7 17 false; mkTok 14 "zchar[" 7 19 false; mkTok 30 "42" 7 26 false; mkTok 13 "]" 7 29 false; mkTok 42 "packetx" 7 30 false; mkTok 44 "//x" 8 4 true; mkTok 5 "@calculatedFrom(" 9 4 false; mkTok 31 """abc""" 9 21 false; mkTok 6 ")" 9 27 false; mkTok 40 "," 10 0 false; mkTok 3 "}" 10 1 false; mkTok 40 "," 10 3 false; mkTok 36 "repeat" 10 5 false; mkTok 20 "uint8" 10 12 false; mkTok 42 "options1" 10 18 false; mkTok 40 "," 11 4 false; mkTok 32 "@rightPad" 12 4 false; mkTok 8 "(" 12 13 false; mkTok 33 "'0'" 12 16 false; mkTok 44 (string_of_bytes [47; 47; 32; 230; 179; 168; 233; 135; 138]%N) 12 20 true; mkTok 6 ")" 13 0 false; mkTok 38 "match" 13 2 false; mkTok 42 "calculatedFrom" 13 8 false; mkTok 17 "as" 13 23 false; mkTok 44 (string_of_bytes [47; 47; 32; 240; 159; 152; 128; 32; 101; 109; 111; 106; 105]%N) 14 0 true; mkTok 44 "/// triple" 15 0 true; mkTok 42 "x" 16 0 false; mkTok 2 "{" 16 2 false; mkTok 30 "65535" 16 4 false; mkTok 39 ":" 17 4 false; mkTok 42 "uint8x" 17 6 false; mkTok 40 "," 17 13 false; mkTok 30 "4294967296" 17 15 false; mkTok 39 ":" 17 26 false; mkTok 42 "i64_" 17 27 false; mkTok 44 "//x" 18 4 true; mkTok 40 "," 19 4 false; mkTok 44 "// a // b" 19 5 true; mkTok 3 "}" 20 0 false; mkTok 40 "," 20 2 false; mkTok 38 "match" 20 4 false; mkTok 42 "len" 20 10 false; mkTok 17 "as" 20 14 false; mkTok 42 "_x" 21 0 false; mkTok 2 "{" 21 2 false; mkTok 31 (string_of_bytes [34; 195; 169; 116; 195; 169; 34]%N) 21 4 false; mkTok 39 ":" 21 10 false; mkTok 42 "lengthOf" 21 12 false; mkTok 40 "," 21 20 false; mkTok 30 "3" 21 22 false; mkTok 44 "/// triple" 22 0 true; mkTok 44 "/// triple" 23 0 true; mkTok 39 ":" 24 0 false; mkTok 42 "zchar" 24 2 false; mkTok 44 "// a // b" 24 7 true; mkTok 40 "," 25 0 false; mkTok 3 "}" 25 2 false; mkTok 44 "/// triple" 26 4 true; mkTok 40 "," 27 4 false; mkTok 9 "@tag(" 27 6 false; mkTok 30 "0123456789" 27 12 false; mkTok 6 ")" 27 23 false; mkTok 9 "@tag(" 27 24 false; mkTok 30 "4294967296" 28 0 false; mkTok 6 ")" 29 0 false; mkTok 32 "@leftPad" 29 2 false; mkTok 8 "(" 29 11 false; mkTok 33 "'\x00'" 30 4 false; mkTok 6 ")" 30 11 false; mkTok 38 "match" 30 13 false; mkTok 42 "calculatedFrom" 30 19 false; mkTok 17 "as" 30 34 false; mkTok 42 "x" 30 37 false; mkTok 2 "{" 30 39 false; mkTok 31 (string_of_bytes [34; 240; 159; 152; 128; 34]%N) 30 40 false; mkTok 39 ":" 30 44 false; mkTok 42 "matchKey" 30 46 false; mkTok 40 "," 30 54 false; mkTok 31 """it's""" 30 56 false; mkTok 39 ":" 30 63 false; mkTok 42 "metadata" 31 0 false; mkTok 18 "[" 32 0 false; mkTok 44 "//" 32 2 true; mkTok 30 "1" 33 0 false; mkTok 44 "// @lengthOf(" 33 2 true; mkTok 40 "," 34 0 false; mkTok 31 (string_of_bytes [34; 240; 159; 152; 128; 34]%N) 35 0 false; mkTok 13 "]" 35 4 false; mkTok 39 ":" 35 6 false; mkTok 42 "tag" 36 0 false; mkTok 40 "," 37 4 false; mkTok 30 "3" 37 5 false; mkTok 39 ":" 37 7 false; mkTok 42 "i64_" 38 0 false; mkTok 30 "3" 38 5 false; mkTok 39 ":" 38 6 false; mkTok 42 "u" 38 8 false; mkTok 40 "," 38 10 false; mkTok 3 "}" 38 12 false; mkTok 40 "," 38 14 false; mkTok 36 "repeat" 38 16 false; mkTok 42 "string_" 39 0 false; mkTok 2 "{" 40 0 false; mkTok 42 "o" 40 2 false; mkTok 7 "@lengthOf(" 40 3 false; mkTok 42 "MetaDataX" 41 4 false; mkTok 6 ")" 42 0 false; mkTok 40 "," 42 2 false; mkTok 42 "i8i8" 42 4 false; mkTok 40 "," 43 4 false; mkTok 36 "repeat" 43 6 false; mkTok 42 "Packet" 43 13 false; mkTok 40 "," 44 0 false; mkTok 42 "_x" 44 2 false; mkTok 7 "@lengthOf(" 44 5 false; mkTok 42 "o" 44 16 false; mkTok 6 ")" 44 17 false; mkTok 44 "// `tick` ""quote"" 'q'" 44 19 true; mkTok 40 "," 45 0 false; mkTok 3 "}" 45 2 false; mkTok 40 "," 45 3 false; mkTok 44 "// `tick` ""quote"" 'q'" 46 4 true; mkTok 3 "}" 47 4 false; mkTok 34 "root" 47 6 false; mkTok 35 "packet" 48 0 false; mkTok 42 "body" 48 7 false; mkTok 2 "{" 48 12 false; mkTok 16 "char[]" 49 0 false; mkTok 42 "calculatedFrom" 49 7 false; mkTok 40 "," 49 22 false; mkTok 32 "@rightPad" 49 24 false; mkTok 8 "(" 49 34 false; mkTok 33 "' '" 49 36 false; mkTok 6 ")" 49 39 false; mkTok 38 "match" 49 41 false; mkTok 42 "Logon" 49 47 false; mkTok 17 "as" 49 53 false; mkTok 42 "T" 49 56 false; mkTok 2 "{" 49 58 false; mkTok 18 "[" 49 60 false; mkTok 44 "// packet A { u8 x, }" 50 4 true; mkTok 31 """1""" 51 4 false; mkTok 40 "," 51 7 false; mkTok 31 """a\""b""" 52 0 false; mkTok 40 "," 53 4 false; mkTok 44 "// a // b" 54 0 true; mkTok 44 "// a // b" 55 0 true; mkTok 31 """{,}""" 56 0 false; mkTok 40 "," 56 5 false; mkTok 30 "10" 56 7 false; mkTok 40 "," 56 9 false; mkTok 31 """1""" 56 10 false; mkTok 40 "," 56 14 false; mkTok 31 (string_of_bytes [34; 240; 159; 152; 128; 34]%N) 56 16 false; mkTok 44 "// packet A { u8 x, }" 56 20 true; mkTok 13 "]" 57 0 false; mkTok 39 ":" 57 2 false; mkTok 42 "metadata" 57 4 false; mkTok 40 "," 58 0 false; mkTok 44 "// @lengthOf(" 58 1 true; mkTok 31 """it's""" 59 0 false; mkTok 39 ":" 60 0 false; mkTok 44 "// c" 60 2 true; mkTok 42 "u" 61 0 false; mkTok 3 "}" 61 2 false; mkTok 40 "," 61 4 false; mkTok 38 "match" 61 6 false; mkTok 42 "packetx" 62 0 false; mkTok 17 "as" 62 8 false; mkTok 42 "roots" 63 4 false; mkTok 2 "{" 63 10 false; mkTok 44 "// `tick` ""quote"" 'q'" 63 12 true; mkTok 30 "0123456789" 64 0 false; mkTok 39 ":" 64 11 false; mkTok 42 "T" 64 12 false; mkTok 40 "," 65 4 false; mkTok 3 "}" 65 6 false; mkTok 40 "," 65 8 false; mkTok 5 "@calculatedFrom(" 65 10 false; mkTok 31 """x y""" 65 27 false; mkTok 44 (string_of_bytes [47; 47; 32; 240; 159; 152; 128; 32; 101; 109; 111; 106; 105]%N) 65 33 true; mkTok 6 ")" 66 0 false; mkTok 42 "i64_" 66 2 false; mkTok 2 "{" 66 7 false; mkTok 16 "char[]" 66 9 false; mkTok 42 "trueish" 66 16 false; mkTok 40 "," 66 24 false; mkTok 12 "char[" 66 26 false; mkTok 30 "65535" 66 31 false; mkTok 13 "]" 66 36 false; mkTok 42 "BodyLength" 66 38 false; mkTok 5 "@calculatedFrom(" 66 49 false; mkTok 31 (string_of_bytes [34; 195; 169; 116; 195; 169; 34]%N) 67 0 false; mkTok 6 ")" 67 6 false; mkTok 40 "," 67 7 false; mkTok 3 "}" 67 9 false; mkTok 40 "," 67 11 false; mkTok 36 "repeat" 67 13 false; mkTok 20 "u8" 67 20 false; mkTok 42 "tag" 67 23 false; mkTok 40 "," 67 27 false; mkTok 3 "}" 67 29 false; mkTok 34 "root" 67 30 false; mkTok 35 "packet" 67 35 false; mkTok 42 "BodyLength" 67 42 false; mkTok 2 "{" 67 53 false; mkTok 44 "//" 68 4 true; mkTok 42 "chars" 69 4 false; mkTok 40 "," 69 10 false; mkTok 7 "@lengthOf(" 69 12 false; mkTok 42 "Foo" 69 23 false; mkTok 6 ")" 69 26 false; mkTok 26 "int32" 69 28 false; mkTok 42 "u8x" 69 34 false; mkTok 40 "," 69 37 false; mkTok 15 "string" 69 39 false; mkTok 42 "trueish" 69 46 false; mkTok 43 "`u8 x,`" 69 54 false; mkTok 40 "," 70 0 false; mkTok 27 "i64" 70 2 false; mkTok 42 "options1" 70 6 false; mkTok 40 "," 70 15 false; mkTok 3 "}" 70 17 false; mkTok 0 "<EOF>" 71 0 false] (mkPacket (mkPtok 35 "packet" 1 0 0) (Some (mkPtok 3 "}" 70 17 253)) [(DPacket (mkPacketDef (mkSpan (mkPtok 35 "packet" 1 0 0) (mkPtok 3 "}" 47 4 153)) None (mkPtok 35 "packet" 1 0 0) (mkPtok 42 "uint8x" 1 7 1) (mkPtok 2 "{" 1 14 2) [(mkFieldWithAttr (mkSpan (mkPtok 7 "@lengthOf(" 2 4 3) (mkPtok 40 "," 3 30 10)) [(FALengthOf (mkSpan (mkPtok 7 "@lengthOf(" 2 4 3) (mkPtok 6 ")" 2 22 5)) (mkLengthOf (mkSpan (mkPtok 7 "@lengthOf(" 2 4 3) (mkPtok 6 ")" 2 22 5)) (mkPtok 7 "@lengthOf(" 2 4 3) (mkPtok 42 "x_y_z" 2 16 4) (mkPtok 6 ")" 2 22 5)))] (MetaField (mkSpan (mkPtok 36 "repeat" 3 0 6) (mkPtok 40 "," 3 30 10)) (Some (mkPtok 36 "repeat" 3 0 6)) (mkMetaDecl (mkSpan (mkPtok 26 "int32" 3 7 7) (mkPtok 40 "," 3 30 10)) (TyBasic (mkSpan (mkPtok 26 "int32" 3 7 7) (mkPtok 26 "int32" 3 7 7)) (mkBasicType (mkSpan (mkPtok 26 "int32" 3 7 7) (mkPtok 26 "int32" 3 7 7)) (mkPtok 26 "int32" 3 7 7))) (mkPtok 42 "lengthOf" 3 13 8) (Some (mkPtok 43 "`u8 x,`" 3 22 9)) (mkPtok 40 "," 3 30 10)))); (mkFieldWithAttr (mkSpan (mkPtok 36 "repeat" 4 4 11) (mkPtok 40 "," 4 15 13)) [] (ObjectField (mkSpan (mkPtok 36 "repeat" 4 4 11) (mkPtok 40 "," 4 15 13)) (Some (mkPtok 36 "repeat" 4 4 11)) (mkPtok 42 "int" 4 11 12) None None (mkPtok 40 "," 4 15 13))); (mkFieldWithAttr (mkSpan (mkPtok 36 "repeat" 4 16 14) (mkPtok 40 "," 4 41 18)) [] (MetaField (mkSpan (mkPtok 36 "repeat" 4 16 14) (mkPtok 40 "," 4 41 18)) (Some (mkPtok 36 "repeat" 4 16 14)) (mkMetaDecl (mkSpan (mkPtok 28 "f32" 4 23 15) (mkPtok 40 "," 4 41 18)) (TyBasic (mkSpan (mkPtok 28 "f32" 4 23 15) (mkPtok 28 "f32" 4 23 15)) (mkBasicType (mkSpan (mkPtok 28 "f32" 4 23 15) (mkPtok 28 "f32" 4 23 15)) (mkPtok 28 "f32" 4 23 15))) (mkPtok 42 "uint8x" 4 27 16) (Some (mkPtok 43 "`{ , }`" 4 33 17)) (mkPtok 40 "," 4 41 18)))); (mkFieldWithAttr (mkSpan (mkPtok 42 "o" 4 43 19) (mkPtok 40 "," 10 3 42)) [] (InerObjectField (mkSpan (mkPtok 42 "o" 4 43 19) (mkPtok 40 "," 10 3 42)) None (InerObjectDecl (mkSpan (mkPtok 42 "o" 4 43 19) (mkPtok 3 "}" 10 1 41)) (mkPtok 42 "o" 4 43 19) (mkPtok 2 "{" 5 0 20) [(MatchField (mkSpan (mkPtok 38 "match" 5 2 21) (mkPtok 40 "," 7 17 31)) (mkMatchFieldDecl (mkSpan (mkPtok 38 "match" 5 2 21) (mkPtok 3 "}" 7 15 30)) (mkPtok 38 "match" 5 2 21) (mkPtok 42 "A" 5 8 22) (mkPtok 17 "as" 6 4 23) (mkPtok 42 "roots" 6 7 24) (mkPtok 2 "{" 6 12 25) [(mkMatchPair (mkSpan (mkPtok 31 """a\\""" 6 14 26) (mkPtok 40 "," 7 13 29)) (MKString (mkPtok 31 """a\\""" 6 14 26)) (mkPtok 39 ":" 7 4 27) (mkPtok 42 "packetx" 7 6 28) (Some (mkPtok 40 "," 7 13 29)))] (mkPtok 3 "}" 7 15 30)) (mkPtok 40 "," 7 17 31)); (CheckSumField (mkSpan (mkPtok 14 "zchar[" 7 19 32) (mkPtok 40 "," 10 0 40)) (mkChecksumFieldDecl (mkSpan (mkPtok 14 "zchar[" 7 19 32) (mkPtok 40 "," 10 0 40)) (Some (TyFixed (mkSpan (mkPtok 14 "zchar[" 7 19 32) (mkPtok 13 "]" 7 29 34)) (mkFixedString (mkSpan (mkPtok 14 "zchar[" 7 19 32) (mkPtok 13 "]" 7 29 34)) (mkPtok 14 "zchar[" 7 19 32) (mkPtok 30 "42" 7 26 33) (mkPtok 13 "]" 7 29 34)))) (mkPtok 42 "packetx" 7 30 35) (mkCalculatedFrom (mkSpan (mkPtok 5 "@calculatedFrom(" 9 4 37) (mkPtok 6 ")" 9 27 39)) (mkPtok 5 "@calculatedFrom(" 9 4 37) (mkPtok 31 """abc""" 9 21 38) (mkPtok 6 ")" 9 27 39)) None (mkPtok 40 "," 10 0 40)))] (mkPtok 3 "}" 10 1 41)) (mkPtok 40 "," 10 3 42))); (mkFieldWithAttr (mkSpan (mkPtok 36 "repeat" 10 5 43) (mkPtok 40 "," 11 4 46)) [] (MetaField (mkSpan (mkPtok 36 "repeat" 10 5 43) (mkPtok 40 "," 11 4 46)) (Some (mkPtok 36 "repeat" 10 5 43)) (mkMetaDecl (mkSpan (mkPtok 20 "uint8" 10 12 44) (mkPtok 40 "," 11 4 46)) (TyBasic (mkSpan (mkPtok 20 "uint8" 10 12 44) (mkPtok 20 "uint8" 10 12 44)) (mkBasicType (mkSpan (mkPtok 20 "uint8" 10 12 44) (mkPtok 20 "uint8" 10 12 44)) (mkPtok 20 "uint8" 10 12 44))) (mkPtok 42 "options1" 10 18 45) None (mkPtok 40 "," 11 4 46)))); (mkFieldWithAttr (mkSpan (mkPtok 32 "@rightPad" 12 4 47) (mkPtok 40 "," 20 2 70)) [(FAPadding (mkSpan (mkPtok 32 "@rightPad" 12 4 47) (mkPtok 6 ")" 13 0 51)) (mkPaddingAttr (mkSpan (mkPtok 32 "@rightPad" 12 4 47) (mkPtok 6 ")" 13 0 51)) (mkPtok 32 "@rightPad" 12 4 47) (mkPtok 8 "(" 12 13 48) (Some (mkPtok 33 "'0'" 12 16 49)) (mkPtok 6 ")" 13 0 51)))] (MatchField (mkSpan (mkPtok 38 "match" 13 2 52) (mkPtok 40 "," 20 2 70)) (mkMatchFieldDecl (mkSpan (mkPtok 38 "match" 13 2 52) (mkPtok 3 "}" 20 0 69)) (mkPtok 38 "match" 13 2 52) (mkPtok 42 "calculatedFrom" 13 8 53) (mkPtok 17 "as" 13 23 54) (mkPtok 42 "x" 16 0 57) (mkPtok 2 "{" 16 2 58) [(mkMatchPair (mkSpan (mkPtok 30 "65535" 16 4 59) (mkPtok 40 "," 17 13 62)) (MKDigits (mkPtok 30 "65535" 16 4 59)) (mkPtok 39 ":" 17 4 60) (mkPtok 42 "uint8x" 17 6 61) (Some (mkPtok 40 "," 17 13 62))); (mkMatchPair (mkSpan (mkPtok 30 "4294967296" 17 15 63) (mkPtok 40 "," 19 4 67)) (MKDigits (mkPtok 30 "4294967296" 17 15 63)) (mkPtok 39 ":" 17 26 64) (mkPtok 42 "i64_" 17 27 65) (Some (mkPtok 40 "," 19 4 67)))] (mkPtok 3 "}" 20 0 69)) (mkPtok 40 "," 20 2 70))); (mkFieldWithAttr (mkSpan (mkPtok 38 "match" 20 4 71) (mkPtok 40 "," 27 4 89)) [] (MatchField (mkSpan (mkPtok 38 "match" 20 4 71) (mkPtok 40 "," 27 4 89)) (mkMatchFieldDecl (mkSpan (mkPtok 38 "match" 20 4 71) (mkPtok 3 "}" 25 2 87)) (mkPtok 38 "match" 20 4 71) (mkPtok 42 "len" 20 10 72) (mkPtok 17 "as" 20 14 73) (mkPtok 42 "_x" 21 0 74) (mkPtok 2 "{" 21 2 75) [(mkMatchPair (mkSpan (mkPtok 31 (string_of_bytes [34; 195; 169; 116; 195; 169; 34]%N) 21 4 76) (mkPtok 40 "," 21 20 79)) (MKString (mkPtok 31 (string_of_bytes [34; 195; 169; 116; 195; 169; 34]%N) 21 4 76)) (mkPtok 39 ":" 21 10 77) (mkPtok 42 "lengthOf" 21 12 78) (Some (mkPtok 40 "," 21 20 79))); (mkMatchPair (mkSpan (mkPtok 30 "3" 21 22 80) (mkPtok 40 "," 25 0 86)) (MKDigits (mkPtok 30 "3" 21 22 80)) (mkPtok 39 ":" 24 0 83) (mkPtok 42 "zchar" 24 2 84) (Some (mkPtok 40 "," 25 0 86)))] (mkPtok 3 "}" 25 2 87)) (mkPtok 40 "," 27 4 89))); (mkFieldWithAttr (mkSpan (mkPtok 9 "@tag(" 27 6 90) (mkPtok 40 "," 38 14 130)) [(FATag (mkSpan (mkPtok 9 "@tag(" 27 6 90) (mkPtok 6 ")" 27 23 92)) (mkTagAttr (mkSpan (mkPtok 9 "@tag(" 27 6 90) (mkPtok 6 ")" 27 23 92)) (mkPtok 9 "@tag(" 27 6 90) (mkPtok 30 "0123456789" 27 12 91) (mkPtok 6 ")" 27 23 92))); (FATag (mkSpan (mkPtok 9 "@tag(" 27 24 93) (mkPtok 6 ")" 29 0 95)) (mkTagAttr (mkSpan (mkPtok 9 "@tag(" 27 24 93) (mkPtok 6 ")" 29 0 95)) (mkPtok 9 "@tag(" 27 24 93) (mkPtok 30 "4294967296" 28 0 94) (mkPtok 6 ")" 29 0 95))); (FAPadding (mkSpan (mkPtok 32 "@leftPad" 29 2 96) (mkPtok 6 ")" 30 11 99)) (mkPaddingAttr (mkSpan (mkPtok 32 "@leftPad" 29 2 96) (mkPtok 6 ")" 30 11 99)) (mkPtok 32 "@leftPad" 29 2 96) (mkPtok 8 "(" 29 11 97) (Some (mkPtok 33 "'\x00'" 30 4 98)) (mkPtok 6 ")" 30 11 99)))] (MatchField (mkSpan (mkPtok 38 "match" 30 13 100) (mkPtok 40 "," 38 14 130)) (mkMatchFieldDecl (mkSpan (mkPtok 38 "match" 30 13 100) (mkPtok 3 "}" 38 12 129)) (mkPtok 38 "match" 30 13 100) (mkPtok 42 "calculatedFrom" 30 19 101) (mkPtok 17 "as" 30 34 102) (mkPtok 42 "x" 30 37 103) (mkPtok 2 "{" 30 39 104) [(mkMatchPair (mkSpan (mkPtok 31 (string_of_bytes [34; 240; 159; 152; 128; 34]%N) 30 40 105) (mkPtok 40 "," 30 54 108)) (MKString (mkPtok 31 (string_of_bytes [34; 240; 159; 152; 128; 34]%N) 30 40 105)) (mkPtok 39 ":" 30 44 106) (mkPtok 42 "matchKey" 30 46 107) (Some (mkPtok 40 "," 30 54 108))); (mkMatchPair (mkSpan (mkPtok 31 """it's""" 30 56 109) (mkPtok 42 "metadata" 31 0 111)) (MKString (mkPtok 31 """it's""" 30 56 109)) (mkPtok 39 ":" 30 63 110) (mkPtok 42 "metadata" 31 0 111) None); (mkMatchPair (mkSpan (mkPtok 18 "[" 32 0 112) (mkPtok 40 "," 37 4 121)) (MKList (mkKeyList (mkSpan (mkPtok 18 "[" 32 0 112) (mkPtok 13 "]" 35 4 118)) (mkPtok 18 "[" 32 0 112) (mkPtok 30 "1" 33 0 114) [((mkPtok 40 "," 34 0 116), (mkPtok 31 (string_of_bytes [34; 240; 159; 152; 128; 34]%N) 35 0 117))] (mkPtok 13 "]" 35 4 118))) (mkPtok 39 ":" 35 6 119) (mkPtok 42 "tag" 36 0 120) (Some (mkPtok 40 "," 37 4 121))); (mkMatchPair (mkSpan (mkPtok 30 "3" 37 5 122) (mkPtok 42 "i64_" 38 0 124)) (MKDigits (mkPtok 30 "3" 37 5 122)) (mkPtok 39 ":" 37 7 123) (mkPtok 42 "i64_" 38 0 124) None); (mkMatchPair (mkSpan (mkPtok 30 "3" 38 5 125) (mkPtok 40 "," 38 10 128)) (MKDigits (mkPtok 30 "3" 38 5 125)) (mkPtok 39 ":" 38 6 126) (mkPtok 42 "u" 38 8 127) (Some (mkPtok 40 "," 38 10 128)))] (mkPtok 3 "}" 38 12 129)) (mkPtok 40 "," 38 14 130))); (mkFieldWithAttr (mkSpan (mkPtok 36 "repeat" 38 16 131) (mkPtok 40 "," 45 3 151)) [] (InerObjectField (mkSpan (mkPtok 36 "repeat" 38 16 131) (mkPtok 40 "," 45 3 151)) (Some (mkPtok 36 "repeat" 38 16 131)) (InerObjectDecl (mkSpan (mkPtok 42 "string_" 39 0 132) (mkPtok 3 "}" 45 2 150)) (mkPtok 42 "string_" 39 0 132) (mkPtok 2 "{" 40 0 133) [(LengthField (mkSpan (mkPtok 42 "o" 40 2 134) (mkPtok 40 "," 42 2 138)) (mkLengthFieldDecl (mkSpan (mkPtok 42 "o" 40 2 134) (mkPtok 40 "," 42 2 138)) None (mkPtok 42 "o" 40 2 134) (mkLengthOf (mkSpan (mkPtok 7 "@lengthOf(" 40 3 135) (mkPtok 6 ")" 42 0 137)) (mkPtok 7 "@lengthOf(" 40 3 135) (mkPtok 42 "MetaDataX" 41 4 136) (mkPtok 6 ")" 42 0 137)) None (mkPtok 40 "," 42 2 138))); (ObjectField (mkSpan (mkPtok 42 "i8i8" 42 4 139) (mkPtok 40 "," 43 4 140)) None (mkPtok 42 "i8i8" 42 4 139) None None (mkPtok 40 "," 43 4 140)); (ObjectField (mkSpan (mkPtok 36 "repeat" 43 6 141) (mkPtok 40 "," 44 0 143)) (Some (mkPtok 36 "repeat" 43 6 141)) (mkPtok 42 "Packet" 43 13 142) None None (mkPtok 40 "," 44 0 143)); (LengthField (mkSpan (mkPtok 42 "_x" 44 2 144) (mkPtok 40 "," 45 0 149)) (mkLengthFieldDecl (mkSpan (mkPtok 42 "_x" 44 2 144) (mkPtok 40 "," 45 0 149)) None (mkPtok 42 "_x" 44 2 144) (mkLengthOf (mkSpan (mkPtok 7 "@lengthOf(" 44 5 145) (mkPtok 6 ")" 44 17 147)) (mkPtok 7 "@lengthOf(" 44 5 145) (mkPtok 42 "o" 44 16 146) (mkPtok 6 ")" 44 17 147)) None (mkPtok 40 "," 45 0 149)))] (mkPtok 3 "}" 45 2 150)) (mkPtok 40 "," 45 3 151)))] (mkPtok 3 "}" 47 4 153))); (DPacket (mkPacketDef (mkSpan (mkPtok 34 "root" 47 6 154) (mkPtok 3 "}" 67 29 232)) (Some (mkPtok 34 "root" 47 6 154)) (mkPtok 35 "packet" 48 0 155) (mkPtok 42 "body" 48 7 156) (mkPtok 2 "{" 48 12 157) [(mkFieldWithAttr (mkSpan (mkPtok 16 "char[]" 49 0 158) (mkPtok 40 "," 49 22 160)) [] (MetaField (mkSpan (mkPtok 16 "char[]" 49 0 158) (mkPtok 40 "," 49 22 160)) None (mkMetaDecl (mkSpan (mkPtok 16 "char[]" 49 0 158) (mkPtok 40 "," 49 22 160)) (TyDynamic (mkSpan (mkPtok 16 "char[]" 49 0 158) (mkPtok 16 "char[]" 49 0 158)) (mkDynamicString (mkSpan (mkPtok 16 "char[]" 49 0 158) (mkPtok 16 "char[]" 49 0 158)) (mkPtok 16 "char[]" 49 0 158))) (mkPtok 42 "calculatedFrom" 49 7 159) None (mkPtok 40 "," 49 22 160)))); (mkFieldWithAttr (mkSpan (mkPtok 32 "@rightPad" 49 24 161) (mkPtok 40 "," 61 4 196)) [(FAPadding (mkSpan (mkPtok 32 "@rightPad" 49 24 161) (mkPtok 6 ")" 49 39 164)) (mkPaddingAttr (mkSpan (mkPtok 32 "@rightPad" 49 24 161) (mkPtok 6 ")" 49 39 164)) (mkPtok 32 "@rightPad" 49 24 161) (mkPtok 8 "(" 49 34 162) (Some (mkPtok 33 "' '" 49 36 163)) (mkPtok 6 ")" 49 39 164)))] (MatchField (mkSpan (mkPtok 38 "match" 49 41 165) (mkPtok 40 "," 61 4 196)) (mkMatchFieldDecl (mkSpan (mkPtok 38 "match" 49 41 165) (mkPtok 3 "}" 61 2 195)) (mkPtok 38 "match" 49 41 165) (mkPtok 42 "Logon" 49 47 166) (mkPtok 17 "as" 49 53 167) (mkPtok 42 "T" 49 56 168) (mkPtok 2 "{" 49 58 169) [(mkMatchPair (mkSpan (mkPtok 18 "[" 49 60 170) (mkPtok 40 "," 58 0 189)) (MKList (mkKeyList (mkSpan (mkPtok 18 "[" 49 60 170) (mkPtok 13 "]" 57 0 186)) (mkPtok 18 "[" 49 60 170) (mkPtok 31 """1""" 51 4 172) [((mkPtok 40 "," 51 7 173), (mkPtok 31 """a\""b""" 52 0 174)); ((mkPtok 40 "," 53 4 175), (mkPtok 31 """{,}""" 56 0 178)); ((mkPtok 40 "," 56 5 179), (mkPtok 30 "10" 56 7 180)); ((mkPtok 40 "," 56 9 181), (mkPtok 31 """1""" 56 10 182)); ((mkPtok 40 "," 56 14 183), (mkPtok 31 (string_of_bytes [34; 240; 159; 152; 128; 34]%N) 56 16 184))] (mkPtok 13 "]" 57 0 186))) (mkPtok 39 ":" 57 2 187) (mkPtok 42 "metadata" 57 4 188) (Some (mkPtok 40 "," 58 0 189))); (mkMatchPair (mkSpan (mkPtok 31 """it's""" 59 0 191) (mkPtok 42 "u" 61 0 194)) (MKString (mkPtok 31 """it's""" 59 0 191)) (mkPtok 39 ":" 60 0 192) (mkPtok 42 "u" 61 0 194) None)] (mkPtok 3 "}" 61 2 195)) (mkPtok 40 "," 61 4 196))); (mkFieldWithAttr (mkSpan (mkPtok 38 "match" 61 6 197) (mkPtok 40 "," 65 8 208)) [] (MatchField (mkSpan (mkPtok 38 "match" 61 6 197) (mkPtok 40 "," 65 8 208)) (mkMatchFieldDecl (mkSpan (mkPtok 38 "match" 61 6 197) (mkPtok 3 "}" 65 6 207)) (mkPtok 38 "match" 61 6 197) (mkPtok 42 "packetx" 62 0 198) (mkPtok 17 "as" 62 8 199) (mkPtok 42 "roots" 63 4 200) (mkPtok 2 "{" 63 10 201) [(mkMatchPair (mkSpan (mkPtok 30 "0123456789" 64 0 203) (mkPtok 40 "," 65 4 206)) (MKDigits (mkPtok 30 "0123456789" 64 0 203)) (mkPtok 39 ":" 64 11 204) (mkPtok 42 "T" 64 12 205) (Some (mkPtok 40 "," 65 4 206)))] (mkPtok 3 "}" 65 6 207)) (mkPtok 40 "," 65 8 208))); (mkFieldWithAttr (mkSpan (mkPtok 5 "@calculatedFrom(" 65 10 209) (mkPtok 40 "," 67 11 227)) [(FACalculatedFrom (mkSpan (mkPtok 5 "@calculatedFrom(" 65 10 209) (mkPtok 6 ")" 66 0 212)) (mkCalculatedFrom (mkSpan (mkPtok 5 "@calculatedFrom(" 65 10 209) (mkPtok 6 ")" 66 0 212)) (mkPtok 5 "@calculatedFrom(" 65 10 209) (mkPtok 31 """x y""" 65 27 210) (mkPtok 6 ")" 66 0 212)))] (InerObjectField (mkSpan (mkPtok 42 "i64_" 66 2 213) (mkPtok 40 "," 67 11 227)) None (InerObjectDecl (mkSpan (mkPtok 42 "i64_" 66 2 213) (mkPtok 3 "}" 67 9 226)) (mkPtok 42 "i64_" 66 2 213) (mkPtok 2 "{" 66 7 214) [(MetaField (mkSpan (mkPtok 16 "char[]" 66 9 215) (mkPtok 40 "," 66 24 217)) None (mkMetaDecl (mkSpan (mkPtok 16 "char[]" 66 9 215) (mkPtok 40 "," 66 24 217)) (TyDynamic (mkSpan (mkPtok 16 "char[]" 66 9 215) (mkPtok 16 "char[]" 66 9 215)) (mkDynamicString (mkSpan (mkPtok 16 "char[]" 66 9 215) (mkPtok 16 "char[]" 66 9 215)) (mkPtok 16 "char[]" 66 9 215))) (mkPtok 42 "trueish" 66 16 216) None (mkPtok 40 "," 66 24 217))); (CheckSumField (mkSpan (mkPtok 12 "char[" 66 26 218) (mkPtok 40 "," 67 7 225)) (mkChecksumFieldDecl (mkSpan (mkPtok 12 "char[" 66 26 218) (mkPtok 40 "," 67 7 225)) (Some (TyFixed (mkSpan (mkPtok 12 "char[" 66 26 218) (mkPtok 13 "]" 66 36 220)) (mkFixedString (mkSpan (mkPtok 12 "char[" 66 26 218) (mkPtok 13 "]" 66 36 220)) (mkPtok 12 "char[" 66 26 218) (mkPtok 30 "65535" 66 31 219) (mkPtok 13 "]" 66 36 220)))) (mkPtok 42 "BodyLength" 66 38 221) (mkCalculatedFrom (mkSpan (mkPtok 5 "@calculatedFrom(" 66 49 222) (mkPtok 6 ")" 67 6 224)) (mkPtok 5 "@calculatedFrom(" 66 49 222) (mkPtok 31 (string_of_bytes [34; 195; 169; 116; 195; 169; 34]%N) 67 0 223) (mkPtok 6 ")" 67 6 224)) None (mkPtok 40 "," 67 7 225)))] (mkPtok 3 "}" 67 9 226)) (mkPtok 40 "," 67 11 227))); (mkFieldWithAttr (mkSpan (mkPtok 36 "repeat" 67 13 228) (mkPtok 40 "," 67 27 231)) [] (MetaField (mkSpan (mkPtok 36 "repeat" 67 13 228) (mkPtok 40 "," 67 27 231)) (Some (mkPtok 36 "repeat" 67 13 228)) (mkMetaDecl (mkSpan (mkPtok 20 "u8" 67 20 229) (mkPtok 40 "," 67 27 231)) (TyBasic (mkSpan (mkPtok 20 "u8" 67 20 229) (mkPtok 20 "u8" 67 20 229)) (mkBasicType (mkSpan (mkPtok 20 "u8" 67 20 229) (mkPtok 20 "u8" 67 20 229)) (mkPtok 20 "u8" 67 20 229))) (mkPtok 42 "tag" 67 23 230) None (mkPtok 40 "," 67 27 231))))] (mkPtok 3 "}" 67 29 232))); (DPacket (mkPacketDef (mkSpan (mkPtok 34 "root" 67 30 233) (mkPtok 3 "}" 70 17 253)) (Some (mkPtok 34 "root" 67 30 233)) (mkPtok 35 "packet" 67 35 234) (mkPtok 42 "BodyLength" 67 42 235) (mkPtok 2 "{" 67 53 236) [(mkFieldWithAttr (mkSpan (mkPtok 42 "chars" 69 4 238) (mkPtok 40 "," 69 10 239)) [] (ObjectField (mkSpan (mkPtok 42 "chars" 69 4 238) (mkPtok 40 "," 69 10 239)) None (mkPtok 42 "chars" 69 4 238) None None (mkPtok 40 "," 69 10 239))); (mkFieldWithAttr (mkSpan (mkPtok 7 "@lengthOf(" 69 12 240) (mkPtok 40 "," 69 37 245)) [(FALengthOf (mkSpan (mkPtok 7 "@lengthOf(" 69 12 240) (mkPtok 6 ")" 69 26 242)) (mkLengthOf (mkSpan (mkPtok 7 "@lengthOf(" 69 12 240) (mkPtok 6 ")" 69 26 242)) (mkPtok 7 "@lengthOf(" 69 12 240) (mkPtok 42 "Foo" 69 23 241) (mkPtok 6 ")" 69 26 242)))] (MetaField (mkSpan (mkPtok 26 "int32" 69 28 243) (mkPtok 40 "," 69 37 245)) None (mkMetaDecl (mkSpan (mkPtok 26 "int32" 69 28 243) (mkPtok 40 "," 69 37 245)) (TyBasic (mkSpan (mkPtok 26 "int32" 69 28 243) (mkPtok 26 "int32" 69 28 243)) (mkBasicType (mkSpan (mkPtok 26 "int32" 69 28 243) (mkPtok 26 "int32" 69 28 243)) (mkPtok 26 "int32" 69 28 243))) (mkPtok 42 "u8x" 69 34 244) None (mkPtok 40 "," 69 37 245)))); (mkFieldWithAttr (mkSpan (mkPtok 15 "string" 69 39 246) (mkPtok 40 "," 70 0 249)) [] (MetaField (mkSpan (mkPtok 15 "string" 69 39 246) (mkPtok 40 "," 70 0 249)) None (mkMetaDecl (mkSpan (mkPtok 15 "string" 69 39 246) (mkPtok 40 "," 70 0 249)) (TyDynamic (mkSpan (mkPtok 15 "string" 69 39 246) (mkPtok 15 "string" 69 39 246)) (mkDynamicString (mkSpan (mkPtok 15 "string" 69 39 246) (mkPtok 15 "string" 69 39 246)) (mkPtok 15 "string" 69 39 246))) (mkPtok 42 "trueish" 69 46 247) (Some (mkPtok 43 "`u8 x,`" 69 54 248)) (mkPtok 40 "," 70 0 249)))); (mkFieldWithAttr (mkSpan (mkPtok 27 "i64" 70 2 250) (mkPtok 40 "," 70 15 252)) [] (MetaField (mkSpan (mkPtok 27 "i64" 70 2 250) (mkPtok 40 "," 70 15 252)) None (mkMetaDecl (mkSpan (mkPtok 27 "i64" 70 2 250) (mkPtok 40 "," 70 15 252)) (TyBasic (mkSpan (mkPtok 27 "i64" 70 2 250) (mkPtok 27 "i64" 70 2 250)) (mkBasicType (mkSpan (mkPtok 27 "i64" 70 2 250) (mkPtok 27 "i64" 70 2 250)) (mkPtok 27 "i64" 70 2 250))) (mkPtok 42 "options1" 70 6 251) None (mkPtok 40 "," 70 15 252))))] (mkPtok 3 "}" 70 17 253)))])).
Eval vm_compute in ("<<<M1746>>>" ++ check (runes_of_ascii "packet T { zchar
    // packet A { u8 x, }
    ,
@tag(
7 )
    @lengthOf(/// triple
Pad) Z9_ ,
@rightPad
    ( ) zchar[ 10 ] asx
`" ++ [28040; 24687; 31867; 22411]%N ++ runes_of_ascii "`,
@tag( 007 )
match i8i8 as BodyLength {//x
7: float
    //
    , 007: A , } , }	packet trueish
{ @calculatedFrom(""a\""b"")
// " ++ [27880; 37322]%N ++ runes_of_ascii "
// packet A { u8 x, }
Logon{ MetaDataX { x_y_z  tag `" ++ [233]%N ++ runes_of_ascii "`  , match chars
    as
    x
{ 3 : _x
}, },
    repeat
// a // b
// packet A { u8 x, }
string
    BodyLength ,
char[] o ,zchar[ 007
// `tick` ""quote"" 'q'
// trailing space 
] options1@lengthOf( zchar  ) ,
}
// c
// c
, }
//x
// a // b
root packet stringy
{}
")).
Eval vm_compute in ("<<<M1778>>>" ++ check (runes_of_ascii "
packet repeatCount{ A// a // b
{f64 _x
    , zchar[ 7 ] calculatedFrom@calculatedFrom( ""it's"" )`a\` , repeat uint8x
    u
, } ,repeat
/// triple
//
float32 int
,u64 x
@calculatedFrom( """ ++ [28040; 24687]%N ++ runes_of_ascii """ )
//x
/// triple
, @leftPad
( ' ' ) repeat
int64
o	,zchar
@lengthOf(
    f32a) ,@leftPad (// " ++ [128512]%N ++ runes_of_ascii " emoji
)zchar
{ repeat u  {
repeat
    // a // b
    i64	T// `tick` ""quote"" 'q'
,
leftPad{
    // " ++ [128512]%N ++ runes_of_ascii " emoji
    _x
@calculatedFrom( ""a\\"") , repeat string uint8x
,	u64 u`" ++ [28040; 24687; 31867; 22411]%N ++ runes_of_ascii "` , }  , char[ 0123456789] options1  , As As `
` ,
} , u16
i8i8	`line1
line2`
,
} , @lengthOf(
T )// c
char[]
    Logon@lengthOf( leftPad  ) ,
repeat lengthOf chars
,match MetaDataX as	crc{ 3 : pack
    ,""CRC32""
: x , }
,}
")).
Eval vm_compute in ("<<<M1810>>>" ++ check (runes_of_ascii "root
    // a // b
    packet
int	{ }
")).
Eval vm_compute in ("<<<M1842>>>" ++ check (runes_of_ascii "MetaData /// triple
f32a {chars matchKey, }options
{  calculatedFrom = ""CRC32""
; } root packet Pad { f64 roots@lengthOf(calculatedFrom	)
, // `tick` ""quote"" 'q'
repeat f32a
{rootA @lengthOf( tag )`crlf
line` ,
    char[]
MetaDataX @calculatedFrom( """ ++ [128512]%N ++ runes_of_ascii """)
,
packetx falsey ,
}	,
    match T as Logon{1 :As , } , match
    charz
as calculatedFrom
    {
    """ ++ [28040; 24687]%N ++ runes_of_ascii """
    : float ,10 : i8i8 ,// `tick` ""quote"" 'q'
0: body ,[ """ ++ [128512]%N ++ runes_of_ascii """  ,
    7 ]
// packet A { u8 x, }
//x
:len
,
    // trailing space 
    ""a\\""  : int
    ,
""\" ++ [233]%N ++ runes_of_ascii """ // trailing space 
: o ,}
,
    }
")).
Eval vm_compute in ("<<<M1874>>>" ++ check (runes_of_ascii "packet repeatCount {o{
i16 string_  `it's`
    , match As
    as stringy {[
00 ]
    : lengthOf
,[ ""// no comment""
,""it's"" ] // c
: Z9_ [
""packet""  , 42 ] : tag	, } ,
    },
match Z9_ as packetx { 10 : Logon
    007	: repeatCount	,//x
"""" //
: charz } , @lengthOf(
    Header ) A
float
,@lengthOf(	A ) body leftPad , }options {	int =
007 ;len =
'0' u8x = 65535 ; } // c")).
Eval vm_compute in ("<<<M1906>>>" ++ check (runes_of_ascii "// @lengthOf(
MetaData x_y_z {
    f64
    // c
    calculatedFrom ,	u64
    Foo
,
float64 len, Packet u8x, // trailing space 
} packet Pad {  char[
42 ]
    body @calculatedFrom(	""{,}"")
    , @lengthOf(
    // `tick` ""quote"" 'q'
    x
)
u8	body, Pad { _x
{ match T as uint8x
{ ""it's"" :
    calculatedFrom ,  } ,
x_y_z
    // trailing space 
    @lengthOf( Packet ) `// not a comment`  , repeat float
// c
// c
`` , } ,
    repeat  crc
{ char len
, repeat u64
    crc ,
x_y_z { int8
falsey
    //
    ,}
    , },}, repeat int32 matchKey`u8 x,`
,@rightPad(
    ' ' )//
@tag( 00) char[
4294967296 ] u @calculatedFrom( // " ++ [27880; 37322]%N ++ runes_of_ascii "
""abc"" )
    , @leftPad( '0' ) repeat i32 metadata,
    Header ,	}root packet x {
    @leftPad ( '\x00' )
repeat A `line1
line2` ,}
    packet zchar
{	repeat  char[
    10  ]len ,	u8x	@calculatedFrom(""it's""
) `{ , }`,
    // `tick` ""quote"" 'q'
    string A
`// not a comment`, repeat A crc
    `say ""hi""`  , } packet // `tick` ""quote"" 'q'
falsey{ string// `tick` ""quote"" 'q'
crc
    , @lengthOf(
    // @lengthOf(
    i64_ )BodyLength	T
,
    zchar[ 7] charz , u8x // c
{
// @lengthOf(
// `tick` ""quote"" 'q'
repeat As `" ++ [233]%N ++ runes_of_ascii "` ,	repeat string  float ,match	Pad /// triple
as	stringy {
    // `tick` ""quote"" 'q'
    1 :
repeatCount
    1 : tag,007 :
u , [ 3
, 007 ]
    : uint8x, ""`tick`"": i8i8	, ""abc"" : chars , } ,	}, @calculatedFrom(""abc""
    ) len Packet `say ""hi""`  , @calculatedFrom(
    // `tick` ""quote"" 'q'
    ""1"" ) Logon , chars , }")).
Eval vm_compute in ("<<<M1938>>>" ++ check (runes_of_ascii "
packet
    matchKey{
repeat
tag `tab	here` , Foo ,@rightPad  ( ' ' )
@tag(  42)uint64 // " ++ [27880; 37322]%N ++ runes_of_ascii "
i8i8 @calculatedFrom(""1"" // c
) // packet A { u8 x, }
, } root
packet packetx
// packet A { u8 x, }
//	t
{
// a // b
//x
@lengthOf( a1// `tick` ""quote"" 'q'
) @rightPad // " ++ [27880; 37322]%N ++ runes_of_ascii "
( ) @tag( 007
//
//
)repeat u8 Header `{ , }` , } MetaData matchKey { } // trailing space ")).
Eval vm_compute in ("<<<T1938>>>" ++ terms [mkTok 35 "packet" 2 0 false; mkTok 42 "matchKey" 3 4 false; mkTok 2 "{" 3 12 false; mkTok 36 "repeat" 4 0 false; mkTok 42 "tag" 5 0 false; mkTok 43 (string_of_bytes [96; 116; 97; 98; 9; 104; 101; 114; 101; 96]%N) 5 4 false; mkTok 40 "," 5 15 false; mkTok 42 "Foo" 5 17 false; mkTok 40 "," 5 21 false; mkTok 32 "@rightPad" 5 22 false; mkTok 8 "(" 5 33 false; mkTok 33 "' '" 5 35 false; mkTok 6 ")" 5 39 false; mkTok 9 "@tag(" 6 0 false; mkTok 30 "42" 6 7 false; mkTok 6 ")" 6 9 false; mkTok 23 "uint64" 6 10 false; mkTok 44 (string_of_bytes [47; 47; 32; 230; 179; 168; 233; 135; 138]%N) 6 17 true; mkTok 42 "i8i8" 7 0 false; mkTok 5 "@calculatedFrom(" 7 5 false; mkTok 31 """1""" 7 21 false; mkTok 44 "// c" 7 25 true; mkTok 6 ")" 8 0 false; mkTok 44 "// packet A { u8 x, }" 8 2 true; mkTok 40 "," 9 0 false; mkTok 3 "}" 9 2 false; mkTok 34 "root" 9 4 false; mkTok 35 "packet" 10 0 false; mkTok 42 "packetx" 10 7 false; mkTok 44 "// packet A { u8 x, }" 11 0 true; mkTok 44 (string_of_bytes [47; 47; 9; 116]%N) 12 0 true; mkTok 2 "{" 13 0 false; mkTok 44 "// a // b" 14 0 true; mkTok 44 "//x" 15 0 true; mkTok 7 "@lengthOf(" 16 0 false; mkTok 42 "a1" 16 11 false; mkTok 44 "// `tick` ""quote"" 'q'" 16 13 true; mkTok 6 ")" 17 0 false; mkTok 32 "@rightPad" 17 2 false; mkTok 44 (string_of_bytes [47; 47; 32; 230; 179; 168; 233; 135; 138]%N) 17 12 true; mkTok 8 "(" 18 0 false; mkTok 6 ")" 18 2 false; mkTok 9 "@tag(" 18 4 false; mkTok 30 "007" 18 10 false; mkTok 44 "//" 19 0 true; mkTok 44 "//" 20 0 true; mkTok 6 ")" 21 0 false; mkTok 36 "repeat" 21 1 false; mkTok 20 "u8" 21 8 false; mkTok 42 "Header" 21 11 false; mkTok 43 "`{ , }`" 21 18 false; mkTok 40 "," 21 26 false; mkTok 3 "}" 21 28 false; mkTok 37 "MetaData" 21 30 false; mkTok 42 "matchKey" 21 39 false; mkTok 2 "{" 21 48 false; mkTok 3 "}" 21 50 false; mkTok 44 "// trailing space " 21 52 true; mkTok 0 "<EOF>" 21 70 false] (mkPacket (mkPtok 35 "packet" 2 0 0) (Some (mkPtok 3 "}" 21 50 56)) [(DPacket (mkPacketDef (mkSpan (mkPtok 35 "packet" 2 0 0) (mkPtok 3 "}" 9 2 25)) None (mkPtok 35 "packet" 2 0 0) (mkPtok 42 "matchKey" 3 4 1) (mkPtok 2 "{" 3 12 2) [(mkFieldWithAttr (mkSpan (mkPtok 36 "repeat" 4 0 3) (mkPtok 40 "," 5 15 6)) [] (ObjectField (mkSpan (mkPtok 36 "repeat" 4 0 3) (mkPtok 40 "," 5 15 6)) (Some (mkPtok 36 "repeat" 4 0 3)) (mkPtok 42 "tag" 5 0 4) None (Some (mkPtok 43 (string_of_bytes [96; 116; 97; 98; 9; 104; 101; 114; 101; 96]%N) 5 4 5)) (mkPtok 40 "," 5 15 6))); (mkFieldWithAttr (mkSpan (mkPtok 42 "Foo" 5 17 7) (mkPtok 40 "," 5 21 8)) [] (ObjectField (mkSpan (mkPtok 42 "Foo" 5 17 7) (mkPtok 40 "," 5 21 8)) None (mkPtok 42 "Foo" 5 17 7) None None (mkPtok 40 "," 5 21 8))); (mkFieldWithAttr (mkSpan (mkPtok 32 "@rightPad" 5 22 9) (mkPtok 40 "," 9 0 24)) [(FAPadding (mkSpan (mkPtok 32 "@rightPad" 5 22 9) (mkPtok 6 ")" 5 39 12)) (mkPaddingAttr (mkSpan (mkPtok 32 "@rightPad" 5 22 9) (mkPtok 6 ")" 5 39 12)) (mkPtok 32 "@rightPad" 5 22 9) (mkPtok 8 "(" 5 33 10) (Some (mkPtok 33 "' '" 5 35 11)) (mkPtok 6 ")" 5 39 12))); (FATag (mkSpan (mkPtok 9 "@tag(" 6 0 13) (mkPtok 6 ")" 6 9 15)) (mkTagAttr (mkSpan (mkPtok 9 "@tag(" 6 0 13) (mkPtok 6 ")" 6 9 15)) (mkPtok 9 "@tag(" 6 0 13) (mkPtok 30 "42" 6 7 14) (mkPtok 6 ")" 6 9 15)))] (CheckSumField (mkSpan (mkPtok 23 "uint64" 6 10 16) (mkPtok 40 "," 9 0 24)) (mkChecksumFieldDecl (mkSpan (mkPtok 23 "uint64" 6 10 16) (mkPtok 40 "," 9 0 24)) (Some (TyBasic (mkSpan (mkPtok 23 "uint64" 6 10 16) (mkPtok 23 "uint64" 6 10 16)) (mkBasicType (mkSpan (mkPtok 23 "uint64" 6 10 16) (mkPtok 23 "uint64" 6 10 16)) (mkPtok 23 "uint64" 6 10 16)))) (mkPtok 42 "i8i8" 7 0 18) (mkCalculatedFrom (mkSpan (mkPtok 5 "@calculatedFrom(" 7 5 19) (mkPtok 6 ")" 8 0 22)) (mkPtok 5 "@calculatedFrom(" 7 5 19) (mkPtok 31 """1""" 7 21 20) (mkPtok 6 ")" 8 0 22)) None (mkPtok 40 "," 9 0 24))))] (mkPtok 3 "}" 9 2 25))); (DPacket (mkPacketDef (mkSpan (mkPtok 34 "root" 9 4 26) (mkPtok 3 "}" 21 28 52)) (Some (mkPtok 34 "root" 9 4 26)) (mkPtok 35 "packet" 10 0 27) (mkPtok 42 "packetx" 10 7 28) (mkPtok 2 "{" 13 0 31) [(mkFieldWithAttr (mkSpan (mkPtok 7 "@lengthOf(" 16 0 34) (mkPtok 40 "," 21 26 51)) [(FALengthOf (mkSpan (mkPtok 7 "@lengthOf(" 16 0 34) (mkPtok 6 ")" 17 0 37)) (mkLengthOf (mkSpan (mkPtok 7 "@lengthOf(" 16 0 34) (mkPtok 6 ")" 17 0 37)) (mkPtok 7 "@lengthOf(" 16 0 34) (mkPtok 42 "a1" 16 11 35) (mkPtok 6 ")" 17 0 37))); (FAPadding (mkSpan (mkPtok 32 "@rightPad" 17 2 38) (mkPtok 6 ")" 18 2 41)) (mkPaddingAttr (mkSpan (mkPtok 32 "@rightPad" 17 2 38) (mkPtok 6 ")" 18 2 41)) (mkPtok 32 "@rightPad" 17 2 38) (mkPtok 8 "(" 18 0 40) None (mkPtok 6 ")" 18 2 41))); (FATag (mkSpan (mkPtok 9 "@tag(" 18 4 42) (mkPtok 6 ")" 21 0 46)) (mkTagAttr (mkSpan (mkPtok 9 "@tag(" 18 4 42) (mkPtok 6 ")" 21 0 46)) (mkPtok 9 "@tag(" 18 4 42) (mkPtok 30 "007" 18 10 43) (mkPtok 6 ")" 21 0 46)))] (MetaField (mkSpan (mkPtok 36 "repeat" 21 1 47) (mkPtok 40 "," 21 26 51)) (Some (mkPtok 36 "repeat" 21 1 47)) (mkMetaDecl (mkSpan (mkPtok 20 "u8" 21 8 48) (mkPtok 40 "," 21 26 51)) (TyBasic (mkSpan (mkPtok 20 "u8" 21 8 48) (mkPtok 20 "u8" 21 8 48)) (mkBasicType (mkSpan (mkPtok 20 "u8" 21 8 48) (mkPtok 20 "u8" 21 8 48)) (mkPtok 20 "u8" 21 8 48))) (mkPtok 42 "Header" 21 11 49) (Some (mkPtok 43 "`{ , }`" 21 18 50)) (mkPtok 40 "," 21 26 51))))] (mkPtok 3 "}" 21 28 52))); (DMeta (mkMetaDef (mkSpan (mkPtok 37 "MetaData" 21 30 53) (mkPtok 3 "}" 21 50 56)) (mkPtok 37 "MetaData" 21 30 53) (mkPtok 42 "matchKey" 21 39 54) (mkPtok 2 "{" 21 48 55) [] (mkPtok 3 "}" 21 50 56)))])).
Eval vm_compute in ("<<<M1970>>>" ++ check (runes_of_ascii "packet x_y_z
    {char[]
i8i8, repeat BodyLength
{
repeat
    _x
    {
    u64 packetx
,
// a // b
//
repeat matchKey BodyLength , }, repeat
f32a len `u8 x,` , repeat repeatCount {	repeat As
{ falsey@lengthOf( u128 ) `" ++ [28040; 24687; 31867; 22411]%N ++ runes_of_ascii "`
// packet A { u8 x, }
//
, // trailing space 
} ,	}	,
} , zchar chars
    `// not a comment`, o chars
,// " ++ [128512]%N ++ runes_of_ascii " emoji
@tag( 007 )
@calculatedFrom( """" ) @lengthOf(
    u8x
    ) match
    crc as
    rootA{ [""a\""b"" , 007  ]// a // b
: u8x
""\" ++ [233]%N ++ runes_of_ascii """ :
asx ,10 :string_
, [3 , 255  ,
""// no comment"" ,  3 , 00 , ""packet""] : x , } , Packet {
repeat
falsey	u128
, Foo
u8x`it's` ,u128 // c
`u8 x,` , } , uint64 Logon
    ,
/// triple
//	t
@tag( // c
1 )	chars , }
packet
    body {zchar[	0 ] _x, match trueish as repeatCount { ""x y"":
    charz ""// no comment"" : options1,	4294967296 : int ,	} , } // `tick` ""quote"" 'q'")).
Eval vm_compute in ("<<<M2002>>>" ++ check (runes_of_ascii "options {
	StringPrefixLenType = u16;
	ArrayPrefixLenType = u16;
}

packet SampleBinary {
	uint16 MsgType `" ++ [28040; 24687; 31867; 22411]%N ++ runes_of_ascii "`,
	u16 BodyLenght @lengthOf(Body) `" ++ [28040; 24687; 20307; 38271; 24230]%N ++ runes_of_ascii "`,
	match MsgType as Body {
		1 : Logon,
		2 : Logout,
		3 : Heartbeat,
		4 : RiskControlRequest,
		5 : RiskControlResponse,
	},
		@calculatedFrom(""CRC32"")
	u32 Ckecksum `" ++ [26657; 39564; 21644]%N ++ runes_of_ascii "`,
}

packet Logon {
	 @leftPad('0')
	char[10] UserName `" ++ [29992; 25143; 21517]%N ++ runes_of_ascii "`,
	string Password `" ++ [23494; 30721]%N ++ runes_of_ascii "`,
	uint64 ClientId `" ++ [23458; 25143; 31471]%N ++ runes_of_ascii "ID`,
	u16 HeartbeatInterval `" ++ [24515; 36339; 38388; 38548]%N ++ runes_of_ascii "`,
}

packet Logout {
	  @rightPad('0')
	char[10] UserName `" ++ [29992; 25143; 21517]%N ++ runes_of_ascii "`,
	uint64 ClientId `" ++ [23458; 25143; 31471]%N ++ runes_of_ascii "ID`,
}

packet Heartbeat {
}

packet RiskControlRequest {
	string UniqueOrderId `" ++ [21807; 19968; 35746; 21333; 21495]%N ++ runes_of_ascii "`,
	char[16] ClOrdID `" ++ [23458; 25143; 35746; 21333; 21495]%N ++ runes_of_ascii "`,
	char[3] MarketID `" ++ [24066; 22330]%N ++ runes_of_ascii "id`,
	char[12] SecurityID `" ++ [35777; 21048; 20195; 30721]%N ++ runes_of_ascii "`,
	char Side `" ++ [20080; 21334; 26041; 21521]%N ++ runes_of_ascii "`,
	char OrderType `" ++ [35746; 21333; 31867; 22411]%N ++ runes_of_ascii "`,
	u64 Price `" ++ [20215; 26684]%N ++ runes_of_ascii "`,
	u32 Qty `" ++ [25968; 37327]%N ++ runes_of_ascii "`,
	repeat string ExtraInfo `" ++ [38468; 21152; 20449; 24687]%N ++ runes_of_ascii "`,
	repeat SubOrder {
			char[16] ClOrdID `" ++ [23376; 35746; 21333; 21495]%N ++ runes_of_ascii "`,
			u64 Price `" ++ [23376; 35746; 21333; 20215; 26684]%N ++ runes_of_ascii "`,
			u32 Qty `" ++ [23376; 35746; 21333; 25968; 37327]%N ++ runes_of_ascii "`,
		},
}

packet RiskControlResponse {
	string UniqueOrderId `" ++ [21807; 19968; 35746; 21333; 21495]%N ++ runes_of_ascii "`,
	i32 Status `" ++ [29366; 24577]%N ++ runes_of_ascii "`,
	string Msg `" ++ [32467; 26524; 20449; 24687]%N ++ runes_of_ascii "`,
	repeat Detail,
}

packet Detail {
	string RuleName `" ++ [35268; 21017; 21517; 31216]%N ++ runes_of_ascii "`,
	u16 Code `" ++ [21407; 22240; 20195; 30721]%N ++ runes_of_ascii "`,
}")).
Eval vm_compute in ("<<<M2034>>>" ++ check (runes_of_ascii "options{ i64_ = string  trueish =
    '\x00'
    leftPad = ""a\\"" /// triple
; crc
    = 255; uint8x
=
""abc""
    ;}")).
Eval vm_compute in ("<<<M2066>>>" ++ check (runes_of_ascii "options{ i64_ = string ; trueish =
    '\x00'
    leftPad = ; /// triple
""a\\"" crc
    = 255; uint8x
=
""abc""
    ;}")).
Eval vm_compute in ("<<<M2098>>>" ++ check (runes_of_ascii "options{ i64_ = string ; trueish =
    '\x00'
    leftPad = ""a\\"" /// triple
; crc
    = 255;")).
Eval vm_compute in ("<<<M2130>>>" ++ check (runes_of_ascii "o/ptions{ i64_ = string ; trueish =
    '\x00'
    leftPad = ""a\\"" /// triple
; crc
    = 255; uint8x
=
""abc""
    ;}")).
Eval vm_compute in ("<<<M2162>>>" ++ check (runes_of_ascii "  packet
asx
{
/// triple
// @lengthOf(
u32 `" ++ [28040; 24687; 31867; 22411]%N ++ runes_of_ascii "`
stringy ,} MetaData
    A {string  _x, zchar Header `a\`
// @lengthOf(
// packet A { u8 x, }
, char[] MetaDataX
,zchar[ 1 ]
    matchKey
    , char[] //
u,	char[0123456789 ]
    matchKey
    `{ , }`, }
")).
Eval vm_compute in ("<<<M2194>>>" ++ check (runes_of_ascii "  packet
asx
{
/// triple
// @lengthOf(
u32 stringy
`" ++ [28040; 24687; 31867; 22411]%N ++ runes_of_ascii "` ,} MetaData
    A")).
Eval vm_compute in ("<<<M2226>>>" ++ check (runes_of_ascii "  packet
asx
{
/// triple
// @lengthOf(
u32 stringy
`" ++ [28040; 24687; 31867; 22411]%N ++ runes_of_ascii "` ,} MetaData
    A {string  _x, zchar Header `a\`
// @lengthOf(
// packet A { u8 x, }
, , char[] MetaDataX
,zchar[ 1 ]
    matchKey
    , char[] //
u,	char[0123456789 ]
    matchKey
    `{ , }`, }
")).
Eval vm_compute in ("<<<M2258>>>" ++ check (runes_of_ascii "  packet
asx
{
/// triple
// @lengthOf(
u32 stringy
`" ++ [28040; 24687; 31867; 22411]%N ++ runes_of_ascii "` ,} MetaData
    A {string  _x, zchar Header `a\`
// @lengthOf(
// packet A { u8 x, }
, char[] MetaDataX
,zchar[ 1 [
    matchKey
    , char[] //
u,	char[0123456789 ]
    matchKey
    `{ , }`, }
")).
Eval vm_compute in ("<<<M2290>>>" ++ check (runes_of_ascii "  packet
asx
{
/// triple
// @lengthOf(
u32 stringy
`" ++ [28040; 24687; 31867; 22411]%N ++ runes_of_ascii "` ,} MetaData
    A {string  _x, zchar Header `a\`
// @lengthOf(
// packet A { u8 x, }
, char[] MetaDataX
,zchar[ 1 ]
    matchKey
    , char[] //
u,	char[ ]
    matchKey
    `{ , }`, }
")).
Eval vm_compute in ("<<<M2322>>>" ++ check (runes_of_ascii "  packet
asx
{
/// triple
// @lengthOf(
u32 stringy
`" ++ [28040; 24687; 31867; 22411]%N ++ runes_of_ascii "` ,} MetaData
    A {string  _x, zchar Header `a\`
// @lengthOf(
// packet A { u8 x, }
, char[] MetaDataX
,zchar[ 1 ]
    matchKey
    , char[] //
u,	char[0")).
Eval vm_compute in ("<<<M2354>>>" ++ check (runes_of_ascii "root
    packet
int8
{ // trailing space 
matchKey `tab	here` ,}")).
Eval vm_compute in ("<<<M2386>>>" ++ check (runes_of_ascii "root
    pac#ket
Packet
{ // trailing space 
matchKey `tab	here` ,}")).
Eval vm_compute in ("<<<M2418>>>" ++ check (runes_of_ascii "options{ falsey // a // b
= =
    '0' } options { repeatCount =
true ; string_// a // b
=
// c
// " ++ [27880; 37322]%N ++ runes_of_ascii "
int64
// trailing space 
/// triple
; } // @lengthOf(")).
Eval vm_compute in ("<<<M2450>>>" ++ check (runes_of_ascii "options{ falsey // a // b
=
    '0' } options { repeatCount MetaData
true ; string_// a // b
=
// c
// " ++ [27880; 37322]%N ++ runes_of_ascii "
int64
// trailing space 
/// triple
; } // @lengthOf(")).
Eval vm_compute in ("<<<M2482>>>" ++ check (runes_of_ascii "options{ falsey // a // b
=
    '0' } options { repeatCount =
true ; string_// a // b
=
// c
// " ++ [27880; 37322]%N ++ runes_of_ascii "
int64
// trailing space 
/// triple
;  // @lengthOf(")).
Eval vm_compute in ("<<<M2514>>>" ++ check (runes_of_ascii "options{ {}root packet
metadata {
@lengthOf(x ) float32
body ``, }
    MetaData
Z9_
    {
    string string_ , Logon x
,
uint32
    // packet A { u8 x, }
    Z9_,asx
_x
    `tab	here` , }
")).
Eval vm_compute in ("<<<M2546>>>" ++ check (runes_of_ascii "options{}root packet
metadata {
]x ) float32
body ``, }
    MetaData
Z9_
    {
    string string_ , Logon x
,
uint32
    // packet A { u8 x, }
    Z9_,asx
_x
    `tab	here` , }
")).
Eval vm_compute in ("<<<M2578>>>" ++ check (runes_of_ascii "options{}root packet
metadata {
@lengthOf(x ) float32
body ``, 
    MetaData
Z9_
    {
    string string_ , Logon x
,
uint32
    // packet A { u8 x, }
    Z9_,asx
_x
    `tab	here` , }
")).
Eval vm_compute in ("<<<M2610>>>" ++ check (runes_of_ascii "options{}root packet
metadata {
@lengthOf(x ) float32
body ``, }
    MetaData
Z9_
    {
    string string_ Logon , x
,
uint32
    // packet A { u8 x, }
    Z9_,asx
_x
    `tab	here` , }
")).
Eval vm_compute in ("<<<M2642>>>" ++ check (runes_of_ascii "options{}root packet
metadata {
@lengthOf(x ) float32
body ``, }
    MetaData
Z9_
    {
    string string_ , Logon x
,
uint32
    // packet A { u8 x, }
    Z9_")).
Eval vm_compute in ("<<<M2674>>>" ++ check (runes_of_ascii "options{}root packet
metadata {
@lengthOf(x ) float32
|body ``, }
    MetaData
Z9_
    {
    string string_ , Logon x
,
uint32
    // packet A { u8 x, }
    Z9_,asx
_x
    `tab	here` , }
")).
Eval vm_compute in ("<<<M2706>>>" ++ check (runes_of_ascii "options {
    falsey""a\\""
= ; }")).
Eval vm_compute in ("<<<M2738>>>" ++ check (runes_of_ascii "options '\x01' {
    falsey=
""a\\"" ; }")).
Eval vm_compute in ("<<<M2770>>>" ++ check (runes_of_ascii "MetaData f32a
{
    //	t
    }root
     tag  {
}
")).
Eval vm_compute in ("<<<M2802>>>" ++ check (runes_of_ascii "MetaData f32a
{
    //	t
    }root
    `packet tag  {
}
")).
Eval vm_compute in ("<<<M2834>>>" ++ check (runes_of_ascii "
options
    {msg_type =
    match  }root
packet Z9_{ char /// triple
crc @lengthOf(
options1 ) //
,} MetaData a1{}
")).
Eval vm_compute in ("<<<M2866>>>" ++ check (runes_of_ascii "
options
    {msg_type =
    float32  }root
packet Z9_{ char /// triple
 @lengthOf(
options1 ) //
,} MetaData a1{}
")).
Eval vm_compute in ("<<<M2898>>>" ++ check (runes_of_ascii "
options
    {msg_type =
    float32  }root
packet Z9_{ char /// triple
crc @lengthOf(
options1 ) //
,} a1 MetaData{}
")).
Eval vm_compute in ("<<<M2930>>>" ++ check (runes_of_ascii "
options
    {" ++ [0]%N ++ runes_of_ascii " msg_type =
    float32  }root
packet Z9_{ char /// triple
crc @lengthOf(
options1 ) //
,} MetaData a1{}
")).
Eval vm_compute in ("<<<M2962>>>" ++ check (runes_of_ascii "packet crc{ // " ++ [128512]%N ++ runes_of_ascii " emoji
repeat string 
`a\`, }
")).
Eval vm_compute in ("<<<M2994>>>" ++ check (runes_of_ascii "$ packet crc{ // " ++ [128512]%N ++ runes_of_ascii " emoji
repeat string i8i8
`a\`, }
")).
Eval vm_compute in ("<<<M3026>>>" ++ check (runes_of_ascii "packet BodyLength {} ; zchar{ zchar[// @lengthOf(
42 ]
    pack , string_
A , char[]crc , _x trueish ,
// " ++ [27880; 37322]%N ++ runes_of_ascii "
// " ++ [128512]%N ++ runes_of_ascii " emoji
zchar[
    3 ]	T // trailing space 
, } packet body
{
    }
")).
Eval vm_compute in ("<<<M3058>>>" ++ check (runes_of_ascii "packet BodyLength {} MetaData zchar{ zchar[// @lengthOf(
42 ]
    pack  string_
A , char[]crc , _x trueish ,
// " ++ [27880; 37322]%N ++ runes_of_ascii "
// " ++ [128512]%N ++ runes_of_ascii " emoji
zchar[
    3 ]	T // trailing space 
, } packet body
{
    }
")).
Eval vm_compute in ("<<<M3090>>>" ++ check (runes_of_ascii "packet BodyLength {} MetaData zchar{ zchar[// @lengthOf(
42 ]
    pack , string_
A , char[]crc _x , trueish ,
// " ++ [27880; 37322]%N ++ runes_of_ascii "
// " ++ [128512]%N ++ runes_of_ascii " emoji
zchar[
    3 ]	T // trailing space 
, } packet body
{
    }
")).
Eval vm_compute in ("<<<M3122>>>" ++ check (runes_of_ascii "packet BodyLength {} MetaData zchar{ zchar[// @lengthOf(
42 ]
    pack , string_
A , char[]crc , _x trueish ,
// " ++ [27880; 37322]%N ++ runes_of_ascii "
// " ++ [128512]%N ++ runes_of_ascii " emoji
zchar[
    3")).
Eval vm_compute in ("<<<M3154>>>" ++ check (runes_of_ascii "packet BodyLength {} MetaData zchar{ zchar[// @lengthOf(
42 ]
    pack , string_
A , char[]crc , _x trueish ,
// " ++ [27880; 37322]%N ++ runes_of_ascii "
// " ++ [128512]%N ++ runes_of_ascii " emoji
zchar[
    3 ]	T // trailing space 
, } packet body
{
    } }
")).
Eval vm_compute in ("<<<M3186>>>" ++ check (runes_of_ascii "packet
{ string_@lengthOf( int ) match packetx as f32a {
    1 :	calculatedFrom , }  ,
    } packet len
    //	t
    { @calculatedFrom( """ ++ [233]%N ++ runes_of_ascii "t" ++ [233]%N ++ runes_of_ascii """ ) body Header , char[] lengthOf  `two words` ,chars{repeat string_ matchKey ,
    } ,
    }
")).
Eval vm_compute in ("<<<M3218>>>" ++ check (runes_of_ascii "packet
string_ {@lengthOf( int ) match")).
Eval vm_compute in ("<<<M3250>>>" ++ check (runes_of_ascii "packet
string_ {@lengthOf( int ) match packetx as f32a {
    1 :	calculatedFrom , , }  ,
    } packet len
    //	t
    { @calculatedFrom( """ ++ [233]%N ++ runes_of_ascii "t" ++ [233]%N ++ runes_of_ascii """ ) body Header , char[] lengthOf  `two words` ,chars{repeat string_ matchKey ,
    } ,
    }
")).
Eval vm_compute in ("<<<M3282>>>" ++ check (runes_of_ascii "packet
string_ {@lengthOf( int ) match packetx as f32a {
    1 :	calculatedFrom , }  ,
    } packet len
    //	t
    @leftPad @calculatedFrom( """ ++ [233]%N ++ runes_of_ascii "t" ++ [233]%N ++ runes_of_ascii """ ) body Header , char[] lengthOf  `two words` ,chars{repeat string_ matchKey ,
    } ,
    }
")).
Eval vm_compute in ("<<<M3314>>>" ++ check (runes_of_ascii "packet
string_ {@lengthOf( int ) match packetx as f32a {
    1 :	calculatedFrom , }  ,
    } packet len
    //	t
    { @calculatedFrom( """ ++ [233]%N ++ runes_of_ascii "t" ++ [233]%N ++ runes_of_ascii """ ) body Header ,  lengthOf  `two words` ,chars{repeat string_ matchKey ,
    } ,
    }
")).
Eval vm_compute in ("<<<M3346>>>" ++ check (runes_of_ascii "packet
string_ {@lengthOf( int ) match packetx as f32a {
    1 :	calculatedFrom , }  ,
    } packet len
    //	t
    { @calculatedFrom( """ ++ [233]%N ++ runes_of_ascii "t" ++ [233]%N ++ runes_of_ascii """ ) body Header , char[] lengthOf  `two words` ,chars{string_ repeat matchKey ,
    } ,
    }
")).
Eval vm_compute in ("<<<M3378>>>" ++ check (runes_of_ascii "packet
string_ {@lengthOf( int ) match packetx as f32a {
    1 :	calculatedFrom , }  ,
    } packet len
    //	t
    { @calculatedFrom( """ ++ [233]%N ++ runes_of_ascii "t" ++ [233]%N ++ runes_of_ascii """ ) body Header , char[] lengthOf  `two words` ,chars{repeat st")).
Eval vm_compute in ("<<<M3410>>>" ++ check (runes_of_ascii "/// triple
root
packet // packet A { u8 x, }
chars { @lengthOf(charz )
stringy,  @tag(  0 ) // a // b
asx
    As
,
// trailing space 
// trailing space 
x_y_z {
repeat i16 , charz } ,	int16  crc ,}
")).
Eval vm_compute in ("<<<M3442>>>" ++ check (runes_of_ascii "/// triple
root
packet // packet A { u8 x, }
chars { @lengthOf(charz )
stringy,  @tag(  0 ) // a // b
repeat
    As
,
// trailing space 
// trailing space 
x_y_z {
repeat i16 charz , } ,	int16  crc ,}
")).
Eval vm_compute in ("<<<M3474>>>" ++ check (runes_of_ascii "/// triple
root
packet // packet A { u8 x, }
chars { @lengthOf(charz )
stringy,  @tag(  0 ) // a // b
asx
    As
,
// trailing space 
// trailing space 
x_y_z {
repeat i16 charz , } ,	int16  crc ,
")).
Eval vm_compute in ("<<<M3506>>>" ++ check (runes_of_ascii "uint")).
Eval vm_compute in ("<<<M3538>>>" ++ check (runes_of_ascii "' '")).
Eval vm_compute in ("<<<M3570>>>" ++ check (runes_of_ascii "// a
b")).
Eval vm_compute in ("<<<M3602>>>" ++ check (runes_of_ascii "__")).
Eval vm_compute in ("<<<M3634>>>" ++ check (runes_of_ascii "packet A { u8 , }")).
Eval vm_compute in ("<<<M3666>>>" ++ check (runes_of_ascii "packet A { repeat B { C { u8 x, }, D d, }, }")).
Eval vm_compute in ("<<<M3698>>>" ++ check (runes_of_ascii "packet A { } packet")).
Eval vm_compute in ("<<<M3730>>>" ++ check (runes_of_ascii "options { = 1; }")).
Eval vm_compute in ("<<<M3762>>>" ++ check ([0]%N)).
Eval vm_compute in ("<<<M3794>>>" ++ check (runes_of_ascii "float32 int16 match true root `doc` , @tag( {")).
Eval vm_compute in ("<<<M3826>>>" ++ check (runes_of_ascii """" ++ [128512]%N ++ runes_of_ascii """ f64 repeat u32 float32 @calculatedFrom(")).
Eval vm_compute in ("<<<M3858>>>" ++ check (runes_of_ascii "match ) int32 as '0' @lengthOf( @calculatedFrom( (")).
Eval vm_compute in ("<<<M3890>>>" ++ check (runes_of_ascii "uint16 char[] int64 repeat i64 packet @calculatedFrom( ) u16 options")).
Eval vm_compute in ("<<<M3922>>>" ++ check (runes_of_ascii "= true string")).
Eval vm_compute in ("<<<M3954>>>" ++ check (runes_of_ascii "65535 @tag( ""a	b"" @lengthOf( i8 @rightPad uint8x repeat as true ,")).
Eval vm_compute in ("<<<M3986>>>" ++ check (runes_of_ascii "char[")).
