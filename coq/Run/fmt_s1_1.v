From FP Require Import Lexer Parser ShowPT Digest Formatter.
From Coq Require Import String List NArith.
Import ListNotations.
Open Scope string_scope.
Set Printing Width 100000000.
Set Printing Depth 100000000.
Definition show_fres (r : fres) : string :=
  match r with
  | FOk s => "OK:" ++ sh_escaped s ""
  | FErr s => "ERR:" ++ sh_escaped s ""
  | FPanic p => "PANIC:" ++ p
  end.
Definition check (rs : list rune) : string := digest (show_fres (format_res rs)).
Definition full (rs : list rune) : string := show_fres (format_res rs).
Eval vm_compute in ("<<<M3498>>>" ++ check (runes_of_ascii "// top
options // c0
{ // c1
StringPrefixLenType // c2a
  // c2b
= u8 // c4
; // c5a
  // c5b
ArrayPrefixLenType = // c7a
  // c7b
u64 // c8a
  // c8b
;
    // c9
FixedStringPadFromLeft
    // c10
= // c11a
  // c11b
true // c12
; // c13a
  // c13b
JavaPackage // c14a
  // c14b
= ""com.example.msg""
    // c16
; GoPackage
    // c18
=
    // c19
""msg"" ; // c21a
  // c21b
GoModule
    // c22
=
    // c23
""example.com/msg"" // c24a
  // c24b
; }
    // c26
MetaData Meta { // c29
u32 SeqNum `sequence number`
    // c32
, char[
    // c34
8 // c35
] Symbol // c37
`symbol` // c38a
  // c38b
, // c39
zchar[ // c40
5 ] ZSym // c43a
  // c43b
`z symbol` // c44a
  // c44b
, // c45
string // c46a
  // c46b
Note , // c48a
  // c48b
Symbol // c49a
  // c49b
AltSymbol
    // c50
`alias of symbol` , f64 // c53
Price // c54a
  // c54b
, } // c56
packet // c57
Inner
    // c58
{ u8
    // c60
a ,
    // c62
i16 b , string c , // c68
}
    // c69
packet Inner2 { u8
    // c73
a2 , // c75
char[
    // c76
3 // c77a
  // c77b
]
    // c78
c2
    // c79
, // c80a
  // c80b
} // c81a
  // c81b
packet Logon // c83
{
    // c84
u8 // c85a
  // c85b
x
    // c86
, string // c88
user
    // c89
, // c90a
  // c90b
repeat
    // c91
u16
    // c92
codes // c93
, // c94a
  // c94b
}
    // c95
packet // c96a
  // c96b
Logout // c97a
  // c97b
{ // c98
u16
    // c99
reason
    // c100
, // c101a
  // c101b
} // c102a
  // c102b
packet
    // c103
Empty // c104
{ // c105a
  // c105b
} // c106
root packet // c108a
  // c108b
Msg
    // c109
{ u8 // c111a
  // c111b
su8 // c112a
  // c112b
, uint8
    // c114
luint8 // c115a
  // c115b
, u16 su16 // c118
, uint16
    // c120
luint16 , u32 // c123
su32
    // c124
, // c125
uint32
    // c126
luint32
    // c127
,
    // c128
u64 su64 , uint64 // c132a
  // c132b
luint64 , // c134
i8
    // c135
si8 // c136
, // c137a
  // c137b
int8 // c138
lint8 // c139a
  // c139b
,
    // c140
i16 // c141
si16 // c142
,
    // c143
int16 lint16 // c145a
  // c145b
,
    // c146
i32 // c147a
  // c147b
si32 // c148a
  // c148b
,
    // c149
int32 // c150a
  // c150b
lint32
    // c151
, // c152
i64 si64
    // c154
,
    // c155
int64 // c156
lint64
    // c157
, // c158
f32 // c159a
  // c159b
sf32 // c160
, float32 // c162
lfloat32 // c163a
  // c163b
,
    // c164
f64 // c165
sf64
    // c166
, // c167a
  // c167b
float64 // c168
lfloat64 , // c170a
  // c170b
char[ 6 ] fsplain
    // c174
,
    // c175
@leftPad // c176
( // c177
'0'
    // c178
) // c179a
  // c179b
char[ // c180a
  // c180b
4
    // c181
] // c182
fs0 // c183a
  // c183b
, // c184a
  // c184b
@rightPad
    // c185
( // c186a
  // c186b
'0' // c187a
  // c187b
) // c188a
  // c188b
char[
    // c189
5
    // c190
] fs1
    // c192
, // c193a
  // c193b
@leftPad // c194a
  // c194b
( // c195a
  // c195b
' ' ) // c197
char[
    // c198
6
    // c199
] // c200a
  // c200b
fs2 // c201a
  // c201b
, @rightPad // c203a
  // c203b
(
    // c204
' '
    // c205
)
    // c206
char[
    // c207
7 ]
    // c209
fs3 // c210
,
    // c211
@leftPad // c212a
  // c212b
(
    // c213
'\x00'
    // c214
) // c215
char[ // c216
8 ] // c218a
  // c218b
fs4 , @rightPad ( '\x00' // c223
) // c224a
  // c224b
char[
    // c225
9 ] // c227a
  // c227b
fs5 // c228a
  // c228b
, @leftPad // c230
( // c231a
  // c231b
) char[ // c233a
  // c233b
10
    // c234
] // c235
fs6
    // c236
, // c237
@rightPad // c238
( // c239
) // c240a
  // c240b
char[ // c241
11
    // c242
] // c243
fs7
    // c244
,
    // c245
zchar[ // c246
7
    // c247
] // c248a
  // c248b
fz , // c250
@leftPad // c251
( // c252a
  // c252b
'0' ) // c254a
  // c254b
zchar[ 3 ]
    // c257
fzl0 // c258
, string s1 `doc`
    // c262
, // c263
char[]
    // c264
s2 // c265
, // c266a
  // c266b
Inner
    // c267
, // c268a
  // c268b
Sub // c269
{ // c270a
  // c270b
u8
    // c271
q // c272
,
    // c273
string
    // c274
w // c275
, // c276a
  // c276b
Deep { // c278a
  // c278b
u16 // c279a
  // c279b
z // c280
, repeat // c282a
  // c282b
i32 // c283
zs , // c285a
  // c285b
} , // c287
} , // c289
repeat
    // c290
u8
    // c291
ru8
    // c292
, // c293
repeat
    // c294
u16 // c295a
  // c295b
ru16 // c296a
  // c296b
, // c297
repeat // c298a
  // c298b
u32 // c299
ru32 // c300
,
    // c301
repeat // c302a
  // c302b
u64 // c303a
  // c303b
ru64
    // c304
, // c305
repeat // c306
i8
    // c307
ri8 , repeat // c310a
  // c310b
i16
    // c311
ri16 // c312
, repeat i32 // c315a
  // c315b
ri32
    // c316
, // c317a
  // c317b
repeat i64 // c319
ri64 // c320a
  // c320b
, // c321
repeat f32 // c323a
  // c323b
rf32 // c324a
  // c324b
,
    // c325
repeat
    // c326
f64
    // c327
rf64
    // c328
, repeat // c330
string rstr , // c333
repeat char[] // c335
rstr2 // c336
, // c337a
  // c337b
repeat
    // c338
char[ 3 // c340a
  // c340b
] // c341
rfs // c342a
  // c342b
,
    // c343
repeat zchar[ 3
    // c346
]
    // c347
rfz // c348a
  // c348b
, repeat // c350
Inner2 // c351a
  // c351b
,
    // c352
repeat Grp { // c355a
  // c355b
u8 // c356a
  // c356b
k
    // c357
,
    // c358
char[ 2 // c360
]
    // c361
v // c362
, } ,
    // c365
SeqNum // c366
, // c367
SeqNum
    // c368
seq2
    // c369
, // c370a
  // c370b
repeat // c371
SeqNum seqs
    // c373
,
    // c374
Symbol // c375
, // c376
AltSymbol // c377a
  // c377b
alt , // c379a
  // c379b
ZSym // c380a
  // c380b
, // c381a
  // c381b
Note , // c383
repeat Symbol
    // c385
syms // c386a
  // c386b
, // c387
Price px , // c390
u16 MsgType // c392
, u32
    // c394
BodyLen @lengthOf(
    // c396
Body // c397a
  // c397b
)
    // c398
, // c399
match
    // c400
MsgType
    // c401
as // c402
Body
    // c403
{
    // c404
1 // c405a
  // c405b
: Logon
    // c407
, [ // c409a
  // c409b
2 , 3 // c412a
  // c412b
] // c413a
  // c413b
: // c414
Logout // c415
, // c416a
  // c416b
7 : Logon // c419
,
    // c420
9
    // c421
:
    // c422
Empty // c423a
  // c423b
, // c424a
  // c424b
} // c425a
  // c425b
,
    // c426
u32 // c427a
  // c427b
Checksum @calculatedFrom(
    // c429
""CRC32""
    // c430
) , } ")).
Eval vm_compute in ("<<<M3994>>>" ++ check (runes_of_ascii "packet roots {
    char[] falsey @calculatedFrom(""`tick`"") `{ , }`,
    match tag as BodyLength {
        // @lengthOf(
        ""packet"" : T,
        42 : f32a,
        255 : lengthOf,
        // " ++ [27880; 37322]%N ++ runes_of_ascii "
    },
    BodyLength {
        Z9_ {
            stringy {
                metadata,
            },
            zchar @lengthOf(x_y_z),
            match lengthOf as float {
                10 : repeatCount,
            },
            repeat string Pad `u8 x,`,
        },
        charz {
            repeat lengthOf {
                zchar[007] f32a @calculatedFrom(""it's"") `" ++ [28040; 24687; 31867; 22411]%N ++ runes_of_ascii "`,
                uint64 tag @calculatedFrom(""packet"") `" ++ [233]%N ++ runes_of_ascii "`,
                char[10] calculatedFrom `tab	here`,
                char[] Logon `" ++ [28040; 24687; 31867; 22411]%N ++ runes_of_ascii "`,
            },
            i16 x_y_z `doc`,
            // packet A { u8 x, }
            // trailing space 
            string u128,
        },
    },
    Foo @lengthOf(o),
    i32 int,
    options1,
}

options {
    // " ++ [128512]%N ++ runes_of_ascii " emoji
    // trailing space 
    leftPad = '\x00';
    Foo = 255
    x = true;
}

packet x {
    @calculatedFrom(""" ++ [28040; 24687]%N ++ runes_of_ascii """)
    repeat u8 As,
    repeat char[42] A,
    int8 o `two words`,
    @lengthOf(asx)
    @lengthOf(tag)
    match trueish as lengthOf {
        0 : o,
        ""{,}"" : chars,
        [""packet""] : A,
        ""\" ++ [233]%N ++ runes_of_ascii """ : pack,
        [
            ""\n"", 10, ""CRC32"", 00, 007,
            42, 0123456789, """"
        ] : stringy,
        ""packet"" : i64_,
    },
    repeatCount,
    i32 zchar @lengthOf(Logon) `tab	here`,
    zchar @calculatedFrom(""CRC32"") `u8 x,`,
    @lengthOf(lengthOf)
    // c
    @rightPad()
    Packet @calculatedFrom(""// no comment""),
    @tag(10)
    // trailing space 
    // `tick` ""quote"" 'q'
    len `a\`,// " ++ [128512]%N ++ runes_of_ascii " emoji
}

packet _x {
}

root packet uint8x {
    uint8 falsey `" ++ [233]%N ++ runes_of_ascii "`,
    zchar[007] stringy,
    BodyLength float,
    zchar[1] roots,
    uint8 Packet,
    repeat float64 repeatCount,
    repeat char f32a `
        `,
    i32 a1 `crlf
        line`,
}// @lengthOf(")).
Eval vm_compute in ("<<<M11>>>" ++ check (runes_of_ascii "  MetaData //	t
len { char[ 007 ] T
, }packet
    chars {
@tag( 0
)
char[] stringy @calculatedFrom( ""a\""b"" //x
) `" ++ [233]%N ++ runes_of_ascii "`	,@tag( // trailing space 
65535
)	repeat
o MetaDataX
,
    crc@lengthOf( i8i8 ),
@calculatedFrom(
/// triple
// `tick` ""quote"" 'q'
""x y""
    ) roots@lengthOf(packetx ) , @calculatedFrom(  ""1"" )
@lengthOf( Logon
) @lengthOf( x ) repeat
    T pack, @lengthOf( lengthOf)@tag(  42 ) i64 crc // c
@calculatedFrom( ""packet"" ) `
` ,
i8i8
    `` , }  packet len
    {
match u128	as string_ { 65535 :u128 ,
    }
, As ,
    Header ,// " ++ [27880; 37322]%N ++ runes_of_ascii "
@rightPad
('\x00'
)
    @leftPad
    (
    '\x00' ) asx
    {
    /// triple
    repeat
BodyLength { asx {	repeat
u32
    // @lengthOf(
    Header , repeat
    i64  i64_,
// 50% %s
// `tick` ""quote"" 'q'
match rootA as float
    // c
    { [ 007 , ""CRC32"",
    7 ,
""it's"" , 7	, 3 ] : x_y_z , 007 : pack , } , char[]
metadata @lengthOf( BodyLength )
// " ++ [128512]%N ++ runes_of_ascii " emoji
// `tick` ""quote"" 'q'
,}
,
repeat
    char[00
] u `{ , }` // " ++ [27880; 37322]%N ++ runes_of_ascii "
,  repeat
zchar[
    3 ]	tag ,repeat crc
    int `line1
line2` ,} ,// `tick` ""quote"" 'q'
char[255 ] asx @lengthOf(chars)  ,int64
Foo
    ``
, _x{ T
{ string_	`" ++ [28040; 24687; 31867; 22411]%N ++ runes_of_ascii "` , char[] chars
    , }, repeat
    a1 { repeatCount
@lengthOf( o )
,i64 leftPad
,	zchar[
255// `tick` ""quote"" 'q'
]  float@calculatedFrom(  ""\" ++ [233]%N ++ runes_of_ascii """
), repeat string i8i8
,
// trailing space 
// `tick` ""quote"" 'q'
}  ,}, } , @calculatedFrom(
""abc""
) repeat f32a trueish `u8 x,`	, match calculatedFrom as
// packet A { u8 x, }
// @lengthOf(
stringy { [ 1, 65535
    ]
:u , } , } packet options1
    {
string calculatedFrom// a // b
`" ++ [233]%N ++ runes_of_ascii "`// c
,
    @lengthOf( x_y_z
    ) zchar[0123456789]
x_y_z// trailing space 
@lengthOf(
falsey ) `a\`
    ,	}
")).
Eval vm_compute in ("<<<M315>>>" ++ check (runes_of_ascii "
packet a1 { @calculatedFrom(
""\n""
// 50% %s
// packet A { u8 x, }
) zchar[ 4294967296 ]  asx  ,
    crc
    `100% of %d` , tag Pad , @leftPad
    ( '\x00')body { zchar[ 255 ] u8x `" ++ [28040; 24687; 31867; 22411]%N ++ runes_of_ascii "` , repeat u64
    pack `it's`, }, match	falsey	as // `tick` ""quote"" 'q'
o { [ 0123456789, ""1""
]: u128 ,} ,
repeat
packetx len
,  match crc as msg_type {
3 :
A, [""x y"" , 7// a // b
] :u , """ ++ [233]%N ++ runes_of_ascii "t" ++ [233]%N ++ runes_of_ascii """:rootA,
1 : f32a , } , Pad
    @lengthOf( //x
float )  ,
x // " ++ [27880; 37322]%N ++ runes_of_ascii "
{ zchar[007 ] falsey,} ,
} packet stringy  {
    @rightPad ( '\x00'
)repeat BodyLength Header ,@lengthOf(int ) i64
matchKey `u8 x,`  ,repeat x_y_z{
    repeat
zchar[ 65535 ] charz `u8 x,` //	t
, roots/// triple
@calculatedFrom("""" // c
) ,
    }	, // @lengthOf(
tag {	i16
    trueish `{ , }` ,},u8x
    @lengthOf( stringy ) `u8 x,` , chars@calculatedFrom( ""1"" ),
    char[10
    ]//x
trueish
    `two words`
    , string As @calculatedFrom(
    ""it's""
) `" ++ [233]%N ++ runes_of_ascii "` ,	@tag( 3 // a // b
) msg_type ,
char[ 7  ]
    // c
    trueish@calculatedFrom( ""\" ++ [233]%N ++ runes_of_ascii """ ) ,} packet	charz//	t
{
    // packet A { u8 x, }
    char[]lengthOf
    `{ , }`
,@calculatedFrom( """"
    ) @lengthOf( f32a) @tag(
4294967296 /// triple
)
repeat x { u16 tag @calculatedFrom( ""abc"" )  , u32 roots `crlf
line`/// triple
, repeat
    // @lengthOf(
    int
// @lengthOf(
/// triple
tag ,
    i8 Pad,
} , string uint8x  @calculatedFrom( ""{,}""
    // 50% %s
    ) `it's`	, }
")).
Eval vm_compute in ("<<<M622>>>" ++ check (runes_of_ascii "packet metadata{ @calculatedFrom( ""x y"")
    roots@lengthOf(
roots)	,
    repeatCount chars , @calculatedFrom(""packet"" )repeat int64
    Z9_ , Logon @calculatedFrom( ""packet""
),  f32a@calculatedFrom( ""a	b"") `doc` ,
trueish
@lengthOf(Z9_), //x
@tag(4294967296 )
    // 50% %s
    repeat i64
Logon `100% of %d` ,
    f32a x_y_z
, }
    options
    {pack  =""1"" // a // b
;
roots =
    10 ; falsey =// trailing space 
false	stringy
= ' ' ;
trueish //	t
=  '\x00' ; } packet i64_
{ @calculatedFrom( ""abc""
    )u8 roots
    , // c
@leftPad (
'\x00' ) char[1 ]
u128  @lengthOf(options1 ) `tab	here` ,
    @calculatedFrom( """" ) @lengthOf( body
    ) char[]
    calculatedFrom ,@lengthOf(	crc ) @lengthOf( _x
) @rightPad ( ' ' ) // @lengthOf(
match u8x as A { [""// no comment"" , 0123456789]
    // packet A { u8 x, }
    : // trailing space 
Packet , 007 :asx
, } ,
match
    stringy as	falsey {  7 : stringy /// triple
}
    , Header //
`it's`
    ,
    @calculatedFrom( ""\n""	)@rightPad (
    '0' ) @lengthOf(
    As )
    len	T ,@leftPad (
    '\x00'//
) leftPad
{ u @calculatedFrom( ""abc""// c
) `{ , }` , i8
    Foo `` ,
    zchar[
    1 ] stringy
`crlf
line` , },pack `u8 x,` , @rightPad (' ' // " ++ [27880; 37322]%N ++ runes_of_ascii "
)	match
    string_
    as
o	{ 7: u }, // a // b
}
")).
Eval vm_compute in ("<<<M785>>>" ++ check (runes_of_ascii "root packet Logon { zchar[ 00 ] roots  @calculatedFrom(	""a\""b""
)  ,} MetaData /// triple
int{ float roots , char	u8x  `u8 x,` , uint64	_x , u128 chars  `doc`,
zchar string_
    ,	char[	1
] string_ , } packet trueish
{
asx { msg_type { repeat string A `// not a comment` , }
// 50% %s
// packet A { u8 x, }
, }	, u32 asx
@calculatedFrom( ""packet""
    )
, match  u128 as	len { [
"""" , ""\n""
    ]
    : i64_, 0123456789
:options1 ""abc"" : As// " ++ [27880; 37322]%N ++ runes_of_ascii "
[	007 , 3 , ""{,}""
    , ""`tick`""
, ""a	b"" ,
    10 , ""abc"" ]
: u128 , } , uint32 i64_
    @lengthOf( i8i8)
,
    // packet A { u8 x, }
    u64 charz @calculatedFrom(
    ""{,}""
    )
`say ""hi""`	, match charz
as //x
calculatedFrom
{ [ ""a	b"" , 4294967296 ,
    10	,
1 ,  0, 0123456789
    ]
//x
// " ++ [128512]%N ++ runes_of_ascii " emoji
:
msg_type ,
""it's"" : Pad ,3	:
    MetaDataX
3: lengthOf ""a\\"" :
int
, 007 :Header } ,// c
@calculatedFrom( ""it's"" ) u8  asx // " ++ [27880; 37322]%N ++ runes_of_ascii "
@lengthOf( Foo // packet A { u8 x, }
)
`{ , }`
    ,
    // @lengthOf(
    @calculatedFrom(
""a\\"" ) len @calculatedFrom(
""""  ) `tab	here` , T
falsey//x
,
As@lengthOf( leftPad
) , } MetaData u8x { A Header`{ , }` ,zchar[ 42  ]  crc  `doc` , _x
    lengthOf, charz
lengthOf, }
")).
Eval vm_compute in ("<<<M4004>>>" ++ check (runes_of_ascii "root packet charz {
    o A,
}

root packet charz {
    char[] repeatCount @lengthOf(tag) `line1
    line2`,
    repeat pack `two words`,
    T {
        // packet A { u8 x, }
        string rootA @calculatedFrom(""{,}""),
    },
    repeat As Foo,
    // packet A { u8 x, }
    // c
    char[3] trueish,
    @calculatedFrom("""")
    @lengthOf(metadata)
    @leftPad('0')
    repeat u64 float `u8 x,`,
    stringy {
        metadata {
            //x
            u8 f32a `" ++ [28040; 24687; 31867; 22411]%N ++ runes_of_ascii "`,
            repeat char[007] f32a `two words`,
        },
        asx,
        float64 i8i8,
        //x
        // packet A { u8 x, }
    },
    match lengthOf as zchar {
        00 : o,
    },
}

options {
    tag = 65535;
    /// triple
    // 50% %s
    float = 0
}

packet T {
    repeat x_y_z o `it's`,
    A {
        Pad @calculatedFrom(""\n""),
        zchar[00] i64_ @lengthOf(Z9_) `u8 x,`,
        u64 u8x @calculatedFrom(""it's""),
    },
    match Header as f32a {
        [1, 0123456789] : int,
    },// packet A { u8 x, }
    char[] roots @calculatedFrom("""") `say ""hi""`,
    @leftPad()
    a1 chars,
}
//	t")).
Eval vm_compute in ("<<<M1071>>>" ++ check (runes_of_ascii "options { u128
// " ++ [128512]%N ++ runes_of_ascii " emoji
//x
= // 50% %s
int64
}
packet _x{ char[]crc @lengthOf(
i8i8
    )
, stringy
    ,
    //x
    char[ 255 ] x	, @lengthOf( Header)
repeat
i8 i64_ , @leftPad( '0'
) match msg_type as o {//	t
[
3, // `tick` ""quote"" 'q'
3
// packet A { u8 x, }
//	t
, 42, ""`tick`"" ]
: metadata
    ,1:
    uint8x  , } //	t
,	@lengthOf(
_x ) uint8// trailing space 
BodyLength
// 50% %s
// @lengthOf(
`tab	here`
,
// 50% %s
// a // b
}MetaData A {
    }
// @lengthOf(
// `tick` ""quote"" 'q'
root packet lengthOf	{ i8
MetaDataX
//
// " ++ [128512]%N ++ runes_of_ascii " emoji
, match crc as	f32a
{ ""\n""
    :
//
// c
leftPad	00: Pad
    , }, @tag( 0 )	i16 i64_ `doc` , char[
00 ] T
, lengthOf @calculatedFrom(
//
// c
""a\""b"" )
    , @tag(0 ) uint8
    u
// c
// @lengthOf(
,roots { //
match
    As as tag { ""\" ++ [233]%N ++ runes_of_ascii """ :
    body , 3 : Z9_ //	t
,
}
,// " ++ [128512]%N ++ runes_of_ascii " emoji
match f32a as f32a { [
    ""`tick`""  ,7]:
    i64_ , },
    zchar[
    // " ++ [27880; 37322]%N ++ runes_of_ascii "
    10] float `crlf
line`
, //x
}
, repeat  pack{ zchar[
255 ]Pad @lengthOf( stringy ) ,char[ 4294967296	]	x_y_z
    , }, }")).
Eval vm_compute in ("<<<M1062>>>" ++ check (runes_of_ascii "packet charz {repeat int8 asx ,
}packet
    len
{
    @calculatedFrom( ""packet"" ) @lengthOf(
// " ++ [128512]%N ++ runes_of_ascii " emoji
// 50% %s
charz)@lengthOf( tag
    )
zchar[
// `tick` ""quote"" 'q'
// trailing space 
0 ] metadata
    @calculatedFrom(""" ++ [128512]%N ++ runes_of_ascii """) ,	@calculatedFrom(
""1""  ) i8i8
@calculatedFrom( """ ++ [28040; 24687]%N ++ runes_of_ascii """ ) ,
// packet A { u8 x, }
//x
@tag(42 ) char[] pack ,
// 50% %s
// packet A { u8 x, }
zchar[
    10 ] stringy
@lengthOf( crc ) , repeat f32
/// triple
//x
o
`say ""hi""`, char[] falsey /// triple
, @tag(
65535
    //	t
    ) @lengthOf( o)
repeat
    crc zchar ,repeat options1 { u16
u,  string_
    {
string_ MetaDataX , repeat char[0123456789] uint8x
, repeat
uint32
    T ,}
, uint16
packetx, }
// `tick` ""quote"" 'q'
// c
,
    } MetaData matchKey {	i8
leftPad `it's`
, msg_type	options1 , } MetaData i8i8 {zchar[
    3 ] // 50% %s
MetaDataX , char[
0
    /// triple
    ] body// trailing space 
, char[] x_y_z , Z9_ string_	,zchar[ 0 ] a1
`{ , }`,
rootA packetx	,// packet A { u8 x, }
}")).
Eval vm_compute in ("<<<M856>>>" ++ check (runes_of_ascii "options{ asx= int64
// @lengthOf(
// " ++ [128512]%N ++ runes_of_ascii " emoji
; f32a =""" ++ [28040; 24687]%N ++ runes_of_ascii """; } options {// trailing space 
repeatCount
    = //
""a	b"" ;}
options{ Packet  = ""\n"" } root	packet stringy{char[ 007 ] metadata
,
i8i8
@calculatedFrom( ""a\\""
) ,	@tag( 4294967296 ) match stringy as /// triple
msg_type  {
// trailing space 
/// triple
[
    // `tick` ""quote"" 'q'
    ""a	b"", 1 ,
1
, 42// 50% %s
, 007 ] :	string_ , """ ++ [28040; 24687]%N ++ runes_of_ascii """ : string_, 42: lengthOf [ ""a\\"" , 65535
    ] : _x,
} , zchar // 50% %s
leftPad
`a\` ,Foo {u64	falsey // `tick` ""quote"" 'q'
`" ++ [233]%N ++ runes_of_ascii "`  ,	}
,@calculatedFrom(
    // c
    ""CRC32""
) @tag(65535 ) i16 leftPad @calculatedFrom(
""" ++ [28040; 24687]%N ++ runes_of_ascii """  )
// a // b
// 50% %s
, // " ++ [27880; 37322]%N ++ runes_of_ascii "
asx,
repeat // `tick` ""quote"" 'q'
matchKey ,
    @rightPad// c
(
' '  ) int32 metadata `{ , }` ,
match options1 as Foo
{ 255 ://
i64_ , [ ""a\\"" ]
:lengthOf
    ,  ""it's"" : int 3 :zchar// packet A { u8 x, }
, // c
}, } MetaData
As { //
chars calculatedFrom`crlf
line` ,}")).
Eval vm_compute in ("<<<M555>>>" ++ check (runes_of_ascii "packet chars{}
    //x
    packet u8x {
} packet	f32a //	t
{ zchar[ 007 ]
falsey , @calculatedFrom( ""x y"" )repeat calculatedFrom
    {string_ @lengthOf(float)
,
},
    @calculatedFrom(	""x y"")  @calculatedFrom( """ ++ [28040; 24687]%N ++ runes_of_ascii """)
    @rightPad
( ' ' ) float @lengthOf(
    pack
)
`it's` // " ++ [128512]%N ++ runes_of_ascii " emoji
, uint8x roots // packet A { u8 x, }
, @calculatedFrom( ""\n"" ) @lengthOf(	chars  )
@lengthOf( zchar )repeat As charz
, u64 BodyLength@lengthOf( BodyLength)//
, zchar[
7 ]f32a `100% of %d` ,
repeat
Pad { repeat
Foo{
    repeat
u64
len ``, char
repeatCount
    // @lengthOf(
    `" ++ [28040; 24687; 31867; 22411]%N ++ runes_of_ascii "`
, // `tick` ""quote"" 'q'
i32 Packet @lengthOf( string_ ) , } , f32 // `tick` ""quote"" 'q'
int @calculatedFrom( """ ++ [128512]%N ++ runes_of_ascii """  ) , zchar[10
    ]i8i8 ,  }//
,}packet stringy	{ @tag(
    3 )
    @lengthOf(Header)
    //	t
    @lengthOf( repeatCount
    )As A , @lengthOf( i8i8
) zchar[ 0]
    MetaDataX
`` ,}
")).
Eval vm_compute in ("<<<M1101>>>" ++ check (runes_of_ascii "root// 50% %s
packet falsey
{
    repeat
    zchar[  255 ]
//x
// packet A { u8 x, }
calculatedFrom
, matchKey /// triple
options1 ,
    @tag(	0 ) uint64 o ,// a // b
@tag( 255
    )
// " ++ [128512]%N ++ runes_of_ascii " emoji
//	t
repeat i64
_x, uint16
    // `tick` ""quote"" 'q'
    leftPad `// not a comment` , x , @leftPad ('0' )
repeat Z9_// `tick` ""quote"" 'q'
{
    zchar[ 1 ]
Z9_ @lengthOf( zchar ) `line1
line2` , repeat float32 u
    ,
int {
u {
    repeat
asx
Z9_ `
` , } ,
char[] metadata @lengthOf(len ) `u8 x,` , uint16 //x
i8i8
    // a // b
    , /// triple
} , } ,@calculatedFrom( ""x y"" ) Logon{
    // 50% %s
    char[ 0
] Header
, } , @lengthOf(
    i8i8)
match uint8x	as
body
    { ""it's"" :
pack , } ,@leftPad
    (
    '\x00' // 50% %s
)char[] Foo `u8 x,` , } packet leftPad { }packet float{ @tag(	3
) roots @calculatedFrom( ""1"" )
    , }")).
Eval vm_compute in ("<<<M4031>>>" ++ check (runes_of_ascii "  // 50% %s
	packet
rootA{ 
@lengthOf(
u8x	)  Z9_
    @lengthOf(  charz ), }

    packet 
    // " ++ [27880; 37322]%N ++ runes_of_ascii "
	//
    crc  { @calculatedFrom( 
    // a // b
""a\""b"") repeat

    msg_type
	`{ , }`, @tag(	42  )repeat char[ 
42
    ] packetx  `{ , }` ,options1 	 /// triple
  { 
    //
	zchar[

4294967296
] packetx
@calculatedFrom(
""CRC32""
    // c
// `tick` ""quote"" 'q'
  	)
    ,  // `tick` ""quote"" 'q'
	u128 
{ u32

    tag
    `doc`

    , } , }	,  @leftPad

    (

    '0'
)falsey {

match  f32a  as T{""a\""b""
	:
chars ,	// c
  ""a\\""
	:body ,[""\n"" , ""CRC32"" ,
    0	// c
	  ,
10
, """ ++ [233]%N ++ runes_of_ascii "t" ++ [233]%N ++ runes_of_ascii """ ] 
// " ++ [128512]%N ++ runes_of_ascii " emoji
    // " ++ [27880; 37322]%N ++ runes_of_ascii "

:  packetx,	[
	""a\""b"" /// triple
]
:A  0
:  leftPad , 
/// triple
4294967296

:
    BodyLength
    ,  }

    ,

    msg_type 
    // " ++ [27880; 37322]%N ++ runes_of_ascii "
      //

,}
	, 
}
")).
Eval vm_compute in ("<<<M3778>>>" ++ check (runes_of_ascii "MetaData

    chars {As
    Packet	,
	T
crc

,
    // `tick` ""quote"" 'q'
    // 50% %s
char[]
_x, len  packetx `line1
line2` 
,
	}

packet  T{	int64 f32a@lengthOf(x
    )
    `say ""hi""`	, 
    // trailing space 
	zchar[ 65535  ]  asx
	`say ""hi""`
	,
    i16

roots `" ++ [28040; 24687; 31867; 22411]%N ++ runes_of_ascii "`  ,

@rightPad (	// " ++ [27880; 37322]%N ++ runes_of_ascii "
  '\x00'  ) 
string
    uint8x
	, rootA @lengthOf( roots 

// a // b
    )`two words`
    ,

repeat  u32 u128 ,	@tag(
    255 
) 
    //x

  charz
pack 
    // a // b
  ,
} 
    // @lengthOf(

// " ++ [27880; 37322]%N ++ runes_of_ascii "
  	packet

    Header { 

// " ++ [128512]%N ++ runes_of_ascii " emoji
//
@leftPad
(

'0' 
)
	repeat
	f32a
metadata 
`" ++ [233]%N ++ runes_of_ascii "`
    ,} packet  //
msg_type{
    char

A
`two words`
    ,
	@tag( 255	)
@rightPad
	( )
	body
@calculatedFrom( 
""\" ++ [233]%N ++ runes_of_ascii """
	) 	 // 50% %s
    , 
}
	options{	Z9_=
""packet"" ;}")).
Eval vm_compute in ("<<<M553>>>" ++ check (runes_of_ascii "root packet packetx
    {
    @calculatedFrom(""a\\"" ) repeat
zchar[1 ]Pad
    ,repeat trueish
    , //	t
@rightPad (
// `tick` ""quote"" 'q'
// " ++ [128512]%N ++ runes_of_ascii " emoji
' ' )// trailing space 
match u as zchar
{ 42
:BodyLength
,
[
0123456789
,0,
    ""\n"" ,	""{,}"" , ""x y"",
    ""CRC32"" ,
00 ]
:
tag// " ++ [27880; 37322]%N ++ runes_of_ascii "
[ 65535, 65535 , ""{,}"" ,
""" ++ [28040; 24687]%N ++ runes_of_ascii """
,//	t
""CRC32"" ,
""{,}"" ,
    ""`tick`"" , ""x y"" ]
    : x
    ,""abc"": x , 42	: f32a ""a\""b"" :Logon }, @rightPad  ( '\x00' // `tick` ""quote"" 'q'
) stringy
asx , @tag(
    007 )
    u64 a1 `crlf
line` , }
packet/// triple
A {@calculatedFrom( ""abc"" )@calculatedFrom(
    """ ++ [128512]%N ++ runes_of_ascii """
)repeat
    char[ 42	]
Packet
    //
    , zchar[ 42
] i8i8@calculatedFrom(
    ""{,}"" )  `100% of %d` ,// @lengthOf(
string int @lengthOf( T
) , }")).
Eval vm_compute in ("<<<M4141>>>" ++ check (runes_of_ascii "options {
    LittleEndian = true;
    StringPrefixLenType = u8;
    FixedStringPadFromLeft = false;
    FixedStringPadChar = '0';
}

packet Order {
    repeat string Px,
    repeat char[2] Qty,
    string Tail,
    char[] OrderId,
    int8 tag7,
    int64 Flags,
}

packet Party {
    Order,
    f32 lastPx,
    f32 Note,
    string x,
}

packet Logon {
    uint8 OrderId,
    string msgKind,
    int32 lastPx,
}

packet Ack {
}

packet Cancel {
    repeat char[5] Note,
    repeat i32 x,
    Ack,
    repeat InF16 {
        repeat i8 sym,
    },
    char[1] Acct,
}

root packet Fill {
    i32 price,
    @leftPad(' ')
    char[8] msgKind,
    char[] Acct,
    char[] Note,
    uint64 venue,
}")).
Eval vm_compute in ("<<<M3577>>>" ++ check (runes_of_ascii "options {
    matchKey = ' ';
}

root packet options1 {
    @tag(1)
    char[] repeatCount `tab	here`,
    @lengthOf(rootA)
    zchar[42] o,
    match Header as i64_ {
        [""x y"", ""1"", 3] : int,
        """ ++ [128512]%N ++ runes_of_ascii """ : options1,
        [""abc""] : body,
        65535 : roots,
        // " ++ [128512]%N ++ runes_of_ascii " emoji
    },
    msg_type charz,
    string f32a `// not a comment`,
    repeat int,
    char[0] _x `two words`,
    i16 metadata @lengthOf(metadata) `two words`,
}

MetaData uint8x {
    len stringy `{ , }`,
}

options {
    u128 = 00;// `tick` ""quote"" 'q'
    Pad = char[7];
    calculatedFrom = """ ++ [28040; 24687]%N ++ runes_of_ascii """
    crc = char[];
    Z9_ = '0';
}

packet rootA {
    // a // b
    repeat x_y_z,
}")).
Eval vm_compute in ("<<<M3884>>>" ++ check (runes_of_ascii "MetaData float {
    string Packet,
}

options {
    asx = ""\n""
}

options {
    repeatCount = """";
    _x = zchar[007];
    uint8x = u64
}

packet options1 {
    i8 Pad,
    uint32 roots @calculatedFrom(""// no comment"") `doc`,
    char[] rootA,
    match crc as u {
        0 : chars,
        42 : packetx,
        // @lengthOf(
        // trailing space 
    },
    @tag(0)
    int8 u128,
    string pack `u8 x,`,
    Header @calculatedFrom(""1""),
    @tag(10)
    u,
    i16 u128,
    // trailing space 
    @calculatedFrom(""\n"")
    //	t
    @rightPad('0')
    repeat zchar msg_type `{ , }`,
}

MetaData i8i8 {
    u8 leftPad `crlf
        line`,
}")).
Eval vm_compute in ("<<<M28>>>" ++ check (runes_of_ascii "options {
    i8i8 = ""1"" u=
    ""a	b"" //x
;a1=zchar[ 00
    // @lengthOf(
    ] ;
    // c
    o= ""a	b""
;  float
= char[]// a // b
;
} root packet chars{
}packet body // `tick` ""quote"" 'q'
{ repeat u8x {int16 zchar ,char[
1
] o `" ++ [233]%N ++ runes_of_ascii "`	,
    },}
    packet  BodyLength {
    // c
    @rightPad
    ('0' )u16 u8x@calculatedFrom( ""// no comment"" ),
    @tag(
1 )
// a // b
// " ++ [128512]%N ++ runes_of_ascii " emoji
match i8i8 as
u128 { 007 : len ,	""" ++ [128512]%N ++ runes_of_ascii """: u128
    ,
    } , repeat
    repeatCount// " ++ [128512]%N ++ runes_of_ascii " emoji
`u8 x,` , @calculatedFrom( // c
""x y""
)falsey {
char[ 255]  crc , Logon
`two words`  ,
roots options1
    , }	,
} root packet
calculatedFrom
    { }
")).
Eval vm_compute in ("<<<M3833>>>" ++ check (runes_of_ascii "MetaData asx { char[
	00
]

u8x	, 
trueish tag `it's`,
} 
root
packet	i64_ {
	repeat

repeatCount	// trailing space 
	msg_type	, char[

7

] asx 

//x

	/// triple
,  }options{  BodyLength =
	true

;
	} packet
x{  @tag(	1 )

    @rightPad(
	'\x00')	// trailing space 
    @lengthOf(
f32a
    )int16  pack`
` ,	repeat

    char[]

    options1,	// c
	string 
options1
    @lengthOf(
calculatedFrom
	) `" ++ [233]%N ++ runes_of_ascii "`,	// @lengthOf(
	@tag( 1

    )
Packet	// packet A { u8 x, }

	string_	,As {

matchKey	chars  ,}

    ,

repeat
string	crc 
`// not a comment` ,
repeat
    T

    ,} 
      //x
")).
Eval vm_compute in ("<<<M196>>>" ++ check (runes_of_ascii "packet  u128  {
repeat
string float `100% of %d`
    , @tag( 1
) @tag( // " ++ [27880; 37322]%N ++ runes_of_ascii "
007	)
    match pack as i8i8
{  ""CRC32"" //	t
:
trueish 0123456789	: _x ,[00 ,""" ++ [128512]%N ++ runes_of_ascii """, /// triple
255 , 255
]	: // trailing space 
uint8x
    ,[  ""`tick`""	] :trueish , 7  :
    i8i8 } , Logon
, @calculatedFrom(""1"" // packet A { u8 x, }
) zchar[ 0123456789 ]
/// triple
// trailing space 
trueish @calculatedFrom(""1""// " ++ [128512]%N ++ runes_of_ascii " emoji
) `u8 x,`	, @leftPad ( )@tag(	7) char[
// trailing space 
//	t
0123456789] BodyLength
//x
// 50% %s
@calculatedFrom( ""abc"" /// triple
)
    ,	T/// triple
a1 ,}packet
Packet {  }
")).
Eval vm_compute in ("<<<M1319>>>" ++ check (runes_of_ascii "  packet // `tick` ""quote"" 'q'
i64_ { // " ++ [128512]%N ++ runes_of_ascii " emoji
@tag(  255
) uint16 u128 , } packet options1
    {
match
//x
// trailing space 
Logon as Z9_ { [ 1 , 1 ] /// triple
:
    crc""a	b"" :
roots ,""CRC32""//
: MetaDataX , }, @lengthOf( uint8x // @lengthOf(
)// `tick` ""quote"" 'q'
@leftPad ( '0'
    ) crc @calculatedFrom( ""it's"" ) , zchar[
// c
/// triple
4294967296 ] leftPad `two words` ,
    repeat falsey ,u8 o @calculatedFrom( ""x y"" )
    , @tag( 3
)
    @calculatedFrom( ""CRC32"" ) @lengthOf( lengthOf
)
    repeat string
uint8x ,	char[] chars
    , }")).
Eval vm_compute in ("<<<M4079>>>" ++ check (runes_of_ascii "
options	{u8x=
""x y""

    ;

    }

options { crc  =

false 
;
	} root
packet
a1

{  repeat

zchar[0

]
    metadata

,
	} packet Pad

{
pack {

    char[ 4294967296
]	tag
,  i64	asx //x
	@lengthOf(
Z9_ ) `" ++ [233]%N ++ runes_of_ascii "` ,

    }
    , @lengthOf(  // @lengthOf(
  asx  // packet A { u8 x, }
  ) zchar[3  // packet A { u8 x, }

	] pack
@calculatedFrom(

    ""x y""  
      // trailing space 
  	)  ,
    @calculatedFrom(
	""packet""
	)
    repeat
falsey

    `// not a comment`	,

}	options { 
metadata

= false zchar
='\x00'  }
")).
Eval vm_compute in ("<<<M117>>>" ++ check (runes_of_ascii "options
{Packet =char[ 7
/// triple
//
] ;
a1
=""it's"" ;}MetaData charz {
    As calculatedFrom , uint8 float
    `{ , }`
, charz msg_type
    , }
    MetaData i8i8
{char[]// " ++ [128512]%N ++ runes_of_ascii " emoji
x_y_z
`say ""hi""`,
}
packet i64_	{ @tag(
0123456789 )
x_y_z@calculatedFrom( ""it's""	) ,@rightPad
(  ' '	) @tag(007 ) leftPad {
    // @lengthOf(
    zchar[ 00 ] Pad, }	,int32
    _x @lengthOf(BodyLength )
,@calculatedFrom(""{,}"" )
    float32 Foo ,rootA
@lengthOf( charz) , f64 _x@calculatedFrom( ""{,}""  )	`a\`
    , }")).
Eval vm_compute in ("<<<M3911>>>" ++ check (runes_of_ascii "// a // b
MetaData len {
    char[65535] options1,
}

root packet f32a {
    @leftPad()
    char[255] u128,
    zchar[42] tag @lengthOf(T) `a\`,
    int16 Logon `{ , }`,
    int16 rootA,
    @tag(00)
    char[00] packetx @lengthOf(f32a) `{ , }`,
    u8 Logon `it's`,
    // a // b
    char[] x_y_z @lengthOf(len),
    @lengthOf(Pad)
    // " ++ [128512]%N ++ runes_of_ascii " emoji
    char[] packetx,
}

// " ++ [128512]%N ++ runes_of_ascii " emoji
MetaData repeatCount {
    zchar[1] stringy,
    Packet rootA,
    A Z9_,
    string u128,// a // b
}")).
Eval vm_compute in ("<<<M3885>>>" ++ check (runes_of_ascii "root
packet 	 //x

	pack

    {
    match
matchKey 	 //	t
    as int 	 // @lengthOf(

  {00

    : metadata , 
""a\\""
:o

,""// no comment""

:  // `tick` ""quote"" 'q'
	x 
,[""packet""
] :
A

    ,

    [ ""\n"" , 0123456789 , 00
,
	""// no comment"" , 007
,255 , 1
    , // c
    0
	]
        // a // b
:
metadata,  [ 00 ] :Pad , 
} ,

    }// @lengthOf(
MetaData tag

{ 
uint64

    i64_

    ``, } packet
BodyLength

    {
repeat	u32

u128,
	}
")).
Eval vm_compute in ("<<<M3752>>>" ++ check (runes_of_ascii "  packet
asx{
    @calculatedFrom(""" ++ [28040; 24687]%N ++ runes_of_ascii """
)u8
Packet@lengthOf(

u128 
)/// triple

	,i64  lengthOf@calculatedFrom( ""it's""	)

    , @leftPad	// packet A { u8 x, }
	  ( )  Foo
	@lengthOf( msg_type 
) 
,
	@lengthOf(  leftPad 	 // c

)tag`" ++ [233]%N ++ runes_of_ascii "`

,
	} 
packet
    A{  zchar[  255 
]
    len@lengthOf(
matchKey

) 
,	@calculatedFrom( ""CRC32"" )
Foo
    {int8  /// triple
		asx	@lengthOf(
metadata )
`u8 x,` ,}
,}MetaData len

{	// @lengthOf(
	}
")).
Eval vm_compute in ("<<<M4449>>>" ++ check (runes_of_ascii "  options {
uint8x =
'\x00' ;a1
=
	zchar[
    4294967296

];
Packet
= 007  ; 
} MetaData
rootA{  roots

repeatCount
	`two words`

    , 
string

    f32a

    `u8 x,`
,

char[ 0
	]rootA	// a // b

`doc`, o
stringy `tab	here` ,
}

MetaData

    u128

    {int16 
asx
`a\`  ,// " ++ [27880; 37322]%N ++ runes_of_ascii "

string  f32a

    , 
      // " ++ [27880; 37322]%N ++ runes_of_ascii "
    // 50% %s
  i16
	o 
`line1
line2`
,

u64  Z9_
`u8 x,`
    , 
  //x
	// 50% %s
    }
")).
Eval vm_compute in ("<<<M179>>>" ++ check (runes_of_ascii "packet Foo
    // packet A { u8 x, }
    { @lengthOf( u128// " ++ [128512]%N ++ runes_of_ascii " emoji
) // c
pack
{
    match x as string_
    // " ++ [128512]%N ++ runes_of_ascii " emoji
    {""" ++ [28040; 24687]%N ++ runes_of_ascii """
: BodyLength ,} , }// a // b
,char[ 4294967296 ] i64_ `" ++ [233]%N ++ runes_of_ascii "` ,@lengthOf(u8x
    ) repeat float64 f32a ,
// a // b
// packet A { u8 x, }
} // 50% %s
options { MetaDataX=  ""a\\""
pack =// packet A { u8 x, }
false;	options1
    // a // b
    = char[]  Pad= '0'
    ;
u8x =false}
")).
Eval vm_compute in ("<<<M1379>>>" ++ check (runes_of_ascii "options  {
x = zchar[ 00 ]matchKey
    = //	t
i8
; o = char[] } packet	u {
    // c
    metadata @lengthOf(
zchar ), char[0123456789 //
] crc @calculatedFrom( ""a\""b"" ),
packetx charz, }packet  trueish { } options {
    Z9_=
// @lengthOf(
// `tick` ""quote"" 'q'
""" ++ [128512]%N ++ runes_of_ascii """
    // trailing space 
    ; // " ++ [27880; 37322]%N ++ runes_of_ascii "
roots
=' ';
    Header
=
4294967296 ;
falsey =  f64 } options
{ MetaDataX=
false}
")).
Eval vm_compute in ("<<<M1063>>>" ++ check (runes_of_ascii "packet i64_ {zchar[ //	t
7
] chars
,  @rightPad
    (
    )pack
,
@lengthOf(//
roots )// c
@tag( 65535) Header zchar ,
    } packet	matchKey
    { @calculatedFrom(	""\n"" ) @lengthOf( x_y_z)
@lengthOf( // 50% %s
calculatedFrom)
zchar[
//
/// triple
0 ] MetaDataX , } options { options1 = // a // b
' '
;	Pad =
char
// @lengthOf(
//
} packet
    /// triple
    A { } //")).
Eval vm_compute in ("<<<M3970>>>" ++ check (runes_of_ascii "
root
	packet
asx 
// `tick` ""quote"" 'q'
    	// `tick` ""quote"" 'q'
  {
}root
    // `tick` ""quote"" 'q'
	packet

MetaDataX 	 // " ++ [128512]%N ++ runes_of_ascii " emoji
		{
    }

packet
    charz {

    int32

o	@calculatedFrom( ""CRC32"")  ,

}
options 
{	}
    packet
	crc
    { 
@lengthOf(
	leftPad
)
	@tag(65535 
)
@calculatedFrom( ""a\""b""
	)	string
	Header

`" ++ [28040; 24687; 31867; 22411]%N ++ runes_of_ascii "`
    ,
} ")).
Eval vm_compute in ("<<<M706>>>" ++ check (runes_of_ascii "options{
u8x =
int8 ;
    Pad =int16; falsey
    = true ; }  root packet trueish {@lengthOf(pack
)
int64
u @calculatedFrom(
    //
    ""CRC32""	)
    , }
MetaData // c
chars { msg_type asx //
`{ , }`, roots Logon`" ++ [233]%N ++ runes_of_ascii "` ,	char[] string_`doc`  ,roots  pack `
`
    ,
// packet A { u8 x, }
// packet A { u8 x, }
Packet crc ,
Foo i64_ , }")).
Eval vm_compute in ("<<<M3430>>>" ++ check (runes_of_ascii "// top
packet // c0a
  // c0b
FooBar // c1a
  // c1b
{
    // c2
u8 // c3
a // c4
, // c5a
  // c5b
} // c6a
  // c6b
packet // c7a
  // c7b
foo_bar // c8a
  // c8b
{ // c9a
  // c9b
u16
    // c10
b
    // c11
, // c12
} root
    // c14
packet // c15
R
    // c16
{ // c17
FooBar , foo_bar
    // c20
, // c21
}
    // c22
")).
Eval vm_compute in ("<<<M860>>>" ++ check (runes_of_ascii "packet x_y_z { @tag( 7 ) zchar[ 255 ]
calculatedFrom
    , zchar[  1
    ]	Header
    `u8 x,`, @lengthOf(falsey)u16 u8x,@lengthOf(
    chars ) charz @calculatedFrom(""`tick`"" ) `" ++ [233]%N ++ runes_of_ascii "`,
    } MetaData
    roots{ packetx
msg_type `" ++ [233]%N ++ runes_of_ascii "` // `tick` ""quote"" 'q'
,
    _x stringy
    // trailing space 
    ,	zchar uint8x,}")).
Eval vm_compute in ("<<<M660>>>" ++ check (runes_of_ascii "packet rootA { @leftPad
(
)@calculatedFrom(""" ++ [28040; 24687]%N ++ runes_of_ascii """)
@lengthOf(T) rootA
, @tag( 10	)
// `tick` ""quote"" 'q'
// packet A { u8 x, }
f64 i64_
@lengthOf( uint8x// packet A { u8 x, }
) , } packet
chars { repeat int16
MetaDataX , @rightPad ( //
' '
    ) int16// a // b
crc @lengthOf( leftPad
    ) , } 	 ")).
Eval vm_compute in ("<<<M1326>>>" ++ check (runes_of_ascii "
packet body // " ++ [128512]%N ++ runes_of_ascii " emoji
{ char[ 10 ]body , @lengthOf(  rootA ) @lengthOf( crc ) @rightPad
    // @lengthOf(
    (	' ') match uint8x as asx {
""x y"" :
    //	t
    u8x
    , ""CRC32"" : //	t
float, 0123456789 : // `tick` ""quote"" 'q'
int 0: Foo,
3 :  asx
, // packet A { u8 x, }
} , }
")).
Eval vm_compute in ("<<<M1579>>>" ++ check (runes_of_ascii "// 50% %s
packet	a1
    { zchar[
// a // b
// 50% %s
007]
T `it's`
    ,@rightPad
    // a // b
    (
'\x00'@lengthOf(
    o repeatCount , }  packet Logon {  }packet	Logon //x
{ repeat // " ++ [128512]%N ++ runes_of_ascii " emoji
uint16 u128
    //
    `a\`,
falsey
@calculatedFrom(""packet"" ) ,
    } 	 ")).
Eval vm_compute in ("<<<M3811>>>" ++ check (runes_of_ascii "options {
    LittleEndian = true;
    StringPrefixLenType = u16;
    ArrayPrefixLenType = u8;
}

packet Reject {
    repeat char[1] price,
    repeat InFlags60 {
        u8 pad0,
    },
    u8 Qty,
}

root packet Heartbeat {
    repeat Reject,
    repeat string sym,
}")).
Eval vm_compute in ("<<<M1567>>>" ++ check (runes_of_ascii "// 50% %s
packet	a1
    { zchar[
// a // b
// 50% %s
007]
T `it's`
    ,@rightPad
    // a // b
    ( (
'\x00')
    o repeatCount , }  packet Logon {  }packet	Logon //x
{ repeat // " ++ [128512]%N ++ runes_of_ascii " emoji
uint16 u128
    //
    `a\`,
falsey
@calculatedFrom(""packet"" ) ,
    } 	 ")).
Eval vm_compute in ("<<<M3426>>>" ++ check (runes_of_ascii "packet MDSnapshotZZ {
    u8 a,
}
packet OrderACK {
    u16 b,
}
packet HTTPServerInfo {
    string s,
}
root packet FIXMsg {
    u8 KType,
    MDSnapshotZZ,
    repeat OrderACK,
    match KType as Body {
        1 : HTTPServerInfo,
        2 : OrderACK,
    },
}
")).
Eval vm_compute in ("<<<M1673>>>" ++ check (runes_of_ascii "// 50% %s
packet	a1
    { zchar[
// a // b
// 50% %s
007]
T `it's`
    ,@rightPad
    // a // b
    (
'\x00')
    o repeatCount , }  packet Logon {  }packet	Logon //x
{ repeat // " ++ [128512]%N ++ runes_of_ascii " emoji
uint16 u128
    //
    `a\`,
falsey
@calculatedFrom() ""packet"" ,
    } 	 ")).
Eval vm_compute in ("<<<M1604>>>" ++ check (runes_of_ascii "// 50% %s
packet	a1
    { zchar[
// a // b
// 50% %s
007]
T `it's`
    ,@rightPad
    // a // b
    (
'\x00')
    o repeatCount , }  u64 Logon {  }packet	Logon //x
{ repeat // " ++ [128512]%N ++ runes_of_ascii " emoji
uint16 u128
    //
    `a\`,
falsey
@calculatedFrom(""packet"" ) ,
    } 	 ")).
Eval vm_compute in ("<<<M1661>>>" ++ check (runes_of_ascii "// 50% %s
packet	a1
    { zchar[
// a // b
// 50% %s
007]
T `it's`
    ,@rightPad
    // a // b
    (
'\x00')
    o repeatCount , }  packet Logon {  }packet	Logon //x
{ repeat // " ++ [128512]%N ++ runes_of_ascii " emoji
uint16 u128
    //
    `a\`,

@calculatedFrom(""packet"" ) ,
    } 	 ")).
Eval vm_compute in ("<<<M1669>>>" ++ check (runes_of_ascii "// 50% %s
packet	a1
    { zchar[
// a // b
// 50% %s
007]
T `it's`
    ,@rightPad
    // a // b
    (
'\x00')
    o repeatCount , }  packet Logon {  }packet	Logon //x
{ repeat // " ++ [128512]%N ++ runes_of_ascii " emoji
uint16 u128
    //
    `a\`,
falsey
]""packet"" ) ,
    } 	 ")).
Eval vm_compute in ("<<<M177>>>" ++ check (runes_of_ascii "options {	metadata =false
// packet A { u8 x, }
// 50% %s
options1 = f64 a1	= char[]
    options1 =  zchar[	7 ]
// @lengthOf(
// trailing space 
; } options{ string_ =7
    // `tick` ""quote"" 'q'
    ;
MetaDataX =
    ""a	b""
int=
false ; }")).
Eval vm_compute in ("<<<M881>>>" ++ check (runes_of_ascii "root packet crc { char[//x
0123456789 ] _x @lengthOf(//
T )`a\`
,i16 msg_type , @leftPad
    (
'0'// trailing space 
)
    repeat
char[] u	,
    @lengthOf(//
repeatCount) int8 f32a ,
} root packet metadata{
    } // @lengthOf(")).
Eval vm_compute in ("<<<M410>>>" ++ check (runes_of_ascii "  MetaData zchar {	char[] rootA
    , }
MetaData roots { int16 // @lengthOf(
Logon	,  u32 matchKey //	t
`say ""hi""` ,
char[ 00
    ]
f32a
`line1
line2` ,// trailing space 
packetx matchKey	, } MetaData u{ string len , }")).
Eval vm_compute in ("<<<M1383>>>" ++ check (runes_of_ascii "MetaData Logon {
    len
    u, uint32 BodyLength// c
,
charz lengthOf`it's`, uint32 a1 `crlf
line`
,
Logon // trailing space 
pack// c
`// not a comment`
    ,msg_type A // `tick` ""quote"" 'q'
`
`
    ,
}
")).
Eval vm_compute in ("<<<M119>>>" ++ check (runes_of_ascii "
packet Pad{ @lengthOf(
    msg_type)match u8x as u {
10: msg_type
// @lengthOf(
// c
255 : roots
    , ""CRC32""
:
// " ++ [128512]%N ++ runes_of_ascii " emoji
// `tick` ""quote"" 'q'
BodyLength [ 1, ""a\""b""  ] : trueish ,} ,
//	t
//	t
}")).
Eval vm_compute in ("<<<M3847>>>" ++ check (runes_of_ascii "//x
root packet int {
    //	t
}

MetaData options1 {
    zchar[3] packetx,
    zchar[007] repeatCount `a\`,
    string metadata ``,
    Z9_ zchar `" ++ [233]%N ++ runes_of_ascii "`,
    uint64 Pad,
}
// `tick` ""quote"" 'q'")).
Eval vm_compute in ("<<<M215>>>" ++ check (runes_of_ascii "MetaData
float { uint8 Foo
    , zchar[1 ] asx `{ , }`  ,a1 lengthOf , falsey pack `u8 x,` ,
// " ++ [27880; 37322]%N ++ runes_of_ascii "
// packet A { u8 x, }
metadata Packet ,falsey // packet A { u8 x, }
pack ,
    }")).
Eval vm_compute in ("<<<M3646>>>" ++ check (runes_of_ascii "// top
options {
    // c1
    LittleEndian = true;
    // c5
}

// c6
root packet P {
    // c10
    u16 a,
    // c13
    u32 Sum @calculatedFrom(""CRC32""),// c19
}
// c20")).
Eval vm_compute in ("<<<M3803>>>" ++ check (runes_of_ascii "packet charz {
    @tag(7)
    @tag(4294967296)
    @lengthOf(trueish)
    repeat uint64 metadata `line1
        line2`,
}

options {
    T = true;
}

packet tag {
}")).
Eval vm_compute in ("<<<M3512>>>" ++ check (runes_of_ascii "
packet A 
{
	match k

as n
	{
    [
    ""a"" 
, 22
    ,

""c c"", 
4,

    ""e""

, 66,""g"",
	8
,

    ""i""  , 10 ]  :

    B
    ,	2
	:
    C

    } ,
	}

")).
Eval vm_compute in ("<<<M1625>>>" ++ check (runes_of_ascii "// 50% %s
packet	a1
    { zchar[
// a // b
// 50% %s
007]
T `it's`
    ,@rightPad
    // a // b
    (
'\x00')
    o repeatCount , }  packet Logon {  }")).
Eval vm_compute in ("<<<M2183>>>" ++ check (runes_of_ascii "MetaData BodyLength
{ int8 Foo
, string
    MetaDataX , float zchar ,pack options1
,asx string_, }
packet u8x {Foo@lengthOf(charz )
`" ++ [28040; 24687; 31867; 22411]%N ++ runes_of_ascii "`packet  }
")).
Eval vm_compute in ("<<<M2151>>>" ++ check (runes_of_ascii "MetaData BodyLength
{ int8 Foo
, string
    MetaDataX , float zchar ,pack options1
,asx string_, }
packet u8x { {Foo@lengthOf(charz )
`" ++ [28040; 24687; 31867; 22411]%N ++ runes_of_ascii "`,  }
")).
Eval vm_compute in ("<<<M2347>>>" ++ check (runes_of_ascii "options
    {
x_y_z// " ++ [27880; 37322]%N ++ runes_of_ascii "
= 10 ; @lengthOf}
packet body {
    @calculatedFrom(
// trailing space 
// " ++ [27880; 37322]%N ++ runes_of_ascii "
""1""
)	match T as Foo
    {
255 :T , }
,}")).
Eval vm_compute in ("<<<M2153>>>" ++ check (runes_of_ascii "MetaData BodyLength
{ int8 Foo
, string
    MetaDataX , float zchar ,pack options1
,asx string_, }
packet u8x (Foo@lengthOf(charz )
`" ++ [28040; 24687; 31867; 22411]%N ++ runes_of_ascii "`,  }
")).
Eval vm_compute in ("<<<M3964>>>" ++ check (runes_of_ascii "packet A {
    match k as n {
        [
            ""a"", 22, ""c c"", 4, ""e"",
            66, ""g"", 8, ""i""
        ] : B,
        2 : C,
    },
}")).
Eval vm_compute in ("<<<M2155>>>" ++ check (runes_of_ascii "MetaData BodyLength
{ int8 Foo
, string
    MetaDataX , float zchar ,pack options1
,asx string_, }
packet u8x {@lengthOf(charz )
`" ++ [28040; 24687; 31867; 22411]%N ++ runes_of_ascii "`,  }
")).
Eval vm_compute in ("<<<M18>>>" ++ check (runes_of_ascii "MetaData zchar
{ uint64 Z9_, As f32a  `" ++ [28040; 24687; 31867; 22411]%N ++ runes_of_ascii "` // " ++ [128512]%N ++ runes_of_ascii " emoji
, char[ 10 ]	options1 //	t
`tab	here` , rootA trueish //x
``, i32 Foo `{ , }` ,}
")).
Eval vm_compute in ("<<<M2041>>>" ++ check (runes_of_ascii "
packet leftPad " ++ [233]%N ++ runes_of_ascii " {
@leftPad( '0')
u32
i64_ `100% of %d` ,repeat// 50% %s
i8 chars
    ,
} MetaData
    f32a
{ // packet A { u8 x, }
}")).
Eval vm_compute in ("<<<M2034>>>" ++ check (runes_of_ascii "
packet leftPad {
@leftPad( '0')
u32
i64_ `100% of %d` ,repeat// 50% %s
i8 chars
    ,
} MetaData
    f32a
{ // p" ++ [0]%N ++ runes_of_ascii "acket A { u8 x, }
}")).
Eval vm_compute in ("<<<M1958>>>" ++ check (runes_of_ascii "
packet leftPad {
@leftPad( '0'u32
)
i64_ `100% of %d` ,repeat// 50% %s
i8 chars
    ,
} MetaData
    f32a
{ // packet A { u8 x, }
}")).
Eval vm_compute in ("<<<M2275>>>" ++ check (runes_of_ascii "options
    {
x_y_z// " ++ [27880; 37322]%N ++ runes_of_ascii "
= 10 ; }
packet body {
    @calculatedFrom(
// trailing space 
// " ++ [27880; 37322]%N ++ runes_of_ascii "
""1""
)	T match as Foo
    {
255 :T , }
,}")).
Eval vm_compute in ("<<<M2223>>>" ++ check (runes_of_ascii "options
    {
x_y_z// " ++ [27880; 37322]%N ++ runes_of_ascii "
 10 ; }
packet body {
    @calculatedFrom(
// trailing space 
// " ++ [27880; 37322]%N ++ runes_of_ascii "
""1""
)	match T as Foo
    {
255 :T , }
,}")).
Eval vm_compute in ("<<<M3658>>>" ++ check (runes_of_ascii "
packet A
{

    u16
    len@lengthOf(body 
)  `a
b`

    , 
u32 crc
	@calculatedFrom(
""CRC32"")  `a
b`
,
    string	body,}

")).
Eval vm_compute in ("<<<M2428>>>" ++ check (runes_of_ascii "MetaData
    calculatedFrom
{ zchar[  10 ]
    As`tab	here`? ,
    }// trailing space 
options  { roots ='\x00' ; } packet A
{ }
")).
Eval vm_compute in ("<<<M1941>>>" ++ check (runes_of_ascii "
packet leftPad {
( '0')
u32
i64_ `100% of %d` ,repeat// 50% %s
i8 chars
    ,
} MetaData
    f32a
{ // packet A { u8 x, }
}")).
Eval vm_compute in ("<<<M980>>>" ++ check (runes_of_ascii "options {u128 //
= 4294967296 ; BodyLength
//	t
// c
=string
    Packet// " ++ [27880; 37322]%N ++ runes_of_ascii "
= // @lengthOf(
' ' u8x= ""x y"" ; asx= 255 ; }
")).
Eval vm_compute in ("<<<M3656>>>" ++ check (runes_of_ascii "packet A {
    Inner {
        u8 x `a
        b`,
        Deep {
            u8 y `a
            b`,
        },
    },
}")).
Eval vm_compute in ("<<<M1875>>>" ++ check (runes_of_ascii "packet o {
    roots `it's`
// trailing space 
//x
, char[ 42
    ]  char, // " ++ [27880; 37322]%N ++ runes_of_ascii "
f64
repeatCount
    `crlf
line`
,}")).
Eval vm_compute in ("<<<M4197>>>" ++ check (runes_of_ascii "

  packet 
A{ match
	k

    as n {[
""a"" ,
22
,  ""c c""	, 4
    ,
	""e""

,66  ,
""g""
] 
:
B

    2 :

C } ,
    }")).
Eval vm_compute in ("<<<M1864>>>" ++ check (runes_of_ascii "packet o {
    roots `it's`
// trailing space 
//x
, char[ ]
    42  A, // " ++ [27880; 37322]%N ++ runes_of_ascii "
f64
repeatCount
    `crlf
line`
,}")).
Eval vm_compute in ("<<<M4218>>>" ++ check (runes_of_ascii "MetaData i8i8 {
    rootA stringy,
    char[4294967296] asx,
    i8 uint8x,
    zchar int,
}// `tick` ""quote"" 'q'")).
Eval vm_compute in ("<<<M1110>>>" ++ check (runes_of_ascii "MetaData metadata  {x tag , float64
chars
,// packet A { u8 x, }
}	root	packet Pad
    {
} options
    {
    }")).
Eval vm_compute in ("<<<M2975>>>" ++ check (runes_of_ascii "packet A {
  match k as n {
    [""a"", ""bb"", ""c c"", ""d"", ""e"", ""f"", ""g"", ""h"", ""i"", ""j""] : B,
    2 : C
  },
}")).
Eval vm_compute in ("<<<M1691>>>" ++ check (runes_of_ascii "// 50% %s
packet	a1
    { zchar[
// a // b
// 50% %s
007]
T `it's`
    ,@rightPad
    // a // b
    (
")).
Eval vm_compute in ("<<<M1304>>>" ++ check (runes_of_ascii "packet stringy { } // packet A { u8 x, }
options { }	MetaData  A {float32 trueish ,
// " ++ [27880; 37322]%N ++ runes_of_ascii "
// a // b
}")).
Eval vm_compute in ("<<<M2994>>>" ++ check (runes_of_ascii "packet A {
  match k as n {
    [1, 22, ""c c"", 4, 5, ""f"", 7, 8, ""i"", 10, 11] : B,
    2 : C
  },
}")).
Eval vm_compute in ("<<<M3630>>>" ++ check (runes_of_ascii "MetaData

    Foo

{ zchar[ 
0 // c
	  ] matchKey	, 
} options {lengthOf =i32 u = 00;
    }
")).
Eval vm_compute in ("<<<M674>>>" ++ check (runes_of_ascii "
packet chars
{ @tag(
    //	t
    007 )  @rightPad
( )  int64 Header`// not a comment` ,	}
")).
Eval vm_compute in ("<<<M1463>>>" ++ check (runes_of_ascii "packet
T
{ match repeatCount as	calculatedFrom
{ [65535 ] ]	: As	,
} ,}
// trailing space 
")).
Eval vm_compute in ("<<<M1512>>>" ++ check (runes_of_ascii "packet
T
{ matc%h repeatCount as	calculatedFrom
{ [65535 ]	: As	,
} ,}
// trailing space 
")).
Eval vm_compute in ("<<<M1489>>>" ++ check (runes_of_ascii "packet
T
{ match repeatCount as	calculatedFrom
{ [65535 ]	: As	,
} },
// trailing space 
")).
Eval vm_compute in ("<<<M2954>>>" ++ check (runes_of_ascii "packet A {
  match k as n {
    [""a"", 22, ""c c"", 4, ""e"", 66, ""g"", 8] : B
    2 : C
  },
}")).
Eval vm_compute in ("<<<M2923>>>" ++ check (runes_of_ascii "packet A {
  match k as n {
    [""a"", ""bb"", ""c c"", ""d"", ""e"", ""f""] : B,
    2 : C
  },
}")).
Eval vm_compute in ("<<<M3714>>>" ++ check (runes_of_ascii "packet A {
    match k as n {
        [""a"", 22, ""c c"", 4] : B,
        2 : C,
    },
}")).
Eval vm_compute in ("<<<M1727>>>" ++ check (runes_of_ascii "options{  lengthOf i16//x
=;
    BodyLength = 0 ; pack
= false;
    A = char[ 3 ] }")).
Eval vm_compute in ("<<<M1750>>>" ++ check (runes_of_ascii "options{  lengthOf =//x
i16;
    BodyLength =  ; pack
= false;
    A = char[ 3 ] }")).
Eval vm_compute in ("<<<M1445>>>" ++ check (runes_of_ascii "packet
T
{ match repeatCount as	int64
{ [65535 ]	: As	,
} ,}
// trailing space 
")).
Eval vm_compute in ("<<<M983>>>" ++ check (runes_of_ascii "MetaData float
    { MetaDataX
i8i8	`it's` ,} packet x_y_z { } packet float{ }")).
Eval vm_compute in ("<<<M3262>>>" ++ check (runes_of_ascii "MetaData Foo { zchar[ 0 ] matchKey , }
// c
options { lengthOf = i32 u = 00 ; }")).
Eval vm_compute in ("<<<M127>>>" ++ check (runes_of_ascii "options {	string_ =u32 ;
//x
// `tick` ""quote"" 'q'
options1 = ""`tick`"" ;
} 	 ")).
Eval vm_compute in ("<<<M202>>>" ++ check (runes_of_ascii "MetaData i64_
    { lengthOf tag ,
char[] falsey `a\`
/// triple
//	t
,}
")).
Eval vm_compute in ("<<<M2902>>>" ++ check (runes_of_ascii "packet A {
  match k as n {
    [""a"", 22, ""c c"", 4] : B
    2 : C
  },
}")).
Eval vm_compute in ("<<<M2888>>>" ++ check (runes_of_ascii "packet A {
  match k as n {
    [""a"", 22, ""c c""] : B,
    2 : C
  },
}")).
Eval vm_compute in ("<<<M4082>>>" ++ check (runes_of_ascii "  packet A

{ B

b  `%`
,	B
    `%` ,	repeat
    B
bs
    `%`
,  }
")).
Eval vm_compute in ("<<<M3402>>>" ++ check (runes_of_ascii "root packet P {
    u8 s_u8,
    repeat u8 r_u8,
    u16 b_len,
}
")).
Eval vm_compute in ("<<<M1481>>>" ++ check (runes_of_ascii "packet
T
{ match repeatCount as	calculatedFrom
{ [65535 ]	: As")).
Eval vm_compute in ("<<<M2709>>>" ++ check (runes_of_ascii "zchar[ @calculatedFrom( float32 @calculatedFrom( uint64 u8 as")).
Eval vm_compute in ("<<<M543>>>" ++ check (runes_of_ascii "  packet MetaDataX
{ body, @tag(
    00
)
options1`a\`
,
}")).
Eval vm_compute in ("<<<M4426>>>" ++ check (runes_of_ascii "MetaData i64_ {
    lengthOf tag,
    char[] falsey `a\`,
}")).
Eval vm_compute in ("<<<M1545>>>" ++ check (runes_of_ascii "// 50% %s
packet	a1
    { zchar[
// a // b
// 50% %s
007")).
Eval vm_compute in ("<<<M1811>>>" ++ check (runes_of_ascii "options{  lengthOf =//x
i16;
    BodyLength = 0 ; pac")).
Eval vm_compute in ("<<<M3201>>>" ++ check (runes_of_ascii "packet A { B { // a
 u8 x, // b
 } // c
 , // d
 }")).
Eval vm_compute in ("<<<M1451>>>" ++ check (runes_of_ascii "packet
T
{ match repeatCount as	calculatedFrom")).
Eval vm_compute in ("<<<M2806>>>" ++ check (runes_of_ascii "options f64 [ = @tag( [ @lengthOf( char @tag(")).
Eval vm_compute in ("<<<M3046>>>" ++ check (runes_of_ascii "MetaData M {
    u8 x `x
`,
    T t `x
`,
}")).
Eval vm_compute in ("<<<M3584>>>" ++ check (runes_of_ascii "  packet A {u8 x

    `x
`

    ,

} ")).
Eval vm_compute in ("<<<M2357>>>" ++ check (runes_of_ascii "MetaData
Foo Foo {Header //
pack ,	} 	 ")).
Eval vm_compute in ("<<<M2567>>>" ++ check (runes_of_ascii "packet A { repeat u8 x @lengthOf(y), }")).
Eval vm_compute in ("<<<M3892>>>" ++ check (runes_of_ascii "root packet u128 {
    chars `doc`,
}")).
Eval vm_compute in ("<<<M4394>>>" ++ check (runes_of_ascii "
options { 

// c

u8x
	= false 
}
")).
Eval vm_compute in ("<<<M2592>>>" ++ check (runes_of_ascii "packet A { string x @lengthOf(y) }")).
Eval vm_compute in ("<<<M1040>>>" ++ check (runes_of_ascii "  root  packet T { // " ++ [128512]%N ++ runes_of_ascii " emoji
}")).
Eval vm_compute in ("<<<M2632>>>" ++ check (runes_of_ascii "packet A { @leftPad('0' u8 x, }")).
Eval vm_compute in ("<<<M3119>>>" ++ check (runes_of_ascii "packet A {
 u8 x `d" ++ [8192]%N ++ runes_of_ascii "`, // c" ++ [8192]%N ++ runes_of_ascii "
}")).
Eval vm_compute in ("<<<M34>>>" ++ check (runes_of_ascii "options
    //	t
    { //x
}")).
Eval vm_compute in ("<<<M1739>>>" ++ check (runes_of_ascii "options{  lengthOf =//x
i16")).
Eval vm_compute in ("<<<M2762>>>" ++ check (runes_of_ascii "gD0;l(C""k/[A#,dG_9#{X=RoI<")).
Eval vm_compute in ("<<<M2604>>>" ++ check (runes_of_ascii "packet A { B { u8 x, } }")).
Eval vm_compute in ("<<<M459>>>" ++ check (runes_of_ascii "// `tick` ""quote"" 'q'
")).
Eval vm_compute in ("<<<M3180>>>" ++ check (runes_of_ascii "packet A {
}// a// b")).
Eval vm_compute in ("<<<M2059>>>" ++ check (runes_of_ascii "MetaData BodyLength")).
Eval vm_compute in ("<<<M2734>>>" ++ check (runes_of_ascii "|\PcZ#sQ r=2-DMj1}")).
Eval vm_compute in ("<<<M3163>>>" ++ check (runes_of_ascii "// c" ++ [8203]%N ++ runes_of_ascii "
packet A {
}")).
Eval vm_compute in ("<<<M3110>>>" ++ check (runes_of_ascii "packet A {
}// c" ++ [5760]%N)).
Eval vm_compute in ("<<<M2780>>>" ++ check (runes_of_ascii "u8 zchar[ ; true")).
Eval vm_compute in ("<<<M2846>>>" ++ check (runes_of_ascii "@tag( char[ as")).
Eval vm_compute in ("<<<M1431>>>" ++ check (runes_of_ascii "packet
T
{")).
Eval vm_compute in ("<<<M2824>>>" ++ check ([65533; 26]%N ++ runes_of_ascii "h%" ++ [20]%N ++ runes_of_ascii "B" ++ [65533]%N ++ runes_of_ascii "k" ++ [65533]%N)).
Eval vm_compute in ("<<<M2719>>>" ++ check (runes_of_ascii "f:eX?hH")).
Eval vm_compute in ("<<<M2434>>>" ++ check (runes_of_ascii "char[")).
Eval vm_compute in ("<<<M3126>>>" ++ check (runes_of_ascii "// c" ++ [8232]%N)).
Eval vm_compute in ("<<<M2690>>>" ++ check (runes_of_ascii "
	 ")).
Eval vm_compute in ("<<<M2557>>>" ++ check (runes_of_ascii "a" ++ [12]%N ++ runes_of_ascii "b")).
Eval vm_compute in ("<<<M16>>>" ++ check (runes_of_ascii "
")).
