From FP Require Import Lexer Parser ShowPT Digest Formatter.
From Coq Require Import String List NArith.
Import ListNotations.
Open Scope string_scope.
Set Printing Width 100000000.
Set Printing Depth 100000000.
Definition show_fres (r : fres) : string :=
  match r with
  | FOk s => "OK:" ++ sh_escaped s ""
  | FErr s => "ERR:" ++ sh_escaped s ""
  | FPanic p => "PANIC:" ++ p
  end.
Definition check (rs : list rune) : string := digest (show_fres (format_res rs)).
Definition full (rs : list rune) : string := show_fres (format_res rs).
Eval vm_compute in ("<<<M3853>>>" ++ check (runes_of_ascii "
root
packet i64_
    {

    u64

Z9_
	@lengthOf(// packet A { u8 x, }
	  uint8x 
)  `
` ,
    repeat	zchar

    x 
,
	match 
Packet

as a1  {

    [
""a	b"" ]

    : packetx
[  255

    ,

""x y""
,""" ++ [28040; 24687]%N ++ runes_of_ascii """ 
, 
10  ,
	""it's""  , 4294967296
, """" 
]
:

falsey	,
	} , 
rootA{ 
repeat
charz {// " ++ [128512]%N ++ runes_of_ascii " emoji
  match

    x
as 
a1

{ 10: 
metadata //
	,[

""{,}""

,  00 ,
""a	b""
,
    007, ""abc""
    ,  ""// no comment"" ]:  int ,
3
    :	tag	,255
    :

x ,
""{,}""  : Z9_

    ,  } , }
	,
    //
	body// @lengthOf(
	{
    repeat  roots
{
    f32 i8i8/// triple
	@calculatedFrom(

""a\\"" )
	`line1
line2`
	,
    }

,
i8	leftPad
`doc`
,
}
    ,  o
@calculatedFrom(  """ ++ [28040; 24687]%N ++ runes_of_ascii """	)  `" ++ [28040; 24687; 31867; 22411]%N ++ runes_of_ascii "`
    ,
    }
, 
match 
calculatedFrom
    as chars

{

// " ++ [27880; 37322]%N ++ runes_of_ascii "
      10: i64_
    , }

,

@lengthOf( i8i8 
) @tag(
	3 )

    match

    Logon
as 
o
{[ 
""""
	// a // b
  	, //

42	,  ""it's""
,

""" ++ [28040; 24687]%N ++ runes_of_ascii """

,

""""

    , """ ++ [28040; 24687]%N ++ runes_of_ascii """]
	:  tag , 
}	// " ++ [27880; 37322]%N ++ runes_of_ascii "
, 	 // `tick` ""quote"" 'q'
    zchar[ 
0123456789
]
    rootA @calculatedFrom( 
""abc""
) ,

    zchar[4294967296 ]
    Z9_ ,
zchar[
    65535  
  // " ++ [128512]%N ++ runes_of_ascii " emoji

// " ++ [128512]%N ++ runes_of_ascii " emoji
    ] Header
@lengthOf(trueish

)  ,@tag( 
// `tick` ""quote"" 'q'
    //x
	0123456789	// " ++ [27880; 37322]%N ++ runes_of_ascii "
)
	repeat

trueish	{float

{ 
repeat	char[ 
10 ] metadata
	,
    f32

    float

,  As
@calculatedFrom(
	""" ++ [233]%N ++ runes_of_ascii "t" ++ [233]%N ++ runes_of_ascii """)

    ,	tag @calculatedFrom(
""CRC32""  // trailing space 
	)
	`line1
line2`,}

    ,}  ,

}
packet  packetx{
char[]
options1 , 
        //
	//x
	@calculatedFrom(
    """ ++ [28040; 24687]%N ++ runes_of_ascii """
)
	@tag(1 

/// triple
	//
      ) match  lengthOf
as

    calculatedFrom {

    ""packet""
	:
	//
      uint8x 	 /// triple
[
	""" ++ [128512]%N ++ runes_of_ascii """]: trueish,
[ ""CRC32""

    ,

    3 ]
    : 
uint8x 
,	[

    ""\n"" , ""{,}""]  //
:

metadata ,

    }

    , 
@tag(

    00 
)match
    Foo	as

    falsey

{ 0

:
pack,}
,
@calculatedFrom( ""{,}""

    )repeat  Logon
`" ++ [233]%N ++ runes_of_ascii "`

,@lengthOf(stringy
	)
A@lengthOf(pack ),@tag(	00 	 // packet A { u8 x, }
    	) match
u8x
	as Packet{65535
: _x  ,
    } , 
      // a // b
@rightPad

( 
)leftPad@calculatedFrom(  // packet A { u8 x, }

	"""" )`
`	/// triple
,

    @calculatedFrom(
	""""
    )@tag(// trailing space 
	4294967296 
) @tag(
7 )
zchar[ // `tick` ""quote"" 'q'
10 
]asx

`tab	here`
,	@lengthOf(	options1) 
  //
	f32

packetx, 
    // trailing space 
    calculatedFrom
{ zchar[ 0 
]
	Packet

, 
}
    , // @lengthOf(
      } MetaData u128 
{
}  packet

    o 
{@lengthOf(

    lengthOf)
    tag body`line1
line2`

    , 
packetx ,	repeat uint32

    chars
,
match	pack as

u128
    {""it's"":a1 ,[
""x y"" ,  ""it's"" 
]
    :
	packetx 
  /// triple
	  // @lengthOf(
		,  }
    ,@leftPad
(  /// triple
  )@calculatedFrom(	""packet""
)
    //
      @calculatedFrom(
""1"" )
    match i8i8
as	Pad
	{ 
[ 1
	,
4294967296 , 

    // `tick` ""quote"" 'q'
	//x
    	""\n""
]	:  T,
}, tag  Foo

,
A
{ repeat 
// a // b
  // " ++ [128512]%N ++ runes_of_ascii " emoji
  pack	,	// `tick` ""quote"" 'q'

  repeat T{string	asx
@calculatedFrom(

    ""// no comment""

)
	`
` //	t
	, char[] x

    @lengthOf(
	trueish

    )	// a // b
,

zchar[ 
007 ]
body
@lengthOf( A )
`two words`  ,	}
, repeat uint8x

    { match
    leftPad
    as
A {[ 
""\" ++ [233]%N ++ runes_of_ascii """ ]
:
metadata , }  // @lengthOf(
	  , repeat
MetaDataX  //
	int
`u8 x,` , 
match  rootA
as 
Foo
{

""x y""
: Logon ,
}	,
	match MetaDataX

as
	// c

  metadata{
	4294967296 // @lengthOf(
  :_x ,[
""{,}""	,  """" // `tick` ""quote"" 'q'
  ,
""1""  ,// " ++ [128512]%N ++ runes_of_ascii " emoji
4294967296

    ,
""\" ++ [233]%N ++ runes_of_ascii """, ""abc"" 
    // packet A { u8 x, }
	] :
roots, [
    ""{,}"" 	 // trailing space 
,
	""" ++ [128512]%N ++ runes_of_ascii """	]
:
    Z9_
	,
""a	b""
    :

trueish

    ,

""\" ++ [233]%N ++ runes_of_ascii """:int [  0 , 
1
]
:  i64_	,

    }
,

    } // @lengthOf(
  ,
},
repeat chars
    u8x
, 
Logon int  `u8 x,`
    , repeat packetx
`a\`  ,

}")).
Eval vm_compute in ("<<<M4582>>>" ++ check (runes_of_ascii "packet f32a {
    @calculatedFrom(""packet"")
    @tag(00)
    @leftPad('0')
    rootA,
    @tag(65535)
    string roots @lengthOf(MetaDataX) `" ++ [233]%N ++ runes_of_ascii "`,
    @rightPad()
    zchar[10] matchKey @lengthOf(float),
    @rightPad()
    roots MetaDataX,
    u128,// c
    match len as BodyLength {
        """ ++ [128512]%N ++ runes_of_ascii """ : float,
        [
            4294967296, 00, 0123456789, 65535, 7,
            ""`tick`"", ""it's"", ""\n""
        ] : calculatedFrom,
        [007, ""packet"", ""\" ++ [233]%N ++ runes_of_ascii """] : _x,
        [0123456789, """ ++ [128512]%N ++ runes_of_ascii """, ""a\""b""] : _x,
        65535 : As,
        255 : stringy,
    },
    calculatedFrom {
        char[] matchKey @calculatedFrom(""" ++ [128512]%N ++ runes_of_ascii """),
        u32 u8x @lengthOf(i8i8),
        f32a options1 `line1
        line2`,
        float64 rootA,
    },
    @tag(0)
    @lengthOf(Z9_)
    T Foo `" ++ [233]%N ++ runes_of_ascii "`,
    match T as Packet {
        3 : u8x,
        4294967296 : matchKey,
        """ ++ [233]%N ++ runes_of_ascii "t" ++ [233]%N ++ runes_of_ascii """ : Foo,
        ""a\""b"" : repeatCount,
        7 : stringy,
    },
    @leftPad('\x00')
    repeat pack,
}

packet x {
    @lengthOf(falsey)
    repeat int32 a1,
    @leftPad()
    repeat f32a,
    match Foo as calculatedFrom {
        ""x y"" : calculatedFrom,
        7 : len,
        ""abc"" : charz,
    },
    uint8x,
    @lengthOf(o)
    // " ++ [27880; 37322]%N ++ runes_of_ascii "
    repeat string_ {
        zchar[7] Packet @calculatedFrom(""x y""),
        repeat string charz,
        float64 _x @calculatedFrom(""1""),
    },
    crc,
    char[65535] metadata @calculatedFrom(""\n"") `" ++ [28040; 24687; 31867; 22411]%N ++ runes_of_ascii "`,
    repeat uint64 msg_type `{ , }`,
    char[1] charz,
    @rightPad('\x00')
    repeat i32 o `crlf
    line`,
}

MetaData i8i8 {
    rootA packetx `doc`,
    x As,
}

//
root packet u128 {
}

packet falsey {
    u @lengthOf(i8i8),
    @lengthOf(u)
    f32 Header,
    @calculatedFrom(""`tick`"")
    stringy @calculatedFrom(""" ++ [233]%N ++ runes_of_ascii "t" ++ [233]%N ++ runes_of_ascii """) `two words`,
    char[65535] string_ @lengthOf(lengthOf),
    Pad u128,
    Packet `
    `,// `tick` ""quote"" 'q'
    @calculatedFrom(""abc"")
    char[00] roots `line1
    line2`,
    @tag(7)
    char[] trueish @calculatedFrom(""\n""),
    @calculatedFrom(""packet"")
    @lengthOf(As)
    char[3] charz @lengthOf(options1),
    u32 _x @calculatedFrom(""a\\"") `u8 x,`,
}")).
Eval vm_compute in ("<<<M239>>>" ++ check (runes_of_ascii "packet
//
// " ++ [128512]%N ++ runes_of_ascii " emoji
body	{ @calculatedFrom(""" ++ [233]%N ++ runes_of_ascii "t" ++ [233]%N ++ runes_of_ascii """
) body {o@calculatedFrom(  """ ++ [233]%N ++ runes_of_ascii "t" ++ [233]%N ++ runes_of_ascii """ ), }
,  char  i8i8 @lengthOf(	int ) `doc` ,	@rightPad ( )
char[0 ] tag@lengthOf( repeatCount ), @calculatedFrom("""" ) x
@calculatedFrom(""" ++ [28040; 24687]%N ++ runes_of_ascii """ )
, @calculatedFrom( """"
)// c
Packet `u8 x,`
    , // trailing space 
string x_y_z, string_ charz
    `doc` ,	match packetx as
string_ {
    00  : asx , [  ""\n""] // " ++ [128512]%N ++ runes_of_ascii " emoji
: float , [""" ++ [28040; 24687]%N ++ runes_of_ascii """
// @lengthOf(
/// triple
, 3
] :
    Foo, [ 0123456789 ,  ""1""
] : o	""\" ++ [233]%N ++ runes_of_ascii """
    : _x  ,  0123456789
: matchKey
} , @rightPad (
' ')stringy
    { match calculatedFrom as o	{// c
1
:
x_y_z
, 007:pack
    ,3 : asx
    // trailing space 
    , // " ++ [27880; 37322]%N ++ runes_of_ascii "
} ,
} , @calculatedFrom( """"
    ) @tag(  4294967296 ) repeat i64// packet A { u8 x, }
chars  ,	} packet roots { }root
packet	rootA { @tag( 255 ) pack
`it's`, @lengthOf( f32a ) @tag(
    // a // b
    1 )
    @tag(
    7)
    // " ++ [128512]%N ++ runes_of_ascii " emoji
    Foo	@calculatedFrom(
//x
//
""" ++ [128512]%N ++ runes_of_ascii """ ) , repeat calculatedFrom { string leftPad
    `doc` ,repeat
crc{ pack @calculatedFrom( ""\" ++ [233]%N ++ runes_of_ascii """) ,
    } , }, string_ { match
i64_ as u8x  { 0 :
    _x
, } ,
}	, @lengthOf( u128
    ) // trailing space 
match asx as charz
{ [ """" ,	4294967296 ] : A,// trailing space 
1 : options1 , 4294967296 :  pack 42 :charz
, [ ""`tick`"" , // a // b
""x y"" /// triple
, // " ++ [27880; 37322]%N ++ runes_of_ascii "
255
] // packet A { u8 x, }
: stringy ,} ,
@rightPad (' ' ) @lengthOf(// c
Packet
    ) repeat uint8x trueish ,
} MetaData i8i8
    { zchar[
10]Z9_ , zchar[ 0 ] Header
    `a\`, stringy roots // " ++ [27880; 37322]%N ++ runes_of_ascii "
,}
    packet options1 // c
{
    char[10
] Pad @calculatedFrom( ""\n"") `// not a comment` , roots , @calculatedFrom( ""x y""
)	zchar, @rightPad ( '0' )
    repeat
string
//x
//
roots`say ""hi""` ,}
")).
Eval vm_compute in ("<<<M4279>>>" ++ check (runes_of_ascii "// top
      options// c0
{ 	 // c1
  StringPrefixLenType
    = // c3a
    // c3b
	u8 	 // c4a

// c4b
; 
        // c5
  ArrayPrefixLenType 
=	u32 	 // c8
; }	// c10
    packet Quote // c12
    {  // c13a
	  // c13b
  	u32 	 // c14a
	// c14b

Ref// c15a
// c15b
    , InNote74{ 
      // c18
  u8

    // c19

  pad0	// c20a
    // c20b
    , }
	    // c22
, 
}

    // c24
	packet	// c25a
	// c25b

Ack 
	// c26
  {// c27a
      // c27b
repeat	// c28a

// c28b

  string OrderId 	 // c30a
		// c30b
    ,// c31
  }
// c32

packet	// c33
  Logout
    { 	 // c35a
		// c35b
zchar[
7
    // c37
		]// c38a

  // c38b
  venue,
	// c40

	char[ 	 // c41
      12
    // c42
  ]

// c43
    Px

    ,  
  // c45
string count
,
    // c48
      char[]Tail

    // c50

	, 	 // c51a
      // c51b
    char[] Qty 	 // c53
    ,
Quote 	 // c55a
// c55b
  ,
    } // c57a
	  // c57b
root
        // c58
      packet  // c59a
// c59b

	Trade// c60
	{
	// c61
zchar[ // c62
	  2 
        // c63

  ]// c64
  	price 	 // c65a
  // c65b
  , 
// c66
    	u32

x 	 // c68a
    // c68b
		,
u32 
    // c70

  lastPx@lengthOf(// c72a

  // c72b

Body 

    // c73
) 	 // c74a
// c74b
,  // c75a
	// c75b
  	match  x 	 // c77a
      // c77b

  as
Body

    {  
      // c80
148// c81
	: // c82a

  // c82b
Ack  
      // c83
,	// c84a
    // c84b
	171
	    // c85

:Quote

, 	 // c88a
    // c88b
  15// c89
	:
	Logout	// c91
  ,

    } 
    // c93
    ,	// c94
	}")).
Eval vm_compute in ("<<<M875>>>" ++ check (runes_of_ascii "packet Z9_ {  @tag( 4294967296
) char[255
    ]msg_type @calculatedFrom(
    ""abc""	),
uint16 x  `" ++ [28040; 24687; 31867; 22411]%N ++ runes_of_ascii "`, @rightPad (
'0' ) match len as Logon {
    7 : metadata , ""{,}"": u8x
,[ ""\n"", 65535 ,
65535 ]
// " ++ [128512]%N ++ runes_of_ascii " emoji
// " ++ [27880; 37322]%N ++ runes_of_ascii "
: int
    ,""a\""b"" :	leftPad} , zchar[ 42] rootA, @calculatedFrom(
// @lengthOf(
// " ++ [128512]%N ++ runes_of_ascii " emoji
""a\\"" ) zchar[42] A , Packet// trailing space 
{
    repeat //
u128 {repeat
chars{ tag  BodyLength , float32 calculatedFrom	`doc` ,match x as string_ {
""{,}""
:
x """"
: packetx	, } , }, } /// triple
,  }
// trailing space 
/// triple
,
    // `tick` ""quote"" 'q'
    @rightPad( ) options1
`u8 x,`
, repeat//
i32 repeatCount,@lengthOf(Foo )@calculatedFrom( ""packet"" )int32 As
    @lengthOf( Pad )
, }
packet As {@tag(  65535 /// triple
)int asx
    `line1
line2` , @calculatedFrom( """ ++ [28040; 24687]%N ++ runes_of_ascii """) @rightPad (
// " ++ [27880; 37322]%N ++ runes_of_ascii "
//	t
)int32
    // c
    leftPad
`" ++ [28040; 24687; 31867; 22411]%N ++ runes_of_ascii "` ,char[] zchar , string x_y_z
,  f64
// a // b
/// triple
repeatCount
    @calculatedFrom(
// trailing space 
// @lengthOf(
""x y"") ,
    @leftPad () match falsey as
int  { """ ++ [28040; 24687]%N ++ runes_of_ascii """ : MetaDataX 007
: msg_type , ""CRC32""
: Header ,//
4294967296 : charz , 255
:trueish
    1  : Header , } ,@lengthOf(// packet A { u8 x, }
leftPad // c
)_x , }
packet chars //
{match string_ as A { /// triple
""`tick`""
: Foo ,  3:trueish
    ,} ,
match Header
    as	repeatCount{ """ ++ [128512]%N ++ runes_of_ascii """
: asx ,42	:leftPad , } , }
")).
Eval vm_compute in ("<<<M3923>>>" ++ check (runes_of_ascii "packet 
As	// trailing space 
    	{
	match

    asx
    as Header{10 :  Packet
    ""abc"":u
	,
	42

    :

Header,
    [ 
""a	b""

    ,
	255
	,
	42
]	// trailing space 
  	:
	leftPad

    00 :
	int	,
[
""x y""
, 7]

:

    packetx
	,

},

    repeat zchar[ 
007	] options1  , 
body	// @lengthOf(
MetaDataX
    // " ++ [27880; 37322]%N ++ runes_of_ascii "
    ,

    @leftPad

    (

)	string  x_y_z

    ,

@lengthOf( 
x

    )
    @rightPad ( '0'
)match

T

as	tag  {  ""CRC32"":
	stringy ,
	00
    :	//x

packetx
	[
    // `tick` ""quote"" 'q'
  255
,""packet""	// a // b
  ] : 
A

, [ 255
,
	    //x

//	t

  1
    //	t
  // @lengthOf(

  ,  
  // @lengthOf(
    	""abc"" 
,  1 
    // " ++ [27880; 37322]%N ++ runes_of_ascii "
  //	t
	,

""1"" ,	""" ++ [233]%N ++ runes_of_ascii "t" ++ [233]%N ++ runes_of_ascii """
    ,	10
    ,	// packet A { u8 x, }

	00
] :
i8i8 ""\n""  // a // b
	:

_x  , }
    ,MetaDataX
{
match

    trueish 
as 
uint8x
{1
    :
	x
,3  : a1, 
""a\""b""  : 
u128  , } ,

}  ,float64 
calculatedFrom@calculatedFrom(  """ ++ [28040; 24687]%N ++ runes_of_ascii """
        //	t

//x
  )// c

`u8 x,`
    ,
	u64 float @lengthOf(// " ++ [128512]%N ++ runes_of_ascii " emoji

matchKey )
    ,}

    options {  metadata=//x
	""{,}"" 	 //
	a1
	= u8
;falsey
    =
1  ;

_x  =
	zchar[ 
65535 ] 
Header
=
    ' '

    } MetaData
T 
{
    }
MetaData

    Z9_
{
string
// " ++ [27880; 37322]%N ++ runes_of_ascii "
  //	t
f32a
,len zchar
,  }
")).
Eval vm_compute in ("<<<M3613>>>" ++ check (runes_of_ascii "options {
    StringPrefixLenType = u16;
    ArrayPrefixLenType = u8;
    FixedStringPadFromLeft = true;
    FixedStringPadChar = ' ';
}
packet Quote {
    int64 OrderId,
    char[] Ref,
    @leftPad('0') char[5] price,
}
packet Heartbeat {
    zchar[3] venue,
    string Flags,
}
packet Trade {
    repeat InTag787 {
        i32 venue,
        char[5] sym,
        repeat InPx98 {
            char[11] Qty,
            Heartbeat,
            char[] price,
            u32 x,
            float64 count,
            repeat Quote,
        },
        zchar[7] Note,
        repeat char[1] Tail,
    },
    repeat char[2] seqNo,
    InTail55 {
        repeat Quote,
        string msgKind,
        InPx18 {
            char[] count,
            repeat Quote,
            uint16 Qty,
        },
        char[4] seqNo,
        repeat Heartbeat,
        repeat string sym,
    },
    repeat Quote,
    Heartbeat,
    @leftPad(' ') char[10] OrderId,
}
root packet Fill {
    Heartbeat,
    uint32 count,
    u8 OrderId,
    match OrderId as Body {
        96 : Quote,
        195 : Trade,
        187 : Heartbeat,
    },
    u32 venue @calculatedFrom(""CR\
C32""),
}
")).
Eval vm_compute in ("<<<M3612>>>" ++ check (runes_of_ascii "options {
    StringPrefixLenType
	=u16	; ArrayPrefixLenType	= u8
    ; FixedStringPadFromLeft
= true  ;FixedStringPadChar
    =' '
	;
	}	packet Quote
	{

int64
    OrderId 
,	char[]

    Ref
	,	@leftPad
(  '0'	) char[ 
5
]price ,
}
packet
    Heartbeat{zchar[

3
    ]
venue  ,
string
Flags

,

}packet
Trade  {  repeat

    InTag787 { i32
    venue,
char[

5	]	sym,
repeat 
InPx98
{
	char[11

    ]
Qty
, Heartbeat
, char[] price
    ,

    u32
x	,
    float64
	count

    , repeat
    Quote
    ,  }, zchar[

7 ]
	Note, repeat char[

    1
]
	Tail , } ,	repeat 
char[
    2 ]	seqNo 
, 
InTail55  {repeat	Quote 
, string msgKind
,
    InPx18  { char[] count

    ,
repeat Quote
, uint16
Qty ,  }

,
    char[
4 ] seqNo
    , 
repeat 
Heartbeat

, repeat

    string 
sym, }
, repeat Quote
,
    Heartbeat,

@leftPad
    ( 
' ' ) char[ 
10

] OrderId

    ,	}
    root packet	Fill
{ 
Heartbeat  ,
	uint32
	count
,

    u8  OrderId , match	OrderId

as Body
{96
: 
Quote, 195:	Trade  , 187

:Heartbeat  ,

} , u32
venue
    @calculatedFrom( 
""CRC32"")

,
}
")).
Eval vm_compute in ("<<<M569>>>" ++ check (runes_of_ascii "root packet//	t
string_
{ @lengthOf(
    // trailing space 
    matchKey
    ) repeat string_ matchKey , char[
007 ] i64_
    @calculatedFrom(""packet"" ),
@tag(
255)
stringy
    len
, @leftPad (
    '\x00')  i8 matchKey
, match options1 as As {0123456789 : x
    , 10 : u8x ,[4294967296 // `tick` ""quote"" 'q'
] :rootA ,
65535 : charz ,
3	:
int} , } root packet u8x
{ int16  x_y_z,// trailing space 
@calculatedFrom(/// triple
""abc"" // trailing space 
) @leftPad (
' ' ) @tag(  3 ) match Packet  as leftPad /// triple
{ ""// no comment"" : float	,} , repeat
    string_ Packet , string zchar
,
    /// triple
    Packet `
` ,  float {int8 rootA @lengthOf(
    // packet A { u8 x, }
    x_y_z
    ) ,
    // " ++ [128512]%N ++ runes_of_ascii " emoji
    }, Header @lengthOf( stringy
    //	t
    )
,
    // @lengthOf(
    string /// triple
Logon @calculatedFrom(""// no comment"" ), }MetaData
// @lengthOf(
// `tick` ""quote"" 'q'
options1 {Foo stringy `" ++ [28040; 24687; 31867; 22411]%N ++ runes_of_ascii "` , Packet i64_ `a\`
, char[
4294967296 ] lengthOf , char[]
_x , i64 Packet , zchar[
    255] x
, }
")).
Eval vm_compute in ("<<<M4348>>>" ++ check (runes_of_ascii "

  packet
    Pad	// " ++ [27880; 37322]%N ++ runes_of_ascii "
{ @tag( 65535

)

repeat
    char[ 
      //	t
	4294967296] o
`u8 x,`
, @calculatedFrom( ""x y"" ) metadata  // c

@lengthOf(

    repeatCount )`tab	here`
,}
	packet
    u128

{
// packet A { u8 x, }
		// " ++ [128512]%N ++ runes_of_ascii " emoji
	repeat	// " ++ [128512]%N ++ runes_of_ascii " emoji
  zchar[
10
] _x // " ++ [27880; 37322]%N ++ runes_of_ascii "
,  /// triple
  } 
options {	/// triple
	msg_type	=
true; }	packet
	tag

{ 	 // c
  @tag(  7
	)  i32 
f32a@lengthOf(u8x 
) `two words` ,string
	Foo 
@lengthOf(Foo
)
    , @rightPad
('0' )  match 
As as
    // @lengthOf(
    // `tick` ""quote"" 'q'
  crc  // a // b
    {  """" :
    float
, //	t
		}
, 
repeat
	i16 
i8i8 , @rightPad /// triple
(
'0' 
) 
repeat
    u128{ i64  tag
@calculatedFrom(
	""" ++ [28040; 24687]%N ++ runes_of_ascii """
)  ,

    i8i8

    @calculatedFrom(// " ++ [27880; 37322]%N ++ runes_of_ascii "
	""{,}"" )
	`it's`,repeat string

rootA 	 /// triple
	, } ,  repeat

    string chars ,
asx	,
match

calculatedFrom

as
calculatedFrom
	{	""a\""b""
:
    Logon ""a	b"":asx  }

,char zchar  @calculatedFrom( ""1""
	)`say ""hi""` ,
    }
")).
Eval vm_compute in ("<<<M712>>>" ++ check (runes_of_ascii "root packet //
Pad {
    char[
00
]
stringy @calculatedFrom( ""\" ++ [233]%N ++ runes_of_ascii """ ) `it's`,zchar{
falsey
Header // @lengthOf(
`two words` , Packet
@lengthOf( int ) `` ,charz
asx , u32 A , }	, string
    metadata, repeat
char[
1 ]	crc`
`
, Foo `it's` ,}packet
    // c
    rootA
    { repeat
    i32 matchKey , repeat x_y_z `// not a comment`, roots
    @calculatedFrom(
""\n"" ),
x_y_z {
    zchar[ 42]
// packet A { u8 x, }
// " ++ [27880; 37322]%N ++ runes_of_ascii "
charz@lengthOf( u128 ) // " ++ [128512]%N ++ runes_of_ascii " emoji
, leftPad`line1
line2` ,}
, falsey crc`crlf
line`,
    repeat
// " ++ [128512]%N ++ runes_of_ascii " emoji
// c
char
i64_ `a\` , }
    packet Packet { repeat //	t
i64_{ repeat metadata  { repeatCount `{ , }`,  int16// c
o , },
    //	t
    repeat uint64	A , float @calculatedFrom(
""a\""b""
    )
, zchar[	7 ]
T , }
, @leftPad
( '\x00')
    repeatCount	`a\` , } MetaData o // " ++ [27880; 37322]%N ++ runes_of_ascii "
{
    // a // b
    int
// packet A { u8 x, }
// @lengthOf(
repeatCount`line1
line2` ,} options	{ msg_type
=
00//x
}")).
Eval vm_compute in ("<<<M256>>>" ++ check (runes_of_ascii "packet
Pad // " ++ [27880; 37322]%N ++ runes_of_ascii "
{ @tag(	65535 )repeat char[
    //	t
    4294967296 ] o
    `u8 x,`  ,
@calculatedFrom(""x y"" )
metadata // c
@lengthOf(repeatCount )`tab	here`	,} packet u128 {
// packet A { u8 x, }
// " ++ [128512]%N ++ runes_of_ascii " emoji
repeat // " ++ [128512]%N ++ runes_of_ascii " emoji
zchar[
10 ]_x// " ++ [27880; 37322]%N ++ runes_of_ascii "
, /// triple
}
options
{ /// triple
msg_type
= true ;}packet tag {// c
@tag(7 ) i32
f32a @lengthOf( u8x)
`two words`
,
string
Foo  @lengthOf( Foo ) ,
@rightPad(
'0' ) match As as
// @lengthOf(
// `tick` ""quote"" 'q'
crc // a // b
{"""": float , //	t
} , repeat i16 i8i8 , @rightPad/// triple
(
    '0' ) repeat u128
    { i64 tag
@calculatedFrom( """ ++ [28040; 24687]%N ++ runes_of_ascii """ ) ,i8i8
@calculatedFrom( // " ++ [27880; 37322]%N ++ runes_of_ascii "
""{,}""
)`it's` , repeat string
    rootA /// triple
, }, repeat string
chars,
    asx, match calculatedFrom as
calculatedFrom {
    ""a\""b"" :  Logon ""a	b"" : asx } , char zchar @calculatedFrom( ""1""
    )
    `say ""hi""`
    ,  }
")).
Eval vm_compute in ("<<<M4120>>>" ++ check (runes_of_ascii "packet u8x {
    @tag(0)
    match Header as packetx {
        ""\n"" : o,
        0 : Foo,
        4294967296 : rootA,
        255 : i8i8,
    },// `tick` ""quote"" 'q'
    repeat uint8 stringy,
    chars,
    uint64 options1 `say ""hi""`,
    @lengthOf(float)
    string leftPad,
    x body `line1
        line2`,
    @calculatedFrom(""// no comment"")
    uint16 chars @calculatedFrom(""`tick`""),
}

packet Header {
    @calculatedFrom(""\" ++ [233]%N ++ runes_of_ascii """)
    zchar[007] As @lengthOf(Header),
    Header @lengthOf(leftPad) `doc`,
    repeat zchar calculatedFrom,
    @lengthOf(float)
    zchar[0123456789] trueish ``,
    match x as string_ {
        [255] : A,
        ""abc"" : Packet,
        [10, ""`tick`""] : Pad,
    },
}

packet len {
    // " ++ [128512]%N ++ runes_of_ascii " emoji
    i8i8 body,
}

MetaData x {
    float32 Header,
    uint8 A,
    i8i8 o,
}")).
Eval vm_compute in ("<<<M587>>>" ++ check (runes_of_ascii "
packet _x{ metadata
    @lengthOf( i64_ ) , match trueish as
int {
    ["""" ,  255
    ] :
//
// packet A { u8 x, }
T , 65535:zchar ,// c
} , @calculatedFrom(
    ""a\""b"")	match leftPad as// a // b
len{ ""x y""
: Z9_ ,[ 0 ,
007 , ""x y"" ] :
    falsey
    //	t
    , } , }
    root packet
As{
string int , @tag(
    255 )@lengthOf( roots )
@calculatedFrom( """ ++ [128512]%N ++ runes_of_ascii """
    // @lengthOf(
    ) repeat crc
{ repeat char trueish , // " ++ [128512]%N ++ runes_of_ascii " emoji
}
,
    zchar[4294967296 ] options1@calculatedFrom( ""CRC32"" )
,match packetx as
lengthOf
{ ""a\""b"" :
options1 ,
0123456789  : Foo, ""a\\"" : trueish
,3  : string_,""\n"" : zchar
, [	65535 ] : u128
    } ,  @tag( 42) @leftPad
    //x
    (
// `tick` ""quote"" 'q'
// `tick` ""quote"" 'q'
'\x00' ) i16
crc , }packet lengthOf // trailing space 
{ }")).
Eval vm_compute in ("<<<M775>>>" ++ check (runes_of_ascii "
MetaData tag { zchar[
1] repeatCount
    , Header
rootA ,zchar[ // " ++ [128512]%N ++ runes_of_ascii " emoji
3] string_ `two words`
, int8 _x
    ,
    char[
// " ++ [27880; 37322]%N ++ runes_of_ascii "
/// triple
0123456789 ] zchar`
` ,zchar[  4294967296 ]
    // " ++ [27880; 37322]%N ++ runes_of_ascii "
    a1 `` , } root
packet // " ++ [27880; 37322]%N ++ runes_of_ascii "
Pad {@lengthOf( As)
BodyLength { char[] a1 @lengthOf(	Pad ) ,char[]	BodyLength `doc`// @lengthOf(
, }
,  match options1
as	packetx { ""\n"" : i8i8 ,[
""CRC32"",
    //	t
    10 ,//	t
""1"",
65535 ]
// @lengthOf(
// " ++ [27880; 37322]%N ++ runes_of_ascii "
: matchKey 00 :  uint8x,
    3 :repeatCount,  ""\n"" :
tag
    // packet A { u8 x, }
    , // a // b
""x y"" : //
u8x } , @lengthOf( calculatedFrom
    )	msg_type body // " ++ [128512]%N ++ runes_of_ascii " emoji
, }
    options {
// " ++ [27880; 37322]%N ++ runes_of_ascii "
// a // b
T
//x
// @lengthOf(
=
10 ;T = u16	;}packet stringy // trailing space 
{	}
")).
Eval vm_compute in ("<<<M442>>>" ++ check (runes_of_ascii "
packet tag {
float32 repeatCount @calculatedFrom( ""// no comment"") ,}
    packet i64_{
char[00 ] calculatedFrom ,// " ++ [128512]%N ++ runes_of_ascii " emoji
@calculatedFrom( ""packet"" ) i16  Packet ,
    falsey
    { char[]
    // c
    calculatedFrom @lengthOf( stringy )
    // `tick` ""quote"" 'q'
    `` ,}//
, repeat i32 matchKey , repeat char[ 7
    ]/// triple
tag`// not a comment` ,leftPad
{// @lengthOf(
char[]
    i8i8 , }
,  @lengthOf(x_y_z) char[ 3 ] matchKey ``  ,float { char[] chars, repeat
    zchar[  1 ]x_y_z ,
} , i8 x_y_z
//	t
//
,
string asx //
,} root packet
int{  chars @lengthOf(
    Foo	)
`a\`,  repeat
    char[ 0123456789
]
    BodyLength , i8 T
    , @rightPad
(
    ) u64 lengthOf	, }
")).
Eval vm_compute in ("<<<M3915>>>" ++ check (runes_of_ascii "
packet
	float
{

    @leftPad ( ' ' 
)repeat 
metadata falsey
    ,
lengthOf
    matchKey
,int32
	roots, 
int16 Pad  @calculatedFrom(// " ++ [128512]%N ++ runes_of_ascii " emoji
	  ""\" ++ [233]%N ++ runes_of_ascii """
    )  , // a // b

	lengthOf @calculatedFrom( ""`tick`"") // c
    `" ++ [28040; 24687; 31867; 22411]%N ++ runes_of_ascii "`  ,@lengthOf(
metadata
) 
i8i8
,@rightPad	( 
    // packet A { u8 x, }
    	//	t
  '0')

    Foo

    , 
    // trailing space 
	  @tag(
	10  //

  )
    chars
`
`
	,
@tag( 7 )
    // " ++ [128512]%N ++ runes_of_ascii " emoji
  @leftPad () repeat zchar[ 255]
u128

,  // c
  } options  {  //	t
	msg_type  = 0
; // @lengthOf(
    u
    =	' '
x_y_z =

    65535  u128	// packet A { u8 x, }
	=
char[]

;zchar

= zchar[	3  ]
    ;

    }")).
Eval vm_compute in ("<<<M3742>>>" ++ check (runes_of_ascii "packet

A { Logon	// @lengthOf(
o	,u8x
    {	// @lengthOf(
      asx// " ++ [27880; 37322]%N ++ runes_of_ascii "
    chars  ,	} 
,

    x	o 
,
    @leftPad()// trailing space 

As 
// c
	//x
@lengthOf(u

), } MetaData

f32a

{
crc Logon,  }root

    packet

    u128 {
	stringy

Logon// " ++ [128512]%N ++ runes_of_ascii " emoji
	`a\`
, 
@calculatedFrom( 	 // c
""1"" 
)@leftPad 
  // a // b
  (

'\x00'
	)	@tag(

    255
)	int64

stringy@lengthOf(
    lengthOf//	t
	)
`line1
line2`

    ,

    rootA 
`
`

,
@calculatedFrom(	""a	b"")	// packet A { u8 x, }
    o
@calculatedFrom(
    ""`tick`""
)	// @lengthOf(
  `a\`	,
    repeatCount  @lengthOf(T 
)// @lengthOf(
    ,	}
")).
Eval vm_compute in ("<<<M101>>>" ++ check (runes_of_ascii "
root
packet Packet
{ char[0123456789 ] pack @lengthOf(
As ) `{ , }`,
repeat
    // `tick` ""quote"" 'q'
    string
    rootA ,	match
repeatCount
    as
    pack /// triple
{ ""a\""b""
    :uint8x// packet A { u8 x, }
[ ""x y"" ,
    ""it's""
    // " ++ [128512]%N ++ runes_of_ascii " emoji
    ]	: chars
    ""\" ++ [233]%N ++ runes_of_ascii """
: //	t
crc	0123456789 :Packet ,[""1""
]:	A ,
    // @lengthOf(
    } ,// `tick` ""quote"" 'q'
} options /// triple
{ }packet pack // trailing space 
{ i8//x
MetaDataX ,string float
`" ++ [28040; 24687; 31867; 22411]%N ++ runes_of_ascii "`,@lengthOf( trueish)
@calculatedFrom(
    ""`tick`"" ) f64 lengthOf ,repeat pack	packetx
// trailing space 
// packet A { u8 x, }
, }
")).
Eval vm_compute in ("<<<M1130>>>" ++ check (runes_of_ascii "root packet Foo {u64 calculatedFrom @lengthOf( u ) , u16
len ,
match metadata as
a1{
// `tick` ""quote"" 'q'
// " ++ [27880; 37322]%N ++ runes_of_ascii "
255 :roots
,
10: i8i8
    [ // a // b
00
] :i8i8, [
    ""abc""  ] :
    Header
,
[
    // packet A { u8 x, }
    00 ] // packet A { u8 x, }
: x , ""abc"" :
Logon } , @leftPad(
    '0') // " ++ [27880; 37322]%N ++ runes_of_ascii "
Pad{  zchar[ 10] asx `{ , }`, Header@calculatedFrom(
""a\\"" ) , repeat T
,
int16	roots `// not a comment`,  } ,	}packet o { @tag( 00
) @leftPad ( '\x00'
// `tick` ""quote"" 'q'
//x
) Z9_
//	t
//
@calculatedFrom( ""CRC32"" ) ,@lengthOf(	crc
//x
//
)
    zchar
, }
")).
Eval vm_compute in ("<<<M1017>>>" ++ check (runes_of_ascii "packet
f32a {	roots
{chars  calculatedFrom,
u16 Header`" ++ [233]%N ++ runes_of_ascii "`
/// triple
// packet A { u8 x, }
,char[] repeatCount , //	t
} , @calculatedFrom( ""x y"" )
    i32 crc
@calculatedFrom(
""x y"" ),repeat uint64 lengthOf
    ,repeat char[
    65535]  u
, @lengthOf(
tag)
// trailing space 
//
@lengthOf( pack) @calculatedFrom(  ""packet"" ) // packet A { u8 x, }
match A as
f32a
    {
// trailing space 
// c
""`tick`""
:
    i8i8 ,
    }
, @tag(
0123456789
    ) repeat repeatCount
crc  ,
    repeat	u32  options1
`a\` , }  options { matchKey ='0' ;	}")).
Eval vm_compute in ("<<<M391>>>" ++ check (runes_of_ascii "// " ++ [128512]%N ++ runes_of_ascii " emoji
packet o {
char[
    // `tick` ""quote"" 'q'
    4294967296 ]	tag ,@tag(	1
    // a // b
    )	zchar[ //
0123456789]
Logon ,stringy `it's`	, repeat string Logon
, repeat
f32 string_
    //x
    `u8 x,` ,
@lengthOf( roots
) A `" ++ [233]%N ++ runes_of_ascii "`
    ,string_ ,
@lengthOf( //	t
i64_ ) @calculatedFrom(
    ""1"" ) //	t
f32a @lengthOf(
f32a
)
    `doc`
,
    // `tick` ""quote"" 'q'
    @calculatedFrom(
""" ++ [28040; 24687]%N ++ runes_of_ascii """ )repeatCount `a\` ,}
    /// triple
    root
packet //
As { @tag( //
0) char[] o`it's`
,
}packet matchKey{ }")).
Eval vm_compute in ("<<<M880>>>" ++ check (runes_of_ascii "packet
crc
    {
@leftPad ( ' ' ) u64 packetx @lengthOf(trueish ) ,
float
`line1
line2` ,
// packet A { u8 x, }
// trailing space 
}packet
msg_type{zchar[ 3 ]i8i8
@lengthOf( u )	,char[] roots , match x_y_z as
uint8x
{ ""a	b"":body	, } /// triple
,
@tag(
42 )	@rightPad
// `tick` ""quote"" 'q'
//x
(
'0'	) Packet
// " ++ [128512]%N ++ runes_of_ascii " emoji
// packet A { u8 x, }
@calculatedFrom( ""1"" // c
) `
`,@lengthOf(  MetaDataX ) i32 // `tick` ""quote"" 'q'
trueish,
@rightPad ( ' '  )
    u128
@lengthOf( _x )  , }")).
Eval vm_compute in ("<<<M3710>>>" ++ check (runes_of_ascii "MetaData a1 {
    f64 int,
    i32 o `two words`,
    char[3] lengthOf,
    zchar[7] Header,
    u32 x_y_z,
    char[3] matchKey,
}

packet falsey {
    @lengthOf(i8i8)
    match MetaDataX as calculatedFrom {
        00 : float,
        // " ++ [27880; 37322]%N ++ runes_of_ascii "
        7 : MetaDataX,
        """ ++ [28040; 24687]%N ++ runes_of_ascii """ : options1,
        [""a\\""] : charz,
    },
    match T as Z9_ {
        [""it's""] : falsey,
        255 : Foo,
        ""a\\"" : Header,
    },
}

MetaData lengthOf {
    As rootA `doc`,
}")).
Eval vm_compute in ("<<<M790>>>" ++ check (runes_of_ascii "
options { } options {a1
= ' ' falsey
=
    //	t
    false ; f32a =10 ;
    // packet A { u8 x, }
    } packet u8x
    { repeat BodyLength	{ calculatedFrom// " ++ [128512]%N ++ runes_of_ascii " emoji
@calculatedFrom( ""{,}"" ) `{ , }` , uint8
MetaDataX `say ""hi""` // `tick` ""quote"" 'q'
,
    },}
MetaData matchKey
    {
i8 roots
    `
` ,
i64	rootA`say ""hi""` ,/// triple
f64
chars
    //x
    `" ++ [28040; 24687; 31867; 22411]%N ++ runes_of_ascii "` , zchar[ 3
// packet A { u8 x, }
//
] asx `" ++ [233]%N ++ runes_of_ascii "` // a // b
,
string msg_type	, }
")).
Eval vm_compute in ("<<<M43>>>" ++ check (runes_of_ascii "
packet A
{ repeat lengthOf {
len ,
    } , @tag(// trailing space 
42	) match Header
    as falsey
{ [
""" ++ [128512]%N ++ runes_of_ascii """//
, ""\n"", 4294967296 ]
    : Packet
1 :	falsey,
""\" ++ [233]%N ++ runes_of_ascii """ // " ++ [128512]%N ++ runes_of_ascii " emoji
:
    charz } , zchar[255
]
// packet A { u8 x, }
// trailing space 
rootA , repeat  char[ 10 ]// `tick` ""quote"" 'q'
f32a
// trailing space 
//x
,@calculatedFrom(  ""// no comment"") char[ 00 ]trueish@calculatedFrom(
    // " ++ [27880; 37322]%N ++ runes_of_ascii "
    ""a\""b"" )`line1
line2` ,}")).
Eval vm_compute in ("<<<M4267>>>" ++ check (runes_of_ascii "root

    packet
x	{  @calculatedFrom(
    ""a\\""
)
zchar[ 
42 
] float
	@calculatedFrom(
""a\""b""
)
`
`  , }
	MetaData
o

{	int8
BodyLength , string	len ,	string
len 
,float  falsey,	T  float

    ,
    }MetaData pack
	{/// triple
charz

o`// not a comment`

,	float64
f32a

`tab	here`

,
	int32 u8x
`// not a comment`
    ,

char[

    10]
	a1  ,

float32

options1 
,
	} 	 // `tick` ""quote"" 'q'
 
")).
Eval vm_compute in ("<<<M971>>>" ++ check (runes_of_ascii "packet A { tag T
`u8 x,`
//
// `tick` ""quote"" 'q'
, @calculatedFrom( ""a\\"" )match Header as charz
    {
    1 : Z9_ , 65535 :  falsey ,
    // " ++ [128512]%N ++ runes_of_ascii " emoji
    ""it's"" :
trueish ,
    ""x y"": stringy ,
""x y"" :
falsey ,  } ,
float uint8x  , } options {trueish =
    char[] ;}
    MetaData
i64_ { stringy
roots
`a\` ,	zchar[ 4294967296 ] repeatCount , }
MetaData body {  u8x
    int
, a1 f32a , }
")).
Eval vm_compute in ("<<<M98>>>" ++ check (runes_of_ascii "packet// a // b
stringy  {
    Logon { match
    string_ as
    i64_
{ ""x y"":
string_
    ,
// " ++ [27880; 37322]%N ++ runes_of_ascii "
// `tick` ""quote"" 'q'
""`tick`"" : string_
,  1// " ++ [27880; 37322]%N ++ runes_of_ascii "
:
/// triple
// c
float , [ ""1""
    ] :
options1
    // " ++ [27880; 37322]%N ++ runes_of_ascii "
    ,} , zchar[1 ] crc@calculatedFrom( """") `two words` , f32a , float32 lengthOf ,
}
, @tag(255) u8x @calculatedFrom( // packet A { u8 x, }
""abc""
) `a\` , }
")).
Eval vm_compute in ("<<<M4414>>>" ++ check (runes_of_ascii "
// top
  root	// c0
    packet// c1
  matchKey// c2
{	// c3
  	zchar[  // c4
  3  // c5
]	// c6
	pack // c7
    @calculatedFrom(	// c8
  	""a	b""  // c9
	) 	 // c10
  `doc`	// c11
  , 	 // c12
  }  // c13
options// c14

	{// c15
    }  // c16
MetaData	// c17
A  // c18
  {  // c19

int8 	 // c20
    	msg_type	// c21
      ,  // c22
	  }	// c23
")).
Eval vm_compute in ("<<<M387>>>" ++ check (runes_of_ascii "packet
    // @lengthOf(
    x
{ int8// packet A { u8 x, }
T
, }
options	{
    } packet Z9_
{
@lengthOf(
    //	t
    A
    ) As
@calculatedFrom(
""x y"" )	,
} MetaData
//
// " ++ [128512]%N ++ runes_of_ascii " emoji
Logon
    {
//x
//x
pack
    trueish
, /// triple
rootA charz ,
    leftPad leftPad ,char[]Logon ,
// a // b
// " ++ [27880; 37322]%N ++ runes_of_ascii "
f64	matchKey ,falsey falsey `two words` ,}")).
Eval vm_compute in ("<<<M4172>>>" ++ check (runes_of_ascii "packet Z9_ {
}

packet T {
    repeat charz {
        match float as stringy {
            00 : f32a,
            [
                00, 00, 0, 7, 0,
                ""a\\""
            ] : As,
        },//	t
        uint32 asx,
        //
        /// triple
        repeat u8x {
            repeat u8 string_,
        },
    },
}")).
Eval vm_compute in ("<<<M1936>>>" ++ check (runes_of_ascii "MetaData
    u { }  options {
// c
// @lengthOf(
float = int8 ;rootA =false ; As =	int16 int16 // `tick` ""quote"" 'q'
repeatCount
    // trailing space 
    =
    int16
; u8x =
    //	t
    '\x00' ; } options	{
    repeatCount
= 0
u128
    //
    = false ; i64_
// trailing space 
// `tick` ""quote"" 'q'
= '0' ; //	t
}
")).
Eval vm_compute in ("<<<M1861>>>" ++ check (runes_of_ascii "MetaData
    u u { }  options {
// c
// @lengthOf(
float = int8 ;rootA =false ; As =	int16 // `tick` ""quote"" 'q'
repeatCount
    // trailing space 
    =
    int16
; u8x =
    //	t
    '\x00' ; } options	{
    repeatCount
= 0
u128
    //
    = false ; i64_
// trailing space 
// `tick` ""quote"" 'q'
= '0' ; //	t
}
")).
Eval vm_compute in ("<<<M2073>>>" ++ check (runes_of_ascii "MetaData
    u { }  options {
// c
// @lengthOf(
float = int8 ;rootA =false ; As =	int16 // `tick` ""quote"" 'q'
repeatCount
    // trailing space 
    =
    int16
; u8x =
    //	t
    '\x00' ; } options	{
    repeatCount
= 0
caf" ++ [233]%N ++ runes_of_ascii "_1
    //
    = false ; i64_
// trailing space 
// `tick` ""quote"" 'q'
= '0' ; //	t
}
")).
Eval vm_compute in ("<<<M1932>>>" ++ check (runes_of_ascii "MetaData
    u { }  options {
// c
// @lengthOf(
float = int8 ;rootA =false ; As int16	= // `tick` ""quote"" 'q'
repeatCount
    // trailing space 
    =
    int16
; u8x =
    //	t
    '\x00' ; } options	{
    repeatCount
= 0
u128
    //
    = false ; i64_
// trailing space 
// `tick` ""quote"" 'q'
= '0' ; //	t
}
")).
Eval vm_compute in ("<<<M1865>>>" ++ check (runes_of_ascii "MetaData
    u  }  options {
// c
// @lengthOf(
float = int8 ;rootA =false ; As =	int16 // `tick` ""quote"" 'q'
repeatCount
    // trailing space 
    =
    int16
; u8x =
    //	t
    '\x00' ; } options	{
    repeatCount
= 0
u128
    //
    = false ; i64_
// trailing space 
// `tick` ""quote"" 'q'
= '0' ; //	t
}
")).
Eval vm_compute in ("<<<M2056>>>" ++ check (runes_of_ascii "MetaData
    u { }  options {
// c
// @lengthOf(
float = int8 ;rootA =false ; As =	int16 // `tick` ""quote"" 'q'
repeatCount
    // trailing space 
    =
    int16
; u8x =
    //	t
    '\x00' ; } options	{
    repeatCount
= 0
u128
    //
    = false ; i64_
// trailing space 
// `tick` ""quote"" 'q'
= '0' ; //	t")).
Eval vm_compute in ("<<<M1310>>>" ++ check (runes_of_ascii "packet
    Foo{@calculatedFrom(
""" ++ [233]%N ++ runes_of_ascii "t" ++ [233]%N ++ runes_of_ascii """ )
repeatCount stringy, u32 u8x	@calculatedFrom(  ""{,}""
)
    `
`
    // " ++ [27880; 37322]%N ++ runes_of_ascii "
    ,
    repeat	float64 Foo
,
char[]T
    `{ , }` , } packet // a // b
f32a	{@tag(
    // a // b
    007) uint64
    falsey,
}
MetaData Foo{
u16
T ,
crc tag ,A
    falsey	`tab	here`,	}
")).
Eval vm_compute in ("<<<M500>>>" ++ check (runes_of_ascii "root
packet u8x {// @lengthOf(
i16
    metadata @lengthOf(
metadata
) `u8 x,`
    ,zchar[ 7 ] stringy@calculatedFrom( ""abc""  )
    `" ++ [233]%N ++ runes_of_ascii "` // trailing space 
, @rightPad
( // a // b
'0' )
match Header as
f32a { //	t
""" ++ [28040; 24687]%N ++ runes_of_ascii """// c
:calculatedFrom
,[ 10
]
:o , ""// no comment"" :As ""\" ++ [233]%N ++ runes_of_ascii """
: rootA ,},
}")).
Eval vm_compute in ("<<<M3949>>>" ++ check (runes_of_ascii "packet Foo {
    char[10] f32a @lengthOf(calculatedFrom) `crlf
        line`,
    match pack as A {
        """ ++ [233]%N ++ runes_of_ascii "t" ++ [233]%N ++ runes_of_ascii """ : f32a,
        [""x y"", ""`tick`""] : falsey,
        ""x y"" : Foo,
        7 : chars,
        ""{,}"" : u128,
        255 : A,
    },
    string T `
        `,
}/// triple")).
Eval vm_compute in ("<<<M82>>>" ++ check (runes_of_ascii "packet
zchar {@rightPad (// a // b
) uint8 a1 `line1
line2` , @calculatedFrom( ""x y"" ) match pack as	matchKey
{
    /// triple
    """ ++ [28040; 24687]%N ++ runes_of_ascii """  : //x
u128 ,
    3 : i64_
    ""a\""b""
    : As , } ,
// " ++ [27880; 37322]%N ++ runes_of_ascii "
// @lengthOf(
u8 Packet	@calculatedFrom( ""// no comment"" ) //x
,
    }
//
")).
Eval vm_compute in ("<<<M665>>>" ++ check (runes_of_ascii "
packet
    // " ++ [27880; 37322]%N ++ runes_of_ascii "
    Logon
    { match
repeatCount as
    // a // b
    trueish { 1 //	t
:
    int[""" ++ [28040; 24687]%N ++ runes_of_ascii """ , 65535 ,
// " ++ [27880; 37322]%N ++ runes_of_ascii "
// a // b
""{,}"" ,10 ,	42
,007]: body,[ ""CRC32"" , ""x y"" ]:
T ,// packet A { u8 x, }
[ 42 ]: a1 , 7 :chars
    , } // packet A { u8 x, }
,}")).
Eval vm_compute in ("<<<M1535>>>" ++ check (runes_of_ascii "packet
//	t
// trailing space 
_x {
// packet A { u8 x, }
// c
char[
3
    ] u8x @lengthOf(
u8x match , @calculatedFrom(""" ++ [128512]%N ++ runes_of_ascii """ // @lengthOf(
)
i16	Foo
@lengthOf(	string_
    )`doc`	, repeat	i64 metadata , @lengthOf( string_
) i8 // c
u  `line1
line2`	,
}
")).
Eval vm_compute in ("<<<M1657>>>" ++ check (runes_of_ascii "packet
//	t
// trailing space 
_x {
// packet A { u8 x, }
// c
char[
3
    ] u8x @lengthOf(
u8x ) , @calculatedFrom(""" ++ [128512]%N ++ runes_of_ascii """ // @lengthOf(
)
i16	Foo
@lengthOf(	string_
    )`doc`	? , repeat	i64 metadata , @lengthOf( string_
) i8 // c
u  `line1
line2`	,
}
")).
Eval vm_compute in ("<<<M1524>>>" ++ check (runes_of_ascii "packet
//	t
// trailing space 
_x {
// packet A { u8 x, }
// c
char[
3
    ] u8x u8x
@lengthOf( ) , @calculatedFrom(""" ++ [128512]%N ++ runes_of_ascii """ // @lengthOf(
)
i16	Foo
@lengthOf(	string_
    )`doc`	, repeat	i64 metadata , @lengthOf( string_
) i8 // c
u  `line1
line2`	,
}
")).
Eval vm_compute in ("<<<M745>>>" ++ check (runes_of_ascii "packet calculatedFrom { match
    Logon as	u128 { [ 1 ,
""// no comment"" ] : u8x ""`tick`"" : Header ,
    ""`tick`"":
    BodyLength ""it's""
// a // b
// packet A { u8 x, }
: zchar
} // " ++ [27880; 37322]%N ++ runes_of_ascii "
, // `tick` ""quote"" 'q'
char metadata @calculatedFrom( ""a\\"" ), }
")).
Eval vm_compute in ("<<<M781>>>" ++ check (runes_of_ascii "
packet As {
@calculatedFrom(""" ++ [28040; 24687]%N ++ runes_of_ascii """ ) @rightPad ( ' '
)@leftPad(
    ) rootA `crlf
line` , }
options {len=0
; Z9_= ""\n"" ;repeatCount
=
    //x
    ""// no comment"" ; /// triple
calculatedFrom =
int64  chars = ""\n"" }	options
{ // trailing space 
}")).
Eval vm_compute in ("<<<M1567>>>" ++ check (runes_of_ascii "packet
//	t
// trailing space 
_x {
// packet A { u8 x, }
// c
char[
3
    ] u8x @lengthOf(
u8x ) , @calculatedFrom(""" ++ [128512]%N ++ runes_of_ascii """ // @lengthOf(
)
i16	Foo
	string_
    )`doc`	, repeat	i64 metadata , @lengthOf( string_
) i8 // c
u  `line1
line2`	,
}
")).
Eval vm_compute in ("<<<M3877>>>" ++ check (runes_of_ascii "packet Sub {
    u8 a,
    @calculatedFrom(""CRC16"")
    u16 SubSum,
}

root packet Frame {
    u16 MsgType,
    u16 BodyLen @lengthOf(Body),
    Sub Body,
    string note,
    @calculatedFrom(""CRC16"")
    u16 Checksum,
    u8 tail,
}")).
Eval vm_compute in ("<<<M898>>>" ++ check (runes_of_ascii "packet metadata {@lengthOf(
i8i8
)match BodyLength as
    Foo
{
    3 : len ,} , body
    @lengthOf(	roots
    ),f32a x ,} root packet i8i8
    {zchar[10
    ]
i64_  @calculatedFrom(""a\\""
) `
`
, } // packet A { u8 x, }")).
Eval vm_compute in ("<<<M718>>>" ++ check (runes_of_ascii "packet stringy {
    u @calculatedFrom(""" ++ [233]%N ++ runes_of_ascii "t" ++ [233]%N ++ runes_of_ascii """
), repeat
pack string_ , zchar[7
]x_y_z  , }
    options{ Pad
= false _x =
    ""\" ++ [233]%N ++ runes_of_ascii """ ;
}MetaData zchar {
    uint8 trueish `it's` ,char[ 65535]
uint8x ,  stringy tag ,}")).
Eval vm_compute in ("<<<M693>>>" ++ check (runes_of_ascii "packet _x {  repeat roots
matchKey `" ++ [233]%N ++ runes_of_ascii "`
, @rightPad ('\x00')@calculatedFrom( ""it's"" ) @lengthOf(
tag )
    match//	t
zchar
as zchar
{
0123456789  : trueish [""{,}""
] : metadata , 7 : u, ""`tick`"" : asx
    ,} ,}")).
Eval vm_compute in ("<<<M713>>>" ++ check (runes_of_ascii "// @lengthOf(
MetaData
    Foo{} MetaData// trailing space 
packetx
{ f32a A
`two words` , u8
u8x `" ++ [28040; 24687; 31867; 22411]%N ++ runes_of_ascii "`,	charz
    lengthOf
    /// triple
    ,
int x_y_z , // " ++ [128512]%N ++ runes_of_ascii " emoji
char[ 00	] packetx
    ,} // a // b")).
Eval vm_compute in ("<<<M1848>>>" ++ check (runes_of_ascii "options { trueish = ""`tick`"" ; string_= """ ++ [233]%N ++ runes_of_ascii "t" ++ [233]%N ++ runes_of_ascii """
    // c
    } root
    packet body { stringy @calculatedFrom(
""a	b"" " ++ [8232]%N ++ runes_of_ascii ") `line1
line2` , }
packet Logon {
    @leftPad(
    ' ' ) //	t
u16 string_ `u8 x,` ,
}
")).
Eval vm_compute in ("<<<M1773>>>" ++ check (runes_of_ascii "options { trueish = ""`tick`"" ; string_= """ ++ [233]%N ++ runes_of_ascii "t" ++ [233]%N ++ runes_of_ascii """
    // c
    } root
    packet body { stringy @calculatedFrom(
""a	b"" ) `line1
line2` , packet
} Logon {
    @leftPad(
    ' ' ) //	t
u16 string_ `u8 x,` ,
}
")).
Eval vm_compute in ("<<<M1826>>>" ++ check (runes_of_ascii "options { trueish = ""`tick`"" ; string_= """ ++ [233]%N ++ runes_of_ascii "t" ++ [233]%N ++ runes_of_ascii """
    // c
    } root
    packet body { stringy @calculatedFrom(
""a	b"" ) `line1
line2` , }
packet Logon {
    @leftPad(
    ' ' ) //	t
u16 string_ `u8 x,` 
}
")).
Eval vm_compute in ("<<<M1776>>>" ++ check (runes_of_ascii "options { trueish = ""`tick`"" ; string_= """ ++ [233]%N ++ runes_of_ascii "t" ++ [233]%N ++ runes_of_ascii """
    // c
    } root
    packet body { stringy @calculatedFrom(
""a	b"" ) `line1
line2` , }
 Logon {
    @leftPad(
    ' ' ) //	t
u16 string_ `u8 x,` ,
}
")).
Eval vm_compute in ("<<<M919>>>" ++ check (runes_of_ascii "MetaData float
{ // " ++ [27880; 37322]%N ++ runes_of_ascii "
} root packet	Header {float  {
i32 u8x @lengthOf( a1 )
`u8 x,` , }
, char[] i64_
@calculatedFrom( ""a\\"" )
`" ++ [233]%N ++ runes_of_ascii "`,
    float64	packetx `{ , }`,
    } // packet A { u8 x, }")).
Eval vm_compute in ("<<<M605>>>" ++ check (runes_of_ascii "MetaData body {string	MetaDataX `" ++ [28040; 24687; 31867; 22411]%N ++ runes_of_ascii "`, }options{	zchar // packet A { u8 x, }
=
    false} packet chars// a // b
{ @tag(
42 )
len roots ,@rightPad () Header @lengthOf( charz ) ,
    }
")).
Eval vm_compute in ("<<<M530>>>" ++ check (runes_of_ascii "// c
packet BodyLength { u { char[ 007] i8i8`a\` , pack{ match charz as // packet A { u8 x, }
Header
    { ""\n""
    : leftPad } , } , string u8x @calculatedFrom( """ ++ [233]%N ++ runes_of_ascii "t" ++ [233]%N ++ runes_of_ascii """	)	, } ,
}
")).
Eval vm_compute in ("<<<M3391>>>" ++ check (runes_of_ascii "// top
MetaData // c0
body
    // c1
{
    // c2
i64
    // c3
pack `it's`
    // c5
, } packet stringy // c9
{ // c10
int16
    // c11
calculatedFrom ,
    // c13
} // c14
")).
Eval vm_compute in ("<<<M3857>>>" ++ check (runes_of_ascii "packet stringy {
    @lengthOf(rootA)
    repeat char[] len `u8 x,`,
    float32 zchar,
    @tag(42)
    @tag(255)
    @tag(10)
    repeatCount,
    repeat leftPad,
}")).
Eval vm_compute in ("<<<M1287>>>" ++ check (runes_of_ascii "  packet rootA { asx , @tag(
    //x
    10 // " ++ [128512]%N ++ runes_of_ascii " emoji
)	@tag( 1	) @calculatedFrom( ""1"" ) /// triple
charz @calculatedFrom( ""a\\"")`line1
line2`, // @lengthOf(
}")).
Eval vm_compute in ("<<<M2175>>>" ++ check (runes_of_ascii "options{
_x
= true
} options
{ o	= /// triple
false
    ; chars
= ""\n"" } root packet	Pad
/// triple
// packet A { u8 x, }
{	chars chars
    // a // b
    ,}")).
Eval vm_compute in ("<<<M2323>>>" ++ check (runes_of_ascii "// c
packet x { @lengthOf( metadata ) repeat lengthOf
,a1{
trueish	,// c
repeat//	t
MetaDataX , } , zchar[
    42	] rootA // `tick` ""quote"" 'q'
""1""
    }
")).
Eval vm_compute in ("<<<M2090>>>" ++ check (runes_of_ascii "options{
_x
= = true
} options
{ o	= /// triple
false
    ; chars
= ""\n"" } root packet	Pad
/// triple
// packet A { u8 x, }
{	chars
    // a // b
    ,}")).
Eval vm_compute in ("<<<M2418>>>" ++ check (runes_of_ascii "// c
packet x { @lengthOf( metadata ) repeat lengthOf
,a1{
trueish	,// c
repeat//	t
MetaDataX } , , zchar[
    42	] rootA // `tick` ""quote"" 'q'
,
    }
")).
Eval vm_compute in ("<<<M2091>>>" ++ check (runes_of_ascii "options{
_x
true =
} options
{ o	= /// triple
false
    ; chars
= ""\n"" } root packet	Pad
/// triple
// packet A { u8 x, }
{	chars
    // a // b
    ,}")).
Eval vm_compute in ("<<<M2097>>>" ++ check (runes_of_ascii "options{
_x
= i32
} options
{ o	= /// triple
false
    ; chars
= ""\n"" } root packet	Pad
/// triple
// packet A { u8 x, }
{	chars
    // a // b
    ,}")).
Eval vm_compute in ("<<<M2348>>>" ++ check (runes_of_ascii "// c
{ x { @lengthOf( metadata ) repeat lengthOf
,a1{
trueish	,// c
repeat//	t
MetaDataX , } , zchar[
    42	] rootA // `tick` ""quote"" 'q'
,
    }
")).
Eval vm_compute in ("<<<M3750>>>" ++ check (runes_of_ascii "

  root 
    // c
  packet
matchKey

{ 
zchar[3
    ]

pack  @calculatedFrom( ""a	b""

) `doc` , }  options  {
	}

MetaData

A
{	int8 msg_type
,  }")).
Eval vm_compute in ("<<<M868>>>" ++ check (runes_of_ascii "MetaData  tag
    {char[ 3
    // trailing space 
    ]u8x , packetx a1 , } // packet A { u8 x, }
MetaData chars
{ i16 uint8x
    `tab	here` ,}")).
Eval vm_compute in ("<<<M81>>>" ++ check (runes_of_ascii "
root packet // `tick` ""quote"" 'q'
rootA { @rightPad (
) @leftPad(	) @lengthOf(  MetaDataX  )float// c
u128`a\` , // `tick` ""quote"" 'q'
}
")).
Eval vm_compute in ("<<<M1775>>>" ++ check (runes_of_ascii "options { trueish = ""`tick`"" ; string_= """ ++ [233]%N ++ runes_of_ascii "t" ++ [233]%N ++ runes_of_ascii """
    // c
    } root
    packet body { stringy @calculatedFrom(
""a	b"" ) `line1
line2` ,")).
Eval vm_compute in ("<<<M3562>>>" ++ check (runes_of_ascii "
options{
	LittleEndian  =
true
; 
}
    root  packet P  { u16
	a
,

    u32
    Sum

    @calculatedFrom(

""CRC32"" 
) , }
")).
Eval vm_compute in ("<<<M3989>>>" ++ check (runes_of_ascii "packet tag {
    @rightPad()
    zchar[00] MetaDataX `" ++ [233]%N ++ runes_of_ascii "`,
    float32 Header `say ""hi""`,
}

MetaData T {
    int lengthOf,
}")).
Eval vm_compute in ("<<<M4390>>>" ++ check (runes_of_ascii "
packet 
metadata{

Logon 
// c
  {

A
    `" ++ [28040; 24687; 31867; 22411]%N ++ runes_of_ascii "`

    ,

tag o

    ,

    },
	zchar	len
`// not a comment`  ,

}

")).
Eval vm_compute in ("<<<M3338>>>" ++ check (runes_of_ascii "root packet matchKey { zchar[ 3 ] pack @calculatedFrom( ""a	b"" ) `doc` , } // c
options { } MetaData A { int8 msg_type , }")).
Eval vm_compute in ("<<<M1448>>>" ++ check (runes_of_ascii "
packet
    falsey { Header@calculatedFrom(""packet""  ) , char[
    0123456789 ] ] packetx
    , } // `tick` ""quote"" 'q'")).
Eval vm_compute in ("<<<M1409>>>" ++ check (runes_of_ascii "
packet
    falsey Header {@calculatedFrom(""packet""  ) , char[
    0123456789 ] packetx
    , } // `tick` ""quote"" 'q'")).
Eval vm_compute in ("<<<M1765>>>" ++ check (runes_of_ascii "options { trueish = ""`tick`"" ; string_= """ ++ [233]%N ++ runes_of_ascii "t" ++ [233]%N ++ runes_of_ascii """
    // c
    } root
    packet body { stringy @calculatedFrom(
""a	b"" )")).
Eval vm_compute in ("<<<M2977>>>" ++ check (runes_of_ascii "packet A {
  match k as n {
    [""a"", ""bb"", ""c c"", ""d"", ""e"", ""f"", ""g"", ""h"", ""i"", ""j"", ""k""] : B,
    2 : C
  },
}")).
Eval vm_compute in ("<<<M3707>>>" ++ check (runes_of_ascii "

  root 
packet// " ++ [128512]%N ++ runes_of_ascii " emoji
o {
@calculatedFrom(""a\""b""  //x
	) repeat
	crc
,
    @tag(

    10
)	x_y_z	,}

")).
Eval vm_compute in ("<<<M4392>>>" ++ check (runes_of_ascii "
MetaData
	body { i64
	pack 
`it's`
,

}

    packet 

    // c

  stringy
{int16
calculatedFrom

,
}
")).
Eval vm_compute in ("<<<M3903>>>" ++ check (runes_of_ascii "
packet A

    {
Inner

    {
u8 x

`a
b`
,

Deep
{ u8

    y

    `a
b`
	,
	}
,

    }, }
")).
Eval vm_compute in ("<<<M3601>>>" ++ check (runes_of_ascii "packet FooBar {
    u8 a,
}
packet foo_bar {
    u16 b,
}
root packet R {
    FooBar,
    foo_bar,
}
")).
Eval vm_compute in ("<<<M136>>>" ++ check (runes_of_ascii "MetaData
options1
    {
    char[ 7 ] i8i8
, zchar[ 65535
] u128
    , char[]  repeatCount
,
}
")).
Eval vm_compute in ("<<<M2955>>>" ++ check (runes_of_ascii "packet A {
  match k as n {
    [""a"", 22, ""c c"", 4, ""e"", 66, ""g"", 8, ""i""] : B,
    2 : C
  },
}")).
Eval vm_compute in ("<<<M3559>>>" ++ check (runes_of_ascii "options { 
FixedStringPadFromLeft	= true
	; }

    root	packet

P{
	char[4]
	z
    ,
    }
")).
Eval vm_compute in ("<<<M1395>>>" ++ check (runes_of_ascii "root packet SimpleMessage {
    uint16 MsgType `" ++ [28040; 24687; 31867; 22411]%N ++ runes_of_ascii "`,
    string JsonBody `Json" ++ [23383; 31526; 20018; 28040; 24687; 20307]%N ++ runes_of_ascii "`,
}")).
Eval vm_compute in ("<<<M3274>>>" ++ check (runes_of_ascii "MetaData float {
// c
float64 charz `
` , } root packet chars { @rightPad ( '0' ) Foo , }")).
Eval vm_compute in ("<<<M3485>>>" ++ check (runes_of_ascii "packet // c
chars { } packet MetaDataX { @tag( 42 ) i16 string_ , repeat x `say ""hi""` , }")).
Eval vm_compute in ("<<<M3517>>>" ++ check (runes_of_ascii "packet chars { } packet MetaDataX { @tag( 42 ) i16 string_ , repeat x `say ""hi""` , // c
}")).
Eval vm_compute in ("<<<M2238>>>" ++ check (runes_of_ascii "options
{ } options { BodyLength u16 = Header= f64 ; u128 =
    true
    ; } // a // b")).
Eval vm_compute in ("<<<M1353>>>" ++ check (runes_of_ascii "MetaData As { char[]calculatedFrom
,x a1 , int16 //	t
matchKey `two words` ,
    }
")).
Eval vm_compute in ("<<<M3224>>>" ++ check (runes_of_ascii "packet metadata { Logon { A
// c
`" ++ [28040; 24687; 31867; 22411]%N ++ runes_of_ascii "` , tag o , } , zchar len `// not a comment` , }")).
Eval vm_compute in ("<<<M1056>>>" ++ check (runes_of_ascii "options {o= 007 Z9_ =
"""" Logon // a // b
= 4294967296 //	t
; }
packet stringy {}
")).
Eval vm_compute in ("<<<M3444>>>" ++ check (runes_of_ascii "packet o { repeat Logon uint8x , }
// c
options { asx = zchar[ 3 ] stringy = '\x00' }")).
Eval vm_compute in ("<<<M3586>>>" ++ check (runes_of_ascii "packet order_item {
    u8 a,
}
root packet new_order {
    order_item,
    u8 x,
}
")).
Eval vm_compute in ("<<<M2899>>>" ++ check (runes_of_ascii "packet A {
  match k as n {
    [""a"", ""bb"", ""c c"", ""d"", ""e""] : B,
    2 : C
  },
}")).
Eval vm_compute in ("<<<M3421>>>" ++ check (runes_of_ascii "MetaData body { i64 pack `it's` , } packet stringy { int16 calculatedFrom ,
// c
}")).
Eval vm_compute in ("<<<M1456>>>" ++ check (runes_of_ascii "
packet
    falsey { Header@calculatedFrom(""packet""  ) , char[
    0123456789 ]")).
Eval vm_compute in ("<<<M1735>>>" ++ check (runes_of_ascii "options { trueish = ""`tick`"" ; string_= """ ++ [233]%N ++ runes_of_ascii "t" ++ [233]%N ++ runes_of_ascii """
    // c
    } root
    packet")).
Eval vm_compute in ("<<<M2890>>>" ++ check (runes_of_ascii "packet A {
  match k as n {
    [""a"", 22, ""c c"", 4] : B,
    2 : C
  },
}")).
Eval vm_compute in ("<<<M2881>>>" ++ check (runes_of_ascii "packet A {
  match k as n {
    [""a"", ""bb"", 007] : B,
    2 : C
  },
}")).
Eval vm_compute in ("<<<M3171>>>" ++ check (runes_of_ascii "packet A { match k as n { [ // a
 1 // b
 , // c
 2 ] // d
 : B }, }")).
Eval vm_compute in ("<<<M1730>>>" ++ check (runes_of_ascii "options { trueish = ""`tick`"" ; string_= """ ++ [233]%N ++ runes_of_ascii "t" ++ [233]%N ++ runes_of_ascii """
    // c
    } root")).
Eval vm_compute in ("<<<M2868>>>" ++ check (runes_of_ascii "packet A {
  match k as n {
    [""a"", 22] : B,
    2 : C
  },
}")).
Eval vm_compute in ("<<<M2717>>>" ++ check (runes_of_ascii "'0' `doc` char[ ) string @leftPad , char[] string root @tag(")).
Eval vm_compute in ("<<<M3363>>>" ++ check (runes_of_ascii "// c
packet x { @rightPad ( ) repeat roots Logon `doc` , }")).
Eval vm_compute in ("<<<M2709>>>" ++ check (runes_of_ascii "'0' @tag( i64 i32 u8 0 } uint64 char u8 @lengthOf( = char")).
Eval vm_compute in ("<<<M3154>>>" ++ check (runes_of_ascii "packet A { match k as n { 1 : B // a // b 2 : C }, }")).
Eval vm_compute in ("<<<M3955>>>" ++ check (runes_of_ascii "
root packet	u128 { chars `it's`
,
    // c
    }
")).
Eval vm_compute in ("<<<M999>>>" ++ check (runes_of_ascii "MetaData metadata
    {
    // c
    i32
x , }
")).
Eval vm_compute in ("<<<M1126>>>" ++ check (runes_of_ascii "packet Logon
    { string u  `two words` , }
")).
Eval vm_compute in ("<<<M2563>>>" ++ check (runes_of_ascii "packet A { repeat x @calculatedFrom(""c""), }")).
Eval vm_compute in ("<<<M3150>>>" ++ check (runes_of_ascii "packet A {
    u8 x,    // c    u8 y,
}")).
Eval vm_compute in ("<<<M3902>>>" ++ check (runes_of_ascii "options {
    leftPad = """ ++ [28040; 24687]%N ++ runes_of_ascii """
}// " ++ [128512]%N ++ runes_of_ascii " emoji")).
Eval vm_compute in ("<<<M2583>>>" ++ check (runes_of_ascii "packet A { zchar[3] x @lengthOf(y), }")).
Eval vm_compute in ("<<<M311>>>" ++ check (runes_of_ascii "  options {
    asx =
    '0'
;}
")).
Eval vm_compute in ("<<<M2614>>>" ++ check (runes_of_ascii "packet A { match k as { 1 : B }, }")).
Eval vm_compute in ("<<<M4465>>>" ++ check (runes_of_ascii "packet  A { u8 
x `
`

    ,
	}")).
Eval vm_compute in ("<<<M3018>>>" ++ check (runes_of_ascii "root packet A {
    u8 x `
`,
}")).
Eval vm_compute in ("<<<M3132>>>" ++ check (runes_of_ascii "packet A {
 u8 x `d" ++ [8203]%N ++ runes_of_ascii "`, // c" ++ [8203]%N ++ runes_of_ascii "
}")).
Eval vm_compute in ("<<<M118>>>" ++ check (runes_of_ascii "options{
i64_ = ""`tick`""}

")).
Eval vm_compute in ("<<<M2595>>>" ++ check (runes_of_ascii "packet A { x @leftPad(), }")).
Eval vm_compute in ("<<<M3261>>>" ++ check (runes_of_ascii "root packet pack {
// c
}")).
Eval vm_compute in ("<<<M3737>>>" ++ check (runes_of_ascii "
packet  A  {  // a

}
")).
Eval vm_compute in ("<<<M465>>>" ++ check (runes_of_ascii "MetaData Z9_
    {
}")).
Eval vm_compute in ("<<<M2565>>>" ++ check (runes_of_ascii "packet A { repeat }")).
Eval vm_compute in ("<<<M215>>>" ++ check (runes_of_ascii "
packet uint8x	{	}")).
Eval vm_compute in ("<<<M3115>>>" ++ check (runes_of_ascii "packet A {
}
// c" ++ [11]%N)).
Eval vm_compute in ("<<<M3058>>>" ++ check (runes_of_ascii "packet A {
}// c ")).
Eval vm_compute in ("<<<M2758>>>" ++ check (runes_of_ascii "{ uint64 options")).
Eval vm_compute in ("<<<M2098>>>" ++ check (runes_of_ascii "options{
_x
=")).
Eval vm_compute in ("<<<M2833>>>" ++ check ([651]%N ++ runes_of_ascii "o" ++ [65533; 65533]%N ++ runes_of_ascii "
z" ++ [65533; 15; 21; 65533]%N ++ runes_of_ascii "y")).
Eval vm_compute in ("<<<M2466>>>" ++ check (runes_of_ascii "metadata")).
Eval vm_compute in ("<<<M86>>>" ++ check (runes_of_ascii "
// c
")).
Eval vm_compute in ("<<<M2436>>>" ++ check (runes_of_ascii "zchar")).
Eval vm_compute in ("<<<M3850>>>" ++ check (runes_of_ascii "///
")).
Eval vm_compute in ("<<<M109>>>" ++ check (runes_of_ascii "


")).
Eval vm_compute in ("<<<M2689>>>" ++ check (runes_of_ascii " " ++ [12]%N ++ runes_of_ascii " ")).
Eval vm_compute in ("<<<M2495>>>" ++ check (runes_of_ascii "@")).
