From FP Require Import Lexer Parser ShowPT Digest Formatter.
From Coq Require Import String List NArith.
Import ListNotations.
Open Scope string_scope.
Set Printing Width 100000000.
Set Printing Depth 100000000.
Definition show_fres (r : fres) : string :=
  match r with
  | FOk s => "OK:" ++ sh_escaped s ""
  | FErr s => "ERR:" ++ sh_escaped s ""
  | FPanic p => "PANIC:" ++ p
  end.
Definition check (rs : list rune) : string := digest (show_fres (format_res rs)).
Definition full (rs : list rune) : string := show_fres (format_res rs).
Eval vm_compute in ("<<<M4304>>>" ++ check (runes_of_ascii "root packet i64_ {
    u64 Z9_ @lengthOf(uint8x) `
        `,
    repeat zchar x,
    match Packet as a1 {
        [""a	b""] : packetx,
        [
            255, ""x y"", """ ++ [28040; 24687]%N ++ runes_of_ascii """, 10, ""it's"",
            4294967296, """"
        ] : falsey,
    },
    rootA {
        repeat charz {
            // " ++ [128512]%N ++ runes_of_ascii " emoji
            match x as a1 {
                10 : metadata,
                [
                    ""{,}"", 00, ""a	b"", 007, ""abc"",
                    ""// no comment""
                ] : int,
                3 : tag,
                255 : x,
                ""{,}"" : Z9_,
            },
        },
        //
        body {
            repeat roots {
                f32 i8i8 @calculatedFrom(""a\\"") `line1
                                line2`,
            },
            i8 leftPad `doc`,
        },
        o @calculatedFrom(""" ++ [28040; 24687]%N ++ runes_of_ascii """) `" ++ [28040; 24687; 31867; 22411]%N ++ runes_of_ascii "`,
    },
    match calculatedFrom as chars {
        // " ++ [27880; 37322]%N ++ runes_of_ascii "
        10 : i64_,
    },
    @lengthOf(i8i8)
    @tag(3)
    match Logon as o {
        [
            """", 42, ""it's"", """ ++ [28040; 24687]%N ++ runes_of_ascii """, """",
            """ ++ [28040; 24687]%N ++ runes_of_ascii """
        ] : tag,
    },// `tick` ""quote"" 'q'
    zchar[0123456789] rootA @calculatedFrom(""abc""),
    zchar[4294967296] Z9_,
    zchar[65535] Header @lengthOf(trueish),
    @tag(0123456789)
    repeat trueish {
        float {
            repeat char[10] metadata,
            f32 float,
            As @calculatedFrom(""" ++ [233]%N ++ runes_of_ascii "t" ++ [233]%N ++ runes_of_ascii """),
            tag @calculatedFrom(""CRC32"") `line1
                        line2`,
        },
    },
}

packet packetx {
    char[] options1,
    //
    //x
    @calculatedFrom(""" ++ [28040; 24687]%N ++ runes_of_ascii """)
    @tag(1)
    match lengthOf as calculatedFrom {
        ""packet"" : uint8x,
        /// triple
        [""" ++ [128512]%N ++ runes_of_ascii """] : trueish,
        [""CRC32"", 3] : uint8x,
        [""\n"", ""{,}""] : metadata,
    },
    @tag(00)
    match Foo as falsey {
        0 : pack,
    },
    @calculatedFrom(""{,}"")
    repeat Logon `" ++ [233]%N ++ runes_of_ascii "`,
    @lengthOf(stringy)
    A @lengthOf(pack),
    @tag(00)
    match u8x as Packet {
        65535 : _x,
    },
    // a // b
    @rightPad()
    leftPad @calculatedFrom("""") `
        `,
    @calculatedFrom("""")
    @tag(4294967296)
    @tag(7)
    zchar[10] asx `tab	here`,
    @lengthOf(options1)
    //
    f32 packetx,
    // trailing space 
    calculatedFrom {
        zchar[0] Packet,
    },// @lengthOf(
}

MetaData u128 {
}

packet o {
    @lengthOf(lengthOf)
    tag body `line1
        line2`,
    packetx,
    repeat uint32 chars,
    match pack as u128 {
        ""it's"" : a1,
        [""x y"", ""it's""] : packetx,
    },
    @leftPad()
    @calculatedFrom(""packet"")
    //
    @calculatedFrom(""1"")
    match i8i8 as Pad {
        [1, 4294967296, ""\n""] : T,
    },
    tag Foo,
    A {
        repeat pack,// `tick` ""quote"" 'q'
        repeat T {
            string asx @calculatedFrom(""// no comment"") `
                        `,
            char[] x @lengthOf(trueish),
            zchar[007] body @lengthOf(A) `two words`,
        },
        repeat uint8x {
            match leftPad as A {
                [""\" ++ [233]%N ++ runes_of_ascii """] : metadata,
            },
            repeat MetaDataX int `u8 x,`,
            match rootA as Foo {
                ""x y"" : Logon,
            },
            match MetaDataX as metadata {
                4294967296 : _x,
                [
                    ""{,}"", """", ""1"", 4294967296, ""\" ++ [233]%N ++ runes_of_ascii """,
                    ""abc""
                ] : roots,
                [""{,}"", """ ++ [128512]%N ++ runes_of_ascii """] : Z9_,
                ""a	b"" : trueish,
                ""\" ++ [233]%N ++ runes_of_ascii """ : int,
                [0, 1] : i64_,
            },
        },
    },
    repeat chars u8x,
    Logon int `u8 x,`,
    repeat packetx `a\`,
}")).
Eval vm_compute in ("<<<M87>>>" ++ check (runes_of_ascii "packet Logon{
    repeat string
a1 `crlf
line` ,@lengthOf(
Pad
    ) match  Pad as
u8x
    { 4294967296
//
// " ++ [128512]%N ++ runes_of_ascii " emoji
: // `tick` ""quote"" 'q'
i8i8 , } ,
asx a1 ,
// a // b
// @lengthOf(
@lengthOf(body ) //x
msg_type int
,tag`line1
line2` , repeat
// packet A { u8 x, }
// packet A { u8 x, }
Z9_{ u16
    packetx	@calculatedFrom(
    ""it's"" ) , } , @lengthOf(
// " ++ [128512]%N ++ runes_of_ascii " emoji
//	t
Logon ) // " ++ [128512]%N ++ runes_of_ascii " emoji
@rightPad (
)	@calculatedFrom(""" ++ [233]%N ++ runes_of_ascii "t" ++ [233]%N ++ runes_of_ascii """ ) repeat roots	u128 // `tick` ""quote"" 'q'
,@calculatedFrom( ""{,}"") chars{ match // " ++ [128512]%N ++ runes_of_ascii " emoji
roots as Foo {
    10 :trueish
// trailing space 
// @lengthOf(
, },} , i8i8 ,@calculatedFrom( ""x y"" ) @calculatedFrom( ""a\""b"" ) repeat Z9_
{  f32a msg_type ,
repeat o{
// " ++ [128512]%N ++ runes_of_ascii " emoji
// @lengthOf(
zchar[ 0	]
charz @calculatedFrom(""CRC32"" ) ,
}
,}
    ,
} root
    packet	BodyLength
{ calculatedFrom
{
char[]x@calculatedFrom(
""\n""
)
    , // @lengthOf(
_x @calculatedFrom( ""`tick`""
    ),	repeat u128,float Packet
`" ++ [28040; 24687; 31867; 22411]%N ++ runes_of_ascii "`
    ,}
    , repeat Foo	{ uint64 a1
    // `tick` ""quote"" 'q'
    , } , /// triple
repeat char[ 42 ] matchKey `it's` ,	lengthOf{ // " ++ [27880; 37322]%N ++ runes_of_ascii "
u128 trueish  `// not a comment`, match
chars as MetaDataX {
00
    : x_y_z 1
: trueish, [ 0123456789 ]
    :	calculatedFrom , [
    ""CRC32"" ,	""\" ++ [233]%N ++ runes_of_ascii """
, ""// no comment""
    , ""it's"" ,	""packet""
    , 007 ] : Pad
,
} ,  } /// triple
, repeat char[] Logon // `tick` ""quote"" 'q'
, @leftPad
    ( '0' //x
) f32
    Pad
    @calculatedFrom(""CRC32"" ) , @lengthOf(
BodyLength )  options1 @calculatedFrom( ""`tick`"") , A {
// " ++ [27880; 37322]%N ++ runes_of_ascii "
//	t
uint8 charz`u8 x,`
, falsey x
`line1
line2`  , repeat
    int8 Packet
    ,zchar[ 1 ] float
    , }
, char[ 65535 ] matchKey
@calculatedFrom( //
""x y""
    ) // trailing space 
, @lengthOf( o//x
)match	chars
    as As {	1
    : f32a
,
} , }
packet
//	t
// packet A { u8 x, }
int
{ @calculatedFrom( // trailing space 
""// no comment"" ) @rightPad ( ) @calculatedFrom( """ ++ [233]%N ++ runes_of_ascii "t" ++ [233]%N ++ runes_of_ascii """ ) roots _x
/// triple
// trailing space 
`say ""hi""`	, // `tick` ""quote"" 'q'
} options { o= ""{,}"" Pad =
    255 ;  } // " ++ [27880; 37322]%N)).
Eval vm_compute in ("<<<M239>>>" ++ check (runes_of_ascii "packet
//
// " ++ [128512]%N ++ runes_of_ascii " emoji
body	{ @calculatedFrom(""" ++ [233]%N ++ runes_of_ascii "t" ++ [233]%N ++ runes_of_ascii """
) body {o@calculatedFrom(  """ ++ [233]%N ++ runes_of_ascii "t" ++ [233]%N ++ runes_of_ascii """ ), }
,  char  i8i8 @lengthOf(	int ) `doc` ,	@rightPad ( )
char[0 ] tag@lengthOf( repeatCount ), @calculatedFrom("""" ) x
@calculatedFrom(""" ++ [28040; 24687]%N ++ runes_of_ascii """ )
, @calculatedFrom( """"
)// c
Packet `u8 x,`
    , // trailing space 
string x_y_z, string_ charz
    `doc` ,	match packetx as
string_ {
    00  : asx , [  ""\n""] // " ++ [128512]%N ++ runes_of_ascii " emoji
: float , [""" ++ [28040; 24687]%N ++ runes_of_ascii """
// @lengthOf(
/// triple
, 3
] :
    Foo, [ 0123456789 ,  ""1""
] : o	""\" ++ [233]%N ++ runes_of_ascii """
    : _x  ,  0123456789
: matchKey
} , @rightPad (
' ')stringy
    { match calculatedFrom as o	{// c
1
:
x_y_z
, 007:pack
    ,3 : asx
    // trailing space 
    , // " ++ [27880; 37322]%N ++ runes_of_ascii "
} ,
} , @calculatedFrom( """"
    ) @tag(  4294967296 ) repeat i64// packet A { u8 x, }
chars  ,	} packet roots { }root
packet	rootA { @tag( 255 ) pack
`it's`, @lengthOf( f32a ) @tag(
    // a // b
    1 )
    @tag(
    7)
    // " ++ [128512]%N ++ runes_of_ascii " emoji
    Foo	@calculatedFrom(
//x
//
""" ++ [128512]%N ++ runes_of_ascii """ ) , repeat calculatedFrom { string leftPad
    `doc` ,repeat
crc{ pack @calculatedFrom( ""\" ++ [233]%N ++ runes_of_ascii """) ,
    } , }, string_ { match
i64_ as u8x  { 0 :
    _x
, } ,
}	, @lengthOf( u128
    ) // trailing space 
match asx as charz
{ [ """" ,	4294967296 ] : A,// trailing space 
1 : options1 , 4294967296 :  pack 42 :charz
, [ ""`tick`"" , // a // b
""x y"" /// triple
, // " ++ [27880; 37322]%N ++ runes_of_ascii "
255
] // packet A { u8 x, }
: stringy ,} ,
@rightPad (' ' ) @lengthOf(// c
Packet
    ) repeat uint8x trueish ,
} MetaData i8i8
    { zchar[
10]Z9_ , zchar[ 0 ] Header
    `a\`, stringy roots // " ++ [27880; 37322]%N ++ runes_of_ascii "
,}
    packet options1 // c
{
    char[10
] Pad @calculatedFrom( ""\n"") `// not a comment` , roots , @calculatedFrom( ""x y""
)	zchar, @rightPad ( '0' )
    repeat
string
//x
//
roots`say ""hi""` ,}
")).
Eval vm_compute in ("<<<M3682>>>" ++ check (runes_of_ascii "MetaData msg_type {
    trueish i8i8,
    float32 msg_type,
    options1 BodyLength `two words`,
    u128 body `u8 x,`,
}// trailing space 

packet Logon {
    repeat i32 metadata `
        `,
    @calculatedFrom(""x y"")
    // c
    i64_,
    i64 int @lengthOf(pack),
    char[] charz,
    // @lengthOf(
    match _x as pack {
        3 : body,
        [""// no comment"", ""a\""b""] : uint8x,
        3 : lengthOf,
    },
    matchKey,
    roots {
        _x @lengthOf(Pad),
        repeat a1 _x,
    },
    string T,
    @lengthOf(Pad)
    match f32a as u {
        // a // b
        [
            10, """ ++ [233]%N ++ runes_of_ascii "t" ++ [233]%N ++ runes_of_ascii """, ""`tick`"", 255, 0123456789,
            ""1"", ""a	b"", 3
        ] : options1,
    },
}

MetaData u128 {
    char[10] tag,
    pack stringy,
    char pack,
}

root packet Header {
    match Foo as Logon {
        [""" ++ [233]%N ++ runes_of_ascii "t" ++ [233]%N ++ runes_of_ascii """, ""CRC32""] : falsey,
        [""" ++ [233]%N ++ runes_of_ascii "t" ++ [233]%N ++ runes_of_ascii """, """"] : u128,
        [
            00, ""a\""b"", 7, ""it's"", """ ++ [28040; 24687]%N ++ runes_of_ascii """,
            00, 255, 00
        ] : asx,
        ""// no comment"" : charz,
        ""1"" : Packet,
        [""// no comment"", 1] : zchar,
    },
    @lengthOf(u8x)
    @tag(007)
    @lengthOf(pack)
    u8 _x `doc`,
    zchar[0123456789] Packet @lengthOf(o),
    match chars as msg_type {
        ""\n"" : lengthOf,
        0123456789 : a1,
        [4294967296] : stringy,
        [""`tick`"", ""`tick`"", 0] : falsey,
        [
            007, 65535, 65535, 10, ""abc"",
            3
        ] : body,
    },
    zchar[10] Logon,
}

packet Packet {
}// " ++ [27880; 37322]%N)).
Eval vm_compute in ("<<<M4164>>>" ++ check (runes_of_ascii "  packet float {@leftPad
    (	// packet A { u8 x, }
    '\x00'

) i64_{string  Z9_ , } , 
@tag(//x
0  )

    char[] 
u8x

@calculatedFrom( 
""a	b""
)
    , @lengthOf(	u128
    ) int8
    u
`two words`

    ,u64

    Foo `a\`  //x
  ,@leftPad// packet A { u8 x, }
      ( '0'  )

    repeat 

    //x

	// " ++ [128512]%N ++ runes_of_ascii " emoji
    	repeatCount  //x

	{ 
repeat  Pad
{repeat

    tag { char[ 
00] //	t
	  Logon  `it's`  ,
    string_ , }
,

    match// " ++ [128512]%N ++ runes_of_ascii " emoji

As // c
as

matchKey
    {  7 :  lengthOf
}
    ,
match

u128

    as tag

    {[
	7  ] 
: 	 // " ++ [128512]%N ++ runes_of_ascii " emoji
  Packet 
    //	t
  ,""" ++ [28040; 24687]%N ++ runes_of_ascii """
    :Foo

, 
65535  // " ++ [128512]%N ++ runes_of_ascii " emoji
	:
	calculatedFrom
//x
	//x
		} /// triple
	, // a // b
} , // " ++ [128512]%N ++ runes_of_ascii " emoji
	f32
	options1 `doc`	// c

,// trailing space 
  	}

    , @leftPad  (

    '0'
) match 
rootA// packet A { u8 x, }
  as
    i64_ 
{
3
    // " ++ [128512]%N ++ runes_of_ascii " emoji

//
  : msg_type
	,  ""abc"":
    rootA ,
        //	t
	[
""CRC32"" 
] :
	float 
, 10:  pack
	, 
""" ++ [128512]%N ++ runes_of_ascii """ :
	tag},@rightPad (
        // trailing space 
'\x00'	)char[
	65535  ]_x  @calculatedFrom( """ ++ [128512]%N ++ runes_of_ascii """
	)

    ,char[ 4294967296]
lengthOf
@calculatedFrom(
""// no comment""
	) , @leftPad(' ' 
)	zchar[
007 
]options1
,  /// triple

	} packet

// " ++ [27880; 37322]%N ++ runes_of_ascii "

  rootA 
{
    }
	packet 
charz {repeat

As``
	,
}	packet f32a
	{ }
    MetaData
	roots

    {body	matchKey`// not a comment`
,
}
")).
Eval vm_compute in ("<<<M3938>>>" ++ check (runes_of_ascii "MetaData asx {
    char[] Z9_ `doc`,
}

packet roots {
    a1 @lengthOf(string_),
    char[0123456789] Logon `
    `,// " ++ [128512]%N ++ runes_of_ascii " emoji
    @calculatedFrom(""`tick`"")
    i64 u128,
    i32 matchKey `doc`,
    match asx as pack {
        /// triple
        [0] : x_y_z,
        0123456789 : float,
        00 : packetx,
        65535 : crc,
        4294967296 : a1,
    },
    falsey float,
    @calculatedFrom(""CRC32"")
    // " ++ [128512]%N ++ runes_of_ascii " emoji
    @lengthOf(body)
    @lengthOf(MetaDataX)
    // @lengthOf(
    leftPad @calculatedFrom(""" ++ [28040; 24687]%N ++ runes_of_ascii """) `// not a comment`,
    uint8 packetx @calculatedFrom(""a	b""),
}

packet Logon {
}

packet zchar {
    /// triple
    Z9_ {
        repeat i8 Foo,
        f64 falsey `tab	here`,
        match msg_type as As {
            255 : roots,
            [4294967296, 7, ""`tick`"", 65535] : metadata,
            """ ++ [233]%N ++ runes_of_ascii "t" ++ [233]%N ++ runes_of_ascii """ : x_y_z,
            ""`tick`"" : x_y_z,
            [
                42, ""CRC32"", ""// no comment"", 0123456789, ""// no comment"",
                ""CRC32"", """ ++ [128512]%N ++ runes_of_ascii """, ""{,}""
            ] : packetx,
        },
        o @lengthOf(msg_type) `it's`,
    },
    @calculatedFrom(""" ++ [28040; 24687]%N ++ runes_of_ascii """)
    uint64 x `crlf
    line`,
    zchar[7] Logon,
    repeat rootA matchKey `crlf
    line`,
}// " ++ [27880; 37322]%N)).
Eval vm_compute in ("<<<M133>>>" ++ check (runes_of_ascii "root packet x_y_z { match Z9_ as  u{ 255:pack , 255 : u128
, 007 : float ""\n"" :options1 , [	""" ++ [28040; 24687]%N ++ runes_of_ascii """ , 1 ]
: Z9_""" ++ [28040; 24687]%N ++ runes_of_ascii """:	chars
, }, u8 _x @calculatedFrom(
    // a // b
    """ ++ [28040; 24687]%N ++ runes_of_ascii """ )`say ""hi""` ,@tag( 3 ) match a1 as msg_type { [ ""\n"" // a // b
, 255//x
, 0 ] :crc	,} , }
root packet o
{  match tag as _x
    { 007 :
    x ,	10 :charz,
""{,}""
:body	,""" ++ [233]%N ++ runes_of_ascii "t" ++ [233]%N ++ runes_of_ascii """ : len
""" ++ [128512]%N ++ runes_of_ascii """
    :
    u , }
    ,
    u64 u @calculatedFrom( ""x y""
// c
// " ++ [27880; 37322]%N ++ runes_of_ascii "
)
`it's`, @lengthOf( trueish ) repeat // packet A { u8 x, }
uint8 u8x
`" ++ [28040; 24687; 31867; 22411]%N ++ runes_of_ascii "` // a // b
, @calculatedFrom(	""\n"" )
    @rightPad() @leftPad (
    '\x00')
    repeat uint32 float, @lengthOf(	A )
    @tag(//	t
0123456789 ) @rightPad ( ' '
    ) zchar[ 10	]
    // " ++ [128512]%N ++ runes_of_ascii " emoji
    o// packet A { u8 x, }
,
    uint8x
    @calculatedFrom( ""a\\"" // " ++ [27880; 37322]%N ++ runes_of_ascii "
) `
`
,body
, repeat //	t
char[10 ]
    string_ `tab	here`
    , } root packet
    roots {  } packet u {@calculatedFrom(	""" ++ [128512]%N ++ runes_of_ascii """ )	f64 Logon// `tick` ""quote"" 'q'
@calculatedFrom( ""1""
)
    `a\` ,  int16 trueish `line1
line2`
,//
zchar[  0123456789 ]
    // a // b
    BodyLength `two words`, float32 i8i8 @lengthOf( metadata ) `// not a comment`
, i32 leftPad,	}

")).
Eval vm_compute in ("<<<M3593>>>" ++ check (runes_of_ascii "// top
packet // c0
A // c1a
  // c1b
{
    // c2
u8
    // c3
a // c4a
  // c4b
, } packet // c7a
  // c7b
B // c8a
  // c8b
{ // c9a
  // c9b
u16
    // c10
b
    // c11
, // c12a
  // c12b
} packet
    // c14
C // c15a
  // c15b
{ // c16
u32 c
    // c18
, // c19a
  // c19b
}
    // c20
root // c21
packet // c22a
  // c22b
M
    // c23
{ // c24a
  // c24b
u16 // c25
Kc // c26
,
    // c27
u16
    // c28
Kb // c29
, // c30a
  // c30b
u16
    // c31
Ka
    // c32
,
    // c33
match // c34
Kc as
    // c36
X // c37
{
    // c38
9 // c39
:
    // c40
A
    // c41
, 10 // c43
: // c44a
  // c44b
B // c45a
  // c45b
, // c46a
  // c46b
}
    // c47
, // c48a
  // c48b
match Kb // c50
as Y // c52a
  // c52b
{ 2
    // c54
: // c55
C
    // c56
, // c57
1 : A // c60
, // c61
} // c62a
  // c62b
, match // c64a
  // c64b
Ka as
    // c66
Z
    // c67
{ // c68a
  // c68b
1 // c69a
  // c69b
: // c70a
  // c70b
B
    // c71
,
    // c72
} , // c74a
  // c74b
A // c75
, // c76
B , // c78a
  // c78b
C // c79a
  // c79b
, // c80a
  // c80b
} // c81
")).
Eval vm_compute in ("<<<M253>>>" ++ check (runes_of_ascii "options{
} packet matchKey { repeat
int32 packetx, zchar[
    10
    //x
    ] Packet
    ,@lengthOf(string_
) @tag( 007 ) @tag( 255 )// @lengthOf(
Z9_ @calculatedFrom( """ ++ [28040; 24687]%N ++ runes_of_ascii """ ) ,
@lengthOf(
// `tick` ""quote"" 'q'
// `tick` ""quote"" 'q'
asx
) @calculatedFrom(
    // trailing space 
    ""CRC32"" )
string
_x,
    @calculatedFrom( """"
    ) @lengthOf(
trueish)x , @leftPad (
)
// `tick` ""quote"" 'q'
/// triple
zchar[ 4294967296 ]
    float , @lengthOf(
    // trailing space 
    u128
    )//	t
Logon{repeat char[]x `u8 x,`, // packet A { u8 x, }
} , @tag(
1) f64 Z9_ ,
u32 i64_
`crlf
line`  , @rightPad
// `tick` ""quote"" 'q'
// @lengthOf(
( '\x00'	) @leftPad (	) repeat float32
uint8x , }
root packet
u128
    // `tick` ""quote"" 'q'
    { i32
    charz //	t
@lengthOf( crc
) `u8 x,`  ,// a // b
@tag(
65535 // " ++ [128512]%N ++ runes_of_ascii " emoji
)// trailing space 
@lengthOf( f32a ) repeat// " ++ [27880; 37322]%N ++ runes_of_ascii "
Logon
`{ , }`
    , @rightPad (
    ' ' ) @tag(65535
)
    repeat trueish , i32
lengthOf
    // `tick` ""quote"" 'q'
    , }")).
Eval vm_compute in ("<<<M4572>>>" ++ check (runes_of_ascii "root packet Pad {
    char[00] stringy @calculatedFrom(""\" ++ [233]%N ++ runes_of_ascii """) `it's`,
    zchar {
        falsey Header `two words`,
        Packet @lengthOf(int) ``,
        charz asx,
        u32 A,
    },
    string metadata,
    repeat char[1] crc `
        `,
    Foo `it's`,
}

packet rootA {
    repeat i32 matchKey,
    repeat x_y_z `// not a comment`,
    roots @calculatedFrom(""\n""),
    x_y_z {
        zchar[42] charz @lengthOf(u128),
        leftPad `line1
                line2`,
    },
    falsey crc `crlf
        line`,
    repeat char i64_ `a\`,
}

packet Packet {
    repeat i64_ {
        repeat metadata {
            repeatCount `{ , }`,
            int16 o,
        },
        //	t
        repeat uint64 A,
        float @calculatedFrom(""a\""b""),
        zchar[7] T,
    },
    @leftPad('\x00')
    repeatCount `a\`,
}

MetaData o {
    // a // b
    int repeatCount `line1
        line2`,
}

options {
    msg_type = 00//x
}")).
Eval vm_compute in ("<<<M512>>>" ++ check (runes_of_ascii "packet repeatCount{
@lengthOf( uint8x)
// @lengthOf(
// c
repeat  falsey options1 `" ++ [28040; 24687; 31867; 22411]%N ++ runes_of_ascii "`
    // a // b
    , @calculatedFrom(
""a\""b"" )string A//
,
    @lengthOf(	metadata )  a1@calculatedFrom(
""a\\""
)`say ""hi""` ,  }
packet leftPad {
string msg_type `{ , }`,i8i8 @lengthOf( u8x // @lengthOf(
) `// not a comment`
, char matchKey	`" ++ [28040; 24687; 31867; 22411]%N ++ runes_of_ascii "` ,uint16
    stringy `" ++ [233]%N ++ runes_of_ascii "` ,
    zchar[ 0 ] uint8x  ,stringy
@calculatedFrom(""x y""
// `tick` ""quote"" 'q'
// `tick` ""quote"" 'q'
)
    `{ , }`  ,
match
u	as
MetaDataX {10:
body,}
    // " ++ [27880; 37322]%N ++ runes_of_ascii "
    ,
// `tick` ""quote"" 'q'
// packet A { u8 x, }
@lengthOf( T  ) @lengthOf( uint8x ) match uint8x
//	t
// `tick` ""quote"" 'q'
as //x
stringy{ ""\n"" :
    Logon// c
,
42 :
Header , [	""{,}"" ,
    7 ]
:As ""CRC32"":	Header
    // c
    , // c
0 : leftPad ,  } ,
}// `tick` ""quote"" 'q'
options
{  packetx =false  ; lengthOf
    =
    """ ++ [128512]%N ++ runes_of_ascii """ tag
    = char[] ; }
")).
Eval vm_compute in ("<<<M4401>>>" ++ check (runes_of_ascii "
MetaData

    tag { zchar[	1 
]

repeatCount  ,Header
rootA

    ,

zchar[// " ++ [128512]%N ++ runes_of_ascii " emoji
    3 
]
string_ `two words` 
,
int8 _x, char[  
      // " ++ [27880; 37322]%N ++ runes_of_ascii "
  /// triple
  0123456789]
    zchar
	`
`
	,  zchar[ 4294967296]
// " ++ [27880; 37322]%N ++ runes_of_ascii "
    a1
``
,}
	root packet// " ++ [27880; 37322]%N ++ runes_of_ascii "
    Pad {  @lengthOf(	As  )

BodyLength	{  char[]a1 @lengthOf(Pad)
	,

char[] BodyLength `doc` // @lengthOf(
	  , }

,match	options1

as

packetx{ ""\n""  :
    i8i8
	,  [
""CRC32"" ,
	//	t
  	10
	, 	 //	t
    ""1""
, 
65535
	]
    // @lengthOf(
	// " ++ [27880; 37322]%N ++ runes_of_ascii "
  :  matchKey
00

: 
uint8x,  3
:

repeatCount,  ""\n""	:

    tag 
    // packet A { u8 x, }
	, 	 // a // b
    ""x y""
	://
		u8x
} , @lengthOf(calculatedFrom  ) 
msg_type
body// " ++ [128512]%N ++ runes_of_ascii " emoji
,	}
options {

// " ++ [27880; 37322]%N ++ runes_of_ascii "
	  // a // b
T 
//x
  	// @lengthOf(
	= 10  ; T
=u16

;
    }
packet stringy  // trailing space 
    { 
} ")).
Eval vm_compute in ("<<<M4040>>>" ++ check (runes_of_ascii "packet o {
    /// triple
}

packet Pad {
    repeat f32 metadata `two words`,
    repeat charz {
        i32 i64_ @calculatedFrom(""\" ++ [233]%N ++ runes_of_ascii """) `u8 x,`,
        repeat uint8x tag,
        uint16 Packet @calculatedFrom(""a	b"") `u8 x,`,
    },
}

packet metadata {
    @leftPad()
    repeat f32 i64_,
    // `tick` ""quote"" 'q'
    f32a @calculatedFrom(""x y""),
    repeat zchar[007] body,
    @rightPad('\x00')
    string MetaDataX @lengthOf(options1),
    @tag(3)
    match _x as lengthOf {
        ""`tick`"" : body,
    },
    @calculatedFrom(""`tick`"")
    i64 options1 @calculatedFrom(""abc"") `" ++ [28040; 24687; 31867; 22411]%N ++ runes_of_ascii "`,
    i8 As,
    rootA @lengthOf(lengthOf),
    // " ++ [27880; 37322]%N ++ runes_of_ascii "
    // " ++ [27880; 37322]%N ++ runes_of_ascii "
}

MetaData body {
    int16 len `line1
    line2`,
    uint16 stringy,
    uint64 falsey `{ , }`,
    len len,
}// " ++ [128512]%N ++ runes_of_ascii " emoji")).
Eval vm_compute in ("<<<M4298>>>" ++ check (runes_of_ascii "
packet  Header
{
	repeat string  Header ,
    repeat  options1 ,
    zchar[ 
        //	t

00

    ]
    matchKey 
,
    }
    options 
	// @lengthOf(
	  // `tick` ""quote"" 'q'
	{
    charz =
    ""\n"" ;// a // b
BodyLength =

""x y""  u8x

    =	""x y""u	// `tick` ""quote"" 'q'
=

255

}	MetaData u8x { 
        // a // b
      // c
    Z9_

i8i8
    ,  float32

    stringy

,  float
    msg_type	// `tick` ""quote"" 'q'

	`doc` , calculatedFrom  T  , Foo T
`a\` ,} 
root

    packet
roots
    {
@tag(	00 
) /// triple
    	match	// `tick` ""quote"" 'q'
	len
as
roots 
{ 

// @lengthOf(

  [ 4294967296

]

:
	tag

""// no comment""
:

    float
	, 
"""" :uint8x
, 
	    // " ++ [27880; 37322]%N ++ runes_of_ascii "

	// trailing space 
007 
// " ++ [27880; 37322]%N ++ runes_of_ascii "
    	:
    options1
    ,
	} ,
}

")).
Eval vm_compute in ("<<<M3766>>>" ++ check (runes_of_ascii "options
{
options1

    =
0	}
    packet 
_x
{ @tag( 3  
      // trailing space 
    ) @lengthOf( packetx
)
repeat
zchar[ 255
	]roots
, 
}
    packet
Logon
{
f64
float,
	matchKey, 
f32a 	 //
  	Pad `" ++ [233]%N ++ runes_of_ascii "`

, 
      // `tick` ""quote"" 'q'
      @calculatedFrom( ""packet"")	match
    u128
    as  Pad{ [ 	 // " ++ [27880; 37322]%N ++ runes_of_ascii "
00 ,
""CRC32"" ]:msg_type

    65535
    :
	stringy,  [ ""abc""//	t
	,
    00
    ,
""" ++ [233]%N ++ runes_of_ascii "t" ++ [233]%N ++ runes_of_ascii """
,
""// no comment""
, 	 // trailing space 
0

, ""// no comment"",

""1""]
    : matchKey [
    ""it's"" 
, 0 ]  :
A},zchar[
    3] 	 //x

  uint8x
    ,
}  options

{_x =' 'rootA = 	 //x
	char[]
    uint8x=  //	t
""a	b""
    ;body =
    char[]
        // trailing space 
} root packet
    len {

    }

")).
Eval vm_compute in ("<<<M420>>>" ++ check (runes_of_ascii "MetaData // `tick` ""quote"" 'q'
uint8x { char[// `tick` ""quote"" 'q'
7 ] Foo ,	float64
//x
/// triple
repeatCount
,/// triple
a1 uint8x `// not a comment` , }
    packet
Header{	@calculatedFrom( ""packet""  ) repeat calculatedFrom charz , } packet rootA { @calculatedFrom(""abc"") @calculatedFrom( """"	)	@lengthOf( // " ++ [128512]%N ++ runes_of_ascii " emoji
asx)
repeat
    repeatCount,
repeat// " ++ [128512]%N ++ runes_of_ascii " emoji
o {
crc options1
//x
// " ++ [128512]%N ++ runes_of_ascii " emoji
, zchar[
7] A	, Z9_	@lengthOf(Pad
) ,
calculatedFrom
    // trailing space 
    @calculatedFrom(
""a\""b"" ) // packet A { u8 x, }
, } , repeat a1 Foo `{ , }` ,
    charz , } options { body=
    """ ++ [28040; 24687]%N ++ runes_of_ascii """  ;
packetx // a // b
=
    0 }
MetaData _x // @lengthOf(
{ int16 crc, }")).
Eval vm_compute in ("<<<M740>>>" ++ check (runes_of_ascii "
packet msg_type{ repeat
i64 MetaDataX
`line1
line2` // trailing space 
,  repeat char[] //
u128 ,
@tag(
42
    ) // @lengthOf(
@lengthOf( u )
@lengthOf( body )repeat
zchar[ 255
    //
    ]
// `tick` ""quote"" 'q'
// trailing space 
As	,calculatedFrom
    //x
    f32a
    // trailing space 
    ,}
options
{// @lengthOf(
x
    =  3 msg_type = ""`tick`"" falsey= ""CRC32""
    ;
    // trailing space 
    body=
    char[ 00] ; uint8x  = ""x y"" } options// @lengthOf(
{//
A
    =
    uint16
}root packet BodyLength { @lengthOf( pack )
    repeat
    metadata T
`{ , }`
// packet A { u8 x, }
//	t
,}packet chars{ }
// packet A { u8 x, }
")).
Eval vm_compute in ("<<<M4411>>>" ++ check (runes_of_ascii "//x
packet _x {
    repeat charz {
        repeat asx,//x
        string metadata,//x
        uint64 a1 @calculatedFrom(""it's"") `a\`,
    },
    @rightPad()
    msg_type len ``,
    MetaDataX asx,
    @rightPad('\x00')
    zchar[3] int,
}

packet Packet {
    @leftPad()
    string_ {
        repeat calculatedFrom `it's`,
    },
    @calculatedFrom(""a	b"")
    @tag(00)
    @rightPad(' ')
    u64 stringy @calculatedFrom(""a	b""),
    @leftPad('\x00')
    options1 `" ++ [233]%N ++ runes_of_ascii "`,
    @rightPad()
    repeat char[007] Foo `line1
        line2`,
}

options {
    len = '\x00';
    roots = ""{,}""
    packetx = i64;
}")).
Eval vm_compute in ("<<<M1013>>>" ++ check (runes_of_ascii "options { int =
""`tick`"" ; Foo  =' '	; Foo =
""x y"" ; x_y_z	= ""x y""
    //	t
    ;}packet uint8x { @lengthOf( int
// `tick` ""quote"" 'q'
// trailing space 
)
@tag( 0 )
    Pad // `tick` ""quote"" 'q'
,u8 x ,	@lengthOf(Z9_ )
    f32 BodyLength
    `crlf
line` ,repeat
char[255
] f32a
    ,  repeat msg_type
lengthOf,
@leftPad ('\x00'
) repeat int32
asx,
    repeat string f32a //x
, // `tick` ""quote"" 'q'
} MetaData packetx { int64 asx , Foo
len`// not a comment` , i32
MetaDataX `" ++ [233]%N ++ runes_of_ascii "`
    ,
    Foo
Header
`line1
line2` ,
    zchar[ 0123456789
] lengthOf ,	float32 metadata , }")).
Eval vm_compute in ("<<<M1045>>>" ++ check (runes_of_ascii "MetaData pack
{} // trailing space 
MetaData
    u { zchar[
    7 ] lengthOf `say ""hi""`
    , }packet // trailing space 
metadata {
    @leftPad ()
    stringy chars ,
    repeat
    int {
uint8  A , zchar[ 4294967296]Packet @lengthOf( x
)`
`
    ,
repeat
    crc zchar , }
// " ++ [128512]%N ++ runes_of_ascii " emoji
//x
, repeat options1 { u16 u
, string_ { string_
    MetaDataX,repeat char[	0123456789
]  uint8x ,
repeat uint32 T ,
// packet A { u8 x, }
//x
}, uint16 packetx , }
// packet A { u8 x, }
// `tick` ""quote"" 'q'
, @leftPad (
' ' ) rootA `crlf
line` ,}
// " ++ [27880; 37322]%N ++ runes_of_ascii "
")).
Eval vm_compute in ("<<<M3679>>>" ++ check (runes_of_ascii "
root

packet string_{
    @tag( 65535	)	u8	u8x

    @calculatedFrom( ""it's"" // packet A { u8 x, }
  )

    , 
zchar[ 
10
    // " ++ [27880; 37322]%N ++ runes_of_ascii "
		//
  ]

    pack,
	string  f32a ,
	Pad

x  `say ""hi""`
	,
	@calculatedFrom( ""`tick`"" 
) 	 // c
  @rightPad( ' ' 
)
@calculatedFrom( 
""" ++ [128512]%N ++ runes_of_ascii """) match
    tag

as

    u128

    { [255

    ,
	""packet""

    ,
    4294967296
,

""// no comment"",

""\n""
    , // a // b
65535
    , """" 
        // c
  ,""" ++ [28040; 24687]%N ++ runes_of_ascii """
]
:  falsey""CRC32""
: 
uint8x
, [007

,
    3
, """ ++ [28040; 24687]%N ++ runes_of_ascii """
	]: As

,
    }
	, }

")).
Eval vm_compute in ("<<<M426>>>" ++ check (runes_of_ascii "
options {x= ""abc"" ; } root packet calculatedFrom {// trailing space 
@tag( 1 )match	x_y_z
    as int //	t
{[ ""it's"" ] :
    uint8x ,  4294967296 : i64_ , ""x y"": // `tick` ""quote"" 'q'
BodyLength , ""x y"" : u8x, }  ,
    @tag(007)@tag( 7)
    // " ++ [27880; 37322]%N ++ runes_of_ascii "
    @lengthOf( x_y_z )
    u64 crc, @calculatedFrom( ""CRC32"" ) u64 chars @calculatedFrom(// " ++ [27880; 37322]%N ++ runes_of_ascii "
""// no comment""
    ) ,@rightPad
// c
//x
( ) zchar[ 10 ] lengthOf ,
char[ 65535	] u128
    // c
    ,}
options { falsey = true ; } packet
BodyLength
    {}")).
Eval vm_compute in ("<<<M1117>>>" ++ check (runes_of_ascii "options {T = zchar[ 0123456789
    ] }root packet Pad { match repeatCount  as pack{[ 3 ,
    /// triple
    255, ""// no comment""
, """ ++ [28040; 24687]%N ++ runes_of_ascii """ , ""it's"",
255
, ""it's"" ]:
packetx
    // `tick` ""quote"" 'q'
    ,
} ,
@calculatedFrom( ""CRC32""
) @lengthOf( Header)	@lengthOf( u ) match As
    as  calculatedFrom// c
{ [	255, 00]
// trailing space 
/// triple
:// " ++ [128512]%N ++ runes_of_ascii " emoji
Z9_ ,
[""a	b""]:// packet A { u8 x, }
Header}
// trailing space 
// " ++ [128512]%N ++ runes_of_ascii " emoji
,  x_y_z
,
    // packet A { u8 x, }
    }
")).
Eval vm_compute in ("<<<M3631>>>" ++ check (runes_of_ascii "
options	{ StringPrefixLenType
	=	u8
	;
ArrayPrefixLenType
= u32 ;

    } packet	Quote {

    u32	Ref
,InNote74

{	u8	pad0,  }  ,}

packet Ack
{
	repeat string	OrderId, 
}
    packet Logout
{zchar[
    7
    ] venue,

char[
12 
] Px, string	count ,
char[]Tail,char[]

    Qty ,

    Quote  ,}root 
packet
Trade
	{ zchar[2	] price,
u32  x, u32 lastPx
@lengthOf(Body 
) ,

match x
as Body { 148
	:

Ack, 171 : Quote ,	15

    :Logout , }  ,}

")).
Eval vm_compute in ("<<<M680>>>" ++ check (runes_of_ascii "packet len { @tag( 4294967296 ) repeat f32 a1 `" ++ [28040; 24687; 31867; 22411]%N ++ runes_of_ascii "`
    ,
uint8x
`
`
//
//	t
,} root packet rootA
    { match crc
    as // packet A { u8 x, }
i8i8 // c
{ ""a\""b"" : _x
00 :
Packet , ""// no comment"" : MetaDataX , // c
[  """ ++ [28040; 24687]%N ++ runes_of_ascii """//x
, 007 ] : MetaDataX 42:  charz , [ """ ++ [233]%N ++ runes_of_ascii "t" ++ [233]%N ++ runes_of_ascii """	, // a // b
""abc"" ]: _x, } , uint16 Logon, @leftPad
    (
' ' ) // packet A { u8 x, }
@leftPad
( // " ++ [27880; 37322]%N ++ runes_of_ascii "
' ' ) uint8  stringy @lengthOf(
    msg_type ) `
`
    , }")).
Eval vm_compute in ("<<<M408>>>" ++ check (runes_of_ascii "packet body{ @tag(42 )
rootA Logon `line1
line2`
, repeatCount{ repeat lengthOf x_y_z , Pad
    , repeat falsey packetx
    ,	string rootA`` /// triple
,} ,
@leftPad
    // a // b
    ('\x00' )char[
0
]
    roots , msg_type
,
u128 charz
    ,
    string crc`" ++ [28040; 24687; 31867; 22411]%N ++ runes_of_ascii "`
    , match Header as Packet
    {
10  :x , [
//x
// `tick` ""quote"" 'q'
""1""] : matchKey
, 10
: // @lengthOf(
i64_ 255// a // b
:T , } ,
} packet	o { }")).
Eval vm_compute in ("<<<M4209>>>" ++ check (runes_of_ascii "MetaData f32a {
    char[] trueish,
    float64 u128 `" ++ [28040; 24687; 31867; 22411]%N ++ runes_of_ascii "`,
    //	t
    tag f32a,
    matchKey int `two words`,
    i8 pack `a\`,
}

packet asx {
    int8 Header `say ""hi""`,
}

MetaData roots {
    i32 tag `" ++ [233]%N ++ runes_of_ascii "`,
    crc Z9_,
    T T `
        `,//
    int32 matchKey,
    matchKey Header `line1
        line2`,
    // `tick` ""quote"" 'q'
    //x
    char[0] MetaDataX,
    // c
    // @lengthOf(
}// " ++ [27880; 37322]%N)).
Eval vm_compute in ("<<<M701>>>" ++ check (runes_of_ascii "// a // b
root	packet
//x
// `tick` ""quote"" 'q'
f32a { } root packet  packetx { match x_y_z as	Logon{ // `tick` ""quote"" 'q'
""" ++ [28040; 24687]%N ++ runes_of_ascii """
    : Packet
[ 7
] // @lengthOf(
:falsey
,	""`tick`""
: roots
    ,	""packet"" : u128 , } ,match falsey as metadata
{65535 :As
,  ""a\""b""
: crc,
""\" ++ [233]%N ++ runes_of_ascii """
: Logon
    , } , u8x `two words` , @tag( 0 )Z9_,}
// " ++ [128512]%N ++ runes_of_ascii " emoji
// " ++ [128512]%N ++ runes_of_ascii " emoji
options	{	options1 = false }")).
Eval vm_compute in ("<<<M533>>>" ++ check (runes_of_ascii "
packet repeatCount {uint64
stringy, } options {
crc
    = '0' } //x
packet int{ repeat
a1 charz ,
    }options { matchKey = """ ++ [28040; 24687]%N ++ runes_of_ascii """  ;
    crc = """ ++ [28040; 24687]%N ++ runes_of_ascii """ ;roots= // `tick` ""quote"" 'q'
'\x00'
;
// packet A { u8 x, }
//x
} packet i8i8{ @calculatedFrom( ""abc""
) char[]_x `
`
,/// triple
uint8 Packet// a // b
`crlf
line` , string_ `{ , }` // " ++ [27880; 37322]%N ++ runes_of_ascii "
,
/// triple
// " ++ [128512]%N ++ runes_of_ascii " emoji
}")).
Eval vm_compute in ("<<<M858>>>" ++ check (runes_of_ascii "MetaData _x{
    body
float
, float64
    x_y_z `tab	here` ,  char[00
]
o`a\`
, Z9_	crc
    `doc`
,} packet options1 { @lengthOf( T )@lengthOf( chars  ) @rightPad
(
    ' '  ) string_ falsey ,
    // packet A { u8 x, }
    } MetaData Pad
{ //x
Foo Z9_
    `crlf
line` , x_y_z packetx	,
    uint32 calculatedFrom , i64 falsey ,packetx As ``,  }")).
Eval vm_compute in ("<<<M771>>>" ++ check (runes_of_ascii "MetaData
chars{ zchar[// " ++ [27880; 37322]%N ++ runes_of_ascii "
3] As `say ""hi""` , }root packet lengthOf
{
//
/// triple
@rightPad( ' '
// " ++ [27880; 37322]%N ++ runes_of_ascii "
// @lengthOf(
) f32 MetaDataX  @calculatedFrom( """"
    )`{ , }` , match string_
as // trailing space 
x_y_z { 42
: lengthOf,00  :chars ""// no comment"" : BodyLength , ""// no comment"":	tag ,255 : a1 ,
""""	:
stringy
,
    },
    }
")).
Eval vm_compute in ("<<<M570>>>" ++ check (runes_of_ascii "options {
i64_  = char[
    65535 ]
T = '0' } packet
crc{@calculatedFrom(
""abc"" )zchar[ 007 ] //
msg_type
@lengthOf( Header)  , repeat int8 string_
`crlf
line`
,tag@lengthOf( BodyLength ) ,  }
    // trailing space 
    options
    {
    //
    matchKey =
// c
// c
""" ++ [128512]%N ++ runes_of_ascii """	; /// triple
asx =' '	; crc
    = true
;
    }")).
Eval vm_compute in ("<<<M2041>>>" ++ check (runes_of_ascii "MetaData
    u { }  options {
// c
// @lengthOf(
float = int8 ;rootA =false ; As =	int16 // `tick` ""quote"" 'q'
repeatCount
    // trailing space 
    =
    int16
; u8x =
    //	t
    '\x00' ; } options	{
    repeatCount
= 0
u128
    //
    = false ; i64_
// trailing space 
// `tick` ""quote"" 'q'
= '0' '0' ; //	t
}
")).
Eval vm_compute in ("<<<M2026>>>" ++ check (runes_of_ascii "MetaData
    u { }  options {
// c
// @lengthOf(
float = int8 ;rootA =false ; As =	int16 // `tick` ""quote"" 'q'
repeatCount
    // trailing space 
    =
    int16
; u8x =
    //	t
    '\x00' ; } options	{
    repeatCount
= 0
u128
    //
    = false ; ; i64_
// trailing space 
// `tick` ""quote"" 'q'
= '0' ; //	t
}
")).
Eval vm_compute in ("<<<M1863>>>" ++ check (runes_of_ascii "MetaData
    ( { }  options {
// c
// @lengthOf(
float = int8 ;rootA =false ; As =	int16 // `tick` ""quote"" 'q'
repeatCount
    // trailing space 
    =
    int16
; u8x =
    //	t
    '\x00' ; } options	{
    repeatCount
= 0
u128
    //
    = false ; i64_
// trailing space 
// `tick` ""quote"" 'q'
= '0' ; //	t
}
")).
Eval vm_compute in ("<<<M2012>>>" ++ check (runes_of_ascii "MetaData
    u { }  options {
// c
// @lengthOf(
float = int8 ;rootA =false ; As =	int16 // `tick` ""quote"" 'q'
repeatCount
    // trailing space 
    =
    int16
; u8x =
    //	t
    '\x00' ; } options	{
    repeatCount
= 0
=
    //
    u128 false ; i64_
// trailing space 
// `tick` ""quote"" 'q'
= '0' ; //	t
}
")).
Eval vm_compute in ("<<<M2015>>>" ++ check (runes_of_ascii "MetaData
    u { }  options {
// c
// @lengthOf(
float = int8 ;rootA =false ; As =	int16 // `tick` ""quote"" 'q'
repeatCount
    // trailing space 
    =
    int16
; u8x =
    //	t
    '\x00' ; } options	{
    repeatCount
= 0
u128
    //
     false ; i64_
// trailing space 
// `tick` ""quote"" 'q'
= '0' ; //	t
}
")).
Eval vm_compute in ("<<<M1943>>>" ++ check (runes_of_ascii "MetaData
    u { }  options {
// c
// @lengthOf(
float = int8 ;rootA =false ; As =	int16 // `tick` ""quote"" 'q'
match
    // trailing space 
    =
    int16
; u8x =
    //	t
    '\x00' ; } options	{
    repeatCount
= 0
u128
    //
    = false ; i64_
// trailing space 
// `tick` ""quote"" 'q'
= '0' ; //	t
}
")).
Eval vm_compute in ("<<<M1340>>>" ++ check (runes_of_ascii "  root
// `tick` ""quote"" 'q'
//
packet
    T
    {	@rightPad (	) @calculatedFrom( ""it's""
) int A, match
    Packet as Packet { 0123456789 : u128 ,// c
""a\\"" : Foo , 1:// @lengthOf(
int , [
    // " ++ [128512]%N ++ runes_of_ascii " emoji
    7, 4294967296 , ""\n"" ,
""abc""	,
""abc"",
""\" ++ [233]%N ++ runes_of_ascii """] : msg_type }, }
    options
{ zchar  =
' ' ; }
")).
Eval vm_compute in ("<<<M3728>>>" ++ check (runes_of_ascii "

  options 
{ 
LittleEndian

= true
	;
}packet  Sub {
	u8

a
	,
    @calculatedFrom( 
""CRC16""
)u64
SubSum , }root
    packet	Frame
	{u16	MsgType 
,

    u16 BodyLen

@lengthOf(
    Body  ), Sub  Body 
,

    string note
	,
	@calculatedFrom(

""CRC16"" 
) u64 Checksum

,
u8	tail
,  }
")).
Eval vm_compute in ("<<<M4461>>>" ++ check (runes_of_ascii "root packet BodyLength {
    u16 tag @calculatedFrom(""packet""),
    u8 i8i8,
    repeat float64 string_ `u8 x,`,
}

MetaData stringy {
    repeatCount a1,
    // " ++ [27880; 37322]%N ++ runes_of_ascii "
    char[0123456789] u128 `doc`,
    u16 _x,
    i64 pack,
    i64 BodyLength `say ""hi""`,
    zchar[255] Z9_,
}")).
Eval vm_compute in ("<<<M3928>>>" ++ check (runes_of_ascii "packet MDSnapshotZZ {
    u8 a,
}

packet OrderACK {
    u16 b,
}

packet HTTPServerInfo {
    string s,
}

root packet FIXMsg {
    u8 KType,
    MDSnapshotZZ,
    repeat OrderACK,
    match KType as Body {
        1 : HTTPServerInfo,
        2 : OrderACK,
    },
}")).
Eval vm_compute in ("<<<M1489>>>" ++ check (runes_of_ascii "packet packet
//	t
// trailing space 
_x {
// packet A { u8 x, }
// c
char[
3
    ] u8x @lengthOf(
u8x ) , @calculatedFrom(""" ++ [128512]%N ++ runes_of_ascii """ // @lengthOf(
)
i16	Foo
@lengthOf(	string_
    )`doc`	, repeat	i64 metadata , @lengthOf( string_
) i8 // c
u  `line1
line2`	,
}
")).
Eval vm_compute in ("<<<M1628>>>" ++ check (runes_of_ascii "packet
//	t
// trailing space 
_x {
// packet A { u8 x, }
// c
char[
3
    ] u8x @lengthOf(
u8x ) , @calculatedFrom(""" ++ [128512]%N ++ runes_of_ascii """ // @lengthOf(
)
i16	Foo
@lengthOf(	string_
    )`doc`	, repeat	i64 metadata , @lengthOf( string_
) i8 i8 // c
u  `line1
line2`	,
}
")).
Eval vm_compute in ("<<<M1658>>>" ++ check (runes_of_ascii "packet
|//	t
// trailing space 
_x {
// packet A { u8 x, }
// c
char[
3
    ] u8x @lengthOf(
u8x ) , @calculatedFrom(""" ++ [128512]%N ++ runes_of_ascii """ // @lengthOf(
)
i16	Foo
@lengthOf(	string_
    )`doc`	, repeat	i64 metadata , @lengthOf( string_
) i8 // c
u  `line1
line2`	,
}
")).
Eval vm_compute in ("<<<M1579>>>" ++ check (runes_of_ascii "packet
//	t
// trailing space 
_x {
// packet A { u8 x, }
// c
char[
3
    ] u8x @lengthOf(
u8x ) , @calculatedFrom(""" ++ [128512]%N ++ runes_of_ascii """ // @lengthOf(
)
i16	Foo
@lengthOf(	string_
    `doc`)	, repeat	i64 metadata , @lengthOf( string_
) i8 // c
u  `line1
line2`	,
}
")).
Eval vm_compute in ("<<<M1622>>>" ++ check (runes_of_ascii "packet
//	t
// trailing space 
_x {
// packet A { u8 x, }
// c
char[
3
    ] u8x @lengthOf(
u8x ) , @calculatedFrom(""" ++ [128512]%N ++ runes_of_ascii """ // @lengthOf(
)
i16	Foo
@lengthOf(	string_
    )`doc`	, repeat	i64 metadata , @lengthOf( string_
 i8 // c
u  `line1
line2`	,
}
")).
Eval vm_compute in ("<<<M1592>>>" ++ check (runes_of_ascii "packet
//	t
// trailing space 
_x {
// packet A { u8 x, }
// c
char[
3
    ] u8x @lengthOf(
u8x ) , @calculatedFrom(""" ++ [128512]%N ++ runes_of_ascii """ // @lengthOf(
)
i16	Foo
@lengthOf(	string_
    )`doc`	, 	i64 metadata , @lengthOf( string_
) i8 // c
u  `line1
line2`	,
}
")).
Eval vm_compute in ("<<<M4582>>>" ++ check (runes_of_ascii "packet calculatedFrom {
    match Logon as u128 {
        [1, ""// no comment""] : u8x,
        ""`tick`"" : Header,
        ""`tick`"" : BodyLength,
        ""it's"" : zchar,
    },// `tick` ""quote"" 'q'
    char metadata @calculatedFrom(""a\\""),
}")).
Eval vm_compute in ("<<<M4064>>>" ++ check (runes_of_ascii "  // @lengthOf(
    MetaData

Foo
	{}
    MetaData  // trailing space 
	packetx	{

f32a	A 
`two words` ,u8	u8x	`" ++ [28040; 24687; 31867; 22411]%N ++ runes_of_ascii "`,
    charz
lengthOf
    /// triple
    ,int
x_y_z

    ,  // " ++ [128512]%N ++ runes_of_ascii " emoji
	char[
    00 ]	packetx 
,
} // a // b")).
Eval vm_compute in ("<<<M3987>>>" ++ check (runes_of_ascii "packet roots {
    pack,
    @calculatedFrom(""it's"")
    MetaDataX @lengthOf(u),
    @lengthOf(falsey)
    metadata _x `doc`,
}

options {
    BodyLength = """ ++ [28040; 24687]%N ++ runes_of_ascii """;
    Packet = 0123456789;
    T = ' ';
    T = 4294967296;
}")).
Eval vm_compute in ("<<<M1125>>>" ++ check (runes_of_ascii "MetaData string_ {
i32 packetx
`doc`, }//
packet zchar{ @rightPad
    (' '
)@calculatedFrom(""`tick`"" ) @calculatedFrom( ""CRC32"" // c
)u8x
    /// triple
    @lengthOf(
    Foo ) ,
    }	root
packet i8i8
    { }

")).
Eval vm_compute in ("<<<M3424>>>" ++ check (runes_of_ascii "// top
packet // c0
o // c1
{ // c2
repeat // c3
Logon // c4
uint8x // c5
, // c6
} // c7
options // c8
{ // c9
asx // c10
= // c11
zchar[ // c12
3 // c13
] // c14
stringy // c15
= // c16
'\x00' // c17
} // c18
")).
Eval vm_compute in ("<<<M713>>>" ++ check (runes_of_ascii "// @lengthOf(
MetaData
    Foo{} MetaData// trailing space 
packetx
{ f32a A
`two words` , u8
u8x `" ++ [28040; 24687; 31867; 22411]%N ++ runes_of_ascii "`,	charz
    lengthOf
    /// triple
    ,
int x_y_z , // " ++ [128512]%N ++ runes_of_ascii " emoji
char[ 00	] packetx
    ,} // a // b")).
Eval vm_compute in ("<<<M1848>>>" ++ check (runes_of_ascii "options { trueish = ""`tick`"" ; string_= """ ++ [233]%N ++ runes_of_ascii "t" ++ [233]%N ++ runes_of_ascii """
    // c
    } root
    packet body { stringy @calculatedFrom(
""a	b"" " ++ [8232]%N ++ runes_of_ascii ") `line1
line2` , }
packet Logon {
    @leftPad(
    ' ' ) //	t
u16 string_ `u8 x,` ,
}
")).
Eval vm_compute in ("<<<M1773>>>" ++ check (runes_of_ascii "options { trueish = ""`tick`"" ; string_= """ ++ [233]%N ++ runes_of_ascii "t" ++ [233]%N ++ runes_of_ascii """
    // c
    } root
    packet body { stringy @calculatedFrom(
""a	b"" ) `line1
line2` , packet
} Logon {
    @leftPad(
    ' ' ) //	t
u16 string_ `u8 x,` ,
}
")).
Eval vm_compute in ("<<<M1806>>>" ++ check (runes_of_ascii "options { trueish = ""`tick`"" ; string_= """ ++ [233]%N ++ runes_of_ascii "t" ++ [233]%N ++ runes_of_ascii """
    // c
    } root
    packet body { stringy @calculatedFrom(
""a	b"" ) `line1
line2` , }
packet Logon {
    @leftPad(
    ' '  //	t
u16 string_ `u8 x,` ,
}
")).
Eval vm_compute in ("<<<M1749>>>" ++ check (runes_of_ascii "options { trueish = ""`tick`"" ; string_= """ ++ [233]%N ++ runes_of_ascii "t" ++ [233]%N ++ runes_of_ascii """
    // c
    } root
    packet body { stringy @lengthOf(
""a	b"" ) `line1
line2` , }
packet Logon {
    @leftPad(
    ' ' ) //	t
u16 string_ `u8 x,` ,
}
")).
Eval vm_compute in ("<<<M4574>>>" ++ check (runes_of_ascii "packet calculatedFrom {
    @calculatedFrom(""{,}"")
    // c
    @tag(65535)
    f32 Packet @lengthOf(o),
    @calculatedFrom(""`tick`"")
    uint32 MetaDataX @calculatedFrom(""it's"") ``,
}// a // b")).
Eval vm_compute in ("<<<M277>>>" ++ check (runes_of_ascii "// " ++ [128512]%N ++ runes_of_ascii " emoji
MetaData trueish {
    // @lengthOf(
    asx lengthOf
    // a // b
    , int8 // c
float`it's`
,}
MetaData
int{ int8
charz ,} packet asx { o @calculatedFrom(
""\" ++ [233]%N ++ runes_of_ascii """
    ) ,
}
")).
Eval vm_compute in ("<<<M4204>>>" ++ check (runes_of_ascii "
packet 
Z9_

    { 
// trailing space 

  // " ++ [128512]%N ++ runes_of_ascii " emoji
  @calculatedFrom(
	""1""  )// packet A { u8 x, }
    matchKey
	@calculatedFrom( """ ++ [128512]%N ++ runes_of_ascii """

)`tab	here`

,} 

// packet A { u8 x, }")).
Eval vm_compute in ("<<<M3391>>>" ++ check (runes_of_ascii "// top
MetaData // c0
body
    // c1
{
    // c2
i64
    // c3
pack `it's`
    // c5
, } packet stringy // c9
{ // c10
int16
    // c11
calculatedFrom ,
    // c13
} // c14
")).
Eval vm_compute in ("<<<M259>>>" ++ check (runes_of_ascii "options { Pad = char[]; u8x
    // trailing space 
    =
    ""packet"";
o = i64
; stringy
=""a\""b""
packetx
    // trailing space 
    = 65535
} options
{ chars
= '0'}")).
Eval vm_compute in ("<<<M1372>>>" ++ check (runes_of_ascii "packet
x	{ As { a1
{ char[
65535 ]
// " ++ [27880; 37322]%N ++ runes_of_ascii "
/// triple
crc `` ,	msg_type ,} , } , repeat Z9_ {
    T ,	pack ,	repeat tag  A, int64/// triple
f32a`u8 x,` ,	}
,
} 	 ")).
Eval vm_compute in ("<<<M627>>>" ++ check (runes_of_ascii "//
MetaData calculatedFrom {
    char[ 42 ]
tag	,
    body tag ``
, int16 int , zchar[ 42 ] tag //	t
`doc`
, char[]matchKey , uint32 // " ++ [128512]%N ++ runes_of_ascii " emoji
Z9_,  } //	t")).
Eval vm_compute in ("<<<M2165>>>" ++ check (runes_of_ascii "options{
_x
= true
} options
{ o	= /// triple
false
    ; chars
= ""\n"" } root packet	Pad Pad
/// triple
// packet A { u8 x, }
{	chars
    // a // b
    ,}")).
Eval vm_compute in ("<<<M3776>>>" ++ check (runes_of_ascii "packet rootA {
    Z9_ u `doc`,// packet A { u8 x, }
    i16 options1 `// not a comment`,
    @rightPad(' ')
    lengthOf {
        zchar[3] body,
    },
}")).
Eval vm_compute in ("<<<M2397>>>" ++ check (runes_of_ascii "// c
packet x { @lengthOf( metadata ) repeat lengthOf
,a1{
trueish	,// c
repeat//	t
MetaDataX , } , zchar[
    42	] rootA // `tick` ""quote"" 'q'
}
    ,
")).
Eval vm_compute in ("<<<M699>>>" ++ check (runes_of_ascii "// `tick` ""quote"" 'q'
root packet u8x{match zchar as falsey
    { """ ++ [128512]%N ++ runes_of_ascii """:
    len	},}MetaData// c
rootA
{
    //
    char[
3 ] rootA , uint64
asx
    , }")).
Eval vm_compute in ("<<<M3818>>>" ++ check (runes_of_ascii "  packet  A

{

    match
	k	as	n {	[
    1

,	""bb"" ,
	007 , ""d""

    , 5

    ,  ""f""
    ,

    7

,""h"",
	9
	,

""j""]

: 
B

    ,2 :  C	}, } ")).
Eval vm_compute in ("<<<M225>>>" ++ check (runes_of_ascii "
MetaData options1 { zchar[
    007 ] // `tick` ""quote"" 'q'
zchar	`a\` , uint32 As ,
    i8i8
Foo ,
// packet A { u8 x, }
//x
}
    packet falsey { }")).
Eval vm_compute in ("<<<M623>>>" ++ check (runes_of_ascii "packet x_y_z {
@lengthOf(
roots
) u32  Pad `{ , }` ,
    // packet A { u8 x, }
    repeat body{ repeat
    body roots `line1
line2` , }
    ,
}

")).
Eval vm_compute in ("<<<M856>>>" ++ check (runes_of_ascii "root packet Header
{ match leftPad as Foo
    {// c
7 : o
// @lengthOf(
//x
,
0 : u8x 65535: leftPad  ,
    00:
asx  , ""it's"" : //
o , },
    }
")).
Eval vm_compute in ("<<<M565>>>" ++ check (runes_of_ascii "
packet T {
@leftPad ( )
@calculatedFrom(""" ++ [233]%N ++ runes_of_ascii "t" ++ [233]%N ++ runes_of_ascii """ ) msg_type // trailing space 
@lengthOf( i8i8
)`a\`
    ,
// `tick` ""quote"" 'q'
// " ++ [128512]%N ++ runes_of_ascii " emoji
}")).
Eval vm_compute in ("<<<M3360>>>" ++ check (runes_of_ascii "// top
packet // c0
x // c1
{ // c2
@rightPad // c3
( // c4
) // c5
repeat // c6
roots // c7
Logon // c8
`doc` // c9
, // c10
} // c11
")).
Eval vm_compute in ("<<<M698>>>" ++ check (runes_of_ascii "MetaData Z9_ {
    } packet lengthOf {
@tag(
    00	) u32
trueish , // trailing space 
repeat string roots
`doc`	,
} // " ++ [128512]%N ++ runes_of_ascii " emoji")).
Eval vm_compute in ("<<<M254>>>" ++ check (runes_of_ascii "packet rootA {	}
// `tick` ""quote"" 'q'
/// triple
options  {stringy
    =
0123456789
;
T =42 ;
string_ = ""a\""b""
    ; }
//
")).
Eval vm_compute in ("<<<M3359>>>" ++ check (runes_of_ascii "root packet matchKey { zchar[ 3 ] pack @calculatedFrom( ""a	b"" ) `doc` , } options { } MetaData A { int8 msg_type , }
// c
")).
Eval vm_compute in ("<<<M3332>>>" ++ check (runes_of_ascii "root packet matchKey { zchar[ 3 ] pack @calculatedFrom( ""a	b"" ) // c
`doc` , } options { } MetaData A { int8 msg_type , }")).
Eval vm_compute in ("<<<M3774>>>" ++ check (runes_of_ascii "root packet matchKey {
    zchar[3] pack @calculatedFrom(""a	b"") `doc`,
}

options {
}

MetaData A {
    int8 msg_type,
}")).
Eval vm_compute in ("<<<M3976>>>" ++ check (runes_of_ascii "packet metadata {
    Logon {
        // c
        A `" ++ [28040; 24687; 31867; 22411]%N ++ runes_of_ascii "`,
        tag o,
    },
    zchar len `// not a comment`,
}")).
Eval vm_compute in ("<<<M1210>>>" ++ check (runes_of_ascii "
MetaData chars
    { // " ++ [128512]%N ++ runes_of_ascii " emoji
trueish
rootA `say ""hi""` , uint8 Packet , zchar[ 0123456789
    //
    ] Z9_
,	}

")).
Eval vm_compute in ("<<<M1049>>>" ++ check (runes_of_ascii "root
    packet u {
    @leftPad (	' '
    // packet A { u8 x, }
    ) char[	7 ] msg_type @lengthOf( Header) , }
")).
Eval vm_compute in ("<<<M1425>>>" ++ check (runes_of_ascii "
packet
    falsey { Header@calculatedFrom(,  ) , char[
    0123456789 ] packetx
    , } // `tick` ""quote"" 'q'")).
Eval vm_compute in ("<<<M3046>>>" ++ check (runes_of_ascii "packet A {
    Inner {
        u8 x `tab
	x`,
        Deep {
            u8 y `tab
	x`,
        },
    },
}")).
Eval vm_compute in ("<<<M4158>>>" ++ check (runes_of_ascii "
MetaData
	body

{  i64 
pack `it's`  ,  }
    packet
stringy
{  int16
	calculatedFrom	// c
    ,  }
")).
Eval vm_compute in ("<<<M283>>>" ++ check (runes_of_ascii "MetaData asx { chars
f32a , string /// triple
T , } options
{ zchar=
    10
    // " ++ [27880; 37322]%N ++ runes_of_ascii "
    crc= true}
")).
Eval vm_compute in ("<<<M4237>>>" ++ check (runes_of_ascii "MetaData f32a
{	u32 roots	, 
T matchKey`tab	here` , 
    /// triple
  // packet A { u8 x, }
    }
")).
Eval vm_compute in ("<<<M3749>>>" ++ check (runes_of_ascii "options {
    Pad = ""a	b"";
    //
    // `tick` ""quote"" 'q'
    u = '\x00';
    lengthOf = ' ';
}")).
Eval vm_compute in ("<<<M2956>>>" ++ check (runes_of_ascii "packet A {
  match k as n {
    [""a"", 22, ""c c"", 4, ""e"", 66, ""g"", 8, ""i""] : B
    2 : C
  },
}")).
Eval vm_compute in ("<<<M2976>>>" ++ check (runes_of_ascii "packet A {
  match k as n {
    [1, 22, 007, 4, 5, 66, 7, 8, 9, 10, 11] : B
    2 : C
  },
}")).
Eval vm_compute in ("<<<M3268>>>" ++ check (runes_of_ascii "
// c
MetaData float { float64 charz `
` , } root packet chars { @rightPad ( '0' ) Foo , }")).
Eval vm_compute in ("<<<M3280>>>" ++ check (runes_of_ascii "MetaData float { float64 charz `
`
// c
, } root packet chars { @rightPad ( '0' ) Foo , }")).
Eval vm_compute in ("<<<M3491>>>" ++ check (runes_of_ascii "packet chars { } // c
packet MetaDataX { @tag( 42 ) i16 string_ , repeat x `say ""hi""` , }")).
Eval vm_compute in ("<<<M4504>>>" ++ check (runes_of_ascii "// c
MetaData body {
    i64 pack `it's`,
}

packet stringy {
    int16 calculatedFrom,
}")).
Eval vm_compute in ("<<<M2297>>>" ++ check (runes_of_ascii "options
{ } options { BodyLength= u16 Header=~ f64 ; u128 =
    true
    ; } // a // b")).
Eval vm_compute in ("<<<M2228>>>" ++ check (runes_of_ascii "options
{ } options BodyLength {= u16 Header= f64 ; u128 =
    true
    ; } // a // b")).
Eval vm_compute in ("<<<M3231>>>" ++ check (runes_of_ascii "packet metadata { Logon { A `" ++ [28040; 24687; 31867; 22411]%N ++ runes_of_ascii "` , tag o // c
, } , zchar len `// not a comment` , }")).
Eval vm_compute in ("<<<M2281>>>" ++ check (runes_of_ascii "options
{ } options { BodyLength= u16 Header= f64 ; u128 =
    true
     } // a // b")).
Eval vm_compute in ("<<<M3454>>>" ++ check (runes_of_ascii "packet o { repeat Logon uint8x , } options { asx = zchar[
// c
3 ] stringy = '\x00' }")).
Eval vm_compute in ("<<<M965>>>" ++ check (runes_of_ascii "root
packet roots
{
    // " ++ [128512]%N ++ runes_of_ascii " emoji
    calculatedFrom // c
x_y_z ,
    } // a // b")).
Eval vm_compute in ("<<<M3397>>>" ++ check (runes_of_ascii "MetaData body
// c
{ i64 pack `it's` , } packet stringy { int16 calculatedFrom , }")).
Eval vm_compute in ("<<<M1051>>>" ++ check (runes_of_ascii "options {
//	t
// packet A { u8 x, }
roots // packet A { u8 x, }
= char[42 ]
; }")).
Eval vm_compute in ("<<<M2208>>>" ++ check (runes_of_ascii "
{ } options { BodyLength= u16 Header= f64 ; u128 =
    true
    ; } // a // b")).
Eval vm_compute in ("<<<M1735>>>" ++ check (runes_of_ascii "options { trueish = ""`tick`"" ; string_= """ ++ [233]%N ++ runes_of_ascii "t" ++ [233]%N ++ runes_of_ascii """
    // c
    } root
    packet")).
Eval vm_compute in ("<<<M2888>>>" ++ check (runes_of_ascii "packet A {
  match k as n {
    [1, ""bb"", 007, ""d""] : B,
    2 : C
  },
}")).
Eval vm_compute in ("<<<M2874>>>" ++ check (runes_of_ascii "packet A {
  match k as n {
    [""a"", ""bb"", ""c c""] : B
    2 : C
  },
}")).
Eval vm_compute in ("<<<M2285>>>" ++ check (runes_of_ascii "options
{ } options { BodyLength= u16 Header= f64 ; u128 =
    true")).
Eval vm_compute in ("<<<M539>>>" ++ check (runes_of_ascii "root
packet
// a // b
// " ++ [128512]%N ++ runes_of_ascii " emoji
Z9_ // a // b
{ // " ++ [128512]%N ++ runes_of_ascii " emoji
}
")).
Eval vm_compute in ("<<<M2808>>>" ++ check (runes_of_ascii ": char[ uint32 float64 uint32 match as i8 uint32 @lengthOf( ' '")).
Eval vm_compute in ("<<<M22>>>" ++ check (runes_of_ascii "options
    // a // b
    {
float	= char[ 4294967296 ] ; }
")).
Eval vm_compute in ("<<<M2414>>>" ++ check (runes_of_ascii "// c
packet x { @lengthOf( metadata ) repeat lengthOf
,a1")).
Eval vm_compute in ("<<<M3740>>>" ++ check (runes_of_ascii "
root

    packet // c
    u128 {
    chars `it's` ,	}
")).
Eval vm_compute in ("<<<M1030>>>" ++ check (runes_of_ascii "root packet
BodyLength{ rootA
//x
// " ++ [128512]%N ++ runes_of_ascii " emoji
roots , }")).
Eval vm_compute in ("<<<M3047>>>" ++ check (runes_of_ascii "MetaData M {
    u8 x `tab
	x`,
    T t `tab
	x`,
}")).
Eval vm_compute in ("<<<M827>>>" ++ check (runes_of_ascii "MetaData
zchar{zchar[
    // " ++ [27880; 37322]%N ++ runes_of_ascii "
    7 ] crc,
}
")).
Eval vm_compute in ("<<<M1123>>>" ++ check (runes_of_ascii "packet
    string_{  int64	calculatedFrom , }")).
Eval vm_compute in ("<<<M2726>>>" ++ check (runes_of_ascii "] uint16 options repeat uint8 = u32 int64 }")).
Eval vm_compute in ("<<<M4247>>>" ++ check (runes_of_ascii "packet len {
    int16 trueish `
    `,
}")).
Eval vm_compute in ("<<<M240>>>" ++ check (runes_of_ascii "
packet Header{ char[] body
//x
//
, }
")).
Eval vm_compute in ("<<<M2736>>>" ++ check ([65533; 65533]%N ++ runes_of_ascii "l," ++ [65533]%N ++ runes_of_ascii "," ++ [65533]%N ++ runes_of_ascii ":2fu" ++ [65533; 24; 65533; 65533; 65533]%N ++ runes_of_ascii "AF" ++ [65533; 4; 65533; 65533]%N ++ runes_of_ascii "G" ++ [65533; 65533; 65533]%N ++ runes_of_ascii "_e" ++ [65533; 65533; 65533; 65533; 65533]%N ++ runes_of_ascii "PM" ++ [65533; 65533]%N)).
Eval vm_compute in ("<<<M951>>>" ++ check (runes_of_ascii "MetaData A
    {
//
// @lengthOf(
}")).
Eval vm_compute in ("<<<M2825>>>" ++ check ([19; 29165]%N ++ runes_of_ascii "a" ++ [15; 65533; 127; 65533; 65533; 65533; 65533; 17; 65533]%N ++ runes_of_ascii "=" ++ [65533; 65533; 65533; 65533]%N ++ runes_of_ascii "{=xu" ++ [65533; 26]%N ++ runes_of_ascii "6k" ++ [65533]%N ++ runes_of_ascii "N" ++ [65533; 65533; 65533]%N ++ runes_of_ascii "S" ++ [65533]%N ++ runes_of_ascii """r")).
Eval vm_compute in ("<<<M2587>>>" ++ check (runes_of_ascii "packet A { x @lengthOf(y) `d`, }")).
Eval vm_compute in ("<<<M169>>>" ++ check (runes_of_ascii "packet
body { // @lengthOf(
}")).
Eval vm_compute in ("<<<M80>>>" ++ check (runes_of_ascii "packet u8x {
    //	t
    }

")).
Eval vm_compute in ("<<<M1168>>>" ++ check (runes_of_ascii "MetaData Foo// " ++ [128512]%N ++ runes_of_ascii " emoji
{  }")).
Eval vm_compute in ("<<<M2623>>>" ++ check (runes_of_ascii "packet A { @tag(x) u8 x, }")).
Eval vm_compute in ("<<<M3875>>>" ++ check (runes_of_ascii "
MetaData o 	 // c
{
}

")).
Eval vm_compute in ("<<<M2669>>>" ++ check (runes_of_ascii "options { packet = 1; }")).
Eval vm_compute in ("<<<M2849>>>" ++ check (runes_of_ascii "z0`2w_O`%NxUiI'L*8[s/")).
Eval vm_compute in ("<<<M385>>>" ++ check (runes_of_ascii "packet lengthOf
{ }")).
Eval vm_compute in ("<<<M4396>>>" ++ check (runes_of_ascii "root packet len {
}")).
Eval vm_compute in ("<<<M3110>>>" ++ check (runes_of_ascii "packet A {
}
// c" ++ [8287]%N)).
Eval vm_compute in ("<<<M2796>>>" ++ check (runes_of_ascii "p08:'V`g3?Q~EbZ,T")).
Eval vm_compute in ("<<<M2758>>>" ++ check (runes_of_ascii "{ uint64 options")).
Eval vm_compute in ("<<<M1011>>>" ++ check (runes_of_ascii "packet len {}")).
Eval vm_compute in ("<<<M2751>>>" ++ check ([65533; 65533]%N ++ runes_of_ascii "Q" ++ [65533; 65533; 2]%N ++ runes_of_ascii "l" ++ [65533]%N ++ runes_of_ascii "o" ++ [65533]%N ++ runes_of_ascii "Y")).
Eval vm_compute in ("<<<M2484>>>" ++ check (runes_of_ascii "@leftpad")).
Eval vm_compute in ("<<<M2452>>>" ++ check (runes_of_ascii "falsey")).
Eval vm_compute in ("<<<M2490>>>" ++ check (runes_of_ascii "@tag(")).
Eval vm_compute in ("<<<M2448>>>" ++ check (runes_of_ascii "true")).
Eval vm_compute in ("<<<M2499>>>" ++ check (runes_of_ascii "/ /")).
Eval vm_compute in ("<<<M2453>>>" ++ check (runes_of_ascii "as")).
Eval vm_compute in ("<<<M2677>>>" ++ check (runes_of_ascii ",")).
