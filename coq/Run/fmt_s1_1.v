From FP Require Import Lexer Parser ShowPT Digest Formatter.
From Coq Require Import String List NArith.
Import ListNotations.
Open Scope string_scope.
Set Printing Width 100000000.
Set Printing Depth 100000000.
Definition show_fres (r : fres) : string :=
  match r with
  | FOk s => "OK:" ++ sh_escaped s ""
  | FErr s => "ERR:" ++ sh_escaped s ""
  | FPanic p => "PANIC:" ++ p
  end.
Definition check (rs : list rune) : string := digest (show_fres (format_res rs)).
Definition full (rs : list rune) : string := show_fres (format_res rs).
Eval vm_compute in ("<<<M1572>>>" ++ check (runes_of_ascii "// top
options // c0a
  // c0b
{ // c1
ArrayPrefixLenType // c2a
  // c2b
= u16 // c4a
  // c4b
; // c5a
  // c5b
FixedStringPadFromLeft
    // c6
= true ; // c9
JavaPackage // c10a
  // c10b
= ""com.example.msg"" // c12
; // c13
GoPackage
    // c14
= ""msg""
    // c16
; GoModule
    // c18
= ""example.com/msg"" ; } MetaData Meta // c24
{
    // c25
u32 SeqNum `sequence number` ,
    // c29
char[ 8 // c31
]
    // c32
Symbol // c33a
  // c33b
`symbol`
    // c34
,
    // c35
zchar[ // c36a
  // c36b
5 // c37a
  // c37b
] ZSym // c39
`z symbol`
    // c40
, // c41a
  // c41b
string
    // c42
Note , // c44
Symbol
    // c45
AltSymbol // c46a
  // c46b
`alias of symbol`
    // c47
,
    // c48
f64 // c49
Price // c50a
  // c50b
,
    // c51
} // c52a
  // c52b
packet // c53a
  // c53b
Inner // c54
{
    // c55
u8
    // c56
a // c57a
  // c57b
, // c58a
  // c58b
i16
    // c59
b // c60
, // c61a
  // c61b
string // c62
c , // c64a
  // c64b
}
    // c65
packet Inner2 // c67a
  // c67b
{ // c68a
  // c68b
u8 a2
    // c70
, // c71a
  // c71b
char[ 3 ] // c74
c2 ,
    // c76
} packet Logon // c79
{
    // c80
u8 // c81
x
    // c82
,
    // c83
string
    // c84
user , repeat u16 // c88a
  // c88b
codes , // c90
}
    // c91
packet // c92
Logout // c93a
  // c93b
{ // c94
u16 // c95a
  // c95b
reason
    // c96
, // c97
} // c98
packet
    // c99
Empty { // c101a
  // c101b
}
    // c102
root // c103a
  // c103b
packet // c104a
  // c104b
Msg
    // c105
{ // c106a
  // c106b
u8
    // c107
su8 // c108
, uint8
    // c110
luint8
    // c111
, // c112
u16
    // c113
su16 // c114
, // c115a
  // c115b
uint16 // c116
luint16 , // c118
u32 // c119a
  // c119b
su32
    // c120
, // c121
uint32
    // c122
luint32 // c123a
  // c123b
, // c124
u64 su64 // c126a
  // c126b
, uint64 luint64 ,
    // c130
i8
    // c131
si8 // c132
, // c133
int8
    // c134
lint8 // c135a
  // c135b
, // c136a
  // c136b
i16
    // c137
si16 // c138
, // c139a
  // c139b
int16 // c140a
  // c140b
lint16
    // c141
, // c142a
  // c142b
i32 // c143a
  // c143b
si32 // c144a
  // c144b
,
    // c145
int32
    // c146
lint32 ,
    // c148
i64 // c149a
  // c149b
si64 // c150a
  // c150b
, // c151a
  // c151b
int64 lint64 // c153
,
    // c154
f32
    // c155
sf32 // c156a
  // c156b
, // c157a
  // c157b
float32 lfloat32 // c159a
  // c159b
,
    // c160
f64
    // c161
sf64
    // c162
,
    // c163
float64 lfloat64
    // c165
, // c166
char[
    // c167
6 // c168a
  // c168b
]
    // c169
fsplain
    // c170
, // c171
@leftPad // c172
( '0' // c174a
  // c174b
) char[ 4 ] fs0 // c179
, // c180a
  // c180b
@rightPad
    // c181
( '0' // c183a
  // c183b
) // c184a
  // c184b
char[ 5 // c186
] // c187a
  // c187b
fs1 , // c189a
  // c189b
@leftPad
    // c190
( // c191
' '
    // c192
) // c193
char[ // c194
6 // c195
] // c196a
  // c196b
fs2 // c197
,
    // c198
@rightPad // c199
(
    // c200
' '
    // c201
) // c202
char[
    // c203
7 // c204a
  // c204b
] fs3 // c206
, // c207
@leftPad // c208a
  // c208b
( '\x00' // c210a
  // c210b
) char[ 8
    // c213
] // c214
fs4 , @rightPad (
    // c218
'\x00' // c219
)
    // c220
char[ // c221
9 // c222a
  // c222b
]
    // c223
fs5 // c224a
  // c224b
, // c225
@leftPad // c226a
  // c226b
(
    // c227
) // c228
char[
    // c229
10
    // c230
] // c231
fs6 // c232a
  // c232b
, @rightPad // c234a
  // c234b
( // c235a
  // c235b
) // c236
char[ 11 // c238a
  // c238b
] // c239
fs7 , // c241a
  // c241b
zchar[ 7 // c243
] fz // c245
,
    // c246
@leftPad
    // c247
(
    // c248
'0' // c249
)
    // c250
zchar[ // c251a
  // c251b
3 // c252a
  // c252b
] // c253
fzl0 // c254a
  // c254b
, // c255
string // c256
s1
    // c257
`doc` // c258a
  // c258b
, // c259a
  // c259b
char[]
    // c260
s2 // c261
, // c262
Inner
    // c263
, Sub { // c266a
  // c266b
u8
    // c267
q // c268
, string w // c271a
  // c271b
,
    // c272
Deep // c273a
  // c273b
{ u16 // c275
z // c276a
  // c276b
, // c277
repeat i32 // c279a
  // c279b
zs // c280a
  // c280b
,
    // c281
}
    // c282
,
    // c283
}
    // c284
, repeat // c286
u8 ru8 , // c289
repeat u16 // c291
ru16 // c292
, // c293a
  // c293b
repeat
    // c294
u32 ru32 // c296a
  // c296b
, // c297
repeat // c298a
  // c298b
u64
    // c299
ru64 , repeat
    // c302
i8
    // c303
ri8 // c304a
  // c304b
, repeat // c306
i16 // c307a
  // c307b
ri16
    // c308
, repeat i32 // c311a
  // c311b
ri32 // c312a
  // c312b
,
    // c313
repeat
    // c314
i64 ri64 // c316
,
    // c317
repeat // c318
f32 rf32 ,
    // c321
repeat // c322
f64 // c323
rf64
    // c324
,
    // c325
repeat // c326a
  // c326b
string // c327
rstr ,
    // c329
repeat
    // c330
char[] // c331
rstr2 // c332
, // c333a
  // c333b
repeat char[ // c335a
  // c335b
3 // c336a
  // c336b
] // c337a
  // c337b
rfs , // c339
repeat zchar[
    // c341
3 // c342a
  // c342b
] // c343
rfz , repeat // c346
Inner2 , // c348
repeat Grp
    // c350
{ u8
    // c352
k // c353a
  // c353b
,
    // c354
char[ // c355
2
    // c356
]
    // c357
v // c358
,
    // c359
}
    // c360
, // c361a
  // c361b
SeqNum ,
    // c363
SeqNum seq2 // c365a
  // c365b
, repeat SeqNum // c368a
  // c368b
seqs // c369a
  // c369b
, // c370
Symbol // c371
, // c372a
  // c372b
AltSymbol alt , // c375
ZSym
    // c376
,
    // c377
Note
    // c378
, // c379a
  // c379b
repeat // c380a
  // c380b
Symbol // c381a
  // c381b
syms
    // c382
, // c383a
  // c383b
Price px
    // c385
,
    // c386
u16 MsgType , u32
    // c390
BodyLen // c391
@lengthOf( Body // c393a
  // c393b
) // c394a
  // c394b
,
    // c395
match MsgType // c397
as Body
    // c399
{
    // c400
1 // c401a
  // c401b
:
    // c402
Logon
    // c403
, // c404a
  // c404b
[ // c405a
  // c405b
2 // c406
, 3 // c408a
  // c408b
] // c409
:
    // c410
Logout , // c412
7 : // c414
Logon
    // c415
, // c416
9
    // c417
: // c418
Empty , // c420
} // c421a
  // c421b
,
    // c422
u32 Checksum // c424
@calculatedFrom( // c425
""CRC32"" // c426a
  // c426b
) // c427
, // c428a
  // c428b
}
    // c429
")).
Eval vm_compute in ("<<<M239>>>" ++ check (runes_of_ascii "packet
//
// " ++ [128512]%N ++ runes_of_ascii " emoji
body	{ @calculatedFrom(""" ++ [233]%N ++ runes_of_ascii "t" ++ [233]%N ++ runes_of_ascii """
) body {o@calculatedFrom(  """ ++ [233]%N ++ runes_of_ascii "t" ++ [233]%N ++ runes_of_ascii """ ), }
,  char  i8i8 @lengthOf(	int ) `doc` ,	@rightPad ( )
char[0 ] tag@lengthOf( repeatCount ), @calculatedFrom("""" ) x
@calculatedFrom(""" ++ [28040; 24687]%N ++ runes_of_ascii """ )
, @calculatedFrom( """"
)// c
Packet `u8 x,`
    , // trailing space 
string x_y_z, string_ charz
    `doc` ,	match packetx as
string_ {
    00  : asx , [  ""\n""] // " ++ [128512]%N ++ runes_of_ascii " emoji
: float , [""" ++ [28040; 24687]%N ++ runes_of_ascii """
// @lengthOf(
/// triple
, 3
] :
    Foo, [ 0123456789 ,  ""1""
] : o	""\" ++ [233]%N ++ runes_of_ascii """
    : _x  ,  0123456789
: matchKey
} , @rightPad (
' ')stringy
    { match calculatedFrom as o	{// c
1
:
x_y_z
, 007:pack
    ,3 : asx
    // trailing space 
    , // " ++ [27880; 37322]%N ++ runes_of_ascii "
} ,
} , @calculatedFrom( """"
    ) @tag(  4294967296 ) repeat i64// packet A { u8 x, }
chars  ,	} packet roots { }root
packet	rootA { @tag( 255 ) pack
`it's`, @lengthOf( f32a ) @tag(
    // a // b
    1 )
    @tag(
    7)
    // " ++ [128512]%N ++ runes_of_ascii " emoji
    Foo	@calculatedFrom(
//x
//
""" ++ [128512]%N ++ runes_of_ascii """ ) , repeat calculatedFrom { string leftPad
    `doc` ,repeat
crc{ pack @calculatedFrom( ""\" ++ [233]%N ++ runes_of_ascii """) ,
    } , }, string_ { match
i64_ as u8x  { 0 :
    _x
, } ,
}	, @lengthOf( u128
    ) // trailing space 
match asx as charz
{ [ """" ,	4294967296 ] : A,// trailing space 
1 : options1 , 4294967296 :  pack 42 :charz
, [ ""`tick`"" , // a // b
""x y"" /// triple
, // " ++ [27880; 37322]%N ++ runes_of_ascii "
255
] // packet A { u8 x, }
: stringy ,} ,
@rightPad (' ' ) @lengthOf(// c
Packet
    ) repeat uint8x trueish ,
} MetaData i8i8
    { zchar[
10]Z9_ , zchar[ 0 ] Header
    `a\`, stringy roots // " ++ [27880; 37322]%N ++ runes_of_ascii "
,}
    packet options1 // c
{
    char[10
] Pad @calculatedFrom( ""\n"") `// not a comment` , roots , @calculatedFrom( ""x y""
)	zchar, @rightPad ( '0' )
    repeat
string
//x
//
roots`say ""hi""` ,}
")).
Eval vm_compute in ("<<<M1561>>>" ++ check (runes_of_ascii "// top
options // c0
{ LittleEndian = // c3
false // c4a
  // c4b
; // c5a
  // c5b
ArrayPrefixLenType // c6a
  // c6b
= // c7
u64 // c8
; // c9a
  // c9b
FixedStringPadChar = // c11
'0' ; } packet // c15a
  // c15b
Quote { // c17a
  // c17b
repeat InFlags37
    // c19
{ char[]
    // c21
lastPx , // c23
}
    // c24
,
    // c25
i16
    // c26
tag7
    // c27
, char[] f1 // c30
, zchar[
    // c32
6 // c33a
  // c33b
] // c34
Note , } // c37a
  // c37b
packet
    // c38
Order // c39a
  // c39b
{ u8 // c41
Ref // c42a
  // c42b
,
    // c43
repeat // c44a
  // c44b
Quote
    // c45
,
    // c46
repeat string // c48
Acct // c49
, // c50
}
    // c51
root
    // c52
packet // c53
Heartbeat
    // c54
{ // c55
repeat // c56a
  // c56b
Quote // c57
, @leftPad ( // c60
'0'
    // c61
) // c62a
  // c62b
char[ 11 // c64
] // c65
OrderId // c66
, // c67
zchar[
    // c68
8 // c69a
  // c69b
] // c70a
  // c70b
Ref // c71
, // c72
u32 // c73
Flags
    // c74
, // c75
u32 // c76
Tail // c77
@lengthOf( Body // c79
)
    // c80
, match
    // c82
Flags
    // c83
as // c84
Body {
    // c86
156 // c87
:
    // c88
Order // c89a
  // c89b
, 7 // c91
: Quote
    // c93
, // c94a
  // c94b
} ,
    // c96
}
    // c97
")).
Eval vm_compute in ("<<<M252>>>" ++ check (runes_of_ascii "packet u  { Header {
float64	Foo@lengthOf( Pad
    ) `{ , }`,	leftPad @calculatedFrom(""a	b"" )
    ,msg_type {
Z9_	@lengthOf(
    u8x ) ,
    falsey , len @lengthOf( float // " ++ [27880; 37322]%N ++ runes_of_ascii "
) `it's`
    , repeat int64
options1	`a\` , } , // trailing space 
} ,
//	t
// " ++ [128512]%N ++ runes_of_ascii " emoji
falsey// `tick` ""quote"" 'q'
u8x , zchar[  1 ]
x `` ,
    @lengthOf( uint8x
) crc
    @lengthOf(matchKey )  , repeat f32 string_
// `tick` ""quote"" 'q'
//
,packetx,
    // " ++ [27880; 37322]%N ++ runes_of_ascii "
    u8x
    { f64
Header , repeat uint8 uint8x , x_y_z
{  match string_
// " ++ [27880; 37322]%N ++ runes_of_ascii "
//	t
as a1 { [// `tick` ""quote"" 'q'
255
]  : f32a// @lengthOf(
, [
""packet""  ,""1"" , 00 ,
    """ ++ [128512]%N ++ runes_of_ascii """,  4294967296 , 4294967296]:Logon , } , pack @lengthOf( options1 ), zchar[  1 ] crc ``,}	, } , rootA zchar ,}
options { uint8x
= 4294967296
// " ++ [27880; 37322]%N ++ runes_of_ascii "
// @lengthOf(
tag // `tick` ""quote"" 'q'
=
float32 ; o = true ; // trailing space 
rootA =
    // @lengthOf(
    ""packet"" ; } //x
packet float
    {
    } // " ++ [27880; 37322]%N ++ runes_of_ascii "
options	{ // " ++ [27880; 37322]%N ++ runes_of_ascii "
msg_type// c
= i16 ;
    trueish = zchar[ 1 ] ; Logon =
    ""abc"" rootA = i16 ; } MetaData rootA
{
}
")).
Eval vm_compute in ("<<<M1565>>>" ++ check (runes_of_ascii "
options  { 
LittleEndian=  false ;
FixedStringPadFromLeft
=  false ; FixedStringPadChar= ' '
; }	packet

    Fill

{ uint16 Qty
	,  uint64 
clOrdID,repeat 
i64 Flags ,

} 
packet 
Ack	{
	zchar[
7
] clOrdID ,	u64

    lastPx
,

    char[]	Note
,
repeat Fill
,
    int32
count 
,
}
packet Quote
	{	u8
venue

    ,
	InRef40 { 
char[]
    Qty
,
}
,zchar[

    5
]
Flags
    ,
    @rightPad ('\x00')
    char[  12	]msgKind

, }

packet
    Logout
	{
InSym79
	{  int32

    Qty , Fill ,

char[3

]x
    ,

repeat  InNote29

{

    i16 price ,
	Ack
    , 
f64
	x
,

zchar[
8	]
count
,}
,
    } ,
} 
root

    packet
    Logon { zchar[	1 ]
	sym
,  u32 count,

u16
	tag7 
@lengthOf(

Body
    ) 
,match 
count

    as  Body{  [
    122 
,
152	]:

Ack
,  118  : Logout
,
61
    : Quote , 
161
: 
Fill
    ,
    }
,
u32
Acct 
@calculatedFrom( 
""CRC32"" ),
}
")).
Eval vm_compute in ("<<<M303>>>" ++ check (runes_of_ascii "root packet tag
    //x
    { @tag(
// trailing space 
//x
4294967296) zchar[ 255
    ]
    Foo	@calculatedFrom( ""\" ++ [233]%N ++ runes_of_ascii """  )// trailing space 
, @lengthOf( // packet A { u8 x, }
packetx
) @tag( 1) @lengthOf( string_ ) // a // b
zchar[
255] u	, Z9_ {repeat stringy  {repeat
body , }
    ,
    // `tick` ""quote"" 'q'
    } ,
    //
    repeat uint8  a1 , i64// c
tag  ,
    // " ++ [128512]%N ++ runes_of_ascii " emoji
    }
    packet uint8x { // a // b
@lengthOf( BodyLength	) @lengthOf( int )
    //
    uint64 As `{ , }` ,
    char[
65535	] zchar
// " ++ [27880; 37322]%N ++ runes_of_ascii "
// trailing space 
@lengthOf(
    stringy ) `tab	here` ,rootA @calculatedFrom( // a // b
""x y"" ) , repeat options1	{ i8i8 calculatedFrom,
// " ++ [27880; 37322]%N ++ runes_of_ascii "
// `tick` ""quote"" 'q'
}, repeat char[ 0]
    MetaDataX ,} //")).
Eval vm_compute in ("<<<M1507>>>" ++ check (runes_of_ascii "// top
options
    // c0
{ // c1a
  // c1b
FixedStringPadChar // c2a
  // c2b
= // c3a
  // c3b
'0' // c4
; // c5
} // c6
packet // c7
Q
    // c8
{ // c9
zchar[
    // c10
4 // c11a
  // c11b
] // c12
z
    // c13
,
    // c14
@rightPad // c15
( // c16a
  // c16b
'\x00' // c17a
  // c17b
) // c18
char[ 3 // c20
] // c21a
  // c21b
n
    // c22
, char[ // c24
5 ]
    // c26
d // c27
,
    // c28
} root // c30
packet R // c32
{ // c33
Q
    // c34
, // c35
zchar[ // c36
8 // c37a
  // c37b
]
    // c38
top // c39a
  // c39b
, repeat // c41a
  // c41b
zchar[ // c42
2 // c43a
  // c43b
] // c44
zs // c45
, // c46
}
    // c47
")).
Eval vm_compute in ("<<<M2033>>>" ++ check (runes_of_ascii "packet BodyLength {
    repeat f32a Pad `// not a comment`,
    // " ++ [128512]%N ++ runes_of_ascii " emoji
    // c
}

MetaData As {
}

options {
    crc = ""a\\""
    float = '\x00'
    a1 = ' ';
    i8i8 = 4294967296
}

packet u128 {
    // `tick` ""quote"" 'q'
    //
    match stringy as o {
        ""`tick`"" : Foo,
        [4294967296] : x_y_z,
    },
    zchar[10] Packet @lengthOf(u8x),
    @lengthOf(roots)
    // " ++ [27880; 37322]%N ++ runes_of_ascii "
    x `// not a comment`,
    i64 asx @lengthOf(rootA),
    metadata,
    i64_ @calculatedFrom(""\" ++ [233]%N ++ runes_of_ascii """),
    @lengthOf(u128)
    repeat o `two words`,
}")).
Eval vm_compute in ("<<<M251>>>" ++ check (runes_of_ascii "options { tag
=
false// c
; charz =
char[
    //
    4294967296 ] ; float = ' '; u =// `tick` ""quote"" 'q'
zchar[ 255
    ] x//x
=
    ""a\""b""}
packet leftPad /// triple
{match
As as
    falsey{ [ 10
    ,0123456789, 007
,
""" ++ [28040; 24687]%N ++ runes_of_ascii """
// a // b
// trailing space 
, //	t
""packet""	, ""`tick`"", ""1"" ] :
calculatedFrom , } ,@calculatedFrom(
    ""it's""
) float64// c
x_y_z @lengthOf(  leftPad ) , trueish
@lengthOf(packetx)
    , }options
{ string_	=
    ""a\""b"" ;
_x = false }
")).
Eval vm_compute in ("<<<M353>>>" ++ check (runes_of_ascii "options { len=
    // c
    ""abc""
; lengthOf = // trailing space 
true ;} packet
float {
    @tag( 65535
// `tick` ""quote"" 'q'
// trailing space 
) @rightPad
(' ' )int32
zchar ,repeat int64 trueish
,
@tag(10// packet A { u8 x, }
)
T repeatCount ,@leftPad (' ' )float32 MetaDataX
    `it's`
    ,
@rightPad (	' ' ) repeat zchar[ 0123456789 ] A
    , repeat
i8 f32a , u8 body
@calculatedFrom( ""it's""
)
,
    }
")).
Eval vm_compute in ("<<<M1618>>>" ++ check (runes_of_ascii "root packet stringy {
    // trailing space 
    @calculatedFrom(""" ++ [28040; 24687]%N ++ runes_of_ascii """)
    repeat Foo {
        float64 i64_ @lengthOf(Z9_),
    },
    repeat lengthOf {
        falsey {
            uint16 len,
        },
        Packet uint8x `a\`,
    },
    @calculatedFrom(""" ++ [128512]%N ++ runes_of_ascii """)
    string MetaDataX `" ++ [233]%N ++ runes_of_ascii "`,
}

packet chars {
    @leftPad('0')
    i64 trueish @lengthOf(Z9_),
}")).
Eval vm_compute in ("<<<M1539>>>" ++ check (runes_of_ascii "
options  {
	LittleEndian=
true
    ;

StringPrefixLenType=
u8 ; ArrayPrefixLenType
	=
u8 ;
}  packet

    Ack

{ }
root
	packet  Quote

    {
	Ack

    , InSym94
{ repeat
	Ack
,

} 
,  u16
	msgKind
	,
u16  OrderId
@lengthOf(  Body)
,match  msgKind as 
Body
{
	[

    110
    ,

48
	]

    :
    Ack, }	,
}
")).
Eval vm_compute in ("<<<M222>>>" ++ check (runes_of_ascii "options	{ // packet A { u8 x, }
rootA
= true
    ; chars
=	true // packet A { u8 x, }
}options	{	lengthOf // @lengthOf(
= 3
trueish
= ' '
    ;
    /// triple
    crc
// trailing space 
// @lengthOf(
=
    // trailing space 
    true  ;
    rootA =""it's""; chars=
    int32 ;//x
}
")).
Eval vm_compute in ("<<<M32>>>" ++ check (runes_of_ascii "options	{
    // `tick` ""quote"" 'q'
    Foo
= zchar[
    1
]uint8x =""// no comment"" Pad
=
    //
    char[] ;
    A
= 4294967296
    a1 = ""`tick`"" ; } packet BodyLength  {
@calculatedFrom(
""packet"" ) roots `// not a comment`,@tag( 10 ) f32 uint8x/// triple
`" ++ [28040; 24687; 31867; 22411]%N ++ runes_of_ascii "`
,	}

")).
Eval vm_compute in ("<<<M609>>>" ++ check (runes_of_ascii "root packet tag { }  packet MetaDataX{char[007	]
// c
/// triple
asx  @calculatedFrom( ""a\""b""
) `say ""hi""`// " ++ [27880; 37322]%N ++ runes_of_ascii "
,  @tag(4294967296 )
    char[1//x
] packetx @calculatedFrom(""a\""b""
    ) ) ,
// " ++ [128512]%N ++ runes_of_ascii " emoji
// a // b
@calculatedFrom(""" ++ [233]%N ++ runes_of_ascii "t" ++ [233]%N ++ runes_of_ascii """  ) repeat pack // " ++ [27880; 37322]%N ++ runes_of_ascii "
,
    } // c")).
Eval vm_compute in ("<<<M332>>>" ++ check (runes_of_ascii "// packet A { u8 x, }
options{
    T
=""packet"" ; } MetaData x_y_z
{
char roots ,
    T f32a `{ , }`, } root packet // " ++ [128512]%N ++ runes_of_ascii " emoji
uint8x
{ @calculatedFrom( ""// no comment"") repeat As
{rootA
@calculatedFrom(
""" ++ [28040; 24687]%N ++ runes_of_ascii """ ) `{ , }` , u16 zchar`{ , }` ,  char[	7
]o `" ++ [233]%N ++ runes_of_ascii "` ,
} ,}
")).
Eval vm_compute in ("<<<M641>>>" ++ check (runes_of_ascii "root packet tag { }  packet MetaDataX{char[007	]
// c
/// triple
asx  @calculatedFrom( ""a\""b""
) `say ""hi""`// " ++ [27880; 37322]%N ++ runes_of_ascii "
,  @tag(4294967296 )
    char[1//x
] packetx @calculatedFrom(""a\""b""
    ) ,
// " ++ [128512]%N ++ runes_of_ascii " emoji
// a // b
@calculatedFrom(""" ++ [233]%N ++ runes_of_ascii "t" ++ [233]%N ++ runes_of_ascii """  ) repeat root // " ++ [27880; 37322]%N ++ runes_of_ascii "
,
    } // c")).
Eval vm_compute in ("<<<M1517>>>" ++ check (runes_of_ascii "

  packet P1 {
	u8
	a ,
} packet
	P2  {P1 ,  }packet
    P3{ P2,

P1 , }
packet P4
{  repeat

P3,P2 ,
    } root packet
	P5 { P4,

P3 
, P1, 
u8

K

,
    match
K

    as

    Body
{

    4

    : 
P4
,	3 :
    P3  ,  2 
:
P2

    ,	1
:P1  ,
	} ,}
")).
Eval vm_compute in ("<<<M67>>>" ++ check (runes_of_ascii "packet lengthOf {// c
} root packet
asx { u32 Z9_
`say ""hi""` ,
@tag( 007
    )match
    u8x as Logon {
    [ ""abc""	]: tag,0123456789 : tag,  """ ++ [233]%N ++ runes_of_ascii "t" ++ [233]%N ++ runes_of_ascii """ : int
    ,
""`tick`"" : options1 , } ,@leftPad
( )  repeat
string  tag
    ,falsey `// not a comment` ,
}
")).
Eval vm_compute in ("<<<M1337>>>" ++ check (runes_of_ascii "// top
packet // c0a
  // c0b
o { repeat
    // c3
Logon uint8x // c5
,
    // c6
} options // c8
{ // c9
asx
    // c10
= // c11a
  // c11b
zchar[ // c12
3
    // c13
] stringy // c15
=
    // c16
'\x00' // c17
}
    // c18
")).
Eval vm_compute in ("<<<M1987>>>" ++ check (runes_of_ascii "  // top
    root
	    // c0

	packet 	 // c1a
// c1b
  P { // c3

u16 	 // c4
a

, 
// c6
u32 Sum 	 // c8
@calculatedFrom(// c9a

// c9b
  ""CRC32"" // c10
  ) 	 // c11a
		// c11b
, // c12
  } 

// c13")).
Eval vm_compute in ("<<<M1506>>>" ++ check (runes_of_ascii "options {
    FixedStringPadChar = '0';
}
packet Q {
    zchar[4] z,
    @rightPad('\x00') char[3] n,
    char[5] d,
}
root packet R {
    Q,
    zchar[8] top,
    repeat zchar[2] zs,
}
")).
Eval vm_compute in ("<<<M341>>>" ++ check (runes_of_ascii "packet A
    { @rightPad (' '
    )/// triple
@calculatedFrom(""" ++ [233]%N ++ runes_of_ascii "t" ++ [233]%N ++ runes_of_ascii """	) int16
    crc
`tab	here` // " ++ [128512]%N ++ runes_of_ascii " emoji
, }  MetaData x
// `tick` ""quote"" 'q'
// " ++ [27880; 37322]%N ++ runes_of_ascii "
{
}
// trailing space 
")).
Eval vm_compute in ("<<<M464>>>" ++ check (runes_of_ascii "packet
    // `tick` ""quote"" 'q'
    crc
// packet A { u8 x, }
//	t
{
u32 a1 ,
    // trailing space 
    roots
charz //
`two words`,	}
    MetaData ` int {
} /// triple")).
Eval vm_compute in ("<<<M421>>>" ++ check (runes_of_ascii "packet
    // `tick` ""quote"" 'q'
    crc
// packet A { u8 x, }
//	t
{
u32 a1 ,
    // trailing space 
    roots
`two words` //
charz,	}
    MetaData int {
} /// triple")).
Eval vm_compute in ("<<<M677>>>" ++ check (runes_of_ascii "root packet len // trailing space 
{
// " ++ [27880; 37322]%N ++ runes_of_ascii "
//	t
char[10
] metadata	@lengthOf( o ) `crlf
line`,
    @rightPad
( ' '
) string
    Header @calculatedFrom( ""a\\""
    ) }
")).
Eval vm_compute in ("<<<M385>>>" ++ check (runes_of_ascii "
    // `tick` ""quote"" 'q'
    crc
// packet A { u8 x, }
//	t
{
u32 a1 ,
    // trailing space 
    roots
charz //
`two words`,	}
    MetaData int {
} /// triple")).
Eval vm_compute in ("<<<M453>>>" ++ check (runes_of_ascii "packet
    // `tick` ""quote"" 'q'
    crc
// packet A { u8 x, }
//	t
{
u32 a1 ,
    // trailing space 
    roots
charz //
`two words`,	}
    MetaData int")).
Eval vm_compute in ("<<<M1613>>>" ++ check (runes_of_ascii "
root 
    // c

  packet
    matchKey{zchar[
3 ]
	pack
    @calculatedFrom(
""a	b""
	)  `doc`
, } options {}
MetaData	A
{	int8

msg_type,}")).
Eval vm_compute in ("<<<M1436>>>" ++ check (runes_of_ascii "root packet
    // c1
P
    // c2
{ // c3a
  // c3b
char // c4a
  // c4b
c , // c6
u8 // c7a
  // c7b
x , // c9a
  // c9b
}
    // c10
")).
Eval vm_compute in ("<<<M1642>>>" ++ check (runes_of_ascii "root packet matchKey {
    zchar[3] pack @calculatedFrom(""a	b"") `doc`,
}

options {
}

// c
MetaData A {
    int8 msg_type,
}")).
Eval vm_compute in ("<<<M1235>>>" ++ check (runes_of_ascii "root packet matchKey { zchar[ 3 ] // c
pack @calculatedFrom( ""a	b"" ) `doc` , } options { } MetaData A { int8 msg_type , }")).
Eval vm_compute in ("<<<M1267>>>" ++ check (runes_of_ascii "root packet matchKey { zchar[ 3 ] pack @calculatedFrom( ""a	b"" ) `doc` , } options { } MetaData A { int8 msg_type , // c
}")).
Eval vm_compute in ("<<<M1802>>>" ++ check (runes_of_ascii "
packet	A

{ match k  as

    n

{
[ 1  ,22,

007 ,	4, 
5 , 66
,
7 
,8 , 
9 ,10
	] :
B

    ,	2

: C },
    }
")).
Eval vm_compute in ("<<<M1780>>>" ++ check (runes_of_ascii "MetaData 
// c
  float  { float64
charz  `
`  ,
	} root
packet	chars  {

    @rightPad (	'0'
)Foo ,
    } ")).
Eval vm_compute in ("<<<M903>>>" ++ check (runes_of_ascii "packet A {
  match k as n {
    [1, ""bb"", 007, ""d"", 5, ""f"", 7, ""h"", 9, ""j"", 11, ""l""] : B,
    2 : C
  },
}")).
Eval vm_compute in ("<<<M862>>>" ++ check (runes_of_ascii "packet A {
  match k as n {
    [""a"", ""bb"", ""c c"", ""d"", ""e"", ""f"", ""g"", ""h"", ""i""] : B,
    2 : C
  },
}")).
Eval vm_compute in ("<<<M1446>>>" ++ check (runes_of_ascii "  packet
    Inner

    {	u8

    a

    ,  }	root packet

P
{ Inner	ref_obj ,
	u8

x
, }
")).
Eval vm_compute in ("<<<M317>>>" ++ check (runes_of_ascii "packet
crc { @lengthOf( falsey )Packet /// triple
`crlf
line`
    // trailing space 
    ,
}
")).
Eval vm_compute in ("<<<M1179>>>" ++ check (runes_of_ascii "
// c
MetaData float { float64 charz `
` , } root packet chars { @rightPad ( '0' ) Foo , }")).
Eval vm_compute in ("<<<M1194>>>" ++ check (runes_of_ascii "MetaData float { float64 charz `
` , } // c
root packet chars { @rightPad ( '0' ) Foo , }")).
Eval vm_compute in ("<<<M1405>>>" ++ check (runes_of_ascii "packet chars { } packet
// c
MetaDataX { @tag( 42 ) i16 string_ , repeat x `say ""hi""` , }")).
Eval vm_compute in ("<<<M874>>>" ++ check (runes_of_ascii "packet A {
  match k as n {
    [1, 22, 007, 4, 5, 66, 7, 8, 9, 10] : B
    2 : C
  },
}")).
Eval vm_compute in ("<<<M1135>>>" ++ check (runes_of_ascii "packet metadata { Logon { A
// c
`" ++ [28040; 24687; 31867; 22411]%N ++ runes_of_ascii "` , tag o , } , zchar len `// not a comment` , }")).
Eval vm_compute in ("<<<M1340>>>" ++ check (runes_of_ascii "packet // c
o { repeat Logon uint8x , } options { asx = zchar[ 3 ] stringy = '\x00' }")).
Eval vm_compute in ("<<<M1372>>>" ++ check (runes_of_ascii "packet o { repeat Logon uint8x , } options { asx = zchar[ 3 ] stringy = // c
'\x00' }")).
Eval vm_compute in ("<<<M827>>>" ++ check (runes_of_ascii "packet A {
  match k as n {
    [""a"", 22, ""c c"", 4, ""e"", 66] : B,
    2 : C
  },
}")).
Eval vm_compute in ("<<<M1499>>>" ++ check (runes_of_ascii "packet order_item
	{ u8 
a ,
} 
root  packet
	new_order 
{ order_item

, 
u8

x,}
")).
Eval vm_compute in ("<<<M418>>>" ++ check (runes_of_ascii "packet
    // `tick` ""quote"" 'q'
    crc
// packet A { u8 x, }
//	t
{
u32 a1 ,")).
Eval vm_compute in ("<<<M1930>>>" ++ check (runes_of_ascii "packet i8i8 {
    char[1] f32a @calculatedFrom(""\n""),
    repeat charz,
}")).
Eval vm_compute in ("<<<M542>>>" ++ check (runes_of_ascii "root packet tag { }  packet MetaDataX{char[007	]
// c
/// triple
asx")).
Eval vm_compute in ("<<<M833>>>" ++ check (runes_of_ascii "packet A { Inner { match k as n { [1,22,007,4,5,66] : B, }, }, }")).
Eval vm_compute in ("<<<M807>>>" ++ check (runes_of_ascii "packet A { Inner { match k as n { [1,22,007,4] : B, }, }, }")).
Eval vm_compute in ("<<<M1293>>>" ++ check (runes_of_ascii "packet x { @rightPad ( ) repeat roots Logon
// c
`doc` , }")).
Eval vm_compute in ("<<<M1857>>>" ++ check (runes_of_ascii "packet A {
    u8 x `a
            b
          c`,
}")).
Eval vm_compute in ("<<<M532>>>" ++ check (runes_of_ascii "root packet tag { }  packet MetaDataX{char[007")).
Eval vm_compute in ("<<<M928>>>" ++ check (runes_of_ascii "MetaData M {
    u8 x `
`,
    T t `
`,
}")).
Eval vm_compute in ("<<<M1640>>>" ++ check (runes_of_ascii "packet
    A
{

u8
x 
`d" ++ [8232]%N ++ runes_of_ascii "`, // c" ++ [8232]%N ++ runes_of_ascii "
}

")).
Eval vm_compute in ("<<<M941>>>" ++ check (runes_of_ascii "root packet A {
    u8 x `a

b`,
}")).
Eval vm_compute in ("<<<M978>>>" ++ check (runes_of_ascii "packet A {
 u8 x `d" ++ [12288]%N ++ runes_of_ascii "`, // c" ++ [12288]%N ++ runes_of_ascii "
}")).
Eval vm_compute in ("<<<M118>>>" ++ check (runes_of_ascii "options{
i64_ = ""`tick`""}

")).
Eval vm_compute in ("<<<M1079>>>" ++ check (runes_of_ascii "packet A { // a
 u8 x, }")).
Eval vm_compute in ("<<<M1385>>>" ++ check (runes_of_ascii "MetaData o // c
{ }")).
Eval vm_compute in ("<<<M1027>>>" ++ check (runes_of_ascii "// c" ++ [11]%N ++ runes_of_ascii "
packet A {
}")).
Eval vm_compute in ("<<<M1049>>>" ++ check (runes_of_ascii "packet A {
}// c" ++ [6158]%N)).
Eval vm_compute in ("<<<M132>>>" ++ check (runes_of_ascii "

// c
")).
Eval vm_compute in ("<<<M319>>>" ++ check (runes_of_ascii "
//
")).
