From FP Require Import Lexer Parser ShowPT Digest Formatter.
From Coq Require Import String List NArith.
Import ListNotations.
Open Scope string_scope.
Set Printing Width 100000000.
Set Printing Depth 100000000.
Definition show_fres (r : fres) : string :=
  match r with
  | FOk s => "OK:" ++ sh_escaped s ""
  | FErr s => "ERR:" ++ sh_escaped s ""
  | FPanic p => "PANIC:" ++ p
  end.
Definition check (rs : list rune) : string := digest (show_fres (format_res rs)).
Definition full (rs : list rune) : string := show_fres (format_res rs).
Eval vm_compute in ("<<<M339>>>" ++ check (runes_of_ascii "// @lengthOf(
packet A { repeat rootA
{ repeat o , BodyLength i64_ `// not a comment` ,  repeatCount @calculatedFrom(""it's"" ) , }
    // @lengthOf(
    ,
//x
//x
@tag( 0 ) falsey @lengthOf( BodyLength
), @leftPad ( ) @calculatedFrom( ""1"" )
@lengthOf(int ) match trueish
as body // trailing space 
{ [ 007
, 7
,
    ""abc"",
""x y"" ,  00 , ""// no comment"" ,
    255, 1
]: body
, } , @lengthOf( Pad ) metadata@calculatedFrom( ""it's"" )
,
    // `tick` ""quote"" 'q'
    @leftPad() @calculatedFrom(	""" ++ [233]%N ++ runes_of_ascii "t" ++ [233]%N ++ runes_of_ascii """ ) char falsey `" ++ [233]%N ++ runes_of_ascii "`,char[
007 ] metadata @lengthOf( chars) , @rightPad ( '0'
) u8 // c
roots@calculatedFrom( ""packet"" ) ,
    string_ MetaDataX ,@lengthOf( Z9_ ) @leftPad ( '\x00' ) /// triple
@rightPad
    ( ' ' //
) MetaDataX
    `two words`  ,zchar[
0
    ]
body// " ++ [27880; 37322]%N ++ runes_of_ascii "
`line1
line2` , } packet
    // packet A { u8 x, }
    uint8x {@rightPad  ( '0' )
    //	t
    char[]stringy,MetaDataX Z9_ , i8 Logon , } root packet
    //	t
    u // " ++ [128512]%N ++ runes_of_ascii " emoji
{ int64 Z9_
    , zchar[ 00 ]
    string_
    //
    `" ++ [28040; 24687; 31867; 22411]%N ++ runes_of_ascii "` ,
    @calculatedFrom(""a\""b""
    )
@tag( 3  ) @rightPad (
'0' ) repeat u32 packetx `two words` , char[42
] string_ , repeat Header lengthOf ,
}
options // packet A { u8 x, }
{	} packet Header
// " ++ [128512]%N ++ runes_of_ascii " emoji
// packet A { u8 x, }
{ @rightPad
(//x
)metadata { char[ 65535// c
]o, repeat x
// c
/// triple
{char[
4294967296 ]  options1 , }
// c
// a // b
,
roots Header, } , }
")).
Eval vm_compute in ("<<<M225>>>" ++ check (runes_of_ascii "packet T
    // " ++ [128512]%N ++ runes_of_ascii " emoji
    { match repeatCount as
Packet {
    ""packet"" : msg_type , 00 :
    Foo
    ,""" ++ [128512]%N ++ runes_of_ascii """ : trueish, """": repeatCount
    [ // packet A { u8 x, }
4294967296 , 65535 ] :	u ,	}, @calculatedFrom( ""a\\"" )
    float32 len @lengthOf(// " ++ [128512]%N ++ runes_of_ascii " emoji
string_
    ), stringy Pad, roots{ repeat x_y_z
    `// not a comment`
, T
`" ++ [233]%N ++ runes_of_ascii "` , }, @tag(
007 )  _x
{// " ++ [128512]%N ++ runes_of_ascii " emoji
char[] body
@calculatedFrom( """ ++ [233]%N ++ runes_of_ascii "t" ++ [233]%N ++ runes_of_ascii """
    //	t
    ) ,repeat Pad// packet A { u8 x, }
``
// c
/// triple
, }
    //x
    , match	u as packetx{// `tick` ""quote"" 'q'
[ ""// no comment"" ,
007]	: T
, [  ""\" ++ [233]%N ++ runes_of_ascii """// " ++ [27880; 37322]%N ++ runes_of_ascii "
] :// trailing space 
u8x } , @rightPad( ) int8 _x , @lengthOf(
A	)match/// triple
crc
as metadata { [ 00,
    //	t
    ""a\""b"" ,3
    , 1
    ,
10 ] : Packet , //	t
[
4294967296	, ""abc"" , """"] // @lengthOf(
:
// `tick` ""quote"" 'q'
// " ++ [27880; 37322]%N ++ runes_of_ascii "
a1 , """ ++ [28040; 24687]%N ++ runes_of_ascii """ // `tick` ""quote"" 'q'
:
    repeatCount  , } , }options { }MetaData Header
{  trueish Pad ,
    } MetaData Z9_ { char[]
metadata ,
// " ++ [128512]%N ++ runes_of_ascii " emoji
// packet A { u8 x, }
Header A
`doc`
// a // b
// a // b
, //x
uint32 // " ++ [27880; 37322]%N ++ runes_of_ascii "
packetx ,
int16 uint8x
    //
    , Header// @lengthOf(
leftPad
    , // packet A { u8 x, }
}
// trailing space 
")).
Eval vm_compute in ("<<<M1340>>>" ++ check (runes_of_ascii "

  options
{
FixedStringPadFromLeft =

true
    ;	FixedStringPadChar
=  '0'	;
    } packet	Leg

    { InPrice0
    { repeat string

    clOrdID  ,	int16 msgKind
,
zchar[
	5
    ]	Px,
    } ,
i16

    f1
,
repeat
f64 Side2
,string  Acct ,	} packet

Cancel	{
	zchar[
    4

]clOrdID,
	string
    seqNo
, Leg,
@leftPad  (
'0'
	)
    char[
    11] 
OrderId ,
	} packet Quote{repeat
char[
    4  ]
sym
    ,

f64 OrderId ,repeat
	Leg
,

    repeat i64
    f1
	, int16
Note,
zchar[

    3]
count 
,
}  root

packet Ack

    {  @leftPad
(' '
	)char[

10
    ]  sym ,

InPx60

{

Cancel
,repeat	char[ 
1  ]

    f1 , 
string
    Tail
    , 
repeat  InNote55
    {
    int8
    count	, 
f64 
f1
,repeat
    Cancel
    ,},

    char[]tag7
	, 
repeat string
    msgKind

    ,

    }

, u8 
lastPx, match 
lastPx as  Body
{152 
:  Quote  , 
173
:Cancel,	4:
    Leg 
,}

    ,
u16
Ref@calculatedFrom(
    ""CRC32""
	)
,	}

")).
Eval vm_compute in ("<<<M1377>>>" ++ check (runes_of_ascii "// top
options // c0a
  // c0b
{ LittleEndian // c2
= true ; // c5
} // c6a
  // c6b
packet
    // c7
Logon // c8a
  // c8b
{ u8 x // c11
, } // c13
packet // c14
Logout { u16 // c17a
  // c17b
reason
    // c18
, // c19a
  // c19b
} // c20
root
    // c21
packet // c22a
  // c22b
Frame // c23a
  // c23b
{ // c24a
  // c24b
u8
    // c25
Kind // c26a
  // c26b
, // c27
u8 // c28
Kind2 ,
    // c30
match Kind as // c33
Body
    // c34
{ // c35a
  // c35b
1 // c36
:
    // c37
Logon // c38
, // c39a
  // c39b
[ // c40a
  // c40b
2 // c41
,
    // c42
3 // c43
, 4 ]
    // c46
: // c47
Logout
    // c48
, // c49a
  // c49b
100 // c50
:
    // c51
Logon // c52a
  // c52b
,
    // c53
} , // c55
match // c56a
  // c56b
Kind2 as
    // c58
Trailer // c59a
  // c59b
{ // c60
0 // c61
:
    // c62
Logout // c63a
  // c63b
, } , // c66a
  // c66b
} ")).
Eval vm_compute in ("<<<M1396>>>" ++ check (runes_of_ascii "
options  { StringPrefixLenType

    =u8 ;	ArrayPrefixLenType  = u32
    ;
FixedStringPadFromLeft = true ;	FixedStringPadChar
=
' ' ;

} packet Leg 
{ 
} packet 
Heartbeat	{
zchar[  6]
msgKind , @rightPad ( 
'0'

    )

    char[ 
3

]  Qty 
,

zchar[ 9]
Side2  ,

    i8 Acct
,  }
    packet  Logout
    {
int8
x	, }packet

    Order

{ char[] Acct 
,
    zchar[

    8
]	count

,
u32 OrderId
,

    uint8	lastPx

    ,
	u16 clOrdID 
, 
zchar[
7
    ]
Note ,
	}

    root packet

Reject{
@leftPad
(
    ' ' )char[
8
] Side2  ,
i8
clOrdID
, repeat

    f32

    x, u32
	lastPx,
match	lastPx

as
	Body

    {
[  30
    ,  147

] :
	Heartbeat,

134 :Leg

,183 
: Logout
,

40	:
    Order
	,
	}
,u16
Ref @calculatedFrom(

""CR\
C32""  )
    ,
}")).
Eval vm_compute in ("<<<M52>>>" ++ check (runes_of_ascii "  MetaData
    // " ++ [27880; 37322]%N ++ runes_of_ascii "
    packetx { zchar[ 7 ] leftPad
`// not a comment` ,	}	packet i64_{@calculatedFrom(
"""" )
// trailing space 
// c
@lengthOf(
x_y_z ) @tag( 00
)
repeatCount
    // packet A { u8 x, }
    @calculatedFrom(""1"" ), } packet falsey { int16
_x
@calculatedFrom(	""it's"") , } // @lengthOf(
root
packet matchKey
    {repeat u32  Pad  `" ++ [233]%N ++ runes_of_ascii "`, zchar[ 7 ]
    leftPad
,match chars as lengthOf
{ 1 :
o
    42 : chars
// trailing space 
// c
,
}//x
, repeat
zchar[
    255]
a1, matchKey //
Packet
    // `tick` ""quote"" 'q'
    ,
f32
    tag
    ,
// @lengthOf(
// trailing space 
@calculatedFrom(  ""a\""b"" ) @leftPad( ' ' ) @lengthOf(
T) stringy
@lengthOf( o) ,packetx  i64_ ,}
/// triple
")).
Eval vm_compute in ("<<<M122>>>" ++ check (runes_of_ascii "
packet u128  { // trailing space 
string  Header `say ""hi""` , repeat crc
f32a,
    char[ 10
    ] _x	,	@calculatedFrom( ""x y""	) repeat
    //
    charz	{
    Logon @lengthOf(T) `crlf
line`
, repeat char[ // trailing space 
0123456789 ]Z9_
    `crlf
line` ,
    } ,
    match Packet
    as
// " ++ [128512]%N ++ runes_of_ascii " emoji
// `tick` ""quote"" 'q'
float // a // b
{
    1
:  lengthOf }  ,  MetaDataX , match x as
u8x { 10 :crc } , } root packet // `tick` ""quote"" 'q'
Header // a // b
{ @calculatedFrom( ""{,}"") a1
    {  char[
    // packet A { u8 x, }
    007 ] pack ,stringy //x
zchar
    , repeat
char[]
    // " ++ [128512]%N ++ runes_of_ascii " emoji
    o `it's`	, } , }")).
Eval vm_compute in ("<<<M1116>>>" ++ check (runes_of_ascii "// top
MetaData // c0
Packet // c1
{ // c2
} // c3
packet // c4
charz // c5
{ // c6
Foo // c7
asx // c8
`it's` // c9
, // c10
@lengthOf( // c11
T // c12
) // c13
@calculatedFrom( // c14
"""" // c15
) // c16
@calculatedFrom( // c17
""x y"" // c18
) // c19
zchar[ // c20
007 // c21
] // c22
repeatCount // c23
@lengthOf( // c24
int // c25
) // c26
`a\` // c27
, // c28
i8 // c29
string_ // c30
, // c31
repeat // c32
options1 // c33
Pad // c34
, // c35
} // c36
root // c37
packet // c38
Packet // c39
{ // c40
int8 // c41
float // c42
`doc` // c43
, // c44
} // c45
")).
Eval vm_compute in ("<<<M1652>>>" ++ check (runes_of_ascii "options

    { 
LittleEndian

    =true
    ; StringPrefixLenType  =	u64	;
ArrayPrefixLenType=
    u16 ;FixedStringPadFromLeft 
=
false
;FixedStringPadChar
=	' ' 
; } packet 
Logon

{ zchar[

5

    ]
Side2 ,
    }

    root
    packet
	Logout { repeat

i64 
Tail 
,
	Logon 
,

repeat

i16 OrderId
    ,
	char[]
venue
,
    uint64

x ,
repeat i16

    count

    , u8
	Flags	,

    match 
Flags	as
    Body

    { 25 :
    Logon ,
} ,
u16
    Qty@calculatedFrom(	""CR\
C32""
    ) ,

} ")).
Eval vm_compute in ("<<<M1852>>>" ++ check (runes_of_ascii "options {
LittleEndian	=
    true
;

    StringPrefixLenType =u64 ; ArrayPrefixLenType= u16
;FixedStringPadFromLeft = false  ;
	FixedStringPadChar
	=

' '
    ;
	} 
packet
	Logon

{ zchar[
	5]
Side2
	, }	root  packet Logout	{
	repeat i64
Tail
, Logon ,

repeat
    i16
	OrderId
, char[]

venue	,
uint64  x,
	repeat	i16
	count	,
u8
    Flags
, 
match

    Flags
	as
	Body { 25

    : Logon , }
	,
    u16
Qty	@calculatedFrom( ""CRC32""

)
    ,	}
")).
Eval vm_compute in ("<<<M1329>>>" ++ check (runes_of_ascii "packet Frame {
    u8 HK,
    u8 BK,
    u8 TK,
    match HK as Hdr {
        1 : HdrA,
        2 : HdrB,
    },
    match BK as Body {
        1 : BodyA,
        2 : BodyB,
    },
    match TK as Trl {
        1 : TrlA,
    },
}
packet HdrA {
    u8 a,
}
packet HdrB {
    u16 b,
}
packet BodyA {
    u32 c,
}
packet BodyB {
    u64 d,
}
packet TrlA {
    u8 e,
}
root packet Msg {
    Frame,
    u8 x,
}
")).
Eval vm_compute in ("<<<M74>>>" ++ check (runes_of_ascii "options{ u = 7
    // " ++ [27880; 37322]%N ++ runes_of_ascii "
    roots
=zchar[
65535
    ]
msg_type = """ ++ [233]%N ++ runes_of_ascii "t" ++ [233]%N ++ runes_of_ascii """
; x =false
    } MetaData string_ { char[ // trailing space 
42
//x
// " ++ [128512]%N ++ runes_of_ascii " emoji
]
i8i8 `" ++ [28040; 24687; 31867; 22411]%N ++ runes_of_ascii "`	, u8
    x_y_z
, packetx lengthOf``
    // " ++ [27880; 37322]%N ++ runes_of_ascii "
    ,
T Header `line1
line2` ,
char[] // " ++ [27880; 37322]%N ++ runes_of_ascii "
u8x `two words` ,}packet
float //x
{
    calculatedFrom
    ,
@rightPad ( '0'
) char[
    3
] u128 , } 	 ")).
Eval vm_compute in ("<<<M1688>>>" ++ check (runes_of_ascii "packet tag {
}

packet packetx {
    @calculatedFrom(""x y"")
    @tag(42)
    @lengthOf(As)
    char a1 `two words`,
    @leftPad('\x00')
    @tag(10)
    @lengthOf(u)
    char[] falsey,
    // " ++ [27880; 37322]%N ++ runes_of_ascii "
}//

MetaData f32a {
    string u128,
    roots stringy,
    Header body,
    float options1 `it's`,
    i8i8 options1 `" ++ [28040; 24687; 31867; 22411]%N ++ runes_of_ascii "`,
}")).
Eval vm_compute in ("<<<M321>>>" ++ check (runes_of_ascii "
options
{ a1 = '\x00'
As
= ""{,}"" u8x
=//x
""a	b""
    ; asx
    = u64;
o
// @lengthOf(
// c
=0123456789 } packet Header
{
    //
    @lengthOf(x // trailing space 
)
    // " ++ [27880; 37322]%N ++ runes_of_ascii "
    repeat
falsey { repeatCount
    trueish
`u8 x,` , } ,
// `tick` ""quote"" 'q'
// " ++ [128512]%N ++ runes_of_ascii " emoji
zchar[
65535 ] x
    ,
}")).
Eval vm_compute in ("<<<M1616>>>" ++ check (runes_of_ascii "
options
{ pack 	 // `tick` ""quote"" 'q'
		=	0123456789
}packet
metadata{
@leftPad(' '
    ) stringy  @lengthOf(	_x
    ) ,

repeat u8
int 
`{ , }`
,
	@leftPad	//	t
      (
'0'	)repeat	char msg_type `it's`  ,
	}
	MetaData
x_y_z {// trailing space 
	}
")).
Eval vm_compute in ("<<<M1655>>>" ++ check (runes_of_ascii "
options { 
Z9_
	=  // trailing space 
	""packet""
	; 
float 
= false 
;
A
	= ' '
}

// c
	  MetaData 
pack 
{zchar[3

] leftPad , zchar 
falsey  `it's`
,
char[] 
repeatCount , char[ 65535// " ++ [128512]%N ++ runes_of_ascii " emoji
  ]  Z9_ ,
} 
	    //	t
")).
Eval vm_compute in ("<<<M1538>>>" ++ check (runes_of_ascii "// top
MetaData uint8x {
    // c2
    char[] f32a `// not a comment`,// c6
    float32 roots,// c9
    char[7] u8x,// c14
    zchar[10] f32a,// c19
    u64 pack,// c22
    u16 pack,// c25
}// c26")).
Eval vm_compute in ("<<<M1925>>>" ++ check (runes_of_ascii "
packet  A 
{match 
k as

n
{  [

    ""a"" 
, 
22

,	""c c"", 4

    ,

    ""e"",

    66

    , ""g""
	,	8 ,  ""i"" 
, 10 
, ""k"" ,12

    ]
	:
    B

2 :
C 
}, }

")).
Eval vm_compute in ("<<<M421>>>" ++ check (runes_of_ascii "packet uint8x
{ match pack
    as msg_type msg_type	{
    0123456789 :	float
}
,
} packet //	t
a1
    { } options {packetx
    = '\x00'	; u128= ""a	b""  ; }
")).
Eval vm_compute in ("<<<M508>>>" ++ check (runes_of_ascii "packet uint8x
{ match pack
    as msg_type	{
    0123456789 :	float
}
,
} packet //	t
a1
    { } options {packetx
    = '\x00'	int16 u128= ""a	b""  ; }
")).
Eval vm_compute in ("<<<M526>>>" ++ check (runes_of_ascii "packet uint8x
{ match pack
    as msg_type	{
    0123456789 :	float
}
,
} packet //	t
a1
    { } options {packetx
    = '\x00'	; u128= ""a	b""  ; ; }
")).
Eval vm_compute in ("<<<M428>>>" ++ check (runes_of_ascii "packet uint8x
{ match pack
    as msg_type	}
    0123456789 :	float
}
,
} packet //	t
a1
    { } options {packetx
    = '\x00'	; u128= ""a	b""  ; }
")).
Eval vm_compute in ("<<<M445>>>" ++ check (runes_of_ascii "packet uint8x
{ match pack
    as msg_type	{
    0123456789 :	float

,
} packet //	t
a1
    { } options {packetx
    = '\x00'	; u128= ""a	b""  ; }
")).
Eval vm_compute in ("<<<M493>>>" ++ check (runes_of_ascii "packet uint8x
{ match pack
    as msg_type	{
    0123456789 :	float
}
,
} packet //	t
a1
    { } options {f64
    = '\x00'	; u128= ""a	b""  ; }
")).
Eval vm_compute in ("<<<M711>>>" ++ check (runes_of_ascii "// @lengthOf(
packet i8i8 { u128 o , }
options { MetaDataX = true;
    BodyLength =""packet"" x_y_z= 007
""crc //x
= ""abc"" ;
    msg_type =
i16 }")).
Eval vm_compute in ("<<<M709>>>" ++ check (runes_of_ascii "// @lengthOf(
packet i8i8 { u128 o , }
options { MetaDataX = true;
    BodyLength =""packet"" x_y_z= 007
crc //x
= ""abc"" 
    msg_type =
i16 }")).
Eval vm_compute in ("<<<M1389>>>" ++ check (runes_of_ascii "packet A {
    match k as n {
        [
            1, ""bb"", 007, ""d"", 5,
            ""f"", 7, ""h""
        ] : B,
        2 : C,
    },
}")).
Eval vm_compute in ("<<<M1759>>>" ++ check (runes_of_ascii "packet A {
    match k as n {
        [
            ""a"", ""bb"", 007, ""d"", ""e"",
            66
        ] : B,
        2 : C,
    },
}")).
Eval vm_compute in ("<<<M1510>>>" ++ check (runes_of_ascii "MetaData leftPad {
    chars MetaDataX,
}

packet repeatCount {
    char[255] uint8x `" ++ [233]%N ++ runes_of_ascii "`,
}

MetaData pack {
    As Foo,
}")).
Eval vm_compute in ("<<<M1158>>>" ++ check (runes_of_ascii "MetaData leftPad { chars MetaDataX , } packet
// c
repeatCount { char[ 255 ] uint8x `" ++ [233]%N ++ runes_of_ascii "` , } MetaData pack { As Foo , }")).
Eval vm_compute in ("<<<M1617>>>" ++ check (runes_of_ascii "MetaData zchar {
    roots A,
    char[] falsey `line1
    line2`,
    // " ++ [128512]%N ++ runes_of_ascii " emoji
    // @lengthOf(
    int crc,
}//	t")).
Eval vm_compute in ("<<<M1772>>>" ++ check (runes_of_ascii "packet A {
    B b `a
        b
      c`,
    B `a
        b
      c`,
    repeat B bs `a
        b
      c`,
}")).
Eval vm_compute in ("<<<M49>>>" ++ check (runes_of_ascii "options  { f32a = true;  metadata =""CRC32"" ;
body // " ++ [27880; 37322]%N ++ runes_of_ascii "
=
char ; A =
float64	;
} MetaData
    rootA { }")).
Eval vm_compute in ("<<<M671>>>" ++ check (runes_of_ascii "// @lengthOf(
packet i8i8 { u128 o , }
options { MetaDataX = true;
    BodyLength =""packet"" x_y_z= 0")).
Eval vm_compute in ("<<<M855>>>" ++ check (runes_of_ascii "packet A {
  match k as n {
    [""a"", ""bb"", ""c c"", ""d"", ""e"", ""f"", ""g"", ""h""] : B
    2 : C
  },
}")).
Eval vm_compute in ("<<<M580>>>" ++ check (runes_of_ascii "
packet
    asx {match u128 char[ lengthOf
{
//	t
// `tick` ""quote"" 'q'
255 : x ,
    } ,	}")).
Eval vm_compute in ("<<<M636>>>" ++ check (runes_of_ascii "
packet
    asx {match u128 as lengthOf
{
//	t
// `ti/ck` ""quote"" 'q'
255 : x ,
    } ,	}")).
Eval vm_compute in ("<<<M575>>>" ++ check (runes_of_ascii "
packet
    asx {match u64 as lengthOf
{
//	t
// `tick` ""quote"" 'q'
255 : x ,
    } ,	}")).
Eval vm_compute in ("<<<M572>>>" ++ check (runes_of_ascii "
packet
    asx {match  as lengthOf
{
//	t
// `tick` ""quote"" 'q'
255 : x ,
    } ,	}")).
Eval vm_compute in ("<<<M852>>>" ++ check (runes_of_ascii "packet A {
  match k as n {
    [1, 22, 007, 4, 5, 66, 7, 8] : B,
    2 : C
  },
}")).
Eval vm_compute in ("<<<M1917>>>" ++ check (runes_of_ascii "
MetaData
x
{x
    Packet ,
i32	lengthOf
	, 	 // `tick` ""quote"" 'q'
	  }
")).
Eval vm_compute in ("<<<M67>>>" ++ check (runes_of_ascii "options { charz =""1"" _x= """ ++ [128512]%N ++ runes_of_ascii """ u = string ; stringy=
""" ++ [28040; 24687]%N ++ runes_of_ascii """ }
// @lengthOf(
")).
Eval vm_compute in ("<<<M800>>>" ++ check (runes_of_ascii "packet A {
  match k as n {
    [1, 22, 007, 4] : B,
    2 : C
  },
}")).
Eval vm_compute in ("<<<M1506>>>" ++ check (runes_of_ascii "root packet P {
    u8 s_u8,
    repeat u8 r_u8,
    u16 b_len,
}")).
Eval vm_compute in ("<<<M954>>>" ++ check (runes_of_ascii "packet A {
    B b `
x`,
    B `
x`,
    repeat B bs `
x`,
}")).
Eval vm_compute in ("<<<M774>>>" ++ check (runes_of_ascii "packet A {
  match k as n {
    [1] : B
    2 : C
  },
}")).
Eval vm_compute in ("<<<M1205>>>" ++ check (runes_of_ascii "packet body { i32 // c
f32a `{ , }` , } options { }")).
Eval vm_compute in ("<<<M1100>>>" ++ check (runes_of_ascii "// top
MetaData // c0
tag // c1
{ // c2
} // c3
")).
Eval vm_compute in ("<<<M429>>>" ++ check (runes_of_ascii "packet uint8x
{ match pack
    as msg_type")).
Eval vm_compute in ("<<<M971>>>" ++ check (runes_of_ascii "options {
    a = ""\
"";
    b = ""\
""
}")).
Eval vm_compute in ("<<<M1823>>>" ++ check (runes_of_ascii "  packet

    A{
}

    // c" ++ [65279]%N ++ runes_of_ascii "
")).
Eval vm_compute in ("<<<M1870>>>" ++ check (runes_of_ascii "options {
    u8x = ""packet"";
}")).
Eval vm_compute in ("<<<M270>>>" ++ check (runes_of_ascii "  root packet msg_type
{
}
")).
Eval vm_compute in ("<<<M1914>>>" ++ check (runes_of_ascii "

  // trailing space 
")).
Eval vm_compute in ("<<<M1504>>>" ++ check (runes_of_ascii "  packet
A {}// c" ++ [5760]%N ++ runes_of_ascii "
 
")).
Eval vm_compute in ("<<<M1135>>>" ++ check (runes_of_ascii "MetaData u {
// c
}")).
Eval vm_compute in ("<<<M1032>>>" ++ check (runes_of_ascii "// c" ++ [11]%N ++ runes_of_ascii "
packet A {
}")).
Eval vm_compute in ("<<<M1029>>>" ++ check (runes_of_ascii "packet A {
}// c" ++ [11]%N)).
Eval vm_compute in ("<<<M626>>>" ++ check (runes_of_ascii "
packet
    as")).
Eval vm_compute in ("<<<M758>>>" ++ check (runes_of_ascii "LE]u'")).
Eval vm_compute in ("<<<M730>>>" ++ check (runes_of_ascii "//")).
