From FP Require Import Lexer Parser ShowPT Digest Formatter.
From Coq Require Import String List NArith.
Import ListNotations.
Open Scope string_scope.
Set Printing Width 100000000.
Set Printing Depth 100000000.
Definition show_fres (r : fres) : string :=
  match r with
  | FOk s => "OK:" ++ sh_escaped s ""
  | FErr s => "ERR:" ++ sh_escaped s ""
  | FPanic p => "PANIC:" ++ p
  end.
Definition check (rs : list rune) : string := digest (show_fres (format_res rs)).
Definition full (rs : list rune) : string := show_fres (format_res rs).
Eval vm_compute in ("<<<M88>>>" ++ check (runes_of_ascii "  packet falsey {
    @leftPad	( )  int8 uint8x
, zchar[ 10 ] matchKey
,
    // c
    repeat matchKey{ repeat
i8
matchKey
,
a1 @calculatedFrom( //
""\n"" ) `two words` ,  } ,a1 { char[]a1, char x_y_z
    // @lengthOf(
    ,	zchar[
65535
] // a // b
len`u8 x,`
,},repeat	MetaDataX
{	repeat
leftPad pack,	string i8i8 `say ""hi""` , }// 50% %s
,
// " ++ [27880; 37322]%N ++ runes_of_ascii "
// @lengthOf(
@leftPad //x
( '0' ) @lengthOf( BodyLength ) @rightPad
    ( ' ' // 50% %s
)
    char[] // " ++ [128512]%N ++ runes_of_ascii " emoji
charz , @lengthOf( i8i8
    ) @calculatedFrom( ""CRC32"" )
    @lengthOf(	T )metadata ,// 50% %s
} packet x	{
@tag( 0123456789	) match tag
    as Pad { [//x
""\" ++ [233]%N ++ runes_of_ascii """ , ""a	b""
    , // " ++ [27880; 37322]%N ++ runes_of_ascii "
""a\\"", ""{,}"" , 007,  007 ,  0123456789
    ] // c
:
    options1
    ,	},
    @leftPad () @lengthOf( charz )
@tag(
42  )
o { i32 msg_type @lengthOf(// `tick` ""quote"" 'q'
A )
`` ,
zchar[
1 ] charz
//	t
//x
,i8 //x
packetx `tab	here` ,
repeat crc rootA , }
, //	t
repeat uint8x
asx
,
repeat char[] Foo
, repeat zchar[ 0123456789
] u128,
    match uint8x as _x{ ""packet"" :f32a ,
    255 :roots ,	[  """ ++ [28040; 24687]%N ++ runes_of_ascii """
    ,0123456789 ,""CRC32""
    , 0 , 1 , 255 ]
:
    // @lengthOf(
    Packet,
""`tick`"" // packet A { u8 x, }
:
    metadata ,""x y""
:rootA}, _x @lengthOf(	crc
    ), @lengthOf( Logon ) repeat Packet options1, match trueish as
    lengthOf { 65535: float , } , @tag(
65535 ) lengthOf @lengthOf(// `tick` ""quote"" 'q'
a1
) `tab	here` , }
")).
Eval vm_compute in ("<<<M209>>>" ++ check (runes_of_ascii "root packet o { repeat zchar[
65535
    ] o, repeat char[ // trailing space 
0 ] zchar,int64 x `
`
//
//
,// a // b
string msg_type // a // b
,
    // c
    @leftPad ('\x00' ) repeat
calculatedFrom
    // trailing space 
    A ,
string Header@lengthOf( a1)`crlf
line`  ,repeat crc
{ f32 Pad,
    match
charz
    /// triple
    as
Logon
    //
    { [ ""1"" , // c
""CRC32"" ,	""" ++ [28040; 24687]%N ++ runes_of_ascii """ , 00,
""1"" , ""{,}"" , """ ++ [28040; 24687]%N ++ runes_of_ascii """	, ""{,}""	]
// packet A { u8 x, }
//x
: uint8x,
[ 3 , ""CRC32""
] :
    // a // b
    lengthOf , 42 : u128 , }
    ,  Z9_ ,
    float64
u128
`{ , }` , }
,
    u16 calculatedFrom
,
zchar[
3 ]
calculatedFrom //	t
,
@tag( 10) match charz as _x {
    ""abc""
    /// triple
    :
// `tick` ""quote"" 'q'
//	t
zchar
, ""packet"" : roots ,255 //x
: options1 , ""1""	: uint8x// packet A { u8 x, }
,
    // 50% %s
    }
    // trailing space 
    ,
}MetaData
len { uint8x len , } packet options1{ @tag( 10
    ) i8	roots@lengthOf( lengthOf  )	,
char[
1 ]u128 `" ++ [28040; 24687; 31867; 22411]%N ++ runes_of_ascii "` // @lengthOf(
, a1 tag
    `say ""hi""` ,
    string
    asx
`// not a comment` ,
    } packet calculatedFrom{ int64
    a1//x
,
// a // b
//x
}")).
Eval vm_compute in ("<<<M1473>>>" ++ check (runes_of_ascii "options	{
LittleEndian=true ;
StringPrefixLenType  = u8 ; ArrayPrefixLenType

= u8 
; FixedStringPadFromLeft =true
    ;

FixedStringPadChar
    =	'0' ;
	}

packet
	Logon  {
repeat	i8  Ref

    ,

    @rightPad (

'0'  )char[
    8]

msgKind ,repeat
InOrderid72 { 
u8 Side2
,

    uint32

    Qty
, repeat InPrice27{ repeat 
char[4
]  Acct
	,

    u64
sym	,
} ,

zchar[
    4]
    clOrdID
,int16

lastPx
	,
    InAcct22 {
repeat

    char[	3

]

    OrderId,}
,
    }
, int64

Px	, } 
packet Fill

{ uint16 
Qty

,
repeat char[ 1 ]
Flags

    ,i8 Ref

, } packet	Logout
{
@leftPad(
'0'

    ) char[
3]
    x, int8
    f1  , Logon 
, uint16 venue
,
zchar[  2 ]

    Px
,
	} packet 
Reject	{
} root packet 
Leg

    {	Fill  ,u16

msgKind 
,
    match
    msgKind
as
Body
    {[182
,  83

]

:
	Fill 
,

    199

    :
Reject,
    137
:
	Logout  ,	35:Logon ,}	,

u32
lastPx@calculatedFrom( 
""CRC32""

    ),
}")).
Eval vm_compute in ("<<<M9>>>" ++ check (runes_of_ascii "packet roots { u16 packetx`say ""hi""` ,  @tag( 00 )string trueish ,
// 50% %s
// @lengthOf(
}	packet falsey {match o
as zchar {
[7
,
    // a // b
    """ ++ [233]%N ++ runes_of_ascii "t" ++ [233]%N ++ runes_of_ascii """ ]:leftPad ,
    ""a	b"" : f32a ,
[""`tick`""
, 10
    /// triple
    ,
// @lengthOf(
// `tick` ""quote"" 'q'
4294967296, 255 ,
10
, ""{,}""
// a // b
//
, """"
    ]
    : // a // b
i64_
, 00 : len , [ 10,
    0,0123456789//x
]
:float }, repeat // 50% %s
char[] BodyLength ,
    @rightPad (
    '0'
    ) @calculatedFrom( // trailing space 
""a	b""
)match Foo as chars {	""" ++ [28040; 24687]%N ++ runes_of_ascii """ : asx, ""packet""	: _x , },} root /// triple
packet x
    { @calculatedFrom( """ ++ [233]%N ++ runes_of_ascii "t" ++ [233]%N ++ runes_of_ascii """
)// c
uint16 calculatedFrom , asx rootA `{ , }` , @calculatedFrom(	""" ++ [28040; 24687]%N ++ runes_of_ascii """ )	x A ,@lengthOf( u8x) @calculatedFrom(
""1"" ) @lengthOf(
    //x
    uint8x )
    zchar[ 65535]lengthOf
`tab	here`,}")).
Eval vm_compute in ("<<<M271>>>" ++ check (runes_of_ascii "root packet // packet A { u8 x, }
i8i8 {
@rightPad (// 50% %s
)char[]	i64_ ,
string f32a @calculatedFrom( ""a\""b"" )
// @lengthOf(
// packet A { u8 x, }
, @tag(
    255 ) @calculatedFrom( ""a	b"" )
    @lengthOf( u128	)match
float as metadata{
""\" ++ [233]%N ++ runes_of_ascii """
    : x_y_z	,
    10:
// `tick` ""quote"" 'q'
// `tick` ""quote"" 'q'
Packet ,""""
:asx , } ,
    @lengthOf( asx  )/// triple
match
    matchKey
// trailing space 
// c
as
Foo{ ""// no comment""
    : trueish 42 :len ,	42: options1 ""x y"" :
x_y_z ""CRC32""
// a // b
// packet A { u8 x, }
:  zchar 0123456789 :
pack ,}
, } MetaData crc { string  repeatCount , //	t
char[] a1  ,
// 50% %s
// `tick` ""quote"" 'q'
char msg_type , pack rootA ,  u64  Pad,}")).
Eval vm_compute in ("<<<M1882>>>" ++ check (runes_of_ascii "MetaData Pad {
    u32 u128 `doc`,
    char[] len `a\`,
    Header tag,
    u8 repeatCount `tab	here`,/// triple
    Pad int,
}

packet len {
    //x
    /// triple
    As {
        pack _x `
                `,
        asx {
            //
            string calculatedFrom @lengthOf(MetaDataX),
            stringy u8x,
            char[255] MetaDataX @calculatedFrom(""""),
        },
        calculatedFrom {
            string_ len,
        },
        Header @lengthOf(charz),
    },
}

// " ++ [27880; 37322]%N ++ runes_of_ascii "
// " ++ [128512]%N ++ runes_of_ascii " emoji
options {
    // c
    // a // b
}

options {
    packetx = ""`tick`"";/// triple
    i64_ = ' ';
}")).
Eval vm_compute in ("<<<M1594>>>" ++ check (runes_of_ascii "packet rootA {
    @calculatedFrom(""{,}"")
    @calculatedFrom(""x y"")
    char[0] lengthOf,
    @tag(3)
    //	t
    trueish,
    charz `" ++ [28040; 24687; 31867; 22411]%N ++ runes_of_ascii "`,
    match u8x as roots {
        ""x y"" : i64_,
        ""a\\"" : As,
        ""CRC32"" : calculatedFrom,
        ""1"" : msg_type,
        [""" ++ [233]%N ++ runes_of_ascii "t" ++ [233]%N ++ runes_of_ascii """, 007] : Foo,
    },
    u32 lengthOf,
    @lengthOf(options1)
    x_y_z Logon `100% of %d`,
    @tag(42)
    // packet A { u8 x, }
    A {
        f32a `u8 x,`,
    },//x
    @rightPad( ' ' )
    char[65535] f32a `tab	here`,
    // c
    /// triple
}")).
Eval vm_compute in ("<<<M1137>>>" ++ check (runes_of_ascii "// top
packet // c0a
  // c0b
_x // c1
{
    // c2
match // c3a
  // c3b
Foo // c4
as // c5
Z9_
    // c6
{ ""a	b""
    // c8
: // c9
Pad // c10a
  // c10b
, }
    // c12
, // c13a
  // c13b
repeat // c14
x // c15
`// not a comment`
    // c16
, @rightPad // c18
( // c19a
  // c19b
' ' )
    // c21
@calculatedFrom( // c22
""a\\"" // c23a
  // c23b
)
    // c24
metadata // c25
MetaDataX // c26
, @tag(
    // c28
0 // c29a
  // c29b
) Logon
    // c31
int `two words`
    // c33
, } // c35
")).
Eval vm_compute in ("<<<M214>>>" ++ check (runes_of_ascii "
options {string_ = float64 ; } root packet BodyLength
    { Header , i16 Foo, lengthOf@calculatedFrom(
""`tick`""	) //
`// not a comment`
    , @lengthOf( charz )// " ++ [128512]%N ++ runes_of_ascii " emoji
repeat u32 a1 ,
    calculatedFrom {
    f64 chars @lengthOf( a1
) `u8 x,`
    , }  , repeat
    i8
    _x `
`
,} options
{ }
MetaData	i8i8
    { // trailing space 
MetaDataX A
,	string
asx,Packet Pad  `say ""hi""` , u128 stringy ,	i64 _x // " ++ [27880; 37322]%N ++ runes_of_ascii "
,
} packet x
{	}")).
Eval vm_compute in ("<<<M1850>>>" ++ check (runes_of_ascii "packet NewOrder {
    u32 qty,
}

packet Cancel {
    u64 id,
}

packet Business {
    u8 Kind,
    match Kind as Detail {
        1 : NewOrder,
        2 : Cancel,
    },
}

packet TcpFrame {
    u8 T,
    match T as Body {
        1 : Business,
    },
}

packet UdpFrame {
    u8 U,
    match U as Body {
        1 : Business,
    },
    Business extra,
}

root packet Wire {
    TcpFrame,
    UdpFrame,
}")).
Eval vm_compute in ("<<<M1276>>>" ++ check (runes_of_ascii "// top
packet // c0
B // c1a
  // c1b
{ u8
    // c3
a ,
    // c5
} // c6
root packet P // c9
{ u8 // c11a
  // c11b
K // c12a
  // c12b
, // c13a
  // c13b
match
    // c14
K
    // c15
as
    // c16
Body // c17
{
    // c18
1 // c19
: B // c21
,
    // c22
} , u16 // c25
L
    // c26
@lengthOf( // c27a
  // c27b
Body
    // c28
)
    // c29
, // c30a
  // c30b
} ")).
Eval vm_compute in ("<<<M1434>>>" ++ check (runes_of_ascii "options
{
    // " ++ [27880; 37322]%N ++ runes_of_ascii "
  // " ++ [128512]%N ++ runes_of_ascii " emoji
    string_
=
    false;	falsey

    =
	char[ 
4294967296 

    // 50% %s

	// `tick` ""quote"" 'q'
    ] ;	} packet zchar{
match  //	t
	float as 
    //x
    	len
{

[
""" ++ [233]%N ++ runes_of_ascii "t" ++ [233]%N ++ runes_of_ascii """ ] : matchKey	,
3
	:
	//	t

// 50% %s
  u [	4294967296,""1"" ]: 
zchar
, }
,
	}

    MetaData
T 	 // packet A { u8 x, }

{	}")).
Eval vm_compute in ("<<<M1288>>>" ++ check (runes_of_ascii "// top
options
    // c0
{ // c1a
  // c1b
LittleEndian // c2
= // c3a
  // c3b
true ; } root // c7
packet
    // c8
P // c9a
  // c9b
{
    // c10
u16 // c11a
  // c11b
a // c12a
  // c12b
, // c13
u32 Sum // c15a
  // c15b
@calculatedFrom( // c16a
  // c16b
""CRC32""
    // c17
) // c18
, } ")).
Eval vm_compute in ("<<<M193>>>" ++ check (runes_of_ascii "// " ++ [27880; 37322]%N ++ runes_of_ascii "
packet	Header {
    @tag(
    // @lengthOf(
    00
)
    u32
charz @lengthOf( f32a
)`" ++ [233]%N ++ runes_of_ascii "`, int32 Pad`doc`,
@leftPad
    (  '\x00'
    // " ++ [27880; 37322]%N ++ runes_of_ascii "
    ) BodyLength T `" ++ [233]%N ++ runes_of_ascii "`
, }
packet
    stringy
{
    /// triple
    msg_type
// " ++ [27880; 37322]%N ++ runes_of_ascii "
// " ++ [27880; 37322]%N ++ runes_of_ascii "
,}MetaData f32a
{ } // " ++ [128512]%N ++ runes_of_ascii " emoji")).
Eval vm_compute in ("<<<M434>>>" ++ check (runes_of_ascii "packet
    asx { @calculatedFrom(
""""  ) @tag( 255 )@calculatedFrom(
// packet A { u8 x, }
// trailing space 
int16 u8x
,
@tag(
    //
    007 )
    @tag( 0
    /// triple
    ) @tag( 1) u
    @lengthOf( T ),
// `tick` ""quote"" 'q'
//x
} // " ++ [128512]%N ++ runes_of_ascii " emoji")).
Eval vm_compute in ("<<<M407>>>" ++ check (runes_of_ascii "packet
    asx { @calculatedFrom(
"""" """"  ) @tag( 255 )repeat
// packet A { u8 x, }
// trailing space 
int16 u8x
,
@tag(
    //
    007 )
    @tag( 0
    /// triple
    ) @tag( 1) u
    @lengthOf( T ),
// `tick` ""quote"" 'q'
//x
} // " ++ [128512]%N ++ runes_of_ascii " emoji")).
Eval vm_compute in ("<<<M539>>>" ++ check (runes_of_ascii "packet
    asx { @calculatedFrom(
""""  ) @tag( 255 )repeat
// packet A { u8 x, ?}
// trailing space 
int16 u8x
,
@tag(
    //
    007 )
    @tag( 0
    /// triple
    ) @tag( 1) u
    @lengthOf( T ),
// `tick` ""quote"" 'q'
//x
} // " ++ [128512]%N ++ runes_of_ascii " emoji")).
Eval vm_compute in ("<<<M499>>>" ++ check (runes_of_ascii "packet
    asx { @calculatedFrom(
""""  ) @tag( 255 )repeat
// packet A { u8 x, }
// trailing space 
int16 u8x
,
@tag(
    //
    007 )
    @tag( 0
    /// triple
    ) @tag( 1) {
    @lengthOf( T ),
// `tick` ""quote"" 'q'
//x
} // " ++ [128512]%N ++ runes_of_ascii " emoji")).
Eval vm_compute in ("<<<M441>>>" ++ check (runes_of_ascii "packet
    asx { @calculatedFrom(
""""  ) @tag( 255 )repeat
// packet A { u8 x, }
// trailing space 
int16 
,
@tag(
    //
    007 )
    @tag( 0
    /// triple
    ) @tag( 1) u
    @lengthOf( T ),
// `tick` ""quote"" 'q'
//x
} // " ++ [128512]%N ++ runes_of_ascii " emoji")).
Eval vm_compute in ("<<<M1761>>>" ++ check (runes_of_ascii "root packet int {
    @tag(0)
    @tag(007)
    @tag(255)
    match i8i8 as _x {
        ""\" ++ [233]%N ++ runes_of_ascii """ : i64_,
        42 : asx,
        0123456789 : Logon,
        65535 : calculatedFrom,
        """ ++ [233]%N ++ runes_of_ascii "t" ++ [233]%N ++ runes_of_ascii """ : u,
    },
    /// triple
}")).
Eval vm_compute in ("<<<M325>>>" ++ check (runes_of_ascii "MetaData lengthOf {chars asx
,
T
// trailing space 
// @lengthOf(
Header
`100% of %d`	,
int32 x_y_z `two words`
, zchar[	0123456789 ] Header
    ``,len x_y_z`
` , // c
}// " ++ [27880; 37322]%N ++ runes_of_ascii "
packet//
BodyLength
    { }
")).
Eval vm_compute in ("<<<M1630>>>" ++ check (runes_of_ascii "MetaData zchar {
}

packet i8i8 {
    @calculatedFrom(""\n"")
    i8 tag @lengthOf(Packet),
    lengthOf {
        char[] leftPad `{ , }`,
        i32 crc @calculatedFrom(""a\\""),
    },
}")).
Eval vm_compute in ("<<<M639>>>" ++ check (runes_of_ascii "MetaData u
    { } MetaData o
{ float uint8x
`100% of %d` ,repeatCount u8x, string_ leftPad
, i32
    `two words` , int64 x `two words` , calculatedFrom
stringy `a\` ,
}
")).
Eval vm_compute in ("<<<M1711>>>" ++ check (runes_of_ascii "

  MetaData
u
{

    }
	MetaData
o 
{float

uint8x  `100% of %d` ,repeatCount 
u8x ,
string_ leftPad	,	i32 
Foo
, int64
x

, 
calculatedFrom

stringy	`a\`
,}
")).
Eval vm_compute in ("<<<M705>>>" ++ check (runes_of_ascii "MetaData u
    { } MetaData o
{ float uint8x
`100% of %d` ,repeatCount u8x, string_ leftPad
, i32
    Foo , int64 x `two words` , calculatedFrom
stringy `a\` ',
}
")).
Eval vm_compute in ("<<<M658>>>" ++ check (runes_of_ascii "MetaData u
    { } MetaData o
{ float uint8x
`100% of %d` ,repeatCount u8x, string_ leftPad
, i32
    Foo , int64 x , `two words` calculatedFrom
stringy `a\` ,
}
")).
Eval vm_compute in ("<<<M631>>>" ++ check (runes_of_ascii "MetaData u
    { } MetaData o
{ float uint8x
`100% of %d` ,repeatCount u8x, string_ leftPad
, 
    Foo , int64 x `two words` , calculatedFrom
stringy `a\` ,
}
")).
Eval vm_compute in ("<<<M1585>>>" ++ check (runes_of_ascii "
packet
	A

    {

    u16 len
	@lengthOf(
	body
)
    `a
b`
    , u32  crc 
@calculatedFrom(
""CRC32""

    )
    `a
b`
,

    string  body

,

}

")).
Eval vm_compute in ("<<<M1677>>>" ++ check (runes_of_ascii "packet crc {
    repeat Foo A,
    @lengthOf(uint8x)
    string matchKey @lengthOf(stringy) `a\`,
    // c
}

MetaData chars {
    leftPad crc `" ++ [233]%N ++ runes_of_ascii "`,
}")).
Eval vm_compute in ("<<<M1431>>>" ++ check (runes_of_ascii "
packet	A
	{
u16

len	@lengthOf(	body ) `tab
	x`

, u32  crc @calculatedFrom( ""CRC32""
    )
    `tab
	x`
	, string
    body  ,

    }
")).
Eval vm_compute in ("<<<M1441>>>" ++ check (runes_of_ascii "options {
    }
options{MetaDataX
=
// c

	char; 
} MetaData
Pad	{
i8 metadata ,string
stringy 
,  int8 As  `{ , }`

    ,	}
")).
Eval vm_compute in ("<<<M1820>>>" ++ check (runes_of_ascii "packet B {
    u8 a,
}

root packet P {
    u8 K,
    u64 L @lengthOf(Body),
    match K as Body {
        1 : B,
    },
}")).
Eval vm_compute in ("<<<M1249>>>" ++ check (runes_of_ascii "options { } options { MetaDataX = char ; } MetaData Pad { i8 metadata , string stringy , int8 As `{ , }` , } // c
")).
Eval vm_compute in ("<<<M1227>>>" ++ check (runes_of_ascii "options { } options { MetaDataX = char ; } MetaData Pad { // c
i8 metadata , string stringy , int8 As `{ , }` , }")).
Eval vm_compute in ("<<<M913>>>" ++ check (runes_of_ascii "packet A {
  match k as n {
    [""a"", ""bb"", 007, ""d"", ""e"", 66, ""g"", ""h"", 9, ""j"", ""k"", 12] : B
    2 : C
  },
}")).
Eval vm_compute in ("<<<M1643>>>" ++ check (runes_of_ascii "
packet
    A {
	match

k as
    n
{[
	""a"", ""bb"" 
,007
,""d"",	""e""

    ,
66
	,	""g"" ]: B , 2:
C

},  }

")).
Eval vm_compute in ("<<<M1903>>>" ++ check (runes_of_ascii "root
	packet SimpleMessage

{

    uint16
    MsgType `" ++ [28040; 24687; 31867; 22411]%N ++ runes_of_ascii "` ,string
JsonBody	`Json" ++ [23383; 31526; 20018; 28040; 24687; 20307]%N ++ runes_of_ascii "`
,
}

")).
Eval vm_compute in ("<<<M881>>>" ++ check (runes_of_ascii "packet A {
  match k as n {
    [1, ""bb"", 007, ""d"", 5, ""f"", 7, ""h"", 9, ""j""] : B
    2 : C
  },
}")).
Eval vm_compute in ("<<<M867>>>" ++ check (runes_of_ascii "packet A {
  match k as n {
    [1, ""bb"", 007, ""d"", 5, ""f"", 7, ""h"", 9] : B,
    2 : C
  },
}")).
Eval vm_compute in ("<<<M843>>>" ++ check (runes_of_ascii "packet A {
  match k as n {
    [""a"", 22, ""c c"", 4, ""e"", 66, ""g""] : B,
    2 : C
  },
}")).
Eval vm_compute in ("<<<M1313>>>" ++ check (runes_of_ascii "packet order_item {
    u8 a,
}
root packet new_order {
    order_item,
    u8 x,
}
")).
Eval vm_compute in ("<<<M1113>>>" ++ check (runes_of_ascii "packet A { u16 // a
 len // b
 @lengthOf( // c
 body // d
 ) // e
 `d` // f
 , }")).
Eval vm_compute in ("<<<M825>>>" ++ check (runes_of_ascii "packet A {
  match k as n {
    [1, 22, 007, 4, 5, 66] : B
    2 : C
  },
}")).
Eval vm_compute in ("<<<M1948>>>" ++ check (runes_of_ascii "root packet P {
    u16 a,
    u32 Sum @calculatedFrom(""CR\
    C32""),
}")).
Eval vm_compute in ("<<<M793>>>" ++ check (runes_of_ascii "packet A {
  match k as n {
    [1, 22, ""c c""] : B,
    2 : C
  },
}")).
Eval vm_compute in ("<<<M244>>>" ++ check (runes_of_ascii "root // " ++ [27880; 37322]%N ++ runes_of_ascii "
packet lengthOf
{
}
    // " ++ [128512]%N ++ runes_of_ascii " emoji
    options
{}
")).
Eval vm_compute in ("<<<M1562>>>" ++ check (runes_of_ascii "MetaData M {
    u8 x `x
        `,
    T t `x
        `,
}")).
Eval vm_compute in ("<<<M1112>>>" ++ check (runes_of_ascii "packet A { repeat // a
 B // b
 b // c
 `d` // e
 , }")).
Eval vm_compute in ("<<<M243>>>" ++ check (runes_of_ascii "// `tick` ""quote"" 'q'
options { f32a  = uint16}")).
Eval vm_compute in ("<<<M1627>>>" ++ check (runes_of_ascii "
packet
	A

{

u8	x `d `	,	// c 
      }

")).
Eval vm_compute in ("<<<M1817>>>" ++ check (runes_of_ascii "

  // c" ++ [133]%N ++ runes_of_ascii "
      packet  A	{

    }

")).
Eval vm_compute in ("<<<M1719>>>" ++ check (runes_of_ascii "packet A {
    u8 x,// c
    u8 y,
}")).
Eval vm_compute in ("<<<M1419>>>" ++ check (runes_of_ascii "packet A {
    u8 x `d" ++ [8239]%N ++ runes_of_ascii "`,// c" ++ [8239]%N ++ runes_of_ascii "
}")).
Eval vm_compute in ("<<<M1077>>>" ++ check (runes_of_ascii "packet A {
 u8 x `d" ++ [6158]%N ++ runes_of_ascii "`, // c" ++ [6158]%N ++ runes_of_ascii "
}")).
Eval vm_compute in ("<<<M969>>>" ++ check (runes_of_ascii "packet A {
    u8 x `%`,
}")).
Eval vm_compute in ("<<<M1150>>>" ++ check (runes_of_ascii "root packet a1 {
// c
}")).
Eval vm_compute in ("<<<M1558>>>" ++ check (runes_of_ascii "
packet
A{ 
}// c x
")).
Eval vm_compute in ("<<<M1051>>>" ++ check (runes_of_ascii "// c" ++ [11]%N ++ runes_of_ascii "
packet A {
}")).
Eval vm_compute in ("<<<M1063>>>" ++ check (runes_of_ascii "packet A {
}// c" ++ [8203]%N)).
Eval vm_compute in ("<<<M1465>>>" ++ check (runes_of_ascii "packet _x {
}")).
Eval vm_compute in ("<<<M1044>>>" ++ check (runes_of_ascii "// c" ++ [8287]%N)).
