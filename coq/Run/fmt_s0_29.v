From FP Require Import Lexer Parser ShowPT Digest Formatter.
From Coq Require Import String List NArith.
Import ListNotations.
Open Scope string_scope.
Set Printing Width 100000000.
Set Printing Depth 100000000.
Definition show_fres (r : fres) : string :=
  match r with
  | FOk s => "OK:" ++ sh_escaped s ""
  | FErr s => "ERR:" ++ sh_escaped s ""
  | FPanic p => "PANIC:" ++ p
  end.
Definition check (rs : list rune) : string := digest (show_fres (format_res rs)).
Definition full (rs : list rune) : string := show_fres (format_res rs).
Eval vm_compute in ("<<<M339>>>" ++ check (runes_of_ascii "// @lengthOf(
packet A { repeat rootA
{ repeat o , BodyLength i64_ `// not a comment` ,  repeatCount @calculatedFrom(""it's"" ) , }
    // @lengthOf(
    ,
//x
//x
@tag( 0 ) falsey @lengthOf( BodyLength
), @leftPad ( ) @calculatedFrom( ""1"" )
@lengthOf(int ) match trueish
as body // trailing space 
{ [ 007
, 7
,
    ""abc"",
""x y"" ,  00 , ""// no comment"" ,
    255, 1
]: body
, } , @lengthOf( Pad ) metadata@calculatedFrom( ""it's"" )
,
    // `tick` ""quote"" 'q'
    @leftPad() @calculatedFrom(	""" ++ [233]%N ++ runes_of_ascii "t" ++ [233]%N ++ runes_of_ascii """ ) char falsey `" ++ [233]%N ++ runes_of_ascii "`,char[
007 ] metadata @lengthOf( chars) , @rightPad ( '0'
) u8 // c
roots@calculatedFrom( ""packet"" ) ,
    string_ MetaDataX ,@lengthOf( Z9_ ) @leftPad ( '\x00' ) /// triple
@rightPad
    ( ' ' //
) MetaDataX
    `two words`  ,zchar[
0
    ]
body// " ++ [27880; 37322]%N ++ runes_of_ascii "
`line1
line2` , } packet
    // packet A { u8 x, }
    uint8x {@rightPad  ( '0' )
    //	t
    char[]stringy,MetaDataX Z9_ , i8 Logon , } root packet
    //	t
    u // " ++ [128512]%N ++ runes_of_ascii " emoji
{ int64 Z9_
    , zchar[ 00 ]
    string_
    //
    `" ++ [28040; 24687; 31867; 22411]%N ++ runes_of_ascii "` ,
    @calculatedFrom(""a\""b""
    )
@tag( 3  ) @rightPad (
'0' ) repeat u32 packetx `two words` , char[42
] string_ , repeat Header lengthOf ,
}
options // packet A { u8 x, }
{	} packet Header
// " ++ [128512]%N ++ runes_of_ascii " emoji
// packet A { u8 x, }
{ @rightPad
(//x
)metadata { char[ 65535// c
]o, repeat x
// c
/// triple
{char[
4294967296 ]  options1 , }
// c
// a // b
,
roots Header, } , }
")).
Eval vm_compute in ("<<<M387>>>" ++ check (runes_of_ascii "options {
	StringPrefixLenType = u16;
	ArrayPrefixLenType = u16;
}

packet SampleBinary {
	uint16 MsgType `" ++ [28040; 24687; 31867; 22411]%N ++ runes_of_ascii "`,
	u16 BodyLenght @lengthOf(Body) `" ++ [28040; 24687; 20307; 38271; 24230]%N ++ runes_of_ascii "`,
	match MsgType as Body {
		1 : Logon,
		2 : Logout,
		3 : Heartbeat,
		4 : RiskControlRequest,
		5 : RiskControlResponse,
	},
	@calculatedFrom(""CRC32"")
	u32 Ckecksum `" ++ [26657; 39564; 21644]%N ++ runes_of_ascii "`,
}

packet Logon {
	@leftPad('0')
	char[10] UserName `" ++ [29992; 25143; 21517]%N ++ runes_of_ascii "`,
	string Password `" ++ [23494; 30721]%N ++ runes_of_ascii "`,
	uint64 ClientId `" ++ [23458; 25143; 31471]%N ++ runes_of_ascii "ID`,
	u16 HeartbeatInterval `" ++ [24515; 36339; 38388; 38548]%N ++ runes_of_ascii "`,
}

packet Logout {
	@rightPad('0')
	char[10] UserName `" ++ [29992; 25143; 21517]%N ++ runes_of_ascii "`,
	uint64 ClientId `" ++ [23458; 25143; 31471]%N ++ runes_of_ascii "ID`,
}

packet Heartbeat {
}

packet RiskControlRequest {
	string UniqueOrderId `" ++ [21807; 19968; 35746; 21333; 21495]%N ++ runes_of_ascii "`,
	char[16] ClOrdID `" ++ [23458; 25143; 35746; 21333; 21495]%N ++ runes_of_ascii "`,
	char[3] MarketID `" ++ [24066; 22330]%N ++ runes_of_ascii "id`,
	char[12] SecurityID `" ++ [35777; 21048; 20195; 30721]%N ++ runes_of_ascii "`,
	char Side `" ++ [20080; 21334; 26041; 21521]%N ++ runes_of_ascii "`,
	char OrderType `" ++ [35746; 21333; 31867; 22411]%N ++ runes_of_ascii "`,
	u64 Price `" ++ [20215; 26684]%N ++ runes_of_ascii "`,
	u32 Qty `" ++ [25968; 37327]%N ++ runes_of_ascii "`,
	repeat string ExtraInfo `" ++ [38468; 21152; 20449; 24687]%N ++ runes_of_ascii "`,
	repeat SubOrder {
		char[16] ClOrdID `" ++ [23376; 35746; 21333; 21495]%N ++ runes_of_ascii "`,
		u64 Price `" ++ [23376; 35746; 21333; 20215; 26684]%N ++ runes_of_ascii "`,
		u32 Qty `" ++ [23376; 35746; 21333; 25968; 37327]%N ++ runes_of_ascii "`,
	},
}

packet RiskControlResponse {
	string UniqueOrderId `" ++ [21807; 19968; 35746; 21333; 21495]%N ++ runes_of_ascii "`,
	i32 Status `" ++ [29366; 24577]%N ++ runes_of_ascii "`,
	string Msg `" ++ [32467; 26524; 20449; 24687]%N ++ runes_of_ascii "`,
	repeat Detail,
}

packet Detail {
	string RuleName `" ++ [35268; 21017; 21517; 31216]%N ++ runes_of_ascii "`,
	u16 Code `" ++ [21407; 22240; 20195; 30721]%N ++ runes_of_ascii "`,
}")).
Eval vm_compute in ("<<<M1332>>>" ++ check (runes_of_ascii "options {
    FixedStringPadFromLeft = true;
    FixedStringPadChar = '0';
}
packet Leg {
    InPrice0 {
        repeat string clOrdID,
        int16 msgKind,
        zchar[5] Px,
    },
    i16 f1,
    repeat f64 Side2,
    string Acct,
}
packet Cancel {
    zchar[4] clOrdID,
    string seqNo,
    Leg,
    @leftPad('0') char[11] OrderId,
}
packet Quote {
    repeat char[4] sym,
    f64 OrderId,
    repeat Leg,
    repeat i64 f1,
    int16 Note,
    zchar[3] count,
}
root packet Ack {
    @leftPad(' ') char[10] sym,
    InPx60 {
        Cancel,
        repeat char[1] f1,
        string Tail,
        repeat InNote55 {
            int8 count,
            f64 f1,
            repeat Cancel,
        },
        char[] tag7,
        repeat string msgKind,
    },
    u8 lastPx,
    match lastPx as Body {
        152 : Quote,
        173 : Cancel,
        4 : Leg,
    },
    u16 Ref @calculatedFrom(""CR\
C32""),
}
")).
Eval vm_compute in ("<<<M1581>>>" ++ check (runes_of_ascii "options {
    FixedStringPadFromLeft = true;
    FixedStringPadChar = '0';
}

packet Leg {
    repeat InSym93 {
        zchar[3] Acct,
        string Side2,
        i32 Flags,
        f32 Note,
        i32 msgKind,
    },
    f64 Note,
    uint16 Px,
}

packet Quote {
    zchar[2] OrderId,
}

packet Ack {
    repeat string lastPx,
    zchar[4] price,
    uint32 OrderId,
    Quote,
    int8 Acct,
}

packet Fill {
    repeat Leg,
    @rightPad('0')
    char[11] Note,
    f64 Px,
    @rightPad('\x00')
    char[5] Flags,
    zchar[9] x,
    string msgKind,
}

root packet Order {
    Leg,
    repeat Ack,
    @rightPad('\x00')
    char[3] Side2,
    repeat char[1] seqNo,
    u16 clOrdID,
    match clOrdID as Body {
        198 : Leg,
        23 : Quote,
        13 : Ack,
        159 : Fill,
    },
    u32 venue @calculatedFrom(""CRC32""),
}")).
Eval vm_compute in ("<<<M1353>>>" ++ check (runes_of_ascii "  options
{ 
StringPrefixLenType = u8 ; ArrayPrefixLenType= 
u32
; 
FixedStringPadFromLeft

=true ; FixedStringPadChar
=' '

; }packet 
Leg 
{}
	packet  Heartbeat  {
    zchar[ 6 ]	msgKind

,
@rightPad  ('0')
char[ 3
    ]	Qty , 
zchar[
    9 ]	Side2

    , i8 Acct

    ,
}
packet Logout
	{

int8  x,

} packet	Order

{char[]

Acct
	,
	zchar[ 8 ] count
	,

    u32 OrderId , uint8  lastPx ,  u16
clOrdID, zchar[7
    ]	Note,
    }root
    packet
    Reject

{
	@leftPad (  ' ')

    char[

    8

    ]
Side2

    ,

i8
	clOrdID
    ,repeat
f32 
x
,	u32

    lastPx ,  match lastPx 
as

    Body
    {
[

30 
,147 ]
    : Heartbeat,134 : Leg , 183
	:  Logout ,

40: Order ,
    } , 
u16

    Ref
    @calculatedFrom(	""CRC32"") 
,
	}")).
Eval vm_compute in ("<<<M1862>>>" ++ check (runes_of_ascii "root
    packet u8x  {
    char 
        // trailing space 
    // @lengthOf(
		i64_  ,
repeat

char[1

] 
Z9_ 
,@tag( 
//x
// " ++ [128512]%N ++ runes_of_ascii " emoji
42)
repeat

Logon
MetaDataX, 
@leftPad 
    //
    () 
Foo
@lengthOf(As 
)	// " ++ [128512]%N ++ runes_of_ascii " emoji
  ,  match

    u128 
as//	t
calculatedFrom { // " ++ [128512]%N ++ runes_of_ascii " emoji
    4294967296

:
    BodyLength 
,	3  : A
    ,  //

	[
    4294967296 //
		, ""packet""
	]

: 
o ,
65535:
roots } ,
    repeat  Pad	{
uint64
x @calculatedFrom(
    """ ++ [128512]%N ++ runes_of_ascii """

) 
,
    a1@lengthOf(
    As )
	`line1
line2`
    , repeat	string_ {
repeat  uint32

_x
	,
f32 MetaDataX

`it's` 
	//	t
    	,  u64
    As@lengthOf(	crc
) ,
} , 
roots
	, } ,
zchar[00

    ] 	 // @lengthOf(
	  u128
,
	} 
//	t
 
")).
Eval vm_compute in ("<<<M87>>>" ++ check (runes_of_ascii "root packet matchKey{ match	Foo as Z9_ {// c
[ ""x y"" , ""1"" ,
    007
, 7 ]: pack,
""`tick`"" :
u128 ,""a	b"" :msg_type,[
//
//
00 ,	65535
] : a1, ""it's"" :Foo
    , // " ++ [128512]%N ++ runes_of_ascii " emoji
[ //x
""""
] : u, } ,
} packet calculatedFrom // c
{msg_type {
    T @calculatedFrom( ""\n"" ) ,float64 i8i8, As`
`, u32 rootA @lengthOf(
// c
// `tick` ""quote"" 'q'
float
) ,}
, }
    packet
    // " ++ [27880; 37322]%N ++ runes_of_ascii "
    x_y_z
{@tag( //x
0 ) i64_
    // " ++ [27880; 37322]%N ++ runes_of_ascii "
    @lengthOf(
    //
    MetaDataX
) ,	}packet A { @calculatedFrom( ""a\\"" )@calculatedFrom(""abc"" ) _x
u	`say ""hi""` ,
    } options
    // `tick` ""quote"" 'q'
    { // trailing space 
metadata = ""a\\"" ; // a // b
}")).
Eval vm_compute in ("<<<M1116>>>" ++ check (runes_of_ascii "// top
MetaData // c0
Packet // c1
{ // c2
} // c3
packet // c4
charz // c5
{ // c6
Foo // c7
asx // c8
`it's` // c9
, // c10
@lengthOf( // c11
T // c12
) // c13
@calculatedFrom( // c14
"""" // c15
) // c16
@calculatedFrom( // c17
""x y"" // c18
) // c19
zchar[ // c20
007 // c21
] // c22
repeatCount // c23
@lengthOf( // c24
int // c25
) // c26
`a\` // c27
, // c28
i8 // c29
string_ // c30
, // c31
repeat // c32
options1 // c33
Pad // c34
, // c35
} // c36
root // c37
packet // c38
Packet // c39
{ // c40
int8 // c41
float // c42
`doc` // c43
, // c44
} // c45
")).
Eval vm_compute in ("<<<M1340>>>" ++ check (runes_of_ascii "options {
    ArrayPrefixLenType = u64;
    FixedStringPadFromLeft = true;
    FixedStringPadChar = '0';
}
packet Quote {
}
packet Ack {
    repeat InNote66 {
        u8 pad0,
    },
}
packet Reject {
}
root packet Order {
    Quote,
    repeat Reject,
    string venue,
    string seqNo,
    uint32 Ref,
    u16 lastPx,
    u32 clOrdID @lengthOf(Body),
    match lastPx as Body {
        190 : Reject,
        186 : Quote,
        22 : Ack,
    },
    u16 Flags @calculatedFrom(""CR\
C32""),
}
")).
Eval vm_compute in ("<<<M1726>>>" ++ check (runes_of_ascii "
// top
      options  // c0
  { // c1

f32a	// c2
=  // c3
0 	 // c4
	}  // c5
packet// c6
		trueish 	 // c7
	  { 	 // c8
  	}// c9
	MetaData 	 // c10
_x  // c11
	  {	// c12
    	char[ 	 // c13
    0123456789 	 // c14
      ] 	 // c15

zchar  // c16

, 	 // c17
	string // c18
  crc	// c19
    , 	 // c20
	char[	// c21
		1	// c22

  ] // c23
  options1 // c24
	  ,	// c25
	uint8  // c26
    repeatCount	// c27
    	, // c28
    } 	 // c29
")).
Eval vm_compute in ("<<<M306>>>" ++ check (runes_of_ascii "packet rootA { @tag(0123456789 ) options1 {int32 uint8x
    `u8 x,`
    , u8x
//x
// packet A { u8 x, }
{
    match Header as
    metadata {[	10 ]
: pack } ,
    } , f64 // `tick` ""quote"" 'q'
chars , }
, @lengthOf( body ) u64
// @lengthOf(
//
Z9_ , }
MetaData repeatCount
    {zchar[10 ] string_ , f64 A
, u32 BodyLength , zchar[ 00 ] uint8x ,
    trueish
leftPad,char[ 65535  ] rootA	, }
//	t
")).
Eval vm_compute in ("<<<M118>>>" ++ check (runes_of_ascii "packet As{@leftPad ( )
    char[ 0	]
Logon, char[	0
]
Z9_@calculatedFrom(	""abc""
    // c
    ) ,  @tag( 4294967296 )
    i64 matchKey @calculatedFrom(
    ""// no comment""//
)`two words` ,i16 A
, }// " ++ [27880; 37322]%N ++ runes_of_ascii "
packet T { zchar[
3 ] tag// packet A { u8 x, }
@lengthOf(
    chars) , } packet// " ++ [128512]%N ++ runes_of_ascii " emoji
BodyLength  {calculatedFrom @lengthOf( body )
`
`	, } // a // b")).
Eval vm_compute in ("<<<M1549>>>" ++ check (runes_of_ascii "MetaData T {
    a1 Packet,
    uint8x Pad `" ++ [233]%N ++ runes_of_ascii "`,
    a1 MetaDataX,
    zchar[00] metadata `u8 x,`,
    Pad x `
        `,
    i8 u8x,
}

options {
    As = false;
}

root packet options1 {
    @calculatedFrom(""// no comment"")
    @lengthOf(_x)
    @tag(007)
    repeat f32 i8i8 `" ++ [233]%N ++ runes_of_ascii "`,
    @rightPad(' ')
    repeat Pad,
}")).
Eval vm_compute in ("<<<M1462>>>" ++ check (runes_of_ascii "

  options {

LittleEndian  = true ;  }
packet Logon
{
u8	x	, } 
packet 
Logout
{ 
u16	reason	,}  root  packet

Frame {u16
	Kind
,u16
    Kind2 ,
    match
Kind 
as Body {1
: Logon ,	[2  ,
	3,4]
:	Logout ,

100  : Logon	,
    }  ,
match Kind2 as

Trailer
	{

0 :
	Logout	,

} 
,}

")).
Eval vm_compute in ("<<<M1274>>>" ++ check (runes_of_ascii "// top
options
    // c0
{ // c1a
  // c1b
FixedStringPadFromLeft
    // c2
= // c3
true
    // c4
; // c5a
  // c5b
}
    // c6
root // c7
packet P {
    // c10
char[ // c11a
  // c11b
4 // c12a
  // c12b
] z // c14
,
    // c15
} // c16a
  // c16b
")).
Eval vm_compute in ("<<<M351>>>" ++ check (runes_of_ascii "MetaData leftPad// packet A { u8 x, }
{ string u128 `say ""hi""` //
, // c
A packetx
    //	t
    , char[
//
// packet A { u8 x, }
42
]
leftPad
    `tab	here` // trailing space 
,i16 crc ,
string uint8x // a // b
,
}")).
Eval vm_compute in ("<<<M1788>>>" ++ check (runes_of_ascii "// top
    root// c0a

// c0b
    packet P  { 
  // c3
    u16
// c4

a 
    // c5
	, 
// c6
  u32// c7a

	// c7b

Sum// c8
@calculatedFrom(  // c9a
// c9b
""CRC32""
)
	,

    }	// c13
 
")).
Eval vm_compute in ("<<<M1683>>>" ++ check (runes_of_ascii "root packet _x {
    uint32 trueish @calculatedFrom(""1"") `crlf
        line`,
}

//
packet Header {
    repeat u64 stringy `// not a comment`,
    float32 msg_type,
}")).
Eval vm_compute in ("<<<M418>>>" ++ check (runes_of_ascii "packet uint8x
{ match pack
    @rightPad msg_type	{
    0123456789 :	float
}
,
} packet //	t
a1
    { } options {packetx
    = '\x00'	; u128= ""a	b""  ; }
")).
Eval vm_compute in ("<<<M523>>>" ++ check (runes_of_ascii "packet uint8x
{ match pack
    as msg_type	{
    0123456789 :	float
}
,
} packet //	t
a1
    { } options {packetx
    = '\x00'	; u128= MetaData  ; }
")).
Eval vm_compute in ("<<<M482>>>" ++ check (runes_of_ascii "packet uint8x
{ match pack
    as msg_type	{
    0123456789 :	float
}
,
} packet //	t
a1
    { } { options packetx
    = '\x00'	; u128= ""a	b""  ; }
")).
Eval vm_compute in ("<<<M472>>>" ++ check (runes_of_ascii "packet uint8x
{ match pack
    as msg_type	{
    0123456789 :	float
}
,
} packet //	t
a1
    } { options {packetx
    = '\x00'	; u128= ""a	b""  ; }
")).
Eval vm_compute in ("<<<M525>>>" ++ check (runes_of_ascii "packet uint8x
{ match pack
    as msg_type	{
    0123456789 :	float
}
,
} packet //	t
a1
    { } options {packetx
    = '\x00'	; u128= ""a	b""   }
")).
Eval vm_compute in ("<<<M405>>>" ++ check (runes_of_ascii "packet uint8x
{  pack
    as msg_type	{
    0123456789 :	float
}
,
} packet //	t
a1
    { } options {packetx
    = '\x00'	; u128= ""a	b""  ; }
")).
Eval vm_compute in ("<<<M423>>>" ++ check (runes_of_ascii "packet uint8x
{ match pack
    as ,	{
    0123456789 :	float
}
,
} packet //	t
a1
    { } options {packetx
    = '\x00'	; u128= ""a	b""  ; }
")).
Eval vm_compute in ("<<<M430>>>" ++ check (runes_of_ascii "packet uint8x
{ match pack
    as msg_type	{
     :	float
}
,
} packet //	t
a1
    { } options {packetx
    = '\x00'	; u128= ""a	b""  ; }
")).
Eval vm_compute in ("<<<M1908>>>" ++ check (runes_of_ascii "packet
	A 
{	match k

as 
n{[

""a"",	""bb""  ,

""c c""
	, ""d""	,
	""e""	,""f""	,

""g"" 
, ""h""

,
""i"" ,""j"",
""k"" 
]  : B 2 :
    C }
    ,
    }
")).
Eval vm_compute in ("<<<M1585>>>" ++ check (runes_of_ascii "root packet lengthOf {
    @leftPad(' ')
    repeat char MetaDataX,
}

MetaData Pad {
    msg_type rootA `// not a comment`,
}")).
Eval vm_compute in ("<<<M1144>>>" ++ check (runes_of_ascii "MetaData
// c
leftPad { chars MetaDataX , } packet repeatCount { char[ 255 ] uint8x `" ++ [233]%N ++ runes_of_ascii "` , } MetaData pack { As Foo , }")).
Eval vm_compute in ("<<<M1176>>>" ++ check (runes_of_ascii "MetaData leftPad { chars MetaDataX , } packet repeatCount { char[ 255 ] uint8x `" ++ [233]%N ++ runes_of_ascii "` , }
// c
MetaData pack { As Foo , }")).
Eval vm_compute in ("<<<M961>>>" ++ check (runes_of_ascii "packet A {
    u16 len @lengthOf(body) `tab
	x`,
    u32 crc @calculatedFrom(""CRC32"") `tab
	x`,
    string body,
}")).
Eval vm_compute in ("<<<M962>>>" ++ check (runes_of_ascii "packet A {
    Inner {
        u8 x `tab
	x`,
        Deep {
            u8 y `tab
	x`,
        },
    },
}")).
Eval vm_compute in ("<<<M158>>>" ++ check (runes_of_ascii "
MetaData charz { As u128 , Logon options1 `say ""hi""` ,
    zchar[ 0
// @lengthOf(
//
]Logon ,
    }
")).
Eval vm_compute in ("<<<M634>>>" ++ check (runes_of_ascii "
packet
    asx {matc@lengthOfh u128 as lengthOf
{
//	t
// `tick` ""quote"" 'q'
255 : x ,
    } ,	}")).
Eval vm_compute in ("<<<M872>>>" ++ check (runes_of_ascii "packet A {
  match k as n {
    [""a"", 22, ""c c"", 4, ""e"", 66, ""g"", 8, ""i""] : B
    2 : C
  },
}")).
Eval vm_compute in ("<<<M603>>>" ++ check (runes_of_ascii "
packet
    asx {match u128 as lengthOf
{
//	t
// `tick` ""quote"" 'q'
255 : x x ,
    } ,	}")).
Eval vm_compute in ("<<<M584>>>" ++ check (runes_of_ascii "
packet
    asx {match u128 as {
lengthOf
//	t
// `tick` ""quote"" 'q'
255 : x ,
    } ,	}")).
Eval vm_compute in ("<<<M625>>>" ++ check (runes_of_ascii "
packet
    asx {match u128 as lengthOf
{
//	t
// `tick` ""quote"" 'q'
255 : x ,
    } ,")).
Eval vm_compute in ("<<<M843>>>" ++ check (runes_of_ascii "packet A {
  match k as n {
    [1, ""bb"", 007, ""d"", 5, ""f"", 7] : B,
    2 : C
  },
}")).
Eval vm_compute in ("<<<M1305>>>" ++ check (runes_of_ascii "packet orderItem {
    u8 a,
}
root packet newOrder {
    orderItem,
    u8 x,
}
")).
Eval vm_compute in ("<<<M803>>>" ++ check (runes_of_ascii "packet A {
  match k as n {
    [""a"", ""bb"", ""c c"", ""d""] : B
    2 : C
  },
}")).
Eval vm_compute in ("<<<M1401>>>" ++ check (runes_of_ascii "// top
packet body {
    // c2
    i32 f32a `{ , }`,
}

// c7
options {
}")).
Eval vm_compute in ("<<<M1283>>>" ++ check (runes_of_ascii "root packet P {
    u16 a,
    u32 Sum @calculatedFrom(""CR\
C32""),
}
")).
Eval vm_compute in ("<<<M781>>>" ++ check (runes_of_ascii "packet A {
  match k as n {
    [""a"", ""bb""] : B
    2 : C
  },
}")).
Eval vm_compute in ("<<<M779>>>" ++ check (runes_of_ascii "packet A {
  match k as n {
    [1, 22] : B
    2 : C
  },
}")).
Eval vm_compute in ("<<<M1633>>>" ++ check (runes_of_ascii "packet body {
    i32 f32a `{ , }`,
}

// c
options {
}")).
Eval vm_compute in ("<<<M1210>>>" ++ check (runes_of_ascii "packet body { i32 f32a `{ , }`
// c
, } options { }")).
Eval vm_compute in ("<<<M756>>>" ++ check (runes_of_ascii "zchar ( : f64 ) , repeat f32 u16 float64 , ; :")).
Eval vm_compute in ("<<<M772>>>" ++ check (runes_of_ascii "false int8 uint64 @lengthOf( , @leftPad :")).
Eval vm_compute in ("<<<M935>>>" ++ check (runes_of_ascii "packet A {
    u8 x `a
    b
  c`,
}")).
Eval vm_compute in ("<<<M1413>>>" ++ check (runes_of_ascii "packet A {
    u8 x `d" ++ [11]%N ++ runes_of_ascii "`,// c" ++ [11]%N ++ runes_of_ascii "
}")).
Eval vm_compute in ("<<<M1048>>>" ++ check (runes_of_ascii "packet A {
 u8 x `d" ++ [8203]%N ++ runes_of_ascii "`, // c" ++ [8203]%N ++ runes_of_ascii "
}")).
Eval vm_compute in ("<<<M1080>>>" ++ check (runes_of_ascii "options { a = 1 // a
 ; }")).
Eval vm_compute in ("<<<M1809>>>" ++ check (runes_of_ascii "
options	{// a
		}

")).
Eval vm_compute in ("<<<M244>>>" ++ check (runes_of_ascii "MetaData u128{} //x")).
Eval vm_compute in ("<<<M1007>>>" ++ check (runes_of_ascii "// c" ++ [8202]%N ++ runes_of_ascii "
packet A {
}")).
Eval vm_compute in ("<<<M729>>>" ++ check (runes_of_ascii "// only a comment")).
Eval vm_compute in ("<<<M1735>>>" ++ check (runes_of_ascii "// @lengthOf(
 
")).
Eval vm_compute in ("<<<M1902>>>" ++ check (runes_of_ascii "

  // " ++ [27880; 37322]%N ++ runes_of_ascii "
")).
Eval vm_compute in ("<<<M726>>>" ++ check (runes_of_ascii "
	 ")).
