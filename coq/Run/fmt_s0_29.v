From FP Require Import Lexer Parser ShowPT Digest Formatter.
From Coq Require Import String List NArith.
Import ListNotations.
Open Scope string_scope.
Set Printing Width 100000000.
Set Printing Depth 100000000.
Definition show_fres (r : fres) : string :=
  match r with
  | FOk s => "OK:" ++ sh_escaped s ""
  | FErr s => "ERR:" ++ sh_escaped s ""
  | FPanic p => "PANIC:" ++ p
  end.
Definition check (rs : list rune) : string := digest (show_fres (format_res rs)).
Definition full (rs : list rune) : string := show_fres (format_res rs).
Eval vm_compute in ("<<<M1942>>>" ++ check (runes_of_ascii "// packet A { u8 x, }
packet string_ {
    @tag(4294967296)
    @calculatedFrom(""" ++ [128512]%N ++ runes_of_ascii """)
    @calculatedFrom(""1"")
    leftPad @lengthOf(int) ``,
    repeat Packet {
        zchar[0] options1 `line1
                line2`,
    },
    @calculatedFrom("""")
    float32 u8x,
    float,
    i64_ {
        packetx {
            i16 falsey,
            f32 repeatCount `{ , }`,
        },
        repeat char[0] i8i8,
        string o @lengthOf(options1),
    },
    i64_ @calculatedFrom(""a\""b"") `a\`,
    @rightPad()
    @lengthOf(packetx)
    match matchKey as stringy {
        ""a	b"" : body,
    },
    // " ++ [27880; 37322]%N ++ runes_of_ascii "
    @lengthOf(u128)
    @calculatedFrom(""`tick`"")
    @rightPad()
    // @lengthOf(
    repeat falsey string_ `" ++ [28040; 24687; 31867; 22411]%N ++ runes_of_ascii "`,
    string As `it's`,
    @calculatedFrom(""" ++ [28040; 24687]%N ++ runes_of_ascii """)
    repeat rootA {
        float64 body,
    },
}

options {
    zchar = true;
    i8i8 = 3;
}

packet leftPad {
    @calculatedFrom("""")
    //x
    @leftPad(' ')
    @calculatedFrom(""abc"")
    repeat MetaDataX {
        char[] Pad,
        body @lengthOf(Foo),
        uint64 i8i8,
        char[42] options1 @calculatedFrom(""x y""),
    },
}

packet stringy {
    @calculatedFrom(""" ++ [28040; 24687]%N ++ runes_of_ascii """)
    BodyLength len,
    @lengthOf(u)
    i8i8 metadata,
    @calculatedFrom(""a\\"")
    //x
    packetx,
    f64 i8i8 @lengthOf(Header),
    metadata `
        `,
    @lengthOf(int)
    repeat falsey,
    repeat char[] trueish,
}")).
Eval vm_compute in ("<<<M225>>>" ++ check (runes_of_ascii "packet T
    // " ++ [128512]%N ++ runes_of_ascii " emoji
    { match repeatCount as
Packet {
    ""packet"" : msg_type , 00 :
    Foo
    ,""" ++ [128512]%N ++ runes_of_ascii """ : trueish, """": repeatCount
    [ // packet A { u8 x, }
4294967296 , 65535 ] :	u ,	}, @calculatedFrom( ""a\\"" )
    float32 len @lengthOf(// " ++ [128512]%N ++ runes_of_ascii " emoji
string_
    ), stringy Pad, roots{ repeat x_y_z
    `// not a comment`
, T
`" ++ [233]%N ++ runes_of_ascii "` , }, @tag(
007 )  _x
{// " ++ [128512]%N ++ runes_of_ascii " emoji
char[] body
@calculatedFrom( """ ++ [233]%N ++ runes_of_ascii "t" ++ [233]%N ++ runes_of_ascii """
    //	t
    ) ,repeat Pad// packet A { u8 x, }
``
// c
/// triple
, }
    //x
    , match	u as packetx{// `tick` ""quote"" 'q'
[ ""// no comment"" ,
007]	: T
, [  ""\" ++ [233]%N ++ runes_of_ascii """// " ++ [27880; 37322]%N ++ runes_of_ascii "
] :// trailing space 
u8x } , @rightPad( ) int8 _x , @lengthOf(
A	)match/// triple
crc
as metadata { [ 00,
    //	t
    ""a\""b"" ,3
    , 1
    ,
10 ] : Packet , //	t
[
4294967296	, ""abc"" , """"] // @lengthOf(
:
// `tick` ""quote"" 'q'
// " ++ [27880; 37322]%N ++ runes_of_ascii "
a1 , """ ++ [28040; 24687]%N ++ runes_of_ascii """ // `tick` ""quote"" 'q'
:
    repeatCount  , } , }options { }MetaData Header
{  trueish Pad ,
    } MetaData Z9_ { char[]
metadata ,
// " ++ [128512]%N ++ runes_of_ascii " emoji
// packet A { u8 x, }
Header A
`doc`
// a // b
// a // b
, //x
uint32 // " ++ [27880; 37322]%N ++ runes_of_ascii "
packetx ,
int16 uint8x
    //
    , Header// @lengthOf(
leftPad
    , // packet A { u8 x, }
}
// trailing space 
")).
Eval vm_compute in ("<<<M1340>>>" ++ check (runes_of_ascii "

  options
{
FixedStringPadFromLeft =

true
    ;	FixedStringPadChar
=  '0'	;
    } packet	Leg

    { InPrice0
    { repeat string

    clOrdID  ,	int16 msgKind
,
zchar[
	5
    ]	Px,
    } ,
i16

    f1
,
repeat
f64 Side2
,string  Acct ,	} packet

Cancel	{
	zchar[
    4

]clOrdID,
	string
    seqNo
, Leg,
@leftPad  (
'0'
	)
    char[
    11] 
OrderId ,
	} packet Quote{repeat
char[
    4  ]
sym
    ,

f64 OrderId ,repeat
	Leg
,

    repeat i64
    f1
	, int16
Note,
zchar[

    3]
count 
,
}  root

packet Ack

    {  @leftPad
(' '
	)char[

10
    ]  sym ,

InPx60

{

Cancel
,repeat	char[ 
1  ]

    f1 , 
string
    Tail
    , 
repeat  InNote55
    {
    int8
    count	, 
f64 
f1
,repeat
    Cancel
    ,},

    char[]tag7
	, 
repeat string
    msgKind

    ,

    }

, u8 
lastPx, match 
lastPx as  Body
{152 
:  Quote  , 
173
:Cancel,	4:
    Leg 
,}

    ,
u16
Ref@calculatedFrom(
    ""CRC32""
	)
,	}

")).
Eval vm_compute in ("<<<M1377>>>" ++ check (runes_of_ascii "// top
options // c0a
  // c0b
{ LittleEndian // c2
= true ; // c5
} // c6a
  // c6b
packet
    // c7
Logon // c8a
  // c8b
{ u8 x // c11
, } // c13
packet // c14
Logout { u16 // c17a
  // c17b
reason
    // c18
, // c19a
  // c19b
} // c20
root
    // c21
packet // c22a
  // c22b
Frame // c23a
  // c23b
{ // c24a
  // c24b
u8
    // c25
Kind // c26a
  // c26b
, // c27
u8 // c28
Kind2 ,
    // c30
match Kind as // c33
Body
    // c34
{ // c35a
  // c35b
1 // c36
:
    // c37
Logon // c38
, // c39a
  // c39b
[ // c40a
  // c40b
2 // c41
,
    // c42
3 // c43
, 4 ]
    // c46
: // c47
Logout
    // c48
, // c49a
  // c49b
100 // c50
:
    // c51
Logon // c52a
  // c52b
,
    // c53
} , // c55
match // c56a
  // c56b
Kind2 as
    // c58
Trailer // c59a
  // c59b
{ // c60
0 // c61
:
    // c62
Logout // c63a
  // c63b
, } , // c66a
  // c66b
} ")).
Eval vm_compute in ("<<<M1759>>>" ++ check (runes_of_ascii "

  options{ StringPrefixLenType
=

    u8

;

ArrayPrefixLenType 
=	u32
    ;
FixedStringPadFromLeft =

true
    ;
	FixedStringPadChar 
=
' '	;

    } packet
Leg
{ } packet
Heartbeat

{
    zchar[

6
]
msgKind ,

    @rightPad( '0'

    )	char[ 3
    ]
Qty

,	zchar[
9	] Side2 
,
	i8 Acct

    ,
}  packet
    Logout	{
	int8 
x

, } 
packet
Order 
{ char[]Acct 
,
zchar[
8
]	count 
,	u32
OrderId,

uint8 lastPx

    ,
    u16

clOrdID,  zchar[
7

    ]Note
,
	}
root
    packet Reject {@leftPad (' ' ) char[
8 ]
    Side2 ,

    i8
clOrdID  , 
repeat 
f32

    x , u32 lastPx

,
match
    lastPx

as Body{ [ 30  ,
	147 ] : Heartbeat ,134 : Leg
	,	183 
:
	Logout
	,
    40 
:
	Order ,	}	,
u16	Ref
@calculatedFrom(
    ""CRC32""	)

    , } ")).
Eval vm_compute in ("<<<M1797>>>" ++ check (runes_of_ascii "packet options1 {
    @leftPad('0')
    @rightPad('\x00')
    @tag(255)
    /// triple
    repeat string As `
    `,
    @calculatedFrom("""")
    @calculatedFrom(""x y"")
    a1 {
        Foo {
            trueish {
                tag @lengthOf(i8i8) `doc`,
            },
            zchar[00] f32a @lengthOf(calculatedFrom),
            repeat zchar[1] stringy `{ , }`,
        },
        uint64 repeatCount @lengthOf(asx),
        char[42] lengthOf @calculatedFrom(""packet""),
        char[10] calculatedFrom @lengthOf(BodyLength),
    },
    asx `// not a comment`,
}

options {
    matchKey = """ ++ [128512]%N ++ runes_of_ascii """
    falsey = ""a\""b"";
    A = ""CRC32""
    msg_type = """ ++ [233]%N ++ runes_of_ascii "t" ++ [233]%N ++ runes_of_ascii """;
}

MetaData o {
}

packet Pad {
}")).
Eval vm_compute in ("<<<M1768>>>" ++ check (runes_of_ascii "MetaData//	t
    body
    { 
T
	calculatedFrom

    , 
string f32a	`line1
line2`
    ,  leftPad BodyLength
`tab	here`
,

    }options {
}  MetaData

options1

    {

    char[
3 
]
    MetaDataX 
	// " ++ [128512]%N ++ runes_of_ascii " emoji
	/// triple
  	`" ++ [28040; 24687; 31867; 22411]%N ++ runes_of_ascii "`
    ,
    BodyLength
x `
`
	,

u16
    tag `say ""hi""`

    , u8 float ,  float32 As `
`
	,i8i8 
Z9_
`
`	,  }packet u {@tag( 42 )	options1 // c
    o
	`crlf
line`
,
    @calculatedFrom(

""`tick`""

// packet A { u8 x, }
// a // b

  )

repeat
char[]	a1 
	    //x
	,
}

options
	{	uint8x
	=	true
A
	= // `tick` ""quote"" 'q'

7	;	// packet A { u8 x, }

	len
= """ ++ [128512]%N ++ runes_of_ascii """
} ")).
Eval vm_compute in ("<<<M1345>>>" ++ check (runes_of_ascii "options {
    LittleEndian = false;
    ArrayPrefixLenType = u8;
    FixedStringPadFromLeft = true;
    FixedStringPadChar = '0';
}
packet Heartbeat {
    string lastPx,
    uint8 Qty,
    i64 Acct,
    char[4] Ref,
}
packet Fill {
    uint8 Ref,
    Heartbeat,
    f32 OrderId,
    repeat f32 x,
}
root packet Order {
    zchar[2] OrderId,
    zchar[2] Acct,
    zchar[1] Note,
    zchar[9] Qty,
    string price,
    string tag7,
    u32 x,
    match x as Body {
        123 : Fill,
        112 : Heartbeat,
    },
    u32 seqNo @calculatedFrom(""CR\
C32""),
}
")).
Eval vm_compute in ("<<<M163>>>" ++ check (runes_of_ascii "options { As = // trailing space 
zchar[ 4294967296] ; } //	t
packet len // packet A { u8 x, }
{ @lengthOf(
_x) match
    // c
    lengthOf
    as
//
// `tick` ""quote"" 'q'
string_// c
{
    [ 4294967296 ]: i64_ ""a	b"": o
,
}
, leftPad
    @calculatedFrom( ""`tick`""	)
// trailing space 
// `tick` ""quote"" 'q'
,@leftPad( '\x00' ) repeat charz /// triple
msg_type
,
repeat i8
Foo , }packet msg_type {
//x
// @lengthOf(
@leftPad (
'0'
)
u64 repeatCount @calculatedFrom(
""" ++ [28040; 24687]%N ++ runes_of_ascii """) ,// packet A { u8 x, }
}
")).
Eval vm_compute in ("<<<M48>>>" ++ check (runes_of_ascii "root	packet Logon { @calculatedFrom( """" ) @lengthOf( int ) @tag( 3
) match _x
as // a // b
i64_ { 10:asx
// `tick` ""quote"" 'q'
/// triple
""" ++ [128512]%N ++ runes_of_ascii """ : crc ,[ 0
,
007
] : float  ,// trailing space 
}
    , repeat //	t
uint16
leftPad  ,
    }
    // " ++ [27880; 37322]%N ++ runes_of_ascii "
    packet charz
{  } MetaData
int {
//
// trailing space 
zchar[ 4294967296 ]matchKey
,
asx rootA
    `doc`
, Foo string_ `// not a comment`
,
    char[]u8x , // `tick` ""quote"" 'q'
roots
float , }
")).
Eval vm_compute in ("<<<M1334>>>" ++ check (runes_of_ascii "options
{ 
LittleEndian
=  false ;
StringPrefixLenType 
= u8

    ; ArrayPrefixLenType=	u64
; 
FixedStringPadFromLeft = false ; FixedStringPadChar

    =' ' ;	}
	packet  Reject

    {repeat	char[
    4] seqNo , string  Px , 
}	root
    packet Trade  {
    @rightPad
	(

'0')
	char[ 
2

    ]
	msgKind  ,
    repeat
f64 price,InAcct79 { repeat Reject , zchar[  7]
	OrderId
	, }
	,Reject	,}
")).
Eval vm_compute in ("<<<M1807>>>" ++ check (runes_of_ascii "packet a1 {
    @calculatedFrom(""`tick`"")
    uint32 charz `crlf
    line`,
    // c
    //x
    a1 `tab	here`,
}

options {
    // " ++ [27880; 37322]%N ++ runes_of_ascii "
    // " ++ [128512]%N ++ runes_of_ascii " emoji
    stringy = 255;
    metadata = 4294967296
    pack = string;
    crc = string;
}

root packet crc {
    @tag(42)
    @calculatedFrom(""abc"")
    @rightPad('0')
    u128 u8x,
    @lengthOf(len)
    uint16 int,
}")).
Eval vm_compute in ("<<<M1745>>>" ++ check (runes_of_ascii "packet float {
    // c2
    @rightPad()
    // c5a
    // c5b
    rootA @lengthOf(trueish),
    // c10
    stringy @lengthOf(matchKey),// c15a
    // c15b
    char[4294967296] pack @lengthOf(uint8x),
    // c23
}// c24

root packet trueish {
    // c28
    repeat uint64 u128 `line1
        line2`,
    // c33
}
// c34")).
Eval vm_compute in ("<<<M1381>>>" ++ check (runes_of_ascii "options
{

    LittleEndian= 
true; }  packet
Logon	{	u8	x 
,

string
	user
,}
	packet 
Logout 
{u16
    reason  ,

    }packet Empty

    { }
    root

packet
Frame
{
    u16
MsgType
,
    u8  BodyLen @lengthOf(Body )  ,
	u8
flags ,	Logon
Body ,
	u32 
trailer ,

    } ")).
Eval vm_compute in ("<<<M1504>>>" ++ check (runes_of_ascii "MetaData BodyLength {
    uint16 leftPad `" ++ [233]%N ++ runes_of_ascii "`,
    uint8x asx,
    len lengthOf `// not a comment`,
    string uint8x `doc`,
}

options {
    i8i8 = 0
    lengthOf = 0123456789;
}

packet uint8x {
    @lengthOf(pack)
    float64 u8x @lengthOf(asx),
}")).
Eval vm_compute in ("<<<M1328>>>" ++ check (runes_of_ascii "packet

    Logon
    {

string

    user
,} root	packet	Frame{ u8 K 
,
    match  K 
as Body
	{ 1
:
    Logon ,2
: Logout  ,

}  ,
	Tail, }

    packet
Logout
	{ u16	reason ,

}
	packet  Tail
{u32	crc
    ,  }
")).
Eval vm_compute in ("<<<M38>>>" ++ check (runes_of_ascii "options
{ falsey
    /// triple
    = false ; falsey=
    //
    int16// `tick` ""quote"" 'q'
;
    // `tick` ""quote"" 'q'
    A =
    // trailing space 
    u32  ;
    trueish	= 1  ;
    }
")).
Eval vm_compute in ("<<<M1644>>>" ++ check (runes_of_ascii "options {
    As = true
    MetaDataX = true
}

packet A {
    repeat calculatedFrom `say ""hi""`,
}

MetaData crc {
    u crc,
    uint32 body,
    i16 stringy `u8 x,`,
}")).
Eval vm_compute in ("<<<M396>>>" ++ check (runes_of_ascii "packet uint8x uint8x
{ match pack
    as msg_type	{
    0123456789 :	float
}
,
} packet //	t
a1
    { } options {packetx
    = '\x00'	; u128= ""a	b""  ; }
")).
Eval vm_compute in ("<<<M543>>>" ++ check (runes_of_ascii "packet uint8x
{ mat'1'ch pack
    as msg_type	{
    0123456789 :	float
}
,
} packet //	t
a1
    { } options {packetx
    = '\x00'	; u128= ""a	b""  ; }
")).
Eval vm_compute in ("<<<M482>>>" ++ check (runes_of_ascii "packet uint8x
{ match pack
    as msg_type	{
    0123456789 :	float
}
,
} packet //	t
a1
    { } { options packetx
    = '\x00'	; u128= ""a	b""  ; }
")).
Eval vm_compute in ("<<<M473>>>" ++ check (runes_of_ascii "packet uint8x
{ match pack
    as msg_type	{
    0123456789 :	float
}
,
} packet //	t
a1
    ] } options {packetx
    = '\x00'	; u128= ""a	b""  ; }
")).
Eval vm_compute in ("<<<M530>>>" ++ check (runes_of_ascii "packet uint8x
{ match pack
    as msg_type	{
    0123456789 :	float
}
,
} packet //	t
a1
    { } options {packetx
    = '\x00'	; u128= ""a	b""  ; 
")).
Eval vm_compute in ("<<<M440>>>" ++ check (runes_of_ascii "packet uint8x
{ match pack
    as msg_type	{
    0123456789 :	
}
,
} packet //	t
a1
    { } options {packetx
    = '\x00'	; u128= ""a	b""  ; }
")).
Eval vm_compute in ("<<<M490>>>" ++ check (runes_of_ascii "packet uint8x
{ match pack
    as msg_type	{
    0123456789 :	float
}
,
} packet //	t
a1
    { } options {
    = '\x00'	; u128= ""a	b""  ; }
")).
Eval vm_compute in ("<<<M430>>>" ++ check (runes_of_ascii "packet uint8x
{ match pack
    as msg_type	{
     :	float
}
,
} packet //	t
a1
    { } options {packetx
    = '\x00'	; u128= ""a	b""  ; }
")).
Eval vm_compute in ("<<<M1298>>>" ++ check (runes_of_ascii "packet
A
{ 
u8 a,
}

packet
    B {

u16  b
,} 
root	packet	P
{ u8
K

,

    match	K

as M	{1
    :
A,

1	: 
B 
, }
,

    }

")).
Eval vm_compute in ("<<<M1585>>>" ++ check (runes_of_ascii "options {
}

MetaData u8x {
    uint8x body `crlf
    line`,
    calculatedFrom body,
}

options {
}

root packet options1 {
}")).
Eval vm_compute in ("<<<M1837>>>" ++ check (runes_of_ascii "packet B {
    u8 a,
}

root packet P {
    u8 K,
    u8 L @lengthOf(Body),
    match K as Body {
        1 : B,
    },
}")).
Eval vm_compute in ("<<<M1164>>>" ++ check (runes_of_ascii "MetaData leftPad { chars MetaDataX , } packet repeatCount { char[
// c
255 ] uint8x `" ++ [233]%N ++ runes_of_ascii "` , } MetaData pack { As Foo , }")).
Eval vm_compute in ("<<<M906>>>" ++ check (runes_of_ascii "packet A {
  match k as n {
    [""a"", ""bb"", ""c c"", ""d"", ""e"", ""f"", ""g"", ""h"", ""i"", ""j"", ""k"", ""l""] : B,
    2 : C
  },
}")).
Eval vm_compute in ("<<<M494>>>" ++ check (runes_of_ascii "packet uint8x
{ match pack
    as msg_type	{
    0123456789 :	float
}
,
} packet //	t
a1
    { } options {")).
Eval vm_compute in ("<<<M1285>>>" ++ check (runes_of_ascii "// top
root
    // c0
packet // c1a
  // c1b
P
    // c2
{ // c3
string s // c5a
  // c5b
,
    // c6
} ")).
Eval vm_compute in ("<<<M373>>>" ++ check (runes_of_ascii "  MetaData leftPad { /// triple
char[] body,  As options1
//
/// triple
,
o
    //x
    i64_
, }
")).
Eval vm_compute in ("<<<M871>>>" ++ check (runes_of_ascii "packet A {
  match k as n {
    [""a"", 22, ""c c"", 4, ""e"", 66, ""g"", 8, ""i""] : B,
    2 : C
  },
}")).
Eval vm_compute in ("<<<M226>>>" ++ check (runes_of_ascii "// a // b
packet Pad {
    char[] // packet A { u8 x, }
Z9_ @lengthOf( Pad
) `{ , }` , } 	 ")).
Eval vm_compute in ("<<<M1692>>>" ++ check (runes_of_ascii "packet A {
    B b `a
    
    b`,
    B `a
    
    b`,
    repeat B bs `a
    
    b`,
}")).
Eval vm_compute in ("<<<M850>>>" ++ check (runes_of_ascii "packet A {
  match k as n {
    [""a"", ""bb"", 007, ""d"", ""e"", 66, ""g""] : B
    2 : C
  },
}")).
Eval vm_compute in ("<<<M1426>>>" ++ check (runes_of_ascii "packet A {
    match k as n {
        [1, 22, 007, 4, 5] : B,
        2 : C,
    },
}")).
Eval vm_compute in ("<<<M848>>>" ++ check (runes_of_ascii "packet A {
  match k as n {
    [1, 22, ""c c"", 4, 5, ""f"", 7] : B
    2 : C
  },
}")).
Eval vm_compute in ("<<<M820>>>" ++ check (runes_of_ascii "packet A {
  match k as n {
    [""a"", 22, ""c c"", 4, ""e""] : B
    2 : C
  },
}")).
Eval vm_compute in ("<<<M789>>>" ++ check (runes_of_ascii "packet A {
  match k as n {
    [""a"", ""bb"", ""c c""] : B,
    2 : C
  },
}")).
Eval vm_compute in ("<<<M1835>>>" ++ check (runes_of_ascii "MetaData
	M
	{u8
    x `a
    b
  c`
, 
T

    t

`a
    b
  c`,} ")).
Eval vm_compute in ("<<<M1127>>>" ++ check (runes_of_ascii "// top
MetaData
    // c0
u
    // c1
{ // c2a
  // c2b
} // c3
")).
Eval vm_compute in ("<<<M812>>>" ++ check (runes_of_ascii "packet A { Inner { match k as n { [1,22,007,4] : B, }, }, }")).
Eval vm_compute in ("<<<M1802>>>" ++ check (runes_of_ascii "// c
packet body {
    i32 f32a `{ , }`,
}

options {
}")).
Eval vm_compute in ("<<<M1209>>>" ++ check (runes_of_ascii "packet body { i32 f32a `{ , }` // c
, } options { }")).
Eval vm_compute in ("<<<M1257>>>" ++ check (runes_of_ascii "
root	packet

P	{
	hdr {u8  a,
}  ,u8 
x , 
}
")).
Eval vm_compute in ("<<<M951>>>" ++ check (runes_of_ascii "MetaData M {
    u8 x `x
`,
    T t `x
`,
}")).
Eval vm_compute in ("<<<M1067>>>" ++ check (runes_of_ascii "packet A {    u8 x, // c    u8 y,}")).
Eval vm_compute in ("<<<M922>>>" ++ check (runes_of_ascii "root packet A {
    u8 x `a
b`,
}")).
Eval vm_compute in ("<<<M586>>>" ++ check (runes_of_ascii "
packet
    asx {match u128 as")).
Eval vm_compute in ("<<<M381>>>" ++ check (runes_of_ascii "options{
int
=char[] ; }
//
")).
Eval vm_compute in ("<<<M326>>>" ++ check (runes_of_ascii "  options{// a // b
}

")).
Eval vm_compute in ("<<<M1537>>>" ++ check (runes_of_ascii "  packet
A {}// c" ++ [5760]%N ++ runes_of_ascii "
 
")).
Eval vm_compute in ("<<<M103>>>" ++ check (runes_of_ascii "packet packetx	{ }")).
Eval vm_compute in ("<<<M1047>>>" ++ check (runes_of_ascii "// c" ++ [8203]%N ++ runes_of_ascii "
packet A {
}")).
Eval vm_compute in ("<<<M1054>>>" ++ check (runes_of_ascii "packet A {
}// c" ++ [6158]%N)).
Eval vm_compute in ("<<<M712>>>" ++ check (runes_of_ascii "// @lengthOf(
")).
Eval vm_compute in ("<<<M252>>>" ++ check (runes_of_ascii " // c")).
Eval vm_compute in ("<<<M728>>>" ++ check (runes_of_ascii "		")).
