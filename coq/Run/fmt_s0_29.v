From FP Require Import Lexer Parser ShowPT Digest Formatter.
From Coq Require Import String List NArith.
Import ListNotations.
Open Scope string_scope.
Set Printing Width 100000000.
Set Printing Depth 100000000.
Definition show_fres (r : fres) : string :=
  match r with
  | FOk s => "OK:" ++ sh_escaped s ""
  | FErr s => "ERR:" ++ sh_escaped s ""
  | FPanic p => "PANIC:" ++ p
  end.
Definition check (rs : list rune) : string := digest (show_fres (format_res rs)).
Definition full (rs : list rune) : string := show_fres (format_res rs).
Eval vm_compute in ("<<<M339>>>" ++ check (runes_of_ascii "// @lengthOf(
packet A { repeat rootA
{ repeat o , BodyLength i64_ `// not a comment` ,  repeatCount @calculatedFrom(""it's"" ) , }
    // @lengthOf(
    ,
//x
//x
@tag( 0 ) falsey @lengthOf( BodyLength
), @leftPad ( ) @calculatedFrom( ""1"" )
@lengthOf(int ) match trueish
as body // trailing space 
{ [ 007
, 7
,
    ""abc"",
""x y"" ,  00 , ""// no comment"" ,
    255, 1
]: body
, } , @lengthOf( Pad ) metadata@calculatedFrom( ""it's"" )
,
    // `tick` ""quote"" 'q'
    @leftPad() @calculatedFrom(	""" ++ [233]%N ++ runes_of_ascii "t" ++ [233]%N ++ runes_of_ascii """ ) char falsey `" ++ [233]%N ++ runes_of_ascii "`,char[
007 ] metadata @lengthOf( chars) , @rightPad ( '0'
) u8 // c
roots@calculatedFrom( ""packet"" ) ,
    string_ MetaDataX ,@lengthOf( Z9_ ) @leftPad ( '\x00' ) /// triple
@rightPad
    ( ' ' //
) MetaDataX
    `two words`  ,zchar[
0
    ]
body// " ++ [27880; 37322]%N ++ runes_of_ascii "
`line1
line2` , } packet
    // packet A { u8 x, }
    uint8x {@rightPad  ( '0' )
    //	t
    char[]stringy,MetaDataX Z9_ , i8 Logon , } root packet
    //	t
    u // " ++ [128512]%N ++ runes_of_ascii " emoji
{ int64 Z9_
    , zchar[ 00 ]
    string_
    //
    `" ++ [28040; 24687; 31867; 22411]%N ++ runes_of_ascii "` ,
    @calculatedFrom(""a\""b""
    )
@tag( 3  ) @rightPad (
'0' ) repeat u32 packetx `two words` , char[42
] string_ , repeat Header lengthOf ,
}
options // packet A { u8 x, }
{	} packet Header
// " ++ [128512]%N ++ runes_of_ascii " emoji
// packet A { u8 x, }
{ @rightPad
(//x
)metadata { char[ 65535// c
]o, repeat x
// c
/// triple
{char[
4294967296 ]  options1 , }
// c
// a // b
,
roots Header, } , }
")).
Eval vm_compute in ("<<<M1599>>>" ++ check (runes_of_ascii "options	{
    // " ++ [27880; 37322]%N ++ runes_of_ascii "
//x
      float	// packet A { u8 x, }

= 
char[]
        // @lengthOf(
    ; Header  =

    false 
    //
	/// triple

} 
// `tick` ""quote"" 'q'
  	options  {	x 
=  char[]
; }
MetaData i64_

{
    f64
	As 

/// triple
      `
`
	,repeatCount	MetaDataX  
      // `tick` ""quote"" 'q'
// `tick` ""quote"" 'q'

	,

repeatCount u128 //x
	,

    metadata msg_type
`tab	here` ,

} 
packet options1{
	repeat	char[

    0123456789 ]  T
    ,	@tag(	65535
)
//x

  @calculatedFrom(
    ""CRC32"" )
	@calculatedFrom( """ ++ [28040; 24687]%N ++ runes_of_ascii """

)repeat

string
Logon
,
@lengthOf( u128

)stringy{
	string_ 
x

    ,} , @tag(// " ++ [27880; 37322]%N ++ runes_of_ascii "

	10

    )

    u64 tag @lengthOf(
roots )
    ,
    Foo@lengthOf(	Foo) `// not a comment`	,
string 
pack 
`a\` ,	match
	A  as

    charz{ [3]

    :  x  ,
}
, @tag(
42
)
	f64

    msg_type @lengthOf(
trueish ) ,

match 
pack/// triple
  as
options1{ 
""" ++ [28040; 24687]%N ++ runes_of_ascii """ : 	 // packet A { u8 x, }
	string_
    ,[

65535 ,

    7
	,

    ""a\""b"" ,7]//	t
:

f32a

    4294967296 : 
o ,

    }
,

    char[]

falsey

, }	// " ++ [128512]%N ++ runes_of_ascii " emoji
")).
Eval vm_compute in ("<<<M17>>>" ++ check (runes_of_ascii "
MetaData
    x{ len
    crc , float
    // " ++ [128512]%N ++ runes_of_ascii " emoji
    asx, i32 uint8x`line1
line2` ,u16
tag
// `tick` ""quote"" 'q'
//x
`it's` , As string_
    ,
}
packet metadata {@lengthOf(zchar )// c
i64_ @calculatedFrom(
""\" ++ [233]%N ++ runes_of_ascii """	) , //x
@leftPad
    ( '\x00' ) zchar[ 10
] zchar
    ,
    lengthOf //x
string_ ,int @lengthOf( pack
    ),
    zchar[ 00 ]
    Foo , @lengthOf( packetx )
    @leftPad (
'\x00'// " ++ [27880; 37322]%N ++ runes_of_ascii "
) @calculatedFrom(
    // @lengthOf(
    ""x y"" )uint16
len@calculatedFrom( """" )
`two words` , int8
    metadata @lengthOf( Foo )`two words`	, // @lengthOf(
}options
{ }
packet
pack{
// `tick` ""quote"" 'q'
//
f64
    o , T BodyLength  ,
    repeat
    uint8 chars  `" ++ [233]%N ++ runes_of_ascii "`
    ,repeat
    // c
    Logon
u
    // " ++ [128512]%N ++ runes_of_ascii " emoji
    ,@tag(
    0123456789 )
char[] repeatCount @lengthOf(// " ++ [27880; 37322]%N ++ runes_of_ascii "
_x )
    // c
    `
` ,//
@tag(
// packet A { u8 x, }
/// triple
7 )  repeatCount @calculatedFrom(""packet"" ) `{ , }` , }")).
Eval vm_compute in ("<<<M1359>>>" ++ check (runes_of_ascii "options {
    FixedStringPadFromLeft = true;
    FixedStringPadChar = '0';
}
packet Leg {
    repeat InSym93 {
        zchar[3] Acct,
        string Side2,
        i32 Flags,
        f32 Note,
        i32 msgKind,
    },
    f64 Note,
    uint16 Px,
}
packet Quote {
    zchar[2] OrderId,
}
packet Ack {
    repeat string lastPx,
    zchar[4] price,
    uint32 OrderId,
    Quote,
    int8 Acct,
}
packet Fill {
    repeat Leg,
    @rightPad('0') char[11] Note,
    f64 Px,
    @rightPad('\x00') char[5] Flags,
    zchar[9] x,
    string msgKind,
}
root packet Order {
    Leg,
    repeat Ack,
    @rightPad('\x00') char[3] Side2,
    repeat char[1] seqNo,
    u16 clOrdID,
    match clOrdID as Body {
        198 : Leg,
        23 : Quote,
        13 : Ack,
        159 : Fill,
    },
    u32 venue @calculatedFrom(""CRC32""),
}
")).
Eval vm_compute in ("<<<M1124>>>" ++ check (runes_of_ascii "// top
options
    // c0
{ // c1
uint8x // c2a
  // c2b
= 007 // c4a
  // c4b
; lengthOf
    // c6
= i8 ; // c9a
  // c9b
} packet i64_
    // c12
{ // c13
@calculatedFrom( // c14
""1""
    // c15
) // c16
@tag( // c17
3 )
    // c19
@lengthOf(
    // c20
rootA ) // c22
repeat // c23
int8 // c24a
  // c24b
Packet // c25a
  // c25b
`u8 x,` // c26
, // c27
} // c28a
  // c28b
root
    // c29
packet // c30a
  // c30b
stringy
    // c31
{ // c32a
  // c32b
@rightPad ( ' ' // c35
) // c36
repeat // c37a
  // c37b
char[ // c38
10 // c39
] repeatCount // c41a
  // c41b
, // c42
@tag( // c43a
  // c43b
255
    // c44
) // c45
float64
    // c46
msg_type
    // c47
@calculatedFrom( ""packet""
    // c49
) // c50a
  // c50b
, // c51a
  // c51b
} // c52
")).
Eval vm_compute in ("<<<M243>>>" ++ check (runes_of_ascii "// a // b
packet stringy { @tag( 3 ) // trailing space 
i64
    len
,@calculatedFrom( ""1""  ) char[
0 ]
x @lengthOf(Foo )
,@calculatedFrom( """" )
body
// c
// " ++ [128512]%N ++ runes_of_ascii " emoji
@lengthOf(
calculatedFrom )`line1
line2`
    , @calculatedFrom( ""it's"" // " ++ [128512]%N ++ runes_of_ascii " emoji
)// packet A { u8 x, }
match falsey
    // packet A { u8 x, }
    as u8x {[
""" ++ [128512]%N ++ runes_of_ascii """
    , // a // b
42 , 1 ,10 ]
: Header , } ,
// trailing space 
// `tick` ""quote"" 'q'
} MetaData// " ++ [128512]%N ++ runes_of_ascii " emoji
stringy{ f32a
    u128 `{ , }` , char[ // a // b
10 ]u128	, chars _x , zchar[ 65535 // trailing space 
]/// triple
falsey
    `{ , }`
    , _x i64_
, int32
Packet
`crlf
line` , } MetaData lengthOf
{
    }
// trailing space 
")).
Eval vm_compute in ("<<<M1519>>>" ++ check (runes_of_ascii "//x
packet x {
    @lengthOf(string_)
    // `tick` ""quote"" 'q'
    // trailing space 
    msg_type {
        int @lengthOf(chars) `" ++ [28040; 24687; 31867; 22411]%N ++ runes_of_ascii "`,
        int `a\`,
    },
    uint32 chars @calculatedFrom(""`tick`"") `
        `,
    @lengthOf(packetx)
    match metadata as x_y_z {
        65535 : x,
        007 : u,
        [7, ""// no comment"", """ ++ [28040; 24687]%N ++ runes_of_ascii """] : x,
        ""a\\"" : MetaDataX,
        0123456789 : lengthOf,
        10 : float,
    },
    u16 Logon @calculatedFrom(""x y"") `tab	here`,
    @lengthOf(Foo)
    zchar,
}

packet tag {
}

root packet x_y_z {
}

MetaData int {
    string A `" ++ [233]%N ++ runes_of_ascii "`,
}")).
Eval vm_compute in ("<<<M1374>>>" ++ check (runes_of_ascii "packet Sub { // c2a
  // c2b
u8 a
    // c4
, // c5
@calculatedFrom( ""CRC16"" // c7
)
    // c8
i32 // c9a
  // c9b
SubSum
    // c10
, }
    // c12
root packet // c14
Frame // c15a
  // c15b
{ // c16a
  // c16b
u16 // c17a
  // c17b
MsgType // c18a
  // c18b
, // c19
u16 BodyLen // c21a
  // c21b
@lengthOf( // c22
Body // c23
) // c24
, Sub Body
    // c27
, // c28
string note // c30
,
    // c31
@calculatedFrom( // c32
""CRC16"" ) // c34
i32 // c35
Checksum // c36
, u8
    // c38
tail // c39a
  // c39b
,
    // c40
} // c41
")).
Eval vm_compute in ("<<<M193>>>" ++ check (runes_of_ascii "
root packet lengthOf{
    char[ 3 ] Pad ,	@rightPad
    (  '0'
)
    crc `doc` ,i32 //x
uint8x
,	zchar { match Logon  as int { [ 0 , """ ++ [233]%N ++ runes_of_ascii "t" ++ [233]%N ++ runes_of_ascii """] :o , ""// no comment"" :len ,
} , asx
{
    //x
    char[	10 ]
u128 // a // b
@lengthOf(  x_y_z)`say ""hi""`, }
/// triple
//
, char[
1 ] A, u// c
chars
    `` , }, repeat matchKey
{ //x
string trueish@calculatedFrom(
    ""a	b""  )  , repeat
    // packet A { u8 x, }
    i8 msg_type `it's` ,	} , /// triple
}
packet float { }")).
Eval vm_compute in ("<<<M14>>>" ++ check (runes_of_ascii "MetaData u128
    {// a // b
string zchar //x
`two words` ,u16 packetx
`a\` , char[ 1 ] Logon	, len crc, char[
7]i8i8,char[]calculatedFrom,
} // @lengthOf(
MetaData u
    { u// " ++ [128512]%N ++ runes_of_ascii " emoji
u128
, //	t
}root packet metadata { }options	{ matchKey =
    255
;
x_y_z
= 007 crc=int16
; zchar =// c
char[42 ]
; int
= true ;
} options  {
Header = """ ++ [128512]%N ++ runes_of_ascii """
;
len
    = ' ' ; matchKey= """" ;MetaDataX =' '
; o
    = '\x00' ; }
/// triple
")).
Eval vm_compute in ("<<<M1764>>>" ++ check (runes_of_ascii "packet	// c
  As
	{
    @tag(	42  )

repeat
    Logon
uint8x

    // " ++ [128512]%N ++ runes_of_ascii " emoji
  //
	`` ,
repeat int32 x_y_z
    , char[
7 // trailing space 

] pack
, 
repeat string
	crc

/// triple
	// c
	`// not a comment`,

@calculatedFrom(  ""`tick`"") @tag( 1
    ) match
        // @lengthOf(

	chars as 
MetaDataX 
{

    4294967296  :// @lengthOf(
  T

    , } /// triple
      , }

")).
Eval vm_compute in ("<<<M299>>>" ++ check (runes_of_ascii "// packet A { u8 x, }
MetaData roots{ char[ 00]lengthOf
``  , As stringy, x	calculatedFrom ,} packet i8i8	{
crc `crlf
line` , @rightPad// a // b
( )zchar[ 42] falsey // trailing space 
,
    /// triple
    @tag( 42 ) u32	leftPad  , @tag( 42 ) a1@lengthOf( Z9_ ) , match leftPad as crc{ [""a\""b"" , 1
, 255
]:	trueish ,3
: float ,
0 :lengthOf
    ,
} ,}")).
Eval vm_compute in ("<<<M1369>>>" ++ check (runes_of_ascii "
options { LittleEndian= 
true  ;  }
    packet 
Logon

{

u8
x
,

    }packet

    Logout 
{ u16	reason,} root  packet

Frame
{ u16 Kind  ,  u16
Kind2 ,  match
Kind as  Body
    {
    1 :

Logon  ,
    [	2 ,
	3 ,	4]
    :

Logout
, 100
:Logon ,},
    match	Kind2

    as	Trailer{
	0 
:
	Logout 
,  }
    ,	}")).
Eval vm_compute in ("<<<M1308>>>" ++ check (runes_of_ascii "packet A {
    u8 a,
}
packet B {
    u16 b,
}
packet C {
    u32 c,
}
root packet M {
    u16 Kc, u16 Kb, u16 Ka,
    match Kc as X {
        9 : A,
        10 : B,
    },
    match Kb as Y {
        2 : C,
        1 : A,
    },
    match Ka as Z {
        1 : B,
    },
    A, B, C,
}
")).
Eval vm_compute in ("<<<M1736>>>" ++ check (runes_of_ascii "root

packet tag

    {	@calculatedFrom(""{,}"" 
	    // `tick` ""quote"" 'q'

	) @tag(
	//x
	// " ++ [27880; 37322]%N ++ runes_of_ascii "
	  42
) i64_ 
@lengthOf(	calculatedFrom
) ,
	zchar[ // " ++ [128512]%N ++ runes_of_ascii " emoji
3 	 // @lengthOf(
  ]
    int	, }
    root	// c
packet Foo 
{	}
    // @lengthOf(
")).
Eval vm_compute in ("<<<M1605>>>" ++ check (runes_of_ascii "options { Z9_  =// trailing space 

  ""packet""
; float=
	false 
;

A	=
	' '}
    // c

MetaData
pack
{

zchar[3
	]leftPad
    , 
zchar	falsey `it's`	,

char[]	repeatCount
    ,
	char[
65535// " ++ [128512]%N ++ runes_of_ascii " emoji
  ]
Z9_	, 
} 
//	t
")).
Eval vm_compute in ("<<<M38>>>" ++ check (runes_of_ascii "options
{ falsey
    /// triple
    = false ; falsey=
    //
    int16// `tick` ""quote"" 'q'
;
    // `tick` ""quote"" 'q'
    A =
    // trailing space 
    u32  ;
    trueish	= 1  ;
    }
")).
Eval vm_compute in ("<<<M1619>>>" ++ check (runes_of_ascii "packet
//	t
    Logon  {

metadata
@calculatedFrom(	""a\\""	)

, 
@tag(

42 ) // " ++ [128512]%N ++ runes_of_ascii " emoji
@tag(	65535 )repeat u16

o `line1
line2`

    ,
	}
    packet
float{ 
}

")).
Eval vm_compute in ("<<<M461>>>" ++ check (runes_of_ascii "packet uint8x
{ match pack
    as msg_type	{
    0123456789 :	float
}
,
} packet packet //	t
a1
    { } options {packetx
    = '\x00'	; u128= ""a	b""  ; }
")).
Eval vm_compute in ("<<<M543>>>" ++ check (runes_of_ascii "packet uint8x
{ mat'1'ch pack
    as msg_type	{
    0123456789 :	float
}
,
} packet //	t
a1
    { } options {packetx
    = '\x00'	; u128= ""a	b""  ; }
")).
Eval vm_compute in ("<<<M701>>>" ++ check (runes_of_ascii "// @lengthOf(
packet i8i8 { u128 o , }
options { MetaDataX = true;
    BodyLength =""packet"" ""packet"" x_y_z= 007
crc //x
= ""abc"" ;
    msg_type =
i16 }")).
Eval vm_compute in ("<<<M452>>>" ++ check (runes_of_ascii "packet uint8x
{ match pack
    as msg_type	{
    0123456789 :	float
}
}
, packet //	t
a1
    { } options {packetx
    = '\x00'	; u128= ""a	b""  ; }
")).
Eval vm_compute in ("<<<M495>>>" ++ check (runes_of_ascii "packet uint8x
{ match pack
    as msg_type	{
    0123456789 :	float
}
,
} packet //	t
a1
    { } options {packetx
     '\x00'	; u128= ""a	b""  ; }
")).
Eval vm_compute in ("<<<M668>>>" ++ check (runes_of_ascii "// @len'1'gthOf(
packet i8i8 { u128 o , }
options { MetaDataX = true;
    BodyLength =""packet"" x_y_z= 007
crc //x
= ""abc"" ;
    msg_type =
i16 }")).
Eval vm_compute in ("<<<M711>>>" ++ check (runes_of_ascii "// @lengthOf(
packet i8i8 { u128 o , }
options { MetaDataX = true;
    BodyLength =""packet"" x_y_z= 007
""crc //x
= ""abc"" ;
    msg_type =
i16 }")).
Eval vm_compute in ("<<<M699>>>" ++ check (runes_of_ascii "// @lengthOf(
packet i8i8 { a" ++ [769]%N ++ runes_of_ascii "b o , }
options { MetaDataX = true;
    BodyLength =""packet"" x_y_z= 007
crc //x
= ""abc"" ;
    msg_type =
i16 }")).
Eval vm_compute in ("<<<M658>>>" ++ check (runes_of_ascii "// @lengthOf(
 i8i8 { u128 o , }
options { MetaDataX = true;
    BodyLength =""packet"" x_y_z= 007
crc //x
= ""abc"" ;
    msg_type =
i16 }")).
Eval vm_compute in ("<<<M1796>>>" ++ check (runes_of_ascii "packet 
A

    {  match
k as
	n

    { [""a"" 
, ""bb"" , ""c c""  , ""d""
    , ""e""
    ,""f""  ,

    ""g""
    ]:B
	,	2 :	C } ,
}

")).
Eval vm_compute in ("<<<M1258>>>" ++ check (runes_of_ascii "packet B {
    u8 a,
}
root packet P {
    u8 K,
    u8 L @lengthOf(Body),
    match K as Body {
        1 : B,
    },
}
")).
Eval vm_compute in ("<<<M1160>>>" ++ check (runes_of_ascii "MetaData leftPad { chars MetaDataX , } packet repeatCount
// c
{ char[ 255 ] uint8x `" ++ [233]%N ++ runes_of_ascii "` , } MetaData pack { As Foo , }")).
Eval vm_compute in ("<<<M906>>>" ++ check (runes_of_ascii "packet A {
  match k as n {
    [""a"", ""bb"", ""c c"", ""d"", ""e"", ""f"", ""g"", ""h"", ""i"", ""j"", ""k"", ""l""] : B,
    2 : C
  },
}")).
Eval vm_compute in ("<<<M494>>>" ++ check (runes_of_ascii "packet uint8x
{ match pack
    as msg_type	{
    0123456789 :	float
}
,
} packet //	t
a1
    { } options {")).
Eval vm_compute in ("<<<M1692>>>" ++ check (runes_of_ascii "packet 
B 
{
    u8 
a ,
string  s,
    } root
	packet P

{ u16 L 
@lengthOf(B
    )
,  B
,
	u8

t ,

}")).
Eval vm_compute in ("<<<M583>>>" ++ check (runes_of_ascii "
packet
    asx {match u128 as lengthOf lengthOf
{
//	t
// `tick` ""quote"" 'q'
255 : x ,
    } ,	}")).
Eval vm_compute in ("<<<M573>>>" ++ check (runes_of_ascii "
packet
    asx {match u128 u128 as lengthOf
{
//	t
// `tick` ""quote"" 'q'
255 : x ,
    } ,	}")).
Eval vm_compute in ("<<<M585>>>" ++ check (runes_of_ascii "
packet
    asx {match u128 as @lengthOf(
{
//	t
// `tick` ""quote"" 'q'
255 : x ,
    } ,	}")).
Eval vm_compute in ("<<<M281>>>" ++ check (runes_of_ascii "
packet
    o	{  }
packet
Pad {
BodyLength // trailing space 
, } packet metadata //x
{}")).
Eval vm_compute in ("<<<M1933>>>" ++ check (runes_of_ascii "packet A {
    match k as n {
        [007, ""a"", ""bb"", ""d""] : B,
        2 : C,
    },
}")).
Eval vm_compute in ("<<<M1602>>>" ++ check (runes_of_ascii "packet stringy {
}// packet A { u8 x, }

packet u128 {
    u16 len @lengthOf(u128),
}")).
Eval vm_compute in ("<<<M853>>>" ++ check (runes_of_ascii "packet A {
  match k as n {
    [1, 22, 007, 4, 5, 66, 7, 8] : B
    2 : C
  },
}")).
Eval vm_compute in ("<<<M1621>>>" ++ check (runes_of_ascii "MetaData M {
    u8 x `a
        b
      c`,
    T t `a
        b
      c`,
}")).
Eval vm_compute in ("<<<M804>>>" ++ check (runes_of_ascii "packet A {
  match k as n {
    [1, ""bb"", 007, ""d""] : B,
    2 : C
  },
}")).
Eval vm_compute in ("<<<M1534>>>" ++ check (runes_of_ascii "// c
    packet
body
    { i32  f32a `{ , }`,
	} options

    {
	} ")).
Eval vm_compute in ("<<<M167>>>" ++ check (runes_of_ascii "packet msg_type { repeat// " ++ [27880; 37322]%N ++ runes_of_ascii "
zchar[  007] Logon `two words`, }
")).
Eval vm_compute in ("<<<M1407>>>" ++ check (runes_of_ascii "packet

body // c
  {

i32 f32a
    `{ , }`,

} options 
{
}")).
Eval vm_compute in ("<<<M1097>>>" ++ check (runes_of_ascii "packet A {
    match k as n {
        1 : B,// c
    },
}")).
Eval vm_compute in ("<<<M1202>>>" ++ check (runes_of_ascii "packet body
// c
{ i32 f32a `{ , }` , } options { }")).
Eval vm_compute in ("<<<M1073>>>" ++ check (runes_of_ascii "packet A {} packet B {} MetaData M {} options {}")).
Eval vm_compute in ("<<<M1095>>>" ++ check (runes_of_ascii "packet A { char[ // a
 3 // b
 ] // c
 x, }")).
Eval vm_compute in ("<<<M1879>>>" ++ check (runes_of_ascii "  packet
A 
{

u8	x	`d" ++ [8239]%N ++ runes_of_ascii "`
, // c" ++ [8239]%N ++ runes_of_ascii "

  }")).
Eval vm_compute in ("<<<M952>>>" ++ check (runes_of_ascii "root packet A {
    u8 x `x
`,
}")).
Eval vm_compute in ("<<<M1018>>>" ++ check (runes_of_ascii "packet A {
 u8 x `d" ++ [8233]%N ++ runes_of_ascii "`, // c" ++ [8233]%N ++ runes_of_ascii "
}")).
Eval vm_compute in ("<<<M953>>>" ++ check (runes_of_ascii "packet A {
    u8 x `
x`,
}")).
Eval vm_compute in ("<<<M576>>>" ++ check (runes_of_ascii "
packet
    asx {match")).
Eval vm_compute in ("<<<M1129>>>" ++ check (runes_of_ascii "
// c
MetaData u { }")).
Eval vm_compute in ("<<<M991>>>" ++ check (runes_of_ascii "packet A {
}
// c" ++ [133]%N)).
Eval vm_compute in ("<<<M1233>>>" ++ check (runes_of_ascii "packet x { }
// c
")).
Eval vm_compute in ("<<<M1422>>>" ++ check (runes_of_ascii "root packet A {
}")).
Eval vm_compute in ("<<<M749>>>" ++ check ([1; 65533]%N ++ runes_of_ascii ">&EQX" ++ [65533]%N ++ runes_of_ascii "P" ++ [65533; 65533]%N)).
Eval vm_compute in ("<<<M754>>>" ++ check (runes_of_ascii "Y )'")).
