From FP Require Import Lexer Parser ShowPT Digest Formatter.
From Coq Require Import String List NArith.
Import ListNotations.
Open Scope string_scope.
Set Printing Width 100000000.
Set Printing Depth 100000000.
Definition show_fres (r : fres) : string :=
  match r with
  | FOk s => "OK:" ++ sh_escaped s ""
  | FErr s => "ERR:" ++ sh_escaped s ""
  | FPanic p => "PANIC:" ++ p
  end.
Definition check (rs : list rune) : string := digest (show_fres (format_res rs)).
Definition full (rs : list rune) : string := show_fres (format_res rs).
Eval vm_compute in ("<<<M1574>>>" ++ check (runes_of_ascii "
// top
	packet 
      // c0
		Frame	// c1a
      // c1b
    	{
	// c2
		u8// c3
HK // c4
, // c5
      u8	// c6
	BK
, 	 // c8a
    // c8b
	u8 
// c9
  	TK// c10
,match// c12
	  HK
	    // c13

	as  Hdr 
        // c15

  { // c16a
      // c16b
  1	// c17
	:	// c18a
    // c18b
HdrA	// c19a
// c19b
      ,
2  // c21a
	// c21b
  :
    // c22
    HdrB ,// c24
    	}
    // c25

,// c26a

  // c26b
	match  // c27a

  // c27b
BK
    // c28
	  as 
	// c29
	Body  { 
1  // c32a
    	// c32b

: // c33a
// c33b
	BodyA // c34a
      // c34b
  	, // c35a
  // c35b
      2 

// c36
	: 
// c37
  BodyB ,	// c39a
  // c39b
  }	, 
	    // c41
	match

    // c42
	TK  // c43
as
    Trl	// c45a
// c45b
	{
1  // c47
	:	// c48
  TrlA 	 // c49
    , 	 // c50

}	,
// c52
    	}
	    // c53
packet HdrA  // c55
  { 	 // c56
	  u8  // c57
a	// c58a
    // c58b
, // c59
	  }	// c60a
    	// c60b
    packet

    HdrB	// c62

{
    // c63
		u16  b 
      // c65

,
	}packet
// c68
      BodyA // c69
	{	// c70
	u32
// c71
    c
// c72
	,	// c73
		}

// c74
  packet// c75
	BodyB 	 // c76
  {	u64
d 
,	// c80a
	// c80b
    } 
      // c81
	packet	// c82
	TrlA 
        // c83

	{ // c84a
// c84b

u8 	 // c85
	e 
    // c86
,  // c87a
	// c87b
	}

    root
    // c89
    packet 

// c90
	Msg // c91
	  { 	 // c92

	Frame // c93a
      // c93b

,	// c94a
  // c94b

u8	// c95a
		// c95b
	x  
      // c96
	  , // c97
	} 
      // c98")).
Eval vm_compute in ("<<<M1502>>>" ++ check (runes_of_ascii "// @lengthOf(
MetaData BodyLength {
    u8x u128 `a\`,
}

packet stringy {
}

packet a1 {
    i8 f32a `
    `,
    repeat i64 len,
    @calculatedFrom(""\" ++ [233]%N ++ runes_of_ascii """)
    string leftPad `line1
    line2`,
    match a1 as float {
        [007, 3] : repeatCount,
        3 : MetaDataX,
        ""CRC32"" : u128,
        [""a\""b"", ""// no comment""] : roots,
        ""\" ++ [233]%N ++ runes_of_ascii """ : A,
    },
    zchar[42] Pad,/// triple
    @calculatedFrom(""" ++ [233]%N ++ runes_of_ascii "t" ++ [233]%N ++ runes_of_ascii """)
    // `tick` ""quote"" 'q'
    match chars as string_ {
        3 : options1,
    },
    uint32 packetx ``,
    @tag(42)
    @tag(1)
    /// triple
    @calculatedFrom(""" ++ [128512]%N ++ runes_of_ascii """)
    _x `// not a comment`,
}

root packet repeatCount {
    @leftPad()
    char[0] x_y_z @calculatedFrom(""1""),
    @rightPad()
    char[] int,
    f64 asx,
    repeat Pad,
    match i64_ as roots {
        [""1"", ""packet""] : a1,
        ""`tick`"" : trueish,
        [
            3, ""\n"", ""`tick`"", ""it's"", 10,
            ""a\""b"", ""CRC32""
        ] : As,
        [10, 10] : options1,
        ""CRC32"" : a1,
        65535 : u,
        // c
    },
    @calculatedFrom(""x y"")
    @tag(255)
    @tag(1)
    // c
    zchar[1] crc `
    `,
    repeat u16 tag `crlf
    line`,
    @leftPad(' ')
    roots @calculatedFrom(""""),
}")).
Eval vm_compute in ("<<<M347>>>" ++ check (runes_of_ascii "
options
{} MetaData f32a
{
// packet A { u8 x, }
// 50% %s
uint32 u128//
`" ++ [28040; 24687; 31867; 22411]%N ++ runes_of_ascii "` ,
// " ++ [27880; 37322]%N ++ runes_of_ascii "
// a // b
zchar[ 0 ]
    //	t
    o
    , char[
    0 ]float,
    msg_type msg_type , } packet // a // b
x_y_z { // a // b
repeat T
    { match
    msg_type as
packetx {// a // b
""packet"" :
falsey 42:	a1,} , int o , char[// c
42	]i64_ `100% of %d`, repeatCount	@calculatedFrom( ""it's"" // a // b
),
// trailing space 
// " ++ [27880; 37322]%N ++ runes_of_ascii "
}
,  @tag( //
0 ) // " ++ [27880; 37322]%N ++ runes_of_ascii "
falsey @lengthOf(BodyLength
)
//	t
// c
, @leftPad
    // packet A { u8 x, }
    () @calculatedFrom( ""1"" ) @lengthOf( // " ++ [128512]%N ++ runes_of_ascii " emoji
int )
    match trueish as body{ [ 007 ,
7 //
, ""abc"",
""x y""
, 00
    ,
    ""// no comment""
    ,255 ,
1
    ]
: body,} , @lengthOf( Pad
    ) metadata	@calculatedFrom(	""it's""
) , @leftPad ( )
//
/// triple
@calculatedFrom(
""" ++ [233]%N ++ runes_of_ascii "t" ++ [233]%N ++ runes_of_ascii """ // 50% %s
)char // @lengthOf(
falsey	`{ , }` , char[ 007 ]
metadata @lengthOf(chars ) , @rightPad ( '0'  ) u8 roots @calculatedFrom( ""packet"" )
    // @lengthOf(
    ,
//x
//x
}")).
Eval vm_compute in ("<<<M1349>>>" ++ check (runes_of_ascii "options {
    LittleEndian = false;
    FixedStringPadChar = ' ';
}
packet Fill {
    InFlags6 {
        repeat u64 count,
    },
    char[8] price,
    repeat char[2] lastPx,
    char[] count,
}
packet Quote {
    char[] Qty,
    int32 sym,
    zchar[9] Flags,
    int8 tag7,
    char[7] count,
}
packet Cancel {
    string Acct,
    @rightPad('\x00') char[2] Note,
    zchar[5] Side2,
}
packet Trade {
    repeat Quote,
    Fill,
    repeat i64 Side2,
    uint16 Tail,
    zchar[7] OrderId,
}
root packet Party {
    repeat InLastpx79 {
        char[12] Px,
        int8 Tail,
    },
    f32 count,
    repeat u8 Note,
    Trade,
    f64 venue,
    @rightPad('\x00') char[11] tag7,
    u16 Px,
    u32 Side2 @lengthOf(Body),
    match Px as Body {
        [48, 188] : Fill,
        190 : Trade,
        160 : Quote,
        85 : Cancel,
    },
}
")).
Eval vm_compute in ("<<<M1326>>>" ++ check (runes_of_ascii "packet MDSnapshotZZ // c1a
  // c1b
{ // c2
u8
    // c3
a , // c5a
  // c5b
} // c6a
  // c6b
packet OrderACK
    // c8
{ // c9a
  // c9b
u16 // c10a
  // c10b
b
    // c11
, // c12a
  // c12b
} // c13a
  // c13b
packet HTTPServerInfo // c15
{ string
    // c17
s // c18a
  // c18b
,
    // c19
} root packet // c22
FIXMsg // c23
{ // c24a
  // c24b
u8 // c25
KType
    // c26
, // c27
MDSnapshotZZ // c28
, // c29a
  // c29b
repeat // c30a
  // c30b
OrderACK // c31a
  // c31b
, // c32
match // c33a
  // c33b
KType // c34a
  // c34b
as Body // c36
{ // c37a
  // c37b
1
    // c38
: // c39
HTTPServerInfo
    // c40
,
    // c41
2
    // c42
: // c43
OrderACK
    // c44
, }
    // c46
, // c47a
  // c47b
} // c48
")).
Eval vm_compute in ("<<<M19>>>" ++ check (runes_of_ascii "options {i64_ = ' ' ;As //	t
= ""x y""
    _x= f64 } packet asx
    {
    string i8i8
    , } // 50% %s
packet float
    {// 50% %s
repeat char[ 1
    ] trueish,  body
@lengthOf( string_ )`two words` ,@calculatedFrom(""CRC32"") i8 u
@lengthOf( uint8x ) ,
    // trailing space 
    @leftPad
    () repeat
    uint8x `` , body tag`tab	here`
    ,
string
    chars
    `tab	here`, @tag(
0
) asx , } // `tick` ""quote"" 'q'
root packet//	t
u128//	t
{
} MetaData// `tick` ""quote"" 'q'
x_y_z  { int32 u128 , len calculatedFrom	, char[ 0 ]
    /// triple
    _x
`a\` , zchar[ 1
    ]
    x
    , string  MetaDataX `{ , }`
    // trailing space 
    ,
}
")).
Eval vm_compute in ("<<<M71>>>" ++ check (runes_of_ascii "root
packet
    matchKey { } MetaData
u  {
    } packet zchar { uint32 Z9_
@lengthOf(A ) `" ++ [233]%N ++ runes_of_ascii "` , @calculatedFrom( ""packet"" ) @tag( 0123456789 )
Header @calculatedFrom(
    ""1""
) `say ""hi""` , @lengthOf(
// a // b
//x
repeatCount // trailing space 
)
u8 //
stringy
@lengthOf(
    x
) , string	string_ @calculatedFrom(""{,}"" ) ,zchar[ 4294967296] tag , char[]
    trueish @calculatedFrom( ""`tick`"") `doc`
,float32 repeatCount @lengthOf(	charz )
`" ++ [233]%N ++ runes_of_ascii "` , @rightPad( )repeat
f64 lengthOf `tab	here`
    , @rightPad ( '0' )
@calculatedFrom(
    ""a\""b"" ) roots
    ,	}
")).
Eval vm_compute in ("<<<M1134>>>" ++ check (runes_of_ascii "packet float
    // c1
{ // c2
@rightPad // c3a
  // c3b
( // c4a
  // c4b
) // c5a
  // c5b
rootA // c6
@lengthOf( // c7a
  // c7b
trueish // c8
)
    // c9
,
    // c10
stringy // c11a
  // c11b
@lengthOf( // c12a
  // c12b
matchKey )
    // c14
, // c15a
  // c15b
char[ 4294967296 ]
    // c18
pack @lengthOf(
    // c20
uint8x
    // c21
) // c22a
  // c22b
,
    // c23
} // c24
root // c25
packet trueish {
    // c28
repeat uint64
    // c30
u128
    // c31
`say ""hi""` // c32
,
    // c33
}
    // c34
")).
Eval vm_compute in ("<<<M1160>>>" ++ check (runes_of_ascii "// top
MetaData
    // c0
x
    // c1
{
    // c2
f32a
    // c3
Pad
    // c4
``
    // c5
,
    // c6
}
    // c7
packet
    // c8
leftPad
    // c9
{
    // c10
repeat
    // c11
int64
    // c12
crc
    // c13
,
    // c14
BodyLength
    // c15
{
    // c16
uint8
    // c17
pack
    // c18
`say ""hi""`
    // c19
,
    // c20
lengthOf
    // c21
@lengthOf(
    // c22
asx
    // c23
)
    // c24
`" ++ [28040; 24687; 31867; 22411]%N ++ runes_of_ascii "`
    // c25
,
    // c26
}
    // c27
,
    // c28
}
    // c29
")).
Eval vm_compute in ("<<<M146>>>" ++ check (runes_of_ascii "
root
    packet rootA {@tag(
    3
    // " ++ [27880; 37322]%N ++ runes_of_ascii "
    ) T {int64  pack @calculatedFrom(
    ""a\\"")`tab	here`  ,
char[
    10
    ] float , u // trailing space 
{
repeat
    f32 chars,
} ,	char[] f32a @lengthOf(zchar
// `tick` ""quote"" 'q'
// " ++ [128512]%N ++ runes_of_ascii " emoji
) , } , @calculatedFrom(
""CRC32""	)  u32 x_y_z @lengthOf(Header )
`say ""hi""` ,@tag(65535 ) char
Logon `line1
line2`
//
// `tick` ""quote"" 'q'
,  float32
    zchar
    `// not a comment`,}
")).
Eval vm_compute in ("<<<M63>>>" ++ check (runes_of_ascii "packet	body { @leftPad// " ++ [27880; 37322]%N ++ runes_of_ascii "
( '0' ) stringy  roots	,
@rightPad
('0' )	asx @lengthOf(
_x ) ,
    //	t
    } packet chars {
@tag(
255	) i32 msg_type
    , o	{
pack @calculatedFrom(
""abc"" ), match rootA as tag{ [ 0123456789
    // @lengthOf(
    , 7 ] : len , } ,
    u32 BodyLength	@calculatedFrom(
""packet"" )`say ""hi""` , lengthOf u ,	}
,@rightPad ( ' ' ) repeat
    f32a ,
    } MetaData
    msg_type	{}")).
Eval vm_compute in ("<<<M363>>>" ++ check (runes_of_ascii "packet
i64_ {@calculatedFrom(""a	b"" ) match Logon as packetx	{ 10  :
rootA ""it's"" : BodyLength,[ """ ++ [28040; 24687]%N ++ runes_of_ascii """ ,3 ]
    :roots[
    // packet A { u8 x, }
    ""\" ++ [233]%N ++ runes_of_ascii """ ]  :
rootA ,""{,}"" : chars, [  """ ++ [28040; 24687]%N ++ runes_of_ascii """ ] : pack , } ,
    }
    MetaData trueish
{ u64	uint8x //
`say ""hi""` , string uint8x `{ , }`
, BodyLength uint8x
//x
// " ++ [27880; 37322]%N ++ runes_of_ascii "
`{ , }` , char[]	pack`u8 x,`, // `tick` ""quote"" 'q'
}
")).
Eval vm_compute in ("<<<M182>>>" ++ check (runes_of_ascii "options{ Logon='\x00';
    Foo
= ""// no comment""x
=""a\""b"" }
    packet rootA {	@tag( 007
    ) @calculatedFrom( ""a\\""	) // `tick` ""quote"" 'q'
u{ match
o as
    Foo { 255 : asx , ""a\""b"" : zchar, [  ""a	b""	,	""{,}"" , 10
] : _x } ,// a // b
char[42
    ]
As
`a\` , int32 i64_
    @calculatedFrom( """ ++ [28040; 24687]%N ++ runes_of_ascii """ ) // " ++ [27880; 37322]%N ++ runes_of_ascii "
, repeat chars
packetx
    ,} , }
")).
Eval vm_compute in ("<<<M1519>>>" ++ check (runes_of_ascii "MetaData body {
    Foo Packet `a\`,
    T float,
    int64 Logon `// not a comment`,
    zchar[0] i64_ `" ++ [28040; 24687; 31867; 22411]%N ++ runes_of_ascii "`,// `tick` ""quote"" 'q'
    char[7] calculatedFrom,
    int16 Logon,
}

MetaData i64_ {
    int leftPad `// not a comment`,
    trueish Logon,
    string Header `doc`,// packet A { u8 x, }
}")).
Eval vm_compute in ("<<<M1394>>>" ++ check (runes_of_ascii "options {
    LittleEndian = true;
}
packet Sub {
    u8 a,
    @calculatedFrom(""CRC16"") uint64 SubSum,
}
root packet Frame {
    u16 MsgType,
    u16 BodyLen @lengthOf(Body),
    Sub Body,
    string note,
    @calculatedFrom(""CRC16"") uint64 Checksum,
    u8 tail,
}
")).
Eval vm_compute in ("<<<M1404>>>" ++ check (runes_of_ascii "packet
    T	{
	}

MetaData
	lengthOf	{
    char[ 4294967296 
]  a1
,

    float64

    body `100% of %d`,  asx	Foo ,

u8x
pack
    // @lengthOf(

// " ++ [128512]%N ++ runes_of_ascii " emoji
  , 
zchar[ 
    // @lengthOf(

  0123456789

] Z9_
    ,char  As
`crlf
line`, } ")).
Eval vm_compute in ("<<<M412>>>" ++ check (runes_of_ascii "packet
    asx { @calculatedFrom(
""""  ) ) @tag( 255 )repeat
// packet A { u8 x, }
// trailing space 
int16 u8x
,
@tag(
    //
    007 )
    @tag( 0
    /// triple
    ) @tag( 1) u
    @lengthOf( T ),
// `tick` ""quote"" 'q'
//x
} // " ++ [128512]%N ++ runes_of_ascii " emoji")).
Eval vm_compute in ("<<<M398>>>" ++ check (runes_of_ascii "packet
    asx @calculatedFrom( {
""""  ) @tag( 255 )repeat
// packet A { u8 x, }
// trailing space 
int16 u8x
,
@tag(
    //
    007 )
    @tag( 0
    /// triple
    ) @tag( 1) u
    @lengthOf( T ),
// `tick` ""quote"" 'q'
//x
} // " ++ [128512]%N ++ runes_of_ascii " emoji")).
Eval vm_compute in ("<<<M545>>>" ++ check (runes_of_ascii "packet
    asx { @calculatedFrom(
""""  ) @tag( 255 )repeat
// packet A { u8 x, }
// trailing space 
int16 a" ++ [769]%N ++ runes_of_ascii "b
,
@tag(
    //
    007 )
    @tag( 0
    /// triple
    ) @tag( 1) u
    @lengthOf( T ),
// `tick` ""quote"" 'q'
//x
} // " ++ [128512]%N ++ runes_of_ascii " emoji")).
Eval vm_compute in ("<<<M504>>>" ++ check (runes_of_ascii "packet
    asx { @calculatedFrom(
""""  ) @tag( 255 )repeat
// packet A { u8 x, }
// trailing space 
int16 u8x
,
@tag(
    //
    007 )
    @tag( 0
    /// triple
    ) @tag( 1) u
    uint8 T ),
// `tick` ""quote"" 'q'
//x
} // " ++ [128512]%N ++ runes_of_ascii " emoji")).
Eval vm_compute in ("<<<M1258>>>" ++ check (runes_of_ascii "// top
options // c0
{ // c1a
  // c1b
LittleEndian = // c3
true ; } // c6a
  // c6b
root // c7a
  // c7b
packet
    // c8
P {
    // c10
repeat char
    // c12
cs ,
    // c14
u8 x // c16a
  // c16b
,
    // c17
} ")).
Eval vm_compute in ("<<<M27>>>" ++ check (runes_of_ascii "
MetaData trueish{ string// 50% %s
u	,
// @lengthOf(
//x
pack Pad`say ""hi""`
,// a // b
int32 tag	, u8 asx , // 50% %s
i32
    len
,int int `100% of %d`,
} MetaData falsey { }
// @lengthOf(
")).
Eval vm_compute in ("<<<M495>>>" ++ check (runes_of_ascii "packet
    asx { @calculatedFrom(
""""  ) @tag( 255 )repeat
// packet A { u8 x, }
// trailing space 
int16 u8x
,
@tag(
    //
    007 )
    @tag( 0
    /// triple
    ) @tag( 1")).
Eval vm_compute in ("<<<M664>>>" ++ check (runes_of_ascii "MetaData u
    { } MetaData o
{ float uint8x
`100% of %d` ,repeatCount u8x, string_ leftPad
, i32
    Foo , int64 x `two words` packet calculatedFrom
stringy `a\` ,
}
")).
Eval vm_compute in ("<<<M662>>>" ++ check (runes_of_ascii "MetaData u
    { } MetaData o
{ float uint8x
`100% of %d` ,repeatCount u8x, string_ leftPad
, i32
    Foo , int64 x `two words` , , calculatedFrom
stringy `a\` ,
}
")).
Eval vm_compute in ("<<<M583>>>" ++ check (runes_of_ascii "MetaData u
    { } MetaData o
{ uint8x float
`100% of %d` ,repeatCount u8x, string_ leftPad
, i32
    Foo , int64 x `two words` , calculatedFrom
stringy `a\` ,
}
")).
Eval vm_compute in ("<<<M596>>>" ++ check (runes_of_ascii "MetaData u
    { } MetaData o
{ float uint8x
`100% of %d` repeatCount u8x, string_ leftPad
, i32
    Foo , int64 x `two words` , calculatedFrom
stringy `a\` ,
}
")).
Eval vm_compute in ("<<<M589>>>" ++ check (runes_of_ascii "MetaData u
    { } MetaData o
{ float )
`100% of %d` ,repeatCount u8x, string_ leftPad
, i32
    Foo , int64 x `two words` , calculatedFrom
stringy `a\` ,
}
")).
Eval vm_compute in ("<<<M1701>>>" ++ check (runes_of_ascii "packet A {
    match k as n {
        [
            1, 22, 007, 4, 5,
            66, 7, 8, 9, 10,
            11
        ] : B,
        2 : C,
    },
}")).
Eval vm_compute in ("<<<M1467>>>" ++ check (runes_of_ascii "  packet
	A {

    match
k as
	n

    {
	[	1, 22
,
	""c c""  ,4	, 5
, ""f""  , 7
    ,	8
    , ""i"" , 10	,
11 , 
""l""]: 
B 2
	:
	C },
    }
")).
Eval vm_compute in ("<<<M1749>>>" ++ check (runes_of_ascii "
packet A { match

k
	as
	n
{
[""a""
	,""bb""
    ,
	""c c""

,	""d"",
	""e""

, ""f""
    ,""g"",""h""

    ,
""i"", ""j""  ]:
B
2

    :

C

}
,}")).
Eval vm_compute in ("<<<M1586>>>" ++ check (runes_of_ascii "
packet
    A {
    match  k
as n

    { 
[
1 ,  22  , ""c c""  ,
4,	5

    , ""f""
,
7
,

    8 ] :
B ,
2
: C } ,
} ")).
Eval vm_compute in ("<<<M905>>>" ++ check (runes_of_ascii "packet A {
  match k as n {
    [""a"", ""bb"", ""c c"", ""d"", ""e"", ""f"", ""g"", ""h"", ""i"", ""j"", ""k"", ""l""] : B
    2 : C
  },
}")).
Eval vm_compute in ("<<<M1218>>>" ++ check (runes_of_ascii "options { } options { MetaDataX = char
// c
; } MetaData Pad { i8 metadata , string stringy , int8 As `{ , }` , }")).
Eval vm_compute in ("<<<M1621>>>" ++ check (runes_of_ascii "

  packet A{

match
    k
as 
n
{ 
[	""a"" 
,

    ""bb"",
007,	""d""
,

""e"" , 
66  ] : B,
2 :

C
}
    ,

    }
")).
Eval vm_compute in ("<<<M947>>>" ++ check (runes_of_ascii "packet A {
    u16 len @lengthOf(body) `x
`,
    u32 crc @calculatedFrom(""CRC32"") `x
`,
    string body,
}")).
Eval vm_compute in ("<<<M893>>>" ++ check (runes_of_ascii "packet A {
  match k as n {
    [1, ""bb"", 007, ""d"", 5, ""f"", 7, ""h"", 9, ""j"", 11] : B,
    2 : C
  },
}")).
Eval vm_compute in ("<<<M930>>>" ++ check (runes_of_ascii "packet A {
    Inner {
        u8 x `
`,
        Deep {
            u8 y `
`,
        },
    },
}")).
Eval vm_compute in ("<<<M1604>>>" ++ check (runes_of_ascii "packet 
A{	match
k 
as
    n {
[""a""
,""bb""

    ,
007,
    ""d""

] :B
	,
    2:  C	}
	,  }

")).
Eval vm_compute in ("<<<M855>>>" ++ check (runes_of_ascii "packet A {
  match k as n {
    [1, ""bb"", 007, ""d"", 5, ""f"", 7, ""h""] : B
    2 : C
  },
}")).
Eval vm_compute in ("<<<M859>>>" ++ check (runes_of_ascii "packet A {
  match k as n {
    [1, 22, ""c c"", 4, 5, ""f"", 7, 8] : B
    2 : C
  },
}")).
Eval vm_compute in ("<<<M1852>>>" ++ check (runes_of_ascii "packet A {
    match k as n {
        [1, ""bb"", 007] : B,
        2 : C,
    },
}")).
Eval vm_compute in ("<<<M1526>>>" ++ check (runes_of_ascii "

  root

packet  P
{ u16 a,
	u32
Sum @calculatedFrom(

""CRC32""
    ) ,}
")).
Eval vm_compute in ("<<<M958>>>" ++ check (runes_of_ascii "packet A {
    B b `tab
	x`,
    B `tab
	x`,
    repeat B bs `tab
	x`,
}")).
Eval vm_compute in ("<<<M789>>>" ++ check (runes_of_ascii "packet A {
  match k as n {
    [1, ""bb"", 007] : B,
    2 : C
  },
}")).
Eval vm_compute in ("<<<M782>>>" ++ check (runes_of_ascii "packet A {
  match k as n {
    [""a"", 22] : B,
    2 : C
  },
}")).
Eval vm_compute in ("<<<M1679>>>" ++ check (runes_of_ascii "root packet len {
    @calculatedFrom(""a\""b"")
    i16 a1,
}")).
Eval vm_compute in ("<<<M236>>>" ++ check (runes_of_ascii "  MetaData // `tick` ""quote"" 'q'
u128{ body float	,}
")).
Eval vm_compute in ("<<<M1506>>>" ++ check (runes_of_ascii "root packet A{

    u8
    x  `%%d%!` 
, 
}
")).
Eval vm_compute in ("<<<M1085>>>" ++ check (runes_of_ascii "packet A {
    u8 x,    // c    u8 y,
}")).
Eval vm_compute in ("<<<M1193>>>" ++ check (runes_of_ascii "options { A = ""// no comment"" } // c
")).
Eval vm_compute in ("<<<M736>>>" ++ check (runes_of_ascii "1WT[xl4v9M!>1/;cBK[4~4^pGS{F8PS~T'm")).
Eval vm_compute in ("<<<M1082>>>" ++ check (runes_of_ascii "packet A {
 u8 x `d x`, // c x
}")).
Eval vm_compute in ("<<<M1042>>>" ++ check (runes_of_ascii "packet A {
 u8 x `d" ++ [8239]%N ++ runes_of_ascii "`, // c" ++ [8239]%N ++ runes_of_ascii "
}")).
Eval vm_compute in ("<<<M1529>>>" ++ check (runes_of_ascii "root packet a1 {
    // c
}")).
Eval vm_compute in ("<<<M1145>>>" ++ check (runes_of_ascii "root packet // c
a1 { }")).
Eval vm_compute in ("<<<M167>>>" ++ check (runes_of_ascii "MetaData u8x{}
//	t
")).
Eval vm_compute in ("<<<M1050>>>" ++ check (runes_of_ascii "packet A {
}
// c" ++ [11]%N)).
Eval vm_compute in ("<<<M1048>>>" ++ check (runes_of_ascii "packet A {
}// c" ++ [11]%N)).
Eval vm_compute in ("<<<M1638>>>" ++ check (runes_of_ascii "MetaData u {
}")).
Eval vm_compute in ("<<<M1024>>>" ++ check (runes_of_ascii "// c" ++ [8202]%N)).
