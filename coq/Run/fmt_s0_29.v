From FP Require Import Lexer Parser ShowPT Digest Formatter.
From Coq Require Import String List NArith.
Import ListNotations.
Open Scope string_scope.
Set Printing Width 100000000.
Set Printing Depth 100000000.
Definition show_fres (r : fres) : string :=
  match r with
  | FOk s => "OK:" ++ sh_escaped s ""
  | FErr s => "ERR:" ++ sh_escaped s ""
  | FPanic p => "PANIC:" ++ p
  end.
Definition check (rs : list rune) : string := digest (show_fres (format_res rs)).
Definition full (rs : list rune) : string := show_fres (format_res rs).
Eval vm_compute in ("<<<M279>>>" ++ check (runes_of_ascii "  root packet
    crc {	uint32
repeatCount //
@lengthOf( // a // b
MetaDataX	) `say ""hi""` ,
    @tag( 65535 ) A {
    u128 , u8x	{ repeatCount  @lengthOf( As )// c
,// packet A { u8 x, }
i32	_x@calculatedFrom(//	t
""" ++ [128512]%N ++ runes_of_ascii """	), } , } // c
,
@lengthOf(As ) @tag(  0 ) @tag(4294967296 ) string metadata ,
string lengthOf // `tick` ""quote"" 'q'
@lengthOf(f32a) , @tag( 3 )string packetx,	@lengthOf( Pad) @lengthOf( packetx ) BodyLength @calculatedFrom( ""a	b"" )
, repeat u8x
{ zchar[ 3 ]
    tag `doc` , match As as leftPad
    { [
    10 ,
3 , 7 ,
""abc"" , 42 // @lengthOf(
]
:
A
, } , match Header as falsey { 42
// `tick` ""quote"" 'q'
// trailing space 
:
    msg_type
    , 00
: A
1 :
charz ,""// no comment"" : int // @lengthOf(
,	0123456789 :chars , 4294967296
: x } ,
}
    /// triple
    , @tag(
10 ) @tag(//x
007 )
@calculatedFrom( ""`tick`""
    )i8i8 @lengthOf(
    //
    charz ),
    char[ 7] Header
, } packet
lengthOf // @lengthOf(
{match metadata
    // " ++ [128512]%N ++ runes_of_ascii " emoji
    as asx{ 7 // packet A { u8 x, }
: //
float  ,
    // " ++ [128512]%N ++ runes_of_ascii " emoji
    """ ++ [233]%N ++ runes_of_ascii "t" ++ [233]%N ++ runes_of_ascii """:
stringy
, """ ++ [28040; 24687]%N ++ runes_of_ascii """ :
BodyLength , 7 : leftPad , } , @lengthOf(MetaDataX
)repeat zchar[ 7 ]float , @tag( 0
    )matchKey @calculatedFrom(""packet""
    ) // packet A { u8 x, }
, }packet Pad{ options1 @lengthOf(rootA ),} root // c
packet BodyLength{
string uint8x
//
// " ++ [27880; 37322]%N ++ runes_of_ascii "
@lengthOf( Z9_) , } // c")).
Eval vm_compute in ("<<<M96>>>" ++ check (runes_of_ascii "packet  int//x
{
// " ++ [128512]%N ++ runes_of_ascii " emoji
//	t
} packet Z9_ {
    @tag(  1
) @tag(00 ) zchar[ 0 ] trueish `// not a comment`
, Header @lengthOf(
repeatCount ) // `tick` ""quote"" 'q'
,charz float`crlf
line` , match
lengthOf as	u
    // c
    { // `tick` ""quote"" 'q'
65535  :
    msg_type
,""1""
:
    // " ++ [27880; 37322]%N ++ runes_of_ascii "
    x
    ,
""a\""b"" : packetx , 10:
msg_type """ ++ [128512]%N ++ runes_of_ascii """ :
calculatedFrom [
7 ,0	]
    // c
    : // " ++ [128512]%N ++ runes_of_ascii " emoji
u128 , }, string i8i8`{ , }` , } packet// @lengthOf(
a1{ } root packet roots {
    @lengthOf(
    // " ++ [128512]%N ++ runes_of_ascii " emoji
    u )
f64 Logon,@lengthOf(
_x	) As
    @calculatedFrom(""\n"" ) , @leftPad
// packet A { u8 x, }
// " ++ [27880; 37322]%N ++ runes_of_ascii "
(  )repeatCount
@calculatedFrom( ""{,}""
)
`tab	here`
    // trailing space 
    , @tag(
    //x
    42)char[
1
    ]T
    `a\`
,int64
_x// packet A { u8 x, }
, zchar[	4294967296
    ]
i64_ @lengthOf(  tag
    //	t
    )
    `
`
    , @calculatedFrom(""a\""b""
    //x
    ) u8 len`it's` , @leftPad
(
) metadata@lengthOf(tag
    ) `{ , }` ,@leftPad// packet A { u8 x, }
( ' '
) MetaDataX  {
    repeat char[]	rootA
    ,
    // c
    } ,i8 body ,}
")).
Eval vm_compute in ("<<<M1839>>>" ++ check (runes_of_ascii "options {
    string_ = false;
    falsey = char[4294967296];
}

packet zchar {
    match float as len {
        [""" ++ [233]%N ++ runes_of_ascii "t" ++ [233]%N ++ runes_of_ascii """] : matchKey,
        3 : u,
        [4294967296, ""1""] : zchar,
    },
}

MetaData T {
    // c
    // a // b
}

packet packetx {
    uint16 uint8x @calculatedFrom(""it's""),
    stringy {
        i16 crc `{ , }`,
    },
    zchar[00] x,
    zchar {
        uint64 tag,
        zchar f32a `say ""hi""`,
        uint32 A `{ , }`,
        match _x as falsey {
            [007, """ ++ [128512]%N ++ runes_of_ascii """] : matchKey,
            // " ++ [128512]%N ++ runes_of_ascii " emoji
            [0123456789, 3] : T,
            // " ++ [128512]%N ++ runes_of_ascii " emoji
            // `tick` ""quote"" 'q'
            1 : Foo,
        },// trailing space 
    },
    A,
    zchar[4294967296] string_ @lengthOf(float),
    match rootA as As {
        [
            ""it's"", 255, 0123456789, """ ++ [233]%N ++ runes_of_ascii "t" ++ [233]%N ++ runes_of_ascii """, ""{,}"",
            ""abc"", """ ++ [233]%N ++ runes_of_ascii "t" ++ [233]%N ++ runes_of_ascii """
        ] : int,
        4294967296 : tag,
    },
}")).
Eval vm_compute in ("<<<M298>>>" ++ check (runes_of_ascii "
options  { } options
    {  uint8x =
// @lengthOf(
// " ++ [27880; 37322]%N ++ runes_of_ascii "
42 uint8x = /// triple
""abc"" ; //x
_x='0'
    }
    packet u8x
    { zchar[ 1 ] As
`crlf
line`, match metadata as float  { ""packet"" ://
trueish , } , repeat
rootA
, repeat metadata repeatCount// trailing space 
, @rightPad( // `tick` ""quote"" 'q'
'0') i64 body `// not a comment`
, @tag( 1) string string_
    `line1
line2` ,
uint8 u8x`" ++ [28040; 24687; 31867; 22411]%N ++ runes_of_ascii "` ,
packetx u128,	u tag , repeat Logon zchar
`` ,  }packet zchar
{
    }	packet	MetaDataX { @lengthOf(
Packet ) repeatCount  int
`doc` , @tag(
7 ) packetx @calculatedFrom( ""a\""b""// c
) , match msg_type as x { ""\n"" : calculatedFrom }, //x
@leftPad (// packet A { u8 x, }
'\x00')@lengthOf( MetaDataX // c
)
    // a // b
    char[007
] a1`tab	here`, As
    @calculatedFrom( ""`tick`"") `// not a comment`,} 	 ")).
Eval vm_compute in ("<<<M312>>>" ++ check (runes_of_ascii "packet // packet A { u8 x, }
tag
    { @calculatedFrom(""x y"" ) lengthOf{ options1
    `
`,} , @tag( 7 )
int {
//x
// " ++ [27880; 37322]%N ++ runes_of_ascii "
char[ 007  ] // `tick` ""quote"" 'q'
calculatedFrom @lengthOf(
metadata
)  , tag @lengthOf( falsey
) ,	f32
    // " ++ [128512]%N ++ runes_of_ascii " emoji
    calculatedFrom
// `tick` ""quote"" 'q'
//
`{ , }` , i8i8
    {string
    i64_ @lengthOf( asx )	`it's` , u @calculatedFrom(  ""\n"" ) ,
    } ,	}
    ,
    @calculatedFrom(""abc"" //
)  @leftPad ( ' '
    )  uint64 calculatedFrom
,// " ++ [27880; 37322]%N ++ runes_of_ascii "
} packet o { Header ,
    @lengthOf(	i8i8
) float32
    Pad // c
,char[ 42 ]
leftPad
    @calculatedFrom(	"""" // " ++ [128512]%N ++ runes_of_ascii " emoji
)
    , @tag( 255 )
body
    u , } packet lengthOf{
// packet A { u8 x, }
// c
@tag(
    255 //x
) char[ 0123456789 ] o
`
` , }

")).
Eval vm_compute in ("<<<M6>>>" ++ check (runes_of_ascii "// `tick` ""quote"" 'q'
packet As
{ @rightPad ( '0' ) stringy
@lengthOf( calculatedFrom),	@tag( 10	) string uint8x `
` ,	match body // packet A { u8 x, }
as uint8x {
    ""it's"" :  rootA , [ 00 ] : leftPad
    ,
42 :	MetaDataX , ""a	b"" :  calculatedFrom
    255
:trueish	} , repeat	i64 Logon `tab	here` , } options {crc
= '\x00' ;}
packet x { @calculatedFrom(
""a\\""
    )
@tag( 42
) @leftPad	( '0' // c
) match o	as /// triple
x_y_z {// packet A { u8 x, }
[ """ ++ [128512]%N ++ runes_of_ascii """// trailing space 
, ""x y"" , // c
0123456789 ,""CRC32"" ,
//	t
// packet A { u8 x, }
""it's""
, 007
, 3, 007 // @lengthOf(
] :	Packet // c
[	255, ""x y""
    ] :x_y_z
    ,
} , }
// trailing space 
")).
Eval vm_compute in ("<<<M1688>>>" ++ check (runes_of_ascii "//x
packet x {
    @lengthOf(string_)
    // `tick` ""quote"" 'q'
    // trailing space 
    msg_type {
        int @lengthOf(chars) `" ++ [28040; 24687; 31867; 22411]%N ++ runes_of_ascii "`,
        int `a\`,
    },
    uint32 chars @calculatedFrom(""`tick`"") `
    `,
    @lengthOf(packetx)
    match metadata as x_y_z {
        65535 : x,
        007 : u,
        [7, ""// no comment"", """ ++ [28040; 24687]%N ++ runes_of_ascii """] : x,
        ""a\\"" : MetaDataX,
        0123456789 : lengthOf,
        10 : float,
    },
    u16 Logon @calculatedFrom(""x y"") `tab	here`,
    @lengthOf(Foo)
    zchar,
}

packet tag {
}

root packet x_y_z {
}

MetaData int {
    string A `" ++ [233]%N ++ runes_of_ascii "`,
}")).
Eval vm_compute in ("<<<M1824>>>" ++ check (runes_of_ascii "  options {
	rootA =4294967296	;falsey = ""a\""b""  ;

    As

    =
    // @lengthOf(
	/// triple
""""  ;
    packetx
=""packet""

    i8i8=
true	;} 	 // `tick` ""quote"" 'q'
	packet

x {
repeat
zchar
rootA ,
char[]
    pack
	`// not a comment`

, @tag(
00	)
@tag(

0123456789  ) u	@calculatedFrom( ""packet"" )
`u8 x,`,  Header
{ zchar[

00 ]	body,a1 @calculatedFrom(// " ++ [128512]%N ++ runes_of_ascii " emoji
""it's"")
    `" ++ [233]%N ++ runes_of_ascii "`	,

}
    , }  // " ++ [27880; 37322]%N ++ runes_of_ascii "
		MetaData A	// a // b
  	{zchar/// triple
matchKey
`` ,

    int64 metadata ,
	char[] 
_x  //	t
    , 
}
")).
Eval vm_compute in ("<<<M1872>>>" ++ check (runes_of_ascii "// top
packet Logon {
    // c2a
    // c2b
    string user,// c5a
    // c5b
}// c6a

// c6b
root packet Frame {
    // c10
    u8 K,
    // c13
    match K as Body {
        // c18
        1 : Logon,
        // c22a
        // c22b
        2 : Logout,
        // c26
    },// c28a
    // c28b
    Tail,// c30a
    // c30b
}// c31a

// c31b
packet Logout {
    // c34a
    // c34b
    u16 reason,
}

// c38
packet Tail {
    // c41
    u32 crc,// c44
}// c45a
// c45b")).
Eval vm_compute in ("<<<M14>>>" ++ check (runes_of_ascii "MetaData u128
    {// a // b
string zchar //x
`two words` ,u16 packetx
`a\` , char[ 1 ] Logon	, len crc, char[
7]i8i8,char[]calculatedFrom,
} // @lengthOf(
MetaData u
    { u// " ++ [128512]%N ++ runes_of_ascii " emoji
u128
, //	t
}root packet metadata { }options	{ matchKey =
    255
;
x_y_z
= 007 crc=int16
; zchar =// c
char[42 ]
; int
= true ;
} options  {
Header = """ ++ [128512]%N ++ runes_of_ascii """
;
len
    = ' ' ; matchKey= """" ;MetaDataX =' '
; o
    = '\x00' ; }
/// triple
")).
Eval vm_compute in ("<<<M1574>>>" ++ check (runes_of_ascii "// packet A { u8 x, }
MetaData roots {
    char[00] lengthOf ``,
    As stringy,
    x calculatedFrom,
}

packet i8i8 {
    crc `crlf
        line`,
    @rightPad()
    zchar[42] falsey,
    /// triple
    @tag(42)
    u32 leftPad,
    @tag(42)
    a1 @lengthOf(Z9_),
    match leftPad as crc {
        [""a\""b"", 1, 255] : trueish,
        3 : float,
        0 : lengthOf,
    },
}")).
Eval vm_compute in ("<<<M299>>>" ++ check (runes_of_ascii "// packet A { u8 x, }
MetaData roots{ char[ 00]lengthOf
``  , As stringy, x	calculatedFrom ,} packet i8i8	{
crc `crlf
line` , @rightPad// a // b
( )zchar[ 42] falsey // trailing space 
,
    /// triple
    @tag( 42 ) u32	leftPad  , @tag( 42 ) a1@lengthOf( Z9_ ) , match leftPad as crc{ [""a\""b"" , 1
, 255
]:	trueish ,3
: float ,
0 :lengthOf
    ,
} ,}")).
Eval vm_compute in ("<<<M1925>>>" ++ check (runes_of_ascii "root packet leftPad {
    T @lengthOf(A) `" ++ [233]%N ++ runes_of_ascii "`,
    Header @lengthOf(As),
    string calculatedFrom `{ , }`,
    @tag(1)
    // trailing space 
    u16 x_y_z,
    @tag(4294967296)
    x_y_z metadata,
    asx {
        asx `it's`,
    },
    char[65535] As @lengthOf(Logon) `a\`,
    @lengthOf(Z9_)
    string BodyLength,
}")).
Eval vm_compute in ("<<<M1308>>>" ++ check (runes_of_ascii "packet A {
    u8 a,
}
packet B {
    u16 b,
}
packet C {
    u32 c,
}
root packet M {
    u16 Kc, u16 Kb, u16 Ka,
    match Kc as X {
        9 : A,
        10 : B,
    },
    match Kb as Y {
        2 : C,
        1 : A,
    },
    match Ka as Z {
        1 : B,
    },
    A, B, C,
}
")).
Eval vm_compute in ("<<<M1382>>>" ++ check (runes_of_ascii "options {
    LittleEndian = true;
}
packet Logon {
    u8 x,
    string user,
}
packet Logout {
    u16 reason,
}
packet Empty {
}
root packet Frame {
    u16 MsgType,
    u8 BodyLen @lengthOf(Body),
    u8 flags,
    Logon Body,
    u32 trailer,
}
")).
Eval vm_compute in ("<<<M364>>>" ++ check (runes_of_ascii "packet  _x
{ repeat char[] matchKey// " ++ [128512]%N ++ runes_of_ascii " emoji
, @leftPad( ) x_y_z/// triple
T , Pad
{ zchar[ 1] rootA `tab	here`
,},Foo
    @calculatedFrom(
    """"
    // trailing space 
    ),
}	packet MetaDataX {
float64 body, }
")).
Eval vm_compute in ("<<<M1403>>>" ++ check (runes_of_ascii "packet A {
    Inner {
        match k as n {
            [
                1, 22, 007, 4, 5,
                66, 7, 8, 9, 10,
                11, 12
            ] : B,
        },
    },
}")).
Eval vm_compute in ("<<<M1301>>>" ++ check (runes_of_ascii "

  packet A
{u8 a

    ,
	} packet 
B { u16

    b , }root packet P

    {u8 K
    , match
    K as M
	{ [ 1
,
	2 ]: 
A

    ,

3 :B
    ,	7
    : A,
	}
	,  }

")).
Eval vm_compute in ("<<<M1907>>>" ++ check (runes_of_ascii "

  MetaData

    leftPad {
    chars
    MetaDataX 
,
}  packet repeatCount

{	char[ 
255
	]  // c
  uint8x 
`" ++ [233]%N ++ runes_of_ascii "` , } 
MetaData  pack
	{ 
As
Foo

    , }")).
Eval vm_compute in ("<<<M1673>>>" ++ check (runes_of_ascii "MetaData chars {
}

options {
    As = true;
    As = false;
    stringy = true
}

packet repeatCount {
    string float @lengthOf(matchKey) `say ""hi""`,
}")).
Eval vm_compute in ("<<<M672>>>" ++ check (runes_of_ascii "// @lengthOf(
packet i8i8 { u128 o , }
options { MetaDataX = true;
    BodyLength =""packet"" x_y_z= 007
crc //x
= ""abc"" ;
    msg_type =
@leftpad i16 }")).
Eval vm_compute in ("<<<M457>>>" ++ check (runes_of_ascii "packet uint8x
{ match pack
    as msg_type	{
    0123456789 :	float
}
,
packet } //	t
a1
    { } options {packetx
    = '\x00'	; u128= ""a	b""  ; }
")).
Eval vm_compute in ("<<<M515>>>" ++ check (runes_of_ascii "packet uint8x
{ match pack
    as msg_type	{
    0123456789 :	float
}
,
} packet //	t
a1
    { } options {packetx
    = '\x00'	; u128 ""a	b""  ; }
")).
Eval vm_compute in ("<<<M1769>>>" ++ check (runes_of_ascii "MetaData

    leftPad
    { 
chars
MetaDataX// c

	,
} packet repeatCount{
char[ 255

]
	uint8x
	`" ++ [233]%N ++ runes_of_ascii "` 
,
    }
	MetaData 
pack	{As
	Foo
,
}

")).
Eval vm_compute in ("<<<M423>>>" ++ check (runes_of_ascii "packet uint8x
{ match pack
    as ,	{
    0123456789 :	float
}
,
} packet //	t
a1
    { } options {packetx
    = '\x00'	; u128= ""a	b""  ; }
")).
Eval vm_compute in ("<<<M71>>>" ++ check (runes_of_ascii "root packet MetaDataX
{repeat u8x len `" ++ [28040; 24687; 31867; 22411]%N ++ runes_of_ascii "`,
As { u8x
, } , int f32a
`" ++ [233]%N ++ runes_of_ascii "`, @lengthOf( float ) Z9_
// @lengthOf(
// trailing space 
`a\` , }")).
Eval vm_compute in ("<<<M1728>>>" ++ check (runes_of_ascii "packet A {
    B b `a
            b
          c`,
    B `a
            b
          c`,
    repeat B bs `a
            b
          c`,
}")).
Eval vm_compute in ("<<<M509>>>" ++ check (runes_of_ascii "packet uint8x
{ match pack
    as msg_type	{
    0123456789 :	float
}
,
} packet //	t
a1
    { } options {packetx
    = '\x00'")).
Eval vm_compute in ("<<<M1258>>>" ++ check (runes_of_ascii "packet B {
    u8 a,
}
root packet P {
    u8 K,
    u8 L @lengthOf(Body),
    match K as Body {
        1 : B,
    },
}
")).
Eval vm_compute in ("<<<M1159>>>" ++ check (runes_of_ascii "MetaData leftPad { chars MetaDataX , } packet repeatCount // c
{ char[ 255 ] uint8x `" ++ [233]%N ++ runes_of_ascii "` , } MetaData pack { As Foo , }")).
Eval vm_compute in ("<<<M102>>>" ++ check (runes_of_ascii "packet
    // " ++ [128512]%N ++ runes_of_ascii " emoji
    body {match Logon  as _x
    {
4294967296
// a // b
//x
:
_x , """ ++ [28040; 24687]%N ++ runes_of_ascii """
    : u128
    ,} , }
")).
Eval vm_compute in ("<<<M1763>>>" ++ check (runes_of_ascii "packet
    A {
	match

k
as
	n {

    [
	""a"" 
, ""bb"",	""c c""	,  ""d""

,
""e"" ,""f""

]  :B

, 
2 : C
    }  ,
} ")).
Eval vm_compute in ("<<<M931>>>" ++ check (runes_of_ascii "packet A {
    u16 len @lengthOf(body) `
`,
    u32 crc @calculatedFrom(""CRC32"") `
`,
    string body,
}")).
Eval vm_compute in ("<<<M884>>>" ++ check (runes_of_ascii "packet A {
  match k as n {
    [""a"", 22, ""c c"", 4, ""e"", 66, ""g"", 8, ""i"", 10] : B,
    2 : C
  },
}")).
Eval vm_compute in ("<<<M1892>>>" ++ check (runes_of_ascii "packet B {
    u8 a,
    string s,
}

root packet P {
    u16 L @lengthOf(B),
    B,
    u8 t,
}")).
Eval vm_compute in ("<<<M841>>>" ++ check (runes_of_ascii "packet A {
  match k as n {
    [""a"", ""bb"", ""c c"", ""d"", ""e"", ""f"", ""g""] : B,
    2 : C
  },
}")).
Eval vm_compute in ("<<<M632>>>" ++ check (runes_of_ascii "
packet
    asx {match u128 a|s lengthOf
{
//	t
// `tick` ""quote"" 'q'
255 : x ,
    } ,	}")).
Eval vm_compute in ("<<<M1709>>>" ++ check (runes_of_ascii "
packet

msg_type

{

    repeat 	 // " ++ [27880; 37322]%N ++ runes_of_ascii "
  zchar[
007]

    Logon

`two words` ,

}
")).
Eval vm_compute in ("<<<M1289>>>" ++ check (runes_of_ascii "
root

    packet

P
{repeat	string
    ss
    ,  repeat
    u16
ns
    ,

    }
")).
Eval vm_compute in ("<<<M832>>>" ++ check (runes_of_ascii "packet A {
  match k as n {
    [""a"", 22, ""c c"", 4, ""e"", 66] : B,
    2 : C
  },
}")).
Eval vm_compute in ("<<<M1649>>>" ++ check (runes_of_ascii "
packet 
    // c
	body {
    i32 f32a 
`{ , }`
,  }
    options

    {
}
")).
Eval vm_compute in ("<<<M345>>>" ++ check (runes_of_ascii "
options
{ } // " ++ [128512]%N ++ runes_of_ascii " emoji
options { float // `tick` ""quote"" 'q'
=	65535 }
")).
Eval vm_compute in ("<<<M793>>>" ++ check (runes_of_ascii "packet A {
  match k as n {
    [""a"", 22, ""c c""] : B,
    2 : C
  },
}")).
Eval vm_compute in ("<<<M653>>>" ++ check (runes_of_ascii "// @lengthOf(
packet i8i8 { u128 o , }
options { MetaDataX = true")).
Eval vm_compute in ("<<<M825>>>" ++ check (runes_of_ascii "packet A { Inner { match k as n { [1,22,007,4,5] : B, }, }, }")).
Eval vm_compute in ("<<<M1798>>>" ++ check (runes_of_ascii "root packet A {
    u8 x `a
            b
          c`,
}")).
Eval vm_compute in ("<<<M1199>>>" ++ check (runes_of_ascii "packet // c
body { i32 f32a `{ , }` , } options { }")).
Eval vm_compute in ("<<<M1594>>>" ++ check (runes_of_ascii "MetaData M {
    u8 x `
    `,
    T t `
    `,
}")).
Eval vm_compute in ("<<<M1686>>>" ++ check (runes_of_ascii "packet
	A{

u8 x
,
	    // c

u8
y
,
}
")).
Eval vm_compute in ("<<<M1490>>>" ++ check (runes_of_ascii "MetaData M {
}// c

MetaData N {
}// d")).
Eval vm_compute in ("<<<M424>>>" ++ check (runes_of_ascii "packet uint8x
{ match pack
    as")).
Eval vm_compute in ("<<<M959>>>" ++ check (runes_of_ascii "packet A {
    u8 x `tab
	x`,
}")).
Eval vm_compute in ("<<<M941>>>" ++ check (runes_of_ascii "packet A {
    u8 x `a

b`,
}")).
Eval vm_compute in ("<<<M1437>>>" ++ check (runes_of_ascii "MetaData tag {
    // c
}")).
Eval vm_compute in ("<<<M63>>>" ++ check (runes_of_ascii "packet i64_
    { }

")).
Eval vm_compute in ("<<<M1130>>>" ++ check (runes_of_ascii "MetaData // c
u { }")).
Eval vm_compute in ("<<<M1021>>>" ++ check (runes_of_ascii "packet A {
}
// c" ++ [8239]%N)).
Eval vm_compute in ("<<<M999>>>" ++ check (runes_of_ascii "packet A {
}// c" ++ [8192]%N)).
Eval vm_compute in ("<<<M762>>>" ++ check (runes_of_ascii "w|lL|]kVFeknSP9")).
Eval vm_compute in ("<<<M84>>>" ++ check (runes_of_ascii " // " ++ [27880; 37322]%N)).
Eval vm_compute in ("<<<M736>>>" ++ check (runes_of_ascii " " ++ [12]%N ++ runes_of_ascii " ")).
