From FP Require Import Lexer Parser ShowPT Digest Formatter.
From Coq Require Import String List NArith.
Import ListNotations.
Open Scope string_scope.
Set Printing Width 100000000.
Set Printing Depth 100000000.
Definition show_fres (r : fres) : string :=
  match r with
  | FOk s => "OK:" ++ sh_escaped s ""
  | FErr s => "ERR:" ++ sh_escaped s ""
  | FPanic p => "PANIC:" ++ p
  end.
Definition check (rs : list rune) : string := digest (show_fres (format_res rs)).
Definition full (rs : list rune) : string := show_fres (format_res rs).
Eval vm_compute in ("<<<M4230>>>" ++ check (runes_of_ascii "
root
    packet

crc 
{
	@calculatedFrom(	""1""

    ) f32

x	,
	@calculatedFrom(	""// no comment""
) 	 //x

string
	chars

, @calculatedFrom( ""a\""b""
    )
@rightPad
(
) @tag(7)match 
A
as 
matchKey

{[	42] 
:msg_type
	""x y"" :
lengthOf""a\\""	:
packetx /// triple
	,	[  ""`tick`""

,  ""x y""  , ""a\""b"" , 	 // packet A { u8 x, }

  ""x y""
,
	00 ,  ""it's"" , 
7
,
""""	]:

    Logon	}  // a // b
	, @lengthOf(

    falsey	)  repeat falsey  `u8 x,`

, u8x {  int16
    lengthOf `u8 x,`  ,

    f32a	// " ++ [128512]%N ++ runes_of_ascii " emoji
    	packetx
,  },
	lengthOf @lengthOf(
	calculatedFrom
    )  ,
@rightPad

    ( 
'0'  )  f32 f32a
, 
//
  // packet A { u8 x, }

  @calculatedFrom(
    """ ++ [128512]%N ++ runes_of_ascii """ ) 
tag

    , 

    // " ++ [27880; 37322]%N ++ runes_of_ascii "

  //x
  	string

zchar 
`// not a comment`
    ,	}MetaData
matchKey

{
    }

packet	uint8x 
{ 
// a // b
  //x
  repeat lengthOf  
      // a // b
	// @lengthOf(
	{

u16 u128  //
  ,

Pad

,

    }

    ,@tag( 4294967296	)
@calculatedFrom(

""x y""

)

    @tag( 0

)	char[4294967296]

    options1

@calculatedFrom(

    ""CRC32""
)
,	@rightPad
	( '\x00' )

repeat
    string 
asx `a\` 	 // " ++ [128512]%N ++ runes_of_ascii " emoji
		, @calculatedFrom(
""" ++ [128512]%N ++ runes_of_ascii """ )

char[

    255 
] len	@calculatedFrom( """ ++ [233]%N ++ runes_of_ascii "t" ++ [233]%N ++ runes_of_ascii """  ) 
,  @calculatedFrom( 	 //x
""{,}""  )repeat

    zchar  calculatedFrom,

@calculatedFrom(
""" ++ [233]%N ++ runes_of_ascii "t" ++ [233]%N ++ runes_of_ascii """

)

string
o
	@lengthOf(
u
    ), uint64
	falsey
        // " ++ [128512]%N ++ runes_of_ascii " emoji
	  @calculatedFrom( ""\" ++ [233]%N ++ runes_of_ascii """
    )
	,
    zchar[
	65535 ] stringy@calculatedFrom(
	""1""
) , 
As	,}
packet
    BodyLength{repeat

uint32

body
,	zchar[ 
65535 ] 
//	t
	Header  ,As
	i8i8 
`tab	here`

    ,
@calculatedFrom(
    """ ++ [128512]%N ++ runes_of_ascii """

    )
    @rightPad
(	// trailing space 
'0' 
) @tag(
    65535) 
Pad{
    string
    u128	,
	}  ,@tag(

    255
    ) @leftPad ()

    @lengthOf(  f32a
) repeat
o , repeat
i8i8 {repeat f32a	/// triple
    float 
`line1
line2`
    , 
repeat char[ 0123456789 ] pack
	`tab	here`, // `tick` ""quote"" 'q'
  char[]
    x ,

    },
@calculatedFrom(

    """"	) @lengthOf( lengthOf
)	repeat

    char[	65535
    ] Foo 
,  pack 
lengthOf

, repeat Pad,

} packet // " ++ [128512]%N ++ runes_of_ascii " emoji
  u8x	{ 
    //

  @tag( // `tick` ""quote"" 'q'
	255
	)
	repeat

zchar[ 	 // trailing space 

  4294967296
    ]  pack

,  // " ++ [128512]%N ++ runes_of_ascii " emoji
  char[ 0123456789

]
    charz	// trailing space 

@calculatedFrom(//x
  ""a\""b""
    )// packet A { u8 x, }
    , 

//
@lengthOf(
    Header
    ) 
        // c
//x
  f32a{
    u128
@calculatedFrom( """"
// " ++ [128512]%N ++ runes_of_ascii " emoji
) `line1
line2` ,  T

    @calculatedFrom(

""a\""b""
	)
,
int32
lengthOf
    @lengthOf(
msg_type)
	,
    Foo @calculatedFrom( ""a\""b""),
}  ,
}

")).
Eval vm_compute in ("<<<M3868>>>" ++ check (runes_of_ascii "packet Logon {
    repeat string a1 `crlf
        line`,
    @lengthOf(Pad)
    match Pad as u8x {
        4294967296 : i8i8,
    },
    asx a1,
    @lengthOf(body)
    //x
    msg_type int,
    tag `line1
        line2`,
    repeat Z9_ {
        u16 packetx @calculatedFrom(""it's""),
    },
    @lengthOf(Logon)
    @rightPad()
    @calculatedFrom(""" ++ [233]%N ++ runes_of_ascii "t" ++ [233]%N ++ runes_of_ascii """)
    repeat roots u128,
    @calculatedFrom(""{,}"")
    chars {
        match roots as Foo {
            10 : trueish,
        },
    },
    i8i8,
    @calculatedFrom(""x y"")
    @calculatedFrom(""a\""b"")
    repeat Z9_ {
        f32a msg_type,
        repeat o {
            // " ++ [128512]%N ++ runes_of_ascii " emoji
            // @lengthOf(
            zchar[0] charz @calculatedFrom(""CRC32""),
        },
    },
}

root packet BodyLength {
    calculatedFrom {
        char[] x @calculatedFrom(""\n""),// @lengthOf(
        _x @calculatedFrom(""`tick`""),
        repeat u128,
        float Packet `" ++ [28040; 24687; 31867; 22411]%N ++ runes_of_ascii "`,
    },
    repeat Foo {
        uint64 a1,
    },/// triple
    repeat char[42] matchKey `it's`,
    lengthOf {
        // " ++ [27880; 37322]%N ++ runes_of_ascii "
        u128 trueish `// not a comment`,
        match chars as MetaDataX {
            00 : x_y_z,
            1 : trueish,
            [0123456789] : calculatedFrom,
            [
                007, ""CRC32"", ""\" ++ [233]%N ++ runes_of_ascii """, ""// no comment"", ""it's"",
                ""packet""
            ] : Pad,
        },
    },
    repeat char[] Logon,
    @leftPad('0')
    f32 Pad @calculatedFrom(""CRC32""),
    @lengthOf(BodyLength)
    options1 @calculatedFrom(""`tick`""),
    A {
        // " ++ [27880; 37322]%N ++ runes_of_ascii "
        //	t
        uint8 charz `u8 x,`,
        falsey x `line1
                line2`,
        repeat int8 Packet,
        zchar[1] float,
    },
    char[65535] matchKey @calculatedFrom(""x y""),
    @lengthOf(o)
    match chars as As {
        1 : f32a,
    },
}

packet int {
    @calculatedFrom(""// no comment"")
    @rightPad()
    @calculatedFrom(""" ++ [233]%N ++ runes_of_ascii "t" ++ [233]%N ++ runes_of_ascii """)
    roots _x `say ""hi""`,// `tick` ""quote"" 'q'
}

options {
    o = ""{,}""
    Pad = 255;
}// " ++ [27880; 37322]%N)).
Eval vm_compute in ("<<<M3973>>>" ++ check (runes_of_ascii "
options{

    u = char[] }

MetaData	u	// " ++ [27880; 37322]%N ++ runes_of_ascii "
  {
char[	0
	]
Logon
, 
char[]

x_y_z,
	string string_	// @lengthOf(
	,
	u64 
uint8x

    ,}packet body {	char[

00

    ] rootA ,T{ stringy 	 // packet A { u8 x, }
    {  repeat char[]
//
	//x
    metadata
`" ++ [28040; 24687; 31867; 22411]%N ++ runes_of_ascii "`
,
match
	i8i8  // packet A { u8 x, }
  as
	BodyLength{
	0
	:
	BodyLength 
    //	t
    ,} , // `tick` ""quote"" 'q'

  packetx @calculatedFrom(
""CRC32""

)

`
` 
,
}

,int32

falsey `a\`
, 
} ,  //	t
  	match 	 // a // b
    Z9_
    as calculatedFrom { 255 
  //	t

  //	t
    : As// " ++ [27880; 37322]%N ++ runes_of_ascii "
}, 

    // " ++ [27880; 37322]%N ++ runes_of_ascii "
Logon `doc`,  }	root

packet

stringy
{	match	x as
	T{ 65535 
:Header
, 
[

    ""a\""b""
,

    ""1"" ]// " ++ [128512]%N ++ runes_of_ascii " emoji

: Z9_ ,  
  //
	//
  	}
,
	char[] /// triple
  zchar@lengthOf(lengthOf  )
//x
	  // @lengthOf(
`two words`
	,

options1 {

    repeat int	Header 
``
,

    i8	Logon @calculatedFrom( ""a	b""
	)

`" ++ [28040; 24687; 31867; 22411]%N ++ runes_of_ascii "` ,// @lengthOf(
	  }
,  uint32	roots  `// not a comment` ,
len 
  //

	//
  {
	match

// `tick` ""quote"" 'q'
//x

options1  as 
    //x
// c

o
{ 65535
:  f32a
, ""CRC32""  : tag ,// @lengthOf(
  4294967296 : 
u8x,
0
    :
	metadata

, ""a	b""

    :
    string_	}
,char[
	65535
	] 
  /// triple
		// " ++ [128512]%N ++ runes_of_ascii " emoji
    	crc@calculatedFrom( ""{,}"" 
) `crlf
line` ,
	Pad

    @lengthOf(
	leftPad
	)	,
	uint8	Z9_`u8 x,` ,}	,  msg_type
    @calculatedFrom( """")
	,
// trailing space 
	// `tick` ""quote"" 'q'
    repeat 
u8x
, match
	metadata as BodyLength {
""packet"" //
      : 
f32a

7 :  int  /// triple
	0123456789
:	x

,	// `tick` ""quote"" 'q'
    } 
,
	uint16
    i64_
    ,

    }

packet
	string_ {

string_  ,

/// triple
  //

}

")).
Eval vm_compute in ("<<<M68>>>" ++ check (runes_of_ascii "MetaData
len { i8 BodyLength , u32
    u `tab	here`,
    // `tick` ""quote"" 'q'
    calculatedFrom	asx `" ++ [28040; 24687; 31867; 22411]%N ++ runes_of_ascii "` /// triple
,
Logon Packet `// not a comment`
    ,
    } //
root packet string_ { zchar[ 00
]
options1	, match
x_y_z as msg_type{	""it's""
    // c
    :  T 0123456789: a1 10 :
trueish
, } ,} packet
len { int64 crc ,  body {
f64 leftPad , a1, }
    , repeat uint8x {repeat f32
string_`" ++ [28040; 24687; 31867; 22411]%N ++ runes_of_ascii "`
    , int8 T @calculatedFrom( """"
    ) `line1
line2` ,
uint8 repeatCount	,
} , u64 Foo `line1
line2`	, @tag(1 ) repeat
matchKey
{ i8	x_y_z @lengthOf(Z9_ )// packet A { u8 x, }
`tab	here` , calculatedFrom
trueish// trailing space 
, uint16 charz
    // packet A { u8 x, }
    @calculatedFrom(
    ""{,}"" )`line1
line2`	, } ,
// @lengthOf(
//
uint32
    metadata, @lengthOf( msg_type )repeat Packet { zchar[
255
]u8x @calculatedFrom( ""x y"")
//
// packet A { u8 x, }
`crlf
line`	, repeat
// `tick` ""quote"" 'q'
//
u128 ,// packet A { u8 x, }
float64 int ,
    repeat Header	{ char[ 42 ]roots
    @calculatedFrom(
    //	t
    ""CRC32"") `two words`,
roots @calculatedFrom( ""a	b"" ) `two words`
// packet A { u8 x, }
// c
, u32
    // c
    packetx
@lengthOf( roots
) , repeat float	BodyLength	`" ++ [233]%N ++ runes_of_ascii "` , } , }	,match
float
as A
{	[ 7 , ""a	b"" ]
:	Header ,[
007	, ""1""
    ]
// @lengthOf(
// @lengthOf(
: charz
    , ""\" ++ [233]%N ++ runes_of_ascii """ : i8i8 00 :	charz // packet A { u8 x, }
42	:i64_
, } , match
// `tick` ""quote"" 'q'
//
uint8x as u8x{ 255 :
    int } ,	}
")).
Eval vm_compute in ("<<<M4352>>>" ++ check (runes_of_ascii "options {
    // packet A { u8 x, }
    uint8x = '\x00'
    Foo = 65535;
    As = """ ++ [28040; 24687]%N ++ runes_of_ascii """
}

options {
}// `tick` ""quote"" 'q'

root packet i8i8 {
    // packet A { u8 x, }
    repeat calculatedFrom body `" ++ [233]%N ++ runes_of_ascii "`,
    @tag(1)
    repeat lengthOf {
        match asx as x {
            """ ++ [233]%N ++ runes_of_ascii "t" ++ [233]%N ++ runes_of_ascii """ : T,
        },
        trueish @calculatedFrom(""\n""),
        u32 x,
    },
    @rightPad('\x00')
    i32 packetx @lengthOf(trueish),
    @tag(10)
    repeat asx {
        repeat int32 lengthOf,
        int8 repeatCount ``,
        repeatCount msg_type,
        msg_type {
            Logon {
                charz u `it's`,
                calculatedFrom repeatCount `crlf
                                line`,
            },
        },
    },
    _x {
        // trailing space 
        match x_y_z as packetx {
            ""`tick`"" : Pad,
            """" : x,
        },
        char[] T,
        int,
        Z9_ falsey,
    },
    string T `it's`,
    @lengthOf(u128)
    // @lengthOf(
    u128 @calculatedFrom(""1""),
    u128 {
        float {
            zchar[00] MetaDataX @lengthOf(leftPad) `it's`,
        },
        repeat char[] tag,
    },
    @leftPad('0')
    match A as lengthOf {
        ""packet"" : Header,
        0123456789 : leftPad,
        ""a\""b"" : zchar,
        ""a	b"" : rootA,
    },
    string crc,
}")).
Eval vm_compute in ("<<<M3638>>>" ++ check (runes_of_ascii "// top
options // c0a
  // c0b
{
    // c1
LittleEndian // c2
= // c3a
  // c3b
false ; // c5a
  // c5b
ArrayPrefixLenType // c6a
  // c6b
= // c7a
  // c7b
u64 // c8
; FixedStringPadChar
    // c10
= // c11a
  // c11b
'0' ; // c13
}
    // c14
packet // c15
Quote { repeat // c18
InFlags37 // c19a
  // c19b
{
    // c20
char[]
    // c21
lastPx , } // c24a
  // c24b
,
    // c25
i16 // c26a
  // c26b
tag7 // c27
,
    // c28
char[]
    // c29
f1 // c30
, // c31a
  // c31b
zchar[ 6 ] // c34
Note // c35
, } // c37a
  // c37b
packet Order { // c40a
  // c40b
u8 // c41
Ref // c42a
  // c42b
,
    // c43
repeat // c44
Quote , // c46
repeat string Acct // c49
, } root // c52a
  // c52b
packet Heartbeat // c54a
  // c54b
{ // c55
repeat
    // c56
Quote ,
    // c58
@leftPad // c59
( '0' // c61a
  // c61b
) // c62
char[ // c63
11 // c64a
  // c64b
] OrderId , // c67a
  // c67b
zchar[
    // c68
8 ] // c70a
  // c70b
Ref
    // c71
, u32 // c73a
  // c73b
Flags // c74a
  // c74b
, // c75a
  // c75b
u32 // c76a
  // c76b
Tail // c77
@lengthOf( // c78a
  // c78b
Body ) , match // c82
Flags as Body { 156 : Order // c89
, // c90a
  // c90b
7 // c91a
  // c91b
: // c92
Quote // c93
, }
    // c95
, } // c97
")).
Eval vm_compute in ("<<<M350>>>" ++ check (runes_of_ascii "packet
matchKey
    {	zchar[ 3
    ]
// `tick` ""quote"" 'q'
// packet A { u8 x, }
A,msg_type
`a\` , MetaDataX As  , @lengthOf(
    Z9_ )repeat
    f32 _x ,
    @lengthOf(Pad ) uint32 //	t
Logon
    , // a // b
@tag( 4294967296 ) T	`doc` ,
len  ,
body { repeat
    o { match i8i8 as	body{ 65535
:lengthOf,
[ ""\n"" ] : i64_ 3
: asx , [
""packet""
,
    /// triple
    007	,
""{,}""  , ""// no comment""
] : repeatCount ,[ ""// no comment"",
    7
    ,	""\" ++ [233]%N ++ runes_of_ascii """, 0123456789 //
, ""a\""b"" ] : roots
} ,
match repeatCount as As
{ """"
    /// triple
    : //	t
o ,
    }
, } , zchar[ 0 ]BodyLength `` ,
    lengthOf,}, i16 Z9_ , } packet
    tag { @tag(
    // `tick` ""quote"" 'q'
    1 ) repeat float i8i8`" ++ [28040; 24687; 31867; 22411]%N ++ runes_of_ascii "` // `tick` ""quote"" 'q'
,  @rightPad ( )@lengthOf( _x) @rightPad ( // c
'0'
)
Packet, Foo /// triple
@lengthOf(
    u128
) `doc` ,
@tag( 007 ) // packet A { u8 x, }
string repeatCount , o {match leftPad as lengthOf {
[
    0123456789  ,
""1"" ] :
    x_y_z  , [ """ ++ [128512]%N ++ runes_of_ascii """] : i8i8
, [// @lengthOf(
""a\""b"" , ""a	b"" ]
: Foo , [ ""\" ++ [233]%N ++ runes_of_ascii """ ] : Pad,
    [ ""a	b"" , 42
//
//	t
, """ ++ [233]%N ++ runes_of_ascii "t" ++ [233]%N ++ runes_of_ascii """ ,	3 ,	""" ++ [28040; 24687]%N ++ runes_of_ascii """,
    00 ,
7 ]  : packetx ,
42
    //x
    : falsey,}
,},}packet body
{ }")).
Eval vm_compute in ("<<<M4040>>>" ++ check (runes_of_ascii "
options { i64_

= 
  // c
  	// trailing space 
""x y"";chars 
    // a // b
  //	t
  = 65535
metadata	= i32 ; // trailing space 

  } 
root
    packet 
chars{
    @lengthOf(/// triple
chars 
	    // " ++ [128512]%N ++ runes_of_ascii " emoji
	  )
repeat

Logon

// " ++ [128512]%N ++ runes_of_ascii " emoji
  //	t
    { string  len	@lengthOf(crc

) //x
	,
u128
@lengthOf( x)
    ,
}
,
	}
packet

chars 
{
	@lengthOf(
	charz	) @calculatedFrom(""" ++ [233]%N ++ runes_of_ascii "t" ++ [233]%N ++ runes_of_ascii """

)
    @calculatedFrom(

    """ ++ [128512]%N ++ runes_of_ascii """ )repeat
	    // " ++ [128512]%N ++ runes_of_ascii " emoji
      repeatCount
	Packet
	`u8 x,`	,

    match	rootA as
    /// triple
	falsey

    {	""{,}""	: As  , 
00
:	// " ++ [128512]%N ++ runes_of_ascii " emoji
      lengthOf 
, 
""\n""
    :  u8x

,
""" ++ [233]%N ++ runes_of_ascii "t" ++ [233]%N ++ runes_of_ascii """

:
T
3 : 
      /// triple
    calculatedFrom  ,
}, 
@leftPad 
(  )
	@calculatedFrom(  ""it's"" 
) 
repeat
    crc
stringy
`
`
	, @lengthOf(	// `tick` ""quote"" 'q'
    metadata
    )

repeat falsey
{ char[]Foo
`a\`

    ,	match
leftPad	//	t
  	as
BodyLength
	{ ""CRC32""  :

body
, 
""1""
	:

    x
	, 
""a\\"" :
	calculatedFrom
    ,	[ 
    // @lengthOf(
		1,  00
] :float  }

,  repeat char  calculatedFrom	,Foo
	{
    u64 Header	`
`	,
},}
    ,  }")).
Eval vm_compute in ("<<<M1060>>>" ++ check (runes_of_ascii "packet i64_{
@tag( 4294967296
) As
{ repeat f32
BodyLength ,
// trailing space 
// a // b
i64_ @calculatedFrom(""{,}""
// @lengthOf(
// a // b
) ,	repeatCount
packetx `" ++ [28040; 24687; 31867; 22411]%N ++ runes_of_ascii "`
    ,}, @lengthOf( _x )
options1 ,
    //	t
    options1 , @rightPad (
'0') repeat // packet A { u8 x, }
string Foo
    ,
    char[] string_@calculatedFrom(""a	b"" )// c
`u8 x,` ,
char[
// packet A { u8 x, }
// @lengthOf(
65535]  x_y_z ,	repeat
    options1 packetx/// triple
, @lengthOf(
matchKey )
@calculatedFrom( ""\" ++ [233]%N ++ runes_of_ascii """) repeat
    Logon // trailing space 
asx , matchKey
@lengthOf(
// `tick` ""quote"" 'q'
//
lengthOf  )
`u8 x,`
    , // packet A { u8 x, }
}root packet repeatCount{ @rightPad ( '\x00' ) u8 Packet `// not a comment`
    , @calculatedFrom( ""CRC32""
) i8i8 , repeat u{// `tick` ""quote"" 'q'
char[255]u128 , i16
    Packet `doc`, zchar[
    3//
]  BodyLength , char[]
u
    `say ""hi""`
    ,
} , int32 float ,i8 Logon , @lengthOf( rootA)  zchar[42 ] int @lengthOf( lengthOf ) , //
repeat	char[ 42 ]
metadata ,
} packet falsey{ }
")).
Eval vm_compute in ("<<<M3633>>>" ++ check (runes_of_ascii "options {
    StringPrefixLenType = u64;
    ArrayPrefixLenType = u16;
    FixedStringPadChar = ' ';
}
packet Logon {
    i32 msgKind,
    repeat InOrderid65 {
        u8 pad0,
    },
    i8 tag7,
    @leftPad(' ') char[12] x,
}
packet Leg {
    char[] f1,
    repeat char[5] Px,
    InQty34 {
        repeat char[6] Qty,
        char[7] seqNo,
        string count,
    },
    Logon,
}
packet Party {
    @leftPad('0') char[10] OrderId,
    string Tail,
}
packet Fill {
    zchar[5] venue,
    zchar[3] clOrdID,
    InRef95 {
        InLastpx25 {
            u8 pad0,
        },
        float64 OrderId,
        i32 f1,
        float32 x,
        char[] seqNo,
    },
    repeat string seqNo,
}
root packet Heartbeat {
    repeat Leg,
    u32 seqNo,
    u16 tag7,
    u32 Flags @lengthOf(Body),
    match tag7 as Body {
        [195, 75] : Party,
        171 : Fill,
        78 : Logon,
        142 : Leg,
    },
    u32 Note @calculatedFrom(""CR\
C32""),
}
")).
Eval vm_compute in ("<<<M394>>>" ++ check (runes_of_ascii "
MetaData As	{ zchar[ 007	]
BodyLength `u8 x,` , char[]
    o
,
T stringy ,	f32a
    As
, }root packet	Logon{int32
charz @calculatedFrom(	""`tick`"" ) `crlf
line`,
match uint8x as options1 {
10
: Logon 4294967296
// `tick` ""quote"" 'q'
// `tick` ""quote"" 'q'
: pack, 10
    // c
    :
    BodyLength  ,
0 : options1 , 0:calculatedFrom
, [
""it's""
,
0, ""a\""b"" //
, ""a	b""	, 0123456789 ,
00 , 3 ,
007 // " ++ [27880; 37322]%N ++ runes_of_ascii "
]
    :packetx	}, @leftPad// packet A { u8 x, }
(	'\x00'
    ) @tag(
4294967296 )
    repeat uint8 Packet
`it's` ,// packet A { u8 x, }
zchar[
    0123456789 ] len
    // " ++ [27880; 37322]%N ++ runes_of_ascii "
    @lengthOf( A  )
, zchar[// " ++ [128512]%N ++ runes_of_ascii " emoji
0
    ]u @calculatedFrom(
""x y"" ) , @tag( 00 )	match zchar as
o { 4294967296: uint8x
[ ""CRC32""
    , ""// no comment""
// a // b
// @lengthOf(
, 4294967296 , 0123456789
    ] :
BodyLength ,}, @leftPad( '0' ) @lengthOf( BodyLength  )
@tag(0 ) calculatedFrom`line1
line2`
,}")).
Eval vm_compute in ("<<<M4144>>>" ++ check (runes_of_ascii "MetaData As {
    zchar[007] BodyLength `u8 x,`,
    char[] o,
    T stringy,
    f32a As,
}

root packet Logon {
    int32 charz @calculatedFrom(""`tick`"") `crlf
    line`,
    match uint8x as options1 {
        10 : Logon,
        4294967296 : pack,
        10 : BodyLength,
        0 : options1,
        0 : calculatedFrom,
        [
            0, 0123456789, 00, 3, 007,
            ""it's"", ""a\""b"", ""a	b""
        ] : packetx,
    },
    @leftPad('\x00')
    @tag(4294967296)
    repeat uint8 Packet `it's`,// packet A { u8 x, }
    zchar[0123456789] len @lengthOf(A),
    zchar[0] u @calculatedFrom(""x y""),
    @tag(00)
    match zchar as o {
        4294967296 : uint8x,
        [4294967296, 0123456789, ""CRC32"", ""// no comment""] : BodyLength,
    },
    @leftPad('0')
    @lengthOf(BodyLength)
    @tag(0)
    calculatedFrom `line1
    line2`,
}")).
Eval vm_compute in ("<<<M4498>>>" ++ check (runes_of_ascii "//
packet falsey {
    x_y_z @calculatedFrom(""CRC32"") `{ , }`,
    repeat int8 i64_,
    char[] f32a,
    @lengthOf(calculatedFrom)
    repeat string f32a `{ , }`,
    match pack as u128 {
        [10, 7] : calculatedFrom,
        """ ++ [128512]%N ++ runes_of_ascii """ : options1,
        1 : calculatedFrom,
        ""\" ++ [233]%N ++ runes_of_ascii """ : body,
    },
    @leftPad(' ')
    o packetx ``,
    @calculatedFrom(""{,}"")
    char[7] u,
    repeat u _x,
    Z9_,
    @leftPad(' ')
    string asx,
}

packet zchar {
    zchar[1] As `two words`,
    zchar[7] charz @calculatedFrom(""" ++ [128512]%N ++ runes_of_ascii """),// c
    @tag(4294967296)
    char[] uint8x @calculatedFrom(""`tick`""),
    repeat char metadata,
    zchar[65535] metadata,
    stringy i64_,
    @leftPad('\x00')
    string_ @lengthOf(options1),
    @tag(65535)
    float64 Foo @calculatedFrom(""abc"") `{ , }`,
}

options {
}")).
Eval vm_compute in ("<<<M4559>>>" ++ check (runes_of_ascii "packet 
      //	t
  As
    { 
@tag(	10
    ) 
@lengthOf(

chars )  zchar{ 
  //x
    // `tick` ""quote"" 'q'
  	metadata{ 
Header  `it's` 
, 
match

    body
as
i64_ 	 // trailing space 
      {

""// no comment"" 
:

    packetx
	, }/// triple

,

match

repeatCount
	as
    asx	{
    255 
:
Foo,	3	:
int

,""1"" : chars ,}
    ,

uint32
repeatCount 
@lengthOf( 
	    // c
  BodyLength) ``
    ,} , roots,

repeat	rootA
``
    ,
char
MetaDataX
@lengthOf(

crc) 
,  }

, 
        // a // b
	_x {

match As

as

    Foo  // @lengthOf(

  {1:
    // " ++ [27880; 37322]%N ++ runes_of_ascii "

	stringy
	    //x
    //	t
	,

} ,}
, u8
    Foo  ,
    @calculatedFrom(
""""
)
BodyLength

,	char[
007  ]  Z9_@calculatedFrom( 
""CRC32"" 
) ,
    lengthOf  ,
i32 	 //x
    f32a`{ , }`
,

    }

")).
Eval vm_compute in ("<<<M659>>>" ++ check (runes_of_ascii "options
    {
metadata = ""a\""b""
;
    int
    = true
; chars ='\x00';
    string_ = '\x00'
; }packet x { match As as
    tag{ 1 :zchar, ""a	b"" // packet A { u8 x, }
: len,
} , Pad i64_ , // " ++ [27880; 37322]%N ++ runes_of_ascii "
@tag(3
)leftPad {// trailing space 
body , } ,char[]i8i8 `{ , }` ,charz { repeat
u16
zchar `two words` ,}
//
//	t
, int64 Z9_// " ++ [27880; 37322]%N ++ runes_of_ascii "
@calculatedFrom( ""a\\""
)
    , @rightPad ( '\x00'
    ) metadata@lengthOf(i64_// `tick` ""quote"" 'q'
) , @lengthOf( // @lengthOf(
int
) u32	u128 , // packet A { u8 x, }
@tag( 10 )
// " ++ [27880; 37322]%N ++ runes_of_ascii "
// " ++ [128512]%N ++ runes_of_ascii " emoji
@rightPad (
    '\x00') //
@tag( 007)
float {	int32 Pad`" ++ [233]%N ++ runes_of_ascii "`  , i16	options1
`` , repeatCount// @lengthOf(
,	chars @lengthOf(  pack) ,
    } ,
repeat int
{zchar[ 10]
u `two words` , i64 Logon,
}, }
")).
Eval vm_compute in ("<<<M57>>>" ++ check (runes_of_ascii "root
packet string_{ i32 uint8x @calculatedFrom( ""\" ++ [233]%N ++ runes_of_ascii """ ) , body ,@tag(// a // b
0  ) Z9_
    @calculatedFrom(
""" ++ [28040; 24687]%N ++ runes_of_ascii """),
@lengthOf( stringy	)  falsey
    { repeat trueish { u64 i8i8 , }
,  } ,
char[] leftPad
@lengthOf( falsey
    // c
    ),	@calculatedFrom(	""a	b""
    )
//x
// " ++ [27880; 37322]%N ++ runes_of_ascii "
char[]  BodyLength,//x
match
falsey as crc{255 :falsey ,[
//x
// @lengthOf(
7,7] // @lengthOf(
:
//
//x
crc, ""a	b""// `tick` ""quote"" 'q'
: i8i8,255  : a1
, } ,Logon@lengthOf( _x // `tick` ""quote"" 'q'
)
, match	lengthOf as  o{ ""packet"" :	x_y_z ,} , } options
{
//	t
// `tick` ""quote"" 'q'
calculatedFrom
=
""// no comment""  ;
    x
    ='\x00' a1
= ""abc"" ; x_y_z=
65535 ; } packet Foo
{ } packet o { }")).
Eval vm_compute in ("<<<M3695>>>" ++ check (runes_of_ascii "root

    packet  packetx

    {string_
leftPad  ,
// " ++ [27880; 37322]%N ++ runes_of_ascii "
//x
  }
root

    packet  o  {

x 
metadata
`it's`,uint8
metadata

    ,i32  trueish
	, i64_

    @calculatedFrom(	""`tick`"")

, // packet A { u8 x, }
match  matchKey
    as
    repeatCount  { 
[ 	 //x
""`tick`""
]	: Pad
, 10
:
    // `tick` ""quote"" 'q'
	  charz ,
7	: msg_type 	 // c
    }, 
float64 body

@calculatedFrom(""it's""  )  ,
    x_y_z @lengthOf( Header/// triple
    ) ,

    body 
@calculatedFrom(	""" ++ [28040; 24687]%N ++ runes_of_ascii """ )
	`{ , }`,
    }
    options
    {}  // " ++ [128512]%N ++ runes_of_ascii " emoji
options 
{

Z9_	/// triple
    =

true  ;Z9_=

    false

    leftPad
	=	//x
    ' ' 
As 
=char[] ;}
")).
Eval vm_compute in ("<<<M186>>>" ++ check (runes_of_ascii "packet Packet { @tag(	65535 ) @leftPad ( ' '
    )
@tag( 255
    /// triple
    )
    uint8
len
    @lengthOf( T), int32 u8x , @lengthOf( rootA )float32 i64_
`u8 x,` , } packet// c
int { repeat	i8i8
{lengthOf
    @lengthOf( int)`line1
line2`
, string	falsey `
` ,uint16
// `tick` ""quote"" 'q'
// trailing space 
roots
@lengthOf(
charz), } , }options
    { Foo = ' '	len  = """ ++ [128512]%N ++ runes_of_ascii """
; chars= u64 ;
//x
//
uint8x // a // b
=	""" ++ [128512]%N ++ runes_of_ascii """
    // trailing space 
    ;metadata= ' ' ; }
    // " ++ [27880; 37322]%N ++ runes_of_ascii "
    MetaData Header
    // " ++ [27880; 37322]%N ++ runes_of_ascii "
    {
i16
    matchKey,Packet Packet `u8 x,`  , }packet u128 {uint8x
@lengthOf(charz) `u8 x,`	, }
")).
Eval vm_compute in ("<<<M255>>>" ++ check (runes_of_ascii "MetaData metadata { // `tick` ""quote"" 'q'
msg_type
Pad
    , int8
calculatedFrom, } MetaData msg_type{// packet A { u8 x, }
}
packet // a // b
len {_x , }
options { As =
// a // b
// c
true
; // " ++ [27880; 37322]%N ++ runes_of_ascii "
repeatCount
    ='\x00' ; uint8x // packet A { u8 x, }
= ""\" ++ [233]%N ++ runes_of_ascii """;
    chars= true
; }
// " ++ [27880; 37322]%N ++ runes_of_ascii "
// `tick` ""quote"" 'q'
packet crc {matchKey @lengthOf( float	) ,
@leftPad ( '0'
    ) match	i8i8 as x
{[ // " ++ [128512]%N ++ runes_of_ascii " emoji
65535 ,
    // trailing space 
    10 , 4294967296
] :repeatCount ,  ""// no comment"": stringy
    ,} ,
    @calculatedFrom(	""a	b""
)crc
// " ++ [27880; 37322]%N ++ runes_of_ascii "
// trailing space 
,
    /// triple
    }

")).
Eval vm_compute in ("<<<M1087>>>" ++ check (runes_of_ascii "  packet
    falsey { float64	calculatedFrom`
`, /// triple
@tag(
42 )
repeatCount {
match repeatCount as  A	{
    0 : f32a
    ,
    } ,
uint16 f32a @calculatedFrom(
""a\\"" )  `// not a comment`  , crc {
    char[ 3 ]
Logon // `tick` ""quote"" 'q'
@calculatedFrom(
""packet"" ), repeat
u128
    {zchar[
    42 ]lengthOf `crlf
line` ,Pad roots `line1
line2`
,
}
// packet A { u8 x, }
// trailing space 
,
// packet A { u8 x, }
// `tick` ""quote"" 'q'
}
,}	,
} packet uint8x	{repeat u8
body , }packet
asx	{
zchar[ 255]
// " ++ [128512]%N ++ runes_of_ascii " emoji
// trailing space 
asx ,}
")).
Eval vm_compute in ("<<<M861>>>" ++ check (runes_of_ascii "MetaData trueish
    { char[]  i8i8 `" ++ [28040; 24687; 31867; 22411]%N ++ runes_of_ascii "` ,
} packet calculatedFrom
{ @calculatedFrom(""CRC32"")
@lengthOf(u128 )
    metadata // @lengthOf(
stringy `u8 x,`
, string
i8i8@lengthOf( rootA
    // `tick` ""quote"" 'q'
    ) , @calculatedFrom(	""CRC32"" ) @calculatedFrom(	""packet"")@calculatedFrom(""""
) zchar[42 ] body `" ++ [233]%N ++ runes_of_ascii "` , Packet , uint16  Logon ,
rootA len
`u8 x,` ,
T @lengthOf(
// a // b
// " ++ [27880; 37322]%N ++ runes_of_ascii "
T), @rightPad ( ) repeat char[ // @lengthOf(
255 ]//
x_y_z
,repeat uint16 len
,
@rightPad
    ( ) calculatedFrom charz `crlf
line`,
}
")).
Eval vm_compute in ("<<<M4440>>>" ++ check (runes_of_ascii "packet  A {
repeat  lengthOf{

    len
    ,
    } , 
@tag( 	 // trailing space 
      42	)

    match Header
	as 
falsey
{	[  """ ++ [128512]%N ++ runes_of_ascii """ //
		,
    ""\n""
    ,4294967296

    ]	: 
Packet

1:
falsey ,
""\" ++ [233]%N ++ runes_of_ascii """ 	 // " ++ [128512]%N ++ runes_of_ascii " emoji
  : charz

    }
,  zchar[
255
] 
  // packet A { u8 x, }
	// trailing space 
  rootA,	repeat  char[

10 ]  // `tick` ""quote"" 'q'
f32a 
// trailing space 
    //x
  , @calculatedFrom(
	""// no comment""

) char[
    00]trueish 
@calculatedFrom( 
// " ++ [27880; 37322]%N ++ runes_of_ascii "

""a\""b"" 
) `line1
line2`
	, }
")).
Eval vm_compute in ("<<<M4273>>>" ++ check (runes_of_ascii "root packet Foo {
    match As as rootA {
        ""CRC32"" : packetx,
        4294967296 : Header,
        [0123456789, 255, 0, ""\n"", ""packet""] : BodyLength,
        [
            7, 255, 65535, 00, 3,
            ""packet"", ""abc""
        ] : f32a,
    },
    f32 calculatedFrom @lengthOf(metadata) `crlf
        line`,
}//	t

options {
    // c
    x_y_z = 7
    body = zchar[1];
}

packet i8i8 {
    string_ {
        u32 options1 @calculatedFrom(""1""),
    },
}// `tick` ""quote"" 'q'")).
Eval vm_compute in ("<<<M4545>>>" ++ check (runes_of_ascii "packet A {
    match packetx as As {
        007 : body,
        [255, 65535, ""\" ++ [233]%N ++ runes_of_ascii """, ""a	b""] : float,
        [255, ""a\""b""] : i64_,
    },
    @calculatedFrom(""\" ++ [233]%N ++ runes_of_ascii """)
    @calculatedFrom(""CRC32"")
    //
    Z9_ @calculatedFrom(""it's"") `
        `,
}

MetaData calculatedFrom {
    i16 len,
    zchar[42] A `{ , }`,
    string tag `doc`,
    float matchKey,
    char[7] len `
        `,
}

root packet int {
    @lengthOf(int)
    i8 u @lengthOf(len),
}

options {
}")).
Eval vm_compute in ("<<<M3581>>>" ++ check (runes_of_ascii "// top
packet // c0
A
    // c1
{ // c2a
  // c2b
u8 // c3a
  // c3b
a // c4a
  // c4b
, } packet // c7
B
    // c8
{ // c9
u16 // c10
b , // c12a
  // c12b
} // c13
root // c14a
  // c14b
packet P // c16
{ u8 // c18
K // c19
, // c20a
  // c20b
match // c21a
  // c21b
K
    // c22
as // c23a
  // c23b
M
    // c24
{
    // c25
1 // c26a
  // c26b
: // c27
A // c28
, 1 : // c31a
  // c31b
B // c32
, // c33
} // c34
,
    // c35
} // c36
")).
Eval vm_compute in ("<<<M1211>>>" ++ check (runes_of_ascii "packet
f32a {
i64_  falsey ,match
/// triple
//
i8i8 as _x { // " ++ [27880; 37322]%N ++ runes_of_ascii "
0
    //x
    : Logon,[65535 , ""x y""
    ]:Header ,
4294967296//x
: Foo, /// triple
} ,
@tag( 0123456789 )	u8x msg_type
`say ""hi""`  , }  packet
    // a // b
    Z9_  {
    repeatCount leftPad  `two words` // `tick` ""quote"" 'q'
,
}
    MetaData
calculatedFrom{ u charz `{ , }`
,
    u64 T //x
`tab	here`, Foo	options1 `" ++ [233]%N ++ runes_of_ascii "` ,
char[] x
`doc` ,i8i8
u8x  ,}

")).
Eval vm_compute in ("<<<M3892>>>" ++ check (runes_of_ascii "
packet  x {

    lengthOf	rootA 
, @rightPad
(

'0' 
) i8	asx
	@lengthOf(	calculatedFrom // a // b
    )
	, 
@lengthOf( Pad
)repeat //x
	int16
trueish  // c
``// " ++ [27880; 37322]%N ++ runes_of_ascii "
,

@calculatedFrom( """ ++ [128512]%N ++ runes_of_ascii """)  @tag(
0
)
@lengthOf( 	 // a // b
    matchKey  )
string
MetaDataX `doc` , 
i16// `tick` ""quote"" 'q'
options1
    @lengthOf( 
      // " ++ [27880; 37322]%N ++ runes_of_ascii "

	u8x
    // " ++ [128512]%N ++ runes_of_ascii " emoji
    )

`a\` 
,  u128  u128 `line1
line2`
    ,}")).
Eval vm_compute in ("<<<M3756>>>" ++ check (runes_of_ascii "packet
	Packet 
      // " ++ [128512]%N ++ runes_of_ascii " emoji
	//	t
  { @leftPad	( '\x00' ) 

    // `tick` ""quote"" 'q'
  match
	trueish
as

Pad

    {
65535
: 
Header  ,	00	: // `tick` ""quote"" 'q'
roots
    [""" ++ [233]%N ++ runes_of_ascii "t" ++ [233]%N ++ runes_of_ascii """
, 
""1"" ,
	""packet""
,
    42 ,
0 , 
""x y"" 
,

""" ++ [128512]%N ++ runes_of_ascii """
,	""a	b""

]:
BodyLength  , """ ++ [28040; 24687]%N ++ runes_of_ascii """

    :Packet
	,  [ 
""" ++ [128512]%N ++ runes_of_ascii """
    ] :body
    }
, } //x
  options 
      // a // b
  	{/// triple
	As= u16
    }
")).
Eval vm_compute in ("<<<M4030>>>" ++ check (runes_of_ascii "
options
	{ 	 // a // b
    Header //
	=""// no comment"" As= 
""`tick`"" Header =

    f32 // packet A { u8 x, }
    ;
leftPad  = 10 o
= '\x00' } 	 // " ++ [128512]%N ++ runes_of_ascii " emoji
		packet

    metadata  
  //x
    	/// triple
	{
    @rightPad (

    '0'
) 
@leftPad
	    // c
  // trailing space 
	(
	'\x00')  @rightPad 
(
    ) string string_
    `say ""hi""`
,}  options
	{
}
")).
Eval vm_compute in ("<<<M1037>>>" ++ check (runes_of_ascii "packet crc {
    match string_ as matchKey {
7 : matchKey ,
    007 :
x//	t
, 65535 :	BodyLength
[
    00
    , 3 ] :
u128
,[  255 , 0  ] :
leftPad ,
""it's"":
//x
// trailing space 
u128 ,}
    ,
@calculatedFrom( """"
//x
/// triple
)
match MetaDataX as int {[ 3
] :
As
    ,
},
    } packet falsey {
}//
options { metadata
=// " ++ [128512]%N ++ runes_of_ascii " emoji
255//x
; }
")).
Eval vm_compute in ("<<<M622>>>" ++ check (runes_of_ascii "packet Pad
    { @lengthOf(MetaDataX )
roots a1	, }packet
tag { uint8 packetx ,@calculatedFrom( """") @rightPad( )string Z9_ @calculatedFrom(""x y""
/// triple
// " ++ [27880; 37322]%N ++ runes_of_ascii "
)`two words`
,f32
falsey
    // packet A { u8 x, }
    , }
    //
    root packet
Pad { len Z9_
, // " ++ [27880; 37322]%N ++ runes_of_ascii "
@lengthOf( o
    ) u32
    x
, A	`// not a comment` , // a // b
}
")).
Eval vm_compute in ("<<<M1918>>>" ++ check (runes_of_ascii "MetaData
    u { }  options {
// c
// @lengthOf(
float = int8 ;rootA =@calculatedFrom( ; As =	int16 // `tick` ""quote"" 'q'
repeatCount
    // trailing space 
    =
    int16
; u8x =
    //	t
    '\x00' ; } options	{
    repeatCount
= 0
u128
    //
    = false ; i64_
// trailing space 
// `tick` ""quote"" 'q'
= '0' ; //	t
}
")).
Eval vm_compute in ("<<<M1958>>>" ++ check (runes_of_ascii "MetaData
    u { }  options {
// c
// @lengthOf(
float = int8 ;rootA =false ; As =	int16 // `tick` ""quote"" 'q'
repeatCount
    // trailing space 
    =
    int16
packet u8x =
    //	t
    '\x00' ; } options	{
    repeatCount
= 0
u128
    //
    = false ; i64_
// trailing space 
// `tick` ""quote"" 'q'
= '0' ; //	t
}
")).
Eval vm_compute in ("<<<M1921>>>" ++ check (runes_of_ascii "MetaData
    u { }  options {
// c
// @lengthOf(
float = int8 ;rootA =false ; ; As =	int16 // `tick` ""quote"" 'q'
repeatCount
    // trailing space 
    =
    int16
; u8x =
    //	t
    '\x00' ; } options	{
    repeatCount
= 0
u128
    //
    = false ; i64_
// trailing space 
// `tick` ""quote"" 'q'
= '0' ; //	t
}
")).
Eval vm_compute in ("<<<M2060>>>" ++ check (runes_of_ascii "MetaData
    u { }  options {
// c
// @lengthOf(
float = int8 ;rootA =false ; As =	int16 // `tick` ""quote"" 'q'
repeatCount
    // trailing space 
    =
    int16
; u8x =
    //	t
    '\x00' ; } options	{
    repeatCount
= 0
u128
    //
    = false ; i64_
// trailing space 
// `tick` ""quote"" 'q\'
= '0' ; //	t
}
")).
Eval vm_compute in ("<<<M1967>>>" ++ check (runes_of_ascii "MetaData
    u { }  options {
// c
// @lengthOf(
float = int8 ;rootA =false ; As =	int16 // `tick` ""quote"" 'q'
repeatCount
    // trailing space 
    =
    int16
; u8x '\x00'
    //	t
    = ; } options	{
    repeatCount
= 0
u128
    //
    = false ; i64_
// trailing space 
// `tick` ""quote"" 'q'
= '0' ; //	t
}
")).
Eval vm_compute in ("<<<M1930>>>" ++ check (runes_of_ascii "MetaData
    u { }  options {
// c
// @lengthOf(
float = int8 ;rootA =false ; As 	int16 // `tick` ""quote"" 'q'
repeatCount
    // trailing space 
    =
    int16
; u8x =
    //	t
    '\x00' ; } options	{
    repeatCount
= 0
u128
    //
    = false ; i64_
// trailing space 
// `tick` ""quote"" 'q'
= '0' ; //	t
}
")).
Eval vm_compute in ("<<<M1885>>>" ++ check (runes_of_ascii "MetaData
    u { }  options {
// c
// @lengthOf(
 = int8 ;rootA =false ; As =	int16 // `tick` ""quote"" 'q'
repeatCount
    // trailing space 
    =
    int16
; u8x =
    //	t
    '\x00' ; } options	{
    repeatCount
= 0
u128
    //
    = false ; i64_
// trailing space 
// `tick` ""quote"" 'q'
= '0' ; //	t
}
")).
Eval vm_compute in ("<<<M1995>>>" ++ check (runes_of_ascii "MetaData
    u { }  options {
// c
// @lengthOf(
float = int8 ;rootA =false ; As =	int16 // `tick` ""quote"" 'q'
repeatCount
    // trailing space 
    =
    int16
; u8x =
    //	t
    '\x00' ; } options	{
    
= 0
u128
    //
    = false ; i64_
// trailing space 
// `tick` ""quote"" 'q'
= '0' ; //	t
}
")).
Eval vm_compute in ("<<<M445>>>" ++ check (runes_of_ascii "packet  calculatedFrom { @calculatedFrom( ""a	b"" ) T // packet A { u8 x, }
{ zchar[ 0123456789 ]
    falsey `say ""hi""`
, match o as
    // " ++ [27880; 37322]%N ++ runes_of_ascii "
    matchKey {
    [ ""`tick`""	,
    //
    ""it's""
] :int , 1 :	float // a // b
, } ,string Foo @calculatedFrom( ""a\\""), // `tick` ""quote"" 'q'
} ,	}
")).
Eval vm_compute in ("<<<M61>>>" ++ check (runes_of_ascii "options
{  chars =
    /// triple
    char; o
    /// triple
    = true u128 =
    ""x y"" ;} packet	chars
    { @calculatedFrom( ""\n"" )repeat f64 packetx  ,  @tag(4294967296 ) float32 Header
, zchar[
007
]float `// not a comment`
    ,
    }
options  {
stringy = zchar[ 7 ] ;}")).
Eval vm_compute in ("<<<M39>>>" ++ check (runes_of_ascii "packet As
{//
@lengthOf(trueish ) uint8
    repeatCount	,
} options// c
{As =	""1""matchKey
=""x y"" ;
Packet = ' '  }MetaData repeatCount { string BodyLength `{ , }` , char[
    0123456789 ]//	t
trueish
    ,
uint16 A, u32 falsey `two words`
, } packet
float{// c
}

")).
Eval vm_compute in ("<<<M907>>>" ++ check (runes_of_ascii "packet asx {
@calculatedFrom( ""x y"" ) packetx	stringy ,	}MetaData As
{ int8
    float `" ++ [233]%N ++ runes_of_ascii "`,
int
uint8x, zchar[ 007  ] a1 `two words` ,
// a // b
/// triple
char[	10
]msg_type	, uint32 matchKey `say ""hi""` ,
// `tick` ""quote"" 'q'
//x
i32 zchar,
    } options {
}")).
Eval vm_compute in ("<<<M1493>>>" ++ check (runes_of_ascii "packet
//	t
// trailing space 
_x _x {
// packet A { u8 x, }
// c
char[
3
    ] u8x @lengthOf(
u8x ) , @calculatedFrom(""" ++ [128512]%N ++ runes_of_ascii """ // @lengthOf(
)
i16	Foo
@lengthOf(	string_
    )`doc`	, repeat	i64 metadata , @lengthOf( string_
) i8 // c
u  `line1
line2`	,
}
")).
Eval vm_compute in ("<<<M1649>>>" ++ check (runes_of_ascii "packet
//	t
// trailing space 
_x {
// packet A { u8 x, }
// c
char[
3
    ] u8x @lengthOf(
u8x ) , @calculatedFrom(""" ++ [128512]%N ++ runes_of_ascii """ // @lengthOf(
)
i16	Foo
@lengthOf(	string_
    )`doc`	, repeat	i64 metadata , @lengthOf( string_
) i8 // c
u  `line1
line2`	,
as
")).
Eval vm_compute in ("<<<M1564>>>" ++ check (runes_of_ascii "packet
//	t
// trailing space 
_x {
// packet A { u8 x, }
// c
char[
3
    ] u8x @lengthOf(
u8x ) , @calculatedFrom(""" ++ [128512]%N ++ runes_of_ascii """ // @lengthOf(
)
i16	@lengthOf(
Foo	string_
    )`doc`	, repeat	i64 metadata , @lengthOf( string_
) i8 // c
u  `line1
line2`	,
}
")).
Eval vm_compute in ("<<<M1577>>>" ++ check (runes_of_ascii "packet
//	t
// trailing space 
_x {
// packet A { u8 x, }
// c
char[
3
    ] u8x @lengthOf(
u8x ) , @calculatedFrom(""" ++ [128512]%N ++ runes_of_ascii """ // @lengthOf(
)
i16	Foo
@lengthOf(	string_
    `doc`	, repeat	i64 metadata , @lengthOf( string_
) i8 // c
u  `line1
line2`	,
}
")).
Eval vm_compute in ("<<<M3701>>>" ++ check (runes_of_ascii "
root
packet
    f32a{trueish falsey

    ,
tag

    ,
    repeat
	// trailing space 
	  Pad
{
	u32 i8i8
@calculatedFrom( 
""x y""),	}
,
@calculatedFrom(

""// no comment""
    )  @lengthOf(calculatedFrom

    )	@tag( 65535)
string T
	, }")).
Eval vm_compute in ("<<<M1545>>>" ++ check (runes_of_ascii "packet
//	t
// trailing space 
_x {
// packet A { u8 x, }
// c
char[
3
    ] u8x @lengthOf(
u8x ) , int16""" ++ [128512]%N ++ runes_of_ascii """ // @lengthOf(
)
i16	Foo
@lengthOf(	string_
    )`doc`	, repeat	i64 metadata , @lengthOf( string_
) i8 // c
u  `line1
line2`	,
}
")).
Eval vm_compute in ("<<<M4250>>>" ++ check (runes_of_ascii "packet
    i64_
	{ match tag

as

x
	{ """ ++ [128512]%N ++ runes_of_ascii """:

string_ ,

    ""a\\"" : rootA ,""abc""
:

pack , }

    , 
@tag(
    3
    )  // @lengthOf(
		string
    metadata
,  string	stringy

    `u8 x,`
    // @lengthOf(
// a // b

,}
")).
Eval vm_compute in ("<<<M1631>>>" ++ check (runes_of_ascii "packet
//	t
// trailing space 
_x {
// packet A { u8 x, }
// c
char[
3
    ] u8x @lengthOf(
u8x ) , @calculatedFrom(""" ++ [128512]%N ++ runes_of_ascii """ // @lengthOf(
)
i16	Foo
@lengthOf(	string_
    )`doc`	, repeat	i64 metadata , @lengthOf( string_
)")).
Eval vm_compute in ("<<<M1792>>>" ++ check (runes_of_ascii "options { trueish = ""`tick`"" ; string_= """ ++ [233]%N ++ runes_of_ascii "t" ++ [233]%N ++ runes_of_ascii """
    // c
    } root
    packet body { stringy @calculatedFrom(
""a	b"" ) `line1
line2` , }
packet Logon {
    @leftPad @leftPad(
    ' ' ) //	t
u16 string_ `u8 x,` ,
}
")).
Eval vm_compute in ("<<<M1840>>>" ++ check (runes_of_ascii "options { trueish = ""`tick`"" ; string_= """ ++ [233]%N ++ runes_of_ascii "t" ++ [233]%N ++ runes_of_ascii """
    // c
    } root
    packet body { stringy @calculat'\x01'edFrom(
""a	b"" ) `line1
line2` , }
packet Logon {
    @leftPad(
    ' ' ) //	t
u16 string_ `u8 x,` ,
}
")).
Eval vm_compute in ("<<<M1757>>>" ++ check (runes_of_ascii "options { trueish = ""`tick`"" ; string_= """ ++ [233]%N ++ runes_of_ascii "t" ++ [233]%N ++ runes_of_ascii """
    // c
    } root
    packet body { stringy @calculatedFrom(
""a	b"" ) ) `line1
line2` , }
packet Logon {
    @leftPad(
    ' ' ) //	t
u16 string_ `u8 x,` ,
}
")).
Eval vm_compute in ("<<<M1279>>>" ++ check (runes_of_ascii "MetaData stringy
    // trailing space 
    {  char[
42 ]
leftPad `tab	here` ,_x pack, char  zchar `// not a comment` ,	u8x repeatCount
    `say ""hi""`
,
    // `tick` ""quote"" 'q'
    pack uint8x `a\`  ,}
")).
Eval vm_compute in ("<<<M1808>>>" ++ check (runes_of_ascii "options { trueish = ""`tick`"" ; string_= """ ++ [233]%N ++ runes_of_ascii "t" ++ [233]%N ++ runes_of_ascii """
    // c
    } root
    packet body { stringy @calculatedFrom(
""a	b"" ) `line1
line2` , }
packet Logon {
    @leftPad(
    ' ' u16 //	t
) string_ `u8 x,` ,
}
")).
Eval vm_compute in ("<<<M1794>>>" ++ check (runes_of_ascii "options { trueish = ""`tick`"" ; string_= """ ++ [233]%N ++ runes_of_ascii "t" ++ [233]%N ++ runes_of_ascii """
    // c
    } root
    packet body { stringy @calculatedFrom(
""a	b"" ) `line1
line2` , }
packet Logon {
    false(
    ' ' ) //	t
u16 string_ `u8 x,` ,
}
")).
Eval vm_compute in ("<<<M1611>>>" ++ check (runes_of_ascii "packet
//	t
// trailing space 
_x {
// packet A { u8 x, }
// c
char[
3
    ] u8x @lengthOf(
u8x ) , @calculatedFrom(""" ++ [128512]%N ++ runes_of_ascii """ // @lengthOf(
)
i16	Foo
@lengthOf(	string_
    )`doc`	, repeat	i64 metadata")).
Eval vm_compute in ("<<<M4349>>>" ++ check (runes_of_ascii "
//
packet	int
    {  @leftPad	('\x00') MetaDataX @lengthOf( u128
    )

    ,u

    a1`doc`

    ,
	@calculatedFrom(
""a\""b""
    ) i16
repeatCount  // @lengthOf(

	`tab	here`  ,
    }")).
Eval vm_compute in ("<<<M4386>>>" ++ check (runes_of_ascii "packet A
{
u8 a ,	}
	packet
B
{
u16

    b

,}root packet
    P {
u8 K1

    , 
u8 K2,
    match
    K1 as  M1
{ 
1

    :A 
, },	match	K2 as
M2
{
    1	:B

, }

    ,
}

")).
Eval vm_compute in ("<<<M187>>>" ++ check (runes_of_ascii "root packet u128 { char[  7 ]tag@calculatedFrom(
""\" ++ [233]%N ++ runes_of_ascii """
    ) // " ++ [128512]%N ++ runes_of_ascii " emoji
`" ++ [233]%N ++ runes_of_ascii "`, @rightPad ( )
    packetx , @lengthOf(  o
    )	lengthOf
@lengthOf( float )
`// not a comment`,
}
")).
Eval vm_compute in ("<<<M742>>>" ++ check (runes_of_ascii "options { packetx
=zchar[4294967296 ] ; }
options {	} MetaData uint8x {char[ 3 ]	o `
`
// a // b
// `tick` ""quote"" 'q'
, crc string_ ,
    char[]
int,// trailing space 
}")).
Eval vm_compute in ("<<<M339>>>" ++ check (runes_of_ascii "//
packet
int {@leftPad (
    '\x00' ) MetaDataX @lengthOf( u128 ) ,u
    a1 `doc` ,
    @calculatedFrom(
    ""a\""b"") i16 repeatCount // @lengthOf(
`tab	here`
, }")).
Eval vm_compute in ("<<<M473>>>" ++ check (runes_of_ascii "packet
    o {  asx @calculatedFrom( ""CRC32""	)// " ++ [27880; 37322]%N ++ runes_of_ascii "
`it's`
    ,// @lengthOf(
@tag( 255 )
int16 T	, string
msg_type `
`
, } // trailing space 
packet Z9_ {	}
")).
Eval vm_compute in ("<<<M1174>>>" ++ check (runes_of_ascii "packet  charz { // packet A { u8 x, }
repeat len packetx  , }
options{string_=false
    ;crc=007
; _x = ""a	b""
// " ++ [128512]%N ++ runes_of_ascii " emoji
// trailing space 
;Z9_ = int16 }
")).
Eval vm_compute in ("<<<M2392>>>" ++ check (runes_of_ascii "// c
packet x { @lengthOf( metadata ) repeat lengthOf
,a1{
trueish	,// c
repeat//	t
MetaDataX , } , zchar[
    42	] rootA // `tick` ""quote"" 'q'
,
    } }
")).
Eval vm_compute in ("<<<M2170>>>" ++ check (runes_of_ascii "options{
_x
= true
} options
{ o	= /// triple
false
    ; chars
= ""\n"" } root packet	Pad
/// triple
// packet A { u8 x, }
{ {	chars
    // a // b
    ,}")).
Eval vm_compute in ("<<<M2186>>>" ++ check (runes_of_ascii "options{
_x
= true
} options
{ o	= /// triple
false
    ; chars
= ""\n"" } root packet	Pad
/// triple
// packet A { u8 x, }
{	chars
    // a // b
    ,as")).
Eval vm_compute in ("<<<M2121>>>" ++ check (runes_of_ascii "options{
_x
= true
} options
{ o	false /// triple
=
    ; chars
= ""\n"" } root packet	Pad
/// triple
// packet A { u8 x, }
{	chars
    // a // b
    ,}")).
Eval vm_compute in ("<<<M2157>>>" ++ check (runes_of_ascii "options{
_x
= true
} options
{ o	= /// triple
false
    ; chars
= ""\n"" } '0' packet	Pad
/// triple
// packet A { u8 x, }
{	chars
    // a // b
    ,}")).
Eval vm_compute in ("<<<M2094>>>" ++ check (runes_of_ascii "options{
_x
= 
} options
{ o	= /// triple
false
    ; chars
= ""\n"" } root packet	Pad
/// triple
// packet A { u8 x, }
{	chars
    // a // b
    ,}")).
Eval vm_compute in ("<<<M3708>>>" ++ check (runes_of_ascii "  packet A {

    match
k as
    n

{
[""a"",
	""bb"",

007
,
	""d""	,
""e""
	,
	66, ""g"" ,  ""h"" 
,
	9
,""j"",

    ""k""
]
:

    B
, 2:	C
	} ,  }

")).
Eval vm_compute in ("<<<M594>>>" ++ check (runes_of_ascii "packet
i8i8 {int32 As, options1{
    repeat
int{
    //
    uint16
u, // a // b
zchar`say ""hi""`
// " ++ [128512]%N ++ runes_of_ascii " emoji
//	t
,
char[] trueish , }, } ,
}")).
Eval vm_compute in ("<<<M788>>>" ++ check (runes_of_ascii "MetaData //x
matchKey {u calculatedFrom, } root packet u128 {string BodyLength @lengthOf( u8x ) , int @lengthOf( f32a ) `" ++ [28040; 24687; 31867; 22411]%N ++ runes_of_ascii "`
    , } 	 ")).
Eval vm_compute in ("<<<M12>>>" ++ check (runes_of_ascii "packet
    charz //
{ @rightPad( '0')
repeat
    //x
    Packet//x
msg_type `" ++ [233]%N ++ runes_of_ascii "`	, } options {repeatCount
= false falsey  = int64
}")).
Eval vm_compute in ("<<<M787>>>" ++ check (runes_of_ascii "packet MetaDataX
    //
    { @calculatedFrom( ""it's""
    )	repeat int8 u128
// packet A { u8 x, }
//	t
`// not a comment`
, }")).
Eval vm_compute in ("<<<M1450>>>" ++ check (runes_of_ascii "
packet
    falsey { Header@calculatedFrom(""packet""  ) , char[
    0123456789 options packetx
    , } // `tick` ""quote"" 'q'")).
Eval vm_compute in ("<<<M3314>>>" ++ check (runes_of_ascii "root packet // c
matchKey { zchar[ 3 ] pack @calculatedFrom( ""a	b"" ) `doc` , } options { } MetaData A { int8 msg_type , }")).
Eval vm_compute in ("<<<M3346>>>" ++ check (runes_of_ascii "root packet matchKey { zchar[ 3 ] pack @calculatedFrom( ""a	b"" ) `doc` , } options { } MetaData // c
A { int8 msg_type , }")).
Eval vm_compute in ("<<<M3683>>>" ++ check (runes_of_ascii "root packet  u  { @leftPad 
(
    ' ' 
	    // packet A { u8 x, }
	) char[ 7 ] msg_type
	@lengthOf(
Header	)
    ,}
")).
Eval vm_compute in ("<<<M1439>>>" ++ check (runes_of_ascii "
packet
    falsey { Header@calculatedFrom(""packet""  ) , 0123456789
    char[ ] packetx
    , } // `tick` ""quote"" 'q'")).
Eval vm_compute in ("<<<M2189>>>" ++ check (runes_of_ascii "options{
_x
= true
} options
{ o	= /// triple
false
    ; chars
= ""\n"" } root packet	Pad
/// triple
// packet A {")).
Eval vm_compute in ("<<<M589>>>" ++ check (runes_of_ascii "
options
    {
} MetaData u8x{	i32 int // a // b
, i64 A ,
    o Z9_ `tab	here`
    ,
    // @lengthOf(
    }
")).
Eval vm_compute in ("<<<M3843>>>" ++ check (runes_of_ascii "

  packet
o{ repeat
    Logon

    uint8x,

}options{asx
	=
    zchar[  3 
]
	stringy =  '\x00'	// c
	}
")).
Eval vm_compute in ("<<<M2992>>>" ++ check (runes_of_ascii "packet A {
  match k as n {
    [1, ""bb"", 007, ""d"", 5, ""f"", 7, ""h"", 9, ""j"", 11, ""l""] : B,
    2 : C
  },
}")).
Eval vm_compute in ("<<<M3010>>>" ++ check (runes_of_ascii "packet A {
    Inner {
        u8 x `a
b`,
        Deep {
            u8 y `a
b`,
        },
    },
}")).
Eval vm_compute in ("<<<M3603>>>" ++ check (runes_of_ascii "  packet
    FooBar
{
u8

a
, }	packet

foo_bar{
u16  b	,}
root
packet R

{
	FooBar 
, foo_bar,} ")).
Eval vm_compute in ("<<<M2988>>>" ++ check (runes_of_ascii "packet A {
  match k as n {
    [1, 22, 007, 4, 5, 66, 7, 8, 9, 10, 11, 12] : B,
    2 : C
  },
}")).
Eval vm_compute in ("<<<M317>>>" ++ check (runes_of_ascii "packet
crc { @lengthOf( falsey )Packet /// triple
`crlf
line`
    // trailing space 
    ,
}
")).
Eval vm_compute in ("<<<M2925>>>" ++ check (runes_of_ascii "packet A {
  match k as n {
    [""a"", ""bb"", ""c c"", ""d"", ""e"", ""f"", ""g""] : B,
    2 : C
  },
}")).
Eval vm_compute in ("<<<M3305>>>" ++ check (runes_of_ascii "MetaData float { float64 charz `
` , } root packet chars { @rightPad ( '0' ) Foo , } // c
")).
Eval vm_compute in ("<<<M3282>>>" ++ check (runes_of_ascii "MetaData float { float64 charz `
` ,
// c
} root packet chars { @rightPad ( '0' ) Foo , }")).
Eval vm_compute in ("<<<M3493>>>" ++ check (runes_of_ascii "packet chars { } packet // c
MetaDataX { @tag( 42 ) i16 string_ , repeat x `say ""hi""` , }")).
Eval vm_compute in ("<<<M2213>>>" ++ check (runes_of_ascii "options
{ { } options { BodyLength= u16 Header= f64 ; u128 =
    true
    ; } // a // b")).
Eval vm_compute in ("<<<M2300>>>" ++ check (runes_of_ascii "options
{ } options { BodyLength= u16 Header|= f64 ; u128 =
    true
    ; } // a // b")).
Eval vm_compute in ("<<<M2229>>>" ++ check (runes_of_ascii "options
{ } options ) BodyLength= u16 Header= f64 ; u128 =
    true
    ; } // a // b")).
Eval vm_compute in ("<<<M3232>>>" ++ check (runes_of_ascii "packet metadata { Logon { A `" ++ [28040; 24687; 31867; 22411]%N ++ runes_of_ascii "` , tag o
// c
, } , zchar len `// not a comment` , }")).
Eval vm_compute in ("<<<M2261>>>" ++ check (runes_of_ascii "options
{ } options { BodyLength= u16 Header= f64  u128 =
    true
    ; } // a // b")).
Eval vm_compute in ("<<<M3452>>>" ++ check (runes_of_ascii "packet o { repeat Logon uint8x , } options { asx =
// c
zchar[ 3 ] stringy = '\x00' }")).
Eval vm_compute in ("<<<M832>>>" ++ check (runes_of_ascii "options
{A =
char ; } MetaData// @lengthOf(
metadata { crc matchKey `u8 x,` ,
    }")).
Eval vm_compute in ("<<<M3397>>>" ++ check (runes_of_ascii "MetaData body
// c
{ i64 pack `it's` , } packet stringy { int16 calculatedFrom , }")).
Eval vm_compute in ("<<<M2900>>>" ++ check (runes_of_ascii "packet A {
  match k as n {
    [""a"", ""bb"", ""c c"", ""d"", ""e""] : B
    2 : C
  },
}")).
Eval vm_compute in ("<<<M3000>>>" ++ check (runes_of_ascii "packet A { Inner { match k as n { [1,22,007,4,5,66,7,8,9,10,11,12] : B, }, }, }")).
Eval vm_compute in ("<<<M885>>>" ++ check (runes_of_ascii "
packet msg_type { @tag(// " ++ [27880; 37322]%N ++ runes_of_ascii "
00 //	t
)
zchar[ 0123456789 ] //	t
rootA	, }")).
Eval vm_compute in ("<<<M738>>>" ++ check (runes_of_ascii "MetaData Foo { char[ 4294967296  ] BodyLength
    //
    `tab	here`
, }
")).
Eval vm_compute in ("<<<M4356>>>" ++ check (runes_of_ascii "

  packet  A
{ u8
x , }	// a
// b
	packet
B {
    }// c
    // d
 
")).
Eval vm_compute in ("<<<M2750>>>" ++ check (runes_of_ascii ") u64 @calculatedFrom( '0' match } packet root float @rightPad { 42")).
Eval vm_compute in ("<<<M490>>>" ++ check (runes_of_ascii "MetaData pack{
    }
packet i64_ {
    uint16 T , // a // b
} 	 ")).
Eval vm_compute in ("<<<M302>>>" ++ check (runes_of_ascii "
packet
    // a // b
    matchKey{ @tag(//
0 ) repeat u ,}

")).
Eval vm_compute in ("<<<M2280>>>" ++ check (runes_of_ascii "options
{ } options { BodyLength= u16 Header= f64 ; u128 =")).
Eval vm_compute in ("<<<M3372>>>" ++ check (runes_of_ascii "packet x { @rightPad
// c
( ) repeat roots Logon `doc` , }")).
Eval vm_compute in ("<<<M4209>>>" ++ check (runes_of_ascii "MetaData M {
    u8 x `
        `,
    T t `
        `,
}")).
Eval vm_compute in ("<<<M1172>>>" ++ check (runes_of_ascii "options
    { Logon
= ' ' } MetaData
BodyLength{  }
")).
Eval vm_compute in ("<<<M3169>>>" ++ check (runes_of_ascii "packet A { B { // a
 u8 x, // b
 } // c
 , // d
 }")).
Eval vm_compute in ("<<<M3011>>>" ++ check (runes_of_ascii "MetaData M {
    u8 x `a
b`,
    T t `a
b`,
}")).
Eval vm_compute in ("<<<M2836>>>" ++ check (runes_of_ascii "u16 options zchar[ char[] match i32 42 repeat")).
Eval vm_compute in ("<<<M3041>>>" ++ check (runes_of_ascii "MetaData M {
    u8 x `
x`,
    T t `
x`,
}")).
Eval vm_compute in ("<<<M448>>>" ++ check (runes_of_ascii "  MetaData chars { len metadata ,
    }
")).
Eval vm_compute in ("<<<M1357>>>" ++ check (runes_of_ascii "
packet /// triple
BodyLength
{
    }
")).
Eval vm_compute in ("<<<M3159>>>" ++ check (runes_of_ascii "MetaData M {
}// c
MetaData N {
}// d")).
Eval vm_compute in ("<<<M2362>>>" ++ check (runes_of_ascii "// c
packet x { @lengthOf( metadata")).
Eval vm_compute in ("<<<M3030>>>" ++ check (runes_of_ascii "root packet A {
    u8 x `a

b`,
}")).
Eval vm_compute in ("<<<M2566>>>" ++ check (runes_of_ascii "packet A { repeat repeat u8 x, }")).
Eval vm_compute in ("<<<M1469>>>" ++ check (runes_of_ascii "
packet
    falsey { Header@ca")).
Eval vm_compute in ("<<<M1247>>>" ++ check (runes_of_ascii "options { lengthOf	=7;
    }
")).
Eval vm_compute in ("<<<M2624>>>" ++ check (runes_of_ascii "packet A { @leftPad u8 x, }")).
Eval vm_compute in ("<<<M3262>>>" ++ check (runes_of_ascii "root packet pack { } // c
")).
Eval vm_compute in ("<<<M1141>>>" ++ check (runes_of_ascii "root packet len
    { }
")).
Eval vm_compute in ("<<<M2564>>>" ++ check (runes_of_ascii "packet A { repeat u8 }")).
Eval vm_compute in ("<<<M2645>>>" ++ check (runes_of_ascii "MetaData M { u8 x, }")).
Eval vm_compute in ("<<<M2670>>>" ++ check (runes_of_ascii "options options { }")).
Eval vm_compute in ("<<<M2725>>>" ++ check (runes_of_ascii "Sq]fX""YE68*gwilIN=")).
Eval vm_compute in ("<<<M3136>>>" ++ check (runes_of_ascii "// c" ++ [65279]%N ++ runes_of_ascii "
packet A {
}")).
Eval vm_compute in ("<<<M3098>>>" ++ check (runes_of_ascii "packet A {
}// c" ++ [8233]%N)).
Eval vm_compute in ("<<<M2494>>>" ++ check (runes_of_ascii "@calculatedFrom")).
Eval vm_compute in ("<<<M929>>>" ++ check (runes_of_ascii "
// " ++ [128512]%N ++ runes_of_ascii " emoji
")).
Eval vm_compute in ("<<<M2541>>>" ++ check (runes_of_ascii ":,;=()[]{}")).
Eval vm_compute in ("<<<M3730>>>" ++ check (runes_of_ascii "// " ++ [27880; 37322]%N ++ runes_of_ascii "
 
")).
Eval vm_compute in ("<<<M2452>>>" ++ check (runes_of_ascii "falsey")).
Eval vm_compute in ("<<<M2490>>>" ++ check (runes_of_ascii "@tag(")).
Eval vm_compute in ("<<<M2448>>>" ++ check (runes_of_ascii "true")).
Eval vm_compute in ("<<<M2472>>>" ++ check (runes_of_ascii "' '")).
Eval vm_compute in ("<<<M2440>>>" ++ check (runes_of_ascii "u8")).
Eval vm_compute in ("<<<M2676>>>" ++ check (runes_of_ascii "x")).
