From FP Require Import Lexer Parser ShowPT Digest Formatter.
From Coq Require Import String List NArith.
Import ListNotations.
Open Scope string_scope.
Set Printing Width 100000000.
Set Printing Depth 100000000.
Definition show_fres (r : fres) : string :=
  match r with
  | FOk s => "OK:" ++ sh_escaped s ""
  | FErr s => "ERR:" ++ sh_escaped s ""
  | FPanic p => "PANIC:" ++ p
  end.
Definition check (rs : list rune) : string := digest (show_fres (format_res rs)).
Definition full (rs : list rune) : string := show_fres (format_res rs).
Eval vm_compute in ("<<<M3617>>>" ++ check (runes_of_ascii "// top
options // c0
{ // c1a
  // c1b
LittleEndian = // c3
true // c4a
  // c4b
;
    // c5
StringPrefixLenType // c6a
  // c6b
= // c7a
  // c7b
u16 // c8a
  // c8b
; // c9
ArrayPrefixLenType // c10a
  // c10b
= // c11a
  // c11b
u8 // c12a
  // c12b
;
    // c13
FixedStringPadChar // c14
= '0' // c16a
  // c16b
;
    // c17
} // c18
packet Logout
    // c20
{
    // c21
repeat
    // c22
i16 // c23
f1
    // c24
,
    // c25
string // c26a
  // c26b
Ref // c27
, // c28a
  // c28b
@rightPad // c29
( '\x00' // c31
)
    // c32
char[ // c33a
  // c33b
9
    // c34
]
    // c35
Tail , // c37a
  // c37b
repeat // c38
char[ 6
    // c40
] // c41
Flags // c42a
  // c42b
, // c43
repeat
    // c44
char[ // c45
3 // c46
] // c47
Acct , }
    // c50
packet Party // c52a
  // c52b
{ // c53a
  // c53b
char[ 2
    // c55
]
    // c56
f1
    // c57
,
    // c58
u8
    // c59
Side2
    // c60
, // c61a
  // c61b
@leftPad // c62
(
    // c63
' '
    // c64
) // c65
char[ // c66a
  // c66b
1 ] // c68a
  // c68b
venue , // c70
} packet
    // c72
Order // c73a
  // c73b
{ // c74a
  // c74b
repeat // c75
i64 Ref , InPx62 { i32 // c81
OrderId , // c83
} ,
    // c85
InNote53 // c86a
  // c86b
{ // c87
InClordid80
    // c88
{
    // c89
char[] Acct // c91a
  // c91b
, u32
    // c93
Px , // c95a
  // c95b
repeat // c96a
  // c96b
Party // c97
, // c98
} , // c100a
  // c100b
InPrice12 { u8 // c103a
  // c103b
pad0 , // c105a
  // c105b
} // c106a
  // c106b
, repeat // c108a
  // c108b
Logout ,
    // c110
InFlags23 // c111a
  // c111b
{ // c112a
  // c112b
repeat string
    // c114
seqNo // c115a
  // c115b
, // c116a
  // c116b
string // c117
sym // c118
, // c119a
  // c119b
int8 // c120a
  // c120b
Flags
    // c121
, // c122a
  // c122b
zchar[ // c123a
  // c123b
5 // c124
] // c125
lastPx // c126a
  // c126b
, // c127a
  // c127b
zchar[
    // c128
6
    // c129
] // c130a
  // c130b
Px
    // c131
, // c132a
  // c132b
} // c133a
  // c133b
, // c134a
  // c134b
char[ 10 ] Acct // c138a
  // c138b
,
    // c139
InPx18 // c140
{ zchar[
    // c142
2 // c143
] // c144a
  // c144b
count , Party
    // c147
,
    // c148
} // c149a
  // c149b
, } // c151a
  // c151b
, // c152a
  // c152b
char[
    // c153
5
    // c154
]
    // c155
Side2
    // c156
, // c157a
  // c157b
char[ // c158
1 // c159
] // c160a
  // c160b
Acct // c161
, } // c163a
  // c163b
root // c164a
  // c164b
packet // c165
Ack // c166
{ // c167
u32 // c168
Tail // c169
, repeat // c171a
  // c171b
char[ // c172
4 // c173
] // c174
msgKind // c175a
  // c175b
, repeat // c177a
  // c177b
Logout // c178
, } // c180
")).
Eval vm_compute in ("<<<M837>>>" ++ check (runes_of_ascii "/// triple
packet  options1
    { @leftPad( '\x00'	) @rightPad( )	@rightPad
(	'0' ) repeat BodyLength	{a1  falsey`u8 x,`//x
,} , float32 calculatedFrom,	match trueish as
    len{ ""a	b"" : //x
Packet 7  :options1 ,
7
// trailing space 
//x
: _x , [ ""`tick`"" , 3,""" ++ [128512]%N ++ runes_of_ascii """	,
// packet A { u8 x, }
// @lengthOf(
1
, """ ++ [28040; 24687]%N ++ runes_of_ascii """,
    0123456789 ,
""{,}""
    ,
    ""1""]
:
    pack  , ""CRC32"": i8i8 , ""// no comment"" : trueish } ,metadata
rootA `" ++ [28040; 24687; 31867; 22411]%N ++ runes_of_ascii "` , i32
x_y_z `two words` ,
    repeat i32 x_y_z
`" ++ [28040; 24687; 31867; 22411]%N ++ runes_of_ascii "`  ,
@leftPad
    ( '0' ) @leftPad( '0'
    )x @calculatedFrom(
/// triple
// trailing space 
""\n"" ) `{ , }` ,
@tag( 1 )
    //
    repeat u32 asx
    ,	u8x @lengthOf( packetx
)`two words` , } packet int{
    zchar[
// `tick` ""quote"" 'q'
// c
65535
] leftPad
, @lengthOf( /// triple
repeatCount
    ) @tag( 0123456789 )match
    lengthOf  as // a // b
calculatedFrom { [ ""a\\""
] :
    trueish
,
""x y"" : A, """ ++ [233]%N ++ runes_of_ascii "t" ++ [233]%N ++ runes_of_ascii """ :
options1 , }
    , string
    uint8x
`it's` ,
    repeat uint16
u8x  , } packet zchar
{ // a // b
zchar[ 255 ]
    chars @calculatedFrom(  ""packet"" ) ,	match
    BodyLength as //x
x_y_z
    { ""\n"" :u128 , 00 :Packet
,
}
    ,@leftPad
( '\x00'
)repeat o
{ Z9_ @lengthOf(asx )
, }
    , // trailing space 
@calculatedFrom(""" ++ [28040; 24687]%N ++ runes_of_ascii """ )repeat
    // `tick` ""quote"" 'q'
    u64 trueish , i32
charz,x	`tab	here`
,
    string // c
u128// a // b
`// not a comment` ,
len {
match chars as Foo
// @lengthOf(
// packet A { u8 x, }
{
    """":u""packet"" : matchKey , ""// no comment"" :
packetx [
65535
,""it's"", """ ++ [128512]%N ++ runes_of_ascii """ , 0123456789 // trailing space 
, ""a\\"" ,  ""a\\"" ,""" ++ [28040; 24687]%N ++ runes_of_ascii """ ,
    ""{,}""  ]:
len,
    // " ++ [27880; 37322]%N ++ runes_of_ascii "
    ""\" ++ [233]%N ++ runes_of_ascii """: msg_type , ""abc"":
o // @lengthOf(
} ,} ,
@calculatedFrom( """" ) match // trailing space 
falsey
    as calculatedFrom
    { // `tick` ""quote"" 'q'
[
    1
, """ ++ [233]%N ++ runes_of_ascii "t" ++ [233]%N ++ runes_of_ascii """ ]
    : body , ""`tick`""
: calculatedFrom , 3
    :  x_y_z ,""it's"":Packet ,[ 007  ] : Foo , """ ++ [128512]%N ++ runes_of_ascii """ : Foo ,} , // " ++ [27880; 37322]%N ++ runes_of_ascii "
match leftPad as stringy {
""a\\""  : T,
} , }")).
Eval vm_compute in ("<<<M352>>>" ++ check (runes_of_ascii "MetaData	matchKey
{ float64	string_, string pack`doc`	,Foo float `` ,x chars
    `crlf
line`
    ,
} packet Header { float64 lengthOf //x
@lengthOf(
    calculatedFrom ) `crlf
line` , zchar[1 ]
int @lengthOf( int),u8  string_,
//x
// c
@tag(3 // packet A { u8 x, }
) @tag( 10 // c
)
i64_
    // " ++ [128512]%N ++ runes_of_ascii " emoji
    {repeat	i16 body
    //x
    `crlf
line` , f64 repeatCount @lengthOf( x_y_z )
    , x{ char[ 0 ]// a // b
int , }
, match u128
    as
    MetaDataX { [ 007 ,
    //x
    ""// no comment"" ] : string_,
// a // b
// trailing space 
0 : int,  [  42 , ""`tick`"" , 0123456789
, ""\" ++ [233]%N ++ runes_of_ascii """  , ""1"", ""packet"" , 255
, ""{,}"" ]:	crc ,
0123456789  :	rootA [ ""\n"" ] :
    // packet A { u8 x, }
    charz , [ ""packet"", 10 ]
:T , }
, }//
, // packet A { u8 x, }
repeat
zchar[ 007  ]matchKey `crlf
line` ,
    @rightPad // `tick` ""quote"" 'q'
(
    '0' )
    // `tick` ""quote"" 'q'
    repeat char[ 00	]
pack`{ , }` , // " ++ [27880; 37322]%N ++ runes_of_ascii "
i8i8
, f32a
    { u128
    packetx , MetaDataX msg_type ,
char[ 65535] falsey `" ++ [28040; 24687; 31867; 22411]%N ++ runes_of_ascii "`
, }
    , } packet uint8x { uint32 msg_type`u8 x,` , char[ 65535 ] // c
o // trailing space 
`u8 x,` , @rightPad
( '\x00' )
int @lengthOf( int )`crlf
line` ,}packet Logon{ char[] string_ ,
    string repeatCount// trailing space 
@lengthOf( _x
)
    // packet A { u8 x, }
    ,  @calculatedFrom( ""\" ++ [233]%N ++ runes_of_ascii """ )@lengthOf( trueish) @tag(
//
// `tick` ""quote"" 'q'
007 ) i8
    a1
@lengthOf(
BodyLength
) `it's` ,	@rightPad ( ' ') @calculatedFrom(
    ""{,}"" // c
) @lengthOf(
    // `tick` ""quote"" 'q'
    zchar
// c
//	t
) repeat
    _x {
    len
, repeat	uint16
    /// triple
    trueish `say ""hi""` , u16 roots `two words` ,},} // `tick` ""quote"" 'q'")).
Eval vm_compute in ("<<<M3886>>>" ++ check (runes_of_ascii "// top
    options 
// c0

{  // c1a
  // c1b
	LittleEndian 	 // c2
      = // c3
false	// c4a

// c4b
;
// c5

ArrayPrefixLenType // c6a
  // c6b
		=

    u8
	; 	 // c9
    	FixedStringPadChar  
  // c10

	=  // c11
  	'0'

    // c12
  ; // c13a
		// c13b
}
// c14
  packet // c15
    Order	// c16a
    // c16b
	{

    InNote94  // c18
	  {// c19
f32	// c20
	f1 
	// c21

,
    // c22
f64 Side2  // c24
	  , 	 // c25
    	repeat 	 // c26a
	// c26b
	InTail47// c27a
    	// c27b
		{	// c28a
	// c28b

char[] // c29a

// c29b
		seqNo ,	// c31
    char[] Tail

    ,// c34a
	// c34b
char[]	// c35
	lastPx 
// c36
  , 
    // c37

} ,
}	// c40a

// c40b
	, 
  // c41
zchar[7	// c43
	]
    f1  // c45
  	,	// c46
    u8	// c47a
// c47b
	Side2  ,// c49
  }// c50a
	// c50b
	root
	packet	// c52
    Reject	// c53a
    // c53b
	{ 

    // c54

repeat  // c55a
// c55b
	char[// c56a
  // c56b
4
	// c57
	]// c58
Flags
// c59
  , // c60
	InPrice63  {
InSeqno41 {	repeat  // c65a
    	// c65b
	i8 
OrderId

// c67
  ,
repeat 	 // c69a

	// c69b
      i32 // c70a
		// c70b
  	clOrdID
    // c71
  , char[ // c73
	9
// c74
  	] tag7	// c76
,	// c77a
	  // c77b
	  char[]// c78a
// c78b
lastPx// c79a

  // c79b
, 	 // c80
		} 	 // c81
,  // c82a
    // c82b
	Order , 	 // c84a
  	// c84b
  uint8 Side2  
      // c86
  ,// c87a
	  // c87b
	}

    , 
    // c89
  } 
  // c90
 
")).
Eval vm_compute in ("<<<M3630>>>" ++ check (runes_of_ascii "// top
options
    // c0
{ StringPrefixLenType // c2a
  // c2b
= // c3
u8 // c4a
  // c4b
;
    // c5
ArrayPrefixLenType
    // c6
= u32 // c8
; // c9a
  // c9b
} packet
    // c11
Quote // c12a
  // c12b
{ // c13
u32 // c14
Ref , // c16
InNote74 { // c18
u8 // c19
pad0
    // c20
, // c21a
  // c21b
} ,
    // c23
}
    // c24
packet Ack { // c27a
  // c27b
repeat // c28a
  // c28b
string // c29
OrderId
    // c30
, } // c32
packet // c33a
  // c33b
Logout // c34a
  // c34b
{
    // c35
zchar[ // c36
7 ] // c38
venue , // c40
char[ // c41a
  // c41b
12
    // c42
]
    // c43
Px
    // c44
, // c45
string // c46
count // c47a
  // c47b
,
    // c48
char[] Tail // c50a
  // c50b
,
    // c51
char[] // c52a
  // c52b
Qty // c53a
  // c53b
, // c54a
  // c54b
Quote // c55
, // c56
} root packet
    // c59
Trade
    // c60
{
    // c61
zchar[
    // c62
2
    // c63
]
    // c64
price , // c66
u32 // c67
x // c68a
  // c68b
, // c69a
  // c69b
u32 // c70
lastPx @lengthOf(
    // c72
Body
    // c73
) // c74
,
    // c75
match // c76a
  // c76b
x // c77
as Body // c79a
  // c79b
{ // c80
148
    // c81
: // c82a
  // c82b
Ack // c83a
  // c83b
, 171
    // c85
: // c86a
  // c86b
Quote // c87
, 15
    // c89
: // c90
Logout
    // c91
, // c92a
  // c92b
} // c93
,
    // c94
} ")).
Eval vm_compute in ("<<<M1183>>>" ++ check (runes_of_ascii "options {
    trueish
=// a // b
'0'
/// triple
//
;} options  { x_y_z
    =	'0'
u
= true;
    asx
= ""a	b"" ;
u128= 4294967296  len
=
    true
    ;	} packet u128 { A  { f32 repeatCount
@lengthOf(
    tag) , u32 tag , } ,
// " ++ [128512]%N ++ runes_of_ascii " emoji
// " ++ [128512]%N ++ runes_of_ascii " emoji
repeat
zchar
    zchar`u8 x,` , match
    u as	a1 { [ // " ++ [128512]%N ++ runes_of_ascii " emoji
""a\""b"" ,""" ++ [28040; 24687]%N ++ runes_of_ascii """]: Z9_ , 10 :int ,	[ ""\n"" , ""CRC32"" , 007
,
// " ++ [128512]%N ++ runes_of_ascii " emoji
// " ++ [128512]%N ++ runes_of_ascii " emoji
""" ++ [28040; 24687]%N ++ runes_of_ascii """ ,
""packet""
// " ++ [27880; 37322]%N ++ runes_of_ascii "
// `tick` ""quote"" 'q'
, 255 ,
    //
    1 ,
    255 ]  : matchKey
, }//
, char[/// triple
10 ]Z9_ // trailing space 
@calculatedFrom( """ ++ [128512]%N ++ runes_of_ascii """ )  `" ++ [28040; 24687; 31867; 22411]%N ++ runes_of_ascii "`,
    }
packet o{ match i64_
    as crc
{ ""CRC32"" : MetaDataX // trailing space 
, }
, a1 @lengthOf( Pad ) ,
packetx @calculatedFrom(
""" ++ [28040; 24687]%N ++ runes_of_ascii """
    // " ++ [27880; 37322]%N ++ runes_of_ascii "
    ) // a // b
`{ , }`
,
a1 { Packet // trailing space 
@lengthOf( T	) `two words`, metadata
{ match crc
as matchKey{
[""CRC32"" ,
""// no comment"", ""CRC32"" ,
    65535 ]
    :zchar 3: i64_ ,
} , repeat
stringy , }, x_y_z Pad// " ++ [128512]%N ++ runes_of_ascii " emoji
,
}
,
    zchar[	1
    ] i64_ @calculatedFrom( ""// no comment""
)
    , @rightPad ( ' '// packet A { u8 x, }
)
//
// " ++ [128512]%N ++ runes_of_ascii " emoji
i8 float
@lengthOf( //x
tag )	,
    @tag(  255  )
    match rootA as
    A { ""`tick`"" : asx,  } ,}")).
Eval vm_compute in ("<<<M1391>>>" ++ check (runes_of_ascii "options {
	StringPrefixLenType = u16;
	ArrayPrefixLenType = u16;
}

packet SampleBinary {
	uint16 MsgType `" ++ [28040; 24687; 31867; 22411]%N ++ runes_of_ascii "`,
	u16 BodyLenght @lengthOf(Body) `" ++ [28040; 24687; 20307; 38271; 24230]%N ++ runes_of_ascii "`,
	match MsgType as Body {
		1 : Logon,
		2 : Logout,
		3 : Heartbeat,
		4 : RiskControlRequest,
		5 : RiskControlResponse,
	},
		@calculatedFrom(""CRC32"")
	u32 Ckecksum `" ++ [26657; 39564; 21644]%N ++ runes_of_ascii "`,
}

packet Logon {
	 @leftPad('0')
	char[10] UserName `" ++ [29992; 25143; 21517]%N ++ runes_of_ascii "`,
	string Password `" ++ [23494; 30721]%N ++ runes_of_ascii "`,
	uint64 ClientId `" ++ [23458; 25143; 31471]%N ++ runes_of_ascii "ID`,
	u16 HeartbeatInterval `" ++ [24515; 36339; 38388; 38548]%N ++ runes_of_ascii "`,
}

packet Logout {
	  @rightPad('0')
	char[10] UserName `" ++ [29992; 25143; 21517]%N ++ runes_of_ascii "`,
	uint64 ClientId `" ++ [23458; 25143; 31471]%N ++ runes_of_ascii "ID`,
}

packet Heartbeat {
}

packet RiskControlRequest {
	string UniqueOrderId `" ++ [21807; 19968; 35746; 21333; 21495]%N ++ runes_of_ascii "`,
	char[16] ClOrdID `" ++ [23458; 25143; 35746; 21333; 21495]%N ++ runes_of_ascii "`,
	char[3] MarketID `" ++ [24066; 22330]%N ++ runes_of_ascii "id`,
	char[12] SecurityID `" ++ [35777; 21048; 20195; 30721]%N ++ runes_of_ascii "`,
	char Side `" ++ [20080; 21334; 26041; 21521]%N ++ runes_of_ascii "`,
	char OrderType `" ++ [35746; 21333; 31867; 22411]%N ++ runes_of_ascii "`,
	u64 Price `" ++ [20215; 26684]%N ++ runes_of_ascii "`,
	u32 Qty `" ++ [25968; 37327]%N ++ runes_of_ascii "`,
	repeat string ExtraInfo `" ++ [38468; 21152; 20449; 24687]%N ++ runes_of_ascii "`,
	repeat SubOrder {
			char[16] ClOrdID `" ++ [23376; 35746; 21333; 21495]%N ++ runes_of_ascii "`,
			u64 Price `" ++ [23376; 35746; 21333; 20215; 26684]%N ++ runes_of_ascii "`,
			u32 Qty `" ++ [23376; 35746; 21333; 25968; 37327]%N ++ runes_of_ascii "`,
		},
}

packet RiskControlResponse {
	string UniqueOrderId `" ++ [21807; 19968; 35746; 21333; 21495]%N ++ runes_of_ascii "`,
	i32 Status `" ++ [29366; 24577]%N ++ runes_of_ascii "`,
	string Msg `" ++ [32467; 26524; 20449; 24687]%N ++ runes_of_ascii "`,
	repeat Detail,
}

packet Detail {
	string RuleName `" ++ [35268; 21017; 21517; 31216]%N ++ runes_of_ascii "`,
	u16 Code `" ++ [21407; 22240; 20195; 30721]%N ++ runes_of_ascii "`,
}")).
Eval vm_compute in ("<<<M153>>>" ++ check (runes_of_ascii "options
// packet A { u8 x, }
/// triple
{	}MetaData	zchar// @lengthOf(
{
    A i64_
`crlf
line` , char[]string_ `
` , Packet
stringy `a\` , // `tick` ""quote"" 'q'
char[ 1] i8i8 // @lengthOf(
,float32
options1 `{ , }` ,} packet
    a1{@lengthOf( o ) //x
o { calculatedFrom @calculatedFrom(
    //x
    ""a\\""
) , } , @lengthOf(
a1) repeat i8i8
    stringy ,int8	pack , @lengthOf( u8x
    ) string
packetx @calculatedFrom( ""`tick`"" ) `` , @lengthOf( Header ) @tag( 0123456789 ) @calculatedFrom(
""CRC32"" ) repeat BodyLength `two words` , @lengthOf( T)  zchar[ 1//
] repeatCount@lengthOf( o	) ,
    match // " ++ [128512]%N ++ runes_of_ascii " emoji
As as options1 { ""1"":
    o, ""a\\"": crc
,[ 0123456789, ""a	b"" // `tick` ""quote"" 'q'
, """ ++ [128512]%N ++ runes_of_ascii """ ,	65535
, """ ++ [128512]%N ++ runes_of_ascii """
    // `tick` ""quote"" 'q'
    ,  ""1""	,
00 ] : x , [ ""abc""	,
""\n""
, 4294967296 ,
10 ,
    //x
    0123456789
,	42 , """ ++ [128512]%N ++ runes_of_ascii """, 3 ] :
    // " ++ [128512]%N ++ runes_of_ascii " emoji
    msg_type } , match
u8x as
lengthOf
    { [""x y"" , ""{,}""// a // b
] :	asx // `tick` ""quote"" 'q'
4294967296  : chars,
    ""CRC32"" : a1 ""a	b"" :metadata ,  7 : zchar  , }
, }")).
Eval vm_compute in ("<<<M4496>>>" ++ check (runes_of_ascii "// `tick` ""quote"" 'q'
packet msg_type {
    // c
    uint8 leftPad,
}

packet roots {
    @tag(3)
    // a // b
    // `tick` ""quote"" 'q'
    string_ @lengthOf(body),
    Header @lengthOf(Z9_),
    repeat zchar[007] roots,
    string_ msg_type `crlf
    line`,
    Logon @lengthOf(pack) `say ""hi""`,
    @rightPad('\x00')
    @leftPad('0')
    repeat u8 float `it's`,
    @calculatedFrom(""\n"")
    @lengthOf(falsey)
    msg_type {
        match Packet as tag {
            [10, 007] : int,
            4294967296 : asx,
        },
        uint32 string_ @lengthOf(_x) `two words`,
        _x,
    },
    f32a {
        f32 body,
        uint16 u128,
        matchKey @lengthOf(Packet),
    },
    repeat zchar[0123456789] float `say ""hi""`,
    f32 i8i8 `{ , }`,
}

root packet options1 {
    @tag(0)
    packetx,
    repeat float64 BodyLength,
}

options {
    Pad = true;
    crc = 007;// @lengthOf(
}

MetaData packetx {
    roots Packet `tab	here`,// " ++ [128512]%N ++ runes_of_ascii " emoji
    asx len,
}")).
Eval vm_compute in ("<<<M1057>>>" ++ check (runes_of_ascii "
packet
// c
// @lengthOf(
int{ @lengthOf( //
pack
    ) f64 asx @calculatedFrom( ""abc"" )
    , @calculatedFrom( ""\" ++ [233]%N ++ runes_of_ascii """ ) f64 //	t
u
`// not a comment`
,// " ++ [128512]%N ++ runes_of_ascii " emoji
@lengthOf( stringy) @tag( 3 )
    @rightPad  ()repeat float32
    rootA , msg_type@lengthOf(
    packetx
    // " ++ [27880; 37322]%N ++ runes_of_ascii "
    ), @lengthOf( repeatCount
) //x
@calculatedFrom(
""`tick`"" )  float lengthOf ,
} packet Pad { repeat uint8x body`u8 x,` ,	zchar	{
    u8 trueish, float `
` ,
    } , @lengthOf(
uint8x
) @lengthOf( //x
float ) u64 T @calculatedFrom( ""// no comment"" ) , @rightPad ()
    repeat options1//x
int ,
@tag( 00
// c
// c
)
    @lengthOf( string_
// c
/// triple
)
@lengthOf( f32a	)
string
/// triple
//	t
u , match
    // trailing space 
    x as uint8x
    {[
    ""it's"" , ""x y""
, ""it's""  ] : // " ++ [128512]%N ++ runes_of_ascii " emoji
i64_	,// c
}
    ,} root packet
trueish{ i8i8`line1
line2` , } // " ++ [27880; 37322]%N ++ runes_of_ascii "
packet tag { //	t
float64 // packet A { u8 x, }
Foo
    `` , }
")).
Eval vm_compute in ("<<<M3981>>>" ++ check (runes_of_ascii "options {
}

packet falsey {
    i64 calculatedFrom @calculatedFrom(""a\\"") `it's`,
    char[00] falsey,
    @calculatedFrom(""1"")
    @calculatedFrom(""{,}"")
    i32 float,
    @tag(3)
    @calculatedFrom(""CRC32"")
    int64 options1 @lengthOf(roots) `two words`,
    @calculatedFrom(""a\\"")
    repeat trueish {
        repeat charz,
        trueish tag `two words`,
        repeat u64 Logon `" ++ [28040; 24687; 31867; 22411]%N ++ runes_of_ascii "`,
    },
    @leftPad('0')
    // " ++ [128512]%N ++ runes_of_ascii " emoji
    @rightPad(' ')
    //	t
    //
    u roots,
    repeat A {
        i32 int @lengthOf(zchar) `" ++ [233]%N ++ runes_of_ascii "`,
    },
    u64 A,
    @tag(10)
    char[] u8x,
    zchar[10] pack @calculatedFrom(""1"") `say ""hi""`,
}

packet Z9_ {
    // " ++ [27880; 37322]%N ++ runes_of_ascii "
    @leftPad('0')
    repeat As charz,
    body @calculatedFrom(""it's"") `crlf
        line`,
    // " ++ [27880; 37322]%N ++ runes_of_ascii "
    @leftPad('0')
    zchar[4294967296] A @calculatedFrom(""packet"") `" ++ [233]%N ++ runes_of_ascii "`,
    repeat body Header `" ++ [233]%N ++ runes_of_ascii "`,
}")).
Eval vm_compute in ("<<<M4399>>>" ++ check (runes_of_ascii "
MetaData
    crc
    {} packet

options1	{ u32 int 
@lengthOf(
int) ,@leftPad 
  /// triple
( '\x00'	)
	repeat  string

uint8x,
@lengthOf(
T
) 
zchar
trueish ,

@leftPad (  ) int32	// a // b
i8i8 @lengthOf(
u8x
// " ++ [27880; 37322]%N ++ runes_of_ascii "
)

, 
      // c
		// " ++ [27880; 37322]%N ++ runes_of_ascii "
    repeatCount 
@calculatedFrom( ""x y"")

    , Logon 
falsey
,	}options { int =  ""\n"" 	 //	t
len
    = true	;

    _x =

    char As =
	int16 ; }packet Z9_{
repeat rootA  ,@lengthOf(
a1
    )string_

trueish `" ++ [233]%N ++ runes_of_ascii "` 
,
    int8  Foo,
@tag( 007)repeat	falsey`// not a comment`  /// triple
  , 
@tag(0
    )
    f64
	x  @calculatedFrom(  ""a\\"" 
// c

  ) 
`// not a comment`
    ,// `tick` ""quote"" 'q'
      uint64 Header 
,	u8

    charz@calculatedFrom(

    """ ++ [128512]%N ++ runes_of_ascii """
)
`" ++ [28040; 24687; 31867; 22411]%N ++ runes_of_ascii "` 
,
    i32	As @lengthOf(
	a1  ) 
`{ , }` 
,

    @calculatedFrom(	""a	b"") uint16
	x,
}")).
Eval vm_compute in ("<<<M4278>>>" ++ check (runes_of_ascii "  packet
a1 /// triple
	{ @lengthOf(	As	)	uint16// " ++ [128512]%N ++ runes_of_ascii " emoji
  	matchKey
`line1
line2`,	}options
{ pack
=

    7

} 
packet

    // " ++ [128512]%N ++ runes_of_ascii " emoji
  packetx {@calculatedFrom( 
""packet""
    ) 
int8 metadata  @lengthOf(metadata 
) ,
    @tag(  7

    )
	lengthOf
	@lengthOf(
u128

    ) // " ++ [128512]%N ++ runes_of_ascii " emoji
    ,
	@rightPad(

    )Header 
@lengthOf(
msg_type
	)

    `` 
,
	leftPad
,	}  packet
	    // packet A { u8 x, }
    string_
{} packet f32a {	@leftPad
    (

'0'
)
    @leftPad	(
' '

/// triple
  	) @leftPad(

    ' '  )

x_y_z

    { char charz @calculatedFrom( 
"""" )
    //	t
    // trailing space 
, repeat rootA
repeatCount
	,  
  // packet A { u8 x, }
repeat u128 f32a `// not a comment`	,
},  
  // " ++ [27880; 37322]%N ++ runes_of_ascii "
  // trailing space 
  } 	 // packet A { u8 x, }
 
")).
Eval vm_compute in ("<<<M1022>>>" ++ check (runes_of_ascii "//
packet T
    { @lengthOf( stringy )
f64 packetx `a\` ,packetx asx// `tick` ""quote"" 'q'
,	string matchKey `say ""hi""` , int8 roots ,u32 asx @calculatedFrom(""it's"")
, @calculatedFrom( ""// no comment""// " ++ [128512]%N ++ runes_of_ascii " emoji
)
// " ++ [27880; 37322]%N ++ runes_of_ascii "
// @lengthOf(
match i64_ as
roots
{ ""// no comment""// trailing space 
:crc , }	,
@lengthOf(
leftPad
) string u128 `doc`, @lengthOf( asx ) match
    asx
as f32a { [10,007 ] : asx , [ 10 , ""1""
] :
BodyLength, 1: Logon, }
    , @calculatedFrom(
    ""// no comment""
)
    @lengthOf(
    zchar )zchar[ 0123456789] // trailing space 
T
    `" ++ [28040; 24687; 31867; 22411]%N ++ runes_of_ascii "`  , char[
10 ]matchKey``,
    } MetaData options1
{ i64
repeatCount`a\`
,	f32 calculatedFrom `// not a comment` , char[1]	T , } packet A { // " ++ [128512]%N ++ runes_of_ascii " emoji
char[ 1 ]u `" ++ [28040; 24687; 31867; 22411]%N ++ runes_of_ascii "` , }
")).
Eval vm_compute in ("<<<M4611>>>" ++ check (runes_of_ascii "packet i8i8 {
    @tag(65535)
    i8i8,
    repeat u8 uint8x,
    zchar[7] u,
    repeat char[] Packet,
    @leftPad('\x00')
    i64_ {
        x `line1
        line2`,//x
    },// a // b
    repeat Foo {
        len {
            match u as _x {
                42 : tag,
                [""" ++ [233]%N ++ runes_of_ascii "t" ++ [233]%N ++ runes_of_ascii """] : _x,
                [7, 4294967296] : Packet,
            },
            float64 o `it's`,
            int64 options1,//	t
        },
    },
    @leftPad('\x00')
    match x as zchar {
        255 : o,
        255 : Logon,
        0 : Header,
        007 : msg_type,
        [
            ""\n"", 007, ""1"", 255, 4294967296,
            0, 007
        ] : int,
    },
}// trailing space 

packet As {
}")).
Eval vm_compute in ("<<<M242>>>" ++ check (runes_of_ascii "packet
    uint8x { @tag(	0123456789 // a // b
) match u as
As
    {
    ""1""
    :	o ,4294967296 : charz [ ""CRC32""
    ]	: A , 42: zchar, ""CRC32"" : leftPad //	t
,
    """ ++ [28040; 24687]%N ++ runes_of_ascii """// " ++ [128512]%N ++ runes_of_ascii " emoji
: uint8x, } , }
    options {
u128 = uint32
}
    packet
chars
{
    // a // b
    float @lengthOf( _x ) // `tick` ""quote"" 'q'
, string
    chars@lengthOf(
matchKey
// @lengthOf(
// packet A { u8 x, }
) , match  crc as
    Z9_ {0123456789 : int
    ,""x y"" //
:
    rootA,	""`tick`""
    : As,
    // @lengthOf(
    } ,@tag(7 )
Pad @lengthOf( trueish  )`u8 x,`
,}
packet float
{ repeat Packet{ lengthOf {
    //
    repeat f32a`it's`
, } ,	o @lengthOf( calculatedFrom	)  , }
,}

")).
Eval vm_compute in ("<<<M576>>>" ++ check (runes_of_ascii "root packet roots  { }packet body{ @lengthOf(Pad ) repeat
a1
BodyLength , char[
7
    ]
    stringy ,	zchar[
255] asx
, uint8x u128 , } options {Header
=
""\" ++ [233]%N ++ runes_of_ascii """ T =""abc""
;
    _x
=zchar[  3 ];
falsey = 65535;
A =
4294967296 } packet x{
    @leftPad
    (
    //
    ' ') @calculatedFrom( ""a	b"")
    /// triple
    @lengthOf(rootA // trailing space 
)
float64 rootA `a\` ,  f64 o	, repeat
pack, @rightPad () uint64	u8x, @lengthOf(
chars
)	repeat  f64 _x// packet A { u8 x, }
`two words` ,// c
Pad
Header `it's`,
zchar[ 00 ] options1 @lengthOf( i8i8	),
} packet u8x{
    char[// @lengthOf(
00 ] string_ @lengthOf( falsey  )
, }")).
Eval vm_compute in ("<<<M646>>>" ++ check (runes_of_ascii "  root packet stringy { u
@calculatedFrom(	""packet""	)
``,  @calculatedFrom( """ ++ [28040; 24687]%N ++ runes_of_ascii """ ) @lengthOf(//x
Foo // packet A { u8 x, }
)@calculatedFrom( // trailing space 
""abc"" ) u64 zchar ,
    match body
// " ++ [128512]%N ++ runes_of_ascii " emoji
// c
as
// trailing space 
// " ++ [27880; 37322]%N ++ runes_of_ascii "
body { 0
:
charz ""packet"":
    charz ,
0123456789
    : repeatCount , ""\" ++ [233]%N ++ runes_of_ascii """
:Foo}
    , repeat string	asx `u8 x,` , } MetaData
    BodyLength{
    string Z9_
,zchar[
    0123456789
    ]  Header	,
    char[65535 ]
    asx ,zchar[255 ] charz `// not a comment` ,
f32 crc ,}options	{
    }packet
_x{ }packet trueish { @calculatedFrom("""" )x
, // " ++ [27880; 37322]%N ++ runes_of_ascii "
} 	 ")).
Eval vm_compute in ("<<<M859>>>" ++ check (runes_of_ascii "  MetaData
a1{leftPad Foo `" ++ [233]%N ++ runes_of_ascii "` , u16
    BodyLength , } packet packetx
    { } options{ As
= """" string_=// c
true ; } //	t
packet	zchar  { u128 @lengthOf( stringy ) `" ++ [28040; 24687; 31867; 22411]%N ++ runes_of_ascii "` ,
Z9_
As `` ,
    // a // b
    repeat u128
body`" ++ [233]%N ++ runes_of_ascii "` , @rightPad	( ' ') @tag( 42 ) match charz
as a1 {""packet"" :
i64_	, } , int
    /// triple
    @lengthOf( As
)  `// not a comment`
//
//x
, string body,@calculatedFrom( ""\n"" ) u8 a1, @leftPad( '0'// a // b
)repeat i64_ `a\` , pack
    stringy  , zchar[	00 ] len @calculatedFrom(
//x
// `tick` ""quote"" 'q'
""packet"" ) `
`,// trailing space 
}
")).
Eval vm_compute in ("<<<M988>>>" ++ check (runes_of_ascii "packet
    pack
    {	A // a // b
{ char[
0  ]msg_type `
` ,
} ,@lengthOf( msg_type
) MetaDataX {
    int64 u @calculatedFrom(
""a\""b""  )
`
`
    ,float32// a // b
i8i8  @calculatedFrom( ""a\\""
) `it's` ,	match uint8x as matchKey
    // a // b
    {""{,}"" :
i64_ ,
    42 : T , 3
:
x // c
}	, },@tag(10) @leftPad ( '\x00'
)
    zchar { f32a  Foo,}
    ,
match x_y_z as
    falsey{ ""// no comment"" : i64_ ,} , // `tick` ""quote"" 'q'
} options { uint8x
    // " ++ [128512]%N ++ runes_of_ascii " emoji
    =
    '0' ;	_x
= false // `tick` ""quote"" 'q'
f32a =zchar[ 00]
;
}
")).
Eval vm_compute in ("<<<M849>>>" ++ check (runes_of_ascii "options {float = ' ' Foo =
""a	b"" A = // packet A { u8 x, }
i16
    ; string_ =""it's""} // c
MetaData float{ charz falsey // " ++ [27880; 37322]%N ++ runes_of_ascii "
, char[]chars
, float32
    Pad , }MetaData repeatCount
    {
    char[	65535] // `tick` ""quote"" 'q'
Header `" ++ [233]%N ++ runes_of_ascii "` // trailing space 
,
    float32 Pad
, u64 len
    ,
    // `tick` ""quote"" 'q'
    lengthOf a1 `{ , }`
    //	t
    ,
    //x
    }
options
    {  leftPad = zchar[ 00] ; charz
= 10
    ;options1
    =
    // trailing space 
    string len =zchar[255 ] ; Logon = ""\n""
    ; }
")).
Eval vm_compute in ("<<<M3767>>>" ++ check (runes_of_ascii "root packet lengthOf {
    @lengthOf(i64_)
    string repeatCount @calculatedFrom(""" ++ [28040; 24687]%N ++ runes_of_ascii """) `doc`,
    repeat char[] f32a `two words`,
    @lengthOf(i64_)
    char[] a1,//
    match float as BodyLength {
        """" : tag,
        """ ++ [28040; 24687]%N ++ runes_of_ascii """ : roots,
        ""// no comment"" : A,
    },
    metadata,
    repeat char[0123456789] a1 `a\`,
    @leftPad('\x00')
    zchar lengthOf,
    repeat char[] calculatedFrom,
    @rightPad('\x00')
    @rightPad('\x00')
    i8 BodyLength,
}

options {
}

options {
}")).
Eval vm_compute in ("<<<M711>>>" ++ check (runes_of_ascii "MetaData f32a
    // " ++ [27880; 37322]%N ++ runes_of_ascii "
    { msg_type u128 , } options {
    } // packet A { u8 x, }
root packet body {
    Packet `say ""hi""` , string
pack `doc`
    ,
//	t
//	t
@tag( 10
)
lengthOf{	char[]
    MetaDataX , u16 uint8x
    @calculatedFrom( """" )  , uint32 options1
`{ , }`
// a // b
//
, _x
,	} ,
} packet int{} MetaData
u128{ x_y_z
    As ,
    msg_type int`two words`,
    // c
    pack
repeatCount ,	tag Z9_
    , calculatedFrom
chars // a // b
`crlf
line`
    ,
}
")).
Eval vm_compute in ("<<<M695>>>" ++ check (runes_of_ascii "// `tick` ""quote"" 'q'
options{
    Pad  =
'0' } //
packet
    zchar{	stringy
// " ++ [128512]%N ++ runes_of_ascii " emoji
// " ++ [27880; 37322]%N ++ runes_of_ascii "
{ match
x as i64_	{00 : len,/// triple
""`tick`""
://x
body
, 3 : chars//
, 7 : uint8x 0123456789:Foo
,
} , repeat
chars i8i8
,  float32// c
Logon
@lengthOf(A ) `tab	here` ,
} ,} packet
    //x
    As  {
    @lengthOf( i64_)
    repeat
    options1{ a1 @calculatedFrom( ""a\\""),
    }
    // packet A { u8 x, }
    ,
@calculatedFrom( ""CRC32"" ) matchKey ,}
")).
Eval vm_compute in ("<<<M1088>>>" ++ check (runes_of_ascii "options { int// a // b
=7 ;float = int64;
/// triple
// a // b
stringy= 3 rootA
    // packet A { u8 x, }
    =""CRC32"" x = // c
true // " ++ [128512]%N ++ runes_of_ascii " emoji
} options{ A=uint16
    // @lengthOf(
    ; metadata = ""1""
// trailing space 
// `tick` ""quote"" 'q'
packetx=10// " ++ [128512]%N ++ runes_of_ascii " emoji
} MetaData Packet { T int	`u8 x,` , o _x
    ,
falsey chars ,
} root packet string_
{ packetx Pad`a\`
    , trueish x_y_z ,body , repeat char[ 3]  options1 `it's` , }")).
Eval vm_compute in ("<<<M1260>>>" ++ check (runes_of_ascii "
packet As { repeat string
    Logon `two words` , @calculatedFrom( """" ) zchar[ 7 ]chars`crlf
line` ,@rightPad (
    '\x00' ) repeat len
u , uint16 // " ++ [27880; 37322]%N ++ runes_of_ascii "
options1
    , } packet
u
    { @leftPad
    ( ' ' ) repeat a1 packetx, u32 a1 @calculatedFrom( """ ++ [128512]%N ++ runes_of_ascii """
    ) , }packet As { repeat float32 options1
    `doc`, repeat float32
// trailing space 
// trailing space 
x_y_z
,@calculatedFrom( """ ++ [28040; 24687]%N ++ runes_of_ascii """
)u16
    int`a\` , }")).
Eval vm_compute in ("<<<M78>>>" ++ check (runes_of_ascii "packet stringy
{  @calculatedFrom(""a	b""
)uint8x,}
// @lengthOf(
// @lengthOf(
root packet  i8i8
{ @lengthOf( options1
) @tag( 0 )
    repeat
metadata _x `" ++ [233]%N ++ runes_of_ascii "`	, repeat
i8i8`
` // a // b
,
repeat  char[ //x
3 ]o , // " ++ [128512]%N ++ runes_of_ascii " emoji
@calculatedFrom(""a	b""
) repeat
    u16 x `doc`
,string_
`tab	here`  , @calculatedFrom(
    """ ++ [233]%N ++ runes_of_ascii "t" ++ [233]%N ++ runes_of_ascii """)@tag(	4294967296)
repeat Logon stringy , } root
    packet
    tag { }")).
Eval vm_compute in ("<<<M3205>>>" ++ check (runes_of_ascii "// top
options // c0
{ // c1
charz // c2
= // c3
f64 // c4
; // c5
metadata // c6
= // c7
7 // c8
; // c9
} // c10
options // c11
{ // c12
u128 // c13
= // c14
10 // c15
options1 // c16
= // c17
true // c18
; // c19
zchar // c20
= // c21
uint16 // c22
; // c23
lengthOf // c24
= // c25
true // c26
; // c27
} // c28
options // c29
{ // c30
len // c31
= // c32
1 // c33
} // c34
")).
Eval vm_compute in ("<<<M652>>>" ++ check (runes_of_ascii "packet u128{ }
    // " ++ [128512]%N ++ runes_of_ascii " emoji
    root
packet
rootA{ @tag( // " ++ [27880; 37322]%N ++ runes_of_ascii "
007 )
match uint8x as
    crc {	""a\""b"" :
    charz ,},
    // packet A { u8 x, }
    uint64 repeatCount ,@tag(007//x
)
    uint8 f32a
, @rightPad (
' ' ) @leftPad
( '\x00')  @lengthOf( stringy ) T@lengthOf( charz
    ), metadata matchKey , }
    packet msg_type {
    stringy zchar `" ++ [28040; 24687; 31867; 22411]%N ++ runes_of_ascii "` , }
")).
Eval vm_compute in ("<<<M170>>>" ++ check (runes_of_ascii "// " ++ [128512]%N ++ runes_of_ascii " emoji
packet i64_ { match repeatCount
as u8x{ // packet A { u8 x, }
7 : crc , },repeat uint32 roots ,
} packet options1{ match  MetaDataX as
chars
{ ""CRC32""
    :tag , 00 : lengthOf// a // b
,	""" ++ [233]%N ++ runes_of_ascii "t" ++ [233]%N ++ runes_of_ascii """ : _x , } , uint16 trueish	,
char[ 10 ] calculatedFrom	,
@calculatedFrom( ""a\\""  ) @tag(
65535 ) @rightPad (	'\x00' ) repeat int32 len , }
")).
Eval vm_compute in ("<<<M330>>>" ++ check (runes_of_ascii "root packet calculatedFrom { @lengthOf( asx )	T{
repeat
/// triple
//x
packetx A  ,
match // " ++ [27880; 37322]%N ++ runes_of_ascii "
string_ as msg_type { [""abc""] :
As 0123456789 :  repeatCount
    , ""a\""b"" :
roots, } , },uint8x BodyLength `{ , }`
, string  BodyLength,@leftPad(
    '\x00'
) repeat calculatedFrom { uint32 //	t
trueish ,/// triple
}, // c
} // a // b")).
Eval vm_compute in ("<<<M1906>>>" ++ check (runes_of_ascii "MetaData
    u { }  options {
// c
// @lengthOf(
float = int8 ;rootA rootA =false ; As =	int16 // `tick` ""quote"" 'q'
repeatCount
    // trailing space 
    =
    int16
; u8x =
    //	t
    '\x00' ; } options	{
    repeatCount
= 0
u128
    //
    = false ; i64_
// trailing space 
// `tick` ""quote"" 'q'
= '0' ; //	t
}
")).
Eval vm_compute in ("<<<M4433>>>" ++ check (runes_of_ascii "options {
    u128 = false
}

packet i64_ {
    @calculatedFrom(""a	b"")
    Z9_ {
        x_y_z `two words`,
        string_,
    },
    match BodyLength as As {
        //x
        [""a\""b""] : Z9_,
    },
    //	t
    // a // b
    char[] asx,
    i16 crc `doc`,
}

packet o {
    @leftPad('\x00')
    repeat u8x T,
}")).
Eval vm_compute in ("<<<M2069>>>" ++ check (runes_of_ascii "MetaData
    u { }  options {
// c
// @lengthOf(
float = int8 ;rootA =false ; As =	| int16 // `tick` ""quote"" 'q'
repeatCount
    // trailing space 
    =
    int16
; u8x =
    //	t
    '\x00' ; } options	{
    repeatCount
= 0
u128
    //
    = false ; i64_
// trailing space 
// `tick` ""quote"" 'q'
= '0' ; //	t
}
")).
Eval vm_compute in ("<<<M1912>>>" ++ check (runes_of_ascii "MetaData
    u { }  options {
// c
// @lengthOf(
float = int8 ;rootA false= ; As =	int16 // `tick` ""quote"" 'q'
repeatCount
    // trailing space 
    =
    int16
; u8x =
    //	t
    '\x00' ; } options	{
    repeatCount
= 0
u128
    //
    = false ; i64_
// trailing space 
// `tick` ""quote"" 'q'
= '0' ; //	t
}
")).
Eval vm_compute in ("<<<M2052>>>" ++ check (runes_of_ascii "MetaData
    u { }  options {
// c
// @lengthOf(
float = int8 ;rootA =false ; As =	int16 // `tick` ""quote"" 'q'
repeatCount
    // trailing space 
    =
    int16
; u8x =
    //	t
    '\x00' ; } options	{
    repeatCount
= 0
u128
    //
    = false ; i64_
// trailing space 
// `tick` ""quote"" 'q'
= '0' ; //	t
]
")).
Eval vm_compute in ("<<<M1908>>>" ++ check (runes_of_ascii "MetaData
    u { }  options {
// c
// @lengthOf(
float = int8 ;f32 =false ; As =	int16 // `tick` ""quote"" 'q'
repeatCount
    // trailing space 
    =
    int16
; u8x =
    //	t
    '\x00' ; } options	{
    repeatCount
= 0
u128
    //
    = false ; i64_
// trailing space 
// `tick` ""quote"" 'q'
= '0' ; //	t
}
")).
Eval vm_compute in ("<<<M483>>>" ++ check (runes_of_ascii "MetaData  As { float32	calculatedFrom
, BodyLength asx `two words`
    , }
options { f32a =
' ' ; a1  = '\x00'} // trailing space 
MetaData T {	charz metadata  , lengthOf T	`crlf
line`	,
    T
    rootA
`
` , char[] repeatCount
`it's` ,
stringy
rootA, // @lengthOf(
zchar[ 0123456789 ] MetaDataX ,
}
")).
Eval vm_compute in ("<<<M2058>>>" ++ check (runes_of_ascii "MetaData
    u { }  options {
// c
// @lengthOf(
float = int8 ;rootA =false ; As =	int16 // `tick` ""quote"" 'q'
repeatCount
    // trailing space 
    =
    int16
; u8x =
    //	t
    '\x00' ; } options	{
    repeatCount
= 0
u128
    //
    = false ; i64_
// trailing space 
// `tick` ""quote"" 'q'
")).
Eval vm_compute in ("<<<M3765>>>" ++ check (runes_of_ascii "packet
calculatedFrom{  match

    Logon as u128
	{
	[
1  , 
""// no comment""  ] 
:	u8x

""`tick`""

:Header  ,
	""`tick`""

    :	BodyLength
	""it's""
    // a // b
	  // packet A { u8 x, }
    : zchar 
} 	 // " ++ [27880; 37322]%N ++ runes_of_ascii "

,// `tick` ""quote"" 'q'

  char  metadata

@calculatedFrom(	""a\\""	)
,

}
")).
Eval vm_compute in ("<<<M4434>>>" ++ check (runes_of_ascii "  options
{LittleEndian
=true
;
}
packet
    Sub	{

u8  a
,	@calculatedFrom(

""CRC16""
) 
u64	SubSum, 
}
root
	packet Frame
    {u16
	MsgType

    ,
    u16 
BodyLen@lengthOf( Body), Sub Body	,  string  note, @calculatedFrom(
""CRC16""
	)
	u64
Checksum ,
u8 tail	,
}")).
Eval vm_compute in ("<<<M4571>>>" ++ check (runes_of_ascii "packet crc {
    matchKey `tab	here`,
    repeat f32a {
        // trailing space 
        zchar {
            string uint8x,
            repeat char[4294967296] msg_type,
        },
        roots {
            zchar[7] u,
        },
        uint64 chars,
    },
}")).
Eval vm_compute in ("<<<M1503>>>" ++ check (runes_of_ascii "packet
//	t
// trailing space 
_x {
// packet A { u8 x, }
// c
char[ char[
3
    ] u8x @lengthOf(
u8x ) , @calculatedFrom(""" ++ [128512]%N ++ runes_of_ascii """ // @lengthOf(
)
i16	Foo
@lengthOf(	string_
    )`doc`	, repeat	i64 metadata , @lengthOf( string_
) i8 // c
u  `line1
line2`	,
}
")).
Eval vm_compute in ("<<<M1538>>>" ++ check (runes_of_ascii "packet
//	t
// trailing space 
_x {
// packet A { u8 x, }
// c
char[
3
    ] u8x @lengthOf(
u8x ) , , @calculatedFrom(""" ++ [128512]%N ++ runes_of_ascii """ // @lengthOf(
)
i16	Foo
@lengthOf(	string_
    )`doc`	, repeat	i64 metadata , @lengthOf( string_
) i8 // c
u  `line1
line2`	,
}
")).
Eval vm_compute in ("<<<M418>>>" ++ check (runes_of_ascii "/// triple
root
packet Logon{@calculatedFrom(	""CRC32""	) uint8x {
roots pack  `line1
line2`,},
    string u
    ,  }packet body {
uint64 Logon ,
}
    root packet lengthOf { } packet A {u32 pack // `tick` ""quote"" 'q'
@calculatedFrom(// c
""" ++ [128512]%N ++ runes_of_ascii """ ) ,
    }")).
Eval vm_compute in ("<<<M1610>>>" ++ check (runes_of_ascii "packet
//	t
// trailing space 
_x {
// packet A { u8 x, }
// c
char[
3
    ] u8x @lengthOf(
u8x ) , @calculatedFrom(""" ++ [128512]%N ++ runes_of_ascii """ // @lengthOf(
)
i16	Foo
@lengthOf(	string_
    )`doc`	, repeat	i64 metadata ; @lengthOf( string_
) i8 // c
u  `line1
line2`	,
}
")).
Eval vm_compute in ("<<<M1620>>>" ++ check (runes_of_ascii "packet
//	t
// trailing space 
_x {
// packet A { u8 x, }
// c
char[
3
    ] u8x @lengthOf(
u8x ) , @calculatedFrom(""" ++ [128512]%N ++ runes_of_ascii """ // @lengthOf(
)
i16	Foo
@lengthOf(	string_
    )`doc`	, repeat	i64 metadata , @lengthOf( @tag(
) i8 // c
u  `line1
line2`	,
}
")).
Eval vm_compute in ("<<<M850>>>" ++ check (runes_of_ascii "
MetaData Header { } root// " ++ [128512]%N ++ runes_of_ascii " emoji
packet i8i8{ @rightPad // trailing space 
(
'0' )	u16
u8x @lengthOf( Header )
`u8 x,`,
}
    MetaData
u128
{  zchar[ 00 ]falsey, body repeatCount , len
    repeatCount
    ,
u8 chars  `line1
line2`
    , }")).
Eval vm_compute in ("<<<M763>>>" ++ check (runes_of_ascii "packet rootA{
char[4294967296 ] rootA@calculatedFrom(	""a	b""	) `crlf
line`, @calculatedFrom( """" )
// a // b
// trailing space 
pack@lengthOf(// packet A { u8 x, }
rootA)  `
`,
@rightPad (
' ' ) repeat stringy repeatCount`two words`, }")).
Eval vm_compute in ("<<<M4112>>>" ++ check (runes_of_ascii "
MetaData 
a1
{char[] 
repeatCount`it's` ,  char[ 
4294967296 	 // @lengthOf(
    ] i8i8	// c
    `// not a comment` 

// packet A { u8 x, }
,
	// @lengthOf(
	/// triple
float32

zchar

, }
    packet
	calculatedFrom
{ } ")).
Eval vm_compute in ("<<<M1072>>>" ++ check (runes_of_ascii "/// triple
packet trueish{ // packet A { u8 x, }
repeat int`crlf
line`
    ,
    repeat
    int32 // c
o
, } packet
    string_ {
T Logon ,i64_	,
string_
, char[ 10
]zchar@lengthOf(
    u128/// triple
)`say ""hi""`
,
}")).
Eval vm_compute in ("<<<M1847>>>" ++ check (runes_of_ascii "options { @lengthOftrueish = ""`tick`"" ; string_= """ ++ [233]%N ++ runes_of_ascii "t" ++ [233]%N ++ runes_of_ascii """
    // c
    } root
    packet body { stringy @calculatedFrom(
""a	b"" ) `line1
line2` , }
packet Logon {
    @leftPad(
    ' ' ) //	t
u16 string_ `u8 x,` ,
}
")).
Eval vm_compute in ("<<<M1752>>>" ++ check (runes_of_ascii "options { trueish = ""`tick`"" ; string_= """ ++ [233]%N ++ runes_of_ascii "t" ++ [233]%N ++ runes_of_ascii """
    // c
    } root
    packet body { stringy @calculatedFrom(
""a	b"" ""a	b"" ) `line1
line2` , }
packet Logon {
    @leftPad(
    ' ' ) //	t
u16 string_ `u8 x,` ,
}
")).
Eval vm_compute in ("<<<M1757>>>" ++ check (runes_of_ascii "options { trueish = ""`tick`"" ; string_= """ ++ [233]%N ++ runes_of_ascii "t" ++ [233]%N ++ runes_of_ascii """
    // c
    } root
    packet body { stringy @calculatedFrom(
""a	b"" ) ) `line1
line2` , }
packet Logon {
    @leftPad(
    ' ' ) //	t
u16 string_ `u8 x,` ,
}
")).
Eval vm_compute in ("<<<M1279>>>" ++ check (runes_of_ascii "MetaData stringy
    // trailing space 
    {  char[
42 ]
leftPad `tab	here` ,_x pack, char  zchar `// not a comment` ,	u8x repeatCount
    `say ""hi""`
,
    // `tick` ""quote"" 'q'
    pack uint8x `a\`  ,}
")).
Eval vm_compute in ("<<<M1808>>>" ++ check (runes_of_ascii "options { trueish = ""`tick`"" ; string_= """ ++ [233]%N ++ runes_of_ascii "t" ++ [233]%N ++ runes_of_ascii """
    // c
    } root
    packet body { stringy @calculatedFrom(
""a	b"" ) `line1
line2` , }
packet Logon {
    @leftPad(
    ' ' u16 //	t
) string_ `u8 x,` ,
}
")).
Eval vm_compute in ("<<<M1794>>>" ++ check (runes_of_ascii "options { trueish = ""`tick`"" ; string_= """ ++ [233]%N ++ runes_of_ascii "t" ++ [233]%N ++ runes_of_ascii """
    // c
    } root
    packet body { stringy @calculatedFrom(
""a	b"" ) `line1
line2` , }
packet Logon {
    false(
    ' ' ) //	t
u16 string_ `u8 x,` ,
}
")).
Eval vm_compute in ("<<<M1672>>>" ++ check (runes_of_ascii " { trueish = ""`tick`"" ; string_= """ ++ [233]%N ++ runes_of_ascii "t" ++ [233]%N ++ runes_of_ascii """
    // c
    } root
    packet body { stringy @calculatedFrom(
""a	b"" ) `line1
line2` , }
packet Logon {
    @leftPad(
    ' ' ) //	t
u16 string_ `u8 x,` ,
}
")).
Eval vm_compute in ("<<<M879>>>" ++ check (runes_of_ascii "options	{ Foo =1	i64_ =char[]
    /// triple
    ; string_//
=
uint16 ;  chars = char[] ;//	t
}root
packet msg_type{ body, @calculatedFrom(// " ++ [27880; 37322]%N ++ runes_of_ascii "
""packet"" ) repeat zchar[ 4294967296 ]	u128
,
}")).
Eval vm_compute in ("<<<M4527>>>" ++ check (runes_of_ascii "

  root
packet  u128{char[ 7 
]

tag@calculatedFrom( 
""\" ++ [233]%N ++ runes_of_ascii """ )	// " ++ [128512]%N ++ runes_of_ascii " emoji
	`" ++ [233]%N ++ runes_of_ascii "`

    ,@rightPad	( )  packetx

,
    @lengthOf(o
)
    lengthOf	@lengthOf( float )
`// not a comment`
,

}
")).
Eval vm_compute in ("<<<M4300>>>" ++ check (runes_of_ascii "// top
root packet matchKey {
    // c3
    zchar[3] pack @calculatedFrom(""a	b"") `doc`,
}

options {
}// c16

MetaData A {
    // c19a
    // c19b
    int8 msg_type,
    // c22
}")).
Eval vm_compute in ("<<<M1974>>>" ++ check (runes_of_ascii "MetaData
    u { }  options {
// c
// @lengthOf(
float = int8 ;rootA =false ; As =	int16 // `tick` ""quote"" 'q'
repeatCount
    // trailing space 
    =
    int16
; u8x =")).
Eval vm_compute in ("<<<M1964>>>" ++ check (runes_of_ascii "MetaData
    u { }  options {
// c
// @lengthOf(
float = int8 ;rootA =false ; As =	int16 // `tick` ""quote"" 'q'
repeatCount
    // trailing space 
    =
    int16
;")).
Eval vm_compute in ("<<<M2195>>>" ++ check (runes_of_ascii "options{
_x
= true
} options
@leftpad { o	= /// triple
false
    ; chars
= ""\n"" } root packet	Pad
/// triple
// packet A { u8 x, }
{	chars
    // a // b
    ,}")).
Eval vm_compute in ("<<<M2381>>>" ++ check (runes_of_ascii "// c
packet x { @lengthOf( metadata ) repeat lengthOf
,caf" ++ [233]%N ++ runes_of_ascii "_1{
trueish	,// c
repeat//	t
MetaDataX , } , zchar[
    42	] rootA // `tick` ""quote"" 'q'
,
    }
")).
Eval vm_compute in ("<<<M2360>>>" ++ check (runes_of_ascii "// c
packet x { @lengthOf( metadata ) repeat lengthOf
,a1{
trueish	,// c
repeat//	t
MetaDataX , } } , zchar[
    42	] rootA // `tick` ""quote"" 'q'
,
    }
")).
Eval vm_compute in ("<<<M2100>>>" ++ check (runes_of_ascii "options{
_x
= true
} } options
{ o	= /// triple
false
    ; chars
= ""\n"" } root packet	Pad
/// triple
// packet A { u8 x, }
{	chars
    // a // b
    ,}")).
Eval vm_compute in ("<<<M960>>>" ++ check (runes_of_ascii "// packet A { u8 x, }
root  packet Logon/// triple
{A`doc` , string len ,
} MetaData len	{int64 i8i8`{ , }`, }
packet // " ++ [27880; 37322]%N ++ runes_of_ascii "
lengthOf {i64 Header
,} //	t")).
Eval vm_compute in ("<<<M2096>>>" ++ check (runes_of_ascii "options{
_x
= }
true options
{ o	= /// triple
false
    ; chars
= ""\n"" } root packet	Pad
/// triple
// packet A { u8 x, }
{	chars
    // a // b
    ,}")).
Eval vm_compute in ("<<<M2087>>>" ++ check (runes_of_ascii "options{
]
= true
} options
{ o	= /// triple
false
    ; chars
= ""\n"" } root packet	Pad
/// triple
// packet A { u8 x, }
{	chars
    // a // b
    ,}")).
Eval vm_compute in ("<<<M2348>>>" ++ check (runes_of_ascii "// c
{ x { @lengthOf( metadata ) repeat lengthOf
,a1{
trueish	,// c
repeat//	t
MetaDataX , } , zchar[
    42	] rootA // `tick` ""quote"" 'q'
,
    }
")).
Eval vm_compute in ("<<<M2333>>>" ++ check (runes_of_ascii "// c
packet x { @lengthOf( metadata ) repeat (
,a1{
trueish	,// c
repeat//	t
MetaDataX , } , zchar[
    42	] rootA // `tick` ""quote"" 'q'
,
    }
")).
Eval vm_compute in ("<<<M852>>>" ++ check (runes_of_ascii "MetaData calculatedFrom{
// @lengthOf(
// a // b
string Packet // a // b
,
zchar[
    42
    ] msg_type , char[
    3] u128
, i16 f32a , }

")).
Eval vm_compute in ("<<<M4079>>>" ++ check (runes_of_ascii "packet A {
    match k as n {
        [
            1, ""bb"", 007, ""d"", 5,
            ""f"", 7, ""h"", 9
        ] : B,
        2 : C,
    },
}")).
Eval vm_compute in ("<<<M1780>>>" ++ check (runes_of_ascii "options { trueish = ""`tick`"" ; string_= """ ++ [233]%N ++ runes_of_ascii "t" ++ [233]%N ++ runes_of_ascii """
    // c
    } root
    packet body { stringy @calculatedFrom(
""a	b"" ) `line1
line2` , }")).
Eval vm_compute in ("<<<M828>>>" ++ check (runes_of_ascii "packet stringy
{
repeat
    roots  {
    u64 pack
`doc` , char[ 7 ] Z9_@calculatedFrom(""abc"" )
`` , zchar lengthOf  `
` ,
}
, }")).
Eval vm_compute in ("<<<M1403>>>" ++ check (runes_of_ascii "
packet
    falsey falsey { Header@calculatedFrom(""packet""  ) , char[
    0123456789 ] packetx
    , } // `tick` ""quote"" 'q'")).
Eval vm_compute in ("<<<M540>>>" ++ check (runes_of_ascii "MetaData T {
i64 body `
`// c
, string packetx, int
Pad , // @lengthOf(
char[]  A `" ++ [233]%N ++ runes_of_ascii "`, i8i8 float ,repeatCount
    o , }
")).
Eval vm_compute in ("<<<M3340>>>" ++ check (runes_of_ascii "root packet matchKey { zchar[ 3 ] pack @calculatedFrom( ""a	b"" ) `doc` , } options // c
{ } MetaData A { int8 msg_type , }")).
Eval vm_compute in ("<<<M1460>>>" ++ check (runes_of_ascii "
packet
    falsey { Header@calculatedFrom(""packet""  ) , char[
    0123456789 ] packetx
    u64 } // `tick` ""quote"" 'q'")).
Eval vm_compute in ("<<<M1400>>>" ++ check (runes_of_ascii "
falsey
    packet { Header@calculatedFrom(""packet""  ) , char[
    0123456789 ] packetx
    , } // `tick` ""quote"" 'q'")).
Eval vm_compute in ("<<<M1487>>>" ++ check (runes_of_ascii "
packet
    na" ++ [239]%N ++ runes_of_ascii "ve { Header@calculatedFrom(""packet""  ) , char[
    0123456789 ] packetx
    , } // `tick` ""quote"" 'q'")).
Eval vm_compute in ("<<<M1445>>>" ++ check (runes_of_ascii "
packet
    falsey { Header@calculatedFrom(""packet""  ) , char[
    false ] packetx
    , } // `tick` ""quote"" 'q'")).
Eval vm_compute in ("<<<M1241>>>" ++ check (runes_of_ascii "packet T {@rightPad
() @tag(00
    ) char[]
a1
    @calculatedFrom(
    ""a\""b""
    )
    `two words`
    , }
")).
Eval vm_compute in ("<<<M845>>>" ++ check (runes_of_ascii "packet zchar { @lengthOf( i8i8 ) int16
msg_type @lengthOf(
    // c
    As // `tick` ""quote"" 'q'
) `
`
,}
")).
Eval vm_compute in ("<<<M4466>>>" ++ check (runes_of_ascii "MetaData string_ {
    Header u128 `tab	here`,
    i64 Z9_,
    x matchKey,
    string u,
    f64 Foo,
}")).
Eval vm_compute in ("<<<M3004>>>" ++ check (runes_of_ascii "packet A {
    Inner {
        u8 x `a
b`,
        Deep {
            u8 y `a
b`,
        },
    },
}")).
Eval vm_compute in ("<<<M4612>>>" ++ check (runes_of_ascii "packet o {
    repeat Logon uint8x,
}

options {
    asx = zchar[3]
    // c
    stringy = '\x00'
}")).
Eval vm_compute in ("<<<M2939>>>" ++ check (runes_of_ascii "packet A {
  match k as n {
    [""a"", ""bb"", ""c c"", ""d"", ""e"", ""f"", ""g"", ""h""] : B
    2 : C
  },
}")).
Eval vm_compute in ("<<<M721>>>" ++ check (runes_of_ascii "MetaData A  {zchar[42 ]string_ ,}MetaData u{
    // a // b
    } options {
o
= ""CRC32""
;  }

")).
Eval vm_compute in ("<<<M2267>>>" ++ check (runes_of_ascii "options
{ } options { BodyLength= u16 Header= f64 ; u128 u128 =
    true
    ; } // a // b")).
Eval vm_compute in ("<<<M4131>>>" ++ check (runes_of_ascii "packet o {
    repeat Logon uint8x,
}

options {
    asx = zchar[3]
    stringy = '\x00'
}")).
Eval vm_compute in ("<<<M3288>>>" ++ check (runes_of_ascii "MetaData float { float64 charz `
` , } root packet
// c
chars { @rightPad ( '0' ) Foo , }")).
Eval vm_compute in ("<<<M3499>>>" ++ check (runes_of_ascii "packet chars { } packet MetaDataX { @tag( // c
42 ) i16 string_ , repeat x `say ""hi""` , }")).
Eval vm_compute in ("<<<M2262>>>" ++ check (runes_of_ascii "options
{ } options { BodyLength= u16 Header= f64 ; ; u128 =
    true
    ; } // a // b")).
Eval vm_compute in ("<<<M2912>>>" ++ check (runes_of_ascii "packet A {
  match k as n {
    [""a"", ""bb"", ""c c"", ""d"", ""e"", ""f""] : B,
    2 : C
  },
}")).
Eval vm_compute in ("<<<M2273>>>" ++ check (runes_of_ascii "options
{ } options { BodyLength= u16 Header= f64 ; u128 true
    =
    ; } // a // b")).
Eval vm_compute in ("<<<M3239>>>" ++ check (runes_of_ascii "packet metadata { Logon { A `" ++ [28040; 24687; 31867; 22411]%N ++ runes_of_ascii "` , tag o , } , zchar // c
len `// not a comment` , }")).
Eval vm_compute in ("<<<M3430>>>" ++ check (runes_of_ascii "packet
// c
o { repeat Logon uint8x , } options { asx = zchar[ 3 ] stringy = '\x00' }")).
Eval vm_compute in ("<<<M3462>>>" ++ check (runes_of_ascii "packet o { repeat Logon uint8x , } options { asx = zchar[ 3 ] stringy =
// c
'\x00' }")).
Eval vm_compute in ("<<<M2279>>>" ++ check (runes_of_ascii "options
{ } options { BodyLength= u16 Header= f64 ; u128 =
    [
    ; } // a // b")).
Eval vm_compute in ("<<<M3405>>>" ++ check (runes_of_ascii "MetaData body { i64 pack `it's`
// c
, } packet stringy { int16 calculatedFrom , }")).
Eval vm_compute in ("<<<M2937>>>" ++ check (runes_of_ascii "packet A {
  match k as n {
    [1, 22, 007, 4, 5, 66, 7, 8] : B
    2 : C
  },
}")).
Eval vm_compute in ("<<<M3536>>>" ++ check (runes_of_ascii "packet Inner {
    u8 a,
}
root packet P {
    repeat Inner items,
    u8 x,
}
")).
Eval vm_compute in ("<<<M630>>>" ++ check (runes_of_ascii "packet u { repeat uint64 Pad
`a\` ,} packet string_ { repeat a1 Packet
,}
")).
Eval vm_compute in ("<<<M97>>>" ++ check (runes_of_ascii "options // " ++ [27880; 37322]%N ++ runes_of_ascii "
{
// packet A { u8 x, }
// a // b
}
    packet T {
    }
")).
Eval vm_compute in ("<<<M1516>>>" ++ check (runes_of_ascii "packet
//	t
// trailing space 
_x {
// packet A { u8 x, }
// c
char[
3")).
Eval vm_compute in ("<<<M3905>>>" ++ check (runes_of_ascii "
options 
      // a // b
  { float 
= char[
4294967296 
] 
;
}
")).
Eval vm_compute in ("<<<M3576>>>" ++ check (runes_of_ascii "  root
packet

P {u8
s_u8
    ,repeat u8 r_u8 ,u16
b_len
,  }
")).
Eval vm_compute in ("<<<M4102>>>" ++ check (runes_of_ascii "
MetaData

M

{
u8
	x
`a
    b
  c` ,
T
t
	`a
    b
  c` ,
}")).
Eval vm_compute in ("<<<M3802>>>" ++ check (runes_of_ascii "packet calculatedFrom {
    u32 metadata @lengthOf(Logon),
}")).
Eval vm_compute in ("<<<M3363>>>" ++ check (runes_of_ascii "// c
packet x { @rightPad ( ) repeat roots Logon `doc` , }")).
Eval vm_compute in ("<<<M3014>>>" ++ check (runes_of_ascii "packet A {
    B b `
`,
    B `
`,
    repeat B bs `
`,
}")).
Eval vm_compute in ("<<<M4206>>>" ++ check (runes_of_ascii "packet A {
    u8 x,
}// a

// b
packet B {
}// c
// d")).
Eval vm_compute in ("<<<M3163>>>" ++ check (runes_of_ascii "packet A { u8 x, } // a
// b
packet B {} // c
// d")).
Eval vm_compute in ("<<<M2842>>>" ++ check (runes_of_ascii "uint16 int16 ; = char[ @leftPad repeat u16 [ as")).
Eval vm_compute in ("<<<M2650>>>" ++ check (runes_of_ascii "MetaData M { u8 x `d` , y z `e`, char[3] w, }")).
Eval vm_compute in ("<<<M229>>>" ++ check (runes_of_ascii "packet float { }	packet
body
    { }
//x
")).
Eval vm_compute in ("<<<M2702>>>" ++ check ([11]%N ++ runes_of_ascii "d" ++ [65533]%N ++ runes_of_ascii "g" ++ [65533; 65533; 65533; 65533]%N ++ runes_of_ascii "(" ++ [29]%N ++ runes_of_ascii "0" ++ [65533; 65533]%N ++ runes_of_ascii "O" ++ [65533]%N ++ runes_of_ascii "[Y" ++ [65533; 65533]%N ++ runes_of_ascii "1p" ++ [65533]%N ++ runes_of_ascii "f" ++ [65533; 65533; 14]%N ++ runes_of_ascii "}`" ++ [7]%N ++ runes_of_ascii "g" ++ [65533; 65533]%N ++ runes_of_ascii "#k" ++ [65533; 65533; 65533; 65533]%N ++ runes_of_ascii "L")).
Eval vm_compute in ("<<<M3922>>>" ++ check (runes_of_ascii "  packet
i8i8 
{

    } 
        // c")).
Eval vm_compute in ("<<<M137>>>" ++ check (runes_of_ascii "//x
MetaData falsey{ string Pad , }
")).
Eval vm_compute in ("<<<M2642>>>" ++ check (runes_of_ascii "root packet A { } root packet B { }")).
Eval vm_compute in ("<<<M682>>>" ++ check (runes_of_ascii "  MetaData
    options1  {
    }
")).
Eval vm_compute in ("<<<M3147>>>" ++ check (runes_of_ascii "packet A {
 u8 x `d x`, // c x
}")).
Eval vm_compute in ("<<<M2732>>>" ++ check ([65533; 2]%N ++ runes_of_ascii "+" ++ [65533]%N ++ runes_of_ascii "q" ++ [30]%N ++ runes_of_ascii "~#" ++ [65533; 65533]%N ++ runes_of_ascii "?&4" ++ [65533]%N ++ runes_of_ascii "ve" ++ [65533; 65533; 65533]%N ++ runes_of_ascii "j" ++ [65533; 65533; 3; 65533; 65533; 25; 16; 65533; 65533; 29]%N)).
Eval vm_compute in ("<<<M2756>>>" ++ check (runes_of_ascii "P={<`""w|U c%74a5s%ZJ!a{B`/*I$")).
Eval vm_compute in ("<<<M2649>>>" ++ check (runes_of_ascii "MetaData M { repeat u8 x, }")).
Eval vm_compute in ("<<<M3263>>>" ++ check (runes_of_ascii "root packet pack { }
// c
")).
Eval vm_compute in ("<<<M831>>>" ++ check (runes_of_ascii "packet u8x {int8 As ,}
")).
Eval vm_compute in ("<<<M141>>>" ++ check (runes_of_ascii "packet Header {
    }
")).
Eval vm_compute in ("<<<M465>>>" ++ check (runes_of_ascii "MetaData Z9_
    {
}")).
Eval vm_compute in ("<<<M2565>>>" ++ check (runes_of_ascii "packet A { repeat }")).
Eval vm_compute in ("<<<M2659>>>" ++ check (runes_of_ascii "options { a = b; }")).
Eval vm_compute in ("<<<M3131>>>" ++ check (runes_of_ascii "// c" ++ [8203]%N ++ runes_of_ascii "
packet A {
}")).
Eval vm_compute in ("<<<M3093>>>" ++ check (runes_of_ascii "packet A {
}// c" ++ [8232]%N)).
Eval vm_compute in ("<<<M1366>>>" ++ check (runes_of_ascii "
// @lengthOf(
")).
Eval vm_compute in ("<<<M4455>>>" ++ check (runes_of_ascii "// @lengthOf(")).
Eval vm_compute in ("<<<M2541>>>" ++ check (runes_of_ascii ":,;=()[]{}")).
Eval vm_compute in ("<<<M363>>>" ++ check (runes_of_ascii "// c


")).
Eval vm_compute in ("<<<M2558>>>" ++ check (runes_of_ascii "// " ++ [233]%N ++ runes_of_ascii "
" ++ [21517]%N)).
Eval vm_compute in ("<<<M3059>>>" ++ check (runes_of_ascii "// c ")).
Eval vm_compute in ("<<<M2516>>>" ++ check (runes_of_ascii """\\""")).
Eval vm_compute in ("<<<M2529>>>" ++ check (runes_of_ascii "1 2")).
Eval vm_compute in ("<<<M2521>>>" ++ check (runes_of_ascii "`a")).
Eval vm_compute in ("<<<M2845>>>" ++ check (runes_of_ascii "M")).
