From FP Require Import Lexer Parser ShowPT Digest Formatter.
From Coq Require Import String List NArith.
Import ListNotations.
Open Scope string_scope.
Set Printing Width 100000000.
Set Printing Depth 100000000.
Definition show_fres (r : fres) : string :=
  match r with
  | FOk s => "OK:" ++ sh_escaped s ""
  | FErr s => "ERR:" ++ sh_escaped s ""
  | FPanic p => "PANIC:" ++ p
  end.
Definition check (rs : list rune) : string := digest (show_fres (format_res rs)).
Definition full (rs : list rune) : string := show_fres (format_res rs).
Eval vm_compute in ("<<<M1298>>>" ++ check (runes_of_ascii "packet i8i8 {@lengthOf( // a // b
string_) // 50% %s
repeat	As {  char[007] Foo ,match// " ++ [27880; 37322]%N ++ runes_of_ascii "
charz as u8x{65535 :packetx [//
1 , 00
] : falsey
,
[ ""a\\""]
    : a1 }	,
}, @tag(
    65535	)// c
repeat Pad {u
Packet , } , //
repeat trueish`100% of %d`,
    float32 o @lengthOf( T
// " ++ [27880; 37322]%N ++ runes_of_ascii "
// " ++ [27880; 37322]%N ++ runes_of_ascii "
),match chars
as pack { 00 :
    u8x ,
    """ ++ [128512]%N ++ runes_of_ascii """:
    /// triple
    As, 255 :Pad
,[007 ] :
i64_,//	t
[ ""`tick`""
// `tick` ""quote"" 'q'
// `tick` ""quote"" 'q'
]
:// " ++ [27880; 37322]%N ++ runes_of_ascii "
x 255	:
A , }
, match msg_type // packet A { u8 x, }
as a1
{ [
0123456789// `tick` ""quote"" 'q'
]:
zchar ,
    [1
, ""{,}""
]
    :
    float ,
42: pack
, [ // " ++ [128512]%N ++ runes_of_ascii " emoji
""" ++ [28040; 24687]%N ++ runes_of_ascii """ , 4294967296
]
: Packet ,}  ,@tag( 1
)
Logon {repeat char[  00 // `tick` ""quote"" 'q'
] falsey
    ,
string packetx `a\` ,uint8x	@calculatedFrom( ""\n"" ) ,falsey ,
    }, @calculatedFrom(
/// triple
// `tick` ""quote"" 'q'
""it's""
) repeat char[255
    ] calculatedFrom `100% of %d`, } root // trailing space 
packet rootA// " ++ [27880; 37322]%N ++ runes_of_ascii "
{
} MetaData zchar { u8x _x
, char[]  roots, packetx
    u128 ,  metadata BodyLength , } packet
calculatedFrom
    {@rightPad
(
) stringy	@lengthOf(  calculatedFrom ) `a\`/// triple
,
match T as
    metadata {
    // packet A { u8 x, }
    4294967296 :  i64_ // `tick` ""quote"" 'q'
65535
: float// a // b
, [ ""abc"" ,	""1"" ,""{,}""
    ,
3 ,
10// " ++ [27880; 37322]%N ++ runes_of_ascii "
,3
    ,  0
] : i64_[ """ ++ [233]%N ++ runes_of_ascii "t" ++ [233]%N ++ runes_of_ascii """ ,
    ""it's""
, 0123456789 ,
""CRC32"",  ""x y""
, """"
]
    :
    Packet, 1
// c
// " ++ [128512]%N ++ runes_of_ascii " emoji
: u
    , }, u16
// a // b
// @lengthOf(
Header@lengthOf( metadata )  ,@leftPad ( ) string_ @lengthOf(  msg_type ) ,
@rightPad( ' ')
// trailing space 
/// triple
repeat
Pad{
options1
@calculatedFrom(""a\""b"" ) , leftPad  crc `tab	here`,},
// a // b
// 50% %s
@leftPad
( ' '
    ) @tag( 0 ) @tag(
65535
) char[ 3 // a // b
] repeatCount//	t
,
@lengthOf( Header ) @calculatedFrom(
    ""a\\"" ) match int as i64_ {
    ""1"":	metadata , } ,	repeat Z9_ {
    a1
`say ""hi""`,	int32
    x_y_z
// " ++ [128512]%N ++ runes_of_ascii " emoji
// 50% %s
, repeat i8i8, repeat char pack `a\` //
,} , match
    x as
calculatedFrom	{ [ """ ++ [28040; 24687]%N ++ runes_of_ascii """,""`tick`"" , ""a	b"" ,  7
, 0 ] : chars ,3 : T,
    //
    [ 65535
// 50% %s
//	t
,
    4294967296
] :matchKey , } ,} options { Packet =
// " ++ [128512]%N ++ runes_of_ascii " emoji
// trailing space 
' ';/// triple
u
    // @lengthOf(
    = u64
// packet A { u8 x, }
// @lengthOf(
u
    = ' '
x
= 7
}
")).
Eval vm_compute in ("<<<M1173>>>" ++ check (runes_of_ascii "packet MetaDataX { @lengthOf( chars ) zchar[  10
] int  , i8i8
@calculatedFrom(""\" ++ [233]%N ++ runes_of_ascii """ ) ,@rightPad
( '\x00' )repeat char[ 4294967296
    ] falsey
    //
    `doc`, } packet	msg_type {
// `tick` ""quote"" 'q'
//x
}root packet
//	t
// c
trueish {	zchar
`" ++ [233]%N ++ runes_of_ascii "` // @lengthOf(
,@lengthOf( msg_type
) match Logon as zchar {[
""" ++ [233]%N ++ runes_of_ascii "t" ++ [233]%N ++ runes_of_ascii """ ] : options1 ,
    }
, u32  Logon, uint16 chars `line1
line2`
    , A @calculatedFrom(""a\\""//x
) , // @lengthOf(
@leftPad ()
@tag(
//	t
// trailing space 
00
)
repeat char[]
trueish ,
} root packet metadata
{ lengthOf `` , @calculatedFrom(
    ""\" ++ [233]%N ++ runes_of_ascii """ ) As o , repeat crc, @leftPad ( '\x00'
) MetaDataX { match chars
as
    _x {
00 :
    Pad [
    ""it's""// @lengthOf(
]
    : Logon// @lengthOf(
,
255 : x [ """ ++ [28040; 24687]%N ++ runes_of_ascii """ , 0
    ,  007 , """ ++ [128512]%N ++ runes_of_ascii """ ]:metadata	[""" ++ [28040; 24687]%N ++ runes_of_ascii """, ""`tick`"" ,
""" ++ [233]%N ++ runes_of_ascii "t" ++ [233]%N ++ runes_of_ascii """ , 10 , // " ++ [27880; 37322]%N ++ runes_of_ascii "
10 ] :
T , } // a // b
,BodyLength @calculatedFrom(
""// no comment"" )  , tag { charz packetx`{ , }`,
match x
    as
    repeatCount { ""\" ++ [233]%N ++ runes_of_ascii """
    :
matchKey , ""it's"" : string_ // `tick` ""quote"" 'q'
,
""it's"" : Logon
    ,
    [
""// no comment"" ,
""" ++ [128512]%N ++ runes_of_ascii """ , 7
]: pack , [ 1, """" ]	:
MetaDataX	,  3 :
Z9_ // " ++ [128512]%N ++ runes_of_ascii " emoji
}
,int8 trueish @calculatedFrom( ""\" ++ [233]%N ++ runes_of_ascii """
)
    `" ++ [28040; 24687; 31867; 22411]%N ++ runes_of_ascii "`
    ,
    } ,} , char[]
    // trailing space 
    pack
, int64 len ,_x @lengthOf( trueish ) /// triple
`// not a comment`,zchar
    @calculatedFrom(
""{,}"" ) , } root packet charz {int8
    body`// not a comment`
    // a // b
    , @lengthOf(//	t
metadata) @calculatedFrom(	""it's"" ) @calculatedFrom( ""1""
    )int32 Foo  @lengthOf(string_  )
    //x
    ,
// 50% %s
//x
@tag(
0 )
char[]
x_y_z, // a // b
char trueish @lengthOf( chars
) , x_y_z @lengthOf( options1 ) `// not a comment` ,
@lengthOf( charz )// `tick` ""quote"" 'q'
f32 a1@lengthOf( MetaDataX ) `// not a comment`// " ++ [27880; 37322]%N ++ runes_of_ascii "
, string_ , @lengthOf(
    // a // b
    body
    ) @tag(65535 ) @calculatedFrom( ""// no comment"")
    T x_y_z, string Z9_`" ++ [233]%N ++ runes_of_ascii "` // " ++ [128512]%N ++ runes_of_ascii " emoji
,}
")).
Eval vm_compute in ("<<<M720>>>" ++ check (runes_of_ascii "packet falsey{ u16 // " ++ [128512]%N ++ runes_of_ascii " emoji
float
// trailing space 
//x
, string body@lengthOf( stringy
    ) `u8 x,` ,// " ++ [27880; 37322]%N ++ runes_of_ascii "
@calculatedFrom( ""a\""b""
//
//
)	MetaDataX @calculatedFrom( ""CRC32"" ) `it's` , @rightPad ( '0'
) @leftPad ( '0' )@lengthOf( Foo )i8i8  calculatedFrom , //
}
    //	t
    options
{  x_y_z
    //
    = '0'	; } packet string_ { @rightPad
(
'0' )
    repeat i8 // 50% %s
leftPad ,leftPad roots , zchar[ 7 //
] charz @calculatedFrom( ""1"" ) ,
match
Header as	leftPad { 10 :
    falsey ,
4294967296  : stringy 3: o[ 7 ,
4294967296 , 007 , ""`tick`"" , 0123456789// 50% %s
, 0123456789
/// triple
//x
,""1""
,""a\""b""
] : rootA // " ++ [128512]%N ++ runes_of_ascii " emoji
,""a\""b"" : MetaDataX
    , },	int16 u8x
@calculatedFrom(	""" ++ [233]%N ++ runes_of_ascii "t" ++ [233]%N ++ runes_of_ascii """ ) ,
char
//x
// " ++ [27880; 37322]%N ++ runes_of_ascii "
leftPad , zchar[
0123456789
] Packet  @calculatedFrom(	""\" ++ [233]%N ++ runes_of_ascii """) , f32a x	, // a // b
string i8i8  @lengthOf( len
    ) ,
    } MetaData // " ++ [128512]%N ++ runes_of_ascii " emoji
msg_type { len trueish, i16 msg_type`it's`, char[] falsey`` ,
    // trailing space 
    string
tag , }	packet trueish  { int32 Packet@lengthOf(
    chars ) `doc` , i8i8 { repeat //
packetx uint8x
    ,repeat uint64// 50% %s
Header `say ""hi""`, } , @calculatedFrom( ""packet""
) tag
    // 50% %s
    ,
    @lengthOf( rootA  )
@lengthOf(
trueish ) match	trueish
as options1 { 42
    : matchKey  ,} , i64 u8x
    ,@rightPad// packet A { u8 x, }
(
' ' ) char[	3 ] MetaDataX
@calculatedFrom(""" ++ [28040; 24687]%N ++ runes_of_ascii """ )
    , @lengthOf( len	)@tag( 10 )char[] As @lengthOf( Header
)
    // @lengthOf(
    `` ,@tag( 42	) Logon { repeat u32 a1, stringy @calculatedFrom(""" ++ [233]%N ++ runes_of_ascii "t" ++ [233]%N ++ runes_of_ascii """	) ,
repeat len, }
//x
// @lengthOf(
,
    u128 // trailing space 
u128  , }")).
Eval vm_compute in ("<<<M4365>>>" ++ check (runes_of_ascii "root packet string_ {
    repeat uint16 Logon `
        `,
    @calculatedFrom(""" ++ [233]%N ++ runes_of_ascii "t" ++ [233]%N ++ runes_of_ascii """)
    char[255] Logon,
    u64 pack @calculatedFrom(""a\\""),
    @rightPad('0')
    T {
        zchar[3] u8x @calculatedFrom(""CRC32"") `crlf
                line`,
        o {
            _x {
                float32 calculatedFrom,
            },
            repeat int64 u128,
            float32 string_ @lengthOf(msg_type) `" ++ [233]%N ++ runes_of_ascii "`,
        },
    },
    i16 charz `line1
        line2`,
    repeat int64 a1,
    @lengthOf(lengthOf)
    // " ++ [27880; 37322]%N ++ runes_of_ascii "
    @tag(00)
    Header body `" ++ [28040; 24687; 31867; 22411]%N ++ runes_of_ascii "`,
    @tag(65535)
    match pack as _x {
        ""abc"" : charz,
        255 : T,
        [""1"", 007] : rootA,
        00 : i64_,
    },
    char[] a1 `" ++ [233]%N ++ runes_of_ascii "`,
    matchKey {
        zchar[3] Pad `// not a comment`,
    },
}

options {
    packetx = ' '
    A = 0123456789;
    string_ = '\x00';
    float = ""a\""b"";
    tag = 65535
}

root packet matchKey {
    @calculatedFrom(""\n"")
    zchar crc `100% of %d`,
    repeat x {
        char[] options1 `two words`,
        repeat metadata {
            options1 @calculatedFrom(""CRC32""),
        },
        uint64 matchKey `" ++ [28040; 24687; 31867; 22411]%N ++ runes_of_ascii "`,
        leftPad,
    },
    repeat i64 _x `{ , }`,
    @tag(1)
    char[255] len,
}

root packet charz {
    float64 body @lengthOf(falsey),
    zchar repeatCount,
}

root packet asx {
    //x
    // 50% %s
}")).
Eval vm_compute in ("<<<M1407>>>" ++ check (runes_of_ascii "options {
    StringPrefixLenType = u16;
    ArrayPrefixLenType = u16;
}

packet SampleBinary {
    uint16 MsgType `" ++ [28040; 24687; 31867; 22411]%N ++ runes_of_ascii "`,
    u16 BodyLenght @lengthOf(Body) `" ++ [28040; 24687; 20307; 38271; 24230]%N ++ runes_of_ascii "`,
    match MsgType as Body {
        1 : Logon,
        2 : Logout,
        3 : Heartbeat,
        4 : RiskControlRequest,
        5 : RiskControlResponse,
    },
    @calculatedFrom(""CRC32"")
    u32 Ckecksum `" ++ [26657; 39564; 21644]%N ++ runes_of_ascii "`,
}

packet Logon {
    @leftPad('0')
    char[10] UserName `" ++ [29992; 25143; 21517]%N ++ runes_of_ascii "`,
    string Password `" ++ [23494; 30721]%N ++ runes_of_ascii "`,
    uint64 ClientId `" ++ [23458; 25143; 31471]%N ++ runes_of_ascii "ID`,
    u16 HeartbeatInterval `" ++ [24515; 36339; 38388; 38548]%N ++ runes_of_ascii "`,
}

packet Logout {
    @rightPad('0')
    char[10] UserName `" ++ [29992; 25143; 21517]%N ++ runes_of_ascii "`,
    uint64 ClientId `" ++ [23458; 25143; 31471]%N ++ runes_of_ascii "ID`,
}

packet Heartbeat {
}

packet RiskControlRequest {
    string UniqueOrderId `" ++ [21807; 19968; 35746; 21333; 21495]%N ++ runes_of_ascii "`,
    char[16] ClOrdID `" ++ [23458; 25143; 35746; 21333; 21495]%N ++ runes_of_ascii "`,
    char[3] MarketID `" ++ [24066; 22330]%N ++ runes_of_ascii "id`,
    char[12] SecurityID `" ++ [35777; 21048; 20195; 30721]%N ++ runes_of_ascii "`,
    char Side `" ++ [20080; 21334; 26041; 21521]%N ++ runes_of_ascii "`,
    char OrderType `" ++ [35746; 21333; 31867; 22411]%N ++ runes_of_ascii "`,
    u64 Price `" ++ [20215; 26684]%N ++ runes_of_ascii "`,
    u32 Qty `" ++ [25968; 37327]%N ++ runes_of_ascii "`,
    repeat string ExtraInfo `" ++ [38468; 21152; 20449; 24687]%N ++ runes_of_ascii "`,
    repeat SubOrder {
        char[16] ClOrdID `" ++ [23376; 35746; 21333; 21495]%N ++ runes_of_ascii "`,
        u64 Price `" ++ [23376; 35746; 21333; 20215; 26684]%N ++ runes_of_ascii "`,
        u32 Qty `" ++ [23376; 35746; 21333; 25968; 37327]%N ++ runes_of_ascii "`,
    },
}

packet RiskControlResponse {
    string UniqueOrderId `" ++ [21807; 19968; 35746; 21333; 21495]%N ++ runes_of_ascii "`,
    i32 Status `" ++ [29366; 24577]%N ++ runes_of_ascii "`,
    string Msg `" ++ [32467; 26524; 20449; 24687]%N ++ runes_of_ascii "`,
    repeat Detail,
}

packet Detail {
    string RuleName `" ++ [35268; 21017; 21517; 31216]%N ++ runes_of_ascii "`,
    u16 Code `" ++ [21407; 22240; 20195; 30721]%N ++ runes_of_ascii "`,
}")).
Eval vm_compute in ("<<<M4156>>>" ++ check (runes_of_ascii "packet trueish {
    @tag(65535)
    float @lengthOf(As) `" ++ [233]%N ++ runes_of_ascii "`,
    i32 lengthOf,
    repeat float64 stringy `" ++ [28040; 24687; 31867; 22411]%N ++ runes_of_ascii "`,
    @lengthOf(A)
    //	t
    @calculatedFrom(""a\\"")
    // @lengthOf(
    @leftPad('\x00')
    repeat u32 crc,
    chars,
    repeat string lengthOf `two words`,
}// @lengthOf(

packet metadata {
    @leftPad('0')
    A {
        // `tick` ""quote"" 'q'
        asx {
            metadata `crlf
            line`,
            a1 @lengthOf(zchar),
            // " ++ [27880; 37322]%N ++ runes_of_ascii "
            i32 _x,
            T {
                match repeatCount as charz {
                    // c
                    0123456789 : metadata,
                },
                float64 rootA `" ++ [28040; 24687; 31867; 22411]%N ++ runes_of_ascii "`,
                /// triple
                // " ++ [128512]%N ++ runes_of_ascii " emoji
            },
        },
        roots @lengthOf(falsey) `doc`,
        //x
        // a // b
    },
    int32 x,
    float32 calculatedFrom,//
    @lengthOf(charz)
    @calculatedFrom(""x y"")
    @lengthOf(rootA)
    char[00] f32a @calculatedFrom(""a\\"") `crlf
    line`,
    zchar[10] metadata,
    zchar[007] leftPad,
    repeat i8i8 rootA,
    uint64 calculatedFrom @calculatedFrom(""x y"") `tab	here`,
}")).
Eval vm_compute in ("<<<M491>>>" ++ check (runes_of_ascii "
root
    packet
i64_
    {  char[
    0123456789 ]
calculatedFrom
    // c
    `tab	here` , @calculatedFrom(""{,}"" ) crc // packet A { u8 x, }
_x `say ""hi""` //	t
,float32 Foo
// a // b
//
@calculatedFrom( ""a	b"") ,repeat zchar[
3
// @lengthOf(
// c
] crc `{ , }` /// triple
,
    u16
// packet A { u8 x, }
//
len `a\` , //	t
u8 int
`// not a comment` , @tag( // " ++ [27880; 37322]%N ++ runes_of_ascii "
00
// a // b
//
) zchar[0
]Header ,  @leftPad (  '\x00' ) @calculatedFrom(
""a	b""
// packet A { u8 x, }
// trailing space 
) // " ++ [128512]%N ++ runes_of_ascii " emoji
@calculatedFrom( """" ) f32a uint8x  , @lengthOf( repeatCount ) _x
@calculatedFrom( ""packet"") , }
    options
{ calculatedFrom
    // trailing space 
    =3 ;}
options	{ repeatCount = uint16  As
= """ ++ [128512]%N ++ runes_of_ascii """;
}
packet u{ zchar[
    65535 ] lengthOf
@calculatedFrom(//
""packet"" ) ,// " ++ [27880; 37322]%N ++ runes_of_ascii "
@lengthOf( i64_  ) chars,
@calculatedFrom(
""\n""
    )@rightPad//	t
( )
@lengthOf(
    // a // b
    int) // `tick` ""quote"" 'q'
match options1 as asx  {
255:a1 , } ,@tag( 4294967296 ) //
@calculatedFrom(
""a\\"" ) @tag(	4294967296 ) repeat //
char[] chars `{ , }`
,	} packet // 50% %s
f32a { asx, }
")).
Eval vm_compute in ("<<<M1199>>>" ++ check (runes_of_ascii "packet len
{
    repeat zchar[ 4294967296 ] roots
`tab	here` , @tag(
    // @lengthOf(
    1 //
)
char[0123456789 ] MetaDataX ,
} MetaData
    stringy
{
    // " ++ [128512]%N ++ runes_of_ascii " emoji
    packetx
    falsey,
string
    a1 `u8 x,`
, int64 matchKey ,
string_ matchKey `" ++ [233]%N ++ runes_of_ascii "` ,chars Logon
    `100% of %d` , // " ++ [128512]%N ++ runes_of_ascii " emoji
}
packet
//
/// triple
int
{u32 float `" ++ [233]%N ++ runes_of_ascii "` , @calculatedFrom(
    // @lengthOf(
    ""a\""b"" ) match u128 as packetx{
// 50% %s
// `tick` ""quote"" 'q'
[ 3 ,
""\" ++ [233]%N ++ runes_of_ascii """] :
i8i8 ,007 :
    chars, [
    ""x y"" ,	""packet""
, 10 // trailing space 
]: rootA , [ 00 , 0 ] : x
,
} ,// trailing space 
tag {	int8
trueish @lengthOf( Header
) , repeatCount
@calculatedFrom( ""{,}"")
, } , @tag( 007 )
    repeat MetaDataX  metadata , @tag(42
/// triple
//x
) char[ 00 ]string_@calculatedFrom(
""// no comment"")// `tick` ""quote"" 'q'
,
    char[]Pad`doc` ,repeat
char[
    7 ] Logon , }
MetaData _x
{Foo
packetx `" ++ [28040; 24687; 31867; 22411]%N ++ runes_of_ascii "`, i32 Logon,
matchKey // c
uint8x
    , zchar[ 1
    // packet A { u8 x, }
    ]
Foo, metadata
falsey// `tick` ""quote"" 'q'
`a\` ,}
")).
Eval vm_compute in ("<<<M4379>>>" ++ check (runes_of_ascii "MetaData tag {
    u16 leftPad `doc`,
    chars _x `say ""hi""`,
}// @lengthOf(

root packet crc {
    packetx o `// not a comment`,
    char[] matchKey,
    @leftPad()
    repeat repeatCount `a\`,
    @leftPad('0')
    Header {
        match rootA as packetx {
            """" : options1,
            [""CRC32"", ""packet"", ""1""] : x,
            [""`tick`""] : len,
        },
    },
}

packet roots {
    //x
    @tag(1)
    charz,
    // @lengthOf(
    //x
    int32 msg_type,
    @lengthOf(matchKey)
    @calculatedFrom(""a\\"")
    repeat trueish {
        u x,
    },
    i32 msg_type,
    match trueish as rootA {
        """" : f32a,
    },
    @lengthOf(repeatCount)
    i64 packetx @lengthOf(i64_),
    repeat i32 o `// not a comment`,
    @tag(42)
    @calculatedFrom(""1"")
    @lengthOf(crc)
    //
    A o `two words`,
    repeat i64_,
    chars `" ++ [233]%N ++ runes_of_ascii "`,
}

options {
    A = ""CRC32""
}

MetaData u8x {
    u8 string_ `line1
        line2`,
    BodyLength i8i8 `" ++ [28040; 24687; 31867; 22411]%N ++ runes_of_ascii "`,
}")).
Eval vm_compute in ("<<<M1006>>>" ++ check (runes_of_ascii "packet stringy {
    i16 _x @calculatedFrom( ""it's"" ) `a\`,
@rightPad	( '0' )match	i64_
as body { 007 : i64_ 42
:
trueish 65535
//
// " ++ [128512]%N ++ runes_of_ascii " emoji
: // 50% %s
As ,
0123456789 : metadata
    // packet A { u8 x, }
    ""packet"" //x
: Pad , // a // b
} , repeat zchar	{
repeat zchar[ 4294967296]Foo`line1
line2` ,
// @lengthOf(
/// triple
match metadata
    as trueish // @lengthOf(
{
// 50% %s
// `tick` ""quote"" 'q'
""abc"" :i8i8,[	0  , 7
, 00 ,
0 , // 50% %s
10] :
    Pad// @lengthOf(
, }// packet A { u8 x, }
,  repeat //x
x_y_z Logon `crlf
line`
    // packet A { u8 x, }
    ,
i8i8 `it's`  , } , @rightPad
('\x00'
    )@lengthOf( rootA )
    @lengthOf(
    body // trailing space 
)
    // c
    match
    /// triple
    u
/// triple
// packet A { u8 x, }
as falsey {  65535:
    A	""abc""
: falsey , [  ""a\\""// c
] :
    // " ++ [27880; 37322]%N ++ runes_of_ascii "
    uint8x [ ""x y""  ]
//	t
/// triple
:x_y_z , """ ++ [233]%N ++ runes_of_ascii "t" ++ [233]%N ++ runes_of_ascii """: f32a , 007 : // c
lengthOf} , }
")).
Eval vm_compute in ("<<<M4097>>>" ++ check (runes_of_ascii "
root 
packet
    crc

    {
    u32
metadata

    ,

As
falsey//x
    	`crlf
line`,  repeatCount {
repeat
	x_y_z 	 //	t
	{repeat  zchar crc	`u8 x,` 
        /// triple
	// @lengthOf(
  	,  
      // trailing space 
	}

,  char[] MetaDataX
@lengthOf(	Foo
	) `" ++ [28040; 24687; 31867; 22411]%N ++ runes_of_ascii "`, } 
, }

    root

    packet  len

{  }packet 	 //x
roots {@tag( 007
)rootA
    {
u32 Z9_	`doc`,
} 
, repeat
rootA
	, 
@tag(	1
	)
@lengthOf(
//	t

	// 50% %s
	rootA ) u64

packetx// trailing space 
  ,

    repeat	f64	u8x ,
	f32  string_`two words`
,
char[

4294967296// @lengthOf(
  	]charz

@calculatedFrom( ""CRC32""  )  ,  char[]

options1
, char[ 42 //

	]  // a // b
      Logon  @calculatedFrom(  
  // c
	// @lengthOf(
    """ ++ [233]%N ++ runes_of_ascii "t" ++ [233]%N ++ runes_of_ascii """ 
)
`tab	here`
,

@rightPad ( 	 // @lengthOf(
	' ' ) match  matchKey

    as	packetx
	{ 007// trailing space 
	: len	,

    } 
,

    }

")).
Eval vm_compute in ("<<<M4205>>>" ++ check (runes_of_ascii "packet x_y_z {
    @calculatedFrom(""" ++ [128512]%N ++ runes_of_ascii """)
    //
    match a1 as MetaDataX {
        """ ++ [128512]%N ++ runes_of_ascii """ : u8x,
        [""" ++ [28040; 24687]%N ++ runes_of_ascii """] : asx,
        255 : falsey,
        [007] : stringy,
        10 : chars,
    },
    string_ {
        char[4294967296] packetx,
    },
}

root packet u128 {
    calculatedFrom MetaDataX `it's`,
    repeat leftPad x_y_z,
}

packet BodyLength {
    char Pad @lengthOf(uint8x) `line1
    line2`,
    uint16 charz,
    // " ++ [128512]%N ++ runes_of_ascii " emoji
    // c
    @leftPad('\x00')
    repeat A {
        repeat float32 Z9_,
        u16 A @calculatedFrom(""1"") ``,
        Pad {
            Packet {
                repeat uint8 trueish,
                stringy @lengthOf(u) `doc`,// c
                charz Foo `
                `,
                uint16 falsey `100% of %d`,
            },
        },
        f32 roots,
    },
    // c
}")).
Eval vm_compute in ("<<<M4311>>>" ++ check (runes_of_ascii "root packet uint8x {
    // " ++ [27880; 37322]%N ++ runes_of_ascii "
    MetaDataX `doc`,
    char A `line1
    line2`,
    match BodyLength as roots {
        [""// no comment"", 4294967296, """ ++ [128512]%N ++ runes_of_ascii """] : falsey,
        // @lengthOf(
        """ ++ [233]%N ++ runes_of_ascii "t" ++ [233]%N ++ runes_of_ascii """ : o,
        [7] : o,
        65535 : int,
        3 : int,
        65535 : Foo,
        // packet A { u8 x, }
    },
    @lengthOf(MetaDataX)
    repeat Packet chars,
    @calculatedFrom(""abc"")
    @lengthOf(uint8x)
    @leftPad()
    // " ++ [27880; 37322]%N ++ runes_of_ascii "
    i8 x,
    repeat As {
        _x @calculatedFrom(""x y"") `100% of %d`,
        i16 options1 @lengthOf(o),
        repeat string i8i8,
        char[255] packetx `a\`,
    },
    @leftPad('\x00')
    u32 u128 @lengthOf(msg_type) `// not a comment`,
    zchar @lengthOf(crc),
    char[0] a1,
    @leftPad(' ')
    char[4294967296] int,
}")).
Eval vm_compute in ("<<<M3684>>>" ++ check (runes_of_ascii "packet u {
    match Z9_ as Z9_ {
        7 : packetx,
    },
    uint8x `// not a comment`,
    @lengthOf(x)
    pack `line1
        line2`,
    @tag(65535)
    x_y_z `a\`,
    float32 tag `100% of %d`,
    leftPad leftPad,
    @calculatedFrom(""CRC32"")
    @rightPad(' ')
    string x,// " ++ [128512]%N ++ runes_of_ascii " emoji
    @leftPad(' ')
    i8 T @lengthOf(Z9_),
    packetx @calculatedFrom(""packet""),
}

options {
    u8x = 007;
    x_y_z = ""a	b"";
}

packet falsey {
    @lengthOf(int)
    @calculatedFrom(""// no comment"")
    @calculatedFrom(""" ++ [28040; 24687]%N ++ runes_of_ascii """)
    // @lengthOf(
    zchar[4294967296] u,
    int8 BodyLength @lengthOf(f32a),
    @tag(4294967296)
    uint16 calculatedFrom `doc`,
    float32 As,
}

packet tag {
}

packet leftPad {
    @rightPad()
    repeat char[42] i8i8,
}")).
Eval vm_compute in ("<<<M4452>>>" ++ check (runes_of_ascii "packet body {
    @calculatedFrom(""x y"")
    charz `100% of %d`,
    @tag(007)
    repeat packetx,
    @calculatedFrom(""\" ++ [233]%N ++ runes_of_ascii """)
    int8 charz @calculatedFrom(""`tick`""),
    @lengthOf(trueish)
    @rightPad(' ')
    repeat u lengthOf `// not a comment`,
    @rightPad('0')
    @rightPad(' ')
    @tag(4294967296)
    x trueish,
    charz @lengthOf(_x),
    @calculatedFrom(""// no comment"")
    @rightPad()
    @calculatedFrom(""\" ++ [233]%N ++ runes_of_ascii """)
    match x as chars {
        10 : u128,
        007 : chars,
        ""it's"" : u128,
        255 : trueish,
    },
    match falsey as roots {
        ""// no comment"" : lengthOf,
        """ ++ [233]%N ++ runes_of_ascii "t" ++ [233]%N ++ runes_of_ascii """ : len,
        ""1"" : i8i8,
        [0, """ ++ [28040; 24687]%N ++ runes_of_ascii """, 255] : uint8x,
        10 : T,
        ""x y"" : u128,
    },
}")).
Eval vm_compute in ("<<<M851>>>" ++ check (runes_of_ascii "MetaData	u8x { int8 trueish // a // b
, }
packet crc {uint8
a1 `
` , u32	x  @calculatedFrom(
""abc"") ,@lengthOf(
crc ) repeat	char[ // " ++ [27880; 37322]%N ++ runes_of_ascii "
3
    ]
charz
`it's` , @calculatedFrom( ""\" ++ [233]%N ++ runes_of_ascii """
)repeat uint8x T `doc`
    , } packet
Foo {  @lengthOf(	msg_type)
    repeat uint64// " ++ [27880; 37322]%N ++ runes_of_ascii "
float , a1
    , repeatCount {
    char[00] u8x
    @lengthOf(
    Header )
    `{ , }` , len @lengthOf(options1
) ,
    x	@lengthOf( pack) `" ++ [28040; 24687; 31867; 22411]%N ++ runes_of_ascii "` , char[] leftPad
// a // b
// @lengthOf(
`` ,// packet A { u8 x, }
} , // " ++ [128512]%N ++ runes_of_ascii " emoji
@tag(
    4294967296
)
    @lengthOf( calculatedFrom
) @calculatedFrom( ""1"" ) repeat zchar[10 ] asx `" ++ [233]%N ++ runes_of_ascii "` ,
//x
// " ++ [27880; 37322]%N ++ runes_of_ascii "
@lengthOf(
    float )
repeat BodyLength, string asx`crlf
line` ,}
")).
Eval vm_compute in ("<<<M3324>>>" ++ check (runes_of_ascii "// top
options
    // c0
{
    // c1
}
    // c2
root
    // c3
packet
    // c4
u
    // c5
{
    // c6
@rightPad
    // c7
(
    // c8
)
    // c9
@tag(
    // c10
42
    // c11
)
    // c12
@calculatedFrom(
    // c13
""""
    // c14
)
    // c15
repeat
    // c16
u8
    // c17
msg_type
    // c18
,
    // c19
@lengthOf(
    // c20
stringy
    // c21
)
    // c22
@leftPad
    // c23
(
    // c24
'\x00'
    // c25
)
    // c26
@tag(
    // c27
4294967296
    // c28
)
    // c29
A
    // c30
`crlf
line`
    // c31
,
    // c32
zchar[
    // c33
1
    // c34
]
    // c35
asx
    // c36
`" ++ [233]%N ++ runes_of_ascii "`
    // c37
,
    // c38
charz
    // c39
,
    // c40
}
    // c41
")).
Eval vm_compute in ("<<<M1004>>>" ++ check (runes_of_ascii "root
    // @lengthOf(
    packet falsey
{ @leftPad ( )repeat T
    //	t
    { x_y_z @calculatedFrom( ""\" ++ [233]%N ++ runes_of_ascii """)
// a // b
/// triple
, }
,
} packet
//	t
// " ++ [128512]%N ++ runes_of_ascii " emoji
matchKey{ @tag(7 )	leftPad @calculatedFrom( ""\" ++ [233]%N ++ runes_of_ascii """ ) `crlf
line`,
    @calculatedFrom( ""{,}""
    ) leftPad u128 , // packet A { u8 x, }
@calculatedFrom(""""  )@calculatedFrom(""a\\"" ) uint32 x`" ++ [28040; 24687; 31867; 22411]%N ++ runes_of_ascii "` ,
    // packet A { u8 x, }
    @tag(  0123456789 )// 50% %s
@tag( 007) @rightPad( '0'
) repeat trueish ,  stringy // packet A { u8 x, }
@lengthOf( stringy ) `line1
line2`,
    @tag( 255)repeat int8
repeatCount ,} //x
MetaData
repeatCount { // @lengthOf(
char[ 0123456789] Foo
`{ , }`, }
")).
Eval vm_compute in ("<<<M294>>>" ++ check (runes_of_ascii "packet falsey { options1 float , i8i8
{ a1  @lengthOf( calculatedFrom ) ,	zchar[	0  ]Foo
    // packet A { u8 x, }
    ,repeat T
    //
    {
    match trueish as crc
{ 42 : T
, } ,string	_x `tab	here` ,repeatCount // trailing space 
{ char[]
// `tick` ""quote"" 'q'
// " ++ [128512]%N ++ runes_of_ascii " emoji
u,u16 msg_type `{ , }` , }
, } , match
    /// triple
    x_y_z
as	zchar  { [ 00 ]: Z9_, }
, } ,
repeat u8 charz , @tag(
    255 ) match lengthOf as
tag
{  ""1"" :  u8x , """ ++ [28040; 24687]%N ++ runes_of_ascii """ :msg_type[ 7 ,
""\n"" ] : Z9_ , 10: leftPad ,
    }
, @calculatedFrom( ""a\\"")	string
    rootA @calculatedFrom( ""a	b"") `` , u8x `a\`
    // `tick` ""quote"" 'q'
    ,}
")).
Eval vm_compute in ("<<<M3583>>>" ++ check (runes_of_ascii "

  packet	uint8x // 50% %s
{
char[]

crc  `" ++ [233]%N ++ runes_of_ascii "`
	,
u8	//x
BodyLength `crlf
line`

,  @tag(	65535
	) @calculatedFrom(""packet""
)	uint8x

    {lengthOf{
match

u8x

as

msg_type{
	""{,}""
: metadata 
,
4294967296
:	float	,
10
:
	a1,  65535:len
	, 
""" ++ [128512]%N ++ runes_of_ascii """  : 
zchar ,

[""" ++ [128512]%N ++ runes_of_ascii """
]
	:

    Pad

,  }
, zchar[
	42 ]	leftPad
	,f64 /// triple
	crc ,
	u64 
A
@calculatedFrom( ""CRC32"" 
) ,  } 
,}

,@lengthOf(

crc )
	repeat  u128 
Pad ,
	stringy trueish`say ""hi""`

    ,	As matchKey , @tag(
10 ) charz @calculatedFrom( ""it's"" 
)  // trailing space 
  ,// " ++ [128512]%N ++ runes_of_ascii " emoji
	@rightPad 
(
' ' )
	a1
    float
,	}")).
Eval vm_compute in ("<<<M4423>>>" ++ check (runes_of_ascii "
// top
packet // c0a
	// c0b
  A 	 // c1
	{// c2a
	// c2b
  u8  
  // c3
	a // c4a
	// c4b
,	// c5a
	  // c5b
  } 
    // c6
	packet// c7a
      // c7b
	B	// c8

{ 
	// c9

u16
    // c10
b  // c11
	, // c12
	}  // c13a
  // c13b
    root 
// c14
  packet 
  // c15
    P  // c16a
// c16b
{// c17
	  u8  // c18
  K
// c19
, 	 // c20a
    // c20b
      match  // c21
    K 
// c22
as 

// c23
M
	{ 	 // c25a
	  // c25b
1  // c26a
	// c26b
  :
    A 
        // c28
,
1 // c30a
	// c30b
	: 	 // c31a
	// c31b
      B	// c32a
	// c32b
,
// c33

},	}

")).
Eval vm_compute in ("<<<M73>>>" ++ check (runes_of_ascii "packet	x_y_z
{ @tag( 00 // @lengthOf(
) i16 packetx
,string stringy @lengthOf( u
    ) , repeat packetx
,	@rightPad
    (
'\x00' ) @tag(
007 ) uint64 f32a
@lengthOf( asx
) ,
    msg_type@calculatedFrom(
    ""a\""b"" ), string_
    @lengthOf( packetx	), char[]calculatedFrom, @lengthOf( msg_type)  @calculatedFrom( """" )
    @rightPad
( '0' ) rootA , @leftPad(
' ' )  match
_x  as
    string_{ 00 :
chars ,
    } ,
u32 Z9_ `" ++ [233]%N ++ runes_of_ascii "` , }MetaData i64_
//
//x
{u8x//	t
Logon
    , char	Z9_
, char[] Packet`u8 x,` , char[ 10
    ] // a // b
options1
    , }")).
Eval vm_compute in ("<<<M4443>>>" ++ check (runes_of_ascii "packet body {
    @lengthOf(zchar)
    f32 i8i8,
    uint8x zchar `u8 x,`,/// triple
}

packet pack {
    @lengthOf(u)
    /// triple
    char[] charz @lengthOf(o),
    f32a @calculatedFrom(""packet""),
    @lengthOf(metadata)
    repeat int32 repeatCount,
    @leftPad('\x00')
    char[] chars @lengthOf(roots),
    @calculatedFrom(""\n"")
    matchKey,
}

packet u8x {
    @calculatedFrom(""{,}"")
    uint8 string_ @lengthOf(trueish),
    Header {
        char[] lengthOf `u8 x,`,
    },// 50% %s
    i16 u `say ""hi""`,
}
// " ++ [27880; 37322]%N)).
Eval vm_compute in ("<<<M1293>>>" ++ check (runes_of_ascii "packet msg_type {f32
    // `tick` ""quote"" 'q'
    i8i8
//	t
// a // b
@calculatedFrom( ""// no comment"" ), } root packet uint8x
    { @leftPad	( ' ' ) match body as // " ++ [27880; 37322]%N ++ runes_of_ascii "
u128 { ""`tick`""  : // `tick` ""quote"" 'q'
o , } ,} packet repeatCount	{ @rightPad
    ( ' ' )repeat body
// " ++ [128512]%N ++ runes_of_ascii " emoji
// a // b
{ // 50% %s
zchar[
007 ]
    // " ++ [27880; 37322]%N ++ runes_of_ascii "
    options1 `a\`  , char[ 4294967296 ] Packet@lengthOf( Foo ) ,
    }
,repeat	u32 o
, zchar[
    3]
    // @lengthOf(
    o `doc` , len
    `{ , }`	,/// triple
}")).
Eval vm_compute in ("<<<M895>>>" ++ check (runes_of_ascii "
root packet x{  }
    packet
    Foo { packetx a1 , metadata u128
`line1
line2` , @tag(
0123456789 ) @calculatedFrom( //
""// no comment""
    // 50% %s
    )Packet
`// not a comment` , u32 packetx
,	} options { i64_ = // a // b
uint32
    ; u128
=
42  Packet
    ='\x00' i64_ = 007
;
Pad = char[65535 ] ;
    } root packet
// `tick` ""quote"" 'q'
//
msg_type { match	float
    //
    as falsey {
// " ++ [27880; 37322]%N ++ runes_of_ascii "
// 50% %s
0123456789 :x ,	""abc"" : x // `tick` ""quote"" 'q'
} // " ++ [128512]%N ++ runes_of_ascii " emoji
, }")).
Eval vm_compute in ("<<<M3482>>>" ++ check (runes_of_ascii "options {
    LittleEndian = true;
    FixedStringPadFromLeft = true;
    FixedStringPadChar = '0';
}
packet Reject {
    @rightPad('0') char[1] Tail,
    string msgKind,
    InQty95 {
        u8 pad0,
    },
}
packet Order {
    uint32 Ref,
    repeat i16 seqNo,
    @rightPad('\x00') char[5] Tail,
    Reject,
    f64 clOrdID,
}
packet Heartbeat {
    repeat Order,
    zchar[8] Tail,
}
root packet Fill {
    repeat Order,
    repeat string lastPx,
}
")).
Eval vm_compute in ("<<<M153>>>" ++ check (runes_of_ascii "packet calculatedFrom {	char matchKey, zchar[
//	t
// `tick` ""quote"" 'q'
7]  x_y_z `// not a comment`
    , @leftPad
( ' ' ) // packet A { u8 x, }
@rightPad // trailing space 
(
    )repeat  Header	`` ,
body  { repeat i32
BodyLength, } , match Foo as//x
pack {
    0
: _x// @lengthOf(
,
    }
    , int64
Foo
`100% of %d`
    // `tick` ""quote"" 'q'
    ,
} packet asx{}options
{ o =007; } packet A
{ }	options { Logon = true}
")).
Eval vm_compute in ("<<<M3371>>>" ++ check (runes_of_ascii "// top
packet
    // c0
B // c1a
  // c1b
{
    // c2
u8 // c3
a
    // c4
, } // c6a
  // c6b
root // c7a
  // c7b
packet // c8a
  // c8b
P
    // c9
{ u8 K // c12a
  // c12b
, u8 // c14a
  // c14b
L @lengthOf( // c16
Body
    // c17
)
    // c18
, // c19a
  // c19b
match // c20a
  // c20b
K // c21a
  // c21b
as Body
    // c23
{ // c24
1 : // c26a
  // c26b
B
    // c27
,
    // c28
} // c29
, // c30
} // c31
")).
Eval vm_compute in ("<<<M647>>>" ++ check (runes_of_ascii "packet Z9_ {  char[65535
//	t
// packet A { u8 x, }
] stringy , match _x as
BodyLength	{ 0123456789 : repeatCount, 007 // " ++ [27880; 37322]%N ++ runes_of_ascii "
:
_x
    ,  }
// a // b
// @lengthOf(
, }
// 50% %s
// `tick` ""quote"" 'q'
packet MetaDataX { // a // b
f32a int , i64 pack ,}MetaData roots
// a // b
// " ++ [27880; 37322]%N ++ runes_of_ascii "
{ T Z9_ ,
u8
    packetx
    `
` ,x
trueish,uint8x msg_type , lengthOf// `tick` ""quote"" 'q'
crc `say ""hi""` , } // a // b")).
Eval vm_compute in ("<<<M226>>>" ++ check (runes_of_ascii "MetaData stringy
{
    char[]
    u
    ,	leftPad body, char[] matchKey , u32
    Z9_	, crc body `" ++ [28040; 24687; 31867; 22411]%N ++ runes_of_ascii "`, uint8 packetx , } root //	t
packet
    pack// " ++ [128512]%N ++ runes_of_ascii " emoji
{ @rightPad( ' ' ) float
    int ,
@calculatedFrom( """" )
body
    {
match
lengthOf
    // a // b
    as a1 { 255 // `tick` ""quote"" 'q'
: trueish
    ,""\" ++ [233]%N ++ runes_of_ascii """
:
// 50% %s
// @lengthOf(
trueish 1
:rootA	}
    ,	},
}	options { }")).
Eval vm_compute in ("<<<M511>>>" ++ check (runes_of_ascii "root
    packet Z9_ {uint32 matchKey `{ , }` ,
    // " ++ [128512]%N ++ runes_of_ascii " emoji
    len @lengthOf(T ) , char[
1 ]
A, }
    //x
    packet
// a // b
// trailing space 
u128 { @calculatedFrom(
    ""\n"" )	repeat Pad
A , } root// c
packet u
    {
@leftPad (  '0' )
    char[ 65535]
    leftPad
    @calculatedFrom(
// trailing space 
// a // b
""{,}"") ,
u16
    msg_type ,// " ++ [128512]%N ++ runes_of_ascii " emoji
}
")).
Eval vm_compute in ("<<<M4173>>>" ++ check (runes_of_ascii "
packet

crc {

match

    asx
	as  tag
	{ 1

    :u8x
	,
    [
4294967296 ,
""CRC32"" , 65535 
,""x y"" ,	00

]

: calculatedFrom

,
""a\\""	:	packetx

    ,} ,metadata@calculatedFrom( // packet A { u8 x, }
  """ ++ [28040; 24687]%N ++ runes_of_ascii """
	)
``
, string string_ 
@calculatedFrom( ""a	b""
    )
,  } packet

    options1

{

    char[]	MetaDataX@lengthOf(
roots	) ,
	} ")).
Eval vm_compute in ("<<<M751>>>" ++ check (runes_of_ascii "packet
body
{
roots
@lengthOf( stringy )`" ++ [28040; 24687; 31867; 22411]%N ++ runes_of_ascii "`,  @leftPad(	' ' ) @rightPad (' ' ) @leftPad () a1 @lengthOf( // trailing space 
u
)
// trailing space 
// " ++ [27880; 37322]%N ++ runes_of_ascii "
,  match x as x_y_z
    {[  255 , ""packet""
    // packet A { u8 x, }
    , 007 ,
    10 ,""" ++ [233]%N ++ runes_of_ascii "t" ++ [233]%N ++ runes_of_ascii """ , 3
    //x
    , ""it's""
    ] :	leftPad
    // c
    , }, zchar[1
    ] i64_ ,}")).
Eval vm_compute in ("<<<M519>>>" ++ check (runes_of_ascii "//
MetaData //	t
a1{trueish len ,
} MetaData
x { char[]T,char[] x
, zchar[4294967296	]
float ,
    float32 u128
, char[ 00 ] rootA
    , x asx // " ++ [27880; 37322]%N ++ runes_of_ascii "
, } MetaData _x
{
    uint64
Foo, char[ 00] u8x`say ""hi""`	, } packet
    repeatCount { lengthOf
    rootA , } root
packet float
    // trailing space 
    {
// 50% %s
//
}")).
Eval vm_compute in ("<<<M3477>>>" ++ check (runes_of_ascii "
options	{	LittleEndian =	true  ;StringPrefixLenType =
u32; 
FixedStringPadFromLeft  =

    false

;

FixedStringPadChar
=

'0' ;

} packet Party { int16
Acct

    ,
}	packet Quote
    {  } root
packet 
Order

{
    string

Side2 ,repeat
string OrderId 
,
repeat

string venue

    ,	Quote

,	}

")).
Eval vm_compute in ("<<<M740>>>" ++ check (runes_of_ascii "root packet u
{ _x	@calculatedFrom(// " ++ [27880; 37322]%N ++ runes_of_ascii "
""// no comment"" ), @lengthOf( // " ++ [27880; 37322]%N ++ runes_of_ascii "
i64_  )
    char f32a @calculatedFrom(// 50% %s
""`tick`"" )
, @tag( 007)
@lengthOf( a1)
@leftPad (' ' )
    /// triple
    f32 _x
    `it's` , @tag( 65535
    ) zchar[ 0 ] i64_@lengthOf(  options1 ) ,}
// " ++ [128512]%N ++ runes_of_ascii " emoji
")).
Eval vm_compute in ("<<<M1366>>>" ++ check (runes_of_ascii "
packet
x { packetx  @calculatedFrom(
    // 50% %s
    ""1"" ) `{ , }` ,
repeat u8 packetx	, tag @calculatedFrom(
""\n"" ) , @lengthOf( len )
    u16 Header ,
    } options {
    u = """ ++ [128512]%N ++ runes_of_ascii """ }MetaData x_y_z{
float64  lengthOf ,// a // b
}	root// " ++ [128512]%N ++ runes_of_ascii " emoji
packet // 50% %s
BodyLength {  }
")).
Eval vm_compute in ("<<<M1704>>>" ++ check (runes_of_ascii "// 50% %s
packet	a1
    { zchar[
// a // b
// 50% %s
007]
T `it's`
    ,@rightPad
    // a // b
    (
'\x00')
    @leftpado repeatCount , }  packet Logon {  }packet	Logon //x
{ repeat // " ++ [128512]%N ++ runes_of_ascii " emoji
uint16 u128
    //
    `a\`,
falsey
@calculatedFrom(""packet"" ) ,
    } 	 ")).
Eval vm_compute in ("<<<M3466>>>" ++ check (runes_of_ascii "options {
    LittleEndian = true;
    StringPrefixLenType = u16;
    ArrayPrefixLenType = u8;
}
packet Reject {
    repeat char[1] price,
    repeat InFlags60 {
        u8 pad0,
    },
    u8 Qty,
}
root packet Heartbeat {
    repeat Reject,
    repeat string sym,
}
")).
Eval vm_compute in ("<<<M1657>>>" ++ check (runes_of_ascii "// 50% %s
packet	a1
    { zchar[
// a // b
// 50% %s
007]
T `it's`
    ,@rightPad
    // a // b
    (
'\x00')
    o repeatCount , }  packet Logon {  }packet	Logon //x
{ repeat // " ++ [128512]%N ++ runes_of_ascii " emoji
uint16 u128
    //
    `a\`, ,
falsey
@calculatedFrom(""packet"" ) ,
    } 	 ")).
Eval vm_compute in ("<<<M1559>>>" ++ check (runes_of_ascii "// 50% %s
packet	a1
    { zchar[
// a // b
// 50% %s
007]
T `it's`
    ]@rightPad
    // a // b
    (
'\x00')
    o repeatCount , }  packet Logon {  }packet	Logon //x
{ repeat // " ++ [128512]%N ++ runes_of_ascii " emoji
uint16 u128
    //
    `a\`,
falsey
@calculatedFrom(""packet"" ) ,
    } 	 ")).
Eval vm_compute in ("<<<M1526>>>" ++ check (runes_of_ascii "// 50% %s
packet	a1
     zchar[
// a // b
// 50% %s
007]
T `it's`
    ,@rightPad
    // a // b
    (
'\x00')
    o repeatCount , }  packet Logon {  }packet	Logon //x
{ repeat // " ++ [128512]%N ++ runes_of_ascii " emoji
uint16 u128
    //
    `a\`,
falsey
@calculatedFrom(""packet"" ) ,
    } 	 ")).
Eval vm_compute in ("<<<M1331>>>" ++ check (runes_of_ascii "MetaData // trailing space 
Header{
x_y_z// packet A { u8 x, }
metadata	`two words`
, }MetaData A { zchar[ 255 ] packetx , msg_type
charz`it's` ,pack BodyLength
,
} MetaData repeatCount {u64 x `u8 x,`,  char[	7
    ] u ,
    crc
asx , char[
10 ] x_y_z , }")).
Eval vm_compute in ("<<<M154>>>" ++ check (runes_of_ascii "packet trueish {
zchar[ 65535
    ] x_y_z , repeat
char[
7
]
Foo`say ""hi""`, zchar[4294967296
] trueish ,@tag(
// " ++ [128512]%N ++ runes_of_ascii " emoji
// 50% %s
1	) matchKey
    { match uint8x
    as
Z9_ {
    // @lengthOf(
    [
10
] : matchKey}
    ,
}, } options { int = true }

")).
Eval vm_compute in ("<<<M281>>>" ++ check (runes_of_ascii "options//
{ repeatCount  =
0 ; msg_type =	float64 ;options1 =  ""`tick`""
    // `tick` ""quote"" 'q'
    ;// packet A { u8 x, }
tag  =// c
""\" ++ [233]%N ++ runes_of_ascii """ } options {
// @lengthOf(
// 50% %s
calculatedFrom=true
; Foo =	7
crc =	""it's"" u =
    false ;
    }

")).
Eval vm_compute in ("<<<M1027>>>" ++ check (runes_of_ascii "//x
root  packet int {
    //	t
    }
    MetaData options1 {
    zchar[ 3
    // @lengthOf(
    ]packetx
, zchar[
    007 ]
repeatCount // " ++ [27880; 37322]%N ++ runes_of_ascii "
`a\`  ,string metadata	`` ,
    Z9_ zchar
`" ++ [233]%N ++ runes_of_ascii "`	,
    uint64
    Pad, }
// `tick` ""quote"" 'q'
")).
Eval vm_compute in ("<<<M1670>>>" ++ check (runes_of_ascii "// 50% %s
packet	a1
    { zchar[
// a // b
// 50% %s
007]
T `it's`
    ,@rightPad
    // a // b
    (
'\x00')
    o repeatCount , }  packet Logon {  }packet	Logon //x
{ repeat // " ++ [128512]%N ++ runes_of_ascii " emoji
uint16 u128
    //
    `a\`,
falsey")).
Eval vm_compute in ("<<<M1665>>>" ++ check (runes_of_ascii "// 50% %s
packet	a1
    { zchar[
// a // b
// 50% %s
007]
T `it's`
    ,@rightPad
    // a // b
    (
'\x00')
    o repeatCount , }  packet Logon {  }packet	Logon //x
{ repeat // " ++ [128512]%N ++ runes_of_ascii " emoji
uint16 u128
    //
    `a\`,")).
Eval vm_compute in ("<<<M4314>>>" ++ check (runes_of_ascii "packet Logon {
    string user,
}

root packet Frame {
    u8 K,
    match K as Body {
        1 : Logon,
        2 : Logout,
    },
    Tail,
}

packet Logout {
    u16 reason,
}

packet Tail {
    u32 crc,
}")).
Eval vm_compute in ("<<<M4370>>>" ++ check (runes_of_ascii "root
packet
    Frame { 
u8
    K ,
    Logon 
first	, match
K

    as
	Body
    { 1:

    Logon  , 2
:Logout ,	}	,  }
packet

Logon{
	string	user	,
    }

packet
    Logout {
u16 reason , }

")).
Eval vm_compute in ("<<<M375>>>" ++ check (runes_of_ascii "packet// `tick` ""quote"" 'q'
x_y_z { }MetaData
Logon  { pack chars `" ++ [233]%N ++ runes_of_ascii "`, }options { len = 00}root packet	len {char[
    7  ] asx ,  }  MetaData MetaDataX // " ++ [27880; 37322]%N ++ runes_of_ascii "
{
char Foo `100% of %d` , }")).
Eval vm_compute in ("<<<M1645>>>" ++ check (runes_of_ascii "// 50% %s
packet	a1
    { zchar[
// a // b
// 50% %s
007]
T `it's`
    ,@rightPad
    // a // b
    (
'\x00')
    o repeatCount , }  packet Logon {  }packet	Logon //x
{ repeat")).
Eval vm_compute in ("<<<M457>>>" ++ check (runes_of_ascii "  root packet zchar {
}MetaData leftPad { }
    // " ++ [128512]%N ++ runes_of_ascii " emoji
    MetaData // c
charz {_x i8i8 ,	Logon packetx
    , zchar[ 007 ] u`two words` ,
// `tick` ""quote"" 'q'
//	t
}")).
Eval vm_compute in ("<<<M4081>>>" ++ check (runes_of_ascii "packet A

    {

match k
    as  n

    {[ ""a"" , 22	,""c c""

    , 
4 
,	""e"" 
,  66 ,

    ""g""	,
	8
, ""i""
    ,
10 
, ""k"",
12	]
	:
B 2	:

    C

}
	,

}
")).
Eval vm_compute in ("<<<M3400>>>" ++ check (runes_of_ascii "// top
root
    // c0
packet // c1a
  // c1b
P // c2a
  // c2b
{ repeat string // c5
ss ,
    // c7
repeat
    // c8
u16 ns // c10a
  // c10b
,
    // c11
} ")).
Eval vm_compute in ("<<<M3875>>>" ++ check (runes_of_ascii "
packet A
{ match k	as

n {
[ 
1
    ,	""bb""

,

007

    , 
""d"" ,

5 ,

    ""f"" ,7
, ""h"",	9

,

""j""

    ,
11 
,
    ""l""

] : B
	2 :
C	} 
,

}")).
Eval vm_compute in ("<<<M2146>>>" ++ check (runes_of_ascii "MetaData BodyLength
{ int8 Foo
, string
    MetaDataX , float zchar ,pack options1
,asx string_, }
packet u8x u8x {Foo@lengthOf(charz )
`" ++ [28040; 24687; 31867; 22411]%N ++ runes_of_ascii "`,  }
")).
Eval vm_compute in ("<<<M2203>>>" ++ check (runes_of_ascii "MetaData BodyLength
{ int8 Foo
, string
    MetaDataX , float zchar ` ,pack options1
,asx string_, }
packet u8x {Foo@lengthOf(charz )
`" ++ [28040; 24687; 31867; 22411]%N ++ runes_of_ascii "`,  }
")).
Eval vm_compute in ("<<<M1070>>>" ++ check (runes_of_ascii "packet chars	{ @lengthOf(Pad )
    f64
    asx , } MetaData asx { char[] lengthOf// " ++ [27880; 37322]%N ++ runes_of_ascii "
, } packet options1 {
    @tag( 65535  )u32
falsey , }
")).
Eval vm_compute in ("<<<M2211>>>" ++ check (runes_of_ascii "options options
    {
x_y_z// " ++ [27880; 37322]%N ++ runes_of_ascii "
= 10 ; }
packet body {
    @calculatedFrom(
// trailing space 
// " ++ [27880; 37322]%N ++ runes_of_ascii "
""1""
)	match T as Foo
    {
255 :T , }
,}")).
Eval vm_compute in ("<<<M2078>>>" ++ check (runes_of_ascii "MetaData BodyLength
{ int8 Foo
, root
    MetaDataX , float zchar ,pack options1
,asx string_, }
packet u8x {Foo@lengthOf(charz )
`" ++ [28040; 24687; 31867; 22411]%N ++ runes_of_ascii "`,  }
")).
Eval vm_compute in ("<<<M4166>>>" ++ check (runes_of_ascii "  MetaData
As

    { 
char i64_
`tab	here`
,char[ 	 // packet A { u8 x, }
	0
]  charz`crlf
line` , zchar[
	0123456789 
]
	metadata ,
}
")).
Eval vm_compute in ("<<<M2033>>>" ++ check (runes_of_ascii "
packet leftPad {
@leftPad( '0')
u32
i64_ `100% of %d` ,repeat// 50% %s
i8 chars
    ,
} MetaData
    f32a
{ // packet A { u8 x, }
}@x ")).
Eval vm_compute in ("<<<M2234>>>" ++ check (runes_of_ascii "options
    {
x_y_z// " ++ [27880; 37322]%N ++ runes_of_ascii "
= 10 ; ; }
packet body {
    @calculatedFrom(
// trailing space 
// " ++ [27880; 37322]%N ++ runes_of_ascii "
""1""
)	match T as Foo
    {
255 :T , }
,}")).
Eval vm_compute in ("<<<M2300>>>" ++ check (runes_of_ascii "options
    {
x_y_z// " ++ [27880; 37322]%N ++ runes_of_ascii "
= 10 ; }
packet body {
    @calculatedFrom(
// trailing space 
// " ++ [27880; 37322]%N ++ runes_of_ascii "
""1""
)	match T as Foo
    {
: 255 T , }
,}")).
Eval vm_compute in ("<<<M1998>>>" ++ check (runes_of_ascii "
packet leftPad {
@leftPad( '0')
u32
i64_ `100% of %d` ,repeat// 50% %s
i8 chars
    }
, MetaData
    f32a
{ // packet A { u8 x, }
}")).
Eval vm_compute in ("<<<M2315>>>" ++ check (runes_of_ascii "options
    {
x_y_z// " ++ [27880; 37322]%N ++ runes_of_ascii "
= 10 ; }
packet body {
    @calculatedFrom(
// trailing space 
// " ++ [27880; 37322]%N ++ runes_of_ascii "
""1""
)	match T as Foo
    {
255 :T } ,
,}")).
Eval vm_compute in ("<<<M2303>>>" ++ check (runes_of_ascii "options
    {
x_y_z// " ++ [27880; 37322]%N ++ runes_of_ascii "
= 10 ; }
packet body {
    @calculatedFrom(
// trailing space 
// " ++ [27880; 37322]%N ++ runes_of_ascii "
""1""
)	match T as Foo
    {
255 T , }
,}")).
Eval vm_compute in ("<<<M4292>>>" ++ check (runes_of_ascii "packet A {  match

k as

n
    {	[
    1  ,

    22
,

    007 ,4
	,
    5
    , 66

    ,

7	, 8  ,
9 
]: B

,2
: C }
	, } ")).
Eval vm_compute in ("<<<M1226>>>" ++ check (runes_of_ascii "packet msg_type
{ @lengthOf(i64_
) @leftPad (
    ' '
)
    // a // b
    char[1
    ] float @lengthOf( matchKey
)
,} // " ++ [128512]%N ++ runes_of_ascii " emoji")).
Eval vm_compute in ("<<<M4142>>>" ++ check (runes_of_ascii "  MetaData	i8i8 { rootA

stringy

, 
char[	4294967296
    ]asx ,
i8
	uint8x

    ,zchar int
,
    } 	 // `tick` ""quote"" 'q'
")).
Eval vm_compute in ("<<<M944>>>" ++ check (runes_of_ascii "MetaData
    //
    options1	{ pack
string_ , i8  Header
    ,
    float64 o , }
    root packet
    u8x{
// " ++ [27880; 37322]%N ++ runes_of_ascii "
// a // b
}")).
Eval vm_compute in ("<<<M2302>>>" ++ check (runes_of_ascii "options
    {
x_y_z// " ++ [27880; 37322]%N ++ runes_of_ascii "
= 10 ; }
packet body {
    @calculatedFrom(
// trailing space 
// " ++ [27880; 37322]%N ++ runes_of_ascii "
""1""
)	match T as Foo
    {")).
Eval vm_compute in ("<<<M4214>>>" ++ check (runes_of_ascii "
// " ++ [128512]%N ++ runes_of_ascii " emoji
options // c
  {repeatCount=
    '\x00' } 

// 50% %s
  	// packet A { u8 x, }
  MetaData
uint8x

{ }
")).
Eval vm_compute in ("<<<M1913>>>" ++ check (runes_of_ascii "packet o {
    roots `it's`
// trailing space 
//x
, char[ 42
    ]  A, // " ++ [27880; 37322]%N ++ runes_of_ascii "
f64
" ++ [233]%N ++ runes_of_ascii "repeatCount
    `crlf
line`
,}")).
Eval vm_compute in ("<<<M2297>>>" ++ check (runes_of_ascii "options
    {
x_y_z// " ++ [27880; 37322]%N ++ runes_of_ascii "
= 10 ; }
packet body {
    @calculatedFrom(
// trailing space 
// " ++ [27880; 37322]%N ++ runes_of_ascii "
""1""
)	match T as Foo")).
Eval vm_compute in ("<<<M2988>>>" ++ check (runes_of_ascii "packet A {
  match k as n {
    [""a"", ""bb"", ""c c"", ""d"", ""e"", ""f"", ""g"", ""h"", ""i"", ""j"", ""k""] : B,
    2 : C
  },
}")).
Eval vm_compute in ("<<<M27>>>" ++ check (runes_of_ascii "MetaData charz
/// triple
// 50% %s
{
u32 metadata , }
root packet u{ @tag( 42 )
    repeat uint8
Foo , }
")).
Eval vm_compute in ("<<<M1890>>>" ++ check (runes_of_ascii "packet o {
    roots `it's`
// trailing space 
//x
, char[ 42
    ]  A, // " ++ [27880; 37322]%N ++ runes_of_ascii "
f64
'0'
    `crlf
line`
,}")).
Eval vm_compute in ("<<<M4268>>>" ++ check (runes_of_ascii "options {
    LittleEndian = true;
}

root packet P {
    u16 a,
    u32 Sum @calculatedFrom(""CRC32""),
}")).
Eval vm_compute in ("<<<M3603>>>" ++ check (runes_of_ascii "
MetaData

Foo{zchar[ 
// c
0
]
matchKey ,
}

    options { 
lengthOf =

i32
u=
00

    ; }
")).
Eval vm_compute in ("<<<M1414>>>" ++ check (runes_of_ascii "packet packet
T
{ match repeatCount as	calculatedFrom
{ [65535 ]	: As	,
} ,}
// trailing space 
")).
Eval vm_compute in ("<<<M1494>>>" ++ check (runes_of_ascii "packet
T
{ match repeatCount as	calculatedFrom
{ [65535 ]	: As	,
} ,repeat
// trailing space 
")).
Eval vm_compute in ("<<<M1501>>>" ++ check (runes_of_ascii "packet
T
{ match repeatCount as	calculatedFrom
{ [65535 ]	: '' As	,
} ,}
// trailing space 
")).
Eval vm_compute in ("<<<M1505>>>" ++ check (runes_of_ascii "packet
T
{ match repeatCount as	calculatedFrom
{ \ [65535 ]	: As	,
} ,}
// trailing space 
")).
Eval vm_compute in ("<<<M4258>>>" ++ check (runes_of_ascii "packet A {
    u32 crc @calculatedFrom(""\
    ""),
    @calculatedFrom(""\
    "")
    u8 y,
}")).
Eval vm_compute in ("<<<M2968>>>" ++ check (runes_of_ascii "packet A {
  match k as n {
    [1, 22, ""c c"", 4, 5, ""f"", 7, 8, ""i""] : B,
    2 : C
  },
}")).
Eval vm_compute in ("<<<M1472>>>" ++ check (runes_of_ascii "packet
T
{ match repeatCount as	calculatedFrom
{ [65535 ]	: 	,
} ,}
// trailing space 
")).
Eval vm_compute in ("<<<M1217>>>" ++ check (runes_of_ascii "
options{ BodyLength =  true
    /// triple
    chars
    =
    ""it's"" ;float=	'\x00'}")).
Eval vm_compute in ("<<<M1717>>>" ++ check (runes_of_ascii "options lengthOf  { =//x
i16;
    BodyLength = 0 ; pack
= false;
    A = char[ 3 ] }")).
Eval vm_compute in ("<<<M1767>>>" ++ check (runes_of_ascii "options{  lengthOf =//x
i16;
    BodyLength = 0 ; pack
false =;
    A = char[ 3 ] }")).
Eval vm_compute in ("<<<M1805>>>" ++ check (runes_of_ascii "options{  lengthOf =//x
i16;
    BodyLength = 0 ; pack
= false;
    A = char[ 3 ] ")).
Eval vm_compute in ("<<<M2943>>>" ++ check (runes_of_ascii "packet A {
  match k as n {
    [1, 22, ""c c"", 4, 5, ""f"", 7] : B
    2 : C
  },
}")).
Eval vm_compute in ("<<<M1906>>>" ++ check (runes_of_ascii "packet o {
    roots `it's`
// trailing space 
//x
, char[ 42
    ]  A, // " ++ [27880; 37322]%N ++ runes_of_ascii "
f")).
Eval vm_compute in ("<<<M3270>>>" ++ check (runes_of_ascii "MetaData Foo { zchar[ 0 ] matchKey , } options { lengthOf =
// c
i32 u = 00 ; }")).
Eval vm_compute in ("<<<M3557>>>" ++ check (runes_of_ascii "packet a1 {
    /// triple
    string_ @lengthOf(As) `
        `,// " ++ [128512]%N ++ runes_of_ascii " emoji
}")).
Eval vm_compute in ("<<<M2906>>>" ++ check (runes_of_ascii "packet A {
  match k as n {
    [""a"", ""bb"", 007, ""d""] : B
    2 : C
  },
}")).
Eval vm_compute in ("<<<M4118>>>" ++ check (runes_of_ascii "options {
    x_y_z = false
    Logon = ""packet"";// packet A { u8 x, }
}")).
Eval vm_compute in ("<<<M943>>>" ++ check (runes_of_ascii "
MetaData	roots
    {uint8x trueish
,//
u32
    len ,} // @lengthOf(")).
Eval vm_compute in ("<<<M1876>>>" ++ check (runes_of_ascii "packet o {
    roots `it's`
// trailing space 
//x
, char[ 42
    ]")).
Eval vm_compute in ("<<<M1381>>>" ++ check (runes_of_ascii "options {
msg_type =
""abc"" ; tag = f64
BodyLength = '\x00'; } 	 ")).
Eval vm_compute in ("<<<M2879>>>" ++ check (runes_of_ascii "packet A {
  match k as n {
    [""a"", 22] : B,
    2 : C
  },
}")).
Eval vm_compute in ("<<<M3294>>>" ++ check (runes_of_ascii "packet u8x
// c
{ } MetaData crc { char[ 4294967296 ] Foo , }")).
Eval vm_compute in ("<<<M2839>>>" ++ check (runes_of_ascii "'0' `doc` char[ ) string @leftPad , char[] string root @tag(")).
Eval vm_compute in ("<<<M1985>>>" ++ check (runes_of_ascii "
packet leftPad {
@leftPad( '0')
u32
i64_ `100% of %d` ,")).
Eval vm_compute in ("<<<M664>>>" ++ check (runes_of_ascii "
packet
x_y_z { body { // " ++ [128512]%N ++ runes_of_ascii " emoji
_x BodyLength
,} , }")).
Eval vm_compute in ("<<<M3893>>>" ++ check (runes_of_ascii "  // c
	MetaData crc	// `tick` ""quote"" 'q'

{
    }
")).
Eval vm_compute in ("<<<M1368>>>" ++ check (runes_of_ascii "MetaData
    calculatedFrom{
    string Header,}
")).
Eval vm_compute in ("<<<M3743>>>" ++ check (runes_of_ascii "packet A {match k
as
n
	{ [""a""] : B
2:C
	} ,
	}")).
Eval vm_compute in ("<<<M243>>>" ++ check (runes_of_ascii "MetaData _x{ }
options{ //	t
A
    = """ ++ [28040; 24687]%N ++ runes_of_ascii """; }")).
Eval vm_compute in ("<<<M13>>>" ++ check (runes_of_ascii "options
{ matchKey= ""x y"";len =
'\x00' }
")).
Eval vm_compute in ("<<<M1302>>>" ++ check (runes_of_ascii "options	{
pack
= zchar[ 255]// 50% %s
}
")).
Eval vm_compute in ("<<<M3224>>>" ++ check (runes_of_ascii "root packet
// c
u128 { chars `doc` , }")).
Eval vm_compute in ("<<<M4072>>>" ++ check (runes_of_ascii "

  packet

    A
{ u8 x `a

b` ,}
")).
Eval vm_compute in ("<<<M2373>>>" ++ check (runes_of_ascii "MetaData
Foo {Header //
@tag( ,	} 	 ")).
Eval vm_compute in ("<<<M2372>>>" ++ check (runes_of_ascii "MetaData
Foo {Header //
, pack	} 	 ")).
Eval vm_compute in ("<<<M3023>>>" ++ check (runes_of_ascii "root packet A {
    u8 x `a
b`,
}")).
Eval vm_compute in ("<<<M2573>>>" ++ check (runes_of_ascii "packet A { repeat repeat u8 x, }")).
Eval vm_compute in ("<<<M2855>>>" ++ check ([65533; 8; 8]%N ++ runes_of_ascii "g%" ++ [65533]%N ++ runes_of_ascii "g3=" ++ [65533; 25; 65533]%N ++ runes_of_ascii "+8" ++ [65533]%N ++ runes_of_ascii "`" ++ [65533]%N ++ runes_of_ascii "u" ++ [65533]%N ++ runes_of_ascii ">" ++ [65533]%N ++ runes_of_ascii "8" ++ [27; 65533; 65533; 2]%N ++ runes_of_ascii "+" ++ [65533]%N ++ runes_of_ascii "q" ++ [30]%N ++ runes_of_ascii "~")).
Eval vm_compute in ("<<<M3164>>>" ++ check (runes_of_ascii "packet A {
 u8 x `d" ++ [8203]%N ++ runes_of_ascii "`, // c" ++ [8203]%N ++ runes_of_ascii "
}")).
Eval vm_compute in ("<<<M2597>>>" ++ check (runes_of_ascii "packet A { x @lengthOf(3), }")).
Eval vm_compute in ("<<<M2650>>>" ++ check (runes_of_ascii "packet A { } x packet B { }")).
Eval vm_compute in ("<<<M3930>>>" ++ check (runes_of_ascii "
// c" ++ [5760]%N ++ runes_of_ascii "
		packet
A { }
")).
Eval vm_compute in ("<<<M3693>>>" ++ check (runes_of_ascii "
// `tick` ""quote"" 'q'
")).
Eval vm_compute in ("<<<M2571>>>" ++ check (runes_of_ascii "packet A { repeat u8 }")).
Eval vm_compute in ("<<<M87>>>" ++ check (runes_of_ascii "MetaData uint8x { }
")).
Eval vm_compute in ("<<<M2647>>>" ++ check (runes_of_ascii "root MetaData M { }")).
Eval vm_compute in ("<<<M3102>>>" ++ check (runes_of_ascii "packet A {
}
// c" ++ [160]%N)).
Eval vm_compute in ("<<<M4103>>>" ++ check (runes_of_ascii "  packet

A 
{
} ")).
Eval vm_compute in ("<<<M3150>>>" ++ check (runes_of_ascii "packet A {
}// c" ++ [12]%N)).
Eval vm_compute in ("<<<M2189>>>" ++ check (runes_of_ascii "MetaData BodyLe")).
Eval vm_compute in ("<<<M2711>>>" ++ check (runes_of_ascii "kg#jzm5RrM-F/")).
Eval vm_compute in ("<<<M678>>>" ++ check (runes_of_ascii "//x

// c
")).
Eval vm_compute in ("<<<M1841>>>" ++ check (runes_of_ascii "packet o")).
Eval vm_compute in ("<<<M1421>>>" ++ check (runes_of_ascii "packet")).
Eval vm_compute in ("<<<M2458>>>" ++ check (runes_of_ascii "false")).
Eval vm_compute in ("<<<M3171>>>" ++ check (runes_of_ascii "// c" ++ [6158]%N)).
Eval vm_compute in ("<<<M1124>>>" ++ check (runes_of_ascii "


")).
Eval vm_compute in ("<<<M3629>>>" ++ check (runes_of_ascii "//x")).
Eval vm_compute in ("<<<M2542>>>" ++ check (runes_of_ascii "_")).
