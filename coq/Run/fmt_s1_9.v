From FP Require Import Lexer Parser ShowPT Digest Formatter.
From Coq Require Import String List NArith.
Import ListNotations.
Open Scope string_scope.
Set Printing Width 100000000.
Set Printing Depth 100000000.
Definition show_fres (r : fres) : string :=
  match r with
  | FOk s => "OK:" ++ sh_escaped s ""
  | FErr s => "ERR:" ++ sh_escaped s ""
  | FPanic p => "PANIC:" ++ p
  end.
Definition check (rs : list rune) : string := digest (show_fres (format_res rs)).
Definition full (rs : list rune) : string := show_fres (format_res rs).
Eval vm_compute in ("<<<M1573>>>" ++ check (runes_of_ascii "options	{	ArrayPrefixLenType =

u16
    ;FixedStringPadFromLeft 
=

true
;	JavaPackage =  ""com.example.msg""
	;
GoPackage =  ""msg"";	GoModule =""example.com/msg"" ;  }	MetaData Meta 
{u32 SeqNum`sequence number` 
,	char[ 8 
]
	Symbol 
`symbol`

    ,
	zchar[	5 ]ZSym `z symbol`,	string

Note ,

    Symbol  AltSymbol

`alias of symbol` ,	f64  Price	,}packet
	Inner {  u8	a	,

    i16

    b
, string	c ,
}

    packet Inner2
{

u8
a2

    ,	char[
    3
]
	c2,}

packet 
Logon
{ u8 
x, 
string
user ,	repeat

    u16
	codes,
}
	packet
Logout
    { u16

    reason
, }

    packet
    Empty{

}
root

packet
	Msg  {

u8
    su8,  uint8
    luint8  , 
u16
    su16
,
	uint16 luint16	,
    u32

    su32,uint32
	luint32
    , u64
su64

    ,uint64
	luint64 , 
i8
si8
,
int8
lint8

, i16  si16

,
	int16
lint16 ,	i32  si32

    ,
int32
    lint32,i64
si64

    ,	int64 
lint64 , f32
sf32

    ,
float32
    lfloat32
,
f64
	sf64,
	float64 
lfloat64
,
	char[6
    ]

fsplain
,
@leftPad

( '0' 
)char[ 4

]
fs0

    ,@rightPad( '0')char[ 5

    ] 
fs1
    ,@leftPad

(' '
) 
char[	6
	]
    fs2 
,@rightPad ( ' '
	)	char[ 7  ]
    fs3
,

@leftPad

    (
'\x00' )
	char[

    8]
fs4, @rightPad (
'\x00'
)

char[
9
]

fs5,	@leftPad (
    )char[
	10] fs6
    , 
@rightPad
(
	) char[ 11 ]	fs7,
zchar[7 ]  fz  , 
@leftPad  ( '0'
) zchar[

    3  ]  fzl0,string
	s1
    `doc`

,char[]
s2
, Inner

,

    Sub { u8  q, string 
w , Deep
    {u16	z
	,

    repeat
i32 
zs

    ,} 
,
    } , repeat	u8	ru8,

repeat 
u16
ru16,
    repeat 
u32

ru32
	,repeat

    u64

    ru64

    , repeat

i8	ri8
,

repeat i16	ri16 , 
repeat  i32

ri32
    ,

    repeat
i64 
ri64 ,  repeat
f32
	rf32,
repeat

f64 rf64

,

repeat
string

rstr ,

    repeat char[]

rstr2
,
repeat
	char[	3

    ] rfs
    ,
    repeat
zchar[ 3

    ]
    rfz ,repeat  Inner2

,repeat	Grp
{
    u8 k

,
char[ 2	]v  ,

} ,	SeqNum

,	SeqNum
	seq2
,

    repeat	SeqNum 
seqs ,
    Symbol,

    AltSymbol
alt	,
	ZSym	, 
Note,
repeat

    Symbol
    syms
    ,

    Price 
px

,

    u16
MsgType

, u32  BodyLen 
@lengthOf( Body)

    ,
    match

    MsgType

    as

Body
{	1 :	Logon  , 
[

2
    , 3

    ]
:Logout
	,7

    : Logon	,
9 : Empty 
,
	}
    ,
    u32 Checksum@calculatedFrom( ""CRC32""

    ) , 
}
")).
Eval vm_compute in ("<<<M2094>>>" ++ check (runes_of_ascii "packet  uint8x  {
match
Pad
as  // " ++ [128512]%N ++ runes_of_ascii " emoji
    repeatCount {	[

    0

    ]
: lengthOf , [  ""// no comment""  ]

:metadata,
},metadata  
  // trailing space 
	//
,

    zchar[/// triple
1] 
trueish	//	t
	, 
@calculatedFrom(

""a\""b""
)

match //x
    roots
as

f32a
{ 4294967296
: i64_

,
	""it's"" : a1

,[  
      // trailing space 
    00,

0123456789 ]

:
    As, 255  : Packet,""{,}""
	: T 	 /// triple
    0 
: falsey
}
    ,	body 
@calculatedFrom(  ""\n"" 
    // trailing space 
      )

    ,	@calculatedFrom(
	""" ++ [128512]%N ++ runes_of_ascii """ )
    @tag(  10 ) char[10 ]
    trueish
`doc`,  @tag( 255

    )
repeat  Z9_ 
{
    asx
	chars

    `// not a comment`  ,	} ,
	@lengthOf(Packet  ) u16 crc

, }  
  // `tick` ""quote"" 'q'
      options	{  BodyLength

    =

    i32	;	x	// " ++ [128512]%N ++ runes_of_ascii " emoji

=  255 ;u

    =

    3	}options{
    } packet  calculatedFrom  {}
//x
	root

packet

    Header { Pad
{
    repeatCount 
,
uint16 zchar, match

msg_type

    as  pack 

/// triple
{
""abc"" :
	repeatCount, 
""{,}""	:
    repeatCount ""a	b"" :
calculatedFrom
	}	, repeat string
    Logon 
`a\` ,	}	, @lengthOf(

x_y_z
)

match  tag	as	repeatCount

{

    007 :BodyLength  , 
[
    //	t
    """ ++ [28040; 24687]%N ++ runes_of_ascii """ ]

:
BodyLength

    42
:

string_ ""// no comment"" 
    // trailing space 
		/// triple
  	:	//

Z9_  , 4294967296 :
	// " ++ [128512]%N ++ runes_of_ascii " emoji
_x
	}, f64 u
`it's` , zchar[
    00 
] f32a`doc`  ,
	match
    i64_ as
	Logon
    {

    4294967296// a // b
	: metadata
    ,	},
	char[1
    ] Pad
	,zchar[
    0123456789

    ] float  // @lengthOf(
	``	,
}

")).
Eval vm_compute in ("<<<M1536>>>" ++ check (runes_of_ascii "options {
    StringPrefixLenType = u16;
    ArrayPrefixLenType = u8;
    FixedStringPadFromLeft = true;
    FixedStringPadChar = ' ';
}
packet Quote {
    int64 OrderId,
    char[] Ref,
    @leftPad('0') char[5] price,
}
packet Heartbeat {
    zchar[3] venue,
    string Flags,
}
packet Trade {
    repeat InTag787 {
        i32 venue,
        char[5] sym,
        repeat InPx98 {
            char[11] Qty,
            Heartbeat,
            char[] price,
            u32 x,
            float64 count,
            repeat Quote,
        },
        zchar[7] Note,
        repeat char[1] Tail,
    },
    repeat char[2] seqNo,
    InTail55 {
        repeat Quote,
        string msgKind,
        InPx18 {
            char[] count,
            repeat Quote,
            uint16 Qty,
        },
        char[4] seqNo,
        repeat Heartbeat,
        repeat string sym,
    },
    repeat Quote,
    Heartbeat,
    @leftPad(' ') char[10] OrderId,
}
root packet Fill {
    Heartbeat,
    uint32 count,
    u8 OrderId,
    match OrderId as Body {
        96 : Quote,
        195 : Trade,
        187 : Heartbeat,
    },
    u32 venue @calculatedFrom(""CR\
C32""),
}
")).
Eval vm_compute in ("<<<M2111>>>" ++ check (runes_of_ascii "
packet Pad  // " ++ [27880; 37322]%N ++ runes_of_ascii "
	{
@tag(65535
	) repeat
	char[
//	t

4294967296] 
o `u8 x,` 
,@calculatedFrom(

    ""x y"")
	metadata  // c

  @lengthOf(	repeatCount

    ) 
`tab	here`  , 
}packet
u128
	{
    // packet A { u8 x, }
  // " ++ [128512]%N ++ runes_of_ascii " emoji
    	repeat 	 // " ++ [128512]%N ++ runes_of_ascii " emoji
  zchar[

10
	] _x  // " ++ [27880; 37322]%N ++ runes_of_ascii "

, 	 /// triple

	} 
options

    {  /// triple
      msg_type = true	;
}
	packet

tag

    {	// c
		@tag(  7
)i32

f32a	@lengthOf(  u8x 
)
    `two words` , string 
Foo  @lengthOf(
Foo
    ),	@rightPad
	( '0'	)
match As as

// @lengthOf(
// `tick` ""quote"" 'q'
    	crc	// a // b
  {
	"""" :float
, //	t
    	},	repeat	i16
	i8i8
    ,
	@rightPad  /// triple
    ('0'	)  repeat 
u128 {

i64
tag @calculatedFrom(

""" ++ [28040; 24687]%N ++ runes_of_ascii """
) ,  i8i8
@calculatedFrom(  // " ++ [27880; 37322]%N ++ runes_of_ascii "

""{,}""  )
`it's`	,
repeat  string 
rootA	/// triple
	, 
}  ,
repeat	string
	chars

    ,
asx
,match
calculatedFrom
as calculatedFrom
{ ""a\""b"": 
Logon 
""a	b""
    :

    asx

    },
char zchar
	@calculatedFrom(
""1"" 
) `say ""hi""`,} ")).
Eval vm_compute in ("<<<M8>>>" ++ check (runes_of_ascii "packet leftPad
    { @tag( 3 )
    @tag( // trailing space 
255 ) @tag( 7 ) Packet @calculatedFrom(
    ""\n"" )
    ,
    @calculatedFrom(
//x
/// triple
""abc""
)
    repeat
    f32a
    trueish `// not a comment` ,
    match
    /// triple
    calculatedFrom
as stringy { [	1
,
    // @lengthOf(
    65535 ] :
    u  ,}
// `tick` ""quote"" 'q'
/// triple
, zchar[ 10 ] o `` , @lengthOf(calculatedFrom
)
char x_y_z ,char[] BodyLength ,stringy o
`line1
line2` ,
@tag( 00 )options1  {// @lengthOf(
float32 asx
@lengthOf( roots ) ,
// " ++ [128512]%N ++ runes_of_ascii " emoji
// `tick` ""quote"" 'q'
match Z9_
as
int
    {""{,}""
: A [ // " ++ [27880; 37322]%N ++ runes_of_ascii "
""a\""b""  ,
""it's""
    ] :	repeatCount ,1 :
    float , ""a\\"": zchar// `tick` ""quote"" 'q'
[0 , ""abc"" ,0,  00,
0
    ,
""" ++ [128512]%N ++ runes_of_ascii """ ]: T
, 0123456789	: As , }
    , }, @lengthOf(
    msg_type ) i8
matchKey , repeat
len len `a\`
,	}")).
Eval vm_compute in ("<<<M1952>>>" ++ check (runes_of_ascii "  root
packet
	o{a1 a1,
	char[

3
    ] i8i8

    `
` ,  @calculatedFrom(  ""a\""b"" )  // packet A { u8 x, }
    repeat 	 /// triple
Pad, } 
// `tick` ""quote"" 'q'
  // `tick` ""quote"" 'q'

packet
	tag  {

    i8i8@calculatedFrom(""x y""  )	`it's`

    ,
	@lengthOf(x_y_z )	@calculatedFrom(  
  //

  //	t

	""a\""b""	)

u 
{ match a1
as Logon

{
""\n""  : Pad

    ,3
:  body

    ,  """"  : // `tick` ""quote"" 'q'
Logon
, ""\n""	:
	T
    , ""`tick`"" : tag
	,

    [
    """ ++ [233]%N ++ runes_of_ascii "t" ++ [233]%N ++ runes_of_ascii """ /// triple
	,
7

, 
""a\""b""	, 0123456789
,""abc""
, """ ++ [28040; 24687]%N ++ runes_of_ascii """
    ,
	0] 
:
    Z9_

} ,

char[00
]//
	string_

@lengthOf(	asx
    ) 
,  char[
1
    ]	falsey

, }
	, match	crc as

lengthOf
{

    4294967296

    :
a1	}	, 
}")).
Eval vm_compute in ("<<<M106>>>" ++ check (runes_of_ascii "packet  matchKey
{
    } options{ int = ""a\\""
; lengthOf //	t
= ""it's"" } MetaData lengthOf { Pad  tag
    , } root packet
    x {int @lengthOf(	pack )
`a\` //
, string matchKey
@lengthOf( chars
    )  `" ++ [233]%N ++ runes_of_ascii "` , repeat repeatCount
//x
//
{
    // packet A { u8 x, }
    match x_y_z as A
    {""1"": o	,
// packet A { u8 x, }
// `tick` ""quote"" 'q'
7 :uint8x
// `tick` ""quote"" 'q'
//	t
, [
// `tick` ""quote"" 'q'
// " ++ [128512]%N ++ runes_of_ascii " emoji
65535 , """"
] ://
Header """ ++ [233]%N ++ runes_of_ascii "t" ++ [233]%N ++ runes_of_ascii """ :  u8x
    """ ++ [28040; 24687]%N ++ runes_of_ascii """ : charz 65535 :
stringy }// " ++ [128512]%N ++ runes_of_ascii " emoji
,	zchar[007]	uint8x ,f32 repeatCount @lengthOf( // c
float) `two words` , f64 A  `u8 x,`	,
}, }
    packet Header{ }
")).
Eval vm_compute in ("<<<M84>>>" ++ check (runes_of_ascii "MetaData rootA
    {}
options{ rootA= '\x00' zchar
    ='0' rootA= float64 ;  trueish	= 3 i64_
= float64 ; } options{
    body
= '0'
    ;T= ""CRC32"";matchKey = char[] ; }	packet
rootA {
    // " ++ [128512]%N ++ runes_of_ascii " emoji
    @lengthOf( //
Z9_)
    @rightPad('0' ) Packet calculatedFrom , }packet
body
    { match metadata
as asx {
    3 : Header 3: packetx	, [  10]
:	Packet, """"
// " ++ [27880; 37322]%N ++ runes_of_ascii "
// @lengthOf(
: pack
,
10  :
    // packet A { u8 x, }
    pack [  255 // `tick` ""quote"" 'q'
, // `tick` ""quote"" 'q'
""""
    , 00 // a // b
,""it's""] :
x } ,
}

")).
Eval vm_compute in ("<<<M246>>>" ++ check (runes_of_ascii "packet // c
Z9_ {
As
    x
, @rightPad ( ' ') @lengthOf( Header) @rightPad(  ' '
)match u as  string_{ ""a	b""
    : Pad
    // trailing space 
    ,1: T , [ """" , 255, ""abc""
, 7
    //	t
    ] :
BodyLength ,  },match falsey
as  metadata{ 42: float ,
    // `tick` ""quote"" 'q'
    } , match lengthOf
as As {1
:
As, [	"""" ,	""a\\"" ,
""{,}"" , ""it's"" ,
    //
    42,""a\\"" , 0 // trailing space 
, 3  ]  : f32a, } , // packet A { u8 x, }
repeat float64 roots ,	}
")).
Eval vm_compute in ("<<<M78>>>" ++ check (runes_of_ascii "packet stringy
{  @calculatedFrom(""a	b""
)uint8x,}
// @lengthOf(
// @lengthOf(
root packet  i8i8
{ @lengthOf( options1
) @tag( 0 )
    repeat
metadata _x `" ++ [233]%N ++ runes_of_ascii "`	, repeat
i8i8`
` // a // b
,
repeat  char[ //x
3 ]o , // " ++ [128512]%N ++ runes_of_ascii " emoji
@calculatedFrom(""a	b""
) repeat
    u16 x `doc`
,string_
`tab	here`  , @calculatedFrom(
    """ ++ [233]%N ++ runes_of_ascii "t" ++ [233]%N ++ runes_of_ascii """)@tag(	4294967296)
repeat Logon stringy , } root
    packet
    tag { }")).
Eval vm_compute in ("<<<M368>>>" ++ check (runes_of_ascii "packet f32a{
    /// triple
    @calculatedFrom( """" ) matchKey	@lengthOf(
Packet	) `// not a comment` , match msg_type
//	t
// c
as lengthOf {"""":Z9_ ,
    ""`tick`""
    : crc , // " ++ [27880; 37322]%N ++ runes_of_ascii "
[ //
""\n"" ]: T	,
    ""x y""
    :
    // " ++ [128512]%N ++ runes_of_ascii " emoji
    _x
    ,// @lengthOf(
[  ""a\""b"" //
] :  u128 }
,zchar[ 7 ]
// trailing space 
// a // b
_x
,repeat len MetaDataX ,}
")).
Eval vm_compute in ("<<<M1660>>>" ++ check (runes_of_ascii "packet i8i8 {
    zchar[10] a1,
}

packet x_y_z {
    //
    // c
}

options {
    matchKey = false;
    Foo = i32;
    MetaDataX = 007
    pack = """ ++ [28040; 24687]%N ++ runes_of_ascii """;
}

packet leftPad {
}

root packet stringy {
    /// triple
    rootA Pad,
    falsey @calculatedFrom(""it's"") `two words`,
    u8x float,
    int64 u8x,
}//x")).
Eval vm_compute in ("<<<M1982>>>" ++ check (runes_of_ascii "

  // top
	packet // c0a
    	// c0b
	Inner // c1
    { // c2
    u8 
a// c4a
		// c4b

  ,  // c5a
  	// c5b
  }root 	 // c7a
// c7b
	packet 
	    // c8
P 
      // c9
      {  repeat

Inner
    items  // c13a
  	// c13b
    	, // c14
    	u8  x 
// c16

, 	 // c17
  }

")).
Eval vm_compute in ("<<<M516>>>" ++ check (runes_of_ascii "root packet tag { }  packet MetaDataX""" ++ [233]%N ++ runes_of_ascii "t" ++ [233]%N ++ runes_of_ascii """char[007	]
// c
/// triple
asx  @calculatedFrom( ""a\""b""
) `say ""hi""`// " ++ [27880; 37322]%N ++ runes_of_ascii "
,  @tag(4294967296 )
    char[1//x
] packetx @calculatedFrom(""a\""b""
    ) ,
// " ++ [128512]%N ++ runes_of_ascii " emoji
// a // b
@calculatedFrom(""" ++ [233]%N ++ runes_of_ascii "t" ++ [233]%N ++ runes_of_ascii """  ) repeat pack // " ++ [27880; 37322]%N ++ runes_of_ascii "
,
    } // c")).
Eval vm_compute in ("<<<M1220>>>" ++ check (runes_of_ascii "// top
root // c0
packet // c1a
  // c1b
matchKey // c2
{
    // c3
zchar[ 3 // c5
]
    // c6
pack @calculatedFrom( // c8
""a	b"" // c9a
  // c9b
) // c10
`doc` // c11
, } options
    // c14
{ } // c16
MetaData A { // c19a
  // c19b
int8 // c20
msg_type ,
    // c22
} ")).
Eval vm_compute in ("<<<M513>>>" ++ check (runes_of_ascii "root packet tag { }  packet MetaDataX char[007	]
// c
/// triple
asx  @calculatedFrom( ""a\""b""
) `say ""hi""`// " ++ [27880; 37322]%N ++ runes_of_ascii "
,  @tag(4294967296 )
    char[1//x
] packetx @calculatedFrom(""a\""b""
    ) ,
// " ++ [128512]%N ++ runes_of_ascii " emoji
// a // b
@calculatedFrom(""" ++ [233]%N ++ runes_of_ascii "t" ++ [233]%N ++ runes_of_ascii """  ) repeat pack // " ++ [27880; 37322]%N ++ runes_of_ascii "
,
    } // c")).
Eval vm_compute in ("<<<M558>>>" ++ check (runes_of_ascii "root packet tag { }  packet MetaDataX{char[007	]
// c
/// triple
asx  @calculatedFrom( ""a\""b""
) `say ""hi""`// " ++ [27880; 37322]%N ++ runes_of_ascii "
  @tag(4294967296 )
    char[1//x
] packetx @calculatedFrom(""a\""b""
    ) ,
// " ++ [128512]%N ++ runes_of_ascii " emoji
// a // b
@calculatedFrom(""" ++ [233]%N ++ runes_of_ascii "t" ++ [233]%N ++ runes_of_ascii """  ) repeat pack // " ++ [27880; 37322]%N ++ runes_of_ascii "
,
    } // c")).
Eval vm_compute in ("<<<M518>>>" ++ check (runes_of_ascii "root packet tag { }  packet MetaDataX{007	]
// c
/// triple
asx  @calculatedFrom( ""a\""b""
) `say ""hi""`// " ++ [27880; 37322]%N ++ runes_of_ascii "
,  @tag(4294967296 )
    char[1//x
] packetx @calculatedFrom(""a\""b""
    ) ,
// " ++ [128512]%N ++ runes_of_ascii " emoji
// a // b
@calculatedFrom(""" ++ [233]%N ++ runes_of_ascii "t" ++ [233]%N ++ runes_of_ascii """  ) repeat pack // " ++ [27880; 37322]%N ++ runes_of_ascii "
,
    } // c")).
Eval vm_compute in ("<<<M280>>>" ++ check (runes_of_ascii "
options
{charz =""x y"" calculatedFrom =	'0'	} packet msg_type {msg_type asx, string// packet A { u8 x, }
packetx ,MetaDataX,
Header { i64 packetx`tab	here`
,  }, } options { // @lengthOf(
uint8x = 0 x_y_z =	""x y""
// packet A { u8 x, }
//	t
; }")).
Eval vm_compute in ("<<<M1498>>>" ++ check (runes_of_ascii "// top
packet // c0a
  // c0b
order_item
    // c1
{ u8 // c3a
  // c3b
a ,
    // c5
} // c6a
  // c6b
root
    // c7
packet // c8a
  // c8b
new_order // c9a
  // c9b
{ order_item
    // c11
,
    // c12
u8 x // c14
, } ")).
Eval vm_compute in ("<<<M1872>>>" ++ check (runes_of_ascii "packet 
    // `tick` ""quote"" 'q'
  	crc 
    // packet A { u8 x, }

  //	t
    {
u32	a1
, 
	    // trailing space 

float32 charz  //
    `two words`
, }MetaData

    int

    { }/// triple
")).
Eval vm_compute in ("<<<M1476>>>" ++ check (runes_of_ascii "// top
root
    // c0
packet // c1a
  // c1b
P { // c3
u16 // c4
a ,
    // c6
u32 Sum // c8
@calculatedFrom( // c9a
  // c9b
""CRC32"" // c10
) // c11a
  // c11b
, // c12
}
    // c13
")).
Eval vm_compute in ("<<<M713>>>" ++ check (runes_of_ascii "root packet len len // trailing space 
{
// " ++ [27880; 37322]%N ++ runes_of_ascii "
//	t
char[10
] metadata	@lengthOf( o ) `crlf
line`,
    @rightPad
( ' '
) string
    Header @calculatedFrom( ""a\\""
    ), }
")).
Eval vm_compute in ("<<<M715>>>" ++ check (runes_of_ascii "root packet len // trailing space 
{
// " ++ [27880; 37322]%N ++ runes_of_ascii "
//	t
char[10
] metadata	@lengthOf( o ) `crlf
line`,
    @rightPad
( ( ' '
) string
    Header @calculatedFrom( ""a\\""
    ), }
")).
Eval vm_compute in ("<<<M456>>>" ++ check (runes_of_ascii "packet
    // `tick` ""quote"" 'q'
    crc
// packet A { u8 x, }
//	t
{
u32 a1 ,
    // trailing space 
    roots
charz //
`two words`,	}
    MetaData int {
) /// triple")).
Eval vm_compute in ("<<<M1746>>>" ++ check (runes_of_ascii "packet A {
    match k as n {
        [
            ""a"", 22, ""c c"", 4, ""e"",
            66, ""g"", 8, ""i"", 10,
            ""k"", 12
        ] : B,
        2 : C,
    },
}")).
Eval vm_compute in ("<<<M2104>>>" ++ check (runes_of_ascii "root
packet

    matchKey { zchar[3]
    pack@calculatedFrom(

""a	b"" 
)
`doc` 
,	} options 
	    // c
  { } 
MetaData
A

    {

    int8
msg_type

, }

")).
Eval vm_compute in ("<<<M2130>>>" ++ check (runes_of_ascii "packet A {
    Inner {
        match k as n {
            [
                1, 22, 007, 4, 5,
                66
            ] : B,
        },
    },
}")).
Eval vm_compute in ("<<<M2062>>>" ++ check (runes_of_ascii "packet A {
    Inner {
        u8 x `a
                b`,
        Deep {
            u8 y `a
                        b`,
        },
    },
}")).
Eval vm_compute in ("<<<M1813>>>" ++ check (runes_of_ascii "  options
{	zchar  =
007	Header
=

    char[// c
    007
    ] ;
lengthOf	= 
char[ 7]
    ;chars= //
		""""  // a // b
    ; }

")).
Eval vm_compute in ("<<<M1096>>>" ++ check (runes_of_ascii "// top
root
    // c0
packet
    // c1
u128
    // c2
{
    // c3
chars
    // c4
`it's`
    // c5
,
    // c6
}
    // c7
")).
Eval vm_compute in ("<<<M1243>>>" ++ check (runes_of_ascii "root packet matchKey { zchar[ 3 ] pack @calculatedFrom( ""a	b"" ) // c
`doc` , } options { } MetaData A { int8 msg_type , }")).
Eval vm_compute in ("<<<M351>>>" ++ check (runes_of_ascii "packet lengthOf
    { @tag(007 )trueish
    // c
    {
    repeat string asx,
} , } options
    {roots=
    ""x y""	; }
")).
Eval vm_compute in ("<<<M6>>>" ++ check (runes_of_ascii "root	packet
    charz { // " ++ [128512]%N ++ runes_of_ascii " emoji
repeat char[65535
]
options1,} options  { As=
    //
    ""\n""
    } // a // b")).
Eval vm_compute in ("<<<M2107>>>" ++ check (runes_of_ascii "MetaData float {
    float64 charz `
        `,
}

root packet chars {
    // c
    @rightPad('0')
    Foo,
}")).
Eval vm_compute in ("<<<M1097>>>" ++ check (runes_of_ascii "// top
root // c0
packet
    // c1
u128 // c2a
  // c2b
{
    // c3
chars
    // c4
`it's` , }
    // c7
")).
Eval vm_compute in ("<<<M283>>>" ++ check (runes_of_ascii "MetaData asx { chars
f32a , string /// triple
T , } options
{ zchar=
    10
    // " ++ [27880; 37322]%N ++ runes_of_ascii "
    crc= true}
")).
Eval vm_compute in ("<<<M877>>>" ++ check (runes_of_ascii "packet A {
  match k as n {
    [1, ""bb"", 007, ""d"", 5, ""f"", 7, ""h"", 9, ""j""] : B,
    2 : C
  },
}")).
Eval vm_compute in ("<<<M552>>>" ++ check (runes_of_ascii "root packet tag { }  packet MetaDataX{char[007	]
// c
/// triple
asx  @calculatedFrom( ""a\""b""")).
Eval vm_compute in ("<<<M2038>>>" ++ check (runes_of_ascii "root packet P {
    // c3a
    // c3b
    char c,// c6
    u8 x,// c9a
    // c9b
}
// c10")).
Eval vm_compute in ("<<<M1202>>>" ++ check (runes_of_ascii "MetaData float { float64 charz `
` , } root packet chars { // c
@rightPad ( '0' ) Foo , }")).
Eval vm_compute in ("<<<M1413>>>" ++ check (runes_of_ascii "packet chars { } packet MetaDataX { @tag( 42
// c
) i16 string_ , repeat x `say ""hi""` , }")).
Eval vm_compute in ("<<<M1081>>>" ++ check (runes_of_ascii "packet A { match k as n // a
 { // b
 1 // c
 : // d
 B // e
 , // f
 } // g
 , // h
 }")).
Eval vm_compute in ("<<<M1143>>>" ++ check (runes_of_ascii "packet metadata { Logon { A `" ++ [28040; 24687; 31867; 22411]%N ++ runes_of_ascii "` , tag o
// c
, } , zchar len `// not a comment` , }")).
Eval vm_compute in ("<<<M1348>>>" ++ check (runes_of_ascii "packet o { repeat Logon // c
uint8x , } options { asx = zchar[ 3 ] stringy = '\x00' }")).
Eval vm_compute in ("<<<M384>>>" ++ check (runes_of_ascii "root packet SimpleMessage {
	uint16 MsgType `" ++ [28040; 24687; 31867; 22411]%N ++ runes_of_ascii "`,
	string JsonBody `Json" ++ [23383; 31526; 20018; 28040; 24687; 20307]%N ++ runes_of_ascii "`,
}")).
Eval vm_compute in ("<<<M1309>>>" ++ check (runes_of_ascii "MetaData body { // c
i64 pack `it's` , } packet stringy { int16 calculatedFrom , }")).
Eval vm_compute in ("<<<M848>>>" ++ check (runes_of_ascii "packet A {
  match k as n {
    [1, 22, 007, 4, 5, 66, 7, 8] : B
    2 : C
  },
}")).
Eval vm_compute in ("<<<M815>>>" ++ check (runes_of_ascii "packet A {
  match k as n {
    [""a"", 22, ""c c"", 4, ""e""] : B
    2 : C
  },
}")).
Eval vm_compute in ("<<<M1094>>>" ++ check (runes_of_ascii "packet A {
    match k as n {
        1 : B // c
        , // d
    },
}")).
Eval vm_compute in ("<<<M1723>>>" ++ check (runes_of_ascii "
packet

A
	{ match
    k
as n
{ 
[ 1 ,

22  ] 
:
B
2
:

C }  ,}
")).
Eval vm_compute in ("<<<M1855>>>" ++ check (runes_of_ascii "// c
packet x {
    @rightPad()
    repeat roots Logon `doc`,
}")).
Eval vm_compute in ("<<<M1819>>>" ++ check (runes_of_ascii "

  root packet
u128
    {

    chars`it's` ,

}  // c
")).
Eval vm_compute in ("<<<M2050>>>" ++ check (runes_of_ascii "root packet P {
    hdr {
        u8 a,
    },
    u8 x,
}")).
Eval vm_compute in ("<<<M1074>>>" ++ check (runes_of_ascii "packet A { u8 x, } // a
// b
packet B {} // c
// d")).
Eval vm_compute in ("<<<M1995>>>" ++ check (runes_of_ascii "  root

packet
A

{u8  x`a
b`
	,

    }

")).
Eval vm_compute in ("<<<M398>>>" ++ check (runes_of_ascii "packet
    // `tick` ""quote"" 'q'
    crc")).
Eval vm_compute in ("<<<M517>>>" ++ check (runes_of_ascii "root packet tag { }  packet MetaDataX")).
Eval vm_compute in ("<<<M1804>>>" ++ check (runes_of_ascii "packet body {
    // @lengthOf(
}")).
Eval vm_compute in ("<<<M1018>>>" ++ check (runes_of_ascii "packet A {
 u8 x `d" ++ [8239]%N ++ runes_of_ascii "`, // c" ++ [8239]%N ++ runes_of_ascii "
}")).
Eval vm_compute in ("<<<M2056>>>" ++ check (runes_of_ascii "
// c" ++ [12]%N ++ runes_of_ascii "
  packet

A

{ 
}

")).
Eval vm_compute in ("<<<M1963>>>" ++ check (runes_of_ascii "
packet
A
	{// a

}
")).
Eval vm_compute in ("<<<M215>>>" ++ check (runes_of_ascii "
packet uint8x	{	}")).
Eval vm_compute in ("<<<M1051>>>" ++ check (runes_of_ascii "packet A {
}
// c" ++ [6158]%N)).
Eval vm_compute in ("<<<M741>>>" ++ check (runes_of_ascii "_MY?NOgwP4leE+V")).
Eval vm_compute in ("<<<M734>>>" ++ check (runes_of_ascii "string")).
Eval vm_compute in ("<<<M767>>>" ++ check (runes_of_ascii "i64")).
