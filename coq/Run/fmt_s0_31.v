From FP Require Import Lexer Parser ShowPT Digest Formatter.
From Coq Require Import String List NArith.
Import ListNotations.
Open Scope string_scope.
Set Printing Width 100000000.
Set Printing Depth 100000000.
Definition show_fres (r : fres) : string :=
  match r with
  | FOk s => "OK:" ++ sh_escaped s ""
  | FErr s => "ERR:" ++ sh_escaped s ""
  | FPanic p => "PANIC:" ++ p
  end.
Definition check (rs : list rune) : string := digest (show_fres (format_res rs)).
Definition full (rs : list rune) : string := show_fres (format_res rs).
Eval vm_compute in ("<<<M271>>>" ++ check (runes_of_ascii "// packet A { u8 x, }
packet string_ {
@tag( 4294967296)
@calculatedFrom( """ ++ [128512]%N ++ runes_of_ascii """ )@calculatedFrom( ""1"" )  leftPad @lengthOf( //	t
int )  ``
// `tick` ""quote"" 'q'
//
, repeat Packet{ zchar[
0
    // packet A { u8 x, }
    ]options1 `line1
line2` , },
    @calculatedFrom( """"	) float32
    u8x
    ,
float , i64_
{ packetx {  i16	falsey, f32 repeatCount
    `{ , }`,} ,
    repeat char[
0  ] i8i8, string	o @lengthOf( options1 ) , } , i64_
@calculatedFrom(""a\""b"" )
/// triple
//x
`a\`  , @rightPad ( )@lengthOf( packetx
    )
match matchKey as stringy{ ""a	b"":
body,}
    ,
    // " ++ [27880; 37322]%N ++ runes_of_ascii "
    @lengthOf(
u128
) @calculatedFrom(
    ""`tick`"" ) @rightPad
    () // @lengthOf(
repeat falsey
string_ `" ++ [28040; 24687; 31867; 22411]%N ++ runes_of_ascii "`
    ,string As`it's`
    ,
@calculatedFrom( """ ++ [28040; 24687]%N ++ runes_of_ascii """ ) repeat rootA { float64
body	,
} , } options {zchar
=
    // " ++ [128512]%N ++ runes_of_ascii " emoji
    true  ;  i8i8= 3; } packet	leftPad{	@calculatedFrom(
    // c
    """" ) //x
@leftPad( ' ' )
@calculatedFrom(
""abc"" ) repeat MetaDataX{  char[] Pad , body
@lengthOf( Foo )
/// triple
/// triple
,uint64 i8i8 ,char[ 42 ]options1
@calculatedFrom( ""x y""
),}
,
} packet stringy
    /// triple
    {	@calculatedFrom( """ ++ [28040; 24687]%N ++ runes_of_ascii """ )BodyLength	len
    ,@lengthOf(
u
    ) i8i8
metadata
, @calculatedFrom(
""a\\""
) //x
packetx
    ,
    f64 i8i8	@lengthOf( Header
    )
    , metadata
`
`,@lengthOf( int ) repeat falsey	,
repeat char[]
trueish
,
    }
")).
Eval vm_compute in ("<<<M96>>>" ++ check (runes_of_ascii "packet  int//x
{
// " ++ [128512]%N ++ runes_of_ascii " emoji
//	t
} packet Z9_ {
    @tag(  1
) @tag(00 ) zchar[ 0 ] trueish `// not a comment`
, Header @lengthOf(
repeatCount ) // `tick` ""quote"" 'q'
,charz float`crlf
line` , match
lengthOf as	u
    // c
    { // `tick` ""quote"" 'q'
65535  :
    msg_type
,""1""
:
    // " ++ [27880; 37322]%N ++ runes_of_ascii "
    x
    ,
""a\""b"" : packetx , 10:
msg_type """ ++ [128512]%N ++ runes_of_ascii """ :
calculatedFrom [
7 ,0	]
    // c
    : // " ++ [128512]%N ++ runes_of_ascii " emoji
u128 , }, string i8i8`{ , }` , } packet// @lengthOf(
a1{ } root packet roots {
    @lengthOf(
    // " ++ [128512]%N ++ runes_of_ascii " emoji
    u )
f64 Logon,@lengthOf(
_x	) As
    @calculatedFrom(""\n"" ) , @leftPad
// packet A { u8 x, }
// " ++ [27880; 37322]%N ++ runes_of_ascii "
(  )repeatCount
@calculatedFrom( ""{,}""
)
`tab	here`
    // trailing space 
    , @tag(
    //x
    42)char[
1
    ]T
    `a\`
,int64
_x// packet A { u8 x, }
, zchar[	4294967296
    ]
i64_ @lengthOf(  tag
    //	t
    )
    `
`
    , @calculatedFrom(""a\""b""
    //x
    ) u8 len`it's` , @leftPad
(
) metadata@lengthOf(tag
    ) `{ , }` ,@leftPad// packet A { u8 x, }
( ' '
) MetaDataX  {
    repeat char[]	rootA
    ,
    // c
    } ,i8 body ,}
")).
Eval vm_compute in ("<<<M1570>>>" ++ check (runes_of_ascii "root packet repeatCount {
    @lengthOf(u8x)
    @calculatedFrom(""1"")
    @tag(007)
    repeat zchar[42] Header `" ++ [28040; 24687; 31867; 22411]%N ++ runes_of_ascii "`,
    match options1 as asx {
        255 : roots,
    },// a // b
    Header @lengthOf(options1) ``,
    Header @lengthOf(len) `{ , }`,
    o matchKey `u8 x,`,
}

packet packetx {
    zchar[255] crc,
}

packet Logon {
    body {
        float {
            repeat Logon trueish,
        },
    },
    @calculatedFrom(""`tick`"")
    repeat char[0] f32a,
    match body as float {
        [65535, """ ++ [28040; 24687]%N ++ runes_of_ascii """] : calculatedFrom,
    },
    u32 float @calculatedFrom(""" ++ [233]%N ++ runes_of_ascii "t" ++ [233]%N ++ runes_of_ascii """),
    string body @lengthOf(len) `
        `,
    u8x @calculatedFrom(""a\""b""),//	t
    float64 options1 @calculatedFrom(""" ++ [128512]%N ++ runes_of_ascii """) `it's`,
    //x
    // trailing space 
    match crc as chars {
        3 : options1,
        [10] : _x,
        [""{,}""] : options1,
        [7, ""CRC32"", ""a\\"", ""a\\"", ""packet""] : As,
    },
    i16 msg_type,
}")).
Eval vm_compute in ("<<<M1857>>>" ++ check (runes_of_ascii "packet pack {
    @lengthOf(Foo)
    asx @lengthOf(_x),
    u8 x_y_z `two words`,
    repeat zchar[0] roots `
    `,
    lengthOf @calculatedFrom(""abc""),
    @tag(3)
    @rightPad(' ')
    @calculatedFrom(""1"")
    repeat uint64 i64_ `say ""hi""`,
    @tag(007)
    match roots as float {
        ""a	b"" : lengthOf,
        [
            1, 42, ""\n"", ""a\""b"", ""\" ++ [233]%N ++ runes_of_ascii """,
            ""1""
        ] : msg_type,
        """ ++ [128512]%N ++ runes_of_ascii """ : Foo,
    },
    T {
        match Header as trueish {
            [
                0, 3, 00, 0123456789, ""{,}"",
                ""1"", ""// no comment""
            ] : As,
        },
    },
    repeat char[10] o `
    `,
    @calculatedFrom(""`tick`"")
    repeat crc {
        repeatCount o,
        u8x As,
    },
}

packet pack {
    @calculatedFrom(""" ++ [233]%N ++ runes_of_ascii "t" ++ [233]%N ++ runes_of_ascii """)
    u32 f32a,
}

MetaData float {
    u32 options1,
}

packet f32a {
}")).
Eval vm_compute in ("<<<M1347>>>" ++ check (runes_of_ascii "options {
    StringPrefixLenType = u16;
    ArrayPrefixLenType = u32;
    FixedStringPadFromLeft = true;
    FixedStringPadChar = '0';
}
packet Cancel {
}
packet Party {
}
packet Logon {
}
packet Ack {
}
packet Logout {
    repeat InSym87 {
        InClordid94 {
            string clOrdID,
        },
        string Px,
        i16 Qty,
        repeat InCount71 {
            repeat Cancel,
            uint16 Tail,
            char[2] x,
            repeat string Ref,
        },
        Cancel,
    },
}
root packet Order {
    repeat string tag7,
    @leftPad(' ') char[3] Px,
    u8 Qty,
    match Qty as Body {
        [28, 62] : Logon,
        148 : Ack,
        88 : Party,
        184 : Cancel,
    },
    u16 Note @calculatedFrom(""CR\
C32""),
}
")).
Eval vm_compute in ("<<<M1402>>>" ++ check (runes_of_ascii "  // top
  	options  // c0a
		// c0b
  {	// c1a
    // c1b
FixedStringPadChar  =  // c3
'0'
;
	} 
packet 
  // c7
Q // c8

{// c9a

// c9b

zchar[  // c10a
		// c10b

	4 	 // c11
]  // c12
    	z  , 	 // c14
	@rightPad( // c16

	'\x00'
	)	// c18a
    // c18b

  char[3	// c20a

// c20b
      ]
    // c21
  n
, 
  // c23
    char[

    // c24
5 

// c25
    ]// c26

d	// c27
    ,
} 	 // c29a
      // c29b
  root
    // c30
	packet	R 
// c32
	{  // c33
    	Q

    , // c35a
// c35b

	zchar[

8 	 // c37
] 	 // c38
    top ,  // c40a
  	// c40b
    	repeat  
  // c41
  zchar[

// c42
2 
    // c43
	  ]	// c44a
  // c44b
    zs 

// c45
	,	// c46a

	// c46b
    	}	// c47")).
Eval vm_compute in ("<<<M122>>>" ++ check (runes_of_ascii "
packet u128  { // trailing space 
string  Header `say ""hi""` , repeat crc
f32a,
    char[ 10
    ] _x	,	@calculatedFrom( ""x y""	) repeat
    //
    charz	{
    Logon @lengthOf(T) `crlf
line`
, repeat char[ // trailing space 
0123456789 ]Z9_
    `crlf
line` ,
    } ,
    match Packet
    as
// " ++ [128512]%N ++ runes_of_ascii " emoji
// `tick` ""quote"" 'q'
float // a // b
{
    1
:  lengthOf }  ,  MetaDataX , match x as
u8x { 10 :crc } , } root packet // `tick` ""quote"" 'q'
Header // a // b
{ @calculatedFrom( ""{,}"") a1
    {  char[
    // packet A { u8 x, }
    007 ] pack ,stringy //x
zchar
    , repeat
char[]
    // " ++ [128512]%N ++ runes_of_ascii " emoji
    o `it's`	, } , }")).
Eval vm_compute in ("<<<M1591>>>" ++ check (runes_of_ascii "options {
    LittleEndian = false;
    ArrayPrefixLenType = u8;
    FixedStringPadFromLeft = true;
    FixedStringPadChar = '0';
}

packet Heartbeat {
    string lastPx,
    uint8 Qty,
    i64 Acct,
    char[4] Ref,
}

packet Fill {
    uint8 Ref,
    Heartbeat,
    f32 OrderId,
    repeat f32 x,
}

root packet Order {
    zchar[2] OrderId,
    zchar[2] Acct,
    zchar[1] Note,
    zchar[9] Qty,
    string price,
    string tag7,
    u32 x,
    match x as Body {
        123 : Fill,
        112 : Heartbeat,
    },
    u32 seqNo @calculatedFrom(""CRC32""),
}")).
Eval vm_compute in ("<<<M1337>>>" ++ check (runes_of_ascii "options {
    ArrayPrefixLenType = u64;
    FixedStringPadFromLeft = true;
    FixedStringPadChar = '0';
}
packet Quote {
}
packet Ack {
    repeat InNote66 {
        u8 pad0,
    },
}
packet Reject {
}
root packet Order {
    Quote,
    repeat Reject,
    string venue,
    string seqNo,
    uint32 Ref,
    u16 lastPx,
    u32 clOrdID @lengthOf(Body),
    match lastPx as Body {
        190 : Reject,
        186 : Quote,
        22 : Ack,
    },
    u16 Flags @calculatedFrom(""CRC32""),
}
")).
Eval vm_compute in ("<<<M1297>>>" ++ check (runes_of_ascii "packet A { // c2a
  // c2b
u8
    // c3
a ,
    // c5
} // c6a
  // c6b
packet B // c8
{ // c9
u16
    // c10
b // c11
, // c12
} // c13a
  // c13b
root // c14a
  // c14b
packet // c15a
  // c15b
P
    // c16
{ u8 // c18a
  // c18b
K // c19
, match // c21
K // c22a
  // c22b
as // c23
M // c24
{ // c25a
  // c25b
1 : // c27a
  // c27b
A // c28a
  // c28b
,
    // c29
1
    // c30
: B
    // c32
,
    // c33
} // c34a
  // c34b
,
    // c35
} ")).
Eval vm_compute in ("<<<M1271>>>" ++ check (runes_of_ascii "options { // c1a
  // c1b
LittleEndian
    // c2
= // c3
true // c4
; } // c6a
  // c6b
packet B { u8 // c10a
  // c10b
a
    // c11
, // c12a
  // c12b
string // c13
s // c14
, } // c16
root // c17a
  // c17b
packet
    // c18
P // c19
{ u16 // c21
L @lengthOf( B ) // c25a
  // c25b
, // c26a
  // c26b
B // c27a
  // c27b
,
    // c28
u8
    // c29
t // c30
, // c31
} // c32a
  // c32b
")).
Eval vm_compute in ("<<<M236>>>" ++ check (runes_of_ascii "packet metadata{ //	t
float64	body
    @lengthOf( calculatedFrom ) , // a // b
@tag(42
    ) rootA ,
    x_y_z u8x`// not a comment`
    ,  @lengthOf(Pad)  match // " ++ [27880; 37322]%N ++ runes_of_ascii "
packetx  as leftPad
    {
    //
    65535 : tag ,
""" ++ [128512]%N ++ runes_of_ascii """ :_x} , x_y_z  metadata , @tag(7 )int64 zchar @lengthOf(
repeatCount ) `" ++ [233]%N ++ runes_of_ascii "`,@tag( 0123456789 ) repeat float chars ,	f32  MetaDataX
,}")).
Eval vm_compute in ("<<<M240>>>" ++ check (runes_of_ascii "
packet BodyLength { repeatCount // packet A { u8 x, }
`// not a comment`
,
@lengthOf( lengthOf	)  @tag( 65535
    )@rightPad (
// @lengthOf(
//	t
'0' )/// triple
u8 Logon , } packet chars { o msg_type , @tag( 10)zchar[ 65535
] f32a
,repeat char[]
i64_
`
` ,} root packet f32a { @tag( 255 )repeat u8 stringy, }
")).
Eval vm_compute in ("<<<M35>>>" ++ check (runes_of_ascii "  packet Header
{ @calculatedFrom( // a // b
""a	b"" )
char[
    255] falsey `tab	here`,int8
    // " ++ [27880; 37322]%N ++ runes_of_ascii "
    u
`doc` , float32 lengthOf
    @calculatedFrom(
""a	b""  )
    // a // b
    , @rightPad (
' '  ) @tag( 3
) float64 asx
    ,
int8 metadata @lengthOf(zchar )// a // b
,Pad f32a , }")).
Eval vm_compute in ("<<<M1291>>>" ++ check (runes_of_ascii "// top
root
    // c0
packet
    // c1
P // c2a
  // c2b
{ // c3
u8 // c4
s_u8 // c5a
  // c5b
, // c6
repeat u8 // c8a
  // c8b
r_u8 // c9a
  // c9b
,
    // c10
u16 // c11a
  // c11b
b_len // c12a
  // c12b
, // c13a
  // c13b
} // c14a
  // c14b
")).
Eval vm_compute in ("<<<M82>>>" ++ check (runes_of_ascii "packet metadata
{int32 calculatedFrom , } options {} options { u128 = '\x00'	;
    string_ =	""abc""
    ; }root
packet i8i8
    {  @rightPad
( '\x00' ) repeat	metadata { string_,
    tag@lengthOf( falsey ) ,
} ,//x
}")).
Eval vm_compute in ("<<<M1709>>>" ++ check (runes_of_ascii "// top
options {
    // c1
    f32a = 0// c4
}// c5

packet trueish {
}// c9

MetaData _x {
    char[0123456789] zchar,
    string crc,
    char[1] options1,
    uint8 repeatCount,
}// c29")).
Eval vm_compute in ("<<<M1195>>>" ++ check (runes_of_ascii "// top
packet
    // c0
body
    // c1
{
    // c2
i32
    // c3
f32a
    // c4
`{ , }`
    // c5
,
    // c6
}
    // c7
options
    // c8
{
    // c9
}
    // c10
")).
Eval vm_compute in ("<<<M501>>>" ++ check (runes_of_ascii "packet uint8x
{ match pack
    as msg_type	{
    0123456789 :	float
}
,
} packet //	t
a1
    { } options {packetx
    = '\x00' '\x00'	; u128= ""a	b""  ; }
")).
Eval vm_compute in ("<<<M552>>>" ++ check (runes_of_ascii "packet uint8x
{ match pack
    as msg_type	{
    0123456789 :	float
}
,
} packet //	t
na" ++ [239]%N ++ runes_of_ascii "ve
    { } options {packetx
    = '\x00'	; u128= ""a	b""  ; }
")).
Eval vm_compute in ("<<<M538>>>" ++ check (runes_of_ascii "packet uint8x
{ match pack
    as msg_type	{
    0123456789 :	float
}
,
} packet //	t
a1
    { } options {packetx
    = '\x00'	%; u128= ""a	b""  ; }
")).
Eval vm_compute in ("<<<M477>>>" ++ check (runes_of_ascii "packet uint8x
{ match pack
    as msg_type	{
    0123456789 :	float
}
,
} packet //	t
a1
    { options } {packetx
    = '\x00'	; u128= ""a	b""  ; }
")).
Eval vm_compute in ("<<<M676>>>" ++ check (runes_of_ascii "// @lengthOf(
packet i8i8 { u128 o , }
options { MetaDataX = true;
    BodyLength =""packet"" x_y_z x_y_z= 007
crc //x
= ""abc"" ;
    msg_type =
i16 }")).
Eval vm_compute in ("<<<M520>>>" ++ check (runes_of_ascii "packet uint8x
{ match pack
    as msg_type	{
    0123456789 :	float
}
,
} packet //	t
a1
    { } options {packetx
    = '\x00'	; u128=   ; }
")).
Eval vm_compute in ("<<<M490>>>" ++ check (runes_of_ascii "packet uint8x
{ match pack
    as msg_type	{
    0123456789 :	float
}
,
} packet //	t
a1
    { } options {
    = '\x00'	; u128= ""a	b""  ; }
")).
Eval vm_compute in ("<<<M1260>>>" ++ check (runes_of_ascii "

  packet

B
    {

u8
	a

,
    }root
packet
P{ u8 K  , u8

L @lengthOf(
	Body )
,  match

K
    as Body
{

    1  :  B
	,  },
    } ")).
Eval vm_compute in ("<<<M1298>>>" ++ check (runes_of_ascii "packet
A
{ 
u8 a,
}

packet
    B {

u16  b
,} 
root	packet	P
{ u8
K

,

    match	K

as M	{1
    :
A,

1	: 
B 
, }
,

    }

")).
Eval vm_compute in ("<<<M1851>>>" ++ check (runes_of_ascii "
packet  A{ 
match k

as
    n
	{
    ""\
"":  B , [ ""\
""  ,
1 
]	:
C

    , [ 
1

,  2 ,	3	, 
4, 
5  ,""\
"" ]	:  D  ,	} ,}

")).
Eval vm_compute in ("<<<M1146>>>" ++ check (runes_of_ascii "MetaData leftPad
// c
{ chars MetaDataX , } packet repeatCount { char[ 255 ] uint8x `" ++ [233]%N ++ runes_of_ascii "` , } MetaData pack { As Foo , }")).
Eval vm_compute in ("<<<M1178>>>" ++ check (runes_of_ascii "MetaData leftPad { chars MetaDataX , } packet repeatCount { char[ 255 ] uint8x `" ++ [233]%N ++ runes_of_ascii "` , } MetaData
// c
pack { As Foo , }")).
Eval vm_compute in ("<<<M1619>>>" ++ check (runes_of_ascii "MetaData msg_type {
}

root packet A {
    repeat i32 leftPad `it's`,
}

root packet a1 {
    char[255] falsey,
}")).
Eval vm_compute in ("<<<M881>>>" ++ check (runes_of_ascii "packet A {
  match k as n {
    [""a"", ""bb"", ""c c"", ""d"", ""e"", ""f"", ""g"", ""h"", ""i"", ""j""] : B
    2 : C
  },
}")).
Eval vm_compute in ("<<<M683>>>" ++ check (runes_of_ascii "// @lengthOf(
packet i8i8 { u128 o , }
options { MetaDataX = true;
    BodyLength =""packet"" x_y_z= 007")).
Eval vm_compute in ("<<<M899>>>" ++ check (runes_of_ascii "packet A {
  match k as n {
    [1, 22, ""c c"", 4, 5, ""f"", 7, 8, ""i"", 10, 11] : B,
    2 : C
  },
}")).
Eval vm_compute in ("<<<M119>>>" ++ check (runes_of_ascii "packet u{ @tag(10 // a // b
) tag  @lengthOf( A
// " ++ [128512]%N ++ runes_of_ascii " emoji
// a // b
) , repeat options1 ,  }")).
Eval vm_compute in ("<<<M613>>>" ++ check (runes_of_ascii "
packet
    asx {match u128 as lengthOf
{
//	t
// `tick` ""quote"" 'q'
255 : x ,
    } } ,	}")).
Eval vm_compute in ("<<<M594>>>" ++ check (runes_of_ascii "
packet
    asx {match u128 as lengthOf
{
//	t
// `tick` ""quote"" 'q'
: 255 x ,
    } ,	}")).
Eval vm_compute in ("<<<M828>>>" ++ check (runes_of_ascii "packet A {
  match k as n {
    [""a"", ""bb"", ""c c"", ""d"", ""e"", ""f""] : B,
    2 : C
  },
}")).
Eval vm_compute in ("<<<M866>>>" ++ check (runes_of_ascii "packet A {
  match k as n {
    [1, 22, 007, 4, 5, 66, 7, 8, 9] : B
    2 : C
  },
}")).
Eval vm_compute in ("<<<M823>>>" ++ check (runes_of_ascii "packet A {
  match k as n {
    [""a"", ""bb"", 007, ""d"", ""e""] : B,
    2 : C
  },
}")).
Eval vm_compute in ("<<<M826>>>" ++ check (runes_of_ascii "packet A {
  match k as n {
    [1, 22, 007, 4, 5, 66] : B,
    2 : C
  },
}")).
Eval vm_compute in ("<<<M1658>>>" ++ check (runes_of_ascii "  packet	A

{ }
packet B

    { 
} MetaData
M
{

    }options {

}

")).
Eval vm_compute in ("<<<M449>>>" ++ check (runes_of_ascii "packet uint8x
{ match pack
    as msg_type	{
    0123456789 :	float")).
Eval vm_compute in ("<<<M1101>>>" ++ check (runes_of_ascii "// top
MetaData
    // c0
tag
    // c1
{
    // c2
}
    // c3
")).
Eval vm_compute in ("<<<M954>>>" ++ check (runes_of_ascii "packet A {
    B b `
x`,
    B `
x`,
    repeat B bs `
x`,
}")).
Eval vm_compute in ("<<<M1070>>>" ++ check (runes_of_ascii "packet A { match k as n { 1 : B // a // b 2 : C }, }")).
Eval vm_compute in ("<<<M1212>>>" ++ check (runes_of_ascii "packet body { i32 f32a `{ , }` ,
// c
} options { }")).
Eval vm_compute in ("<<<M1286>>>" ++ check (runes_of_ascii "

  root
    packet P{ 
string
	s

    , }
")).
Eval vm_compute in ("<<<M940>>>" ++ check (runes_of_ascii "root packet A {
    u8 x `a
    b
  c`,
}")).
Eval vm_compute in ("<<<M1068>>>" ++ check (runes_of_ascii "options { a = 1 // c b = 2; // d}")).
Eval vm_compute in ("<<<M1595>>>" ++ check (runes_of_ascii "packet A {
    u8 x `d" ++ [8192]%N ++ runes_of_ascii "`,// c" ++ [8192]%N ++ runes_of_ascii "
}")).
Eval vm_compute in ("<<<M1058>>>" ++ check (runes_of_ascii "packet A {
 u8 x `d" ++ [6158]%N ++ runes_of_ascii "`, // c" ++ [6158]%N ++ runes_of_ascii "
}")).
Eval vm_compute in ("<<<M1576>>>" ++ check (runes_of_ascii "  packet	A  { }

// c 
 
")).
Eval vm_compute in ("<<<M51>>>" ++ check (runes_of_ascii "options {} // " ++ [128512]%N ++ runes_of_ascii " emoji")).
Eval vm_compute in ("<<<M1042>>>" ++ check (runes_of_ascii "// c 	
packet A {
}")).
Eval vm_compute in ("<<<M1012>>>" ++ check (runes_of_ascii "// c" ++ [8232]%N ++ runes_of_ascii "
packet A {
}")).
Eval vm_compute in ("<<<M979>>>" ++ check (runes_of_ascii "packet A {
}// c" ++ [12288]%N)).
Eval vm_compute in ("<<<M378>>>" ++ check (runes_of_ascii "// @lengthOf(

")).
Eval vm_compute in ("<<<M561>>>" ++ check (runes_of_ascii "
packet")).
Eval vm_compute in ("<<<M765>>>" ++ check (runes_of_ascii "/" ++ [65533; 65533; 65533]%N)).
