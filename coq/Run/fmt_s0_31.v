From FP Require Import Lexer Parser ShowPT Digest Formatter.
From Coq Require Import String List NArith.
Import ListNotations.
Open Scope string_scope.
Set Printing Width 100000000.
Set Printing Depth 100000000.
Definition show_fres (r : fres) : string :=
  match r with
  | FOk s => "OK:" ++ sh_escaped s ""
  | FErr s => "ERR:" ++ sh_escaped s ""
  | FPanic p => "PANIC:" ++ p
  end.
Definition check (rs : list rune) : string := digest (show_fres (format_res rs)).
Definition full (rs : list rune) : string := show_fres (format_res rs).
Eval vm_compute in ("<<<M386>>>" ++ check (runes_of_ascii "options {
    StringPrefixLenType = u16;
    ArrayPrefixLenType = u16;
}

packet SampleBinary {
    uint16 MsgType `" ++ [28040; 24687; 31867; 22411]%N ++ runes_of_ascii "`,
    u16 BodyLenght @lengthOf(Body) `" ++ [28040; 24687; 20307; 38271; 24230]%N ++ runes_of_ascii "`,
    match MsgType as Body {
        1 : Logon,
        2 : Logout,
        3 : Heartbeat,
        4 : RiskControlRequest,
        5 : RiskControlResponse,
    },
    @calculatedFrom(""CRC32"")
    u32 Ckecksum `" ++ [26657; 39564; 21644]%N ++ runes_of_ascii "`,
}

packet Logon {
    @leftPad('0')
    char[10] UserName `" ++ [29992; 25143; 21517]%N ++ runes_of_ascii "`,
    string Password `" ++ [23494; 30721]%N ++ runes_of_ascii "`,
    uint64 ClientId `" ++ [23458; 25143; 31471]%N ++ runes_of_ascii "ID`,
    u16 HeartbeatInterval `" ++ [24515; 36339; 38388; 38548]%N ++ runes_of_ascii "`,
}

packet Logout {
    @rightPad('0')
    char[10] UserName `" ++ [29992; 25143; 21517]%N ++ runes_of_ascii "`,
    uint64 ClientId `" ++ [23458; 25143; 31471]%N ++ runes_of_ascii "ID`,
}

packet Heartbeat {
}

packet RiskControlRequest {
    string UniqueOrderId `" ++ [21807; 19968; 35746; 21333; 21495]%N ++ runes_of_ascii "`,
    char[16] ClOrdID `" ++ [23458; 25143; 35746; 21333; 21495]%N ++ runes_of_ascii "`,
    char[3] MarketID `" ++ [24066; 22330]%N ++ runes_of_ascii "id`,
    char[12] SecurityID `" ++ [35777; 21048; 20195; 30721]%N ++ runes_of_ascii "`,
    char Side `" ++ [20080; 21334; 26041; 21521]%N ++ runes_of_ascii "`,
    char OrderType `" ++ [35746; 21333; 31867; 22411]%N ++ runes_of_ascii "`,
    u64 Price `" ++ [20215; 26684]%N ++ runes_of_ascii "`,
    u32 Qty `" ++ [25968; 37327]%N ++ runes_of_ascii "`,
    repeat string ExtraInfo `" ++ [38468; 21152; 20449; 24687]%N ++ runes_of_ascii "`,
    repeat SubOrder {
        char[16] ClOrdID `" ++ [23376; 35746; 21333; 21495]%N ++ runes_of_ascii "`,
        u64 Price `" ++ [23376; 35746; 21333; 20215; 26684]%N ++ runes_of_ascii "`,
        u32 Qty `" ++ [23376; 35746; 21333; 25968; 37327]%N ++ runes_of_ascii "`,
    },
}

packet RiskControlResponse {
    string UniqueOrderId `" ++ [21807; 19968; 35746; 21333; 21495]%N ++ runes_of_ascii "`,
    i32 Status `" ++ [29366; 24577]%N ++ runes_of_ascii "`,
    string Msg `" ++ [32467; 26524; 20449; 24687]%N ++ runes_of_ascii "`,
    repeat Detail,
}

packet Detail {
    string RuleName `" ++ [35268; 21017; 21517; 31216]%N ++ runes_of_ascii "`,
    u16 Code `" ++ [21407; 22240; 20195; 30721]%N ++ runes_of_ascii "`,
}")).
Eval vm_compute in ("<<<M149>>>" ++ check (runes_of_ascii "// trailing space 
packet
    charz {	@calculatedFrom( ""1""
)match x
as tag
    {	[
7 , // @lengthOf(
0
, 65535	,
    // `tick` ""quote"" 'q'
    ""it's""/// triple
,0
    ,
""x y"", 255 ] :tag  , [ ""1"" // a // b
, //	t
3  , 007, // " ++ [27880; 37322]%N ++ runes_of_ascii "
255 ,  ""x y""
    // @lengthOf(
    ] :pack ,[""" ++ [233]%N ++ runes_of_ascii "t" ++ [233]%N ++ runes_of_ascii """	, 7  , 10  , 3
, 0
    , ""a\""b"" ] :
    // packet A { u8 x, }
    leftPad, [ 65535
    // " ++ [27880; 37322]%N ++ runes_of_ascii "
    ,
""x y""]
: chars [ ""\n"" ,65535 , ""a\\""
] :
A	, ""\n"" :
    lengthOf , } ,
match string_
    as	i8i8 { 7 :msg_type , // c
""abc"" :
tag ,""a\""b"" :metadata, 255
    : matchKey	,
    [""CRC32"" ,""1""
// " ++ [27880; 37322]%N ++ runes_of_ascii "
// " ++ [128512]%N ++ runes_of_ascii " emoji
, 007 , ""packet"" ,""a\\"" /// triple
,	""a\""b""
    // " ++ [128512]%N ++ runes_of_ascii " emoji
    , 007 , 4294967296 ] : lengthOf , }
,uint16
pack , string Pad@lengthOf( o ) `say ""hi""` ,repeat i8 body
    ,
@lengthOf( //x
crc ) float64 body `// not a comment`
, repeat rootA { int16 x_y_z `tab	here` ,
falsey @calculatedFrom( ""{,}"" ), trueish @lengthOf(
crc) `{ , }` , }
, match Pad as
Header
{
    4294967296: Header,""\n"" :msg_type,""a	b"" :
    x_y_z
    , }
,
    //	t
    Logon
, } 	 ")).
Eval vm_compute in ("<<<M1559>>>" ++ check (runes_of_ascii "

  options 
{
    FixedStringPadFromLeft

=
true  ;FixedStringPadChar =
'0' ;

} packet

    Leg {
	repeat	InSym93
{ zchar[
    3 ]

    Acct 
,

    string	Side2
	,
i32 Flags

, 
f32
Note ,i32
    msgKind
,
} , 
f64 Note

    , uint16 Px
    ,}
packet
Quote
{zchar[2 ]
    OrderId 
,

}packet Ack
	{

repeat

string lastPx 
,
	zchar[ 
4

    ]  price
	,
    uint32
OrderId

, Quote
,
	int8

Acct	, 
}	packet Fill	{  repeat Leg,

@rightPad
	('0'

    )	char[ 11 
]	Note
, f64 Px
, @rightPad

(
'\x00'

    )char[ 5	]Flags

,  zchar[9
	]	x

    ,
	string	msgKind , 
}
	root  packet
Order
{
Leg
    ,
    repeat

    Ack  ,
    @rightPad(	'\x00'	) 
char[
3 ]

Side2 ,repeat
	char[  1 ] seqNo
,
    u16
clOrdID 
,  match clOrdID
    as
Body{ 198
:  Leg

    , 23
    : Quote ,

    13 :

Ack	, 159
: Fill,
	}
    , u32	venue	@calculatedFrom( ""CR\
C32""	)

,

} ")).
Eval vm_compute in ("<<<M141>>>" ++ check (runes_of_ascii "options // @lengthOf(
{zchar = char[] Z9_	='0' ;
} options
{ asx = char[] }root packet leftPad { T @lengthOf(
    f32a//
)
, } //
root
//x
// @lengthOf(
packet calculatedFrom {
u
    {//	t
char[] // packet A { u8 x, }
T `" ++ [233]%N ++ runes_of_ascii "`	,	match stringy /// triple
as //	t
chars { [
    0123456789 ]
: T ,
// `tick` ""quote"" 'q'
// " ++ [27880; 37322]%N ++ runes_of_ascii "
}	, uint16 a1 @lengthOf( x) , string
chars `two words` ,
} , @calculatedFrom(
    ""x y"")char[]
// " ++ [27880; 37322]%N ++ runes_of_ascii "
// " ++ [128512]%N ++ runes_of_ascii " emoji
body @lengthOf(
lengthOf )
    /// triple
    ,
    @lengthOf(	A	)rootA
,	@lengthOf(i64_ ) // packet A { u8 x, }
repeat f32a { lengthOf
    // " ++ [128512]%N ++ runes_of_ascii " emoji
    charz // a // b
`" ++ [28040; 24687; 31867; 22411]%N ++ runes_of_ascii "`, }
    // packet A { u8 x, }
    ,
match tag as
//x
//	t
T { [
3
] : falsey , }	,zchar[
    00
    ] charz@lengthOf(
    Pad
) ,
@tag( 3	) lengthOf{ i16 As ,
} ,
} root
packet	body{ }
")).
Eval vm_compute in ("<<<M1879>>>" ++ check (runes_of_ascii "MetaData len {
    i8 _x ``,
    zchar[00] tag,
    roots u,
    uint16 repeatCount,
    msg_type tag,
}

packet x_y_z {
    metadata {
        i8i8 chars,
        i64 chars,
    },
    repeat u16 asx,
}

packet u8x {
    @lengthOf(BodyLength)
    @leftPad()
    float `
    `,
    @calculatedFrom(""// no comment"")
    float32 chars `// not a comment`,
    uint32 u128,
    @tag(0)
    int16 tag,
    leftPad msg_type,// trailing space 
    pack `tab	here`,
    @lengthOf(repeatCount)
    zchar[4294967296] len,
    i32 packetx `tab	here`,
    calculatedFrom,
    metadata @calculatedFrom(""// no comment""),
}

options {
    // trailing space 
    options1 = 42;
    i64_ = char[]
    falsey = 42// a // b
    Packet = true;
}")).
Eval vm_compute in ("<<<M1831>>>" ++ check (runes_of_ascii "
packet
	leftPad
	{
match
	A as 
x 
{
    ""`tick`""  :
MetaDataX  //
      ,[

    ""it's"",

    ""\n"" ,""" ++ [28040; 24687]%N ++ runes_of_ascii """  ]
    :

string_
,

    0123456789
:	o
,[ ""{,}""
,

    ""x y""	]
	:

    uint8x	}

,
	char[
3 
]

msg_type 	 // " ++ [128512]%N ++ runes_of_ascii " emoji
@lengthOf(

    u
    //	t

	// " ++ [27880; 37322]%N ++ runes_of_ascii "

)	`two words` 
,

    // c
    repeat
int 
// packet A { u8 x, }
  // @lengthOf(
		Foo
,	@rightPad 
(
	)@rightPad
	( ' '
) Foo 
charz
`{ , }`	,
} 
MetaData
	A

{ zchar[  0
	]A

`{ , }` 
,  float32 
a1
	    //
	,  char[] 
pack
    , 	 /// triple
  string
body`" ++ [233]%N ++ runes_of_ascii "`

    ,

string
chars`doc` 
, int

_x

    `two words` 
,
}options

    { Z9_
=

    uint16
;
}
")).
Eval vm_compute in ("<<<M260>>>" ++ check (runes_of_ascii "packet metadata{ @rightPad
    (	) zchar[
//	t
// `tick` ""quote"" 'q'
0123456789] i64_
    // @lengthOf(
    @calculatedFrom( ""\n"" ) , @leftPad (
    ' '// " ++ [27880; 37322]%N ++ runes_of_ascii "
) zchar[ // `tick` ""quote"" 'q'
255
]
    MetaDataX `{ , }`// a // b
, @rightPad (
' ' )@calculatedFrom(""abc"" ) // " ++ [128512]%N ++ runes_of_ascii " emoji
@lengthOf(
matchKey
// `tick` ""quote"" 'q'
// `tick` ""quote"" 'q'
)
repeat char[ 42 ] packetx // packet A { u8 x, }
`" ++ [233]%N ++ runes_of_ascii "` ,  trueish@calculatedFrom( ""packet"" )
`a\` , matchKey int `" ++ [28040; 24687; 31867; 22411]%N ++ runes_of_ascii "` ,	@tag(
    // c
    0
) len{ char[65535 ] Header,
}
,@lengthOf( f32a ) zchar[	10  ]
    trueish `crlf
line` ,  }
")).
Eval vm_compute in ("<<<M1370>>>" ++ check (runes_of_ascii "options {
    StringPrefixLenType = u8;
    ArrayPrefixLenType = u8;
    FixedStringPadFromLeft = false;
    FixedStringPadChar = ' ';
}
packet Ack {
    char[] tag7,
}
packet Reject {
    InSym61 {
        repeat Ack,
        zchar[4] f1,
    },
}
packet Logout {
    char[4] clOrdID,
}
root packet Cancel {
    @leftPad(' ') char[10] price,
    u8 x,
    u32 venue @lengthOf(Body),
    match x as Body {
        [92, 175] : Logout,
        26 : Reject,
        144 : Ack,
    },
    u16 count @calculatedFrom(""CR\
C32""),
}
")).
Eval vm_compute in ("<<<M1622>>>" ++ check (runes_of_ascii "

  // top
	packet  // c0

B // c1a
	  // c1b
    { // c2
    	u8	// c3a

	// c3b
  	a// c4
,

    } // c6

root	// c7a
  // c7b
  	packet // c8a
  // c8b
	  P  {// c10
    u8
        // c11
  	K ,	// c13
      u8	// c14a
    // c14b
  L// c15a
// c15b
  @lengthOf(  // c16a
		// c16b

  Body)
// c18
  	,	match  // c20
	K

as 	 // c22a
// c22b
  Body  
  // c23
	  {
    1
    :
	    // c26
B// c27
    , 
}
    // c29
, 
  // c30
	}
        // c31
")).
Eval vm_compute in ("<<<M68>>>" ++ check (runes_of_ascii "
packet
    Header {  match roots  as packetx
// " ++ [27880; 37322]%N ++ runes_of_ascii "
//	t
{
    // `tick` ""quote"" 'q'
    [
""" ++ [28040; 24687]%N ++ runes_of_ascii """ ,
    0123456789 ]:packetx,
//
// c
4294967296
    : Logon ,	[ ""\n""
    ,""x y"" , // " ++ [128512]%N ++ runes_of_ascii " emoji
""packet"" , ""packet"" ] : i8i8 , 42 // `tick` ""quote"" 'q'
:Foo
    ,
}, //	t
@calculatedFrom( ""x y""	) f64 Logon ,} options
    {
    // " ++ [128512]%N ++ runes_of_ascii " emoji
    chars=
' '
    ; repeatCount =
""" ++ [233]%N ++ runes_of_ascii "t" ++ [233]%N ++ runes_of_ascii """ x	= ""\n"" ; calculatedFrom = ""`tick`"" //x
; }
")).
Eval vm_compute in ("<<<M303>>>" ++ check (runes_of_ascii "  packet
    tag{ } packet
    //
    packetx { @calculatedFrom( ""x y""
    )@tag(
    42 )
@lengthOf(
    As  ) char a1`two words` ,
    @leftPad
(
    '\x00' )
    @tag(10)
@lengthOf( u)
    char[] falsey // " ++ [128512]%N ++ runes_of_ascii " emoji
,
    // " ++ [27880; 37322]%N ++ runes_of_ascii "
    }//
MetaData
f32a {
    string u128 , roots
    stringy , Header body,
    float options1
    //	t
    `it's`
    ,	i8i8 options1
`" ++ [28040; 24687; 31867; 22411]%N ++ runes_of_ascii "`
    ,
}")).
Eval vm_compute in ("<<<M1919>>>" ++ check (runes_of_ascii "// top
options {
    // c1
    zchar = true;
    // c5
    Pad = char[00]
    // c10
    a1 = uint32
    // c13
    BodyLength = true;
    // c17
}

// c18
root packet T {
    // c22
    @lengthOf(repeatCount)
    // c25
    @tag(1)
    // c28
    @calculatedFrom(""a	b"")
    // c31
    string stringy @calculatedFrom(""\n"") `u8 x,`,
    // c38
}
// c39")).
Eval vm_compute in ("<<<M1452>>>" ++ check (runes_of_ascii "options {
    u = 7
    // " ++ [27880; 37322]%N ++ runes_of_ascii "
    roots = zchar[65535]
    msg_type = """ ++ [233]%N ++ runes_of_ascii "t" ++ [233]%N ++ runes_of_ascii """;
    x = false
}

MetaData string_ {
    char[42] i8i8 `" ++ [28040; 24687; 31867; 22411]%N ++ runes_of_ascii "`,
    u8 x_y_z,
    packetx lengthOf ``,
    T Header `line1
        line2`,
    char[] u8x `two words`,
}

packet float {
    calculatedFrom,
    @rightPad('0')
    char[3] u128,
}")).
Eval vm_compute in ("<<<M182>>>" ++ check (runes_of_ascii "root packet int {match MetaDataX	as charz
{ 255 :uint8x , 65535 : // @lengthOf(
u128 ""\" ++ [233]%N ++ runes_of_ascii """
:o,0123456789 : _x ""{,}"" :
    matchKey
// `tick` ""quote"" 'q'
// `tick` ""quote"" 'q'
[4294967296 ,"""" ,	10
    ]: charz , }	, @lengthOf( roots
) x @calculatedFrom( ""\n"" )
    , i32
    tag , }")).
Eval vm_compute in ("<<<M202>>>" ++ check (runes_of_ascii "packet Z9_
    { @calculatedFrom( ""packet"") char //
BodyLength , match chars as falsey {[65535,
    // c
    """ ++ [128512]%N ++ runes_of_ascii """ ,""" ++ [28040; 24687]%N ++ runes_of_ascii """ , ""`tick`""  , 10,
    ""a\\"" ,""a\""b"" // @lengthOf(
]: repeatCount , ""x y"" :chars , // " ++ [128512]%N ++ runes_of_ascii " emoji
65535
://x
calculatedFrom , } , }
")).
Eval vm_compute in ("<<<M1318>>>" ++ check (runes_of_ascii "packet FooBar // c1
{ u8 a ,
    // c5
} // c6
packet foo_bar // c8a
  // c8b
{
    // c9
u16
    // c10
b , // c12a
  // c12b
} // c13
root // c14
packet R { // c17a
  // c17b
FooBar ,
    // c19
foo_bar // c20
, } ")).
Eval vm_compute in ("<<<M1428>>>" ++ check (runes_of_ascii "packet FooBar {
    u8 a,
    // c5
}// c6

packet foo_bar {
    // c9
    u16 b,// c12a
    // c12b
}// c13

root packet R {
    // c17a
    // c17b
    FooBar,
    // c19
    foo_bar,
}")).
Eval vm_compute in ("<<<M1561>>>" ++ check (runes_of_ascii "

  packet

    A { match  k

    as

n
{ 
[

    1
,  ""bb"" 
,007	,	""d"" , 5 
, ""f""

    ,

    7 
,""h""  , 
9

    ,
""j"", 11
] :	B

    2

:
    C
	}
	, 
}")).
Eval vm_compute in ("<<<M491>>>" ++ check (runes_of_ascii "packet uint8x
{ match pack
    as msg_type	{
    0123456789 :	float
}
,
} packet //	t
a1
    { } options {packetx packetx
    = '\x00'	; u128= ""a	b""  ; }
")).
Eval vm_compute in ("<<<M416>>>" ++ check (runes_of_ascii "packet uint8x
{ match pack
    as as msg_type	{
    0123456789 :	float
}
,
} packet //	t
a1
    { } options {packetx
    = '\x00'	; u128= ""a	b""  ; }
")).
Eval vm_compute in ("<<<M1707>>>" ++ check (runes_of_ascii "packet string_ {
    @lengthOf(float)
    // @lengthOf(
    BodyLength {
        match uint8x as i64_ {
            0123456789 : As,
        },
    },
}")).
Eval vm_compute in ("<<<M467>>>" ++ check (runes_of_ascii "packet uint8x
{ match pack
    as msg_type	{
    0123456789 :	float
}
,
} packet //	t
{
    a1 } options {packetx
    = '\x00'	; u128= ""a	b""  ; }
")).
Eval vm_compute in ("<<<M530>>>" ++ check (runes_of_ascii "packet uint8x
{ match pack
    as msg_type	{
    0123456789 :	float
}
,
} packet //	t
a1
    { } options {packetx
    = '\x00'	; u128= ""a	b""  ; 
")).
Eval vm_compute in ("<<<M405>>>" ++ check (runes_of_ascii "packet uint8x
{  pack
    as msg_type	{
    0123456789 :	float
}
,
} packet //	t
a1
    { } options {packetx
    = '\x00'	; u128= ""a	b""  ; }
")).
Eval vm_compute in ("<<<M490>>>" ++ check (runes_of_ascii "packet uint8x
{ match pack
    as msg_type	{
    0123456789 :	float
}
,
} packet //	t
a1
    { } options {
    = '\x00'	; u128= ""a	b""  ; }
")).
Eval vm_compute in ("<<<M646>>>" ++ check (runes_of_ascii "// @lengthOf(
packet i8i8 { u128 o , }
options { MetaDataX = true;
    BodyLength =""packet"" x_y_z= 
crc //x
= ""abc"" ;
    msg_type =
i16 }")).
Eval vm_compute in ("<<<M1855>>>" ++ check (runes_of_ascii "
MetaData
leftPad

{
chars
MetaDataX
, }packet 
repeatCount	{
char[255 // c
  	]
uint8x `" ++ [233]%N ++ runes_of_ascii "`

,
} 
MetaData pack	{
    As Foo ,
}")).
Eval vm_compute in ("<<<M1935>>>" ++ check (runes_of_ascii "packet A {
    match k as n {
        [
            1, 22, 007, 4, 5,
            66, 7, 8
        ] : B,
        2 : C,
    },
}")).
Eval vm_compute in ("<<<M1767>>>" ++ check (runes_of_ascii "
packet A{
	match
k

    as n
{ 
[	""a"",

""bb""

    , ""c c"" ,""d"" 
,
	""e"", ""f"", ""g""
	,""h""] : B
,
2:
    C
    }

, } ")).
Eval vm_compute in ("<<<M1161>>>" ++ check (runes_of_ascii "MetaData leftPad { chars MetaDataX , } packet repeatCount { // c
char[ 255 ] uint8x `" ++ [233]%N ++ runes_of_ascii "` , } MetaData pack { As Foo , }")).
Eval vm_compute in ("<<<M906>>>" ++ check (runes_of_ascii "packet A {
  match k as n {
    [""a"", ""bb"", ""c c"", ""d"", ""e"", ""f"", ""g"", ""h"", ""i"", ""j"", ""k"", ""l""] : B,
    2 : C
  },
}")).
Eval vm_compute in ("<<<M315>>>" ++ check (runes_of_ascii "packet Foo{ tag roots ,
    // `tick` ""quote"" 'q'
    i64_, @calculatedFrom( ""packet"" ) uint32 MetaDataX
, }
")).
Eval vm_compute in ("<<<M1285>>>" ++ check (runes_of_ascii "// top
root
    // c0
packet // c1a
  // c1b
P
    // c2
{ // c3
string s // c5a
  // c5b
,
    // c6
} ")).
Eval vm_compute in ("<<<M956>>>" ++ check (runes_of_ascii "packet A {
    Inner {
        u8 x `
x`,
        Deep {
            u8 y `
x`,
        },
    },
}")).
Eval vm_compute in ("<<<M199>>>" ++ check (runes_of_ascii "packet falsey { string a1 @lengthOf( packetx ) , }
packet	int { Header	@lengthOf( stringy)
, }")).
Eval vm_compute in ("<<<M892>>>" ++ check (runes_of_ascii "packet A {
  match k as n {
    [1, 22, 007, 4, 5, 66, 7, 8, 9, 10, 11] : B
    2 : C
  },
}")).
Eval vm_compute in ("<<<M636>>>" ++ check (runes_of_ascii "
packet
    asx {match u128 as lengthOf
{
//	t
// `ti/ck` ""quote"" 'q'
255 : x ,
    } ,	}")).
Eval vm_compute in ("<<<M562>>>" ++ check (runes_of_ascii "
packet
    asx match u128 as lengthOf
{
//	t
// `tick` ""quote"" 'q'
255 : x ,
    } ,	}")).
Eval vm_compute in ("<<<M570>>>" ++ check (runes_of_ascii "
packet
    asx {{ u128 as lengthOf
{
//	t
// `tick` ""quote"" 'q'
255 : x ,
    } ,	}")).
Eval vm_compute in ("<<<M852>>>" ++ check (runes_of_ascii "packet A {
  match k as n {
    [1, 22, 007, 4, 5, 66, 7, 8] : B,
    2 : C
  },
}")).
Eval vm_compute in ("<<<M1878>>>" ++ check (runes_of_ascii "

  packet A { match 
k as
n  { [
	""a"" ,	22

, 
""c c""]
    : B, 2
	:C 
}
	,}
")).
Eval vm_compute in ("<<<M821>>>" ++ check (runes_of_ascii "packet A {
  match k as n {
    [1, 22, ""c c"", 4, 5] : B,
    2 : C
  },
}")).
Eval vm_compute in ("<<<M809>>>" ++ check (runes_of_ascii "packet A {
  match k as n {
    [1, 22, ""c c"", 4] : B
    2 : C
  },
}")).
Eval vm_compute in ("<<<M788>>>" ++ check (runes_of_ascii "packet A {
  match k as n {
    [1, 22, 007] : B
    2 : C
  },
}")).
Eval vm_compute in ("<<<M1459>>>" ++ check (runes_of_ascii "MetaData M {
    u8 x `a
        b`,
    T t `a
        b`,
}")).
Eval vm_compute in ("<<<M767>>>" ++ check (runes_of_ascii "@rightPad char[] string u16 @tag( @lengthOf( as packet ,")).
Eval vm_compute in ("<<<M1201>>>" ++ check (runes_of_ascii "packet body // c
{ i32 f32a `{ , }` , } options { }")).
Eval vm_compute in ("<<<M654>>>" ++ check (runes_of_ascii "// @lengthOf(
packet i8i8 { u128 o , }
options {")).
Eval vm_compute in ("<<<M1882>>>" ++ check (runes_of_ascii "
packet  A{u8  x

    `d" ++ [160]%N ++ runes_of_ascii "`
,  // c" ++ [160]%N ++ runes_of_ascii "
}

")).
Eval vm_compute in ("<<<M1075>>>" ++ check (runes_of_ascii "MetaData M {
}// c
MetaData N {
}// d")).
Eval vm_compute in ("<<<M946>>>" ++ check (runes_of_ascii "root packet A {
    u8 x `a

b`,
}")).
Eval vm_compute in ("<<<M1513>>>" ++ check (runes_of_ascii "root packet P {
    string s,
}")).
Eval vm_compute in ("<<<M1782>>>" ++ check (runes_of_ascii "
// c" ++ [12]%N ++ runes_of_ascii "
packet A

    {
} ")).
Eval vm_compute in ("<<<M1730>>>" ++ check (runes_of_ascii "packet

zchar

    { 
}")).
Eval vm_compute in ("<<<M238>>>" ++ check (runes_of_ascii "root packet chars
{}
")).
Eval vm_compute in ("<<<M1132>>>" ++ check (runes_of_ascii "MetaData u // c
{ }")).
Eval vm_compute in ("<<<M1026>>>" ++ check (runes_of_ascii "packet A {
}
// c" ++ [8287]%N)).
Eval vm_compute in ("<<<M1009>>>" ++ check (runes_of_ascii "packet A {
}// c" ++ [8232]%N)).
Eval vm_compute in ("<<<M1072>>>" ++ check (runes_of_ascii "

  packet A {}")).
Eval vm_compute in ("<<<M1040>>>" ++ check (runes_of_ascii "// c 	")).
Eval vm_compute in ("<<<M769>>>" ++ check ([12]%N ++ runes_of_ascii "7" ++ [30]%N)).
