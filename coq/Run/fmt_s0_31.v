From FP Require Import Lexer Parser ShowPT Digest Formatter.
From Coq Require Import String List NArith.
Import ListNotations.
Open Scope string_scope.
Set Printing Width 100000000.
Set Printing Depth 100000000.
Definition show_fres (r : fres) : string :=
  match r with
  | FOk s => "OK:" ++ sh_escaped s ""
  | FErr s => "ERR:" ++ sh_escaped s ""
  | FPanic p => "PANIC:" ++ p
  end.
Definition check (rs : list rune) : string := digest (show_fres (format_res rs)).
Definition full (rs : list rune) : string := show_fres (format_res rs).
Eval vm_compute in ("<<<M7>>>" ++ check (runes_of_ascii "options// @lengthOf(
{
    rootA=	""x y"";
trueish// a // b
=
    0 Header =""1"" }
    root packet packetx{ u32 uint8x ,
u A ,// " ++ [128512]%N ++ runes_of_ascii " emoji
i16 body @lengthOf(A )
,
@lengthOf(
    u8x
    // 50% %s
    )
    u8x @calculatedFrom( /// triple
""abc"" ) ,  @tag(
    42
)match	float as a1	{ [ """" ] : pack ,""""
: leftPad ,7
:f32a , 3
:
    i8i8
, 255
: string_	, } // c
, metadata``	, /// triple
uint8 rootA// packet A { u8 x, }
, }// trailing space 
packet zchar { // c
@calculatedFrom( ""it's"") uint64
//	t
// packet A { u8 x, }
int
, char
int ,i16 float // @lengthOf(
, asx	, // c
char[	7] Packet
    @lengthOf( body)
    `" ++ [28040; 24687; 31867; 22411]%N ++ runes_of_ascii "`
, } packet stringy
// " ++ [128512]%N ++ runes_of_ascii " emoji
//	t
{
//x
//	t
@calculatedFrom(""abc"" ) zchar[
65535 /// triple
] Packet ,// @lengthOf(
@tag(42 // " ++ [27880; 37322]%N ++ runes_of_ascii "
)
    // `tick` ""quote"" 'q'
    @leftPad()
    char[]
falsey ,i8i8
x `" ++ [28040; 24687; 31867; 22411]%N ++ runes_of_ascii "`,@tag(
255 ) u128
    {
    f32 //
uint8x
`u8 x,`, o @calculatedFrom( ""a\""b"")
// 50% %s
//x
, char[] charz `
` , }, @calculatedFrom(
""1"" )
    repeat i8i8 { zchar[0 ] int , } , @tag( 007 )repeat i64
Logon
`
` , repeat
    char[ 0 ] matchKey `crlf
line` ,@calculatedFrom(  ""a\\"") @tag(
    42
)	@leftPad // 50% %s
(
'0'  ) match o as
x_y_z
    // " ++ [27880; 37322]%N ++ runes_of_ascii "
    { [ // `tick` ""quote"" 'q'
""" ++ [128512]%N ++ runes_of_ascii """ , ""x y"" , 0123456789 , ""CRC32""// c
,""it's"",
    //
    007
,
3 ,
007 // " ++ [27880; 37322]%N ++ runes_of_ascii "
]
:Packet [
    255 ,  ""x y""	]: x_y_z ,} ,}
//	t
")).
Eval vm_compute in ("<<<M383>>>" ++ check (runes_of_ascii "options {
	StringPrefixLenType = u16;
	ArrayPrefixLenType = u16;
}

packet SampleBinary {
	uint16 MsgType `" ++ [28040; 24687; 31867; 22411]%N ++ runes_of_ascii "`,
	u16 BodyLenght @lengthOf(Body) `" ++ [28040; 24687; 20307; 38271; 24230]%N ++ runes_of_ascii "`,
	match MsgType as Body {
		1 : Logon,
		2 : Logout,
		3 : Heartbeat,
		4 : RiskControlRequest,
		5 : RiskControlResponse,
	},
	@calculatedFrom(""CRC32"")
	u32 Ckecksum `" ++ [26657; 39564; 21644]%N ++ runes_of_ascii "`,
}

packet Logon {
	@leftPad('0')
	char[10] UserName `" ++ [29992; 25143; 21517]%N ++ runes_of_ascii "`,
	string Password `" ++ [23494; 30721]%N ++ runes_of_ascii "`,
	uint64 ClientId `" ++ [23458; 25143; 31471]%N ++ runes_of_ascii "ID`,
	u16 HeartbeatInterval `" ++ [24515; 36339; 38388; 38548]%N ++ runes_of_ascii "`,
}

packet Logout {
	@rightPad('0')
	char[10] UserName `" ++ [29992; 25143; 21517]%N ++ runes_of_ascii "`,
	uint64 ClientId `" ++ [23458; 25143; 31471]%N ++ runes_of_ascii "ID`,
}

packet Heartbeat {
}

packet RiskControlRequest {
	string UniqueOrderId `" ++ [21807; 19968; 35746; 21333; 21495]%N ++ runes_of_ascii "`,
	char[16] ClOrdID `" ++ [23458; 25143; 35746; 21333; 21495]%N ++ runes_of_ascii "`,
	char[3] MarketID `" ++ [24066; 22330]%N ++ runes_of_ascii "id`,
	char[12] SecurityID `" ++ [35777; 21048; 20195; 30721]%N ++ runes_of_ascii "`,
	char Side `" ++ [20080; 21334; 26041; 21521]%N ++ runes_of_ascii "`,
	char OrderType `" ++ [35746; 21333; 31867; 22411]%N ++ runes_of_ascii "`,
	u64 Price `" ++ [20215; 26684]%N ++ runes_of_ascii "`,
	u32 Qty `" ++ [25968; 37327]%N ++ runes_of_ascii "`,
	repeat string ExtraInfo `" ++ [38468; 21152; 20449; 24687]%N ++ runes_of_ascii "`,
	repeat SubOrder {
		char[16] ClOrdID `" ++ [23376; 35746; 21333; 21495]%N ++ runes_of_ascii "`,
		u64 Price `" ++ [23376; 35746; 21333; 20215; 26684]%N ++ runes_of_ascii "`,
		u32 Qty `" ++ [23376; 35746; 21333; 25968; 37327]%N ++ runes_of_ascii "`,
	},
}

packet RiskControlResponse {
	string UniqueOrderId `" ++ [21807; 19968; 35746; 21333; 21495]%N ++ runes_of_ascii "`,
	i32 Status `" ++ [29366; 24577]%N ++ runes_of_ascii "`,
	string Msg `" ++ [32467; 26524; 20449; 24687]%N ++ runes_of_ascii "`,
	repeat Detail,
}

packet Detail {
	string RuleName `" ++ [35268; 21017; 21517; 31216]%N ++ runes_of_ascii "`,
	u16 Code `" ++ [21407; 22240; 20195; 30721]%N ++ runes_of_ascii "`,
}")).
Eval vm_compute in ("<<<M1351>>>" ++ check (runes_of_ascii "  options

    {
LittleEndian
=
false;
FixedStringPadChar=  ' ' ;	} packet

Fill	{
	InFlags6
    {

repeat
    u64 
count
	,}
, char[8
]  price
,
	repeat
    char[
    2] 
lastPx ,
	char[] count,}packet
Quote
    {  char[]
Qty
    ,

int32 sym ,zchar[
	9
]

    Flags ,
    int8
	tag7 ,
char[7
]

    count,
} 
packet
Cancel  {

string Acct

    ,  @rightPad
('\x00'
	)char[

2
    ]  Note ,

zchar[

5

]
Side2,	} 
packet  Trade

    { repeat 
Quote
    ,
    Fill 
,  repeat
    i64
    Side2
    ,	uint16 
Tail 
,
zchar[7
    ]
    OrderId,}

    root  packet
	Party 
{ repeat
    InLastpx79

    {

    char[

12 ] 
Px, int8 
Tail ,  }
,f32 
count  ,  repeat 
u8
Note,Trade	,f64
    venue 
,@rightPad

    (
'\x00')char[
    11
	]
tag7	,
u16
Px
,
    u32  Side2 @lengthOf(

Body
	)

    , match 
Px as
Body

{[ 48 , 188
    ]
	:Fill	, 190:Trade	,  160
	:Quote

    , 85

    :

    Cancel
,
	}
	, }

")).
Eval vm_compute in ("<<<M1642>>>" ++ check (runes_of_ascii "
root packet// packet A { u8 x, }
		i8i8
    { @rightPad
( 	 // 50% %s
		)
	char[]	i64_  ,string

f32a @calculatedFrom(
    ""a\""b"" )
    // @lengthOf(
	// packet A { u8 x, }
,

@tag(
255
)
@calculatedFrom(
""a	b"" ) @lengthOf(	u128	) match
float

    as
metadata
    {""\" ++ [233]%N ++ runes_of_ascii """

    :  x_y_z	, 10
: 

// `tick` ""quote"" 'q'
// `tick` ""quote"" 'q'
	Packet
	,

    """"
	:
asx ,
	} ,@lengthOf(asx
	) 	 /// triple
match matchKey 
// trailing space 
		// c
as
Foo{ 
""// no comment""

    :	trueish	42 : len,
42:

    options1

    ""x y""  :
	x_y_z
	""CRC32""

    // a // b
  // packet A { u8 x, }
:
	zchar
0123456789 
:pack , }

    , }
MetaData
crc{
string
    repeatCount ,  //	t
      char[]
a1	, 
// 50% %s
      // `tick` ""quote"" 'q'

char 
msg_type	, pack rootA  ,
    u64
Pad ,}")).
Eval vm_compute in ("<<<M1398>>>" ++ check (runes_of_ascii "options { // c1
LittleEndian
    // c2
=
    // c3
true // c4a
  // c4b
; // c5
} // c6a
  // c6b
packet Sub // c8
{ // c9
u8 a // c11
,
    // c12
u16 SubSum // c14
@calculatedFrom( // c15a
  // c15b
""CRC16""
    // c16
) // c17a
  // c17b
,
    // c18
} // c19
root // c20a
  // c20b
packet // c21a
  // c21b
Frame
    // c22
{
    // c23
u16 MsgType // c25a
  // c25b
, u16 // c27
BodyLen @lengthOf( Body ) // c31a
  // c31b
, Sub Body // c34a
  // c34b
, // c35a
  // c35b
string // c36
note
    // c37
, // c38a
  // c38b
u16
    // c39
Checksum
    // c40
@calculatedFrom( // c41a
  // c41b
""CRC16"" // c42a
  // c42b
) // c43
, u8 // c45
tail
    // c46
,
    // c47
} // c48
")).
Eval vm_compute in ("<<<M238>>>" ++ check (runes_of_ascii "packet _x{zchar[ 65535 ]  metadata `crlf
line` , @calculatedFrom( ""CRC32"") Header
    `doc` //x
,
    match f32a as msg_type{
    [
    ""\n"" ] // `tick` ""quote"" 'q'
:	charz
0123456789
:pack , [ ""packet""	, """" , ""`tick`""// " ++ [128512]%N ++ runes_of_ascii " emoji
, // `tick` ""quote"" 'q'
""CRC32"" , ""\n""
    // @lengthOf(
    , ""it's""
, ""it's""
,
// @lengthOf(
//x
4294967296 ] : charz /// triple
42
:// @lengthOf(
leftPad ,
[
    // 50% %s
    255 ,7,  ""packet""
    ,
""{,}"" , ""\" ++ [233]%N ++ runes_of_ascii """
, ""1"" ,
    ""1""] // " ++ [27880; 37322]%N ++ runes_of_ascii "
:	msg_type, [ """ ++ [128512]%N ++ runes_of_ascii """
]: //
i64_ }
,
repeat
u8x
    body , } MetaData
roots {	u8x packetx `two words` , // trailing space 
}")).
Eval vm_compute in ("<<<M1335>>>" ++ check (runes_of_ascii "// top
root // c0
packet // c1
Frame // c2a
  // c2b
{ // c3
u8 K
    // c5
, Logon
    // c7
first // c8a
  // c8b
, // c9a
  // c9b
match K as
    // c12
Body // c13a
  // c13b
{ 1 // c15a
  // c15b
:
    // c16
Logon ,
    // c18
2
    // c19
:
    // c20
Logout // c21
,
    // c22
} // c23
, // c24a
  // c24b
}
    // c25
packet // c26a
  // c26b
Logon // c27a
  // c27b
{ string // c29
user
    // c30
,
    // c31
} // c32
packet
    // c33
Logout
    // c34
{ // c35a
  // c35b
u16
    // c36
reason // c37
,
    // c38
} ")).
Eval vm_compute in ("<<<M239>>>" ++ check (runes_of_ascii "MetaData pack  {float32 Header
    `two words` //
, rootA charz `" ++ [233]%N ++ runes_of_ascii "`
, //
int32 falsey`doc`, }packet matchKey { i64_ { float64 tag
@lengthOf( msg_type) , u8x f32a,
    Pad
{
char[ 10 ]
// trailing space 
// @lengthOf(
f32a `// not a comment`,},
int {repeat
    packetx { char[] T @calculatedFrom( ""it's"" )
, } , } , } , char[ 255
] trueish@lengthOf(calculatedFrom// " ++ [128512]%N ++ runes_of_ascii " emoji
) //	t
, repeat rootA string_ ,
}
packet x_y_z	{  @lengthOf( i64_
    )BodyLength `" ++ [233]%N ++ runes_of_ascii "`
// @lengthOf(
//	t
, }")).
Eval vm_compute in ("<<<M1132>>>" ++ check (runes_of_ascii "// top
packet // c0
float // c1
{ // c2
@rightPad // c3
( // c4
) // c5
rootA // c6
@lengthOf( // c7
trueish // c8
) // c9
, // c10
stringy // c11
@lengthOf( // c12
matchKey // c13
) // c14
, // c15
char[ // c16
4294967296 // c17
] // c18
pack // c19
@lengthOf( // c20
uint8x // c21
) // c22
, // c23
} // c24
root // c25
packet // c26
trueish // c27
{ // c28
repeat // c29
uint64 // c30
u128 // c31
`say ""hi""` // c32
, // c33
} // c34
")).
Eval vm_compute in ("<<<M1340>>>" ++ check (runes_of_ascii "packet Frame {
    u8 HK,
    u8 BK,
    u8 TK,
    match HK as Hdr {
        1 : HdrA,
        2 : HdrB,
    },
    match BK as Body {
        1 : BodyA,
        2 : BodyB,
    },
    match TK as Trl {
        1 : TrlA,
    },
}
packet HdrA {
    u8 a,
}
packet HdrB {
    u16 b,
}
packet BodyA {
    u32 c,
}
packet BodyB {
    u64 d,
}
packet TrlA {
    u8 e,
}
root packet Msg {
    Frame,
    u8 x,
}
")).
Eval vm_compute in ("<<<M195>>>" ++ check (runes_of_ascii "root // 50% %s
packet u128 {
    a1
    @calculatedFrom(""a\""b"" ) , }
root packet pack { BodyLength @calculatedFrom(
    ""{,}""
)
    `// not a comment` ,//x
uint8x , i64 rootA, @lengthOf( BodyLength )	string
zchar
    , // " ++ [128512]%N ++ runes_of_ascii " emoji
} packet _x	{ @tag( 7 ) match // @lengthOf(
trueish
    as packetx { 10
: Header ,7 : trueish ""a\""b"" :
// @lengthOf(
// " ++ [27880; 37322]%N ++ runes_of_ascii "
pack ,}, }")).
Eval vm_compute in ("<<<M1547>>>" ++ check (runes_of_ascii "MetaData o {
    MetaDataX As `crlf
    line`,
    string_ T,
    zchar[1] Header,//	t
}

packet packetx {
    // " ++ [128512]%N ++ runes_of_ascii " emoji
    repeat char[10] crc `a\`,
    @tag(42)
    repeat char[] asx `// not a comment`,
    zchar[007] len @lengthOf(u) `a\`,
    @leftPad( '\x00' )
    @tag(3)
    @calculatedFrom(""a\""b"")
    char[10] As `
    `,
}")).
Eval vm_compute in ("<<<M1832>>>" ++ check (runes_of_ascii "
packet
roots { pack

``	,  //	t
	T@lengthOf(
tag
), x
	{
match len
    as packetx  {[10  ]

:	// c
rootA
,}
	,  repeat
string leftPad `
` , //	t
char[7 
] Packet
@calculatedFrom(""a	b"" )  ,char[]

uint8x
``
    // trailing space 
  // a // b
,
}

    , 
uint16

    leftPad
    ,
}")).
Eval vm_compute in ("<<<M1572>>>" ++ check (runes_of_ascii "

  options {

crc

='\x00'
    ;  uint8x 
=	// " ++ [27880; 37322]%N ++ runes_of_ascii "
  ""x y"" ; 
a1
    =
    """ ++ [28040; 24687]%N ++ runes_of_ascii """ 
o
    = '\x00' 
  // trailing space 
	// trailing space 
charz
    = 
4294967296	//
	}  options { 

// " ++ [128512]%N ++ runes_of_ascii " emoji
    stringy 
        // `tick` ""quote"" 'q'

// 50% %s
    =
    '0'

; 
}")).
Eval vm_compute in ("<<<M523>>>" ++ check (runes_of_ascii "packet
    asx { @calculatedFrom(
""""  ) @tag( 255 )repeat
// packet A { u8 x, }
// trailing space 
int16 u8x
,
@tag(
    //
    007 )
    @tag( 0
    /// triple
    ) @tag( 1) u
    @lengthOf( T ),
// `tick` ""quote"" 'q'
//x
@lengthOf( // " ++ [128512]%N ++ runes_of_ascii " emoji")).
Eval vm_compute in ("<<<M1402>>>" ++ check (runes_of_ascii "packet Sub
    { u8

    a 
,@calculatedFrom( ""CRC16"" 
) 
i64

SubSum ,}

root	packet Frame

{

u16 MsgType
	,u16
BodyLen @lengthOf(	Body	),	Sub 
Body
    , string note

    ,  @calculatedFrom(
    ""CRC16""
)

i64 Checksum  ,u8 tail  ,}
")).
Eval vm_compute in ("<<<M541>>>" ++ check (runes_of_ascii "packet
    asx { @calculatedFrom(
""""  ) @tag( 255 )repeat
// packet A { u8 x, }
// trailing space 
int16 u8x
,
@tag(
    //
    007@ )
    @tag( 0
    /// triple
    ) @tag( 1) u
    @lengthOf( T ),
// `tick` ""quote"" 'q'
//x
} // " ++ [128512]%N ++ runes_of_ascii " emoji")).
Eval vm_compute in ("<<<M508>>>" ++ check (runes_of_ascii "packet
    asx { @calculatedFrom(
""""  ) @tag( 255 )repeat
// packet A { u8 x, }
// trailing space 
int16 u8x
,
@tag(
    //
    007 )
    @tag( 0
    /// triple
    ) @tag( 1) u
    @lengthOf( ) T,
// `tick` ""quote"" 'q'
//x
} // " ++ [128512]%N ++ runes_of_ascii " emoji")).
Eval vm_compute in ("<<<M416>>>" ++ check (runes_of_ascii "packet
    asx { @calculatedFrom(
""""  )  255 )repeat
// packet A { u8 x, }
// trailing space 
int16 u8x
,
@tag(
    //
    007 )
    @tag( 0
    /// triple
    ) @tag( 1) u
    @lengthOf( T ),
// `tick` ""quote"" 'q'
//x
} // " ++ [128512]%N ++ runes_of_ascii " emoji")).
Eval vm_compute in ("<<<M56>>>" ++ check (runes_of_ascii "MetaData repeatCount
    { u8 x
`// not a comment`//x
,// @lengthOf(
char[] /// triple
packetx	,  u8 float ,	float32 As`two words`, Z9_ //	t
crc `" ++ [233]%N ++ runes_of_ascii "` ,
    }MetaData int { matchKey int ,leftPad
metadata `100% of %d`
,}

")).
Eval vm_compute in ("<<<M284>>>" ++ check (runes_of_ascii "packet roots {
f64	u @calculatedFrom( ""a\\"" ) , @tag( 1	) zchar[ 0
    ]	stringy @lengthOf( u ) //	t
,} MetaData
    body
    // trailing space 
    {	BodyLength tag	,
u32 MetaDataX , // @lengthOf(
}")).
Eval vm_compute in ("<<<M337>>>" ++ check (runes_of_ascii "
MetaData x_y_z	{ f32a tag, crc
    chars	`doc`, calculatedFrom Packet `crlf
line` , repeatCount
int ,string
    matchKey , charz trueish `" ++ [28040; 24687; 31867; 22411]%N ++ runes_of_ascii "`  , }packet Pad // trailing space 
{
}")).
Eval vm_compute in ("<<<M714>>>" ++ check (runes_of_ascii "packet
crc
int64 repeat  Foo A  `u8 x,` ,	@lengthOf( uint8x ) string
matchKey @lengthOf( stringy ) `a\`
,
    // c
    }
MetaData chars{
leftPad
    //	t
    crc
`" ++ [233]%N ++ runes_of_ascii "`
,}")).
Eval vm_compute in ("<<<M557>>>" ++ check (runes_of_ascii "MetaData u
    { { } MetaData o
{ float uint8x
`100% of %d` ,repeatCount u8x, string_ leftPad
, i32
    Foo , int64 x `two words` , calculatedFrom
stringy `a\` ,
}
")).
Eval vm_compute in ("<<<M1502>>>" ++ check (runes_of_ascii "

  // top
  root 

// c0
	packet

    P	// c2
	{	// c3
  repeat// c4a
    // c4b
    char
// c5
  cs , 
// c7

	u8 // c8

x// c9

,	// c10
		}	// c11a
// c11b
")).
Eval vm_compute in ("<<<M668>>>" ++ check (runes_of_ascii "MetaData u
    { } MetaData o
{ float uint8x
`100% of %d` ,repeatCount u8x, string_ leftPad
, i32
    Foo , int64 x `two words` , stringy
calculatedFrom `a\` ,
}
")).
Eval vm_compute in ("<<<M689>>>" ++ check (runes_of_ascii "MetaData u
    { } MetaData o
{ float uint8x
`100% of %d` ,repeatCount u8x, string_ leftPad
, i32
    Foo , int64 x `two words` , calculatedFrom
stringy `a\` ,")).
Eval vm_compute in ("<<<M1828>>>" ++ check (runes_of_ascii "options {
    Foo = true
    len = '0';
    metadata = u32;
    repeatCount = 42
}

MetaData lengthOf {
}

options {
    options1 = zchar[0123456789]
}// " ++ [27880; 37322]%N)).
Eval vm_compute in ("<<<M1938>>>" ++ check (runes_of_ascii "
options {

    }
options
{

MetaDataX 
=  char ; }  MetaData
    Pad	{
i8	metadata
	,

    string
    stringy
,int8 	 // c
  	As`{ , }` ,
}")).
Eval vm_compute in ("<<<M470>>>" ++ check (runes_of_ascii "packet
    asx { @calculatedFrom(
""""  ) @tag( 255 )repeat
// packet A { u8 x, }
// trailing space 
int16 u8x
,
@tag(
    //
    007 )")).
Eval vm_compute in ("<<<M1669>>>" ++ check (runes_of_ascii "  packet 
u8x{@leftPad
(//	t
'0'//x
	)	uint8x  lengthOf `line1
line2`  
  // 50% %s
	, 
} packet	msg_type {}
MetaData u 
{
	}
")).
Eval vm_compute in ("<<<M1330>>>" ++ check (runes_of_ascii "  packet FooBar
    {
	u8
a,

}

    packet  foo_bar
{
	u16 b,
}

    root
    packet 
R

{ FooBar
,

foo_bar
	, }
")).
Eval vm_compute in ("<<<M1452>>>" ++ check (runes_of_ascii "packet A {
    u16 len @lengthOf(body) `x
    `,
    u32 crc @calculatedFrom(""CRC32"") `x
    `,
    string body,
}")).
Eval vm_compute in ("<<<M1229>>>" ++ check (runes_of_ascii "options { } options { MetaDataX = char ; } MetaData Pad { i8 // c
metadata , string stringy , int8 As `{ , }` , }")).
Eval vm_compute in ("<<<M941>>>" ++ check (runes_of_ascii "packet A {
    u16 len @lengthOf(body) `a

b`,
    u32 crc @calculatedFrom(""CRC32"") `a

b`,
    string body,
}")).
Eval vm_compute in ("<<<M895>>>" ++ check (runes_of_ascii "packet A {
  match k as n {
    [""a"", 22, ""c c"", 4, ""e"", 66, ""g"", 8, ""i"", 10, ""k""] : B,
    2 : C
  },
}")).
Eval vm_compute in ("<<<M177>>>" ++ check (runes_of_ascii "MetaData
    matchKey
    //x
    {	i64 float `crlf
line` ,//	t
leftPad
asx ,
uint8x leftPad  ,}
")).
Eval vm_compute in ("<<<M1278>>>" ++ check (runes_of_ascii "packet B {
    u8 a,
    string s,
}
root packet P {
    u16 L @lengthOf(B),
    B,
    u8 t,
}
")).
Eval vm_compute in ("<<<M1469>>>" ++ check (runes_of_ascii "packet Foo {
    float64 a1,
    string Z9_ @lengthOf(Logon) `line1
    line2`,
}
// " ++ [128512]%N ++ runes_of_ascii " emoji")).
Eval vm_compute in ("<<<M1105>>>" ++ check (runes_of_ascii "packet A { match k as n // a
 { // b
 1 // c
 : // d
 B // e
 , // f
 } // g
 , // h
 }")).
Eval vm_compute in ("<<<M1433>>>" ++ check (runes_of_ascii "packet A {
    match k as n {
        [1, 22, ""c c"", 4] : B,
        2 : C,
    },
}")).
Eval vm_compute in ("<<<M1484>>>" ++ check (runes_of_ascii "
packet A

    {

match
k	as

n
	{ [ 1
,22  ,
007  ] :	B  ,	2  :	C
} ,
    } ")).
Eval vm_compute in ("<<<M1486>>>" ++ check (runes_of_ascii "packet
chars  {
    char[
	007
	]	float@calculatedFrom(
    ""x y""
	)
	,}
")).
Eval vm_compute in ("<<<M290>>>" ++ check (runes_of_ascii "MetaData u8x
{ uint8
    T`" ++ [233]%N ++ runes_of_ascii "`
    ,	i32 MetaDataX,float32
    crc ,
}

")).
Eval vm_compute in ("<<<M862>>>" ++ check (runes_of_ascii "packet A { Inner { match k as n { [1,22,007,4,5,66,7,8] : B, }, }, }")).
Eval vm_compute in ("<<<M782>>>" ++ check (runes_of_ascii "packet A {
  match k as n {
    [""a"", 22] : B,
    2 : C
  },
}")).
Eval vm_compute in ("<<<M1681>>>" ++ check (runes_of_ascii "MetaData M {
    u8 x `
        x`,
    T t `
        x`,
}")).
Eval vm_compute in ("<<<M1665>>>" ++ check (runes_of_ascii "
MetaData

    //x
    	// @lengthOf(
    	i8i8 
{}

")).
Eval vm_compute in ("<<<M925>>>" ++ check (runes_of_ascii "MetaData M {
    u8 x `a
b`,
    T t `a
b`,
}")).
Eval vm_compute in ("<<<M1917>>>" ++ check (runes_of_ascii "

  MetaData
	M { }	// c
    packet
A 
{} ")).
Eval vm_compute in ("<<<M415>>>" ++ check (runes_of_ascii "packet
    asx { @calculatedFrom(
""""")).
Eval vm_compute in ("<<<M30>>>" ++ check (runes_of_ascii "
root packet Pad
{
char[] i8i8 , }")).
Eval vm_compute in ("<<<M1524>>>" ++ check (runes_of_ascii "packet A {
    u8 x `d" ++ [8192]%N ++ runes_of_ascii "`,// c" ++ [8192]%N ++ runes_of_ascii "
}")).
Eval vm_compute in ("<<<M81>>>" ++ check (runes_of_ascii "options {} // trailing space ")).
Eval vm_compute in ("<<<M749>>>" ++ check (runes_of_ascii "f64 char[ false u8 string")).
Eval vm_compute in ("<<<M1674>>>" ++ check (runes_of_ascii "// c
root packet a1 {
}")).
Eval vm_compute in ("<<<M1873>>>" ++ check (runes_of_ascii "
packet	A {} // c" ++ [8202]%N ++ runes_of_ascii "
")).
Eval vm_compute in ("<<<M1056>>>" ++ check (runes_of_ascii "// c" ++ [12]%N ++ runes_of_ascii "
packet A {
}")).
Eval vm_compute in ("<<<M1073>>>" ++ check (runes_of_ascii "packet A {
}// c" ++ [6158]%N)).
Eval vm_compute in ("<<<M240>>>" ++ check (runes_of_ascii "/// triple

")).
Eval vm_compute in ("<<<M1054>>>" ++ check (runes_of_ascii "// c" ++ [12]%N)).
