From FP Require Import Lexer Parser ShowPT Digest Formatter.
From Coq Require Import String List NArith.
Import ListNotations.
Open Scope string_scope.
Set Printing Width 100000000.
Set Printing Depth 100000000.
Definition show_fres (r : fres) : string :=
  match r with
  | FOk s => "OK:" ++ sh_escaped s ""
  | FErr s => "ERR:" ++ sh_escaped s ""
  | FPanic p => "PANIC:" ++ p
  end.
Definition check (rs : list rune) : string := digest (show_fres (format_res rs)).
Definition full (rs : list rune) : string := show_fres (format_res rs).
Eval vm_compute in ("<<<M1605>>>" ++ check (runes_of_ascii "MetaData Pad 
{

char[]  Packet
    ,
    f32a i64_	`tab	here` 
  // c
	  // a // b

,}
	root
	packet As{ @calculatedFrom(""CRC32"" )	@calculatedFrom(""1"")
    @calculatedFrom(
""// no comment""
// a // b
      //
      )  As
As
`say ""hi""`
,  Foo
	msg_type,	calculatedFrom 
@calculatedFrom(
""\n""  ) , zchar { zchar[

    7 ]
charz // `tick` ""quote"" 'q'
      @calculatedFrom( ""x y""

)	, Z9_ 
`{ , }` ,

repeat int{
	zchar[
3]
    i8i8 @lengthOf(  chars),  match

zchar
    as 
o
{1
	://
    	u128,	0	:
// trailing space 
//x
    	stringy,  42  : charz
""x y""  :a1
3

    : 
Header ,

    4294967296 :o

    } 
,

    repeat
    Header
`two words` 
,match
u8x
as u8x
{[	10
    ]:

pack
	, 1  : 
BodyLength
//
    // " ++ [27880; 37322]%N ++ runes_of_ascii "
    0
: MetaDataX

, 42: 
calculatedFrom
} ,
} 	 /// triple
    	,
}	,	// " ++ [27880; 37322]%N ++ runes_of_ascii "
} 

    // `tick` ""quote"" 'q'

	/// triple
  packet i64_
{}
    root	packet x
{ Header {

    char[/// triple
	0

    ]
_x	`// not a comment`	,
    } ,  @lengthOf(
A )	uint32

f32a@calculatedFrom(  ""abc"" )  
      // `tick` ""quote"" 'q'
  // " ++ [27880; 37322]%N ++ runes_of_ascii "
    	,
    repeat

i16 
trueish

`u8 x,`
	,  @rightPad
	(
' ' 
) @calculatedFrom(
	""a\\""
) float
,repeat	char[7	]	zchar	, @tag(  10 )
	repeat  
  //	t
  	a1

    falsey
	`say ""hi""` , @lengthOf( len
) repeat
	zchar[ 
00
    // `tick` ""quote"" 'q'
  ]
uint8x,
}MetaData
metadata	{ u8 
body
,	}
")).
Eval vm_compute in ("<<<M1791>>>" ++ check (runes_of_ascii "root
	packet// @lengthOf(
    repeatCount	{
	@lengthOf( u8x)@calculatedFrom(
    ""1"")
    @tag(
007) 
repeat

    zchar[ 
42
    ] Header

    `" ++ [28040; 24687; 31867; 22411]%N ++ runes_of_ascii "`
,
match
    options1 as
asx {255
	    // `tick` ""quote"" 'q'
:

roots	, } 
,  // a // b
    Header @lengthOf(  
      // a // b
  	options1	)

    ``

,	Header 	 //	t
  @lengthOf( 
len
)`{ , }` ,o  matchKey`u8 x,`
	, } packet packetx
{zchar[
    255  ]

crc 
,	}
	packet	Logon 
{
	body 
{
	float{
repeat Logon trueish ,

    },
    } 
, 
@calculatedFrom( 
    // `tick` ""quote"" 'q'
    ""`tick`"")repeat

char[0 ] f32a
,	match  body
    as 
float
{
	[
65535

,
""" ++ [28040; 24687]%N ++ runes_of_ascii """ ]	:
calculatedFrom
,
    }
	,  u32
	float
    @calculatedFrom( """ ++ [233]%N ++ runes_of_ascii "t" ++ [233]%N ++ runes_of_ascii """ 	 // @lengthOf(

	)	,
string
body

    @lengthOf( 
len

    )

    `
` 	 //
	,u8x
@calculatedFrom(
""a\""b"" ) 

    //	t
  ,	//	t
  	float64
    options1
    @calculatedFrom(
	""" ++ [128512]%N ++ runes_of_ascii """
	)	`it's`
	, 
//x
  // trailing space 
    match	crc as
    chars
{
    3 :
	options1// @lengthOf(
    ,  [
    10 ] :
    _x	[ ""{,}""
	]
:options1, [

""CRC32""
,""a\\"" ,  ""a\\""
,""packet"" , 
7 
    // `tick` ""quote"" 'q'
  	] :
As

} , i16	msg_type
    , }
")).
Eval vm_compute in ("<<<M1817>>>" ++ check (runes_of_ascii "
packet calculatedFrom {	// a // b
		string	charz `two words`
//	t
	//x

	, }
packet

    stringy
{ @lengthOf(	msg_type
) crc 
    // " ++ [128512]%N ++ runes_of_ascii " emoji
  ,	@leftPad

(
'0'  )
crc

    @lengthOf(
	u128 //	t
      ) , 
@leftPad

(' ')	match
x_y_z as rootA{[	// @lengthOf(
	3
	,
	255 ]
	:
    int""1""  :
	o 
,  // a // b
		10 :
tag ,	// c
    10	// " ++ [128512]%N ++ runes_of_ascii " emoji
  : Header ,
    3: 
a1

, """ ++ [128512]%N ++ runes_of_ascii """

: 
packetx	, 
} 
      // packet A { u8 x, }
  	// packet A { u8 x, }
	, match 
// " ++ [27880; 37322]%N ++ runes_of_ascii "
  // a // b
  	o	as	x	//x

{""a	b""
    :u8x
    ,
	} ,
@rightPad (
)repeat
u	packetx,
    T  // " ++ [27880; 37322]%N ++ runes_of_ascii "
	, repeat 
Logon , T
    { repeat

    x_y_z
	,  // a // b

i8
crc`two words` ,

    char[]

calculatedFrom@calculatedFrom( ""x y""  )
,
}, roots  calculatedFrom
	,@lengthOf(  asx
    )  repeat
    x_y_z  {
T matchKey 
,  }  , }	options 
{float= 
char[1	]
;
msg_type	// c

= i8

    x

= 
//
	// `tick` ""quote"" 'q'
  zchar[ 7

    ]
; f32a

=  ""\n""	}
")).
Eval vm_compute in ("<<<M379>>>" ++ check (runes_of_ascii "root
    packet i64_ { trueish ,
@calculatedFrom(""abc"") @tag( 7 )
    // c
    int16
    asx
, @calculatedFrom( ""a\\"" ) float32 crc
@lengthOf(
Foo ) ,	@tag( // `tick` ""quote"" 'q'
42 // c
) zchar[
// c
// packet A { u8 x, }
7 ] asx @lengthOf( calculatedFrom) `// not a comment` , //
repeat zchar[ 1]// a // b
As ,	chars `two words` , @calculatedFrom( ""1"" )
@tag(
    // `tick` ""quote"" 'q'
    0123456789 ) @leftPad ('0')
    repeat
    char[] BodyLength `tab	here`, } MetaData u128 // packet A { u8 x, }
{
u16 i64_
,
    float32 asx//
`two words` ,//
i64
leftPad, zchar[ 00 // `tick` ""quote"" 'q'
] _x
    , //
} MetaData chars
    //
    {Foo crc
`say ""hi""` , uint8 u`two words` , // " ++ [128512]%N ++ runes_of_ascii " emoji
f32
pack
`crlf
line`, string _x `" ++ [233]%N ++ runes_of_ascii "`  , } packet x_y_z{ } options { calculatedFrom = ""CRC32"" crc
    = uint16 ; u =
false
    Foo
=
    char  } // " ++ [128512]%N ++ runes_of_ascii " emoji")).
Eval vm_compute in ("<<<M1733>>>" ++ check (runes_of_ascii "root packet leftPad {
    @calculatedFrom(""" ++ [128512]%N ++ runes_of_ascii """)
    int64 len `{ , }`,
}

packet u128 {
    zchar[65535] chars @calculatedFrom(""\" ++ [233]%N ++ runes_of_ascii """),
    @lengthOf(int)
    i64_,
    crc {
        match Z9_ as Logon {
            10 : int,
            [0] : u8x,
            // trailing space 
            //x
            42 : trueish,
            [""\" ++ [233]%N ++ runes_of_ascii """, 4294967296] : Z9_,
            ""\n"" : u128,
        },
        repeat string_ uint8x,
        i8i8,
        match u as body {
            4294967296 : Z9_,
            10 : Z9_,
            [""" ++ [128512]%N ++ runes_of_ascii """, ""x y""] : pack,
        },
    },
    @tag(0123456789)
    @lengthOf(calculatedFrom)
    @leftPad('\x00')
    zchar[3] T,
    match A as leftPad {
        [""" ++ [28040; 24687]%N ++ runes_of_ascii """] : i64_,
        ""// no comment"" : string_,
    },
}// trailing space ")).
Eval vm_compute in ("<<<M1617>>>" ++ check (runes_of_ascii "  // top
packet  // c0a
  	// c0b

  Sub// c1
    	{ 
	// c2
u8	// c3a
    // c3b
  	a
    // c4
		, // c5
    @calculatedFrom( ""CRC16""
)

// c8
    i32  // c9

	SubSum  
      // c10
  ,
}  // c12
	  root
packet // c14a
	// c14b
	Frame 	 // c15
      { 
    // c16
  u16 

    // c17
	MsgType// c18a
    // c18b
		,	// c19
u16 	 // c20a
  // c20b
  BodyLen // c21a
	// c21b
  @lengthOf( Body
	)
    ,	// c25a
      // c25b
    Sub

// c26

Body // c27
  , 

    // c28

	string 	 // c29a
  	// c29b
  	note	// c30a
	// c30b

,
	    // c31
		@calculatedFrom(// c32
  ""CRC16"" )i32

Checksum 	 // c36a
    // c36b
    , // c37a
  	// c37b
	u8// c38
  tail
,
}  
  // c41
")).
Eval vm_compute in ("<<<M1635>>>" ++ check (runes_of_ascii "root packet u8x {
    char i64_,
    repeat char[1] Z9_,
    @tag(42)
    repeat Logon MetaDataX,
    @leftPad()
    Foo @lengthOf(As),
    match u128 as calculatedFrom {
        // " ++ [128512]%N ++ runes_of_ascii " emoji
        4294967296 : BodyLength,
        3 : A,
        //
        [4294967296, ""packet""] : o,
        65535 : roots,
    },
    repeat Pad {
        uint64 x @calculatedFrom(""" ++ [128512]%N ++ runes_of_ascii """),
        a1 @lengthOf(As) `line1
                line2`,
        repeat string_ {
            repeat uint32 _x,
            f32 MetaDataX `it's`,
            u64 As @lengthOf(crc),
        },
        roots,
    },
    zchar[00] u128,
}
//	t")).
Eval vm_compute in ("<<<M1915>>>" ++ check (runes_of_ascii "
root
	    // " ++ [27880; 37322]%N ++ runes_of_ascii "
  // @lengthOf(
    packet Packet{ string  o@calculatedFrom(
""\" ++ [233]%N ++ runes_of_ascii """
	) , @lengthOf(

    Packet
        // packet A { u8 x, }
)

    body
@calculatedFrom( 	 // @lengthOf(
	  ""x y""
)

    `it's`
, float64
	As
@calculatedFrom(  ""`tick`""
	)	,
    char[]

    stringy @calculatedFrom( """ ++ [28040; 24687]%N ++ runes_of_ascii """  ) `doc`	,

    @calculatedFrom( ""a	b""
    )  match
float as
o 
{ [""" ++ [128512]%N ++ runes_of_ascii """
,
	007
	]

    :
metadata

,}
,

f32a
    a1  `a\`

    , 
}MetaData
    repeatCount
	{packetx
	i64_`" ++ [28040; 24687; 31867; 22411]%N ++ runes_of_ascii "` ,  // " ++ [128512]%N ++ runes_of_ascii " emoji
    zchar[

3]
tag

    ,
i8i8

int , 
}
")).
Eval vm_compute in ("<<<M1433>>>" ++ check (runes_of_ascii "options {
    ArrayPrefixLenType = u64;
    FixedStringPadFromLeft = true;
    FixedStringPadChar = '0';
}

packet Quote {
}

packet Ack {
    repeat InNote66 {
        u8 pad0,
    },
}

packet Reject {
}

root packet Order {
    Quote,
    repeat Reject,
    string venue,
    string seqNo,
    uint32 Ref,
    u16 lastPx,
    u32 clOrdID @lengthOf(Body),
    match lastPx as Body {
        190 : Reject,
        186 : Quote,
        22 : Ack,
    },
    u16 Flags @calculatedFrom(""CRC32""),
}")).
Eval vm_compute in ("<<<M1430>>>" ++ check (runes_of_ascii "options {
    LittleEndian = true;
    StringPrefixLenType = u64;
    ArrayPrefixLenType = u16;
    FixedStringPadFromLeft = false;
    FixedStringPadChar = ' ';
}

packet Logon {
    zchar[5] Side2,
}

root packet Logout {
    repeat i64 Tail,
    Logon,
    repeat i16 OrderId,
    char[] venue,
    uint64 x,
    repeat i16 count,
    u8 Flags,
    match Flags as Body {
        25 : Logon,
    },
    u16 Qty @calculatedFrom(""CR\
        C32""),
}")).
Eval vm_compute in ("<<<M126>>>" ++ check (runes_of_ascii "
packet T// c
{ @tag(  00 )repeat char[]	charz
`
` , char[0123456789 ]BodyLength
    @lengthOf( //x
Z9_
    )
    `u8 x,`
,
}	MetaData
crc {
float64
int `" ++ [28040; 24687; 31867; 22411]%N ++ runes_of_ascii "`// a // b
,	As Logon `` , // `tick` ""quote"" 'q'
uint8 // " ++ [27880; 37322]%N ++ runes_of_ascii "
u
, u32  stringy `
`,
// a // b
//	t
uint64 uint8x , asx
calculatedFrom	,//x
} MetaData chars { char[ 1
    // `tick` ""quote"" 'q'
    ] //	t
chars ,
    } // trailing space ")).
Eval vm_compute in ("<<<M75>>>" ++ check (runes_of_ascii "packet zchar { @calculatedFrom( ""`tick`""
) uint32
    falsey,} MetaData packetx {
string
//
// @lengthOf(
msg_type `u8 x,`, }packet i8i8 {zchar@lengthOf(
uint8x
    ) ,
    }packet As{ zchar[ 4294967296
    // " ++ [27880; 37322]%N ++ runes_of_ascii "
    ] T	@calculatedFrom( ""abc"" ) , @tag(007 )
    repeat
    i16
// " ++ [27880; 37322]%N ++ runes_of_ascii "
// packet A { u8 x, }
u8x `say ""hi""`, @lengthOf( u )
repeat uint16 u128 , }")).
Eval vm_compute in ("<<<M1766>>>" ++ check (runes_of_ascii "options {
    u = 7
    // " ++ [27880; 37322]%N ++ runes_of_ascii "
    roots = zchar[65535]
    msg_type = """ ++ [233]%N ++ runes_of_ascii "t" ++ [233]%N ++ runes_of_ascii """;
    x = false
}

MetaData string_ {
    char[42] i8i8 `" ++ [28040; 24687; 31867; 22411]%N ++ runes_of_ascii "`,
    u8 x_y_z,
    packetx lengthOf ``,
    T Header `line1
        line2`,
    char[] u8x `two words`,
}

packet float {
    calculatedFrom,
    @rightPad('0')
    char[3] u128,
}")).
Eval vm_compute in ("<<<M1138>>>" ++ check (runes_of_ascii "// top
MetaData // c0
leftPad // c1
{ // c2
chars // c3
MetaDataX // c4
, // c5
} // c6
packet // c7
repeatCount // c8
{ // c9
char[ // c10
255 // c11
] // c12
uint8x // c13
`" ++ [233]%N ++ runes_of_ascii "` // c14
, // c15
} // c16
MetaData // c17
pack // c18
{ // c19
As // c20
Foo // c21
, // c22
} // c23
")).
Eval vm_compute in ("<<<M254>>>" ++ check (runes_of_ascii "packet  zchar
{ zchar[ 42
//
//
]uint8x ,
    match
    A as
As{
    0: int
    ,
}
, @tag(7 ) @calculatedFrom(
""packet"" ) match
i64_
as metadata //	t
{
    ""CRC32"" :
A , }
,
    // c
    }	root
packet
uint8x {
    char[ 00 ]	crc
,// " ++ [128512]%N ++ runes_of_ascii " emoji
} 	 ")).
Eval vm_compute in ("<<<M82>>>" ++ check (runes_of_ascii "packet metadata
{int32 calculatedFrom , } options {} options { u128 = '\x00'	;
    string_ =	""abc""
    ; }root
packet i8i8
    {  @rightPad
( '\x00' ) repeat	metadata { string_,
    tag@lengthOf( falsey ) ,
} ,//x
}")).
Eval vm_compute in ("<<<M311>>>" ++ check (runes_of_ascii "MetaData
falsey { Header falsey
`
` , string Foo `" ++ [28040; 24687; 31867; 22411]%N ++ runes_of_ascii "`
    // `tick` ""quote"" 'q'
    ,falsey repeatCount , i8
u , }
packet A	{ match _x as T { 007: lengthOf// `tick` ""quote"" 'q'
}, } 	 ")).
Eval vm_compute in ("<<<M1809>>>" ++ check (runes_of_ascii "packet A {
    match k as n {
        [
            ""a"", 22, ""c c"", 4, ""e"",
            66, ""g"", 8, ""i"", 10,
            ""k"", 12
        ] : B,
        2 : C,
    },
}")).
Eval vm_compute in ("<<<M461>>>" ++ check (runes_of_ascii "packet uint8x
{ match pack
    as msg_type	{
    0123456789 :	float
}
,
} packet packet //	t
a1
    { } options {packetx
    = '\x00'	; u128= ""a	b""  ; }
")).
Eval vm_compute in ("<<<M651>>>" ++ check (runes_of_ascii "// @lengthOf(
packet i8i8 { u128 o , }
options { MetaDataX MetaDataX = true;
    BodyLength =""packet"" x_y_z= 007
crc //x
= ""abc"" ;
    msg_type =
i16 }")).
Eval vm_compute in ("<<<M538>>>" ++ check (runes_of_ascii "packet uint8x
{ match pack
    as msg_type	{
    0123456789 :	float
}
,
} packet //	t
a1
    { } options {packetx
    = '\x00'	%; u128= ""a	b""  ; }
")).
Eval vm_compute in ("<<<M487>>>" ++ check (runes_of_ascii "packet uint8x
{ match pack
    as msg_type	{
    0123456789 :	float
}
,
} packet //	t
a1
    { } options packetx{
    = '\x00'	; u128= ""a	b""  ; }
")).
Eval vm_compute in ("<<<M702>>>" ++ check (runes_of_ascii "// @lengthOf(
packet i8i8 { u128 o , }
options { MetaDataX = true;
    BodyLength =""packet"" x_y_z= 007
crc //x
= ""abc"" ""abc"" ;
    msg_type =
i16 }")).
Eval vm_compute in ("<<<M661>>>" ++ check (runes_of_ascii "// @lengthOf(
packet i8i8 { u128 o o , }
options { MetaDataX = true;
    BodyLength =""packet"" x_y_z= 007
crc //x
= ""abc"" ;
    msg_type =
i16 }")).
Eval vm_compute in ("<<<M648>>>" ++ check (runes_of_ascii "// @lengthOf(
packet i8i8 { u128 o , }
options { = MetaDataX true;
    BodyLength =""packet"" x_y_z= 007
crc //x
= ""abc"" ;
    msg_type =
i16 }")).
Eval vm_compute in ("<<<M1260>>>" ++ check (runes_of_ascii "

  packet

B
    {

u8
	a

,
    }root
packet
P{ u8 K  , u8

L @lengthOf(
	Body )
,  match

K
    as Body
{

    1  :  B
	,  },
    } ")).
Eval vm_compute in ("<<<M1665>>>" ++ check (runes_of_ascii "root packet MetaDataX {
    repeat u8x len `" ++ [28040; 24687; 31867; 22411]%N ++ runes_of_ascii "`,
    As {
        u8x,
    },
    int f32a `" ++ [233]%N ++ runes_of_ascii "`,
    @lengthOf(float)
    Z9_ `a\`,
}")).
Eval vm_compute in ("<<<M1784>>>" ++ check (runes_of_ascii "packet A {
    Inner {
        u8 x `tab
        	x`,
        Deep {
            u8 y `tab
            	x`,
        },
    },
}")).
Eval vm_compute in ("<<<M171>>>" ++ check (runes_of_ascii "options { Pad=	'\x00' ; u
= false  repeatCount
    = false ;// trailing space 
T
=// a // b
""CRC32"" ;
    a1 = ""it's""}
")).
Eval vm_compute in ("<<<M1166>>>" ++ check (runes_of_ascii "MetaData leftPad { chars MetaDataX , } packet repeatCount { char[ 255
// c
] uint8x `" ++ [233]%N ++ runes_of_ascii "` , } MetaData pack { As Foo , }")).
Eval vm_compute in ("<<<M1437>>>" ++ check (runes_of_ascii "packet A {
    Inner {
        u8 x `
        `,
        Deep {
            u8 y `
            `,
        },
    },
}")).
Eval vm_compute in ("<<<M1592>>>" ++ check (runes_of_ascii "
packet
A
	{
	match  k
    as
	n{  [
    1
    ,
22 
,

    007,
    4	, 5
    ] :B ,
    2
:C
}  ,
	}
")).
Eval vm_compute in ("<<<M352>>>" ++ check (runes_of_ascii "packet _x {
} // trailing space 
options
    { repeatCount
    =42 //x
;Pad = true;
x_y_z =
65535 ;}
")).
Eval vm_compute in ("<<<M620>>>" ++ check (runes_of_ascii "
packet
    asx {match u128 as lengthOf
{
//	t
// `tick` ""quote"" 'q'
255 : x ,
    } @lengthOf(	}")).
Eval vm_compute in ("<<<M1474>>>" ++ check (runes_of_ascii "

  packet	metadata

{u32 	 // `tick` ""quote"" 'q'

  Packet	`say ""hi""`, 

// trailing space 
} ")).
Eval vm_compute in ("<<<M560>>>" ++ check (runes_of_ascii "
packet
    false {match u128 as lengthOf
{
//	t
// `tick` ""quote"" 'q'
255 : x ,
    } ,	}")).
Eval vm_compute in ("<<<M69>>>" ++ check (runes_of_ascii "//
packet metadata
{ }	MetaData chars
//x
//	t
{
    char[ 42	] leftPad `crlf
line`  ,
}")).
Eval vm_compute in ("<<<M879>>>" ++ check (runes_of_ascii "packet A {
  match k as n {
    [1, 22, 007, 4, 5, 66, 7, 8, 9, 10] : B
    2 : C
  },
}")).
Eval vm_compute in ("<<<M556>>>" ++ check (runes_of_ascii "
,
    asx {match u128 as lengthOf
{
//	t
// `tick` ""quote"" 'q'
255 : x ,
    } ,	}")).
Eval vm_compute in ("<<<M1292>>>" ++ check (runes_of_ascii "

  root
    packet

P

    {
	u8
	s_u8,  repeat  u8 r_u8  , u16
    b_len, }

")).
Eval vm_compute in ("<<<M803>>>" ++ check (runes_of_ascii "packet A {
  match k as n {
    [""a"", ""bb"", ""c c"", ""d""] : B
    2 : C
  },
}")).
Eval vm_compute in ("<<<M807>>>" ++ check (runes_of_ascii "packet A {
  match k as n {
    [""a"", 22, ""c c"", 4] : B
    2 : C
  },
}")).
Eval vm_compute in ("<<<M449>>>" ++ check (runes_of_ascii "packet uint8x
{ match pack
    as msg_type	{
    0123456789 :	float")).
Eval vm_compute in ("<<<M246>>>" ++ check (runes_of_ascii "MetaData x {x Packet
,i32 lengthOf
, // `tick` ""quote"" 'q'
}
")).
Eval vm_compute in ("<<<M1255>>>" ++ check (runes_of_ascii "root packet P {
    hdr {
        u8 a,
    },
    u8 x,
}
")).
Eval vm_compute in ("<<<M1952>>>" ++ check (runes_of_ascii "root

packet P
    {repeat
char
	cs
    ,
u8
x 
,  }

")).
Eval vm_compute in ("<<<M1211>>>" ++ check (runes_of_ascii "packet body { i32 f32a `{ , }` , // c
} options { }")).
Eval vm_compute in ("<<<M1563>>>" ++ check (runes_of_ascii "
root
	packet
A
{ u8 x `a
    b
  c` ,
    }
")).
Eval vm_compute in ("<<<M1095>>>" ++ check (runes_of_ascii "packet A { char[ // a
 3 // b
 ] // c
 x, }")).
Eval vm_compute in ("<<<M1742>>>" ++ check (runes_of_ascii "root packet A {
    u8 x `a
    b`,
}")).
Eval vm_compute in ("<<<M1489>>>" ++ check (runes_of_ascii "// `tick` ""quote"" 'q'
options {
}")).
Eval vm_compute in ("<<<M983>>>" ++ check (runes_of_ascii "packet A {
 u8 x `d" ++ [12288]%N ++ runes_of_ascii "`, // c" ++ [12288]%N ++ runes_of_ascii "
}")).
Eval vm_compute in ("<<<M917>>>" ++ check (runes_of_ascii "packet A {
    u8 x `a
b`,
}")).
Eval vm_compute in ("<<<M1388>>>" ++ check (runes_of_ascii "
// c
    packet x{ 
}")).
Eval vm_compute in ("<<<M1631>>>" ++ check (runes_of_ascii "packet Packet

{
}

")).
Eval vm_compute in ("<<<M278>>>" ++ check (runes_of_ascii "packet Packet { }
")).
Eval vm_compute in ("<<<M1052>>>" ++ check (runes_of_ascii "// c" ++ [65279]%N ++ runes_of_ascii "
packet A {
}")).
Eval vm_compute in ("<<<M1224>>>" ++ check (runes_of_ascii "// c
packet x { }")).
Eval vm_compute in ("<<<M1932>>>" ++ check (runes_of_ascii "MetaData A {
}")).
Eval vm_compute in ("<<<M975>>>" ++ check (runes_of_ascii "// c ")).
Eval vm_compute in ("<<<M737>>>" ++ check ([1875; 65533]%N)).
