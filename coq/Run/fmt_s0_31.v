From FP Require Import Lexer Parser ShowPT Digest Formatter.
From Coq Require Import String List NArith.
Import ListNotations.
Open Scope string_scope.
Set Printing Width 100000000.
Set Printing Depth 100000000.
Definition show_fres (r : fres) : string :=
  match r with
  | FOk s => "OK:" ++ sh_escaped s ""
  | FErr s => "ERR:" ++ sh_escaped s ""
  | FPanic p => "PANIC:" ++ p
  end.
Definition check (rs : list rune) : string := digest (show_fres (format_res rs)).
Definition full (rs : list rune) : string := show_fres (format_res rs).
Eval vm_compute in ("<<<M1365>>>" ++ check (runes_of_ascii "// top
options // c0a
  // c0b
{ // c1
StringPrefixLenType // c2a
  // c2b
= // c3
u8
    // c4
; // c5a
  // c5b
ArrayPrefixLenType // c6
= // c7a
  // c7b
u8 // c8
; // c9
FixedStringPadFromLeft
    // c10
= // c11
false ; // c13
FixedStringPadChar
    // c14
= ' ' ; // c17a
  // c17b
}
    // c18
packet // c19
Ack
    // c20
{
    // c21
char[]
    // c22
tag7
    // c23
, }
    // c25
packet Reject // c27a
  // c27b
{ InSym61 // c29a
  // c29b
{ // c30
repeat // c31
Ack , zchar[ // c34
4 ] // c36a
  // c36b
f1 // c37a
  // c37b
, } // c39a
  // c39b
, } // c41
packet // c42a
  // c42b
Logout {
    // c44
char[ // c45a
  // c45b
4 // c46a
  // c46b
] // c47a
  // c47b
clOrdID
    // c48
, // c49
}
    // c50
root // c51
packet // c52a
  // c52b
Cancel // c53a
  // c53b
{ @leftPad
    // c55
( // c56a
  // c56b
' ' // c57a
  // c57b
) char[ 10 // c60a
  // c60b
] price
    // c62
,
    // c63
u8 // c64
x
    // c65
, u32 // c67a
  // c67b
venue // c68a
  // c68b
@lengthOf( // c69
Body
    // c70
) , // c72
match // c73a
  // c73b
x // c74a
  // c74b
as
    // c75
Body
    // c76
{
    // c77
[ // c78a
  // c78b
92 // c79
, 175 // c81
] : Logout , 26 :
    // c87
Reject // c88
, // c89a
  // c89b
144
    // c90
: // c91
Ack // c92a
  // c92b
, } // c94
, // c95
u16
    // c96
count // c97
@calculatedFrom(
    // c98
""CRC32""
    // c99
) // c100
, } ")).
Eval vm_compute in ("<<<M1462>>>" ++ check (runes_of_ascii "root
	packet// @lengthOf(
    repeatCount	{
	@lengthOf( u8x)@calculatedFrom(
    ""1"")
    @tag(
007) 
repeat

    zchar[ 
42
    ] Header

    `" ++ [28040; 24687; 31867; 22411]%N ++ runes_of_ascii "`
,
match
    options1 as
asx {255
	    // `tick` ""quote"" 'q'
:

roots	, } 
,  // a // b
    Header @lengthOf(  
      // a // b
  	options1	)

    ``

,	Header 	 //	t
  @lengthOf( 
len
)`{ , }` ,o  matchKey`u8 x,`
	, } packet packetx
{zchar[
    255  ]

crc 
,	}
	packet	Logon 
{
	body 
{
	float{
repeat Logon trueish ,

    },
    } 
, 
@calculatedFrom( 
    // `tick` ""quote"" 'q'
    ""`tick`"")repeat

char[0 ] f32a
,	match  body
    as 
float
{
	[
65535

,
""" ++ [28040; 24687]%N ++ runes_of_ascii """ ]	:
calculatedFrom
,
    }
	,  u32
	float
    @calculatedFrom( """ ++ [233]%N ++ runes_of_ascii "t" ++ [233]%N ++ runes_of_ascii """ 	 // @lengthOf(

	)	,
string
body

    @lengthOf( 
len

    )

    `
` 	 //
	,u8x
@calculatedFrom(
""a\""b"" ) 

    //	t
  ,	//	t
  	float64
    options1
    @calculatedFrom(
	""" ++ [128512]%N ++ runes_of_ascii """
	)	`it's`
	, 
//x
  // trailing space 
    match	crc as
    chars
{
    3 :
	options1// @lengthOf(
    ,  [
    10 ] :
    _x	[ ""{,}""
	]
:options1, [

""CRC32""
,""a\\"" ,  ""a\\""
,""packet"" , 
7 
    // `tick` ""quote"" 'q'
  	] :
As

} , i16	msg_type
    , }
")).
Eval vm_compute in ("<<<M1816>>>" ++ check (runes_of_ascii "
packet calculatedFrom {	// a // b
		string	charz `two words`
//	t
	//x

	, }
packet

    stringy
{ @lengthOf(	msg_type
) crc 
    // " ++ [128512]%N ++ runes_of_ascii " emoji
  ,	@leftPad

(
'0'  )
crc

    @lengthOf(
	u128 //	t
      ) , 
@leftPad

(' ')	match
x_y_z as rootA{[	// @lengthOf(
	3
	,
	255 ]
	:
    int""1""  :
	o 
,  // a // b
		10 :
tag ,	// c
    10	// " ++ [128512]%N ++ runes_of_ascii " emoji
  : Header ,
    3: 
a1

, """ ++ [128512]%N ++ runes_of_ascii """

: 
packetx	, 
} 
      // packet A { u8 x, }
  	// packet A { u8 x, }
	, match 
// " ++ [27880; 37322]%N ++ runes_of_ascii "
  // a // b
  	o	as	x	//x

{""a	b""
    :u8x
    ,
	} ,
@rightPad (
)repeat
u	packetx,
    T  // " ++ [27880; 37322]%N ++ runes_of_ascii "
	, repeat 
Logon , T
    { repeat

    x_y_z
	,  // a // b

i8
crc`two words` ,

    char[]

calculatedFrom@calculatedFrom( ""x y""  )
,
}, roots  calculatedFrom
	,@lengthOf(  asx
    )  repeat
    x_y_z  {
T matchKey 
,  }  , }	options 
{float= 
char[1	]
;
msg_type	// c

= i8

    x

= 
//
	// `tick` ""quote"" 'q'
  zchar[ 7

    ]
; f32a

=  ""\n""	}
")).
Eval vm_compute in ("<<<M379>>>" ++ check (runes_of_ascii "root
    packet i64_ { trueish ,
@calculatedFrom(""abc"") @tag( 7 )
    // c
    int16
    asx
, @calculatedFrom( ""a\\"" ) float32 crc
@lengthOf(
Foo ) ,	@tag( // `tick` ""quote"" 'q'
42 // c
) zchar[
// c
// packet A { u8 x, }
7 ] asx @lengthOf( calculatedFrom) `// not a comment` , //
repeat zchar[ 1]// a // b
As ,	chars `two words` , @calculatedFrom( ""1"" )
@tag(
    // `tick` ""quote"" 'q'
    0123456789 ) @leftPad ('0')
    repeat
    char[] BodyLength `tab	here`, } MetaData u128 // packet A { u8 x, }
{
u16 i64_
,
    float32 asx//
`two words` ,//
i64
leftPad, zchar[ 00 // `tick` ""quote"" 'q'
] _x
    , //
} MetaData chars
    //
    {Foo crc
`say ""hi""` , uint8 u`two words` , // " ++ [128512]%N ++ runes_of_ascii " emoji
f32
pack
`crlf
line`, string _x `" ++ [233]%N ++ runes_of_ascii "`  , } packet x_y_z{ } options { calculatedFrom = ""CRC32"" crc
    = uint16 ; u =
false
    Foo
=
    char  } // " ++ [128512]%N ++ runes_of_ascii " emoji")).
Eval vm_compute in ("<<<M1380>>>" ++ check (runes_of_ascii "// top
options // c0
{ // c1
LittleEndian = true
    // c4
;
    // c5
}
    // c6
packet // c7
Logon
    // c8
{ // c9a
  // c9b
u8 // c10
x // c11
,
    // c12
string
    // c13
user
    // c14
,
    // c15
} // c16
packet // c17
Logout {
    // c19
u16 // c20a
  // c20b
reason // c21a
  // c21b
, // c22
}
    // c23
packet
    // c24
Empty { // c26a
  // c26b
}
    // c27
root // c28
packet
    // c29
Frame // c30
{ // c31
u16 // c32a
  // c32b
MsgType , // c34a
  // c34b
u8 BodyLen // c36a
  // c36b
@lengthOf(
    // c37
Body
    // c38
) , // c40a
  // c40b
u8 // c41a
  // c41b
flags // c42a
  // c42b
, Logon // c44a
  // c44b
Body
    // c45
, // c46a
  // c46b
u32 // c47a
  // c47b
trailer // c48a
  // c48b
, // c49a
  // c49b
} // c50a
  // c50b
")).
Eval vm_compute in ("<<<M201>>>" ++ check (runes_of_ascii "packet charz
{ //	t
repeat i64_ ,trueish {
repeat _x
    ,	repeatCount, repeat u16
matchKey `
`
,
// " ++ [128512]%N ++ runes_of_ascii " emoji
// a // b
matchKey @calculatedFrom( ""a\""b"" )
`it's` ,}	,
@tag(
007 )@calculatedFrom(
    ""a\\"")	@tag(
    3 // @lengthOf(
)f32 f32a @lengthOf(asx ) `crlf
line` // packet A { u8 x, }
, repeat i8 string_
,
    @lengthOf(
    // @lengthOf(
    Logon  ) @lengthOf( x_y_z )
    @lengthOf(
zchar
    ) repeat char[ 65535	] Foo`" ++ [233]%N ++ runes_of_ascii "`,
@calculatedFrom(//
""abc""
) trueish @lengthOf( A )
// " ++ [27880; 37322]%N ++ runes_of_ascii "
// a // b
,char[ 0 ] float , Packet
    @calculatedFrom( ""a	b""
), } MetaData
    Pad { char[ 00 ] leftPad , u8 rootA `
`,
//
// " ++ [128512]%N ++ runes_of_ascii " emoji
int32
    a1	`say ""hi""`
    ,
Z9_ float , //x
i32 Pad ,
}")).
Eval vm_compute in ("<<<M342>>>" ++ check (runes_of_ascii "root packet Z9_	{  repeat i8i8 int`// not a comment`
,	uint8x
    // c
    , f64 i8i8  `tab	here` ,@tag(
3 ) @tag( 3 ) @tag( /// triple
10
// trailing space 
// trailing space 
) repeat int{ MetaDataX // " ++ [27880; 37322]%N ++ runes_of_ascii "
,} , @tag( 10
    ) int8
    pack@lengthOf(x
    ), Logon ,	@tag( 00
) repeat
rootA
uint8x ,  @calculatedFrom( ""\n"" // a // b
) // `tick` ""quote"" 'q'
@lengthOf( len )
// @lengthOf(
// `tick` ""quote"" 'q'
BodyLength  { matchKey f32a
//x
// `tick` ""quote"" 'q'
`say ""hi""` ,} ,  char[] leftPad `{ , }` ,
@lengthOf( float )match repeatCount as	o { 255 : matchKey ,
    // " ++ [128512]%N ++ runes_of_ascii " emoji
    00:	A 007 :
    options1 } , }
")).
Eval vm_compute in ("<<<M1366>>>" ++ check (runes_of_ascii "
options {

    StringPrefixLenType	= u8
	;
ArrayPrefixLenType	= u8  ; FixedStringPadFromLeft
    =
    false ;
FixedStringPadChar
=
    ' '
;
    }

packet Ack
	{ char[] 
tag7 ,}

    packet
Reject
	{
	InSym61 { 
repeat
Ack ,zchar[
4
	]
f1
	,	}	,	}

packet 
Logout 
{
    char[

4 ]clOrdID

,}

root  packet
	Cancel  { @leftPad
( ' '	)

char[  10	]
price,u8 x

    ,
	u32 venue

    @lengthOf(
    Body
)

,
match
	x as Body 
{
    [
	92,

175

]:
	Logout

,26

: Reject 
, 144 :Ack

, }
,u16

    count
	@calculatedFrom( ""CRC32""

),
} ")).
Eval vm_compute in ("<<<M163>>>" ++ check (runes_of_ascii "options { As = // trailing space 
zchar[ 4294967296] ; } //	t
packet len // packet A { u8 x, }
{ @lengthOf(
_x) match
    // c
    lengthOf
    as
//
// `tick` ""quote"" 'q'
string_// c
{
    [ 4294967296 ]: i64_ ""a	b"": o
,
}
, leftPad
    @calculatedFrom( ""`tick`""	)
// trailing space 
// `tick` ""quote"" 'q'
,@leftPad( '\x00' ) repeat charz /// triple
msg_type
,
repeat i8
Foo , }packet msg_type {
//x
// @lengthOf(
@leftPad (
'0'
)
u64 repeatCount @calculatedFrom(
""" ++ [28040; 24687]%N ++ runes_of_ascii """) ,// packet A { u8 x, }
}
")).
Eval vm_compute in ("<<<M1481>>>" ++ check (runes_of_ascii "// top
options {
    // c1a
    // c1b
    LittleEndian = false;
    // c5
    StringPrefixLenType = u16;// c9
}// c10

packet Heartbeat {
    // c13
    @rightPad('0')
    // c17a
    // c17b
    char[7] seqNo,// c22a
    // c22b
    uint64 Tail,
    i16 Flags,
    u16 msgKind,// c31a
    // c31b
}

// c32
root packet Reject {
    // c36a
    // c36b
    zchar[3] tag7,
    // c41
    repeat Heartbeat,// c44
    repeat string clOrdID,// c48
}// c49")).
Eval vm_compute in ("<<<M349>>>" ++ check (runes_of_ascii "root
packet body {
    @lengthOf(
int
// @lengthOf(
//x
)string tag
    ,	Pad BodyLength , Z9_ {
    /// triple
    u `` , zchar[ 7] u ,
},uint64 calculatedFrom, }packet
msg_type {match f32a// " ++ [128512]%N ++ runes_of_ascii " emoji
as pack
    { ""// no comment"" : trueish
, }
    // trailing space 
    , @calculatedFrom( // @lengthOf(
""abc""
)
    @leftPad (
' ') @calculatedFrom( """" //x
) // c
matchKey T ,// `tick` ""quote"" 'q'
}
")).
Eval vm_compute in ("<<<M1731>>>" ++ check (runes_of_ascii "// top
root packet _x {
    // c3
    match Foo as Z9_ {
        // c8
        ""a	b"" : Pad,
        // c12
    },// c14
    repeat x `line1
        line2`,// c18
    @rightPad(' ')
    // c22
    @calculatedFrom(""a\\"")
    // c25
    metadata MetaDataX,// c28
    @tag(0)
    // c31
    Logon int ``,// c35
}// c36

options {
    // c38
    T = '\x00'// c41
}// c42")).
Eval vm_compute in ("<<<M194>>>" ++ check (runes_of_ascii "// `tick` ""quote"" 'q'
options
    //	t
    { }  packet lengthOf // `tick` ""quote"" 'q'
{  } packet
// a // b
// " ++ [27880; 37322]%N ++ runes_of_ascii "
Foo {
@tag(
1
) string
uint8x ,_x { chars  , string uint8x , i64 _x //
`it's`
    , repeat uint8 As,	}
, float32
f32a , @leftPad( '\x00')
    @calculatedFrom( """ ++ [28040; 24687]%N ++ runes_of_ascii """
) // trailing space 
uint8 Logon
,
    }")).
Eval vm_compute in ("<<<M232>>>" ++ check (runes_of_ascii "options {  A = i16
;
    }
    /// triple
    root
packet
    rootA{
    @tag( 7)int16 pack,Logon @calculatedFrom( ""a\""b"" ) `{ , }`
    , @rightPad ( '\x00' )
//
//
char[
7
    // `tick` ""quote"" 'q'
    ]options1
`tab	here`,@calculatedFrom(
""" ++ [233]%N ++ runes_of_ascii "t" ++ [233]%N ++ runes_of_ascii """ )int @lengthOf(
Packet
) `crlf
line`, }
")).
Eval vm_compute in ("<<<M80>>>" ++ check (runes_of_ascii "packet
    len { // trailing space 
repeat zchar f32a `// not a comment` , @tag( 255 )repeat  Pad { x T
, } , @calculatedFrom(
""{,}"") repeat
    // a // b
    leftPad { u64 u8x `tab	here` ,o Packet
    ,char[] chars , } , @tag( 3 )float64
    i8i8 , }
")).
Eval vm_compute in ("<<<M1415>>>" ++ check (runes_of_ascii "// top
MetaData uint8x {
    // c2
    char[] f32a `// not a comment`,
    // c6
    float32 roots,
    // c9
    char[7] u8x,
    // c14
    zchar[10] f32a,
    // c19
    u64 pack,
    // c22
    u16 pack,
    // c25
}
// c26")).
Eval vm_compute in ("<<<M26>>>" ++ check (runes_of_ascii "root packet body { repeat // c
i8i8
`it's`
,}
packet chars
{@rightPad
    (  '\x00' )
    // `tick` ""quote"" 'q'
    leftPad {
    char[ 10
]
    asx `" ++ [233]%N ++ runes_of_ascii "`, }
    // trailing space 
    ,
}
")).
Eval vm_compute in ("<<<M1301>>>" ++ check (runes_of_ascii "

  packet A
{u8 a

    ,
	} packet 
B { u16

    b , }root packet P

    {u8 K
    , match
    K as M
	{ [ 1
,
	2 ]: 
A

    ,

3 :B
    ,	7
    : A,
	}
	,  }

")).
Eval vm_compute in ("<<<M481>>>" ++ check (runes_of_ascii "packet uint8x
{ match pack
    as msg_type	{
    0123456789 :	float
}
,
} packet //	t
a1
    { } options options {packetx
    = '\x00'	; u128= ""a	b""  ; }
")).
Eval vm_compute in ("<<<M1388>>>" ++ check (runes_of_ascii "

  packet uint8x{  match  pack as

    msg_type{ 
0123456789
: float }
	,
    }
packet	//	t
a1
{} options  {packetx

=
	char;
u128
	=""a	b""
    ; 
}
")).
Eval vm_compute in ("<<<M540>>>" ++ check (runes_of_ascii "packet uint8x
{ match pack
    as msg_type	{
    0123456789 :	float
}
,
} packet //	t
a1
    { } options " ++ [65279]%N ++ runes_of_ascii " {packetx
    = '\x00'	; u128= ""a	b""  ; }
")).
Eval vm_compute in ("<<<M437>>>" ++ check (runes_of_ascii "packet uint8x
{ match pack
    as msg_type	{
    0123456789 float	:
}
,
} packet //	t
a1
    { } options {packetx
    = '\x00'	; u128= ""a	b""  ; }
")).
Eval vm_compute in ("<<<M455>>>" ++ check (runes_of_ascii "packet uint8x
{ match pack
    as msg_type	{
    0123456789 :	float
}
,
 packet //	t
a1
    { } options {packetx
    = '\x00'	; u128= ""a	b""  ; }
")).
Eval vm_compute in ("<<<M533>>>" ++ check (runes_of_ascii "packet uint8x
{ match pack
    as msg_type	{
    0123456789 :	float
}
,
} packet //	t
a1
    { } options {packetx
    = '\x00'	; u128= ""a	b""  ;")).
Eval vm_compute in ("<<<M723>>>" ++ check (runes_of_ascii "// @lengthOf(
packet i8i8 { u128 o , }
options { MetaD?ataX = true;
    BodyLength =""packet"" x_y_z= 007
crc //x
= ""abc"" ;
    msg_type =
i16 }")).
Eval vm_compute in ("<<<M1728>>>" ++ check (runes_of_ascii "packet A {
    u16 len @lengthOf(body) `a
        
        b`,
    u32 crc @calculatedFrom(""CRC32"") `a
        
        b`,
    string body,
}")).
Eval vm_compute in ("<<<M659>>>" ++ check (runes_of_ascii "// @lengthOf(
packet i8i8 { u128 o , }
options { MetaDataX = true;
    " ++ [21517; 23383]%N ++ runes_of_ascii " =""packet"" x_y_z= 007
crc //x
= ""abc"" ;
    msg_type =
i16 }")).
Eval vm_compute in ("<<<M1883>>>" ++ check (runes_of_ascii "MetaData leftPad {
    chars MetaDataX,
}

packet repeatCount {
    // c
    char[255] uint8x `" ++ [233]%N ++ runes_of_ascii "`,
}

MetaData pack {
    As Foo,
}")).
Eval vm_compute in ("<<<M173>>>" ++ check (runes_of_ascii "
options
    { zchar
    = 10 ; matchKey = char[ /// triple
1
    ]
u	= ""a\""b"" ;
    x_y_z =
    42 ; } MetaData Logon{ }")).
Eval vm_compute in ("<<<M1160>>>" ++ check (runes_of_ascii "MetaData leftPad { chars MetaDataX , } packet repeatCount
// c
{ char[ 255 ] uint8x `" ++ [233]%N ++ runes_of_ascii "` , } MetaData pack { As Foo , }")).
Eval vm_compute in ("<<<M1708>>>" ++ check (runes_of_ascii "
packet A	{  match k

as  n	{[

    ""a""
, 
""bb"" 
,	007 , ""d"", ""e""
    ]
	:

    B
	,

    2  :C

} ,

    } ")).
Eval vm_compute in ("<<<M290>>>" ++ check (runes_of_ascii "options {
    /// triple
    asx // " ++ [27880; 37322]%N ++ runes_of_ascii "
= 3 } MetaData T
{  f32/// triple
Pad `u8 x,` , } // `tick` ""quote"" 'q'")).
Eval vm_compute in ("<<<M909>>>" ++ check (runes_of_ascii "packet A {
  match k as n {
    [1, ""bb"", 007, ""d"", 5, ""f"", 7, ""h"", 9, ""j"", 11, ""l""] : B
    2 : C
  },
}")).
Eval vm_compute in ("<<<M1594>>>" ++ check (runes_of_ascii "
packet

    order_item 
{  u8
a	,
} root

packet
	new_order {

    order_item
,
u8  x
, }

")).
Eval vm_compute in ("<<<M883>>>" ++ check (runes_of_ascii "packet A {
  match k as n {
    [1, ""bb"", 007, ""d"", 5, ""f"", 7, ""h"", 9, ""j""] : B
    2 : C
  },
}")).
Eval vm_compute in ("<<<M642>>>" ++ check (runes_of_ascii "
packet
    asx {match u128 as lengthOf
{'1'
//	t
// `tick` ""quote"" 'q'
255 : x ,
    } ,	}")).
Eval vm_compute in ("<<<M638>>>" ++ check (runes_of_ascii "
packet
    asx {match u128 as leng""thOf
{
//	t
// `tick` ""quote"" 'q'
255 : x ,
    } ,	}")).
Eval vm_compute in ("<<<M597>>>" ++ check (runes_of_ascii "
packet
    asx {match u128 as lengthOf
{
//	t
// `tick` ""quote"" 'q'
255  x ,
    } ,	}")).
Eval vm_compute in ("<<<M860>>>" ++ check (runes_of_ascii "packet A {
  match k as n {
    [1, 22, ""c c"", 4, 5, ""f"", 7, 8] : B,
    2 : C
  },
}")).
Eval vm_compute in ("<<<M690>>>" ++ check (runes_of_ascii "// @lengthOf(
packet i8i8 { u128 o , }
options { MetaDataX = true;
    BodyLength")).
Eval vm_compute in ("<<<M125>>>" ++ check (runes_of_ascii "//	t
options {
    roots  =  ""\n""	; o
    //
    = '0' ;
tag
    =true
    }")).
Eval vm_compute in ("<<<M601>>>" ++ check (runes_of_ascii "
packet
    asx {match u128 as lengthOf
{
//	t
// `tick` ""quote"" 'q'
255")).
Eval vm_compute in ("<<<M1408>>>" ++ check (runes_of_ascii "packet metadata {
    u32 Packet `say ""hi""`,
    // trailing space 
}")).
Eval vm_compute in ("<<<M167>>>" ++ check (runes_of_ascii "packet msg_type { repeat// " ++ [27880; 37322]%N ++ runes_of_ascii "
zchar[  007] Logon `two words`, }
")).
Eval vm_compute in ("<<<M1222>>>" ++ check (runes_of_ascii "// top
packet
    // c0
x
    // c1
{
    // c2
}
    // c3
")).
Eval vm_compute in ("<<<M760>>>" ++ check (runes_of_ascii "MetaData @rightPad 3 i32 int32 ; int8 body ""a	b"" `" ++ [28040; 24687; 31867; 22411]%N ++ runes_of_ascii "`")).
Eval vm_compute in ("<<<M1207>>>" ++ check (runes_of_ascii "packet body { i32 f32a // c
`{ , }` , } options { }")).
Eval vm_compute in ("<<<M1257>>>" ++ check (runes_of_ascii "
root	packet

P	{
	hdr {u8  a,
}  ,u8 
x , 
}
")).
Eval vm_compute in ("<<<M957>>>" ++ check (runes_of_ascii "MetaData M {
    u8 x `
x`,
    T t `
x`,
}")).
Eval vm_compute in ("<<<M1582>>>" ++ check (runes_of_ascii "packet 
A

    { 
u8
    x`a
b` ,	}")).
Eval vm_compute in ("<<<M1393>>>" ++ check (runes_of_ascii "
MetaData tag { } 
        // c
")).
Eval vm_compute in ("<<<M276>>>" ++ check (runes_of_ascii "MetaData repeatCount { }
//	t
")).
Eval vm_compute in ("<<<M757>>>" ++ check (runes_of_ascii "z>" ++ [65533]%N ++ runes_of_ascii "*" ++ [65533]%N ++ runes_of_ascii "7" ++ [65533; 65533; 65533; 65533]%N ++ runes_of_ascii "+" ++ [65533]%N ++ runes_of_ascii "~" ++ [65533; 0; 65533; 65533]%N ++ runes_of_ascii "c" ++ [1171]%N ++ runes_of_ascii "n" ++ [65533; 65533; 65533; 12; 65533]%N ++ runes_of_ascii "E>K")).
Eval vm_compute in ("<<<M380>>>" ++ check (runes_of_ascii "root packet	Packet { }
")).
Eval vm_compute in ("<<<M1558>>>" ++ check (runes_of_ascii "
options{  // a
  }
")).
Eval vm_compute in ("<<<M1927>>>" ++ check (runes_of_ascii "MetaData u {
}
// c")).
Eval vm_compute in ("<<<M1037>>>" ++ check (runes_of_ascii "// c" ++ [12]%N ++ runes_of_ascii "
packet A {
}")).
Eval vm_compute in ("<<<M1044>>>" ++ check (runes_of_ascii "packet A {
}// c" ++ [8203]%N)).
Eval vm_compute in ("<<<M1843>>>" ++ check (runes_of_ascii "MetaData u {
}")).
Eval vm_compute in ("<<<M980>>>" ++ check (runes_of_ascii "// c" ++ [12288]%N)).
Eval vm_compute in ("<<<M745>>>" ++ check ([65533]%N ++ runes_of_ascii "1")).
