From FP Require Import Lexer Parser ShowPT Digest Formatter.
From Coq Require Import String List NArith.
Import ListNotations.
Open Scope string_scope.
Set Printing Width 100000000.
Set Printing Depth 100000000.
Definition show_fres (r : fres) : string :=
  match r with
  | FOk s => "OK:" ++ sh_escaped s ""
  | FErr s => "ERR:" ++ sh_escaped s ""
  | FPanic p => "PANIC:" ++ p
  end.
Definition check (rs : list rune) : string := digest (show_fres (format_res rs)).
Definition full (rs : list rune) : string := show_fres (format_res rs).
Eval vm_compute in ("<<<M271>>>" ++ check (runes_of_ascii "// packet A { u8 x, }
packet string_ {
@tag( 4294967296)
@calculatedFrom( """ ++ [128512]%N ++ runes_of_ascii """ )@calculatedFrom( ""1"" )  leftPad @lengthOf( //	t
int )  ``
// `tick` ""quote"" 'q'
//
, repeat Packet{ zchar[
0
    // packet A { u8 x, }
    ]options1 `line1
line2` , },
    @calculatedFrom( """"	) float32
    u8x
    ,
float , i64_
{ packetx {  i16	falsey, f32 repeatCount
    `{ , }`,} ,
    repeat char[
0  ] i8i8, string	o @lengthOf( options1 ) , } , i64_
@calculatedFrom(""a\""b"" )
/// triple
//x
`a\`  , @rightPad ( )@lengthOf( packetx
    )
match matchKey as stringy{ ""a	b"":
body,}
    ,
    // " ++ [27880; 37322]%N ++ runes_of_ascii "
    @lengthOf(
u128
) @calculatedFrom(
    ""`tick`"" ) @rightPad
    () // @lengthOf(
repeat falsey
string_ `" ++ [28040; 24687; 31867; 22411]%N ++ runes_of_ascii "`
    ,string As`it's`
    ,
@calculatedFrom( """ ++ [28040; 24687]%N ++ runes_of_ascii """ ) repeat rootA { float64
body	,
} , } options {zchar
=
    // " ++ [128512]%N ++ runes_of_ascii " emoji
    true  ;  i8i8= 3; } packet	leftPad{	@calculatedFrom(
    // c
    """" ) //x
@leftPad( ' ' )
@calculatedFrom(
""abc"" ) repeat MetaDataX{  char[] Pad , body
@lengthOf( Foo )
/// triple
/// triple
,uint64 i8i8 ,char[ 42 ]options1
@calculatedFrom( ""x y""
),}
,
} packet stringy
    /// triple
    {	@calculatedFrom( """ ++ [28040; 24687]%N ++ runes_of_ascii """ )BodyLength	len
    ,@lengthOf(
u
    ) i8i8
metadata
, @calculatedFrom(
""a\\""
) //x
packetx
    ,
    f64 i8i8	@lengthOf( Header
    )
    , metadata
`
`,@lengthOf( int ) repeat falsey	,
repeat char[]
trueish
,
    }
")).
Eval vm_compute in ("<<<M149>>>" ++ check (runes_of_ascii "// trailing space 
packet
    charz {	@calculatedFrom( ""1""
)match x
as tag
    {	[
7 , // @lengthOf(
0
, 65535	,
    // `tick` ""quote"" 'q'
    ""it's""/// triple
,0
    ,
""x y"", 255 ] :tag  , [ ""1"" // a // b
, //	t
3  , 007, // " ++ [27880; 37322]%N ++ runes_of_ascii "
255 ,  ""x y""
    // @lengthOf(
    ] :pack ,[""" ++ [233]%N ++ runes_of_ascii "t" ++ [233]%N ++ runes_of_ascii """	, 7  , 10  , 3
, 0
    , ""a\""b"" ] :
    // packet A { u8 x, }
    leftPad, [ 65535
    // " ++ [27880; 37322]%N ++ runes_of_ascii "
    ,
""x y""]
: chars [ ""\n"" ,65535 , ""a\\""
] :
A	, ""\n"" :
    lengthOf , } ,
match string_
    as	i8i8 { 7 :msg_type , // c
""abc"" :
tag ,""a\""b"" :metadata, 255
    : matchKey	,
    [""CRC32"" ,""1""
// " ++ [27880; 37322]%N ++ runes_of_ascii "
// " ++ [128512]%N ++ runes_of_ascii " emoji
, 007 , ""packet"" ,""a\\"" /// triple
,	""a\""b""
    // " ++ [128512]%N ++ runes_of_ascii " emoji
    , 007 , 4294967296 ] : lengthOf , }
,uint16
pack , string Pad@lengthOf( o ) `say ""hi""` ,repeat i8 body
    ,
@lengthOf( //x
crc ) float64 body `// not a comment`
, repeat rootA { int16 x_y_z `tab	here` ,
falsey @calculatedFrom( ""{,}"" ), trueish @lengthOf(
crc) `{ , }` , }
, match Pad as
Header
{
    4294967296: Header,""\n"" :msg_type,""a	b"" :
    x_y_z
    , }
,
    //	t
    Logon
, } 	 ")).
Eval vm_compute in ("<<<M13>>>" ++ check (runes_of_ascii "root
    packet	roots{ // `tick` ""quote"" 'q'
} options	{	asx =
    ""\n"" ; x_y_z =
3 ;rootA = ""CRC32""
    ;float=char  T = false
; }
packet falsey {
body { match u8x as /// triple
string_{ [
42,7 ,65535
    ,
    3 ,
    42 ,7 , ""1""
    , ""packet"" ]:
    // `tick` ""quote"" 'q'
    i64_ , [ ""abc""]
    :  Foo ,	""a\\""
    :
roots ,
    4294967296 :	stringy	}
    , //x
asx
`{ , }` // " ++ [128512]%N ++ runes_of_ascii " emoji
, i8
charz@lengthOf( // trailing space 
x_y_z)// trailing space 
`a\` ,}
    // @lengthOf(
    , @tag( 65535 ) i64_ @lengthOf( tag )`u8 x,`
// a // b
//	t
,Z9_@lengthOf( int )
, @calculatedFrom( ""a\""b""
)uint16  stringy @lengthOf( trueish ) , Logon	{string  Logon `say ""hi""` , packetx
i64_ , match msg_type as	float
{ ""\n"" : i64_,	[
""" ++ [128512]%N ++ runes_of_ascii """
    ]
:
metadata , // `tick` ""quote"" 'q'
[
// trailing space 
// " ++ [128512]%N ++ runes_of_ascii " emoji
10, ""1""  ]
:zchar ,
}
    , //x
}
    //x
    , Packet
    @calculatedFrom(""CRC32"" ), }
")).
Eval vm_compute in ("<<<M1913>>>" ++ check (runes_of_ascii "  packet  // packet A { u8 x, }
	tag {
	@calculatedFrom( ""x y"" )
    lengthOf
	{options1 `
`	,
}

    ,
@tag(

    7 )

    int{
        //x
  // " ++ [27880; 37322]%N ++ runes_of_ascii "
char[ 007 ]	// `tick` ""quote"" 'q'

	calculatedFrom
@lengthOf(

    metadata

    ), tag 
@lengthOf(

    falsey  )
    ,
f32 
// " ++ [128512]%N ++ runes_of_ascii " emoji
	calculatedFrom
    // `tick` ""quote"" 'q'

	//
		`{ , }` ,

i8i8 {
    string
    i64_ @lengthOf(	asx  )`it's`,	u @calculatedFrom( ""\n"" ),

    } 
,	}
    ,

@calculatedFrom(	""abc"" 	 //
	) 
@leftPad
    ( ' ' ) uint64	calculatedFrom

    , 	 // " ++ [27880; 37322]%N ++ runes_of_ascii "
  }  packet
o {
Header

, @lengthOf( 
i8i8

) 
float32
Pad // c

,char[ 42 ]

    leftPad 
@calculatedFrom(
	"""" // " ++ [128512]%N ++ runes_of_ascii " emoji
    	)  , @tag(
255
) body u	,

}
packet
lengthOf{ 
    // packet A { u8 x, }
  // c
  @tag(

    255 //x
	)
char[ 
0123456789	]
o `
`

, 
} ")).
Eval vm_compute in ("<<<M1673>>>" ++ check (runes_of_ascii "packet

    crc {@lengthOf( Header )
repeat
roots
        // @lengthOf(
  `a\`

    ,@lengthOf( tag )

match

x
    as

    string_ {[
""a\\""  ,
""packet""
] : 
Header""// no comment"" 

    /// triple
    :

    Logon 
,

    7	:	falsey , 
7

    : metadata 
[

7	, 
00 
]:

    // `tick` ""quote"" 'q'
	repeatCount 3 
: u,}, 
      //	t
    	@lengthOf(
u128  
      //

// " ++ [27880; 37322]%N ++ runes_of_ascii "
  )

@rightPad 
(	'\x00'	// c
    )
    char[]  int
,int16

Packet
@lengthOf(

    string_)  ,trueish {repeat
	crc{zchar
	calculatedFrom	,
}
,} 
,
    // @lengthOf(
	//x
@rightPad(
)repeat

_x
pack 	 // " ++ [27880; 37322]%N ++ runes_of_ascii "
    	,	@lengthOf( 
    // c

// trailing space 
  chars

    )repeat	string_
    {
	repeat

    uint8x

`// not a comment`

,}

,

    } ")).
Eval vm_compute in ("<<<M1779>>>" ++ check (runes_of_ascii "root// c

packet asx
{ @rightPad(  ' '

)
@lengthOf(
int) @tag( 0	)
    u64 
uint8x  @calculatedFrom(

    ""packet""

    ) ,
uint32 i64_  , 
    // c

  repeat 
options1
o	,	match f32a

as 	 /// triple
falsey  // " ++ [27880; 37322]%N ++ runes_of_ascii "
    { 42 : stringy
    10 
:As,
    """"
: Packet

,}

    , 
@calculatedFrom(
""it's"" )  // " ++ [128512]%N ++ runes_of_ascii " emoji
f64
a1, @lengthOf(tag
)
    match roots
	as MetaDataX

    { """ ++ [128512]%N ++ runes_of_ascii """
:  f32a ,
    ""\n""  : As [	255
    ]:
A

    ,
}

    ,
a1 
@calculatedFrom(	""abc""

)``
    , 
@rightPad 
(
)@rightPad( '\x00'

)@calculatedFrom( ""CRC32""  )
    body As
    , }
	root
	packet

    packetx	{ 
    //x

//
  repeat	lengthOf	Logon `" ++ [28040; 24687; 31867; 22411]%N ++ runes_of_ascii "`  ,  //	t
    	}
")).
Eval vm_compute in ("<<<M305>>>" ++ check (runes_of_ascii "packet
pack{ u8 x ,
char[
    255 ]trueish
@calculatedFrom(
""// no comment"" ) `tab	here`,	@lengthOf( asx) repeat //
zchar[
0
] stringy `
`, @leftPad( '0' ) @calculatedFrom( // trailing space 
""abc"" )
    @calculatedFrom( ""it's""
) char[] packetx@calculatedFrom( ""a	b"" ) `doc` , repeat string len
    `two words`
, uint16 matchKey
    @lengthOf(
    asx ) ,zchar[ 0 ]
x `it's` // trailing space 
, }
    packet packetx {body  , string trueish `" ++ [233]%N ++ runes_of_ascii "` , @tag(255 )
@tag(
3
// packet A { u8 x, }
//	t
) @calculatedFrom(
    ""\n"" ) repeat f64 roots// trailing space 
`" ++ [233]%N ++ runes_of_ascii "`	, /// triple
} 	 ")).
Eval vm_compute in ("<<<M1358>>>" ++ check (runes_of_ascii "options {
    StringPrefixLenType = u8;
    ArrayPrefixLenType = u8;
    FixedStringPadFromLeft = false;
    FixedStringPadChar = ' ';
}
packet Ack {
    char[] tag7,
}
packet Reject {
    InSym61 {
        repeat Ack,
        zchar[4] f1,
    },
}
packet Logout {
    char[4] clOrdID,
}
root packet Cancel {
    @leftPad(' ') char[10] price,
    u8 x,
    u32 venue @lengthOf(Body),
    match x as Body {
        [92, 175] : Logout,
        26 : Reject,
        144 : Ack,
    },
    u16 count @calculatedFrom(""CR\
C32""),
}
")).
Eval vm_compute in ("<<<M1235>>>" ++ check (runes_of_ascii "// top
options
    // c0
{
    // c1
f32a
    // c2
=
    // c3
0
    // c4
}
    // c5
packet
    // c6
trueish
    // c7
{
    // c8
}
    // c9
MetaData
    // c10
_x
    // c11
{
    // c12
char[
    // c13
0123456789
    // c14
]
    // c15
zchar
    // c16
,
    // c17
string
    // c18
crc
    // c19
,
    // c20
char[
    // c21
1
    // c22
]
    // c23
options1
    // c24
,
    // c25
uint8
    // c26
repeatCount
    // c27
,
    // c28
}
    // c29
")).
Eval vm_compute in ("<<<M1192>>>" ++ check (runes_of_ascii "// top
MetaData
    // c0
uint8x
    // c1
{
    // c2
char[]
    // c3
f32a
    // c4
`// not a comment`
    // c5
,
    // c6
float32
    // c7
roots
    // c8
,
    // c9
char[
    // c10
7
    // c11
]
    // c12
u8x
    // c13
,
    // c14
zchar[
    // c15
10
    // c16
]
    // c17
f32a
    // c18
,
    // c19
u64
    // c20
pack
    // c21
,
    // c22
u16
    // c23
pack
    // c24
,
    // c25
}
    // c26
")).
Eval vm_compute in ("<<<M76>>>" ++ check (runes_of_ascii "packet rootA { repeat uint16 stringy `" ++ [233]%N ++ runes_of_ascii "`
,body
@lengthOf( stringy ) , int32 matchKey // " ++ [27880; 37322]%N ++ runes_of_ascii "
,
    @lengthOf(roots)@calculatedFrom( ""a\""b""
) @leftPad(' ') i64
    leftPad
@lengthOf( repeatCount )
`u8 x,` , //	t
f64 len
    @lengthOf( BodyLength// trailing space 
) `// not a comment` , @rightPad
(
)
    @leftPad ( '0')repeat
string len
, // c
char[] chars `two words`	, } //	t")).
Eval vm_compute in ("<<<M1866>>>" ++ check (runes_of_ascii "

  root
packet trueish// " ++ [128512]%N ++ runes_of_ascii " emoji
  {char[]MetaDataX , @leftPad(

    // trailing space 
  '0'  )
match float
as
        //x
    // trailing space 
    crc{	0123456789	:// " ++ [27880; 37322]%N ++ runes_of_ascii "
	chars ,

""{,}"": i8i8

    ,  },	f32a 
        // " ++ [128512]%N ++ runes_of_ascii " emoji
  f32a  `tab	here`	,  // " ++ [128512]%N ++ runes_of_ascii " emoji
      @lengthOf(

Foo )
Packet@calculatedFrom(
    """ ++ [28040; 24687]%N ++ runes_of_ascii """
)	`it's` ,

    }
")).
Eval vm_compute in ("<<<M1191>>>" ++ check (runes_of_ascii "// top
MetaData // c0
uint8x // c1
{ // c2
char[] // c3
f32a // c4
`// not a comment` // c5
, // c6
float32 // c7
roots // c8
, // c9
char[ // c10
7 // c11
] // c12
u8x // c13
, // c14
zchar[ // c15
10 // c16
] // c17
f32a // c18
, // c19
u64 // c20
pack // c21
, // c22
u16 // c23
pack // c24
, // c25
} // c26
")).
Eval vm_compute in ("<<<M182>>>" ++ check (runes_of_ascii "root packet int {match MetaDataX	as charz
{ 255 :uint8x , 65535 : // @lengthOf(
u128 ""\" ++ [233]%N ++ runes_of_ascii """
:o,0123456789 : _x ""{,}"" :
    matchKey
// `tick` ""quote"" 'q'
// `tick` ""quote"" 'q'
[4294967296 ,"""" ,	10
    ]: charz , }	, @lengthOf( roots
) x @calculatedFrom( ""\n"" )
    , i32
    tag , }")).
Eval vm_compute in ("<<<M1370>>>" ++ check (runes_of_ascii "options {
    LittleEndian = true;
}
packet Logon {
    u8 x,
    string user,
}
packet Logout {
    u16 reason,
}
packet Empty {
}
root packet Frame {
    u16 MsgType,
    u8 BodyLen @lengthOf(Body),
    u8 flags,
    Logon Body,
    u32 trailer,
}
")).
Eval vm_compute in ("<<<M1494>>>" ++ check (runes_of_ascii "MetaData chars {
    uint64 A,
    msg_type asx,
    Z9_ a1,
    stringy i64_ `doc`,
}

packet x_y_z {
}

options {
    float = float32
    rootA = false;
    repeatCount = char[10];
}

packet Z9_ {
    zchar[007] charz,
}//x")).
Eval vm_compute in ("<<<M311>>>" ++ check (runes_of_ascii "MetaData
falsey { Header falsey
`
` , string Foo `" ++ [28040; 24687; 31867; 22411]%N ++ runes_of_ascii "`
    // `tick` ""quote"" 'q'
    ,falsey repeatCount , i8
u , }
packet A	{ match _x as T { 007: lengthOf// `tick` ""quote"" 'q'
}, } 	 ")).
Eval vm_compute in ("<<<M1860>>>" ++ check (runes_of_ascii "MetaData// a // b
    o
{ string Foo ,  } MetaData  msg_type{

Header

    len
`" ++ [28040; 24687; 31867; 22411]%N ++ runes_of_ascii "`,

} options	{tag

='0'
; o  =	""CRC32""
; Logon
	=
""`tick`"" ; // a // b

}
")).
Eval vm_compute in ("<<<M1432>>>" ++ check (runes_of_ascii "packet A {
    match k as n {
        [
            1, 22, 4, 5, 7,
            8, 10, 11, ""c c"", ""f"",
            ""i""
        ] : B,
        2 : C,
    },
}")).
Eval vm_compute in ("<<<M651>>>" ++ check (runes_of_ascii "// @lengthOf(
packet i8i8 { u128 o , }
options { MetaDataX MetaDataX = true;
    BodyLength =""packet"" x_y_z= 007
crc //x
= ""abc"" ;
    msg_type =
i16 }")).
Eval vm_compute in ("<<<M1706>>>" ++ check (runes_of_ascii "MetaData o {
    string Foo,
}

MetaData msg_type {
    Header len `" ++ [28040; 24687; 31867; 22411]%N ++ runes_of_ascii "`,
}

options {
    tag = '0';
    o = ""CRC32"";
    Logon = ""`tick`"";// a // b
}")).
Eval vm_compute in ("<<<M462>>>" ++ check (runes_of_ascii "packet uint8x
{ match pack
    as msg_type	{
    0123456789 :	float
}
,
} a1 //	t
packet
    { } options {packetx
    = '\x00'	; u128= ""a	b""  ; }
")).
Eval vm_compute in ("<<<M515>>>" ++ check (runes_of_ascii "packet uint8x
{ match pack
    as msg_type	{
    0123456789 :	float
}
,
} packet //	t
a1
    { } options {packetx
    = '\x00'	; u128 ""a	b""  ; }
")).
Eval vm_compute in ("<<<M1686>>>" ++ check (runes_of_ascii "// top
MetaData uint8x {
    char[] f32a `// not a comment`,
    float32 roots,
    char[7] u8x,
    zchar[10] f32a,
    u64 pack,
    u16 pack,
}")).
Eval vm_compute in ("<<<M723>>>" ++ check (runes_of_ascii "// @lengthOf(
packet i8i8 { u128 o , }
options { MetaD?ataX = true;
    BodyLength =""packet"" x_y_z= 007
crc //x
= ""abc"" ;
    msg_type =
i16 }")).
Eval vm_compute in ("<<<M709>>>" ++ check (runes_of_ascii "// @lengthOf(
packet i8i8 { u128 o , }
options { MetaDataX = true;
    BodyLength =""packet"" x_y_z= 007
crc //x
= ""abc"" 
    msg_type =
i16 }")).
Eval vm_compute in ("<<<M697>>>" ++ check (runes_of_ascii "// @lengthOf(
packet i8i8 { u128 o , }
, { MetaDataX = true;
    BodyLength =""packet"" x_y_z= 007
crc //x
= ""abc"" ;
    msg_type =
i16 }")).
Eval vm_compute in ("<<<M1554>>>" ++ check (runes_of_ascii "packet A {
    match k as n {
        [
            22, 4, 66, ""a"", ""c c"",
            ""e""
        ] : B,
        2 : C,
    },
}")).
Eval vm_compute in ("<<<M34>>>" ++ check (runes_of_ascii "options {
Logon = 0 } options { msg_type = 3
    MetaDataX =
    // " ++ [128512]%N ++ runes_of_ascii " emoji
    int8
    uint8x=""""
    ;
    As = '0' }")).
Eval vm_compute in ("<<<M1162>>>" ++ check (runes_of_ascii "MetaData leftPad { chars MetaDataX , } packet repeatCount {
// c
char[ 255 ] uint8x `" ++ [233]%N ++ runes_of_ascii "` , } MetaData pack { As Foo , }")).
Eval vm_compute in ("<<<M1458>>>" ++ check (runes_of_ascii "packet A {
    Inner {
        u8 x `
        `,
        Deep {
            u8 y `
            `,
        },
    },
}")).
Eval vm_compute in ("<<<M25>>>" ++ check (runes_of_ascii "packet stringy	{
    } // packet A { u8 x, }
packet
    u128
    { u16 len@lengthOf( u128)	,
    //x
    }
")).
Eval vm_compute in ("<<<M898>>>" ++ check (runes_of_ascii "packet A {
  match k as n {
    [""a"", 22, ""c c"", 4, ""e"", 66, ""g"", 8, ""i"", 10, ""k""] : B
    2 : C
  },
}")).
Eval vm_compute in ("<<<M634>>>" ++ check (runes_of_ascii "
packet
    asx {matc@lengthOfh u128 as lengthOf
{
//	t
// `tick` ""quote"" 'q'
255 : x ,
    } ,	}")).
Eval vm_compute in ("<<<M605>>>" ++ check (runes_of_ascii "
packet
    asx {match u128 as lengthOf
{
//	t
// `tick` ""quote"" 'q'
255 : repeat ,
    } ,	}")).
Eval vm_compute in ("<<<M598>>>" ++ check (runes_of_ascii "
packet
    asx {match u128 as lengthOf
{
//	t
// `tick` ""quote"" 'q'
255 : : x ,
    } ,	}")).
Eval vm_compute in ("<<<M564>>>" ++ check (runes_of_ascii "
packet
    asx match{ u128 as lengthOf
{
//	t
// `tick` ""quote"" 'q'
255 : x ,
    } ,	}")).
Eval vm_compute in ("<<<M595>>>" ++ check (runes_of_ascii "
packet
    asx {match u128 as lengthOf
{
//	t
// `tick` ""quote"" 'q'
: : x ,
    } ,	}")).
Eval vm_compute in ("<<<M390>>>" ++ check (runes_of_ascii "root packet SimpleMessage {
	uint16 MsgType `" ++ [28040; 24687; 31867; 22411]%N ++ runes_of_ascii "`,
	string JsonBody `Json" ++ [23383; 31526; 20018; 28040; 24687; 20307]%N ++ runes_of_ascii "`,
}")).
Eval vm_compute in ("<<<M1305>>>" ++ check (runes_of_ascii "packet orderItem {
    u8 a,
}
root packet newOrder {
    orderItem,
    u8 x,
}
")).
Eval vm_compute in ("<<<M743>>>" ++ check (runes_of_ascii "int16 zchar[ } `doc` char u16 uint16 true false u8 msg_type """ ++ [233]%N ++ runes_of_ascii "t" ++ [233]%N ++ runes_of_ascii """ ""a\\"" pack")).
Eval vm_compute in ("<<<M822>>>" ++ check (runes_of_ascii "packet A {
  match k as n {
    [1, 22, ""c c"", 4, 5] : B
    2 : C
  },
}")).
Eval vm_compute in ("<<<M791>>>" ++ check (runes_of_ascii "packet A {
  match k as n {
    [1, ""bb"", 007] : B,
    2 : C
  },
}")).
Eval vm_compute in ("<<<M838>>>" ++ check (runes_of_ascii "packet A { Inner { match k as n { [1,22,007,4,5,66] : B, }, }, }")).
Eval vm_compute in ("<<<M314>>>" ++ check (runes_of_ascii "root packet string_{
char[] matchKey ,
} packet x {
    } 	 ")).
Eval vm_compute in ("<<<M774>>>" ++ check (runes_of_ascii "packet A {
  match k as n {
    [1] : B
    2 : C
  },
}")).
Eval vm_compute in ("<<<M1204>>>" ++ check (runes_of_ascii "packet body {
// c
i32 f32a `{ , }` , } options { }")).
Eval vm_compute in ("<<<M1243>>>" ++ check (runes_of_ascii "root packet P {
    repeat char cs,
    u8 x,
}
")).
Eval vm_compute in ("<<<M1819>>>" ++ check (runes_of_ascii "root

    packet 
P  {
    string
s 
, }
")).
Eval vm_compute in ("<<<M1096>>>" ++ check (runes_of_ascii "packet A { u8 x,// a


// b

 u8 y, }")).
Eval vm_compute in ("<<<M1043>>>" ++ check (runes_of_ascii "packet A {
 u8 x `d 	`, // c 	
}")).
Eval vm_compute in ("<<<M1028>>>" ++ check (runes_of_ascii "packet A {
 u8 x `d" ++ [8287]%N ++ runes_of_ascii "`, // c" ++ [8287]%N ++ runes_of_ascii "
}")).
Eval vm_compute in ("<<<M1442>>>" ++ check (runes_of_ascii "
packet	A
	{
    }// c x
")).
Eval vm_compute in ("<<<M1104>>>" ++ check (runes_of_ascii "
// c
MetaData tag { }")).
Eval vm_compute in ("<<<M1137>>>" ++ check (runes_of_ascii "MetaData u { }
// c
")).
Eval vm_compute in ("<<<M996>>>" ++ check (runes_of_ascii "packet A {
}
// c" ++ [5760]%N)).
Eval vm_compute in ("<<<M1584>>>" ++ check (runes_of_ascii "packet
packetx {
}")).
Eval vm_compute in ("<<<M11>>>" ++ check (runes_of_ascii "packet zchar { }")).
Eval vm_compute in ("<<<M732>>>" ++ check (runes_of_ascii "// a
// b
")).
Eval vm_compute in ("<<<M56>>>" ++ check (runes_of_ascii " 	 ")).
