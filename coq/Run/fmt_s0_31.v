From FP Require Import Lexer Parser ShowPT Digest Formatter.
From Coq Require Import String List NArith.
Import ListNotations.
Open Scope string_scope.
Set Printing Width 100000000.
Set Printing Depth 100000000.
Definition show_fres (r : fres) : string :=
  match r with
  | FOk s => "OK:" ++ sh_escaped s ""
  | FErr s => "ERR:" ++ sh_escaped s ""
  | FPanic p => "PANIC:" ++ p
  end.
Definition check (rs : list rune) : string := digest (show_fres (format_res rs)).
Definition full (rs : list rune) : string := show_fres (format_res rs).
Eval vm_compute in ("<<<M100>>>" ++ check (runes_of_ascii "options
/// triple
//
{matchKey	= true ;	packetx =uint32; metadata =int64
    ;Packet = float64 _x= // @lengthOf(
""" ++ [233]%N ++ runes_of_ascii "t" ++ [233]%N ++ runes_of_ascii """}root packet asx { @rightPad (
'\x00')
@calculatedFrom( """" //
)  @tag( 4294967296)msg_type { repeat
zchar[ 65535 ]charz `{ , }`  , char
roots ,T { rootA
len ,
    } ,repeat u128  `u8 x,`
    , }
    ,  }
    root packet	MetaDataX{ // c
char[ 4294967296
]
    Z9_// `tick` ""quote"" 'q'
,lengthOf// c
rootA `{ , }`,@rightPad ( '0'
    ) zchar[	00
]i8i8 ,	char[
1
]a1	,
    // c
    float32 crc  `
` , Z9_
    { f32a {
    float32//
len, f32a{ char[
0 ]// " ++ [27880; 37322]%N ++ runes_of_ascii "
pack@calculatedFrom( ""it's"" )
, T @lengthOf(// 50% %s
f32a )
// c
// `tick` ""quote"" 'q'
, i64 lengthOf// " ++ [128512]%N ++ runes_of_ascii " emoji
@calculatedFrom(  ""x y"") , zchar[ 4294967296
]	As @calculatedFrom(  ""x y""
    )
    , }
    , } ,  repeat	calculatedFrom {  repeat Packet { x
    ,  } ,}
, u8x{ metadata
@calculatedFrom(
    ""1"" )
    // 50% %s
    , repeat zchar[ // a // b
65535 ]  Z9_ ,
// " ++ [128512]%N ++ runes_of_ascii " emoji
// a // b
} , match As as  repeatCount { 65535 : roots ,
""packet""
: uint8x ,
3 :
A,
""{,}"" :
    leftPad,} , } , @calculatedFrom( // trailing space 
""// no comment"" ) repeat stringy asx , char[] MetaDataX@lengthOf(
// " ++ [128512]%N ++ runes_of_ascii " emoji
// packet A { u8 x, }
A ), @rightPad	('0' ) @leftPad
    ( ' ' )	Z9_ @calculatedFrom( ""a\""b"" ) , match// packet A { u8 x, }
o	as repeatCount {[3 , 0123456789 ]
:
    // c
    string_ ,  4294967296 :
    Logon , 7 :o	, } ,
    }
    packet body {} 	 ")).
Eval vm_compute in ("<<<M258>>>" ++ check (runes_of_ascii "packet
Packet { @rightPad (  )
match calculatedFrom
    as zchar {""abc"" : leftPad ,  0123456789:
    BodyLength , ""// no comment"":	Packet } , @tag(
    0123456789
)
    zchar[ 0]
    _x @lengthOf(
u128 ) ,
    @calculatedFrom( ""`tick`""
)	options1 {
// a // b
// trailing space 
zchar @calculatedFrom(""CRC32""
) ,
i64
A
@lengthOf(string_ )// " ++ [128512]%N ++ runes_of_ascii " emoji
`two words` , float
// @lengthOf(
// trailing space 
@calculatedFrom(
// c
// trailing space 
""{,}"" ) `crlf
line` ,
repeat char[ 00/// triple
]
_x , } ,
    @leftPad( ' '
) char[	255
] options1 ,  @tag( 0123456789
)repeat MetaDataX { //
BodyLength { As , } , o `say ""hi""`
    ,
match asx //x
as string_{ ""a	b"" :Logon ,// `tick` ""quote"" 'q'
}, } ,	@rightPad	( // `tick` ""quote"" 'q'
) match  o as T//
{ 007
    :
    body	, 10 :o 10 : i8i8	, } , @rightPad ( '0'	)@rightPad (  '\x00' )
    @leftPad ( '\x00' ) int8 tag `" ++ [28040; 24687; 31867; 22411]%N ++ runes_of_ascii "`
, i64 falsey, @lengthOf( u8x )
    repeat Packet	{ char[] x_y_z , repeat
    f32 Packet ,crc @lengthOf( Foo )// a // b
, } // 50% %s
,//	t
@calculatedFrom(	""{,}"" )
    // a // b
    @lengthOf(metadata ) @lengthOf( i8i8  ) // `tick` ""quote"" 'q'
int64	options1 @calculatedFrom(""CRC32"" /// triple
)	`say ""hi""`
    ,
    }
")).
Eval vm_compute in ("<<<M1471>>>" ++ check (runes_of_ascii "options {
    packetx = 42;
}

root packet falsey {
    @tag(1)
    crc {
        repeat char[007] charz `it's`,
        repeat u8 len `
                `,
        crc trueish,
    },
    match float as string_ {
        ""x y"" : zchar,
        """ ++ [128512]%N ++ runes_of_ascii """ : string_,
        ""CRC32"" : options1,
        [""1""] : crc,
        ""packet"" : options1,
        [
            42, ""a	b"", """ ++ [233]%N ++ runes_of_ascii "t" ++ [233]%N ++ runes_of_ascii """, ""abc"", 0123456789,
            ""{,}"", 00, """ ++ [233]%N ++ runes_of_ascii "t" ++ [233]%N ++ runes_of_ascii """
        ] : asx,
    },
    repeat f64 charz,
    @tag(10)
    repeat charz Logon,
    @lengthOf(u8x)
    @calculatedFrom(""a\""b"")
    @rightPad(' ')
    u8 a1 `u8 x,`,
}

packet falsey {
    repeat char[] zchar,
    @tag(255)
    @calculatedFrom(""`tick`"")
    char[] asx `say ""hi""`,
    u8 As `u8 x,`,// 50% %s
    zchar[00] uint8x @lengthOf(zchar),
    char[255] uint8x,
    Pad @lengthOf(_x) `" ++ [233]%N ++ runes_of_ascii "`,
    _x,
    @rightPad(' ')
    uint16 BodyLength,
    @lengthOf(int)
    metadata tag,
    int64 string_ `
        `,
}

root packet o {
}

options {
}")).
Eval vm_compute in ("<<<M1878>>>" ++ check (runes_of_ascii "
MetaData 
BodyLength

    {
}packet

x_y_z {	@lengthOf(
	roots
    )

A{ // " ++ [128512]%N ++ runes_of_ascii " emoji
	repeat	zchar[0123456789]
Z9_ `a\`

,
    }	, }
options 	 // packet A { u8 x, }
{
Pad
=	""x y""
;	// trailing space 

trueish  = 
true

    body
	=	3
; 
matchKey

=
true //x
  ;
    i64_	=
	char[]
;
} packet
	Packet	{

    char[] 
  // " ++ [128512]%N ++ runes_of_ascii " emoji
  // `tick` ""quote"" 'q'

  float

    @calculatedFrom(""`tick`"") ,

char[] charz @calculatedFrom(""abc"")  ,
    match As

    as 
	// packet A { u8 x, }
      asx// @lengthOf(
    {

    [
    """ ++ [28040; 24687]%N ++ runes_of_ascii """
, ""`tick`""
,
""{,}""
,
	""{,}""	, ""a	b""

    // " ++ [27880; 37322]%N ++ runes_of_ascii "

,
1 ,
""\" ++ [233]%N ++ runes_of_ascii """ 
]	:

rootA
, 255  :asx

42 
:
a1

    ,42 :x_y_z""""
    :msg_type ,
    7 
:
    f32a, }, @leftPad 
( '0' ) repeatCount crc
    `// not a comment`,
	@lengthOf(
    MetaDataX 
) 
float64 falsey@calculatedFrom(
	""\" ++ [233]%N ++ runes_of_ascii """

) 
`" ++ [233]%N ++ runes_of_ascii "`
,

    }
")).
Eval vm_compute in ("<<<M242>>>" ++ check (runes_of_ascii "/// triple
packet
    falsey
{ } packet Logon { @tag( // @lengthOf(
1 ) // c
body a1 ,repeat BodyLength,repeat Foo
    { match
rootA as x { [3 ]
    :
    //
    i8i8 }
    , match charz as // a // b
charz {007	: Packet , [ ""// no comment"" ] // trailing space 
:/// triple
A
    ,
    [ 10 ]
: float
,
[ ""`tick`"" , 10 ]
:
    int
,  } ,
    }
    ,// " ++ [27880; 37322]%N ++ runes_of_ascii "
repeat u8x , asx{int32 Packet
    @calculatedFrom(
// 50% %s
// a // b
""// no comment""),},
    @lengthOf( leftPad ) int8 float
//
// @lengthOf(
@calculatedFrom( ""CRC32"" ), lengthOf// packet A { u8 x, }
{ char[65535] string_ @calculatedFrom( """") // a // b
,} ,len @calculatedFrom( """ ++ [233]%N ++ runes_of_ascii "t" ++ [233]%N ++ runes_of_ascii """	),	@lengthOf( As)
char[ 1 ]
BodyLength// " ++ [27880; 37322]%N ++ runes_of_ascii "
,
    } // a // b")).
Eval vm_compute in ("<<<M78>>>" ++ check (runes_of_ascii "root packet
crc{	MetaDataX @calculatedFrom(
// " ++ [128512]%N ++ runes_of_ascii " emoji
//
""// no comment"" ), // " ++ [27880; 37322]%N ++ runes_of_ascii "
@calculatedFrom("""" )
    // trailing space 
    len metadata// @lengthOf(
,@tag( 0 )
// `tick` ""quote"" 'q'
// c
char As `doc`
,@lengthOf(// `tick` ""quote"" 'q'
crc
// c
//	t
)repeat
    leftPad
    // a // b
    { repeat chars
    u8x`// not a comment` ,
uint8x{ repeat char[
    10 ] crc,options1 ,},
// " ++ [128512]%N ++ runes_of_ascii " emoji
// trailing space 
match  leftPad
    as
Packet{ ""// no comment"": chars , [42 ,
0 ]
: a1
    // c
    ""\n"" : len // `tick` ""quote"" 'q'
,3 : // " ++ [128512]%N ++ runes_of_ascii " emoji
Header} , char[]
options1
@lengthOf( //	t
f32a ) `
` ,}
    , // a // b
}
")).
Eval vm_compute in ("<<<M59>>>" ++ check (runes_of_ascii "packet int{/// triple
lengthOf , // " ++ [27880; 37322]%N ++ runes_of_ascii "
match x_y_z
as
    trueish{  [
""it's""
, 0123456789 ] : i64_ , } , @tag( 255)
@leftPad // " ++ [27880; 37322]%N ++ runes_of_ascii "
(// packet A { u8 x, }
'0' )
options1@calculatedFrom(
""1""
    )
`
` , // @lengthOf(
@leftPad ( '\x00') // packet A { u8 x, }
len @lengthOf( rootA
    ) , i64_ packetx ,
    @tag( 42
)	int32/// triple
trueish ,
i8 options1 `two words`,  @leftPad( '0'
) char[
1
] calculatedFrom `tab	here`
,	@lengthOf(o )
    @tag(
007 // 50% %s
) u8
_x	@calculatedFrom(
    ""`tick`"") , repeatCount @lengthOf( MetaDataX)
    , /// triple
}
")).
Eval vm_compute in ("<<<M185>>>" ++ check (runes_of_ascii "packet metadata { Header// @lengthOf(
u128 ,
} packet zchar{/// triple
@tag(
4294967296 ) @lengthOf( a1 ) i8
_x `crlf
line`, @lengthOf( _x
) match
    x_y_z as
    Packet
    {0 : leftPad, 65535 : tag 00 :leftPad,  ""a\\"" : Packet ,  10 :
    o,  [ ""CRC32""
    ]
    :
    float // " ++ [128512]%N ++ runes_of_ascii " emoji
,
}
    , match stringy
as calculatedFrom {""`tick`"" :rootA  , ""`tick`"" : asx
// packet A { u8 x, }
/// triple
,3 :
u128 ,
} ,@lengthOf(
msg_type
)
@tag(
10 )// 50% %s
repeatCount@lengthOf(string_
    ) `a\` , }
")).
Eval vm_compute in ("<<<M1923>>>" ++ check (runes_of_ascii "options { LittleEndian

    =

false  ; StringPrefixLenType	=
    u16;	FixedStringPadFromLeft=  true  ;FixedStringPadChar 
= '0' ;

}  packet	Fill
	{ }root
packet Order {
	repeat
Fill, char[] clOrdID
	,
    @rightPad(  '\x00'

    ) char[

    4
    ] lastPx ,char[]

OrderId ,

int8	tag7
, 
u8

    f1
, u16 count  @lengthOf(

    Body)

    ,match
f1 as

Body {
    [  159
,	49 ]:

    Fill
	,

}

    ,u16 
Tail@calculatedFrom(

""CR\
C32"")  ,
}
")).
Eval vm_compute in ("<<<M1413>>>" ++ check (runes_of_ascii "  packet  NewOrder

{

    u32 qty, 
}
    packet 
Cancel {

u64 id ,
	}	packet
Business

    {
u8  Kind , match
	Kind	as  Detail
	{1

    :NewOrder
,

2

: Cancel  ,
    },
    } packet 
TcpFrame
    {	u8
T
,

    match	T
	as

    Body
{	1
	:

Business	, 
} ,  } packet
UdpFrame{ u8
U ,
    match	U as Body
{
	1 : 
Business
	, } ,
Business	extra,}root
	packet	Wire {

    TcpFrame

    ,UdpFrame

    ,  } ")).
Eval vm_compute in ("<<<M1712>>>" ++ check (runes_of_ascii "packet _x {
    calculatedFrom @lengthOf(roots) `it's`,
    match metadata as BodyLength {
        [
            10, 10, ""a\""b"", """", ""\n"",
            ""a\\"", 4294967296
        ] : u,
    },
    repeat i64_ Packet `{ , }`,// packet A { u8 x, }
    @tag(65535)
    char[] float `crlf
        line`,
    char[7] x @calculatedFrom(""{,}""),
    @leftPad()
    u64 stringy @calculatedFrom(""\" ++ [233]%N ++ runes_of_ascii """),
}

packet A {
}")).
Eval vm_compute in ("<<<M1715>>>" ++ check (runes_of_ascii "MetaData chars {
    char[] f32a `" ++ [28040; 24687; 31867; 22411]%N ++ runes_of_ascii "`,
    zchar[255] calculatedFrom,// @lengthOf(
    a1 metadata,
    // a // b
    u i64_ `
    `,
    A asx `100% of %d`,
}

// `tick` ""quote"" 'q'
MetaData int {
    char[] As `// not a comment`,
}

MetaData Header {
    int16 charz,
    uint64 u8x,
    string zchar,
    float64 options1 `// not a comment`,
    uint64 stringy,
}")).
Eval vm_compute in ("<<<M97>>>" ++ check (runes_of_ascii "packet o { @rightPad ( '\x00') @calculatedFrom(
    ""a\""b""
) @rightPad ( '0') char[// trailing space 
255] zchar
@calculatedFrom(
""\" ++ [233]%N ++ runes_of_ascii """ ) ,
char[
// 50% %s
//	t
10 /// triple
]
    _x  `" ++ [28040; 24687; 31867; 22411]%N ++ runes_of_ascii "`,
}	options {	}options{ Pad='0' ;} packet
i64_ { repeat string // " ++ [128512]%N ++ runes_of_ascii " emoji
zchar , @calculatedFrom( """"
)	@lengthOf( Packet
)
    f32a
// c
// " ++ [27880; 37322]%N ++ runes_of_ascii "
,}
")).
Eval vm_compute in ("<<<M1559>>>" ++ check (runes_of_ascii "  options

    {  falsey=

    42 } options	{ A
=
	0123456789
; options1 =
    ""// no comment""
o
    =  ""// no comment"" 
; 
u8x	=

    // 50% %s
  // 50% %s
	true 
;  }

root
	packet Z9_ // " ++ [128512]%N ++ runes_of_ascii " emoji
  { 
}
	root  packet o { 
@tag(65535 )	repeat
    f32
    Logon
`100% of %d` 
,

    }
")).
Eval vm_compute in ("<<<M1906>>>" ++ check (runes_of_ascii "
options	{
i8i8
    = ""\n""
Header

=	""x y""; 	 /// triple

}root

packet

    A	{
    match
charz
    as T{ 

//
	0
:  // trailing space 
  options1 // `tick` ""quote"" 'q'
  } 
,  } packet
	float  /// triple
	{ @rightPad

(

)

    repeat metadata 
`u8 x,`,  }
")).
Eval vm_compute in ("<<<M99>>>" ++ check (runes_of_ascii "packet stringy	{ //x
repeat char[ 0123456789
    // c
    ] trueish ,matchKey `100% of %d` ,
    } options { x_y_z = //x
false /// triple
;// " ++ [128512]%N ++ runes_of_ascii " emoji
Z9_ = 4294967296 chars =""packet"" // packet A { u8 x, }
; Packet
= ""it's"" ;// trailing space 
}")).
Eval vm_compute in ("<<<M447>>>" ++ check (runes_of_ascii "packet
    asx { @calculatedFrom(
""""  ) @tag( 255 )repeat
// packet A { u8 x, }
// trailing space 
int16 u8x
, ,
@tag(
    //
    007 )
    @tag( 0
    /// triple
    ) @tag( 1) u
    @lengthOf( T ),
// `tick` ""quote"" 'q'
//x
} // " ++ [128512]%N ++ runes_of_ascii " emoji")).
Eval vm_compute in ("<<<M408>>>" ++ check (runes_of_ascii "packet
    asx { @calculatedFrom(
)  """" @tag( 255 )repeat
// packet A { u8 x, }
// trailing space 
int16 u8x
,
@tag(
    //
    007 )
    @tag( 0
    /// triple
    ) @tag( 1) u
    @lengthOf( T ),
// `tick` ""quote"" 'q'
//x
} // " ++ [128512]%N ++ runes_of_ascii " emoji")).
Eval vm_compute in ("<<<M1475>>>" ++ check (runes_of_ascii "
options{
FixedStringPadChar
    =

'0'

    ; }	packet
    Q	{ 
zchar[4]  z, 
@rightPad (

    '\x00') 
char[
    3 
]
    n ,
char[ 5

    ]d,}
    root packet 
R
{ Q ,zchar[	8
]
top
	, 
repeat zchar[
2
]
zs

    ,

    }
")).
Eval vm_compute in ("<<<M387>>>" ++ check (runes_of_ascii "
    asx { @calculatedFrom(
""""  ) @tag( 255 )repeat
// packet A { u8 x, }
// trailing space 
int16 u8x
,
@tag(
    //
    007 )
    @tag( 0
    /// triple
    ) @tag( 1) u
    @lengthOf( T ),
// `tick` ""quote"" 'q'
//x
} // " ++ [128512]%N ++ runes_of_ascii " emoji")).
Eval vm_compute in ("<<<M262>>>" ++ check (runes_of_ascii "root  packet int {  match u128 as BodyLength
    { 00
    :crc //x
0123456789 : BodyLength [
10
,4294967296 ,4294967296 , 7 ] :
u128 ""a	b""
:len
,42: metadata
, 0 : Foo , }
, zchar[ 42 ] x	`say ""hi""` // c
,
}
")).
Eval vm_compute in ("<<<M1317>>>" ++ check (runes_of_ascii "// top
packet
    // c0
orderItem { // c2a
  // c2b
u8 // c3
a , }
    // c6
root
    // c7
packet // c8a
  // c8b
newOrder { // c10
orderItem ,
    // c12
u8 x // c14a
  // c14b
, // c15
} ")).
Eval vm_compute in ("<<<M602>>>" ++ check (runes_of_ascii "MetaData u
    { } MetaData o
{ float uint8x
`100% of %d` ,repeatCount repeatCount u8x, string_ leftPad
, i32
    Foo , int64 x `two words` , calculatedFrom
stringy `a\` ,
}
")).
Eval vm_compute in ("<<<M684>>>" ++ check (runes_of_ascii "MetaData u
    { } MetaData o
{ float uint8x
`100% of %d` ,repeatCount u8x, string_ leftPad
, i32
    Foo , int64 x `two words` , calculatedFrom
stringy `a\` repeat
}
")).
Eval vm_compute in ("<<<M687>>>" ++ check (runes_of_ascii "MetaData u
    { } MetaData o
{ float uint8x
`100% of %d` ,repeatCount u8x, string_ leftPad
, i32
    Foo , int64 x `two words` , calculatedFrom
stringy `a\` ,
} }
")).
Eval vm_compute in ("<<<M593>>>" ++ check (runes_of_ascii "MetaData u
    { } MetaData o
{ float uint8x
, `100% of %d`repeatCount u8x, string_ leftPad
, i32
    Foo , int64 x `two words` , calculatedFrom
stringy `a\` ,
}
")).
Eval vm_compute in ("<<<M624>>>" ++ check (runes_of_ascii "MetaData u
    { } MetaData o
{ float uint8x
`100% of %d` ,repeatCount u8x, string_ uint64
, i32
    Foo , int64 x `two words` , calculatedFrom
stringy `a\` ,
}
")).
Eval vm_compute in ("<<<M685>>>" ++ check (runes_of_ascii "MetaData u
    { } MetaData o
{ float uint8x
`100% of %d` ,repeatCount u8x, string_ leftPad
, i32
    Foo , int64 x `two words` , calculatedFrom
stringy `a\`")).
Eval vm_compute in ("<<<M211>>>" ++ check (runes_of_ascii "
MetaData float { }packet
    x
    {
// 50% %s
// a // b
float@calculatedFrom( ""\" ++ [233]%N ++ runes_of_ascii """
) , uint32 body ,} options { repeatCount
= float32 } // @lengthOf(")).
Eval vm_compute in ("<<<M225>>>" ++ check (runes_of_ascii "options {  i8i8= uint8 pack =false T  = false ; msg_type
// `tick` ""quote"" 'q'
// c
= 0 falsey = char[ 42 ]// trailing space 
; }
// " ++ [128512]%N ++ runes_of_ascii " emoji
")).
Eval vm_compute in ("<<<M1841>>>" ++ check (runes_of_ascii "packet A {
    match k as n {
        [
            ""a"", 22, ""c c"", 4, ""e"",
            66, ""g""
        ] : B,
        2 : C,
    },
}")).
Eval vm_compute in ("<<<M1922>>>" ++ check (runes_of_ascii "

  options
{ charz
    =
	""a\\"" 
    // trailing space 
    rootA
= 
""packet"" ;	x
	=

""a	b""
	;
    // " ++ [27880; 37322]%N ++ runes_of_ascii "
	rootA = string	}
")).
Eval vm_compute in ("<<<M1720>>>" ++ check (runes_of_ascii "
packet	A  {match
    k

as	n

    {

[
    ""a"" ,22 ,""c c""
	,
    4 , ""e""  , 66

,  ""g""

    ] : B
2:	C }

,

}")).
Eval vm_compute in ("<<<M1220>>>" ++ check (runes_of_ascii "options { } options { MetaDataX = char ;
// c
} MetaData Pad { i8 metadata , string stringy , int8 As `{ , }` , }")).
Eval vm_compute in ("<<<M362>>>" ++ check (runes_of_ascii "options { }
options {
    _x=
    ""`tick`""; matchKey
=""it's"" ; options1= u16; stringy =	true }packet x_y_z{ }

")).
Eval vm_compute in ("<<<M1290>>>" ++ check (runes_of_ascii "options {
    LittleEndian = true;
}
root packet P {
    u16 a,
    u32 Sum @calculatedFrom(""CR\
C32""),
}
")).
Eval vm_compute in ("<<<M1328>>>" ++ check (runes_of_ascii "packet FooBar {
    u8 a,
}
packet foo_bar {
    u16 b,
}
root packet R {
    FooBar,
    foo_bar,
}
")).
Eval vm_compute in ("<<<M1626>>>" ++ check (runes_of_ascii "
packet A{
	Inner

    {	match 
k	as

n {
	[
	1

    ,
    22
,	007

,4 ] : B
, 
} ,

} ,}

")).
Eval vm_compute in ("<<<M140>>>" ++ check (runes_of_ascii "packet f32a
{
    @tag( 007	)
    // " ++ [27880; 37322]%N ++ runes_of_ascii "
    i8i8
Logon , }  options {} packet
stringy {} //")).
Eval vm_compute in ("<<<M1531>>>" ++ check (runes_of_ascii "
// `tick` ""quote"" 'q'
  options 
{ stringy 
=
	""\" ++ [233]%N ++ runes_of_ascii """float =  """ ++ [233]%N ++ runes_of_ascii "t" ++ [233]%N ++ runes_of_ascii """
trueish

= u8
    } ")).
Eval vm_compute in ("<<<M1313>>>" ++ check (runes_of_ascii "packet order_item {
    u8 a,
}
root packet new_order {
    order_item,
    u8 x,
}
")).
Eval vm_compute in ("<<<M829>>>" ++ check (runes_of_ascii "packet A {
  match k as n {
    [1, ""bb"", 007, ""d"", 5, ""f""] : B
    2 : C
  },
}")).
Eval vm_compute in ("<<<M1791>>>" ++ check (runes_of_ascii "packet A {
    match k as n {
        [""a"", 22] : B,
        2 : C,
    },
}")).
Eval vm_compute in ("<<<M1570>>>" ++ check (runes_of_ascii "

  root

    packet

P {
    repeat

char
cs
,
    u8

    x ,
}")).
Eval vm_compute in ("<<<M799>>>" ++ check (runes_of_ascii "packet A {
  match k as n {
    [1, 22, 007, 4] : B
    2 : C
  },
}")).
Eval vm_compute in ("<<<M1268>>>" ++ check (runes_of_ascii "root packet
    P

{

    hdr  {

u8 a
	, }
,  u8

x
    ,}
")).
Eval vm_compute in ("<<<M440>>>" ++ check (runes_of_ascii "packet
    asx { @calculatedFrom(
""""  ) @tag( 255 )repeat")).
Eval vm_compute in ("<<<M1112>>>" ++ check (runes_of_ascii "packet A { repeat // a
 B // b
 b // c
 `d` // e
 , }")).
Eval vm_compute in ("<<<M1861>>>" ++ check (runes_of_ascii "packet  A{

repeat f64
A
	,
}  // @lengthOf(
")).
Eval vm_compute in ("<<<M1563>>>" ++ check (runes_of_ascii "  packet
A	{
u8
x `d" ++ [133]%N ++ runes_of_ascii "`

    ,// c" ++ [133]%N ++ runes_of_ascii "

	}")).
Eval vm_compute in ("<<<M1297>>>" ++ check (runes_of_ascii "  root 
packet 
P 
{
	string
	s,  }

")).
Eval vm_compute in ("<<<M1111>>>" ++ check (runes_of_ascii "root // a
 packet // b
 A // c
 { }")).
Eval vm_compute in ("<<<M1405>>>" ++ check (runes_of_ascii "packet A {
    repeat B b `d`,
}")).
Eval vm_compute in ("<<<M1052>>>" ++ check (runes_of_ascii "packet A {
 u8 x `d" ++ [11]%N ++ runes_of_ascii "`, // c" ++ [11]%N ++ runes_of_ascii "
}")).
Eval vm_compute in ("<<<M213>>>" ++ check (runes_of_ascii "  MetaData Packet
    { }
")).
Eval vm_compute in ("<<<M1147>>>" ++ check (runes_of_ascii "root packet a1 // c
{ }")).
Eval vm_compute in ("<<<M1427>>>" ++ check (runes_of_ascii "
packet
A{ 
}// c x
")).
Eval vm_compute in ("<<<M1055>>>" ++ check (runes_of_ascii "packet A {
}
// c" ++ [12]%N)).
Eval vm_compute in ("<<<M1063>>>" ++ check (runes_of_ascii "packet A {
}// c" ++ [8203]%N)).
Eval vm_compute in ("<<<M1627>>>" ++ check (runes_of_ascii "// @lengthOf(")).
Eval vm_compute in ("<<<M1034>>>" ++ check (runes_of_ascii "// c" ++ [8233]%N)).
