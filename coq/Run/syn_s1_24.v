From FP Require Import Lexer Parser ShowPT Digest.
From Coq Require Import String List NArith.
Import ListNotations.
Open Scope string_scope.
Set Printing Width 100000000.
Set Printing Depth 100000000.
Definition nl : string := String (Ascii.ascii_of_nat 10) EmptyString.
Definition model_lex (rs : list rune) : string := show_toks (lex rs).
Definition model_parse (rs : list rune) : string :=
  show_pt (match lex rs with Some ts => parse ts | None => None end).
(* coqc is slow at printing long strings: digests first (Digest.v), full texts on demand *)
Definition check (rs : list rune) : string :=
  digest (model_lex rs) ++ " " ++ digest (model_parse rs).
Definition full (rs : list rune) : string := model_lex rs ++ nl ++ model_parse rs.
Definition terms (ts : list tok) (t : pt) : string :=
  digest (show_toks (Some ts)) ++ " " ++ digest (show_pt (Some t)) ++ " " ++ digest (show_pt (parse ts)).
Definition terms_full (ts : list tok) (t : pt) : string :=
  show_toks (Some ts) ++ nl ++ show_pt (Some t) ++ nl ++ show_pt (parse ts).
Eval vm_compute in ("<<<M24>>>" ++ check (runes_of_ascii "packet // " ++ [27880; 37322]%N ++ runes_of_ascii "
BodyLength { f64	body@lengthOf( o ), }
")).
Eval vm_compute in ("<<<M56>>>" ++ check (runes_of_ascii "packet MetaDataX {i8
u128
    @lengthOf( Z9_
)  `line1
line2`  ,@calculatedFrom(
""1"") match Foo as body
    {
42 :
lengthOf ,
""`tick`"" : trueish, }, @tag(10 ) @leftPad ( ) char[] T
    @lengthOf(
body )	`" ++ [28040; 24687; 31867; 22411]%N ++ runes_of_ascii "`,
zchar[ 0123456789 ]matchKey `{ , }`
,
    }options {
    u8x
= true ; zchar=int32 ; o
    =
""a\\""
; body
=false; } root
    packet
//	t
// a // b
rootA
    { @tag(
    3) @tag(4294967296
)@lengthOf( // @lengthOf(
f32a) _x
    Foo `say ""hi""` , } packet Foo
    // trailing space 
    {@tag( 7 ) @lengthOf( u128
)u16 u128@calculatedFrom(	""a\""b""
) // " ++ [128512]%N ++ runes_of_ascii " emoji
`u8 x,`
,
    //x
    @lengthOf(
    Pad ) @lengthOf(
    f32a )
@calculatedFrom( """ ++ [28040; 24687]%N ++ runes_of_ascii """ )
uint16 a1	, @leftPad
(' ' )
A
    {	int64
Pad
`crlf
line` , uint64 Z9_ @calculatedFrom(""a	b"")
,
    // a // b
    repeat options1
,
char[// " ++ [128512]%N ++ runes_of_ascii " emoji
4294967296 ]falsey , } ,
zchar[
    65535 ]
chars	``,
    @calculatedFrom(
    """"
// " ++ [27880; 37322]%N ++ runes_of_ascii "
// " ++ [27880; 37322]%N ++ runes_of_ascii "
)
    @calculatedFrom( ""1""
) uint8 a1
,//x
}
")).
Eval vm_compute in ("<<<M88>>>" ++ check (runes_of_ascii "MetaData uint8x { }
")).
Eval vm_compute in ("<<<M120>>>" ++ check (runes_of_ascii "packet crc{
    } packet pack {repeat _x Foo // `tick` ""quote"" 'q'
,@lengthOf( string_
    )
    @rightPad ( ) @calculatedFrom( ""\n"")
charz  { char[ 42 ]
a1 , //x
repeat T // `tick` ""quote"" 'q'
{ repeat zchar[ 3
    ] T , } , match  i64_  as	trueish { ""`tick`""
:
/// triple
// packet A { u8 x, }
trueish , [""" ++ [233]%N ++ runes_of_ascii "t" ++ [233]%N ++ runes_of_ascii """, 0123456789] : Foo
,
    """"
    :
    x_y_z [ ""\" ++ [233]%N ++ runes_of_ascii """ // trailing space 
, 3
, ""a	b"" , ""\" ++ [233]%N ++ runes_of_ascii """
    ,
""x y""
    , ""1"" , ""a	b""
, ""CRC32"" ] : asx [
    255 ] : leftPad  ,
42 :
    u8x
, }
    , } ,
    o ,}
")).
Eval vm_compute in ("<<<M152>>>" ++ check (runes_of_ascii "root packet  i64_ { uint8x
`tab	here` ,  }
MetaData// " ++ [27880; 37322]%N ++ runes_of_ascii "
zchar{ falsey lengthOf  ,
// a // b
// @lengthOf(
i64 asx
`a\` , } packet
    _x{ @tag(
    // " ++ [27880; 37322]%N ++ runes_of_ascii "
    007 )repeat
f64 string_ `" ++ [28040; 24687; 31867; 22411]%N ++ runes_of_ascii "` ,
int64 charz,
    // trailing space 
    match a1  as Pad {
    7:trueish, 0 : i64_
, 65535: calculatedFrom
,
1
: chars
,  4294967296: u
,
    42:f32a , } // trailing space 
,	i32 string_@calculatedFrom( """ ++ [28040; 24687]%N ++ runes_of_ascii """ ) ,
    @lengthOf( matchKey ) repeat asx trueish , string
zchar
, uint16
    Z9_
, }  MetaData len /// triple
{T// 50% %s
stringy // " ++ [27880; 37322]%N ++ runes_of_ascii "
`100% of %d`
    , As string_ ,Header MetaDataX,  stringy x // packet A { u8 x, }
, int chars ,
} packet pack {  @lengthOf(
    T
    ) @leftPad
    ( ) A @lengthOf(
    roots)
    `doc` ,  @lengthOf( body
    )
repeat
    zchar { char[ 42 ] o,
match uint8x as MetaDataX
{ 7
    :
// 50% %s
//x
chars , 4294967296 : Pad ,[ 42 , 007
    ] : u128} ,// @lengthOf(
uint16 charz ,// a // b
},
@leftPad(
// a // b
// packet A { u8 x, }
'0') repeat A , Logon@lengthOf(Packet) `say ""hi""` , trueish { chars @lengthOf(A ) ,
repeat u64 chars	,  leftPad@calculatedFrom(""`tick`""// c
) , asx , } , char[ 65535
    ] falsey `a\` // `tick` ""quote"" 'q'
,
    @rightPad (
'0'
    )	int
    { crc @lengthOf(
crc ) `say ""hi""` ,
options1 // packet A { u8 x, }
packetx `" ++ [233]%N ++ runes_of_ascii "`,} , @rightPad( ' ') falsey
    // 50% %s
    @lengthOf(BodyLength ) ,}")).
Eval vm_compute in ("<<<M184>>>" ++ check (runes_of_ascii "packet Pad {	repeat uint8x { char[]
Z9_, }
    , repeat zchar[	10
    ] i8i8,
    x, repeat
    string_
    { // @lengthOf(
repeat asx Foo ,int16	i8i8 ,  char[]matchKey, match
calculatedFrom
as roots { 3//
:x_y_z , }
, } , @lengthOf( x // packet A { u8 x, }
)
repeat // trailing space 
o`a\` , char[] /// triple
string_
    `{ , }` ,} options{ f32a
=false A= false } packet u128{
@calculatedFrom( """ ++ [128512]%N ++ runes_of_ascii """ ) string a1,@tag( 00 )
char[
10
]  A
`" ++ [233]%N ++ runes_of_ascii "`,char[65535 ] len , @tag(	00 ) @rightPad ( '\x00' )@calculatedFrom( ""1"" )
zchar[ 7
] // trailing space 
body ,
    @calculatedFrom( ""{,}"") i64_ { repeat
    // a // b
    uint8x tag	`u8 x,` ,
}, string_ A  , @calculatedFrom( ""x y"" )  @tag( 42 )
i16 pack // a // b
,	@rightPad (
)A{ Z9_
,  }
// packet A { u8 x, }
// @lengthOf(
,
tag
BodyLength ,
    }")).
Eval vm_compute in ("<<<M216>>>" ++ check (runes_of_ascii "  packet
asx { float @calculatedFrom( ""a\""b"" ) // packet A { u8 x, }
,
Pad msg_type ,
@calculatedFrom(
    ""CRC32"" // " ++ [128512]%N ++ runes_of_ascii " emoji
) match chars	as //
Foo
    { ""1"" :	x_y_z , ""1""
:	o , 4294967296  : tag 7
:
trueish  ,
""" ++ [28040; 24687]%N ++ runes_of_ascii """ // " ++ [27880; 37322]%N ++ runes_of_ascii "
:
Header },}MetaData trueish { u msg_type
,	zchar[
// 50% %s
// 50% %s
00 ] crc , f32
    A `` ,
    //	t
    uint32 options1 , char[]
    zchar `
`	, // packet A { u8 x, }
}")).
Eval vm_compute in ("<<<T216>>>" ++ terms [mkTok 35 "packet" 1 2 false; mkTok 42 "asx" 2 0 false; mkTok 2 "{" 2 4 false; mkTok 42 "float" 2 6 false; mkTok 5 "@calculatedFrom(" 2 12 false; mkTok 31 """a\""b""" 2 29 false; mkTok 6 ")" 2 36 false; mkTok 44 "// packet A { u8 x, }" 2 38 true; mkTok 40 "," 3 0 false; mkTok 42 "Pad" 4 0 false; mkTok 42 "msg_type" 4 4 false; mkTok 40 "," 4 13 false; mkTok 5 "@calculatedFrom(" 5 0 false; mkTok 31 """CRC32""" 6 4 false; mkTok 44 (string_of_bytes [47; 47; 32; 240; 159; 152; 128; 32; 101; 109; 111; 106; 105]%N) 6 12 true; mkTok 6 ")" 7 0 false; mkTok 38 "match" 7 2 false; mkTok 42 "chars" 7 8 false; mkTok 17 "as" 7 14 false; mkTok 44 "//" 7 17 true; mkTok 42 "Foo" 8 0 false; mkTok 2 "{" 9 4 false; mkTok 31 """1""" 9 6 false; mkTok 39 ":" 9 10 false; mkTok 42 "x_y_z" 9 12 false; mkTok 40 "," 9 18 false; mkTok 31 """1""" 9 20 false; mkTok 39 ":" 10 0 false; mkTok 42 "o" 10 2 false; mkTok 40 "," 10 4 false; mkTok 30 "4294967296" 10 6 false; mkTok 39 ":" 10 18 false; mkTok 42 "tag" 10 20 false; mkTok 30 "7" 10 24 false; mkTok 39 ":" 11 0 false; mkTok 42 "trueish" 12 0 false; mkTok 40 "," 12 9 false; mkTok 31 (string_of_bytes [34; 230; 182; 136; 230; 129; 175; 34]%N) 13 0 false; mkTok 44 (string_of_bytes [47; 47; 32; 230; 179; 168; 233; 135; 138]%N) 13 5 true; mkTok 39 ":" 14 0 false; mkTok 42 "Header" 15 0 false; mkTok 3 "}" 15 7 false; mkTok 40 "," 15 8 false; mkTok 3 "}" 15 9 false; mkTok 37 "MetaData" 15 10 false; mkTok 42 "trueish" 15 19 false; mkTok 2 "{" 15 27 false; mkTok 42 "u" 15 29 false; mkTok 42 "msg_type" 15 31 false; mkTok 40 "," 16 0 false; mkTok 14 "zchar[" 16 2 false; mkTok 44 "// 50% %s" 17 0 true; mkTok 44 "// 50% %s" 18 0 true; mkTok 30 "00" 19 0 false; mkTok 13 "]" 19 3 false; mkTok 42 "crc" 19 5 false; mkTok 40 "," 19 9 false; mkTok 28 "f32" 19 11 false; mkTok 42 "A" 20 4 false; mkTok 43 "``" 20 6 false; mkTok 40 "," 20 9 false; mkTok 44 (string_of_bytes [47; 47; 9; 116]%N) 21 4 true; mkTok 22 "uint32" 22 4 false; mkTok 42 "options1" 22 11 false; mkTok 40 "," 22 20 false; mkTok 16 "char[]" 22 22 false; mkTok 42 "zchar" 23 4 false; mkTok 43 (string_of_bytes [96; 10; 96]%N) 23 10 false; mkTok 40 "," 24 2 false; mkTok 44 "// packet A { u8 x, }" 24 4 true; mkTok 3 "}" 25 0 false; mkTok 0 "<EOF>" 25 1 false] (mkPacket (mkPtok 35 "packet" 1 2 0) (Some (mkPtok 3 "}" 25 0 70)) [(DPacket (mkPacketDef (mkSpan (mkPtok 35 "packet" 1 2 0) (mkPtok 3 "}" 15 9 43)) None (mkPtok 35 "packet" 1 2 0) (mkPtok 42 "asx" 2 0 1) (mkPtok 2 "{" 2 4 2) [(mkFieldWithAttr (mkSpan (mkPtok 42 "float" 2 6 3) (mkPtok 40 "," 3 0 8)) [] (CheckSumField (mkSpan (mkPtok 42 "float" 2 6 3) (mkPtok 40 "," 3 0 8)) (mkChecksumFieldDecl (mkSpan (mkPtok 42 "float" 2 6 3) (mkPtok 40 "," 3 0 8)) None (mkPtok 42 "float" 2 6 3) (mkCalculatedFrom (mkSpan (mkPtok 5 "@calculatedFrom(" 2 12 4) (mkPtok 6 ")" 2 36 6)) (mkPtok 5 "@calculatedFrom(" 2 12 4) (mkPtok 31 """a\""b""" 2 29 5) (mkPtok 6 ")" 2 36 6)) None (mkPtok 40 "," 3 0 8)))); (mkFieldWithAttr (mkSpan (mkPtok 42 "Pad" 4 0 9) (mkPtok 40 "," 4 13 11)) [] (ObjectField (mkSpan (mkPtok 42 "Pad" 4 0 9) (mkPtok 40 "," 4 13 11)) None (mkPtok 42 "Pad" 4 0 9) (Some (mkPtok 42 "msg_type" 4 4 10)) None (mkPtok 40 "," 4 13 11))); (mkFieldWithAttr (mkSpan (mkPtok 5 "@calculatedFrom(" 5 0 12) (mkPtok 40 "," 15 8 42)) [(FACalculatedFrom (mkSpan (mkPtok 5 "@calculatedFrom(" 5 0 12) (mkPtok 6 ")" 7 0 15)) (mkCalculatedFrom (mkSpan (mkPtok 5 "@calculatedFrom(" 5 0 12) (mkPtok 6 ")" 7 0 15)) (mkPtok 5 "@calculatedFrom(" 5 0 12) (mkPtok 31 """CRC32""" 6 4 13) (mkPtok 6 ")" 7 0 15)))] (MatchField (mkSpan (mkPtok 38 "match" 7 2 16) (mkPtok 40 "," 15 8 42)) (mkMatchFieldDecl (mkSpan (mkPtok 38 "match" 7 2 16) (mkPtok 3 "}" 15 7 41)) (mkPtok 38 "match" 7 2 16) (mkPtok 42 "chars" 7 8 17) (mkPtok 17 "as" 7 14 18) (mkPtok 42 "Foo" 8 0 20) (mkPtok 2 "{" 9 4 21) [(mkMatchPair (mkSpan (mkPtok 31 """1""" 9 6 22) (mkPtok 40 "," 9 18 25)) (MKString (mkPtok 31 """1""" 9 6 22)) (mkPtok 39 ":" 9 10 23) (mkPtok 42 "x_y_z" 9 12 24) (Some (mkPtok 40 "," 9 18 25))); (mkMatchPair (mkSpan (mkPtok 31 """1""" 9 20 26) (mkPtok 40 "," 10 4 29)) (MKString (mkPtok 31 """1""" 9 20 26)) (mkPtok 39 ":" 10 0 27) (mkPtok 42 "o" 10 2 28) (Some (mkPtok 40 "," 10 4 29))); (mkMatchPair (mkSpan (mkPtok 30 "4294967296" 10 6 30) (mkPtok 42 "tag" 10 20 32)) (MKDigits (mkPtok 30 "4294967296" 10 6 30)) (mkPtok 39 ":" 10 18 31) (mkPtok 42 "tag" 10 20 32) None); (mkMatchPair (mkSpan (mkPtok 30 "7" 10 24 33) (mkPtok 40 "," 12 9 36)) (MKDigits (mkPtok 30 "7" 10 24 33)) (mkPtok 39 ":" 11 0 34) (mkPtok 42 "trueish" 12 0 35) (Some (mkPtok 40 "," 12 9 36))); (mkMatchPair (mkSpan (mkPtok 31 (string_of_bytes [34; 230; 182; 136; 230; 129; 175; 34]%N) 13 0 37) (mkPtok 42 "Header" 15 0 40)) (MKString (mkPtok 31 (string_of_bytes [34; 230; 182; 136; 230; 129; 175; 34]%N) 13 0 37)) (mkPtok 39 ":" 14 0 39) (mkPtok 42 "Header" 15 0 40) None)] (mkPtok 3 "}" 15 7 41)) (mkPtok 40 "," 15 8 42)))] (mkPtok 3 "}" 15 9 43))); (DMeta (mkMetaDef (mkSpan (mkPtok 37 "MetaData" 15 10 44) (mkPtok 3 "}" 25 0 70)) (mkPtok 37 "MetaData" 15 10 44) (mkPtok 42 "trueish" 15 19 45) (mkPtok 2 "{" 15 27 46) [(MIRef (mkRefMetaDecl (mkSpan (mkPtok 42 "u" 15 29 47) (mkPtok 40 "," 16 0 49)) (mkPtok 42 "u" 15 29 47) (mkPtok 42 "msg_type" 15 31 48) None (mkPtok 40 "," 16 0 49))); (MIDecl (mkMetaDecl (mkSpan (mkPtok 14 "zchar[" 16 2 50) (mkPtok 40 "," 19 9 56)) (TyFixed (mkSpan (mkPtok 14 "zchar[" 16 2 50) (mkPtok 13 "]" 19 3 54)) (mkFixedString (mkSpan (mkPtok 14 "zchar[" 16 2 50) (mkPtok 13 "]" 19 3 54)) (mkPtok 14 "zchar[" 16 2 50) (mkPtok 30 "00" 19 0 53) (mkPtok 13 "]" 19 3 54))) (mkPtok 42 "crc" 19 5 55) None (mkPtok 40 "," 19 9 56))); (MIDecl (mkMetaDecl (mkSpan (mkPtok 28 "f32" 19 11 57) (mkPtok 40 "," 20 9 60)) (TyBasic (mkSpan (mkPtok 28 "f32" 19 11 57) (mkPtok 28 "f32" 19 11 57)) (mkBasicType (mkSpan (mkPtok 28 "f32" 19 11 57) (mkPtok 28 "f32" 19 11 57)) (mkPtok 28 "f32" 19 11 57))) (mkPtok 42 "A" 20 4 58) (Some (mkPtok 43 "``" 20 6 59)) (mkPtok 40 "," 20 9 60))); (MIDecl (mkMetaDecl (mkSpan (mkPtok 22 "uint32" 22 4 62) (mkPtok 40 "," 22 20 64)) (TyBasic (mkSpan (mkPtok 22 "uint32" 22 4 62) (mkPtok 22 "uint32" 22 4 62)) (mkBasicType (mkSpan (mkPtok 22 "uint32" 22 4 62) (mkPtok 22 "uint32" 22 4 62)) (mkPtok 22 "uint32" 22 4 62))) (mkPtok 42 "options1" 22 11 63) None (mkPtok 40 "," 22 20 64))); (MIDecl (mkMetaDecl (mkSpan (mkPtok 16 "char[]" 22 22 65) (mkPtok 40 "," 24 2 68)) (TyDynamic (mkSpan (mkPtok 16 "char[]" 22 22 65) (mkPtok 16 "char[]" 22 22 65)) (mkDynamicString (mkSpan (mkPtok 16 "char[]" 22 22 65) (mkPtok 16 "char[]" 22 22 65)) (mkPtok 16 "char[]" 22 22 65))) (mkPtok 42 "zchar" 23 4 66) (Some (mkPtok 43 (string_of_bytes [96; 10; 96]%N) 23 10 67)) (mkPtok 40 "," 24 2 68)))] (mkPtok 3 "}" 25 0 70)))])).
Eval vm_compute in ("<<<M248>>>" ++ check (runes_of_ascii "root packet charz
    {
o A , } root packet charz
{char[] repeatCount  @lengthOf(  tag )	`line1
line2` , repeat pack`two words`
,	T { // packet A { u8 x, }
string rootA @calculatedFrom( ""{,}"" ) ,}, repeat
// " ++ [27880; 37322]%N ++ runes_of_ascii "
// " ++ [128512]%N ++ runes_of_ascii " emoji
As Foo ,
// packet A { u8 x, }
// c
char[
    3 ]trueish , @calculatedFrom( """"  ) @lengthOf( metadata )
@leftPad (
    '0' )  repeat u64 float`u8 x,`
, stringy{ metadata {//x
u8 f32a
// c
// " ++ [27880; 37322]%N ++ runes_of_ascii "
`" ++ [28040; 24687; 31867; 22411]%N ++ runes_of_ascii "`, repeat char[
    /// triple
    007
    ] f32a`two words`,  } , asx , float64
i8i8
    ,
//x
// packet A { u8 x, }
} , match lengthOf
as zchar {	00 // c
:
o
,
}, }options // packet A { u8 x, }
{
tag
    =65535;
/// triple
// 50% %s
float = 0}	packet T {
repeat
    // 50% %s
    x_y_z o
`it's` ,A { Pad@calculatedFrom(	""\n"" ),	zchar[00
    ]i64_
@lengthOf( Z9_ )
`u8 x,` ,
u64 u8x
@calculatedFrom(
    // trailing space 
    ""it's"" )
, }
, match
Header as f32a { [
    1
    , // " ++ [27880; 37322]%N ++ runes_of_ascii "
0123456789  ] : int } , // packet A { u8 x, }
char[]
    roots @calculatedFrom("""" )`say ""hi""` ,
    @leftPad ( ) a1 chars , }
//	t
")).
Eval vm_compute in ("<<<M280>>>" ++ check (runes_of_ascii "// trailing space 
root packet
    matchKey {u128 // c
, uint8 x
@calculatedFrom( """ ++ [233]%N ++ runes_of_ascii "t" ++ [233]%N ++ runes_of_ascii """ // " ++ [27880; 37322]%N ++ runes_of_ascii "
)
,
i64
    f32a @calculatedFrom(
    """ ++ [28040; 24687]%N ++ runes_of_ascii """
)
`crlf
line`  ,}
    MetaData
    zchar // packet A { u8 x, }
{ // a // b
char[4294967296 ]
// " ++ [27880; 37322]%N ++ runes_of_ascii "
/// triple
string_ , x
i8i8
    , char[ 7 ]// " ++ [27880; 37322]%N ++ runes_of_ascii "
Z9_
    `tab	here`, }
    // trailing space 
    root packet
o{@leftPad
    ('\x00'
)
//x
// 50% %s
@tag( 10 ) @tag(
    10) string // " ++ [128512]%N ++ runes_of_ascii " emoji
u`doc` ,
    @leftPad( )char[65535
// trailing space 
// packet A { u8 x, }
]
    //	t
    body ,
/// triple
// 50% %s
repeat pack  {rootA ``,//	t
repeat body // packet A { u8 x, }
, string Packet// trailing space 
, }
    , @lengthOf( stringy )
    // trailing space 
    repeat _x { BodyLength// trailing space 
{
    repeatCount
// c
/// triple
{zchar[65535 ] As
,
// @lengthOf(
// c
options1  ,
float32
    len, zchar[7
// packet A { u8 x, }
// c
]
rootA
`u8 x,` // `tick` ""quote"" 'q'
,
}, i64  falsey @lengthOf(uint8x ) ,
char[
    00 ]
crc
,
}  , } , tag
@calculatedFrom(
""// no comment""
)	`100% of %d`, }
packet
Pad { f32
    Logon`
`, body
    @lengthOf(
u8x)
    `" ++ [28040; 24687; 31867; 22411]%N ++ runes_of_ascii "` , @lengthOf( Z9_// " ++ [128512]%N ++ runes_of_ascii " emoji
) packetx @calculatedFrom( """ ++ [28040; 24687]%N ++ runes_of_ascii """
)  ,x
{ zchar[
    3 ]
    body
,Header
@calculatedFrom(""a	b""), char[]	u128 `it's` // @lengthOf(
, i8 metadata ,}
    , match i64_ as string_ { [ 3 ,
255 // c
,
    007
    , ""packet""
    ,65535
// @lengthOf(
// 50% %s
,""// no comment"",
""a	b"" ,// packet A { u8 x, }
007] // trailing space 
:options1 4294967296
    // " ++ [27880; 37322]%N ++ runes_of_ascii "
    : len,
""CRC32""	:pack
""" ++ [28040; 24687]%N ++ runes_of_ascii """
    : options1
    , [0 // `tick` ""quote"" 'q'
]
    // `tick` ""quote"" 'q'
    : Header ,[ 00 ]
    : As // trailing space 
, }
,@lengthOf(
    // c
    tag ) metadata @calculatedFrom(
""CRC32"" )
    ,//	t
@tag( // packet A { u8 x, }
3)repeat //x
string pack , Pad ,@rightPad ( )  tag { leftPad @calculatedFrom(  """ ++ [233]%N ++ runes_of_ascii "t" ++ [233]%N ++ runes_of_ascii """	),
string chars ,
    char[
4294967296 ]
i64_
`" ++ [233]%N ++ runes_of_ascii "` , repeat charz
zchar,  }
    ,} options { pack
=""abc"" ;pack = i8// packet A { u8 x, }
; }")).
Eval vm_compute in ("<<<M312>>>" ++ check (runes_of_ascii "options	{ zchar//
=
false  i64_= ' ' ; x = //
true ; Z9_	= zchar[
10 ] ;msg_type = i64 }  root packet
// `tick` ""quote"" 'q'
// @lengthOf(
lengthOf { repeat zchar[ 007]  A /// triple
,
// `tick` ""quote"" 'q'
// `tick` ""quote"" 'q'
} options {
options1 =
0123456789}
")).
Eval vm_compute in ("<<<M344>>>" ++ check (runes_of_ascii "
packet charz { i64 MetaDataX `doc` // " ++ [27880; 37322]%N ++ runes_of_ascii "
, } options
{lengthOf = ' ' ; A = 3}// @lengthOf(
packet packetx { @lengthOf( Z9_) string
    // c
    x ,	} packet msg_type { }
//	t
//
packet As {
//	t
// packet A { u8 x, }
repeat Pad
{ f64
    o@calculatedFrom(
    ""a	b"" ),},}
")).
Eval vm_compute in ("<<<M376>>>" ++ check (runes_of_ascii "options { asx
= true //
Header = char[4294967296
    ]
;pack
    // " ++ [128512]%N ++ runes_of_ascii " emoji
    =//x
1;
    x_y_z =
42 ;
//
// " ++ [128512]%N ++ runes_of_ascii " emoji
Z9_
    =
    zchar[ 7 ] }
")).
Eval vm_compute in ("<<<M408>>>" ++ check (runes_of_ascii "
packet u // " ++ [27880; 37322]%N ++ runes_of_ascii "
{ @calculatedFrom( """ ++ [28040; 24687]%N ++ runes_of_ascii """) repeat leftPad
{
// `tick` ""quote"" 'q'
//x
zchar[
    7]
    u
    ,	}
    , @calculatedFrom( ""\n"" )
    @lengthOf(  matchKey
    // a // b
    )
    BodyLength
    @lengthOf(calculatedFrom
    /// triple
    ) `say ""hi""`, len
roots`it's` , match string_ as
    Z9_  {
""abc"" //x
: repeatCount // packet A { u8 x, }
,
//
// c
""abc"" :
lengthOf  7:
Packet , ""a\""b""  :
    falsey
0123456789 :
// " ++ [128512]%N ++ runes_of_ascii " emoji
//x
_x , ""\" ++ [233]%N ++ runes_of_ascii """:
    f32a	} , } MetaData u { // 50% %s
int//	t
uint8x `" ++ [233]%N ++ runes_of_ascii "`	, char[ 1
] roots, char[] _x `it's` ,	BodyLength
trueish `say ""hi""`
    ,}")).
Eval vm_compute in ("<<<M440>>>" ++ check (runes_of_ascii "
root packet leftPad {
    repeat
    uint8x	options1 // " ++ [27880; 37322]%N ++ runes_of_ascii "
, }

")).
Eval vm_compute in ("<<<T440>>>" ++ terms [mkTok 34 "root" 2 0 false; mkTok 35 "packet" 2 5 false; mkTok 42 "leftPad" 2 12 false; mkTok 2 "{" 2 20 false; mkTok 36 "repeat" 3 4 false; mkTok 42 "uint8x" 4 4 false; mkTok 42 "options1" 4 11 false; mkTok 44 (string_of_bytes [47; 47; 32; 230; 179; 168; 233; 135; 138]%N) 4 20 true; mkTok 40 "," 5 0 false; mkTok 3 "}" 5 2 false; mkTok 0 "<EOF>" 7 0 false] (mkPacket (mkPtok 34 "root" 2 0 0) (Some (mkPtok 3 "}" 5 2 9)) [(DPacket (mkPacketDef (mkSpan (mkPtok 34 "root" 2 0 0) (mkPtok 3 "}" 5 2 9)) (Some (mkPtok 34 "root" 2 0 0)) (mkPtok 35 "packet" 2 5 1) (mkPtok 42 "leftPad" 2 12 2) (mkPtok 2 "{" 2 20 3) [(mkFieldWithAttr (mkSpan (mkPtok 36 "repeat" 3 4 4) (mkPtok 40 "," 5 0 8)) [] (ObjectField (mkSpan (mkPtok 36 "repeat" 3 4 4) (mkPtok 40 "," 5 0 8)) (Some (mkPtok 36 "repeat" 3 4 4)) (mkPtok 42 "uint8x" 4 4 5) (Some (mkPtok 42 "options1" 4 11 6)) None (mkPtok 40 "," 5 0 8)))] (mkPtok 3 "}" 5 2 9)))])).
Eval vm_compute in ("<<<M472>>>" ++ check (runes_of_ascii "
MetaData As // a // b
{zchar[4294967296
] T/// triple
`doc`
    ,
int64 trueish
    ,
    // a // b
    i8 calculatedFrom	`
`, }
packet packetx{ i64 crc
    , }")).
Eval vm_compute in ("<<<M504>>>" ++ check (runes_of_ascii "packet pack	{ i32
    _x `" ++ [28040; 24687; 31867; 22411]%N ++ runes_of_ascii "` , u8x {
    //
    i8 a1 ,}
    , @calculatedFrom( ""a\""b""
)
    @tag(255
    // @lengthOf(
    )@calculatedFrom(	""" ++ [28040; 24687]%N ++ runes_of_ascii """
// " ++ [128512]%N ++ runes_of_ascii " emoji
// c
) i32 Logon  ,} options { metadata =	""" ++ [28040; 24687]%N ++ runes_of_ascii """} /// triple")).
Eval vm_compute in ("<<<M536>>>" ++ check (runes_of_ascii "MetaData tag{
f64
// 50% %s
// `tick` ""quote"" 'q'
chars `" ++ [233]%N ++ runes_of_ascii "` ,
    }
packet string_
{ @calculatedFrom(
    """" )char[ 7 // @lengthOf(
]metadata// @lengthOf(
@lengthOf(// a // b
o) , string_ ,
    charz
    // 50% %s
    {
    char[ 1 ] msg_type// " ++ [128512]%N ++ runes_of_ascii " emoji
`two words` ,zchar[
    65535
] stringy,
char[ 007 ] roots @lengthOf(
matchKey ), }
,// @lengthOf(
match calculatedFrom
as
    // `tick` ""quote"" 'q'
    calculatedFrom { 10 : leftPad}  , i64_ @calculatedFrom(
""// no comment"" ),
    match len as
BodyLength{ [ ""CRC32"", ""\" ++ [233]%N ++ runes_of_ascii """
    ]
:MetaDataX , }
    ,uint64 trueish `
` /// triple
,}")).
Eval vm_compute in ("<<<M568>>>" ++ check (runes_of_ascii "MetaData Logon {
    pack roots `{ , }`
,
    }packet x // `tick` ""quote"" 'q'
{
} options {// packet A { u8 x, }
} packet crc
//
// trailing space 
{ repeat u64
    roots`say ""hi""` , zchar[
    007
] repeatCount @lengthOf( trueish // " ++ [128512]%N ++ runes_of_ascii " emoji
),@tag( 0 )
    charz { A { a1 falsey
, } ,	match As	as f32a	{ 42 : u8x, } , Logon @calculatedFrom( """" )
`100% of %d` , } ,falsey @calculatedFrom( ""x y"" ),  repeat
char[ //
65535
    // `tick` ""quote"" 'q'
    ] rootA `
`  ,
@calculatedFrom(
    ""`tick`"")  @calculatedFrom(
""a	b"" )
repeat zchar zchar
,}
")).
Eval vm_compute in ("<<<M600>>>" ++ check (runes_of_ascii "packet metadata {	@calculatedFrom(
""" ++ [128512]%N ++ runes_of_ascii """ //
)
    //
    repeat chars { repeat
falsey o
,
int32 falsey @calculatedFrom(
""`tick`"" ) ,
}	, }	options { // packet A { u8 x, }
falsey = ""1"" ;matchKey =
    string ;	BodyLength =""\" ++ [233]%N ++ runes_of_ascii """
    ;// " ++ [128512]%N ++ runes_of_ascii " emoji
calculatedFrom =true }packet
    Foo { _x
    falsey,string_ x_y_z`two words`
    , msg_type body
`say ""hi""`, }

")).
Eval vm_compute in ("<<<M632>>>" ++ check (runes_of_ascii "options
{ }  options
{
o = uint64 // " ++ [128512]%N ++ runes_of_ascii " emoji
u =u8 ; charz
=  00// c
}packet //	t
BodyLength{ match u// a // b
as uint8x
    { 65535 : // 50% %s
MetaDataX // " ++ [27880; 37322]%N ++ runes_of_ascii "
,[""CRC32""
,
0// a // b
,
65535 ,""CRC32"" , ""\n""	]: Foo ,[ 65535 , """ ++ [233]%N ++ runes_of_ascii "t" ++ [233]%N ++ runes_of_ascii """, ""// no comment""
    // c
    ,0123456789
    ,  """ ++ [28040; 24687]%N ++ runes_of_ascii """,	0 , ""a	b"" // " ++ [128512]%N ++ runes_of_ascii " emoji
,0123456789 ] : Logon ,
[ ""{,}"" ,// trailing space 
1
]:
a1, [ """ ++ [128512]%N ++ runes_of_ascii """ ]// a // b
:	int, 65535 :
    // packet A { u8 x, }
    i8i8 , }
    ,
repeat
Packet i8i8 `// not a comment` // " ++ [128512]%N ++ runes_of_ascii " emoji
, repeat A A	`doc` ,  char[65535 ] roots
@calculatedFrom(""packet"" ) , repeat int32 trueish ,// trailing space 
Z9_ body `
`
    // " ++ [27880; 37322]%N ++ runes_of_ascii "
    , @rightPad('0'
// " ++ [27880; 37322]%N ++ runes_of_ascii "
// trailing space 
) i8i8 , }packet
    Pad { @rightPad
// packet A { u8 x, }
// @lengthOf(
(
    '\x00'
    ) match
i8i8 as
    Foo {
//x
//	t
0123456789 : As , ""\" ++ [233]%N ++ runes_of_ascii """ : i64_ 3
// 50% %s
// a // b
: len 42: f32a ,// packet A { u8 x, }
[1 , """ ++ [233]%N ++ runes_of_ascii "t" ++ [233]%N ++ runes_of_ascii """, ""a\""b""
    ,
    42
    ,  007
, 4294967296 ,
    // @lengthOf(
    7
    ] :o ,
[007 , 10]
    // " ++ [27880; 37322]%N ++ runes_of_ascii "
    :u8x ,
} , match _x as u128 {
7
    : stringy , 1
: packetx
, ""1""
    :	charz , 42 : MetaDataX
, ""\" ++ [233]%N ++ runes_of_ascii """ : _x	,	[
3
    ,
""`tick`"" ] : BodyLength }
,
@tag( 007  )
@tag(
    1 )@tag( 10 )
    u16 packetx `u8 x,` ,@rightPad
    ( '0')
    u128	{
    Foo {  repeat Foo msg_type ,
repeat char[ 7]i64_ , u@calculatedFrom( ""\" ++ [233]%N ++ runes_of_ascii """) , }
    ,  zchar[	3
]
    // @lengthOf(
    Foo `" ++ [233]%N ++ runes_of_ascii "` ,u128
    // " ++ [128512]%N ++ runes_of_ascii " emoji
    , }
//	t
// `tick` ""quote"" 'q'
,
char[ 10 ] // packet A { u8 x, }
body//
, } packet _x{ @lengthOf(
    trueish)@leftPad('0'
    ) int32 As // a // b
, options1
    {repeat //
int  { uint16 u // " ++ [128512]%N ++ runes_of_ascii " emoji
,zchar
`a\`  ,char[]
    trueish ,
}	,
//x
// @lengthOf(
},
//
//	t
int ,
@tag( 65535 ) char[] roots , }")).
Eval vm_compute in ("<<<M664>>>" ++ check (runes_of_ascii "options	{// a // b
} packet
    lengthOf { // trailing space 
u64 string_
    @lengthOf( MetaDataX )  , } MetaData
    _x{ char[]
leftPad `" ++ [233]%N ++ runes_of_ascii "`
, i64 a1
    , float32 A `{ , }` , i16 //	t
crc  , MetaDataX metadata `say ""hi""`,
    }
")).
Eval vm_compute in ("<<<T664>>>" ++ terms [mkTok 1 "options" 1 0 false; mkTok 2 "{" 1 8 false; mkTok 44 "// a // b" 1 9 true; mkTok 3 "}" 2 0 false; mkTok 35 "packet" 2 2 false; mkTok 42 "lengthOf" 3 4 false; mkTok 2 "{" 3 13 false; mkTok 44 "// trailing space " 3 15 true; mkTok 23 "u64" 4 0 false; mkTok 42 "string_" 4 4 false; mkTok 7 "@lengthOf(" 5 4 false; mkTok 42 "MetaDataX" 5 15 false; mkTok 6 ")" 5 25 false; mkTok 40 "," 5 28 false; mkTok 3 "}" 5 30 false; mkTok 37 "MetaData" 5 32 false; mkTok 42 "_x" 6 4 false; mkTok 2 "{" 6 6 false; mkTok 16 "char[]" 6 8 false; mkTok 42 "leftPad" 7 0 false; mkTok 43 (string_of_bytes [96; 195; 169; 96]%N) 7 8 false; mkTok 40 "," 8 0 false; mkTok 27 "i64" 8 2 false; mkTok 42 "a1" 8 6 false; mkTok 40 "," 9 4 false; mkTok 28 "float32" 9 6 false; mkTok 42 "A" 9 14 false; mkTok 43 "`{ , }`" 9 16 false; mkTok 40 "," 9 24 false; mkTok 25 "i16" 9 26 false; mkTok 44 (string_of_bytes [47; 47; 9; 116]%N) 9 30 true; mkTok 42 "crc" 10 0 false; mkTok 40 "," 10 5 false; mkTok 42 "MetaDataX" 10 7 false; mkTok 42 "metadata" 10 17 false; mkTok 43 "`say ""hi""`" 10 26 false; mkTok 40 "," 10 36 false; mkTok 3 "}" 11 4 false; mkTok 0 "<EOF>" 12 0 false] (mkPacket (mkPtok 1 "options" 1 0 0) (Some (mkPtok 3 "}" 11 4 37)) [(DOption (mkOptionDef (mkSpan (mkPtok 1 "options" 1 0 0) (mkPtok 3 "}" 2 0 3)) (mkPtok 1 "options" 1 0 0) (mkPtok 2 "{" 1 8 1) [] (mkPtok 3 "}" 2 0 3))); (DPacket (mkPacketDef (mkSpan (mkPtok 35 "packet" 2 2 4) (mkPtok 3 "}" 5 30 14)) None (mkPtok 35 "packet" 2 2 4) (mkPtok 42 "lengthOf" 3 4 5) (mkPtok 2 "{" 3 13 6) [(mkFieldWithAttr (mkSpan (mkPtok 23 "u64" 4 0 8) (mkPtok 40 "," 5 28 13)) [] (LengthField (mkSpan (mkPtok 23 "u64" 4 0 8) (mkPtok 40 "," 5 28 13)) (mkLengthFieldDecl (mkSpan (mkPtok 23 "u64" 4 0 8) (mkPtok 40 "," 5 28 13)) (Some (TyBasic (mkSpan (mkPtok 23 "u64" 4 0 8) (mkPtok 23 "u64" 4 0 8)) (mkBasicType (mkSpan (mkPtok 23 "u64" 4 0 8) (mkPtok 23 "u64" 4 0 8)) (mkPtok 23 "u64" 4 0 8)))) (mkPtok 42 "string_" 4 4 9) (mkLengthOf (mkSpan (mkPtok 7 "@lengthOf(" 5 4 10) (mkPtok 6 ")" 5 25 12)) (mkPtok 7 "@lengthOf(" 5 4 10) (mkPtok 42 "MetaDataX" 5 15 11) (mkPtok 6 ")" 5 25 12)) None (mkPtok 40 "," 5 28 13))))] (mkPtok 3 "}" 5 30 14))); (DMeta (mkMetaDef (mkSpan (mkPtok 37 "MetaData" 5 32 15) (mkPtok 3 "}" 11 4 37)) (mkPtok 37 "MetaData" 5 32 15) (mkPtok 42 "_x" 6 4 16) (mkPtok 2 "{" 6 6 17) [(MIDecl (mkMetaDecl (mkSpan (mkPtok 16 "char[]" 6 8 18) (mkPtok 40 "," 8 0 21)) (TyDynamic (mkSpan (mkPtok 16 "char[]" 6 8 18) (mkPtok 16 "char[]" 6 8 18)) (mkDynamicString (mkSpan (mkPtok 16 "char[]" 6 8 18) (mkPtok 16 "char[]" 6 8 18)) (mkPtok 16 "char[]" 6 8 18))) (mkPtok 42 "leftPad" 7 0 19) (Some (mkPtok 43 (string_of_bytes [96; 195; 169; 96]%N) 7 8 20)) (mkPtok 40 "," 8 0 21))); (MIDecl (mkMetaDecl (mkSpan (mkPtok 27 "i64" 8 2 22) (mkPtok 40 "," 9 4 24)) (TyBasic (mkSpan (mkPtok 27 "i64" 8 2 22) (mkPtok 27 "i64" 8 2 22)) (mkBasicType (mkSpan (mkPtok 27 "i64" 8 2 22) (mkPtok 27 "i64" 8 2 22)) (mkPtok 27 "i64" 8 2 22))) (mkPtok 42 "a1" 8 6 23) None (mkPtok 40 "," 9 4 24))); (MIDecl (mkMetaDecl (mkSpan (mkPtok 28 "float32" 9 6 25) (mkPtok 40 "," 9 24 28)) (TyBasic (mkSpan (mkPtok 28 "float32" 9 6 25) (mkPtok 28 "float32" 9 6 25)) (mkBasicType (mkSpan (mkPtok 28 "float32" 9 6 25) (mkPtok 28 "float32" 9 6 25)) (mkPtok 28 "float32" 9 6 25))) (mkPtok 42 "A" 9 14 26) (Some (mkPtok 43 "`{ , }`" 9 16 27)) (mkPtok 40 "," 9 24 28))); (MIDecl (mkMetaDecl (mkSpan (mkPtok 25 "i16" 9 26 29) (mkPtok 40 "," 10 5 32)) (TyBasic (mkSpan (mkPtok 25 "i16" 9 26 29) (mkPtok 25 "i16" 9 26 29)) (mkBasicType (mkSpan (mkPtok 25 "i16" 9 26 29) (mkPtok 25 "i16" 9 26 29)) (mkPtok 25 "i16" 9 26 29))) (mkPtok 42 "crc" 10 0 31) None (mkPtok 40 "," 10 5 32))); (MIRef (mkRefMetaDecl (mkSpan (mkPtok 42 "MetaDataX" 10 7 33) (mkPtok 40 "," 10 36 36)) (mkPtok 42 "MetaDataX" 10 7 33) (mkPtok 42 "metadata" 10 17 34) (Some (mkPtok 43 "`say ""hi""`" 10 26 35)) (mkPtok 40 "," 10 36 36)))] (mkPtok 3 "}" 11 4 37)))])).
Eval vm_compute in ("<<<M696>>>" ++ check (runes_of_ascii "
")).
Eval vm_compute in ("<<<M728>>>" ++ check (runes_of_ascii "MetaData // @lengthOf(
options1 {
    // a // b
    float32 a1
`a\`
    // " ++ [128512]%N ++ runes_of_ascii " emoji
    ,
leftPad
    // packet A { u8 x, }
    Packet `" ++ [28040; 24687; 31867; 22411]%N ++ runes_of_ascii "`,zchar[
4294967296 ] repeatCount, f32 x
,
    roots packetx`" ++ [233]%N ++ runes_of_ascii "` , }
")).
Eval vm_compute in ("<<<M760>>>" ++ check (runes_of_ascii "
MetaData A { zchar falsey	`u8 x,`
    , }MetaData
len // " ++ [27880; 37322]%N ++ runes_of_ascii "
{ msg_type
Z9_ `crlf
line`, int32 packetx
    // trailing space 
    , int64 matchKey ,// a // b
f32 As ,
    zchar[
    00] u8x
`u8 x,` ,
    zchar[ 0123456789 ]
Logon `line1
line2`  ,// a // b
} options { Packet =//x
""a\\"";} // @lengthOf(")).
Eval vm_compute in ("<<<M792>>>" ++ check (runes_of_ascii "packet
body
{
roots
@lengthOf( stringy )`" ++ [28040; 24687; 31867; 22411]%N ++ runes_of_ascii "`,  @leftPad(	' ' ) @rightPad (' ' ) @leftPad () a1 @lengthOf( // trailing space 
u
)
// trailing space 
// " ++ [27880; 37322]%N ++ runes_of_ascii "
,  match x as x_y_z
    {[  255 , ""packet""
    // packet A { u8 x, }
    , 007 ,
    10 ,""" ++ [233]%N ++ runes_of_ascii "t" ++ [233]%N ++ runes_of_ascii """ , 3
    //x
    , ""it's""
    ] :	leftPad
    // c
    , }, zchar[1
    ] i64_ ,}")).
Eval vm_compute in ("<<<M824>>>" ++ check (runes_of_ascii "
packet trueish
{}root packet msg_type  {
// 50% %s
// " ++ [128512]%N ++ runes_of_ascii " emoji
char[]
u8x@lengthOf(int
)// 50% %s
,u128
{
//x
/// triple
Logon@calculatedFrom( ""1"" )
,
}, @lengthOf( calculatedFrom )
repeat f32 Z9_, u16 int
@lengthOf( i64_
    // 50% %s
    ) `line1
line2` , //x
@leftPad ('\x00') @calculatedFrom(""" ++ [28040; 24687]%N ++ runes_of_ascii """)  int8 lengthOf
@calculatedFrom( ""x y"" ) `crlf
line`
,
uint8x , @lengthOf( packetx )
    /// triple
    char[]
Packet // " ++ [27880; 37322]%N ++ runes_of_ascii "
,@leftPad	( )
i64_	Header
,// 50% %s
u32 o @lengthOf(
    falsey)
, @lengthOf(	MetaDataX
)match Foo as trueish
{
    [
""it's"" ,10]:
Pad , },
    }")).
Eval vm_compute in ("<<<M856>>>" ++ check (runes_of_ascii "// trailing space 
 // " ++ [27880; 37322]%N)).
Eval vm_compute in ("<<<M888>>>" ++ check (runes_of_ascii "//
options { MetaDataX =
    /// triple
    """ ++ [28040; 24687]%N ++ runes_of_ascii """ ;
chars  =
// 50% %s
//
f64 options1 =42} root
    packet
    roots{ u8
    metadata`tab	here`, BodyLength @lengthOf( body
    ) //
, }")).
Eval vm_compute in ("<<<T888>>>" ++ terms [mkTok 44 "//" 1 0 true; mkTok 1 "options" 2 0 false; mkTok 2 "{" 2 8 false; mkTok 42 "MetaDataX" 2 10 false; mkTok 4 "=" 2 20 false; mkTok 44 "/// triple" 3 4 true; mkTok 31 (string_of_bytes [34; 230; 182; 136; 230; 129; 175; 34]%N) 4 4 false; mkTok 41 ";" 4 9 false; mkTok 42 "chars" 5 0 false; mkTok 4 "=" 5 7 false; mkTok 44 "// 50% %s" 6 0 true; mkTok 44 "//" 7 0 true; mkTok 29 "f64" 8 0 false; mkTok 42 "options1" 8 4 false; mkTok 4 "=" 8 13 false; mkTok 30 "42" 8 14 false; mkTok 3 "}" 8 16 false; mkTok 34 "root" 8 18 false; mkTok 35 "packet" 9 4 false; mkTok 42 "roots" 10 4 false; mkTok 2 "{" 10 9 false; mkTok 20 "u8" 10 11 false; mkTok 42 "metadata" 11 4 false; mkTok 43 (string_of_bytes [96; 116; 97; 98; 9; 104; 101; 114; 101; 96]%N) 11 12 false; mkTok 40 "," 11 22 false; mkTok 42 "BodyLength" 11 24 false; mkTok 7 "@lengthOf(" 11 35 false; mkTok 42 "body" 11 46 false; mkTok 6 ")" 12 4 false; mkTok 44 "//" 12 6 true; mkTok 40 "," 13 0 false; mkTok 3 "}" 13 2 false; mkTok 0 "<EOF>" 13 3 false] (mkPacket (mkPtok 1 "options" 2 0 1) (Some (mkPtok 3 "}" 13 2 31)) [(DOption (mkOptionDef (mkSpan (mkPtok 1 "options" 2 0 1) (mkPtok 3 "}" 8 16 16)) (mkPtok 1 "options" 2 0 1) (mkPtok 2 "{" 2 8 2) [(mkOptionDecl (mkSpan (mkPtok 42 "MetaDataX" 2 10 3) (mkPtok 41 ";" 4 9 7)) (mkPtok 42 "MetaDataX" 2 10 3) (mkPtok 4 "=" 2 20 4) (VString (mkSpan (mkPtok 31 (string_of_bytes [34; 230; 182; 136; 230; 129; 175; 34]%N) 4 4 6) (mkPtok 31 (string_of_bytes [34; 230; 182; 136; 230; 129; 175; 34]%N) 4 4 6)) (mkPtok 31 (string_of_bytes [34; 230; 182; 136; 230; 129; 175; 34]%N) 4 4 6)) (Some (mkPtok 41 ";" 4 9 7))); (mkOptionDecl (mkSpan (mkPtok 42 "chars" 5 0 8) (mkPtok 29 "f64" 8 0 12)) (mkPtok 42 "chars" 5 0 8) (mkPtok 4 "=" 5 7 9) (VType (mkSpan (mkPtok 29 "f64" 8 0 12) (mkPtok 29 "f64" 8 0 12)) (TyBasic (mkSpan (mkPtok 29 "f64" 8 0 12) (mkPtok 29 "f64" 8 0 12)) (mkBasicType (mkSpan (mkPtok 29 "f64" 8 0 12) (mkPtok 29 "f64" 8 0 12)) (mkPtok 29 "f64" 8 0 12)))) None); (mkOptionDecl (mkSpan (mkPtok 42 "options1" 8 4 13) (mkPtok 30 "42" 8 14 15)) (mkPtok 42 "options1" 8 4 13) (mkPtok 4 "=" 8 13 14) (VDigits (mkSpan (mkPtok 30 "42" 8 14 15) (mkPtok 30 "42" 8 14 15)) (mkPtok 30 "42" 8 14 15)) None)] (mkPtok 3 "}" 8 16 16))); (DPacket (mkPacketDef (mkSpan (mkPtok 34 "root" 8 18 17) (mkPtok 3 "}" 13 2 31)) (Some (mkPtok 34 "root" 8 18 17)) (mkPtok 35 "packet" 9 4 18) (mkPtok 42 "roots" 10 4 19) (mkPtok 2 "{" 10 9 20) [(mkFieldWithAttr (mkSpan (mkPtok 20 "u8" 10 11 21) (mkPtok 40 "," 11 22 24)) [] (MetaField (mkSpan (mkPtok 20 "u8" 10 11 21) (mkPtok 40 "," 11 22 24)) None (mkMetaDecl (mkSpan (mkPtok 20 "u8" 10 11 21) (mkPtok 40 "," 11 22 24)) (TyBasic (mkSpan (mkPtok 20 "u8" 10 11 21) (mkPtok 20 "u8" 10 11 21)) (mkBasicType (mkSpan (mkPtok 20 "u8" 10 11 21) (mkPtok 20 "u8" 10 11 21)) (mkPtok 20 "u8" 10 11 21))) (mkPtok 42 "metadata" 11 4 22) (Some (mkPtok 43 (string_of_bytes [96; 116; 97; 98; 9; 104; 101; 114; 101; 96]%N) 11 12 23)) (mkPtok 40 "," 11 22 24)))); (mkFieldWithAttr (mkSpan (mkPtok 42 "BodyLength" 11 24 25) (mkPtok 40 "," 13 0 30)) [] (LengthField (mkSpan (mkPtok 42 "BodyLength" 11 24 25) (mkPtok 40 "," 13 0 30)) (mkLengthFieldDecl (mkSpan (mkPtok 42 "BodyLength" 11 24 25) (mkPtok 40 "," 13 0 30)) None (mkPtok 42 "BodyLength" 11 24 25) (mkLengthOf (mkSpan (mkPtok 7 "@lengthOf(" 11 35 26) (mkPtok 6 ")" 12 4 28)) (mkPtok 7 "@lengthOf(" 11 35 26) (mkPtok 42 "body" 11 46 27) (mkPtok 6 ")" 12 4 28)) None (mkPtok 40 "," 13 0 30))))] (mkPtok 3 "}" 13 2 31)))])).
Eval vm_compute in ("<<<M920>>>" ++ check (runes_of_ascii "packet Pad { @lengthOf( f32a )repeat u64
    // c
    lengthOf`it's`,
    @calculatedFrom( //x
""CRC32"" ) falsey {repeat  uint16 pack
    , } , } root
    packet
falsey { int8 //
falsey ,
    } root packet
trueish
    {}
//x
// trailing space 
root
    packet /// triple
calculatedFrom//
{}")).
Eval vm_compute in ("<<<M952>>>" ++ check (runes_of_ascii "
root packet x{  }
    packet
    Foo { packetx a1 , metadata u128
`line1
line2` , @tag(
0123456789 ) @calculatedFrom( //
""// no comment""
    // 50% %s
    )Packet
`// not a comment` , u32 packetx
,	} options { i64_ = // a // b
uint32
    ; u128
=
42  Packet
    ='\x00' i64_ = 007
;
Pad = char[65535 ] ;
    } root packet
// `tick` ""quote"" 'q'
//
msg_type { match	float
    //
    as falsey {
// " ++ [27880; 37322]%N ++ runes_of_ascii "
// 50% %s
0123456789 :x ,	""abc"" : x // `tick` ""quote"" 'q'
} // " ++ [128512]%N ++ runes_of_ascii " emoji
, }")).
Eval vm_compute in ("<<<M984>>>" ++ check (runes_of_ascii "packet charz //
{ char float , //x
} packet float {
    // @lengthOf(
    zchar[ 0123456789 ] trueish
    @lengthOf( i8i8
) , i64 Pad  , }")).
Eval vm_compute in ("<<<M1016>>>" ++ check (runes_of_ascii "options {	u128=
    007 f32a =// c
7}  root
packet uint8x { // c
f64
    u @lengthOf(	x )`two words`	,
    @lengthOf( packetx) repeat float Pad `u8 x,`,int x `` , i64 crc
@calculatedFrom( ""it's"") ,repeat	Logon ,	uint64
o
`it's`,@tag(
42)
    i32 _x@lengthOf(i8i8 ) `{ , }` // c
, } options { float =
    // " ++ [128512]%N ++ runes_of_ascii " emoji
    ""\" ++ [233]%N ++ runes_of_ascii """; msg_type
= false
BodyLength =  ' 'u =
' ' o = ""\n"" ;
} MetaData	u
{ x_y_z leftPad
, char[
65535 ]
asx ,  char[] u8x , // c
charz
len `// not a comment`
, } options{
}")).
Eval vm_compute in ("<<<M1048>>>" ++ check (runes_of_ascii "MetaData float
    { MetaDataX
i8i8	`it's` ,} packet x_y_z { } packet float{ }")).
Eval vm_compute in ("<<<M1080>>>" ++ check (runes_of_ascii "options {
    options1 =
    char[]
    // c
    lengthOf
= string Foo = 255
body = 7
    //x
    ;	chars
= true
}")).
Eval vm_compute in ("<<<M1112>>>" ++ check (runes_of_ascii "options
    //
    { roots	=i8 ;  }
")).
Eval vm_compute in ("<<<T1112>>>" ++ terms [mkTok 1 "options" 1 0 false; mkTok 44 "//" 2 4 true; mkTok 2 "{" 3 4 false; mkTok 42 "roots" 3 6 false; mkTok 4 "=" 3 12 false; mkTok 24 "i8" 3 13 false; mkTok 41 ";" 3 16 false; mkTok 3 "}" 3 19 false; mkTok 0 "<EOF>" 4 0 false] (mkPacket (mkPtok 1 "options" 1 0 0) (Some (mkPtok 3 "}" 3 19 7)) [(DOption (mkOptionDef (mkSpan (mkPtok 1 "options" 1 0 0) (mkPtok 3 "}" 3 19 7)) (mkPtok 1 "options" 1 0 0) (mkPtok 2 "{" 3 4 2) [(mkOptionDecl (mkSpan (mkPtok 42 "roots" 3 6 3) (mkPtok 41 ";" 3 16 6)) (mkPtok 42 "roots" 3 6 3) (mkPtok 4 "=" 3 12 4) (VType (mkSpan (mkPtok 24 "i8" 3 13 5) (mkPtok 24 "i8" 3 13 5)) (TyBasic (mkSpan (mkPtok 24 "i8" 3 13 5) (mkPtok 24 "i8" 3 13 5)) (mkBasicType (mkSpan (mkPtok 24 "i8" 3 13 5) (mkPtok 24 "i8" 3 13 5)) (mkPtok 24 "i8" 3 13 5)))) (Some (mkPtok 41 ";" 3 16 6)))] (mkPtok 3 "}" 3 19 7)))])).
Eval vm_compute in ("<<<M1144>>>" ++ check (runes_of_ascii "// packet A { u8 x, }
MetaData chars { stringy falsey  ,
    }
")).
Eval vm_compute in ("<<<M1176>>>" ++ check (runes_of_ascii "// " ++ [27880; 37322]%N ++ runes_of_ascii "
 // trailing space ")).
Eval vm_compute in ("<<<M1208>>>" ++ check (runes_of_ascii "MetaData i8i8 // a // b
{
char x_y_z
    ``, i16 body
`two words`,}
")).
Eval vm_compute in ("<<<M1240>>>" ++ check (runes_of_ascii "options { f32a	=
' ' } packet // " ++ [128512]%N ++ runes_of_ascii " emoji
metadata { @lengthOf(
a1	)
@calculatedFrom(  """ ++ [28040; 24687]%N ++ runes_of_ascii """) @rightPad ( '0' ) i64_ o `say ""hi""`
, Packet @calculatedFrom(""packet"")
,char[]
    tag
    , @calculatedFrom(
    // " ++ [128512]%N ++ runes_of_ascii " emoji
    ""a\""b"" ) match tag as BodyLength {
    ""CRC32"" :
asx ,10 : metadata ,
    }, @tag( 7 ) @tag(7
    ) @tag( 42
    )Header { i64 // " ++ [27880; 37322]%N ++ runes_of_ascii "
A //
`two words`
    , char[]Packet
    , } , @calculatedFrom( """ ++ [28040; 24687]%N ++ runes_of_ascii """ ) @calculatedFrom( ""x y"" ) @tag( 3 )char[] Packet `tab	here`, @rightPad( '0' ) Packet, repeat Pad {match packetx
    as charz
// `tick` ""quote"" 'q'
// c
{
//x
//
""a\""b"" :
packetx [00 ,
007 ,
    ""1""
    , ""it's""
,""it's"" ]	: Packet ,
    // " ++ [128512]%N ++ runes_of_ascii " emoji
    ""\" ++ [233]%N ++ runes_of_ascii """: // `tick` ""quote"" 'q'
repeatCount , [ """ ++ [233]%N ++ runes_of_ascii "t" ++ [233]%N ++ runes_of_ascii """	,
007 , 10 ]:
    // " ++ [128512]%N ++ runes_of_ascii " emoji
    charz
,  [ ""CRC32""  ] :roots ,}
    ,  } ,@lengthOf( float  ) uint8x	,
}
    // " ++ [128512]%N ++ runes_of_ascii " emoji
    options {
len
    = float64 ;
    Header = '0'; Foo = string; i64_ =
false ;}
")).
Eval vm_compute in ("<<<M1272>>>" ++ check (runes_of_ascii "root packet
    falsey {int falsey , u8 Packet @lengthOf( f32a )`u8 x,` , } // `tick` ""quote"" 'q'")).
Eval vm_compute in ("<<<M1304>>>" ++ check (runes_of_ascii "
root packet
zchar { @leftPad
(
    '\x00'
) string
    As
`
` , // 50% %s
} packet packetx { u8 Z9_, @rightPad	(
    ) // c
int16 int
`u8 x,`, @tag(3 )	@calculatedFrom( ""`tick`"")  char[255
    // `tick` ""quote"" 'q'
    ]stringy
, zchar[	10
    ] len , @tag(
00
)
zchar MetaDataX ,
}
")).
Eval vm_compute in ("<<<M1336>>>" ++ check (runes_of_ascii "packet
Pad
{ int64 body //	t
`" ++ [28040; 24687; 31867; 22411]%N ++ runes_of_ascii "`
    , @rightPad ( // a // b
' '	)repeat
f32 calculatedFrom `` , match msg_type as
int// packet A { u8 x, }
{ ""1"" : As
,""a	b""
: A , ""x y""
:repeatCount
    ,""" ++ [128512]%N ++ runes_of_ascii """ :u8x [  7, 65535]:lengthOf , } , @tag(
    3 )
@lengthOf(	asx )
@rightPad(
    '\x00' //	t
) string_ body`line1
line2` , char[ 7 ] Foo @calculatedFrom( ""// no comment"")	,@lengthOf( Pad//	t
) trueish
pack `a\`,  @calculatedFrom( ""{,}"" )@tag( 3
    )
char[ 0123456789// `tick` ""quote"" 'q'
]roots
    @lengthOf( //	t
packetx )`tab	here`
// " ++ [27880; 37322]%N ++ runes_of_ascii "
//	t
,@calculatedFrom( ""a	b""
)
match
// " ++ [27880; 37322]%N ++ runes_of_ascii "
// @lengthOf(
f32a as asx { 42 :
    lengthOf ,[	0123456789 ,1] : asx
,
    [ //	t
42
    , 0123456789
// c
//x
, 00 ,
    ""1"" ,  3  ,65535 , // trailing space 
""it's"" , 3 ]:// packet A { u8 x, }
msg_type	,
    ""packet"" : repeatCount , """"
    :  chars },
zchar[0] u
, }// c
MetaData
    // " ++ [128512]%N ++ runes_of_ascii " emoji
    charz {
zchar[007]Logon	`{ , }`
,u8x
    a1  `
` ,
    f32a
i8i8
,
i32
int
,
packetx repeatCount `
`,
    //x
    } MetaData metadata{
matchKey
Header
    // a // b
    , string	o`a\`	, zchar[ 1 ]chars , i64 f32a  `100% of %d`,
uint64  crc `tab	here` , zchar[ //	t
10] matchKey ,  } root packet _x { @leftPad // trailing space 
( ) char[
00
] BodyLength
`" ++ [233]%N ++ runes_of_ascii "` ,}

")).
Eval vm_compute in ("<<<T1336>>>" ++ terms [mkTok 35 "packet" 1 0 false; mkTok 42 "Pad" 2 0 false; mkTok 2 "{" 3 0 false; mkTok 27 "int64" 3 2 false; mkTok 42 "body" 3 8 false; mkTok 44 (string_of_bytes [47; 47; 9; 116]%N) 3 13 true; mkTok 43 (string_of_bytes [96; 230; 182; 136; 230; 129; 175; 231; 177; 187; 229; 158; 139; 96]%N) 4 0 false; mkTok 40 "," 5 4 false; mkTok 32 "@rightPad" 5 6 false; mkTok 8 "(" 5 16 false; mkTok 44 "// a // b" 5 18 true; mkTok 33 "' '" 6 0 false; mkTok 6 ")" 6 4 false; mkTok 36 "repeat" 6 5 false; mkTok 28 "f32" 7 0 false; mkTok 42 "calculatedFrom" 7 4 false; mkTok 43 "``" 7 19 false; mkTok 40 "," 7 22 false; mkTok 38 "match" 7 24 false; mkTok 42 "msg_type" 7 30 false; mkTok 17 "as" 7 39 false; mkTok 42 "int" 8 0 false; mkTok 44 "// packet A { u8 x, }" 8 3 true; mkTok 2 "{" 9 0 false; mkTok 31 """1""" 9 2 false; mkTok 39 ":" 9 6 false; mkTok 42 "As" 9 8 false; mkTok 40 "," 10 0 false; mkTok 31 (string_of_bytes [34; 97; 9; 98; 34]%N) 10 1 false; mkTok 39 ":" 11 0 false; mkTok 42 "A" 11 2 false; mkTok 40 "," 11 4 false; mkTok 31 """x y""" 11 6 false; mkTok 39 ":" 12 0 false; mkTok 42 "repeatCount" 12 1 false; mkTok 40 "," 13 4 false; mkTok 31 (string_of_bytes [34; 240; 159; 152; 128; 34]%N) 13 5 false; mkTok 39 ":" 13 9 false; mkTok 42 "u8x" 13 10 false; mkTok 18 "[" 13 14 false; mkTok 30 "7" 13 17 false; mkTok 40 "," 13 18 false; mkTok 30 "65535" 13 20 false; mkTok 13 "]" 13 25 false; mkTok 39 ":" 13 26 false; mkTok 42 "lengthOf" 13 27 false; mkTok 40 "," 13 36 false; mkTok 3 "}" 13 38 false; mkTok 40 "," 13 40 false; mkTok 9 "@tag(" 13 42 false; mkTok 30 "3" 14 4 false; mkTok 6 ")" 14 6 false; mkTok 7 "@lengthOf(" 15 0 false; mkTok 42 "asx" 15 11 false; mkTok 6 ")" 15 15 false; mkTok 32 "@rightPad" 16 0 false; mkTok 8 "(" 16 9 false; mkTok 33 "'\x00'" 17 4 false; mkTok 44 (string_of_bytes [47; 47; 9; 116]%N) 17 11 true; mkTok 6 ")" 18 0 false; mkTok 42 "string_" 18 2 false; mkTok 42 "body" 18 10 false; mkTok 43 (string_of_bytes [96; 108; 105; 110; 101; 49; 10; 108; 105; 110; 101; 50; 96]%N) 18 14 false; mkTok 40 "," 19 7 false; mkTok 12 "char[" 19 9 false; mkTok 30 "7" 19 15 false; mkTok 13 "]" 19 17 false; mkTok 42 "Foo" 19 19 false; mkTok 5 "@calculatedFrom(" 19 23 false; mkTok 31 """// no comment""" 19 40 false; mkTok 6 ")" 19 55 false; mkTok 40 "," 19 57 false; mkTok 7 "@lengthOf(" 19 58 false; mkTok 42 "Pad" 19 69 false; mkTok 44 (string_of_bytes [47; 47; 9; 116]%N) 19 72 true; mkTok 6 ")" 20 0 false; mkTok 42 "trueish" 20 2 false; mkTok 42 "pack" 21 0 false; mkTok 43 "`a\`" 21 5 false; mkTok 40 "," 21 9 false; mkTok 5 "@calculatedFrom(" 21 12 false; mkTok 31 """{,}""" 21 29 false; mkTok 6 ")" 21 35 false; mkTok 9 "@tag(" 21 36 false; mkTok 30 "3" 21 42 false; mkTok 6 ")" 22 4 false; mkTok 12 "char[" 23 0 false; mkTok 30 "0123456789" 23 6 false; mkTok 44 "// `tick` ""quote"" 'q'" 23 16 true; mkTok 13 "]" 24 0 false; mkTok 42 "roots" 24 1 false; mkTok 7 "@lengthOf(" 25 4 false; mkTok 44 (string_of_bytes [47; 47; 9; 116]%N) 25 15 true; mkTok 42 "packetx" 26 0 false; mkTok 6 ")" 26 8 false; mkTok 43 (string_of_bytes [96; 116; 97; 98; 9; 104; 101; 114; 101; 96]%N) 26 9 false; mkTok 44 (string_of_bytes [47; 47; 32; 230; 179; 168; 233; 135; 138]%N) 27 0 true; mkTok 44 (string_of_bytes [47; 47; 9; 116]%N) 28 0 true; mkTok 40 "," 29 0 false; mkTok 5 "@calculatedFrom(" 29 1 false; mkTok 31 (string_of_bytes [34; 97; 9; 98; 34]%N) 29 18 false; mkTok 6 ")" 30 0 false; mkTok 38 "match" 31 0 false; mkTok 44 (string_of_bytes [47; 47; 32; 230; 179; 168; 233; 135; 138]%N) 32 0 true; mkTok 44 "// @lengthOf(" 33 0 true; mkTok 42 "f32a" 34 0 false; mkTok 17 "as" 34 5 false; mkTok 42 "asx" 34 8 false; mkTok 2 "{" 34 12 false; mkTok 30 "42" 34 14 false; mkTok 39 ":" 34 17 false; mkTok 42 "lengthOf" 35 4 false; mkTok 40 "," 35 13 false; mkTok 18 "[" 35 14 false; mkTok 30 "0123456789" 35 16 false; mkTok 40 "," 35 27 false; mkTok 30 "1" 35 28 false; mkTok 13 "]" 35 29 false; mkTok 39 ":" 35 31 false; mkTok 42 "asx" 35 33 false; mkTok 40 "," 36 0 false; mkTok 18 "[" 37 4 false; mkTok 44 (string_of_bytes [47; 47; 9; 116]%N) 37 6 true; mkTok 30 "42" 38 0 false; mkTok 40 "," 39 4 false; mkTok 30 "0123456789" 39 6 false; mkTok 44 "// c" 40 0 true; mkTok 44 "//x" 41 0 true; mkTok 40 "," 42 0 false; mkTok 30 "00" 42 2 false; mkTok 40 "," 42 5 false; mkTok 31 """1""" 43 4 false; mkTok 40 "," 43 8 false; mkTok 30 "3" 43 11 false; mkTok 40 "," 43 14 false; mkTok 30 "65535" 43 15 false; mkTok 40 "," 43 21 false; mkTok 44 "// trailing space " 43 23 true; mkTok 31 """it's""" 44 0 false; mkTok 40 "," 44 7 false; mkTok 30 "3" 44 9 false; mkTok 13 "]" 44 11 false; mkTok 39 ":" 44 12 false; mkTok 44 "// packet A { u8 x, }" 44 13 true; mkTok 42 "msg_type" 45 0 false; mkTok 40 "," 45 9 false; mkTok 31 """packet""" 46 4 false; mkTok 39 ":" 46 13 false; mkTok 42 "repeatCount" 46 15 false; mkTok 40 "," 46 27 false; mkTok 31 """""" 46 29 false; mkTok 39 ":" 47 4 false; mkTok 42 "chars" 47 7 false; mkTok 3 "}" 47 13 false; mkTok 40 "," 47 14 false; mkTok 14 "zchar[" 48 0 false; mkTok 30 "0" 48 6 false; mkTok 13 "]" 48 7 false; mkTok 42 "u" 48 9 false; mkTok 40 "," 49 0 false; mkTok 3 "}" 49 2 false; mkTok 44 "// c" 49 3 true; mkTok 37 "MetaData" 50 0 false; mkTok 44 (string_of_bytes [47; 47; 32; 240; 159; 152; 128; 32; 101; 109; 111; 106; 105]%N) 51 4 true; mkTok 42 "charz" 52 4 false; mkTok 2 "{" 52 10 false; mkTok 14 "zchar[" 53 0 false; mkTok 30 "007" 53 6 false; mkTok 13 "]" 53 9 false; mkTok 42 "Logon" 53 10 false; mkTok 43 "`{ , }`" 53 16 false; mkTok 40 "," 54 0 false; mkTok 42 "u8x" 54 1 false; mkTok 42 "a1" 55 4 false; mkTok 43 (string_of_bytes [96; 10; 96]%N) 55 8 false; mkTok 40 "," 56 2 false; mkTok 42 "f32a" 57 4 false; mkTok 42 "i8i8" 58 0 false; mkTok 40 "," 59 0 false; mkTok 26 "i32" 60 0 false; mkTok 42 "int" 61 0 false; mkTok 40 "," 62 0 false; mkTok 42 "packetx" 63 0 false; mkTok 42 "repeatCount" 63 8 false; mkTok 43 (string_of_bytes [96; 10; 96]%N) 63 20 false; mkTok 40 "," 64 1 false; mkTok 44 "//x" 65 4 true; mkTok 3 "}" 66 4 false; mkTok 37 "MetaData" 66 6 false; mkTok 42 "metadata" 66 15 false; mkTok 2 "{" 66 23 false; mkTok 42 "matchKey" 67 0 false; mkTok 42 "Header" 68 0 false; mkTok 44 "// a // b" 69 4 true; mkTok 40 "," 70 4 false; mkTok 15 "string" 70 6 false; mkTok 42 "o" 70 13 false; mkTok 43 "`a\`" 70 14 false; mkTok 40 "," 70 19 false; mkTok 14 "zchar[" 70 21 false; mkTok 30 "1" 70 28 false; mkTok 13 "]" 70 30 false; mkTok 42 "chars" 70 31 false; mkTok 40 "," 70 37 false; mkTok 27 "i64" 70 39 false; mkTok 42 "f32a" 70 43 false; mkTok 43 "`100% of %d`" 70 49 false; mkTok 40 "," 70 61 false; mkTok 23 "uint64" 71 0 false; mkTok 42 "crc" 71 8 false; mkTok 43 (string_of_bytes [96; 116; 97; 98; 9; 104; 101; 114; 101; 96]%N) 71 12 false; mkTok 40 "," 71 23 false; mkTok 14 "zchar[" 71 25 false; mkTok 44 (string_of_bytes [47; 47; 9; 116]%N) 71 32 true; mkTok 30 "10" 72 0 false; mkTok 13 "]" 72 2 false; mkTok 42 "matchKey" 72 4 false; mkTok 40 "," 72 13 false; mkTok 3 "}" 72 16 false; mkTok 34 "root" 72 18 false; mkTok 35 "packet" 72 23 false; mkTok 42 "_x" 72 30 false; mkTok 2 "{" 72 33 false; mkTok 32 "@leftPad" 72 35 false; mkTok 44 "// trailing space " 72 44 true; mkTok 8 "(" 73 0 false; mkTok 6 ")" 73 2 false; mkTok 12 "char[" 73 4 false; mkTok 30 "00" 74 0 false; mkTok 13 "]" 75 0 false; mkTok 42 "BodyLength" 75 2 false; mkTok 43 (string_of_bytes [96; 195; 169; 96]%N) 76 0 false; mkTok 40 "," 76 4 false; mkTok 3 "}" 76 5 false; mkTok 0 "<EOF>" 78 0 false] (mkPacket (mkPtok 35 "packet" 1 0 0) (Some (mkPtok 3 "}" 76 5 233)) [(DPacket (mkPacketDef (mkSpan (mkPtok 35 "packet" 1 0 0) (mkPtok 3 "}" 49 2 160)) None (mkPtok 35 "packet" 1 0 0) (mkPtok 42 "Pad" 2 0 1) (mkPtok 2 "{" 3 0 2) [(mkFieldWithAttr (mkSpan (mkPtok 27 "int64" 3 2 3) (mkPtok 40 "," 5 4 7)) [] (MetaField (mkSpan (mkPtok 27 "int64" 3 2 3) (mkPtok 40 "," 5 4 7)) None (mkMetaDecl (mkSpan (mkPtok 27 "int64" 3 2 3) (mkPtok 40 "," 5 4 7)) (TyBasic (mkSpan (mkPtok 27 "int64" 3 2 3) (mkPtok 27 "int64" 3 2 3)) (mkBasicType (mkSpan (mkPtok 27 "int64" 3 2 3) (mkPtok 27 "int64" 3 2 3)) (mkPtok 27 "int64" 3 2 3))) (mkPtok 42 "body" 3 8 4) (Some (mkPtok 43 (string_of_bytes [96; 230; 182; 136; 230; 129; 175; 231; 177; 187; 229; 158; 139; 96]%N) 4 0 6)) (mkPtok 40 "," 5 4 7)))); (mkFieldWithAttr (mkSpan (mkPtok 32 "@rightPad" 5 6 8) (mkPtok 40 "," 7 22 17)) [(FAPadding (mkSpan (mkPtok 32 "@rightPad" 5 6 8) (mkPtok 6 ")" 6 4 12)) (mkPaddingAttr (mkSpan (mkPtok 32 "@rightPad" 5 6 8) (mkPtok 6 ")" 6 4 12)) (mkPtok 32 "@rightPad" 5 6 8) (mkPtok 8 "(" 5 16 9) (Some (mkPtok 33 "' '" 6 0 11)) (mkPtok 6 ")" 6 4 12)))] (MetaField (mkSpan (mkPtok 36 "repeat" 6 5 13) (mkPtok 40 "," 7 22 17)) (Some (mkPtok 36 "repeat" 6 5 13)) (mkMetaDecl (mkSpan (mkPtok 28 "f32" 7 0 14) (mkPtok 40 "," 7 22 17)) (TyBasic (mkSpan (mkPtok 28 "f32" 7 0 14) (mkPtok 28 "f32" 7 0 14)) (mkBasicType (mkSpan (mkPtok 28 "f32" 7 0 14) (mkPtok 28 "f32" 7 0 14)) (mkPtok 28 "f32" 7 0 14))) (mkPtok 42 "calculatedFrom" 7 4 15) (Some (mkPtok 43 "``" 7 19 16)) (mkPtok 40 "," 7 22 17)))); (mkFieldWithAttr (mkSpan (mkPtok 38 "match" 7 24 18) (mkPtok 40 "," 13 40 48)) [] (MatchField (mkSpan (mkPtok 38 "match" 7 24 18) (mkPtok 40 "," 13 40 48)) (mkMatchFieldDecl (mkSpan (mkPtok 38 "match" 7 24 18) (mkPtok 3 "}" 13 38 47)) (mkPtok 38 "match" 7 24 18) (mkPtok 42 "msg_type" 7 30 19) (mkPtok 17 "as" 7 39 20) (mkPtok 42 "int" 8 0 21) (mkPtok 2 "{" 9 0 23) [(mkMatchPair (mkSpan (mkPtok 31 """1""" 9 2 24) (mkPtok 40 "," 10 0 27)) (MKString (mkPtok 31 """1""" 9 2 24)) (mkPtok 39 ":" 9 6 25) (mkPtok 42 "As" 9 8 26) (Some (mkPtok 40 "," 10 0 27))); (mkMatchPair (mkSpan (mkPtok 31 (string_of_bytes [34; 97; 9; 98; 34]%N) 10 1 28) (mkPtok 40 "," 11 4 31)) (MKString (mkPtok 31 (string_of_bytes [34; 97; 9; 98; 34]%N) 10 1 28)) (mkPtok 39 ":" 11 0 29) (mkPtok 42 "A" 11 2 30) (Some (mkPtok 40 "," 11 4 31))); (mkMatchPair (mkSpan (mkPtok 31 """x y""" 11 6 32) (mkPtok 40 "," 13 4 35)) (MKString (mkPtok 31 """x y""" 11 6 32)) (mkPtok 39 ":" 12 0 33) (mkPtok 42 "repeatCount" 12 1 34) (Some (mkPtok 40 "," 13 4 35))); (mkMatchPair (mkSpan (mkPtok 31 (string_of_bytes [34; 240; 159; 152; 128; 34]%N) 13 5 36) (mkPtok 42 "u8x" 13 10 38)) (MKString (mkPtok 31 (string_of_bytes [34; 240; 159; 152; 128; 34]%N) 13 5 36)) (mkPtok 39 ":" 13 9 37) (mkPtok 42 "u8x" 13 10 38) None); (mkMatchPair (mkSpan (mkPtok 18 "[" 13 14 39) (mkPtok 40 "," 13 36 46)) (MKList (mkKeyList (mkSpan (mkPtok 18 "[" 13 14 39) (mkPtok 13 "]" 13 25 43)) (mkPtok 18 "[" 13 14 39) (mkPtok 30 "7" 13 17 40) [((mkPtok 40 "," 13 18 41), (mkPtok 30 "65535" 13 20 42))] (mkPtok 13 "]" 13 25 43))) (mkPtok 39 ":" 13 26 44) (mkPtok 42 "lengthOf" 13 27 45) (Some (mkPtok 40 "," 13 36 46)))] (mkPtok 3 "}" 13 38 47)) (mkPtok 40 "," 13 40 48))); (mkFieldWithAttr (mkSpan (mkPtok 9 "@tag(" 13 42 49) (mkPtok 40 "," 19 7 63)) [(FATag (mkSpan (mkPtok 9 "@tag(" 13 42 49) (mkPtok 6 ")" 14 6 51)) (mkTagAttr (mkSpan (mkPtok 9 "@tag(" 13 42 49) (mkPtok 6 ")" 14 6 51)) (mkPtok 9 "@tag(" 13 42 49) (mkPtok 30 "3" 14 4 50) (mkPtok 6 ")" 14 6 51))); (FALengthOf (mkSpan (mkPtok 7 "@lengthOf(" 15 0 52) (mkPtok 6 ")" 15 15 54)) (mkLengthOf (mkSpan (mkPtok 7 "@lengthOf(" 15 0 52) (mkPtok 6 ")" 15 15 54)) (mkPtok 7 "@lengthOf(" 15 0 52) (mkPtok 42 "asx" 15 11 53) (mkPtok 6 ")" 15 15 54))); (FAPadding (mkSpan (mkPtok 32 "@rightPad" 16 0 55) (mkPtok 6 ")" 18 0 59)) (mkPaddingAttr (mkSpan (mkPtok 32 "@rightPad" 16 0 55) (mkPtok 6 ")" 18 0 59)) (mkPtok 32 "@rightPad" 16 0 55) (mkPtok 8 "(" 16 9 56) (Some (mkPtok 33 "'\x00'" 17 4 57)) (mkPtok 6 ")" 18 0 59)))] (ObjectField (mkSpan (mkPtok 42 "string_" 18 2 60) (mkPtok 40 "," 19 7 63)) None (mkPtok 42 "string_" 18 2 60) (Some (mkPtok 42 "body" 18 10 61)) (Some (mkPtok 43 (string_of_bytes [96; 108; 105; 110; 101; 49; 10; 108; 105; 110; 101; 50; 96]%N) 18 14 62)) (mkPtok 40 "," 19 7 63))); (mkFieldWithAttr (mkSpan (mkPtok 12 "char[" 19 9 64) (mkPtok 40 "," 19 57 71)) [] (CheckSumField (mkSpan (mkPtok 12 "char[" 19 9 64) (mkPtok 40 "," 19 57 71)) (mkChecksumFieldDecl (mkSpan (mkPtok 12 "char[" 19 9 64) (mkPtok 40 "," 19 57 71)) (Some (TyFixed (mkSpan (mkPtok 12 "char[" 19 9 64) (mkPtok 13 "]" 19 17 66)) (mkFixedString (mkSpan (mkPtok 12 "char[" 19 9 64) (mkPtok 13 "]" 19 17 66)) (mkPtok 12 "char[" 19 9 64) (mkPtok 30 "7" 19 15 65) (mkPtok 13 "]" 19 17 66)))) (mkPtok 42 "Foo" 19 19 67) (mkCalculatedFrom (mkSpan (mkPtok 5 "@calculatedFrom(" 19 23 68) (mkPtok 6 ")" 19 55 70)) (mkPtok 5 "@calculatedFrom(" 19 23 68) (mkPtok 31 """// no comment""" 19 40 69) (mkPtok 6 ")" 19 55 70)) None (mkPtok 40 "," 19 57 71)))); (mkFieldWithAttr (mkSpan (mkPtok 7 "@lengthOf(" 19 58 72) (mkPtok 40 "," 21 9 79)) [(FALengthOf (mkSpan (mkPtok 7 "@lengthOf(" 19 58 72) (mkPtok 6 ")" 20 0 75)) (mkLengthOf (mkSpan (mkPtok 7 "@lengthOf(" 19 58 72) (mkPtok 6 ")" 20 0 75)) (mkPtok 7 "@lengthOf(" 19 58 72) (mkPtok 42 "Pad" 19 69 73) (mkPtok 6 ")" 20 0 75)))] (ObjectField (mkSpan (mkPtok 42 "trueish" 20 2 76) (mkPtok 40 "," 21 9 79)) None (mkPtok 42 "trueish" 20 2 76) (Some (mkPtok 42 "pack" 21 0 77)) (Some (mkPtok 43 "`a\`" 21 5 78)) (mkPtok 40 "," 21 9 79))); (mkFieldWithAttr (mkSpan (mkPtok 5 "@calculatedFrom(" 21 12 80) (mkPtok 40 "," 29 0 98)) [(FACalculatedFrom (mkSpan (mkPtok 5 "@calculatedFrom(" 21 12 80) (mkPtok 6 ")" 21 35 82)) (mkCalculatedFrom (mkSpan (mkPtok 5 "@calculatedFrom(" 21 12 80) (mkPtok 6 ")" 21 35 82)) (mkPtok 5 "@calculatedFrom(" 21 12 80) (mkPtok 31 """{,}""" 21 29 81) (mkPtok 6 ")" 21 35 82))); (FATag (mkSpan (mkPtok 9 "@tag(" 21 36 83) (mkPtok 6 ")" 22 4 85)) (mkTagAttr (mkSpan (mkPtok 9 "@tag(" 21 36 83) (mkPtok 6 ")" 22 4 85)) (mkPtok 9 "@tag(" 21 36 83) (mkPtok 30 "3" 21 42 84) (mkPtok 6 ")" 22 4 85)))] (LengthField (mkSpan (mkPtok 12 "char[" 23 0 86) (mkPtok 40 "," 29 0 98)) (mkLengthFieldDecl (mkSpan (mkPtok 12 "char[" 23 0 86) (mkPtok 40 "," 29 0 98)) (Some (TyFixed (mkSpan (mkPtok 12 "char[" 23 0 86) (mkPtok 13 "]" 24 0 89)) (mkFixedString (mkSpan (mkPtok 12 "char[" 23 0 86) (mkPtok 13 "]" 24 0 89)) (mkPtok 12 "char[" 23 0 86) (mkPtok 30 "0123456789" 23 6 87) (mkPtok 13 "]" 24 0 89)))) (mkPtok 42 "roots" 24 1 90) (mkLengthOf (mkSpan (mkPtok 7 "@lengthOf(" 25 4 91) (mkPtok 6 ")" 26 8 94)) (mkPtok 7 "@lengthOf(" 25 4 91) (mkPtok 42 "packetx" 26 0 93) (mkPtok 6 ")" 26 8 94)) (Some (mkPtok 43 (string_of_bytes [96; 116; 97; 98; 9; 104; 101; 114; 101; 96]%N) 26 9 95)) (mkPtok 40 "," 29 0 98)))); (mkFieldWithAttr (mkSpan (mkPtok 5 "@calculatedFrom(" 29 1 99) (mkPtok 40 "," 47 14 154)) [(FACalculatedFrom (mkSpan (mkPtok 5 "@calculatedFrom(" 29 1 99) (mkPtok 6 ")" 30 0 101)) (mkCalculatedFrom (mkSpan (mkPtok 5 "@calculatedFrom(" 29 1 99) (mkPtok 6 ")" 30 0 101)) (mkPtok 5 "@calculatedFrom(" 29 1 99) (mkPtok 31 (string_of_bytes [34; 97; 9; 98; 34]%N) 29 18 100) (mkPtok 6 ")" 30 0 101)))] (MatchField (mkSpan (mkPtok 38 "match" 31 0 102) (mkPtok 40 "," 47 14 154)) (mkMatchFieldDecl (mkSpan (mkPtok 38 "match" 31 0 102) (mkPtok 3 "}" 47 13 153)) (mkPtok 38 "match" 31 0 102) (mkPtok 42 "f32a" 34 0 105) (mkPtok 17 "as" 34 5 106) (mkPtok 42 "asx" 34 8 107) (mkPtok 2 "{" 34 12 108) [(mkMatchPair (mkSpan (mkPtok 30 "42" 34 14 109) (mkPtok 40 "," 35 13 112)) (MKDigits (mkPtok 30 "42" 34 14 109)) (mkPtok 39 ":" 34 17 110) (mkPtok 42 "lengthOf" 35 4 111) (Some (mkPtok 40 "," 35 13 112))); (mkMatchPair (mkSpan (mkPtok 18 "[" 35 14 113) (mkPtok 40 "," 36 0 120)) (MKList (mkKeyList (mkSpan (mkPtok 18 "[" 35 14 113) (mkPtok 13 "]" 35 29 117)) (mkPtok 18 "[" 35 14 113) (mkPtok 30 "0123456789" 35 16 114) [((mkPtok 40 "," 35 27 115), (mkPtok 30 "1" 35 28 116))] (mkPtok 13 "]" 35 29 117))) (mkPtok 39 ":" 35 31 118) (mkPtok 42 "asx" 35 33 119) (Some (mkPtok 40 "," 36 0 120))); (mkMatchPair (mkSpan (mkPtok 18 "[" 37 4 121) (mkPtok 40 "," 45 9 145)) (MKList (mkKeyList (mkSpan (mkPtok 18 "[" 37 4 121) (mkPtok 13 "]" 44 11 141)) (mkPtok 18 "[" 37 4 121) (mkPtok 30 "42" 38 0 123) [((mkPtok 40 "," 39 4 124), (mkPtok 30 "0123456789" 39 6 125)); ((mkPtok 40 "," 42 0 128), (mkPtok 30 "00" 42 2 129)); ((mkPtok 40 "," 42 5 130), (mkPtok 31 """1""" 43 4 131)); ((mkPtok 40 "," 43 8 132), (mkPtok 30 "3" 43 11 133)); ((mkPtok 40 "," 43 14 134), (mkPtok 30 "65535" 43 15 135)); ((mkPtok 40 "," 43 21 136), (mkPtok 31 """it's""" 44 0 138)); ((mkPtok 40 "," 44 7 139), (mkPtok 30 "3" 44 9 140))] (mkPtok 13 "]" 44 11 141))) (mkPtok 39 ":" 44 12 142) (mkPtok 42 "msg_type" 45 0 144) (Some (mkPtok 40 "," 45 9 145))); (mkMatchPair (mkSpan (mkPtok 31 """packet""" 46 4 146) (mkPtok 40 "," 46 27 149)) (MKString (mkPtok 31 """packet""" 46 4 146)) (mkPtok 39 ":" 46 13 147) (mkPtok 42 "repeatCount" 46 15 148) (Some (mkPtok 40 "," 46 27 149))); (mkMatchPair (mkSpan (mkPtok 31 """""" 46 29 150) (mkPtok 42 "chars" 47 7 152)) (MKString (mkPtok 31 """""" 46 29 150)) (mkPtok 39 ":" 47 4 151) (mkPtok 42 "chars" 47 7 152) None)] (mkPtok 3 "}" 47 13 153)) (mkPtok 40 "," 47 14 154))); (mkFieldWithAttr (mkSpan (mkPtok 14 "zchar[" 48 0 155) (mkPtok 40 "," 49 0 159)) [] (MetaField (mkSpan (mkPtok 14 "zchar[" 48 0 155) (mkPtok 40 "," 49 0 159)) None (mkMetaDecl (mkSpan (mkPtok 14 "zchar[" 48 0 155) (mkPtok 40 "," 49 0 159)) (TyFixed (mkSpan (mkPtok 14 "zchar[" 48 0 155) (mkPtok 13 "]" 48 7 157)) (mkFixedString (mkSpan (mkPtok 14 "zchar[" 48 0 155) (mkPtok 13 "]" 48 7 157)) (mkPtok 14 "zchar[" 48 0 155) (mkPtok 30 "0" 48 6 156) (mkPtok 13 "]" 48 7 157))) (mkPtok 42 "u" 48 9 158) None (mkPtok 40 "," 49 0 159))))] (mkPtok 3 "}" 49 2 160))); (DMeta (mkMetaDef (mkSpan (mkPtok 37 "MetaData" 50 0 162) (mkPtok 3 "}" 66 4 187)) (mkPtok 37 "MetaData" 50 0 162) (mkPtok 42 "charz" 52 4 164) (mkPtok 2 "{" 52 10 165) [(MIDecl (mkMetaDecl (mkSpan (mkPtok 14 "zchar[" 53 0 166) (mkPtok 40 "," 54 0 171)) (TyFixed (mkSpan (mkPtok 14 "zchar[" 53 0 166) (mkPtok 13 "]" 53 9 168)) (mkFixedString (mkSpan (mkPtok 14 "zchar[" 53 0 166) (mkPtok 13 "]" 53 9 168)) (mkPtok 14 "zchar[" 53 0 166) (mkPtok 30 "007" 53 6 167) (mkPtok 13 "]" 53 9 168))) (mkPtok 42 "Logon" 53 10 169) (Some (mkPtok 43 "`{ , }`" 53 16 170)) (mkPtok 40 "," 54 0 171))); (MIRef (mkRefMetaDecl (mkSpan (mkPtok 42 "u8x" 54 1 172) (mkPtok 40 "," 56 2 175)) (mkPtok 42 "u8x" 54 1 172) (mkPtok 42 "a1" 55 4 173) (Some (mkPtok 43 (string_of_bytes [96; 10; 96]%N) 55 8 174)) (mkPtok 40 "," 56 2 175))); (MIRef (mkRefMetaDecl (mkSpan (mkPtok 42 "f32a" 57 4 176) (mkPtok 40 "," 59 0 178)) (mkPtok 42 "f32a" 57 4 176) (mkPtok 42 "i8i8" 58 0 177) None (mkPtok 40 "," 59 0 178))); (MIDecl (mkMetaDecl (mkSpan (mkPtok 26 "i32" 60 0 179) (mkPtok 40 "," 62 0 181)) (TyBasic (mkSpan (mkPtok 26 "i32" 60 0 179) (mkPtok 26 "i32" 60 0 179)) (mkBasicType (mkSpan (mkPtok 26 "i32" 60 0 179) (mkPtok 26 "i32" 60 0 179)) (mkPtok 26 "i32" 60 0 179))) (mkPtok 42 "int" 61 0 180) None (mkPtok 40 "," 62 0 181))); (MIRef (mkRefMetaDecl (mkSpan (mkPtok 42 "packetx" 63 0 182) (mkPtok 40 "," 64 1 185)) (mkPtok 42 "packetx" 63 0 182) (mkPtok 42 "repeatCount" 63 8 183) (Some (mkPtok 43 (string_of_bytes [96; 10; 96]%N) 63 20 184)) (mkPtok 40 "," 64 1 185)))] (mkPtok 3 "}" 66 4 187))); (DMeta (mkMetaDef (mkSpan (mkPtok 37 "MetaData" 66 6 188) (mkPtok 3 "}" 72 16 218)) (mkPtok 37 "MetaData" 66 6 188) (mkPtok 42 "metadata" 66 15 189) (mkPtok 2 "{" 66 23 190) [(MIRef (mkRefMetaDecl (mkSpan (mkPtok 42 "matchKey" 67 0 191) (mkPtok 40 "," 70 4 194)) (mkPtok 42 "matchKey" 67 0 191) (mkPtok 42 "Header" 68 0 192) None (mkPtok 40 "," 70 4 194))); (MIDecl (mkMetaDecl (mkSpan (mkPtok 15 "string" 70 6 195) (mkPtok 40 "," 70 19 198)) (TyDynamic (mkSpan (mkPtok 15 "string" 70 6 195) (mkPtok 15 "string" 70 6 195)) (mkDynamicString (mkSpan (mkPtok 15 "string" 70 6 195) (mkPtok 15 "string" 70 6 195)) (mkPtok 15 "string" 70 6 195))) (mkPtok 42 "o" 70 13 196) (Some (mkPtok 43 "`a\`" 70 14 197)) (mkPtok 40 "," 70 19 198))); (MIDecl (mkMetaDecl (mkSpan (mkPtok 14 "zchar[" 70 21 199) (mkPtok 40 "," 70 37 203)) (TyFixed (mkSpan (mkPtok 14 "zchar[" 70 21 199) (mkPtok 13 "]" 70 30 201)) (mkFixedString (mkSpan (mkPtok 14 "zchar[" 70 21 199) (mkPtok 13 "]" 70 30 201)) (mkPtok 14 "zchar[" 70 21 199) (mkPtok 30 "1" 70 28 200) (mkPtok 13 "]" 70 30 201))) (mkPtok 42 "chars" 70 31 202) None (mkPtok 40 "," 70 37 203))); (MIDecl (mkMetaDecl (mkSpan (mkPtok 27 "i64" 70 39 204) (mkPtok 40 "," 70 61 207)) (TyBasic (mkSpan (mkPtok 27 "i64" 70 39 204) (mkPtok 27 "i64" 70 39 204)) (mkBasicType (mkSpan (mkPtok 27 "i64" 70 39 204) (mkPtok 27 "i64" 70 39 204)) (mkPtok 27 "i64" 70 39 204))) (mkPtok 42 "f32a" 70 43 205) (Some (mkPtok 43 "`100% of %d`" 70 49 206)) (mkPtok 40 "," 70 61 207))); (MIDecl (mkMetaDecl (mkSpan (mkPtok 23 "uint64" 71 0 208) (mkPtok 40 "," 71 23 211)) (TyBasic (mkSpan (mkPtok 23 "uint64" 71 0 208) (mkPtok 23 "uint64" 71 0 208)) (mkBasicType (mkSpan (mkPtok 23 "uint64" 71 0 208) (mkPtok 23 "uint64" 71 0 208)) (mkPtok 23 "uint64" 71 0 208))) (mkPtok 42 "crc" 71 8 209) (Some (mkPtok 43 (string_of_bytes [96; 116; 97; 98; 9; 104; 101; 114; 101; 96]%N) 71 12 210)) (mkPtok 40 "," 71 23 211))); (MIDecl (mkMetaDecl (mkSpan (mkPtok 14 "zchar[" 71 25 212) (mkPtok 40 "," 72 13 217)) (TyFixed (mkSpan (mkPtok 14 "zchar[" 71 25 212) (mkPtok 13 "]" 72 2 215)) (mkFixedString (mkSpan (mkPtok 14 "zchar[" 71 25 212) (mkPtok 13 "]" 72 2 215)) (mkPtok 14 "zchar[" 71 25 212) (mkPtok 30 "10" 72 0 214) (mkPtok 13 "]" 72 2 215))) (mkPtok 42 "matchKey" 72 4 216) None (mkPtok 40 "," 72 13 217)))] (mkPtok 3 "}" 72 16 218))); (DPacket (mkPacketDef (mkSpan (mkPtok 34 "root" 72 18 219) (mkPtok 3 "}" 76 5 233)) (Some (mkPtok 34 "root" 72 18 219)) (mkPtok 35 "packet" 72 23 220) (mkPtok 42 "_x" 72 30 221) (mkPtok 2 "{" 72 33 222) [(mkFieldWithAttr (mkSpan (mkPtok 32 "@leftPad" 72 35 223) (mkPtok 40 "," 76 4 232)) [(FAPadding (mkSpan (mkPtok 32 "@leftPad" 72 35 223) (mkPtok 6 ")" 73 2 226)) (mkPaddingAttr (mkSpan (mkPtok 32 "@leftPad" 72 35 223) (mkPtok 6 ")" 73 2 226)) (mkPtok 32 "@leftPad" 72 35 223) (mkPtok 8 "(" 73 0 225) None (mkPtok 6 ")" 73 2 226)))] (MetaField (mkSpan (mkPtok 12 "char[" 73 4 227) (mkPtok 40 "," 76 4 232)) None (mkMetaDecl (mkSpan (mkPtok 12 "char[" 73 4 227) (mkPtok 40 "," 76 4 232)) (TyFixed (mkSpan (mkPtok 12 "char[" 73 4 227) (mkPtok 13 "]" 75 0 229)) (mkFixedString (mkSpan (mkPtok 12 "char[" 73 4 227) (mkPtok 13 "]" 75 0 229)) (mkPtok 12 "char[" 73 4 227) (mkPtok 30 "00" 74 0 228) (mkPtok 13 "]" 75 0 229))) (mkPtok 42 "BodyLength" 75 2 230) (Some (mkPtok 43 (string_of_bytes [96; 195; 169; 96]%N) 76 0 231)) (mkPtok 40 "," 76 4 232))))] (mkPtok 3 "}" 76 5 233)))])).
Eval vm_compute in ("<<<M1368>>>" ++ check (runes_of_ascii "options{  o = """ ++ [28040; 24687]%N ++ runes_of_ascii """float = ' ' leftPad =
    ""a\\""
;
}  MetaData u8x { u8
//
// " ++ [128512]%N ++ runes_of_ascii " emoji
zchar ,A repeatCount ,repeatCount MetaDataX , // @lengthOf(
char[]// @lengthOf(
string_ ,
    packetx Foo , uint64 i8i8`{ , }`//x
,}packet
x { //	t
@leftPad( '0' )
T { int32
//	t
// packet A { u8 x, }
i8i8 `it's`,
char[]
rootA `line1
line2` ,  zchar[  7 //	t
]	leftPad
//
// @lengthOf(
, }
,// packet A { u8 x, }
}
")).
Eval vm_compute in ("<<<M1400>>>" ++ check (runes_of_ascii "root packet
// " ++ [27880; 37322]%N ++ runes_of_ascii "
// `tick` ""quote"" 'q'
x {
}
    packet trueish{ @rightPad(' '  )
    repeat u16 As `tab	here`
, }
    root  packet Packet { falsey
    @calculatedFrom( """ ++ [28040; 24687]%N ++ runes_of_ascii """) //	t
, @lengthOf(	u128
    ) repeat zchar[	42]
calculatedFrom `it's`
, u64 options1 @lengthOf( repeatCount )	, @rightPad
    (' '
    )
    @calculatedFrom( ""x y"" ) @rightPad ( '\x00') msg_type {
string A @calculatedFrom(  ""`tick`"" ) // trailing space 
, i16  Pad
@calculatedFrom( """ ++ [233]%N ++ runes_of_ascii "t" ++ [233]%N ++ runes_of_ascii """) `line1
line2` , float64
roots  @lengthOf(
body // `tick` ""quote"" 'q'
), }
    , @tag( // 50% %s
007 )f32 BodyLength  @lengthOf( float ) ,	Pad Foo  ,char[] chars `it's` , @calculatedFrom( """ ++ [233]%N ++ runes_of_ascii "t" ++ [233]%N ++ runes_of_ascii """
    )
Pad
{ repeat BodyLength
uint8x , match Pad
    as Foo{""packet""
    : i64_ ,
[
4294967296 ,""{,}"" ]
:BodyLength 10 :repeatCount
    ,[
0123456789 ,3 , 42
, ""\n""	, ""x y""]: Logon ,  [  10 , ""`tick`""
, 0123456789]: tag ,42
: trueish	} , repeat
//
// trailing space 
zchar[ 4294967296
] Foo `it's`,
}
    , } packet float
    {	@tag(1 ) u64 options1@calculatedFrom(""a\""b"" )
    ,}")).
Eval vm_compute in ("<<<M1432>>>" ++ check (runes_of_ascii "packet msg_type{} packet // @lengthOf(
tag /// triple
{
@tag( 1 ) @tag( 7
    )
trueish
@calculatedFrom(
    ""{,}"" )`a\` ,@calculatedFrom(""\n"") string BodyLength
, @lengthOf(
x) @calculatedFrom(
""abc"" )
@tag(
3 // @lengthOf(
) char[0123456789 ] a1 @calculatedFrom( ""\n"" ) ,  @leftPad
    ( // packet A { u8 x, }
'\x00' )
repeat i16 repeatCount, match int	as u{
3 :
    x	[ 3 ,""`tick`"" , ""`tick`""	]  : a1 ,
    [10 , 4294967296  ]
: string_,} , string_
    x ,u64// trailing space 
matchKey`line1
line2`, repeat len {int Foo ,
zchar[ 007 ] BodyLength`// not a comment` ,repeat packetx crc
    `tab	here` , } ,}root packet /// triple
chars
{@tag(
    00	) repeat uint64 i8i8
,zchar[ 7 ] matchKey`line1
line2`
, Z9_ @lengthOf( options1 )  , @calculatedFrom(
""{,}""
) int @calculatedFrom( //
""it's""	), @rightPad ( ) @leftPad
    ( ' ' ) // " ++ [27880; 37322]%N ++ runes_of_ascii "
@lengthOf(crc)
    // " ++ [27880; 37322]%N ++ runes_of_ascii "
    u128	stringy , // 50% %s
@lengthOf( //	t
options1
)uint32 options1
`// not a comment`
,repeat uint8x  zchar`" ++ [233]%N ++ runes_of_ascii "` , // " ++ [128512]%N ++ runes_of_ascii " emoji
}
")).
Eval vm_compute in ("<<<M1464>>>" ++ check (runes_of_ascii "// packet A { u8 x, }
packet	lengthOf
{@lengthOf(matchKey ) @leftPad ( '0'
)@lengthOf( x_y_z)	uint32 packetx@calculatedFrom(  ""x y""
) `{ , }`
, //
u16 i64_ @calculatedFrom( ""a\""b""	)`100% of %d`, }
    packet u8x { repeat repeatCount `crlf
line` , match T
//
// packet A { u8 x, }
as float {
[ 42,//	t
65535 ,
65535
    // " ++ [128512]%N ++ runes_of_ascii " emoji
    , 255 ,
3,"""" ,
""x y""
]
: trueish ,4294967296 : Z9_ ,	[ 65535
,	3 , 0	, 3 ,
    255 , 3  ] :
msg_type
, //	t
4294967296 : i8i8  , //	t
[ 42 ,
    /// triple
    0123456789, 10/// triple
]
:metadata , }
    , zchar[ 65535	] asx @lengthOf(
Packet )  , } packet // " ++ [27880; 37322]%N ++ runes_of_ascii "
Header {}

")).
Eval vm_compute in ("<<<M1496>>>" ++ check (runes_of_ascii "

")).
Eval vm_compute in ("<<<M1528>>>" ++ check (runes_of_ascii "packet
x { @lengthOf(metadata ) /// triple
repeat lengthOf ,	a1
    {
trueish
/// triple
// " ++ [128512]%N ++ runes_of_ascii " emoji
, repeat MetaDataX , }
,zchar[ 42// packet A { u8 x, }
]
rootA
, repeat trueish //
{ int32 charz , // `tick` ""quote"" 'q'
} , @leftPad (
' '	)
    int32 f32a @calculatedFrom( """" )`tab	here` , // trailing space 
@calculatedFrom(  """ ++ [233]%N ++ runes_of_ascii "t" ++ [233]%N ++ runes_of_ascii """
)
    MetaDataX{ f32
    // packet A { u8 x, }
    options1 @lengthOf(	pack) `` , chars A `u8 x,` , repeat
    uint32
_x
,	},	char[ 00
    ]stringy@lengthOf( len )// @lengthOf(
`tab	here`  ,
@lengthOf( Foo
    ) @leftPad ( )  char[ 0123456789 ]
i8i8 ,
match uint8x  as int
{""\" ++ [233]%N ++ runes_of_ascii """ :
    f32a ,// `tick` ""quote"" 'q'
""x y"" :
    uint8x ,// a // b
""x y""
    : Pad
, [3 ]  :
    // 50% %s
    charz
,  [ ""packet"" ]: // " ++ [27880; 37322]%N ++ runes_of_ascii "
Packet , }  ,
// @lengthOf(
//x
} // packet A { u8 x, }")).
Eval vm_compute in ("<<<M1560>>>" ++ check (@nil rune)).
Eval vm_compute in ("<<<T1560>>>" ++ terms [mkTok 0 "<EOF>" 1 0 false] (mkPacket (mkPtok 0 "<EOF>" 1 0 0) None [])).
Eval vm_compute in ("<<<M1592>>>" ++ check (runes_of_ascii "// " ++ [128512]%N ++ runes_of_ascii " emoji
packet	u128 { calculatedFrom @lengthOf( u8x )`" ++ [28040; 24687; 31867; 22411]%N ++ runes_of_ascii "`
    , body @lengthOf( f32a ) `crlf
line`
,char[]metadata
`" ++ [233]%N ++ runes_of_ascii "` ,falsey Z9_	,
    match Foo as
Pad
{ // packet A { u8 x, }
""CRC32"" //	t
: calculatedFrom	""1"" // @lengthOf(
: matchKey // a // b
, 3 : Foo
,0 : repeatCount,65535 :body ,[ ""// no comment""	, 4294967296
    ,
0 , 007 , ""a\\"" ,""it's""	,
42 , ""x y""
// @lengthOf(
// packet A { u8 x, }
] :
    lengthOf} , float32
repeatCount , repeat int
    //x
    x_y_z `u8 x,`,
    }	MetaData
    metadata
//	t
// packet A { u8 x, }
{
uint16
packetx`{ , }`
    ,	zchar[
0123456789] chars
    ,
i8
roots  ,
    float64 u
// " ++ [128512]%N ++ runes_of_ascii " emoji
//x
,char[
    42 ] crc `crlf
line`	,
uint16 x_y_z
, } packet u128{
    @rightPad (
    // " ++ [128512]%N ++ runes_of_ascii " emoji
    ' ' )@tag( 1)
@lengthOf(
    roots)
u32 crc  ,
}")).
Eval vm_compute in ("<<<M1624>>>" ++ check (runes_of_ascii "options { } options
{ int =// `tick` ""quote"" 'q'
'0'x	= true ; charz =char[
1
    ] crc= zchar[ 007 ]
;
    }")).
Eval vm_compute in ("<<<M1656>>>" ++ check (runes_of_ascii "packet options1
    {@calculatedFrom(
    /// triple
    """" ) @calculatedFrom(//	t
""\n""	) @tag(  1	)string i8i8 , @calculatedFrom(
""1"") Packet Foo ,
@lengthOf(tag
    )
char[ 3
]	u128`" ++ [28040; 24687; 31867; 22411]%N ++ runes_of_ascii "` , @calculatedFrom( ""// no comment""  )_x
    @lengthOf( leftPad), } root	packet
calculatedFrom { u8	lengthOf
,// c
@lengthOf( rootA )msg_type
    @calculatedFrom(	""a\""b"" ) , @rightPad
// @lengthOf(
// trailing space 
(
    '0' )packetx
    @calculatedFrom( ""abc"" ),}")).
Eval vm_compute in ("<<<M1688>>>" ++ check (runes_of_ascii "packet int { @lengthOf( msg_type
    ) uint8 Packet @lengthOf(  As
)
`100% of %d` , u {
    As ,  } ,
@calculatedFrom( ""`tick`"" ) repeat A /// triple
len
    // " ++ [27880; 37322]%N ++ runes_of_ascii "
    `a\` // 50% %s
, }
")).
Eval vm_compute in ("<<<M1720>>>" ++ check (runes_of_ascii "options { Header = false; Z9_ =65535 ; x_y_z =
""\n"";
Logon
= true // trailing space 
Header
//
// " ++ [128512]%N ++ runes_of_ascii " emoji
=// @lengthOf(
char[]}
")).
Eval vm_compute in ("<<<M1752>>>" ++ check (runes_of_ascii "root
packet f32a
{
    @rightPad ( '0')
    @tag( 42
    // " ++ [128512]%N ++ runes_of_ascii " emoji
    ) @calculatedFrom( ""1"" ) u8 // c
crc//x
, // 50% %s
}
")).
Eval vm_compute in ("<<<M1784>>>" ++ check (runes_of_ascii "
packet
string_  {
    match stringy as u { 007	:
    chars  , }
    , A
, @lengthOf( x_y_z )char[]
//x
// @lengthOf(
options1
    @lengthOf(// c
Logon )
`a\` , char[
// @lengthOf(
// c
1
]  A // packet A { u8 x, }
@calculatedFrom( ""1"" // " ++ [128512]%N ++ runes_of_ascii " emoji
) `say ""hi""` , @calculatedFrom( ""a	b""
    ) Z9_ // trailing space 
chars
,}
MetaData
    float{ float64 packetx, int64 u8x ,
    asx string_ ,u32 float
, falsey string_ , Header
f32a
`a\` ,} options { crc= true }
")).
Eval vm_compute in ("<<<T1784>>>" ++ terms [mkTok 35 "packet" 2 0 false; mkTok 42 "string_" 3 0 false; mkTok 2 "{" 3 9 false; mkTok 38 "match" 4 4 false; mkTok 42 "stringy" 4 10 false; mkTok 17 "as" 4 18 false; mkTok 42 "u" 4 21 false; mkTok 2 "{" 4 23 false; mkTok 30 "007" 4 25 false; mkTok 39 ":" 4 29 false; mkTok 42 "chars" 5 4 false; mkTok 40 "," 5 11 false; mkTok 3 "}" 5 13 false; mkTok 40 "," 6 4 false; mkTok 42 "A" 6 6 false; mkTok 40 "," 7 0 false; mkTok 7 "@lengthOf(" 7 2 false; mkTok 42 "x_y_z" 7 13 false; mkTok 6 ")" 7 19 false; mkTok 16 "char[]" 7 20 false; mkTok 44 "//x" 8 0 true; mkTok 44 "// @lengthOf(" 9 0 true; mkTok 42 "options1" 10 0 false; mkTok 7 "@lengthOf(" 11 4 false; mkTok 44 "// c" 11 14 true; mkTok 42 "Logon" 12 0 false; mkTok 6 ")" 12 6 false; mkTok 43 "`a\`" 13 0 false; mkTok 40 "," 13 5 false; mkTok 12 "char[" 13 7 false; mkTok 44 "// @lengthOf(" 14 0 true; mkTok 44 "// c" 15 0 true; mkTok 30 "1" 16 0 false; mkTok 13 "]" 17 0 false; mkTok 42 "A" 17 3 false; mkTok 44 "// packet A { u8 x, }" 17 5 true; mkTok 5 "@calculatedFrom(" 18 0 false; mkTok 31 """1""" 18 17 false; mkTok 44 (string_of_bytes [47; 47; 32; 240; 159; 152; 128; 32; 101; 109; 111; 106; 105]%N) 18 21 true; mkTok 6 ")" 19 0 false; mkTok 43 "`say ""hi""`" 19 2 false; mkTok 40 "," 19 13 false; mkTok 5 "@calculatedFrom(" 19 15 false; mkTok 31 (string_of_bytes [34; 97; 9; 98; 34]%N) 19 32 false; mkTok 6 ")" 20 4 false; mkTok 42 "Z9_" 20 6 false; mkTok 44 "// trailing space " 20 10 true; mkTok 42 "chars" 21 0 false; mkTok 40 "," 22 0 false; mkTok 3 "}" 22 1 false; mkTok 37 "MetaData" 23 0 false; mkTok 42 "float" 24 4 false; mkTok 2 "{" 24 9 false; mkTok 29 "float64" 24 11 false; mkTok 42 "packetx" 24 19 false; mkTok 40 "," 24 26 false; mkTok 27 "int64" 24 28 false; mkTok 42 "u8x" 24 34 false; mkTok 40 "," 24 38 false; mkTok 42 "asx" 25 4 false; mkTok 42 "string_" 25 8 false; mkTok 40 "," 25 16 false; mkTok 22 "u32" 25 17 false; mkTok 42 "float" 25 21 false; mkTok 40 "," 26 0 false; mkTok 42 "falsey" 26 2 false; mkTok 42 "string_" 26 9 false; mkTok 40 "," 26 17 false; mkTok 42 "Header" 26 19 false; mkTok 42 "f32a" 27 0 false; mkTok 43 "`a\`" 28 0 false; mkTok 40 "," 28 5 false; mkTok 3 "}" 28 6 false; mkTok 1 "options" 28 8 false; mkTok 2 "{" 28 16 false; mkTok 42 "crc" 28 18 false; mkTok 4 "=" 28 21 false; mkTok 10 "true" 28 23 false; mkTok 3 "}" 28 28 false; mkTok 0 "<EOF>" 29 0 false] (mkPacket (mkPtok 35 "packet" 2 0 0) (Some (mkPtok 3 "}" 28 28 78)) [(DPacket (mkPacketDef (mkSpan (mkPtok 35 "packet" 2 0 0) (mkPtok 3 "}" 22 1 49)) None (mkPtok 35 "packet" 2 0 0) (mkPtok 42 "string_" 3 0 1) (mkPtok 2 "{" 3 9 2) [(mkFieldWithAttr (mkSpan (mkPtok 38 "match" 4 4 3) (mkPtok 40 "," 6 4 13)) [] (MatchField (mkSpan (mkPtok 38 "match" 4 4 3) (mkPtok 40 "," 6 4 13)) (mkMatchFieldDecl (mkSpan (mkPtok 38 "match" 4 4 3) (mkPtok 3 "}" 5 13 12)) (mkPtok 38 "match" 4 4 3) (mkPtok 42 "stringy" 4 10 4) (mkPtok 17 "as" 4 18 5) (mkPtok 42 "u" 4 21 6) (mkPtok 2 "{" 4 23 7) [(mkMatchPair (mkSpan (mkPtok 30 "007" 4 25 8) (mkPtok 40 "," 5 11 11)) (MKDigits (mkPtok 30 "007" 4 25 8)) (mkPtok 39 ":" 4 29 9) (mkPtok 42 "chars" 5 4 10) (Some (mkPtok 40 "," 5 11 11)))] (mkPtok 3 "}" 5 13 12)) (mkPtok 40 "," 6 4 13))); (mkFieldWithAttr (mkSpan (mkPtok 42 "A" 6 6 14) (mkPtok 40 "," 7 0 15)) [] (ObjectField (mkSpan (mkPtok 42 "A" 6 6 14) (mkPtok 40 "," 7 0 15)) None (mkPtok 42 "A" 6 6 14) None None (mkPtok 40 "," 7 0 15))); (mkFieldWithAttr (mkSpan (mkPtok 7 "@lengthOf(" 7 2 16) (mkPtok 40 "," 13 5 28)) [(FALengthOf (mkSpan (mkPtok 7 "@lengthOf(" 7 2 16) (mkPtok 6 ")" 7 19 18)) (mkLengthOf (mkSpan (mkPtok 7 "@lengthOf(" 7 2 16) (mkPtok 6 ")" 7 19 18)) (mkPtok 7 "@lengthOf(" 7 2 16) (mkPtok 42 "x_y_z" 7 13 17) (mkPtok 6 ")" 7 19 18)))] (LengthField (mkSpan (mkPtok 16 "char[]" 7 20 19) (mkPtok 40 "," 13 5 28)) (mkLengthFieldDecl (mkSpan (mkPtok 16 "char[]" 7 20 19) (mkPtok 40 "," 13 5 28)) (Some (TyDynamic (mkSpan (mkPtok 16 "char[]" 7 20 19) (mkPtok 16 "char[]" 7 20 19)) (mkDynamicString (mkSpan (mkPtok 16 "char[]" 7 20 19) (mkPtok 16 "char[]" 7 20 19)) (mkPtok 16 "char[]" 7 20 19)))) (mkPtok 42 "options1" 10 0 22) (mkLengthOf (mkSpan (mkPtok 7 "@lengthOf(" 11 4 23) (mkPtok 6 ")" 12 6 26)) (mkPtok 7 "@lengthOf(" 11 4 23) (mkPtok 42 "Logon" 12 0 25) (mkPtok 6 ")" 12 6 26)) (Some (mkPtok 43 "`a\`" 13 0 27)) (mkPtok 40 "," 13 5 28)))); (mkFieldWithAttr (mkSpan (mkPtok 12 "char[" 13 7 29) (mkPtok 40 "," 19 13 41)) [] (CheckSumField (mkSpan (mkPtok 12 "char[" 13 7 29) (mkPtok 40 "," 19 13 41)) (mkChecksumFieldDecl (mkSpan (mkPtok 12 "char[" 13 7 29) (mkPtok 40 "," 19 13 41)) (Some (TyFixed (mkSpan (mkPtok 12 "char[" 13 7 29) (mkPtok 13 "]" 17 0 33)) (mkFixedString (mkSpan (mkPtok 12 "char[" 13 7 29) (mkPtok 13 "]" 17 0 33)) (mkPtok 12 "char[" 13 7 29) (mkPtok 30 "1" 16 0 32) (mkPtok 13 "]" 17 0 33)))) (mkPtok 42 "A" 17 3 34) (mkCalculatedFrom (mkSpan (mkPtok 5 "@calculatedFrom(" 18 0 36) (mkPtok 6 ")" 19 0 39)) (mkPtok 5 "@calculatedFrom(" 18 0 36) (mkPtok 31 """1""" 18 17 37) (mkPtok 6 ")" 19 0 39)) (Some (mkPtok 43 "`say ""hi""`" 19 2 40)) (mkPtok 40 "," 19 13 41)))); (mkFieldWithAttr (mkSpan (mkPtok 5 "@calculatedFrom(" 19 15 42) (mkPtok 40 "," 22 0 48)) [(FACalculatedFrom (mkSpan (mkPtok 5 "@calculatedFrom(" 19 15 42) (mkPtok 6 ")" 20 4 44)) (mkCalculatedFrom (mkSpan (mkPtok 5 "@calculatedFrom(" 19 15 42) (mkPtok 6 ")" 20 4 44)) (mkPtok 5 "@calculatedFrom(" 19 15 42) (mkPtok 31 (string_of_bytes [34; 97; 9; 98; 34]%N) 19 32 43) (mkPtok 6 ")" 20 4 44)))] (ObjectField (mkSpan (mkPtok 42 "Z9_" 20 6 45) (mkPtok 40 "," 22 0 48)) None (mkPtok 42 "Z9_" 20 6 45) (Some (mkPtok 42 "chars" 21 0 47)) None (mkPtok 40 "," 22 0 48)))] (mkPtok 3 "}" 22 1 49))); (DMeta (mkMetaDef (mkSpan (mkPtok 37 "MetaData" 23 0 50) (mkPtok 3 "}" 28 6 72)) (mkPtok 37 "MetaData" 23 0 50) (mkPtok 42 "float" 24 4 51) (mkPtok 2 "{" 24 9 52) [(MIDecl (mkMetaDecl (mkSpan (mkPtok 29 "float64" 24 11 53) (mkPtok 40 "," 24 26 55)) (TyBasic (mkSpan (mkPtok 29 "float64" 24 11 53) (mkPtok 29 "float64" 24 11 53)) (mkBasicType (mkSpan (mkPtok 29 "float64" 24 11 53) (mkPtok 29 "float64" 24 11 53)) (mkPtok 29 "float64" 24 11 53))) (mkPtok 42 "packetx" 24 19 54) None (mkPtok 40 "," 24 26 55))); (MIDecl (mkMetaDecl (mkSpan (mkPtok 27 "int64" 24 28 56) (mkPtok 40 "," 24 38 58)) (TyBasic (mkSpan (mkPtok 27 "int64" 24 28 56) (mkPtok 27 "int64" 24 28 56)) (mkBasicType (mkSpan (mkPtok 27 "int64" 24 28 56) (mkPtok 27 "int64" 24 28 56)) (mkPtok 27 "int64" 24 28 56))) (mkPtok 42 "u8x" 24 34 57) None (mkPtok 40 "," 24 38 58))); (MIRef (mkRefMetaDecl (mkSpan (mkPtok 42 "asx" 25 4 59) (mkPtok 40 "," 25 16 61)) (mkPtok 42 "asx" 25 4 59) (mkPtok 42 "string_" 25 8 60) None (mkPtok 40 "," 25 16 61))); (MIDecl (mkMetaDecl (mkSpan (mkPtok 22 "u32" 25 17 62) (mkPtok 40 "," 26 0 64)) (TyBasic (mkSpan (mkPtok 22 "u32" 25 17 62) (mkPtok 22 "u32" 25 17 62)) (mkBasicType (mkSpan (mkPtok 22 "u32" 25 17 62) (mkPtok 22 "u32" 25 17 62)) (mkPtok 22 "u32" 25 17 62))) (mkPtok 42 "float" 25 21 63) None (mkPtok 40 "," 26 0 64))); (MIRef (mkRefMetaDecl (mkSpan (mkPtok 42 "falsey" 26 2 65) (mkPtok 40 "," 26 17 67)) (mkPtok 42 "falsey" 26 2 65) (mkPtok 42 "string_" 26 9 66) None (mkPtok 40 "," 26 17 67))); (MIRef (mkRefMetaDecl (mkSpan (mkPtok 42 "Header" 26 19 68) (mkPtok 40 "," 28 5 71)) (mkPtok 42 "Header" 26 19 68) (mkPtok 42 "f32a" 27 0 69) (Some (mkPtok 43 "`a\`" 28 0 70)) (mkPtok 40 "," 28 5 71)))] (mkPtok 3 "}" 28 6 72))); (DOption (mkOptionDef (mkSpan (mkPtok 1 "options" 28 8 73) (mkPtok 3 "}" 28 28 78)) (mkPtok 1 "options" 28 8 73) (mkPtok 2 "{" 28 16 74) [(mkOptionDecl (mkSpan (mkPtok 42 "crc" 28 18 75) (mkPtok 10 "true" 28 23 77)) (mkPtok 42 "crc" 28 18 75) (mkPtok 4 "=" 28 21 76) (VTrue (mkSpan (mkPtok 10 "true" 28 23 77) (mkPtok 10 "true" 28 23 77)) (mkPtok 10 "true" 28 23 77)) None)] (mkPtok 3 "}" 28 28 78)))])).
Eval vm_compute in ("<<<M1816>>>" ++ check (runes_of_ascii "options{ i8i8
=
""" ++ [28040; 24687]%N ++ runes_of_ascii """ ;
    }")).
Eval vm_compute in ("<<<M1848>>>" ++ check (runes_of_ascii "MetaData packetx {  } 	 ")).
Eval vm_compute in ("<<<M1880>>>" ++ check (runes_of_ascii "
packet	A{
// trailing space 
// @lengthOf(
f64	stringy `100% of %d` , @calculatedFrom(""it's""
    )
@tag( 3
    ) @lengthOf(  repeatCount)char[] /// triple
u
@calculatedFrom(//x
""// no comment"" )
    ,
string uint8x `line1
line2` , } root packet MetaDataX
{u32 // c
matchKey`` // a // b
, @tag(3 ) metadata	{ zchar[
65535 ]  lengthOf , } , zchar[0123456789 ]T , repeat leftPad {match
    u128
as calculatedFrom { ""abc"":
    int
,
65535
    :_x
    , ""x y"" :
Z9_,
[ ""a	b""]:pack
, }
    ,pack
    { // @lengthOf(
zchar[ 4294967296] asx `u8 x,` ,
    char[] Z9_`{ , }`
,}// trailing space 
, match
    crc as T { 1// packet A { u8 x, }
: tag 7 : x_y_z ,
    ""x y""
// " ++ [128512]%N ++ runes_of_ascii " emoji
// a // b
:
calculatedFrom, }, i8 MetaDataX
    @lengthOf( metadata) , }, @lengthOf(u8x
) Packet { repeat i8i8 u8x// trailing space 
`{ , }` ,}
    ,
match
    Logon as /// triple
Foo {007:Foo ,}
,  @lengthOf( roots )
i64_ { zchar[ 255 ] rootA `doc`,char[10	]
msg_type // `tick` ""quote"" 'q'
`a\` ,
u8x@lengthOf( tag ) `// not a comment`, }
    ,
}
")).
Eval vm_compute in ("<<<M1912>>>" ++ check (runes_of_ascii "packet asx {
repeatCount
    @lengthOf( Header ) , repeat
    zchar[ 65535 //
]// 50% %s
int`say ""hi""`
, @tag( 65535 ) int8
asx``
    , @rightPad (
    )@tag( 42)
    @lengthOf( BodyLength )match u
as// 50% %s
int // a // b
{ ""\n"" :  lengthOf } // a // b
,}
")).
Eval vm_compute in ("<<<M1944>>>" ++ check (runes_of_ascii "MetaData
u128
{
// @lengthOf(
// trailing space 
u128 float
`" ++ [28040; 24687; 31867; 22411]%N ++ runes_of_ascii "` , }
// trailing space 
")).
Eval vm_compute in ("<<<M1976>>>" ++ check (runes_of_ascii "root// packet A { u8 x, }
packet
tag
    {float32 pack , repeat string
chars
    `say ""hi""` ,} root packet pack
{
    } packet msg_type {@tag( 42 ) T{ Z9_ , char[ 1  ] MetaDataX @calculatedFrom(""a\""b"")`{ , }` ,
repeat uint64 metadata, },  @lengthOf(Z9_) uint64
uint8x
,  }MetaData options1 { zchar[/// triple
00
    ] calculatedFrom `it's`
    , zchar[ 00] MetaDataX `say ""hi""` , uint32
// packet A { u8 x, }
//x
chars , lengthOf int , uint64
f32a , chars roots `100% of %d` , }
    MetaData
options1 {
u8x pack  , body
falsey ,Packet zchar `tab	here` , pack uint8x /// triple
, }
")).
Eval vm_compute in ("<<<M2008>>>" ++ check (runes_of_ascii "root packet SimpleMessage {
	uint16 MsgType `" ++ [28040; 24687; 31867; 22411]%N ++ runes_of_ascii "`,
	string JsonBody `Json" ++ [23383; 31526; 20018; 28040; 24687; 20307]%N ++ runes_of_ascii "`,
}")).
Eval vm_compute in ("<<<T2008>>>" ++ terms [mkTok 34 "root" 1 0 false; mkTok 35 "packet" 1 5 false; mkTok 42 "SimpleMessage" 1 12 false; mkTok 2 "{" 1 26 false; mkTok 21 "uint16" 2 1 false; mkTok 42 "MsgType" 2 8 false; mkTok 43 (string_of_bytes [96; 230; 182; 136; 230; 129; 175; 231; 177; 187; 229; 158; 139; 96]%N) 2 16 false; mkTok 40 "," 2 22 false; mkTok 15 "string" 3 1 false; mkTok 42 "JsonBody" 3 8 false; mkTok 43 (string_of_bytes [96; 74; 115; 111; 110; 229; 173; 151; 231; 172; 166; 228; 184; 178; 230; 182; 136; 230; 129; 175; 228; 189; 147; 96]%N) 3 17 false; mkTok 40 "," 3 29 false; mkTok 3 "}" 4 0 false; mkTok 0 "<EOF>" 4 1 false] (mkPacket (mkPtok 34 "root" 1 0 0) (Some (mkPtok 3 "}" 4 0 12)) [(DPacket (mkPacketDef (mkSpan (mkPtok 34 "root" 1 0 0) (mkPtok 3 "}" 4 0 12)) (Some (mkPtok 34 "root" 1 0 0)) (mkPtok 35 "packet" 1 5 1) (mkPtok 42 "SimpleMessage" 1 12 2) (mkPtok 2 "{" 1 26 3) [(mkFieldWithAttr (mkSpan (mkPtok 21 "uint16" 2 1 4) (mkPtok 40 "," 2 22 7)) [] (MetaField (mkSpan (mkPtok 21 "uint16" 2 1 4) (mkPtok 40 "," 2 22 7)) None (mkMetaDecl (mkSpan (mkPtok 21 "uint16" 2 1 4) (mkPtok 40 "," 2 22 7)) (TyBasic (mkSpan (mkPtok 21 "uint16" 2 1 4) (mkPtok 21 "uint16" 2 1 4)) (mkBasicType (mkSpan (mkPtok 21 "uint16" 2 1 4) (mkPtok 21 "uint16" 2 1 4)) (mkPtok 21 "uint16" 2 1 4))) (mkPtok 42 "MsgType" 2 8 5) (Some (mkPtok 43 (string_of_bytes [96; 230; 182; 136; 230; 129; 175; 231; 177; 187; 229; 158; 139; 96]%N) 2 16 6)) (mkPtok 40 "," 2 22 7)))); (mkFieldWithAttr (mkSpan (mkPtok 15 "string" 3 1 8) (mkPtok 40 "," 3 29 11)) [] (MetaField (mkSpan (mkPtok 15 "string" 3 1 8) (mkPtok 40 "," 3 29 11)) None (mkMetaDecl (mkSpan (mkPtok 15 "string" 3 1 8) (mkPtok 40 "," 3 29 11)) (TyDynamic (mkSpan (mkPtok 15 "string" 3 1 8) (mkPtok 15 "string" 3 1 8)) (mkDynamicString (mkSpan (mkPtok 15 "string" 3 1 8) (mkPtok 15 "string" 3 1 8)) (mkPtok 15 "string" 3 1 8))) (mkPtok 42 "JsonBody" 3 8 9) (Some (mkPtok 43 (string_of_bytes [96; 74; 115; 111; 110; 229; 173; 151; 231; 172; 166; 228; 184; 178; 230; 182; 136; 230; 129; 175; 228; 189; 147; 96]%N) 3 17 10)) (mkPtok 40 "," 3 29 11))))] (mkPtok 3 "}" 4 0 12)))])).
Eval vm_compute in ("<<<M2040>>>" ++ check (runes_of_ascii "MetaData repeatCount { float64 packetx,
} } root packet  metadata {
char _x @lengthOf( trueish ), @leftPad
( ' '// " ++ [27880; 37322]%N ++ runes_of_ascii "
)/// triple
char[] len`doc` , // packet A { u8 x, }
repeatCount , }
")).
Eval vm_compute in ("<<<M2072>>>" ++ check (runes_of_ascii "MetaData repeatCount { float64 packetx,
} root packet  metadata {
char string @lengthOf( trueish ), @leftPad
( ' '// " ++ [27880; 37322]%N ++ runes_of_ascii "
)/// triple
char[] len`doc` , // packet A { u8 x, }
repeatCount , }
")).
Eval vm_compute in ("<<<M2104>>>" ++ check (runes_of_ascii "MetaData repeatCount { float64 packetx,
} root packet  metadata {
char _x @lengthOf( trueish ), @leftPad
( // " ++ [27880; 37322]%N ++ runes_of_ascii "
)/// triple
char[] len`doc` , // packet A { u8 x, }
repeatCount , }
")).
Eval vm_compute in ("<<<M2136>>>" ++ check (runes_of_ascii "MetaData repeatCount { float64 packetx,
} root packet  metadata {
char _x @lengthOf( trueish ), @leftPad
( ' '// " ++ [27880; 37322]%N ++ runes_of_ascii "
)/// triple
char[] len`doc` , // packet A { u8 x, }
, repeatCount }
")).
Eval vm_compute in ("<<<M2168>>>" ++ check (runes_of_ascii "MetaData repeatCount { float64 packetx,
} root packet  metadata {
char _x @lengthOf( trueish ), @leftPad
( ' '// " ++ [27880; 37322]%N ++ runes_of_ascii "
)/// triple
char[] len`doc` , // packet A { u8 x, }
" ++ [252]%N ++ runes_of_ascii "ber , }
")).
Eval vm_compute in ("<<<M2200>>>" ++ check (runes_of_ascii "options{
leftPad
    =65535
;
 = true ; packetx=  '\x00' ; packetx
=  """ ++ [28040; 24687]%N ++ runes_of_ascii """MetaDataX= // " ++ [27880; 37322]%N ++ runes_of_ascii "
false }root // c
packet // packet A { u8 x, }
Pad { repeat
u8 Header
// packet A { u8 x, }
//	t
`{ , }`
// a // b
//x
, }
")).
Eval vm_compute in ("<<<M2232>>>" ++ check (runes_of_ascii "options{
leftPad
    =65535
;
a1 = true ; packetx=  ; '\x00' packetx
=  """ ++ [28040; 24687]%N ++ runes_of_ascii """MetaDataX= // " ++ [27880; 37322]%N ++ runes_of_ascii "
false }root // c
packet // packet A { u8 x, }
Pad { repeat
u8 Header
// packet A { u8 x, }
//	t
`{ , }`
// a // b
//x
, }
")).
Eval vm_compute in ("<<<M2264>>>" ++ check (runes_of_ascii "options{
leftPad
    =65535
;
a1 = true ; packetx=  '\x00' ; packetx
=  """ ++ [28040; 24687]%N ++ runes_of_ascii """MetaDataX")).
Eval vm_compute in ("<<<M2296>>>" ++ check (runes_of_ascii "options{
leftPad
    =65535
;
a1 = true ; packetx=  '\x00' ; packetx
=  """ ++ [28040; 24687]%N ++ runes_of_ascii """MetaDataX= // " ++ [27880; 37322]%N ++ runes_of_ascii "
false }root // c
packet // packet A { u8 x, }
Pad { repeat repeat
u8 Header
// packet A { u8 x, }
//	t
`{ , }`
// a // b
//x
, }
")).
Eval vm_compute in ("<<<M2328>>>" ++ check (runes_of_ascii "options{
leftPad
    =65535
;
a1 = true ; packetx=  '\x00' ; packetx
=  """ ++ [28040; 24687]%N ++ runes_of_ascii """MetaDataX= // " ++ [27880; 37322]%N ++ runes_of_ascii "
false }root // c
pack")).
Eval vm_compute in ("<<<M2360>>>" ++ check (runes_of_ascii "
packet float")).
Eval vm_compute in ("<<<M2392>>>" ++ check (runes_of_ascii "
packet float
{	@calculatedFrom( """ ++ [233]%N ++ runes_of_ascii "t" ++ [233]%N ++ runes_of_ascii """ )
@rightPad ( '\x00' ) )
    @calculatedFrom( ""x y"" ) string chars  ,
    // a // b
    char[0 ]
    u	@lengthOf( i8i8 ) `{ , }` ,repeat char[] o //x
`// not a comment`, } // c")).
Eval vm_compute in ("<<<M2424>>>" ++ check (runes_of_ascii "
packet float
{	@calculatedFrom( """ ++ [233]%N ++ runes_of_ascii "t" ++ [233]%N ++ runes_of_ascii """ )
@rightPad ( '\x00' )
    @calculatedFrom( ""x y"" ) string chars  =
    // a // b
    char[0 ]
    u	@lengthOf( i8i8 ) `{ , }` ,repeat char[] o //x
`// not a comment`, } // c")).
Eval vm_compute in ("<<<M2456>>>" ++ check (runes_of_ascii "
packet float
{	@calculatedFrom( """ ++ [233]%N ++ runes_of_ascii "t" ++ [233]%N ++ runes_of_ascii """ )
@rightPad ( '\x00' )
    @calculatedFrom( ""x y"" ) string chars  ,
    // a // b
    char[0 ]
    u	@lengthOf( i8i8  `{ , }` ,repeat char[] o //x
`// not a comment`, } // c")).
Eval vm_compute in ("<<<M2488>>>" ++ check (runes_of_ascii "
packet float
{	@calculatedFrom( """ ++ [233]%N ++ runes_of_ascii "t" ++ [233]%N ++ runes_of_ascii """ )
@rightPad ( '\x00' )
    @calculatedFrom( ""x y"" ) string chars  ,
    // a // b
    char[0 ]
    u	@lengthOf( i8i8 ) `{ , }` ,repeat char[] o //x
,`// not a comment` } // c")).
Eval vm_compute in ("<<<M2520>>>" ++ check (runes_of_ascii "
packet float
{	@calculatedFrom( """ ++ [233]%N ++ runes_of_ascii "t" ++ [233]%N ++ runes_of_ascii """ )
@rightPad ( '\x00' )
    @calculatedFrom( ""x y"" ) string chars  ,
    // a // b
    char[0 ]
    u	@lengthOf( " ++ [252]%N ++ runes_of_ascii "ber ) `{ , }` ,repeat char[] o //x
`// not a comment`, } // c")).
Eval vm_compute in ("<<<M2552>>>" ++ check (runes_of_ascii "root packet u128{
    repeat
    zchar[  ] u `" ++ [28040; 24687; 31867; 22411]%N ++ runes_of_ascii "` ,// `tick` ""quote"" 'q'
} packet i64_ {repeatCount
    `
` ,	} // " ++ [128512]%N ++ runes_of_ascii " emoji")).
Eval vm_compute in ("<<<M2584>>>" ++ check (runes_of_ascii "root packet u128{
    repeat
    zchar[ 65535 ] u `" ++ [28040; 24687; 31867; 22411]%N ++ runes_of_ascii "` ,// `tick` ""quote"" 'q'
} i64_ packet {repeatCount
    `
` ,	} // " ++ [128512]%N ++ runes_of_ascii " emoji")).
Eval vm_compute in ("<<<M2616>>>" ++ check (runes_of_ascii "root packet u128{
    repeat
    zchar[ 65535 ] u `" ++ [28040; 24687; 31867; 22411]%N ++ runes_of_ascii "` ,// `tick` ""quote"" 'q'
} packet ")).
Eval vm_compute in ("<<<M2648>>>" ++ check (runes_of_ascii "
MetaData
roots  int8
    BodyLength ,//	t
}
")).
Eval vm_compute in ("<<<M2680>>>" ++ check (runes_of_ascii "
MetaData
roots { int8
 /   BodyLength ,//	t
}
")).
Eval vm_compute in ("<<<M2712>>>" ++ check (runes_of_ascii "options {Packet ""1"" ""CRC32""i8i8 = false; leftPad =
    '\x00'
    // `tick` ""quote"" 'q'
    ; o=255  ;
    // packet A { u8 x, }
    }")).
Eval vm_compute in ("<<<M2744>>>" ++ check (runes_of_ascii "options {Packet = ""CRC32""i8i8 = false; leftPad 
    '\x00'
    // `tick` ""quote"" 'q'
    ; o=255  ;
    // packet A { u8 x, }
    }")).
Eval vm_compute in ("<<<M2776>>>" ++ check (runes_of_ascii "options {Packet = ""CRC32""i8i8 = false; leftPad =
    '\x00'
    // `tick` ""quote"" 'q'
    ; o=255  }
    // packet A { u8 x, }
    ;")).
Eval vm_compute in ("<<<M2808>>>" ++ check (runes_of_ascii "
int8 metadata { @rightPad (
    // packet A { u8 x, }
    ' ' ) repeat u32	A
,matchKey ,
    @lengthOf( string_ ) @lengthOf( body )
    // a // b
    @lengthOf(float  )	repeat
int32 u8x
    // c
    `tab	here`
, } // a // b")).
Eval vm_compute in ("<<<M2840>>>" ++ check (runes_of_ascii "
packet metadata { @rightPad (
    // packet A { u8 x, }
    ' ' )  u32	A
,matchKey ,
    @lengthOf( string_ ) @lengthOf( body )
    // a // b
    @lengthOf(float  )	repeat
int32 u8x
    // c
    `tab	here`
, } // a // b")).
Eval vm_compute in ("<<<M2872>>>" ++ check (runes_of_ascii "
packet metadata { @rightPad (
    // packet A { u8 x, }
    ' ' ) repeat u32	A
,matchKey ,
    string_ @lengthOf( ) @lengthOf( body )
    // a // b
    @lengthOf(float  )	repeat
int32 u8x
    // c
    `tab	here`
, } // a // b")).
Eval vm_compute in ("<<<M2904>>>" ++ check (runes_of_ascii "
packet metadata { @rightPad (
    // packet A { u8 x, }
    ' ' ) repeat u32	A
,matchKey ,
    @lengthOf( string_ ) @lengthOf( body )")).
Eval vm_compute in ("<<<M2936>>>" ++ check (runes_of_ascii "
packet metadata { @rightPad (
    // packet A { u8 x, }
    ' ' ) repeat u32	A
,matchKey ,
    @lengthOf( string_ ) @lengthOf( body )
    // a // b
    @lengthOf(float  )	repeat
int32 u8x
    // c
    `tab	here`
, , } // a // b")).
Eval vm_compute in ("<<<M2968>>>" ++ check (runes_of_ascii "x packet{
string
zchar , //	t
}
")).
Eval vm_compute in ("<<<M3000>>>" ++ check (runes_of_ascii "packet x{
string
zcha")).
Eval vm_compute in ("<<<M3032>>>" ++ check (runes_of_ascii "
MetaData Logon
 // c
}root packet
    Pad {
    } options
{
u
    =
    ""CRC32""
    // " ++ [128512]%N ++ runes_of_ascii " emoji
    i64_ = u16;
T =65535 x = ' '
    ; u128
= true ; }")).
Eval vm_compute in ("<<<M3064>>>" ++ check (runes_of_ascii "
MetaData Logon
{ // c
}root packet
    Pad {
    options }
{
u
    =
    ""CRC32""
    // " ++ [128512]%N ++ runes_of_ascii " emoji
    i64_ = u16;
T =65535 x = ' '
    ; u128
= true ; }")).
Eval vm_compute in ("<<<M3096>>>" ++ check (runes_of_ascii "
MetaData Logon
{ // c
}root packet
    Pad {
    } options
{
u
    =
    ""CRC32""")).
Eval vm_compute in ("<<<M3128>>>" ++ check (runes_of_ascii "
MetaData Logon
{ // c
}root packet
    Pad {
    } options
{
u
    =
    ""CRC32""
    // " ++ [128512]%N ++ runes_of_ascii " emoji
    i64_ = u16;
T =65535 x x = ' '
    ; u128
= true ; }")).
Eval vm_compute in ("<<<M3160>>>" ++ check (runes_of_ascii "
MetaData Logon
{ // c
}root packet
    Pad {
    } options
{
u
    =
    ""CRC32""
    // " ++ [128512]%N ++ runes_of_ascii " emoji
    i64_ = u16;
T =65535 x = ' '
    ; u128
= packet ; }")).
Eval vm_compute in ("<<<M3192>>>" ++ check (runes_of_ascii "
MetaData Logon
{ // c
}root packet
    Pad {
    } options
{
a" ++ [769]%N ++ runes_of_ascii "b
    =
    ""CRC32""
    // " ++ [128512]%N ++ runes_of_ascii " emoji
    i64_ = u16;
T =65535 x = ' '
    ; u128
= true ; }")).
Eval vm_compute in ("<<<M3224>>>" ++ check (runes_of_ascii "MetaData body{}
packet	Packet { { x_y_z @calculatedFrom(  ""a\\"")// `tick` ""quote"" 'q'
, }
")).
Eval vm_compute in ("<<<M3256>>>" ++ check (runes_of_ascii "MetaData body{}
packet	Packet { x_y_z @calculatedFrom(  ""a\\"")// `tick` ""quote"" 'q'
,")).
Eval vm_compute in ("<<<M3288>>>" ++ check (runes_of_ascii "packet")).
Eval vm_compute in ("<<<M3320>>>" ++ check (runes_of_ascii "packet f32a {} root packet len {repeat repeat u // " ++ [128512]%N ++ runes_of_ascii " emoji
`{ , }` , }
")).
Eval vm_compute in ("<<<M3352>>>" ++ check ([0]%N ++ runes_of_ascii "packet f32a {} root packet len {repeat u // " ++ [128512]%N ++ runes_of_ascii " emoji
`{ , }` , }
")).
Eval vm_compute in ("<<<M3384>>>" ++ check (runes_of_ascii "options{ _x=""\" ++ [233]%N ++ runes_of_ascii """;
    Logon = 10	; Foo= 7 i64_
;= char[]} options {
matchKey = ""// no comment"" // a // b
falsey = string
; trueish =
    4294967296
options1=
    ""it's"" string_	= true } options {
    /// triple
    }")).
Eval vm_compute in ("<<<M3416>>>" ++ check (runes_of_ascii "options{ _x=""\" ++ [233]%N ++ runes_of_ascii """;
    Logon = 10	; Foo= 7;
i64_= char[]} options {
matchKey = ""// no comment"" // a // b
falsey = 
; trueish =
    4294967296
options1=
    ""it's"" string_	= true } options {
    /// triple
    }")).
Eval vm_compute in ("<<<M3448>>>" ++ check (runes_of_ascii "options{ _x=""\" ++ [233]%N ++ runes_of_ascii """;
    Logon = 10	; Foo= ;7
i64_= char[]} options {
matchKey = ""// no comment"" // a // b
falsey = string
; trueish =
    4294967296
options1=
    ""it's"" string_	= true } options {
    /// triple
    }")).
Eval vm_compute in ("<<<M3480>>>" ++ check (runes_of_ascii "options{ _x=""\" ++ [233]%N ++ runes_of_ascii """;
    Logon = 10	; Foo= 7;
i64_= char[]} options {
matchKey = ""// no comment"" // a // b
falsey = string
; trueish =
    4294967296
options1=
    ""it's"" string_	= true")).
Eval vm_compute in ("<<<M3512>>>" ++ check (runes_of_ascii "trueish")).
Eval vm_compute in ("<<<M3544>>>" ++ check (runes_of_ascii "'0")).
Eval vm_compute in ("<<<M3576>>>" ++ check (runes_of_ascii """a\""")).
Eval vm_compute in ("<<<M3608>>>" ++ check (runes_of_ascii "{}{}")).
Eval vm_compute in ("<<<M3640>>>" ++ check (runes_of_ascii "packet A { x `d`, }")).
Eval vm_compute in ("<<<M3672>>>" ++ check (runes_of_ascii "packet A { match k as n { 1 : B 2 : C ""s"" : D [1] : E }, }")).
Eval vm_compute in ("<<<M3704>>>" ++ check (runes_of_ascii "packet A")).
Eval vm_compute in ("<<<M3736>>>" ++ check (runes_of_ascii "options { a = [1]; }")).
Eval vm_compute in ("<<<M3768>>>" ++ check ([65533]%N ++ runes_of_ascii "
" ++ [65533; 6]%N ++ runes_of_ascii "Z" ++ [65533; 30; 65533; 65533; 65533; 22; 65533; 65533]%N ++ runes_of_ascii "c" ++ [15]%N ++ runes_of_ascii "c" ++ [65533; 65533; 65533; 14]%N ++ runes_of_ascii "[" ++ [65533; 65533; 65533; 65533; 65533; 5; 65533]%N ++ runes_of_ascii "J)")).
Eval vm_compute in ("<<<M3800>>>" ++ check (runes_of_ascii "q" ++ [65533; 1941]%N ++ runes_of_ascii "\" ++ [65533]%N ++ runes_of_ascii "1" ++ [65533; 65533]%N ++ runes_of_ascii "S" ++ [65533]%N ++ runes_of_ascii "J" ++ [65533]%N)).
Eval vm_compute in ("<<<M3832>>>" ++ check ([28; 65533; 65533; 65533; 65533]%N)).
Eval vm_compute in ("<<<M3864>>>" ++ check ([65533; 65533]%N ++ runes_of_ascii "N6" ++ [65533]%N)).
Eval vm_compute in ("<<<M3896>>>" ++ check (runes_of_ascii "3" ++ [65533; 65533; 48108; 65533; 0; 65533]%N ++ runes_of_ascii ">}" ++ [65533]%N ++ runes_of_ascii "x" ++ [65533]%N ++ runes_of_ascii ":/%" ++ [65533; 65533; 65533]%N ++ runes_of_ascii "z" ++ [65533; 65533]%N ++ runes_of_ascii "z@7")).
Eval vm_compute in ("<<<M3928>>>" ++ check ([65533; 65533]%N ++ runes_of_ascii "c" ++ [65533; 65533; 65533]%N ++ runes_of_ascii "9" ++ [65533; 19; 23]%N ++ runes_of_ascii "B'" ++ [65533]%N ++ runes_of_ascii "!" ++ [65533; 65533]%N ++ runes_of_ascii "&h" ++ [1697; 65533; 65533]%N ++ runes_of_ascii ")." ++ [65533; 65533]%N ++ runes_of_ascii "2j" ++ [5]%N ++ runes_of_ascii "Mk" ++ [65533]%N)).
Eval vm_compute in ("<<<M3960>>>" ++ check ([65533; 127; 65533; 65533]%N ++ runes_of_ascii "'" ++ [65533; 17; 65533]%N ++ runes_of_ascii ",u" ++ [65533; 65533]%N ++ runes_of_ascii "'bE" ++ [65533; 65533; 65533; 65533; 65533]%N ++ runes_of_ascii "U" ++ [65533; 14]%N ++ runes_of_ascii "^:" ++ [65533]%N ++ runes_of_ascii "Z" ++ [6]%N ++ runes_of_ascii "/" ++ [65533; 1; 65533]%N ++ runes_of_ascii "aC$" ++ [65533]%N ++ runes_of_ascii "u" ++ [65533; 65533; 65533]%N)).
Eval vm_compute in ("<<<M3992>>>" ++ check (runes_of_ascii "H" ++ [65533; 65533]%N ++ runes_of_ascii "b" ++ [65533; 11]%N ++ runes_of_ascii "7@" ++ [65533]%N ++ runes_of_ascii "0U" ++ [65533]%N ++ runes_of_ascii "g_" ++ [30; 65533]%N ++ runes_of_ascii "J" ++ [65533; 22; 65533; 12; 65533; 65533]%N ++ runes_of_ascii "tu" ++ [1788]%N ++ runes_of_ascii "U" ++ [291; 568]%N ++ runes_of_ascii "^")).
