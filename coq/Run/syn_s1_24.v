From FP Require Import Lexer Parser ShowPT Digest.
From Coq Require Import String List NArith.
Import ListNotations.
Open Scope string_scope.
Set Printing Width 100000000.
Set Printing Depth 100000000.
Definition nl : string := String (Ascii.ascii_of_nat 10) EmptyString.
Definition model_lex (rs : list rune) : string := show_toks (lex rs).
Definition model_parse (rs : list rune) : string :=
  show_pt (match lex rs with Some ts => parse ts | None => None end).
(* coqc is slow at printing long strings: digests first (Digest.v), full texts on demand *)
Definition check (rs : list rune) : string :=
  digest (model_lex rs) ++ " " ++ digest (model_parse rs).
Definition full (rs : list rune) : string := model_lex rs ++ nl ++ model_parse rs.
Definition terms (ts : list tok) (t : pt) : string :=
  digest (show_toks (Some ts)) ++ " " ++ digest (show_pt (Some t)) ++ " " ++ digest (show_pt (parse ts)).
Definition terms_full (ts : list tok) (t : pt) : string :=
  show_toks (Some ts) ++ nl ++ show_pt (Some t) ++ nl ++ show_pt (parse ts).
Eval vm_compute in ("<<<M24>>>" ++ check (runes_of_ascii "root // c
packet msg_type	{ repeat// packet A { u8 x, }
A { repeat a1
    { repeat  len// trailing space 
, }
    ,pack string_,	zchar[ 7 ] msg_type  @lengthOf(u
) , } ,
    repeat
zchar[ // `tick` ""quote"" 'q'
00] tag, u64 o@calculatedFrom(""a\\""
    // trailing space 
    ) ,  }
    packet charz {@tag( 0
) // c
repeat
    // a // b
    u {
char[007 ] T,}, repeatCount @calculatedFrom( ""\n""
)
,
}packet
trueish {
@calculatedFrom( ""a\\"") @rightPad
    ('0' ) // `tick` ""quote"" 'q'
@lengthOf( BodyLength
) string asx @lengthOf( A	),
//x
/// triple
@rightPad (
' '
) match pack
    // @lengthOf(
    as leftPad
{  [
1 ]// a // b
:
body , [ ""a	b""]
:msg_type , // `tick` ""quote"" 'q'
10 :calculatedFrom ,7 : packetx,
""" ++ [233]%N ++ runes_of_ascii "t" ++ [233]%N ++ runes_of_ascii """
: roots ,	}
    ,@calculatedFrom(""1""
    )  repeat roots
    // c
    u8x
    ,}
")).
Eval vm_compute in ("<<<M56>>>" ++ check (runes_of_ascii "root packet calculatedFrom
{ /// triple
@calculatedFrom( // packet A { u8 x, }
""{,}"" ) match asx
as i8i8 { ""CRC32"" :f32a	,
    ""// no comment""	:Packet
    ,// trailing space 
}
,
    repeat zchar[ 7 ] len , //
match	options1// c
as string_	{""" ++ [128512]%N ++ runes_of_ascii """ : metadata ,	[""\n""
// `tick` ""quote"" 'q'
//
,
    ""CRC32"" , ""a\""b""]
:
// " ++ [128512]%N ++ runes_of_ascii " emoji
// " ++ [128512]%N ++ runes_of_ascii " emoji
x_y_z // " ++ [27880; 37322]%N ++ runes_of_ascii "
, 42
: string_	},@lengthOf(
msg_type) string Pad
// trailing space 
// @lengthOf(
`tab	here` ,
f32a
, match  Logon as stringy { 007
    :
    metadata	, [ 255 , 10 ] : matchKey, [
10 ,""1"",	""`tick`"" , 0]:roots , 255
// @lengthOf(
// c
: o,	[ 1 ]
: msg_type  , 0123456789
: falsey	} , } root packet
crc { }
    options
    { falsey =
false ;len =
""\" ++ [233]%N ++ runes_of_ascii """// " ++ [27880; 37322]%N ++ runes_of_ascii "
;A
=
""a	b""	lengthOf	= ""1""}
")).
Eval vm_compute in ("<<<M88>>>" ++ check (runes_of_ascii "MetaData rootA
    {}
options{ rootA= '\x00' zchar
    ='0' rootA= float64 ;  trueish	= 3 i64_
= float64 ; } options{
    body
= '0'
    ;T= ""CRC32"";matchKey = char[] ; }	packet
rootA {
    // " ++ [128512]%N ++ runes_of_ascii " emoji
    @lengthOf( //
Z9_)
    @rightPad('0' ) Packet calculatedFrom , }packet
body
    { match metadata
as asx {
    3 : Header 3: packetx	, [  10]
:	Packet, """"
// " ++ [27880; 37322]%N ++ runes_of_ascii "
// @lengthOf(
: pack
,
10  :
    // packet A { u8 x, }
    pack [  255 // `tick` ""quote"" 'q'
, // `tick` ""quote"" 'q'
""""
    , 00 // a // b
,""it's""] :
x } ,
}

")).
Eval vm_compute in ("<<<M120>>>" ++ check (runes_of_ascii "
MetaData stringy
{
    i16
    f32a , string  crc `crlf
line`
, f32 o `doc` , float64
calculatedFrom , }	packet o
{ @leftPad // `tick` ""quote"" 'q'
( )string_
    @lengthOf(packetx // `tick` ""quote"" 'q'
), }
")).
Eval vm_compute in ("<<<M152>>>" ++ check (@nil rune)).
Eval vm_compute in ("<<<M184>>>" ++ check (runes_of_ascii "root packet
repeatCount{ } // trailing space ")).
Eval vm_compute in ("<<<M216>>>" ++ check (runes_of_ascii "
")).
Eval vm_compute in ("<<<T216>>>" ++ terms [mkTok 0 "<EOF>" 2 0 false] (mkPacket (mkPtok 0 "<EOF>" 2 0 0) None [])).
Eval vm_compute in ("<<<M248>>>" ++ check (runes_of_ascii "packet
//
// " ++ [128512]%N ++ runes_of_ascii " emoji
body	{ @calculatedFrom(""" ++ [233]%N ++ runes_of_ascii "t" ++ [233]%N ++ runes_of_ascii """
) body {o@calculatedFrom(  """ ++ [233]%N ++ runes_of_ascii "t" ++ [233]%N ++ runes_of_ascii """ ), }
,  char  i8i8 @lengthOf(	int ) `doc` ,	@rightPad ( )
char[0 ] tag@lengthOf( repeatCount ), @calculatedFrom("""" ) x
@calculatedFrom(""" ++ [28040; 24687]%N ++ runes_of_ascii """ )
, @calculatedFrom( """"
)// c
Packet `u8 x,`
    , // trailing space 
string x_y_z, string_ charz
    `doc` ,	match packetx as
string_ {
    00  : asx , [  ""\n""] // " ++ [128512]%N ++ runes_of_ascii " emoji
: float , [""" ++ [28040; 24687]%N ++ runes_of_ascii """
// @lengthOf(
/// triple
, 3
] :
    Foo, [ 0123456789 ,  ""1""
] : o	""\" ++ [233]%N ++ runes_of_ascii """
    : _x  ,  0123456789
: matchKey
} , @rightPad (
' ')stringy
    { match calculatedFrom as o	{// c
1
:
x_y_z
, 007:pack
    ,3 : asx
    // trailing space 
    , // " ++ [27880; 37322]%N ++ runes_of_ascii "
} ,
} , @calculatedFrom( """"
    ) @tag(  4294967296 ) repeat i64// packet A { u8 x, }
chars  ,	} packet roots { }root
packet	rootA { @tag( 255 ) pack
`it's`, @lengthOf( f32a ) @tag(
    // a // b
    1 )
    @tag(
    7)
    // " ++ [128512]%N ++ runes_of_ascii " emoji
    Foo	@calculatedFrom(
//x
//
""" ++ [128512]%N ++ runes_of_ascii """ ) , repeat calculatedFrom { string leftPad
    `doc` ,repeat
crc{ pack @calculatedFrom( ""\" ++ [233]%N ++ runes_of_ascii """) ,
    } , }, string_ { match
i64_ as u8x  { 0 :
    _x
, } ,
}	, @lengthOf( u128
    ) // trailing space 
match asx as charz
{ [ """" ,	4294967296 ] : A,// trailing space 
1 : options1 , 4294967296 :  pack 42 :charz
, [ ""`tick`"" , // a // b
""x y"" /// triple
, // " ++ [27880; 37322]%N ++ runes_of_ascii "
255
] // packet A { u8 x, }
: stringy ,} ,
@rightPad (' ' ) @lengthOf(// c
Packet
    ) repeat uint8x trueish ,
} MetaData i8i8
    { zchar[
10]Z9_ , zchar[ 0 ] Header
    `a\`, stringy roots // " ++ [27880; 37322]%N ++ runes_of_ascii "
,}
    packet options1 // c
{
    char[10
] Pad @calculatedFrom( ""\n"") `// not a comment` , roots , @calculatedFrom( ""x y""
)	zchar, @rightPad ( '0' )
    repeat
string
//x
//
roots`say ""hi""` ,}
")).
Eval vm_compute in ("<<<M280>>>" ++ check (runes_of_ascii "  packet
chars	{ }
")).
Eval vm_compute in ("<<<M312>>>" ++ check (runes_of_ascii "MetaData  metadata
{	char[65535]	x ,
    // c
    char[]
    u128, pack Z9_ , }
    packet // " ++ [27880; 37322]%N ++ runes_of_ascii "
a1{ repeat float repeatCount, }
")).
Eval vm_compute in ("<<<M344>>>" ++ check (runes_of_ascii "packet
pack
    { pack calculatedFrom, len, u16	T,
@lengthOf( trueish) repeat
leftPad ,
@calculatedFrom( """ ++ [233]%N ++ runes_of_ascii "t" ++ [233]%N ++ runes_of_ascii """	) @rightPad	( '0' ) f64 a1,repeat
trueish Header , } 	 ")).
Eval vm_compute in ("<<<M376>>>" ++ check (runes_of_ascii "options
{
// @lengthOf(
// " ++ [128512]%N ++ runes_of_ascii " emoji
x = 10//
; x_y_z//
=
    true	;
Logon =
    i32 T =
    0 }
MetaData
f32a	{ zchar len,
    }
    options {string_
// c
//
= zchar[
007 ] ;
x_y_z = '0'
    ;
}MetaData msg_type // " ++ [27880; 37322]%N ++ runes_of_ascii "
{ lengthOf msg_type `two words`
    ,	i64 crc , packetx  zchar
`// not a comment`
, string// c
falsey `tab	here` , }
")).
Eval vm_compute in ("<<<M408>>>" ++ check (runes_of_ascii "
options{ }MetaData len {	crc Foo,
    char[]
x_y_z `// not a comment` ,  } options  {a1= """ ++ [128512]%N ++ runes_of_ascii """ ; _x  =
0123456789 _x =
true u8x
    = ""packet"" trueish=string// " ++ [27880; 37322]%N ++ runes_of_ascii "
;} //")).
Eval vm_compute in ("<<<M440>>>" ++ check (runes_of_ascii "MetaData T { char[] packetx //	t
,//
Packet
    u ,i32 _x , uint16
    asx, }
")).
Eval vm_compute in ("<<<T440>>>" ++ terms [mkTok 37 "MetaData" 1 0 false; mkTok 42 "T" 1 9 false; mkTok 2 "{" 1 11 false; mkTok 16 "char[]" 1 13 false; mkTok 42 "packetx" 1 20 false; mkTok 44 (string_of_bytes [47; 47; 9; 116]%N) 1 28 true; mkTok 40 "," 2 0 false; mkTok 44 "//" 2 1 true; mkTok 42 "Packet" 3 0 false; mkTok 42 "u" 4 4 false; mkTok 40 "," 4 6 false; mkTok 26 "i32" 4 7 false; mkTok 42 "_x" 4 11 false; mkTok 40 "," 4 14 false; mkTok 21 "uint16" 4 16 false; mkTok 42 "asx" 5 4 false; mkTok 40 "," 5 7 false; mkTok 3 "}" 5 9 false; mkTok 0 "<EOF>" 6 0 false] (mkPacket (mkPtok 37 "MetaData" 1 0 0) (Some (mkPtok 3 "}" 5 9 17)) [(DMeta (mkMetaDef (mkSpan (mkPtok 37 "MetaData" 1 0 0) (mkPtok 3 "}" 5 9 17)) (mkPtok 37 "MetaData" 1 0 0) (mkPtok 42 "T" 1 9 1) (mkPtok 2 "{" 1 11 2) [(MIDecl (mkMetaDecl (mkSpan (mkPtok 16 "char[]" 1 13 3) (mkPtok 40 "," 2 0 6)) (TyDynamic (mkSpan (mkPtok 16 "char[]" 1 13 3) (mkPtok 16 "char[]" 1 13 3)) (mkDynamicString (mkSpan (mkPtok 16 "char[]" 1 13 3) (mkPtok 16 "char[]" 1 13 3)) (mkPtok 16 "char[]" 1 13 3))) (mkPtok 42 "packetx" 1 20 4) None (mkPtok 40 "," 2 0 6))); (MIRef (mkRefMetaDecl (mkSpan (mkPtok 42 "Packet" 3 0 8) (mkPtok 40 "," 4 6 10)) (mkPtok 42 "Packet" 3 0 8) (mkPtok 42 "u" 4 4 9) None (mkPtok 40 "," 4 6 10))); (MIDecl (mkMetaDecl (mkSpan (mkPtok 26 "i32" 4 7 11) (mkPtok 40 "," 4 14 13)) (TyBasic (mkSpan (mkPtok 26 "i32" 4 7 11) (mkPtok 26 "i32" 4 7 11)) (mkBasicType (mkSpan (mkPtok 26 "i32" 4 7 11) (mkPtok 26 "i32" 4 7 11)) (mkPtok 26 "i32" 4 7 11))) (mkPtok 42 "_x" 4 11 12) None (mkPtok 40 "," 4 14 13))); (MIDecl (mkMetaDecl (mkSpan (mkPtok 21 "uint16" 4 16 14) (mkPtok 40 "," 5 7 16)) (TyBasic (mkSpan (mkPtok 21 "uint16" 4 16 14) (mkPtok 21 "uint16" 4 16 14)) (mkBasicType (mkSpan (mkPtok 21 "uint16" 4 16 14) (mkPtok 21 "uint16" 4 16 14)) (mkPtok 21 "uint16" 4 16 14))) (mkPtok 42 "asx" 5 4 15) None (mkPtok 40 "," 5 7 16)))] (mkPtok 3 "}" 5 9 17)))])).
Eval vm_compute in ("<<<M472>>>" ++ check (runes_of_ascii "// trailing space 
options{	tag =""1""	; } // @lengthOf(")).
Eval vm_compute in ("<<<M504>>>" ++ check (runes_of_ascii "packet
    o {  asx @calculatedFrom( ""CRC32""	)// " ++ [27880; 37322]%N ++ runes_of_ascii "
`it's`
    ,// @lengthOf(
@tag( 255 )
int16 T	, string
msg_type `
`
, } // trailing space 
packet Z9_ {	}
")).
Eval vm_compute in ("<<<M536>>>" ++ check (runes_of_ascii "options {tag =	false
    ;  } root packet MetaDataX {repeat a1 { // packet A { u8 x, }
match options1 as _x { [ ""1""
    ] :
    //	t
    leftPad
, """" :Z9_ ,  ""a	b"" :leftPad ,
/// triple
// " ++ [128512]%N ++ runes_of_ascii " emoji
},
} , o , // @lengthOf(
@lengthOf( x ) calculatedFrom { repeat charz ,char[ 0123456789 ]
Pad , } , } // a // b
MetaData roots
{ }
packet
// `tick` ""quote"" 'q'
//	t
T {
match metadata // " ++ [128512]%N ++ runes_of_ascii " emoji
as BodyLength {
    0 : Packet ,
""" ++ [233]%N ++ runes_of_ascii "t" ++ [233]%N ++ runes_of_ascii """
: f32a, //x
""// no comment""
: float ,
// packet A { u8 x, }
//	t
}, }
")).
Eval vm_compute in ("<<<M568>>>" ++ check (runes_of_ascii "
packet repeatCount {uint64
stringy, } options {
crc
    = '0' } //x
packet int{ repeat
a1 charz ,
    }options { matchKey = """ ++ [28040; 24687]%N ++ runes_of_ascii """  ;
    crc = """ ++ [28040; 24687]%N ++ runes_of_ascii """ ;roots= // `tick` ""quote"" 'q'
'\x00'
;
// packet A { u8 x, }
//x
} packet i8i8{ @calculatedFrom( ""abc""
) char[]_x `
`
,/// triple
uint8 Packet// a // b
`crlf
line` , string_ `{ , }` // " ++ [27880; 37322]%N ++ runes_of_ascii "
,
/// triple
// " ++ [128512]%N ++ runes_of_ascii " emoji
}")).
Eval vm_compute in ("<<<M600>>>" ++ check (runes_of_ascii "root packet a1
{ repeat
    /// triple
    zchar[
    42 ] x_y_z
,@tag( 65535 )@tag(
    // c
    7
    )// " ++ [128512]%N ++ runes_of_ascii " emoji
@lengthOf( // c
A	)	string
//
// " ++ [27880; 37322]%N ++ runes_of_ascii "
calculatedFrom ,
    string
    uint8x
    ,
    } MetaData
    // trailing space 
    MetaDataX
{
}")).
Eval vm_compute in ("<<<M632>>>" ++ check (runes_of_ascii "MetaData
As  {BodyLength roots	, uint8x
    uint8x
    , } packet pack
    /// triple
    { lengthOf `crlf
line` , char
i8i8 ,
@tag( 4294967296) zchar[ 1 ] Header `say ""hi""` , @tag(4294967296 )
    string chars,	}
// trailing space 
")).
Eval vm_compute in ("<<<M664>>>" ++ check (runes_of_ascii "  options { u8x =/// triple
zchar[ 00 ] ; }")).
Eval vm_compute in ("<<<T664>>>" ++ terms [mkTok 1 "options" 1 2 false; mkTok 2 "{" 1 10 false; mkTok 42 "u8x" 1 12 false; mkTok 4 "=" 1 16 false; mkTok 44 "/// triple" 1 17 true; mkTok 14 "zchar[" 2 0 false; mkTok 30 "00" 2 7 false; mkTok 13 "]" 2 10 false; mkTok 41 ";" 2 12 false; mkTok 3 "}" 2 14 false; mkTok 0 "<EOF>" 2 15 false] (mkPacket (mkPtok 1 "options" 1 2 0) (Some (mkPtok 3 "}" 2 14 9)) [(DOption (mkOptionDef (mkSpan (mkPtok 1 "options" 1 2 0) (mkPtok 3 "}" 2 14 9)) (mkPtok 1 "options" 1 2 0) (mkPtok 2 "{" 1 10 1) [(mkOptionDecl (mkSpan (mkPtok 42 "u8x" 1 12 2) (mkPtok 41 ";" 2 12 8)) (mkPtok 42 "u8x" 1 12 2) (mkPtok 4 "=" 1 16 3) (VType (mkSpan (mkPtok 14 "zchar[" 2 0 5) (mkPtok 13 "]" 2 10 7)) (TyFixed (mkSpan (mkPtok 14 "zchar[" 2 0 5) (mkPtok 13 "]" 2 10 7)) (mkFixedString (mkSpan (mkPtok 14 "zchar[" 2 0 5) (mkPtok 13 "]" 2 10 7)) (mkPtok 14 "zchar[" 2 0 5) (mkPtok 30 "00" 2 7 6) (mkPtok 13 "]" 2 10 7)))) (Some (mkPtok 41 ";" 2 12 8)))] (mkPtok 3 "}" 2 14 9)))])).
Eval vm_compute in ("<<<M696>>>" ++ check (runes_of_ascii "packet trueish {repeat As,	repeat uint8 repeatCount
, @tag( 255) match a1 as x_y_z{  3
    : i8i8 ,
    ""abc""
    : Z9_, 007
/// triple
//
: leftPad 65535
    : x_y_z ""a\""b"" :matchKey, } , @rightPad(' '
) // `tick` ""quote"" 'q'
string packetx , // " ++ [128512]%N ++ runes_of_ascii " emoji
}
")).
Eval vm_compute in ("<<<M728>>>" ++ check (runes_of_ascii "  MetaData
    options1  {
    }
")).
Eval vm_compute in ("<<<M760>>>" ++ check (runes_of_ascii "MetaData f32a
    // " ++ [27880; 37322]%N ++ runes_of_ascii "
    { msg_type u128 , } options {
    } // packet A { u8 x, }
root packet body {
    Packet `say ""hi""` , string
pack `doc`
    ,
//	t
//	t
@tag( 10
)
lengthOf{	char[]
    MetaDataX , u16 uint8x
    @calculatedFrom( """" )  , uint32 options1
`{ , }`
// a // b
//
, _x
,	} ,
} packet int{} MetaData
u128{ x_y_z
    As ,
    msg_type int`two words`,
    // c
    pack
repeatCount ,	tag Z9_
    , calculatedFrom
chars // a // b
`crlf
line`
    ,
}
")).
Eval vm_compute in ("<<<M792>>>" ++ check (runes_of_ascii "options { packetx
=zchar[4294967296 ] ; }
options {	} MetaData uint8x {char[ 3 ]	o `
`
// a // b
// `tick` ""quote"" 'q'
, crc string_ ,
    char[]
int,// trailing space 
}")).
Eval vm_compute in ("<<<M824>>>" ++ check (runes_of_ascii "MetaData T{
int64	i8i8 `` , }

")).
Eval vm_compute in ("<<<M856>>>" ++ check (runes_of_ascii "MetaData
zchar{ }
")).
Eval vm_compute in ("<<<M888>>>" ++ check (runes_of_ascii "packet u8x {int8 As ,}
")).
Eval vm_compute in ("<<<T888>>>" ++ terms [mkTok 35 "packet" 1 0 false; mkTok 42 "u8x" 1 7 false; mkTok 2 "{" 1 11 false; mkTok 24 "int8" 1 12 false; mkTok 42 "As" 1 17 false; mkTok 40 "," 1 20 false; mkTok 3 "}" 1 21 false; mkTok 0 "<EOF>" 2 0 false] (mkPacket (mkPtok 35 "packet" 1 0 0) (Some (mkPtok 3 "}" 1 21 6)) [(DPacket (mkPacketDef (mkSpan (mkPtok 35 "packet" 1 0 0) (mkPtok 3 "}" 1 21 6)) None (mkPtok 35 "packet" 1 0 0) (mkPtok 42 "u8x" 1 7 1) (mkPtok 2 "{" 1 11 2) [(mkFieldWithAttr (mkSpan (mkPtok 24 "int8" 1 12 3) (mkPtok 40 "," 1 20 5)) [] (MetaField (mkSpan (mkPtok 24 "int8" 1 12 3) (mkPtok 40 "," 1 20 5)) None (mkMetaDecl (mkSpan (mkPtok 24 "int8" 1 12 3) (mkPtok 40 "," 1 20 5)) (TyBasic (mkSpan (mkPtok 24 "int8" 1 12 3) (mkPtok 24 "int8" 1 12 3)) (mkBasicType (mkSpan (mkPtok 24 "int8" 1 12 3) (mkPtok 24 "int8" 1 12 3)) (mkPtok 24 "int8" 1 12 3))) (mkPtok 42 "As" 1 17 4) None (mkPtok 40 "," 1 20 5))))] (mkPtok 3 "}" 1 21 6)))])).
Eval vm_compute in ("<<<M920>>>" ++ check (runes_of_ascii "  MetaData
a1{leftPad Foo `" ++ [233]%N ++ runes_of_ascii "` , u16
    BodyLength , } packet packetx
    { } options{ As
= """" string_=// c
true ; } //	t
packet	zchar  { u128 @lengthOf( stringy ) `" ++ [28040; 24687; 31867; 22411]%N ++ runes_of_ascii "` ,
Z9_
As `` ,
    // a // b
    repeat u128
body`" ++ [233]%N ++ runes_of_ascii "` , @rightPad	( ' ') @tag( 42 ) match charz
as a1 {""packet"" :
i64_	, } , int
    /// triple
    @lengthOf( As
)  `// not a comment`
//
//x
, string body,@calculatedFrom( ""\n"" ) u8 a1, @leftPad( '0'// a // b
)repeat i64_ `a\` , pack
    stringy  , zchar[	00 ] len @calculatedFrom(
//x
// `tick` ""quote"" 'q'
""packet"" ) `
`,// trailing space 
}
")).
Eval vm_compute in ("<<<M952>>>" ++ check (runes_of_ascii "MetaData T {
// c
//	t
trueish i64_ `" ++ [233]%N ++ runes_of_ascii "` // c
, f64 a1	`doc` ,int A, u32
crc `" ++ [28040; 24687; 31867; 22411]%N ++ runes_of_ascii "`, charz _x
/// triple
// trailing space 
,
    // trailing space 
    char[// packet A { u8 x, }
255 ] msg_type `" ++ [28040; 24687; 31867; 22411]%N ++ runes_of_ascii "` , }
")).
Eval vm_compute in ("<<<M984>>>" ++ check (runes_of_ascii "  packet
// `tick` ""quote"" 'q'
//x
uint8x{zchar[
    007
] Header @calculatedFrom( ""a	b"")
,	}packet i64_{ @lengthOf(
crc ) /// triple
string metadata`
`//	t
, // trailing space 
uint8x // " ++ [128512]%N ++ runes_of_ascii " emoji
{ repeat
u16
string_ ,} , // `tick` ""quote"" 'q'
packetx
{ zchar[
    0123456789]calculatedFrom
@calculatedFrom(
""" ++ [28040; 24687]%N ++ runes_of_ascii """ ) `crlf
line`	, tag { zchar[  007 ] tag @calculatedFrom(""1"" )
, string u ,	repeat
A
T
,
roots
@lengthOf( Logon
    ) ,
    // `tick` ""quote"" 'q'
    } , u8x `` , int64 metadata `tab	here` , }
,
}  packet rootA{
@lengthOf( string_) Header A`doc` ,
match stringy as x {// c
0123456789: metadata,0 : rootA
,
42
:
A
, [ 00 ,""abc"" ]
:
T	4294967296 : a1 , // @lengthOf(
},
@rightPad
    (	'0' ) @tag(4294967296 )
    @tag( 00) char[] Foo @calculatedFrom( ""1"" ) `crlf
line`, }")).
Eval vm_compute in ("<<<M1016>>>" ++ check (runes_of_ascii "options {  Packet
=	0 trueish =
i8
;	}
")).
Eval vm_compute in ("<<<M1048>>>" ++ check (runes_of_ascii "options
    { As
= false}packet
stringy { @calculatedFrom( """ ++ [128512]%N ++ runes_of_ascii """ ) @calculatedFrom( ""\n"" ) MetaDataX metadata
, @tag(
7 ) u64
    packetx
, u
    // trailing space 
    charz `// not a comment` , @rightPad
(
    ) repeat
    i16	As`{ , }`
// c
//	t
,@rightPad
    (  ' '
) /// triple
@lengthOf(
uint8x )
msg_type { repeat options1 // " ++ [27880; 37322]%N ++ runes_of_ascii "
{ //	t
string
body , } , repeat int8 T//
,float32 len ,  pack
/// triple
// trailing space 
{repeat u16 lengthOf `line1
line2` ,  i32 len@lengthOf(	MetaDataX)
    `" ++ [233]%N ++ runes_of_ascii "`
,uint8x	{ BodyLength
    @lengthOf(
x
) , zchar[255]falsey	@lengthOf(Logon ) `crlf
line` , /// triple
},u8x
, } , /// triple
}
    // " ++ [27880; 37322]%N ++ runes_of_ascii "
    , @lengthOf( matchKey
) int ,} root packet Packet { uint16 u `a\`
,
    @leftPad ( '0'  )repeat
//x
// c
msg_type
{ falsey { repeatCount { uint32 As /// triple
, char[] repeatCount ,} ,}
, }
    ,@leftPad (
'0' )
@tag(
3) match
    calculatedFrom as asx { ""{,}""  : float, 1 : MetaDataX
""\" ++ [233]%N ++ runes_of_ascii """ // " ++ [27880; 37322]%N ++ runes_of_ascii "
:	_x
, 10
    :
string_ 0 : lengthOf
} /// triple
, u body
    , f32 Pad
    @lengthOf( MetaDataX )
    // c
    `" ++ [28040; 24687; 31867; 22411]%N ++ runes_of_ascii "` ,
    zchar[ 42 ]
u `{ , }`	, @calculatedFrom( ""\n"" )
    // c
    string
T
@lengthOf( tag //x
)
`say ""hi""` , // c
@rightPad // c
('0'
    )
match body as uint8x { [4294967296
, 1 , 00,
""x y""]
    : a1 ,} , } packet
a1 {@tag(
    42
)
    u16 tag @lengthOf(MetaDataX
    )
,
    uint64 int `tab	here` , string float
    @lengthOf( packetx )// " ++ [128512]%N ++ runes_of_ascii " emoji
`crlf
line`
    , float32 options1`it's` , @calculatedFrom( ""CRC32""	) uint8 crc , @tag( 1
) metadata f32a
    `" ++ [233]%N ++ runes_of_ascii "`
, @rightPad( // packet A { u8 x, }
'\x00'
)
@lengthOf(pack)	@tag( 0123456789 )float32 uint8x
    @lengthOf(
    u ) // packet A { u8 x, }
,
    //
    } root packet i8i8
{
    match
MetaDataX
as
o { ""// no comment""
: options1
,
7
: i8i8 [""{,}"", ""// no comment"",
""" ++ [128512]%N ++ runes_of_ascii """ , 10 , ""\n""	,  ""// no comment"" ,
""abc""
    ] : As ,
[ ""packet""
    /// triple
    ,  ""a\""b"", 10,""x y"",	""{,}"" ,
007
, 1,
""// no comment""
    ] :
BodyLength ,
} , // `tick` ""quote"" 'q'
@tag( 42 )
repeat string x_y_z	, f32a @calculatedFrom(
""""	) ,match u128 // a // b
as // a // b
Z9_ { """ ++ [28040; 24687]%N ++ runes_of_ascii """ : lengthOf ""\" ++ [233]%N ++ runes_of_ascii """
//
// `tick` ""quote"" 'q'
: string_ ,}, @tag( 4294967296	)  u64 f32a , string	roots@calculatedFrom(	""\" ++ [233]%N ++ runes_of_ascii """ ) // `tick` ""quote"" 'q'
`// not a comment`
, //	t
}
")).
Eval vm_compute in ("<<<M1080>>>" ++ check (runes_of_ascii " /// triple")).
Eval vm_compute in ("<<<M1112>>>" ++ check (runes_of_ascii "root packet
BodyLength{ rootA
//x
// " ++ [128512]%N ++ runes_of_ascii " emoji
roots , }")).
Eval vm_compute in ("<<<T1112>>>" ++ terms [mkTok 34 "root" 1 0 false; mkTok 35 "packet" 1 5 false; mkTok 42 "BodyLength" 2 0 false; mkTok 2 "{" 2 10 false; mkTok 42 "rootA" 2 12 false; mkTok 44 "//x" 3 0 true; mkTok 44 (string_of_bytes [47; 47; 32; 240; 159; 152; 128; 32; 101; 109; 111; 106; 105]%N) 4 0 true; mkTok 42 "roots" 5 0 false; mkTok 40 "," 5 6 false; mkTok 3 "}" 5 8 false; mkTok 0 "<EOF>" 5 9 false] (mkPacket (mkPtok 34 "root" 1 0 0) (Some (mkPtok 3 "}" 5 8 9)) [(DPacket (mkPacketDef (mkSpan (mkPtok 34 "root" 1 0 0) (mkPtok 3 "}" 5 8 9)) (Some (mkPtok 34 "root" 1 0 0)) (mkPtok 35 "packet" 1 5 1) (mkPtok 42 "BodyLength" 2 0 2) (mkPtok 2 "{" 2 10 3) [(mkFieldWithAttr (mkSpan (mkPtok 42 "rootA" 2 12 4) (mkPtok 40 "," 5 6 8)) [] (ObjectField (mkSpan (mkPtok 42 "rootA" 2 12 4) (mkPtok 40 "," 5 6 8)) None (mkPtok 42 "rootA" 2 12 4) (Some (mkPtok 42 "roots" 5 0 7)) None (mkPtok 40 "," 5 6 8)))] (mkPtok 3 "}" 5 8 9)))])).
Eval vm_compute in ("<<<M1144>>>" ++ check (runes_of_ascii "MetaData uint8x // trailing space 
{	}")).
Eval vm_compute in ("<<<M1176>>>" ++ check (runes_of_ascii "root packet MetaDataX
{@leftPad ( '\x00' ) i8i8 @lengthOf( charz
) ,repeat
u8x `crlf
line` ,
    zchar
    `line1
line2`
, @lengthOf( stringy
    )repeat
char[ 00] // trailing space 
packetx , }
    /// triple
    root packet
charz { match
    repeatCount
    as
float {
    //	t
    0123456789
    // a // b
    : Packet ,	}
    , string
    // trailing space 
    x_y_z	@calculatedFrom(
    ""\n"" )
,
    }  options
{ }")).
Eval vm_compute in ("<<<M1208>>>" ++ check (runes_of_ascii "MetaData
    // a // b
    options1 { Pad
options1	,// " ++ [27880; 37322]%N ++ runes_of_ascii "
}
// " ++ [128512]%N ++ runes_of_ascii " emoji
")).
Eval vm_compute in ("<<<M1240>>>" ++ check (runes_of_ascii "
")).
Eval vm_compute in ("<<<M1272>>>" ++ check (runes_of_ascii "packet // @lengthOf(
o{ }options
{Logon /// triple
=
    00 }
")).
Eval vm_compute in ("<<<M1304>>>" ++ check (runes_of_ascii "packet body { As
    @lengthOf(	string_ ) `two words`	, zchar[ 10 ] i8i8@calculatedFrom( ""`tick`""),
zchar[ 0 ]
    pack
@calculatedFrom(
""x y"" ) ,uint8 rootA @calculatedFrom( ""a\\""), i32
    msg_type ,
    u8 repeatCount ,}")).
Eval vm_compute in ("<<<M1336>>>" ++ check (runes_of_ascii "
packet
roots
    {f32 zchar @calculatedFrom( ""a	b""	) `crlf
line`
,
// @lengthOf(
/// triple
uint8x
`tab	here`// `tick` ""quote"" 'q'
, @rightPad ( // a // b
)
@rightPad ( '\x00' ) string int
@lengthOf( body
// " ++ [128512]%N ++ runes_of_ascii " emoji
//	t
)
,charz { repeat zchar{BodyLength
// " ++ [27880; 37322]%N ++ runes_of_ascii "
// c
@lengthOf( int // a // b
) , } , }	, @rightPad (
' ' ) repeat
    asx metadata  `it's`
    ,
float64 trueish ,repeat//	t
char[ 42] // " ++ [128512]%N ++ runes_of_ascii " emoji
body`a\` ,	@rightPad
    (
'0' )u32  body
    `tab	here` , } // `tick` ""quote"" 'q'
packet chars { @calculatedFrom(
    ""packet"" ) zchar[ 65535
]_x , float
    As`line1
line2`// c
, u64 asx @calculatedFrom(
""1"")
`u8 x,`
,crc	@lengthOf(  msg_type ) ,
    @tag(
    00 ) //x
@rightPad
    (// @lengthOf(
' ' // c
) /// triple
@calculatedFrom( """ ++ [233]%N ++ runes_of_ascii "t" ++ [233]%N ++ runes_of_ascii """ // " ++ [128512]%N ++ runes_of_ascii " emoji
) uint8
    calculatedFrom , }options {  Packet =' '
; Logon
/// triple
// trailing space 
=255
BodyLength =""// no comment""
} options { float =
""a	b"" ; f32a= """ ++ [28040; 24687]%N ++ runes_of_ascii """
    //	t
    len =
    uint64 ;
    calculatedFrom='0' // " ++ [27880; 37322]%N ++ runes_of_ascii "
; }")).
Eval vm_compute in ("<<<T1336>>>" ++ terms [mkTok 35 "packet" 2 0 false; mkTok 42 "roots" 3 0 false; mkTok 2 "{" 4 4 false; mkTok 28 "f32" 4 5 false; mkTok 42 "zchar" 4 9 false; mkTok 5 "@calculatedFrom(" 4 15 false; mkTok 31 (string_of_bytes [34; 97; 9; 98; 34]%N) 4 32 false; mkTok 6 ")" 4 38 false; mkTok 43 (string_of_bytes [96; 99; 114; 108; 102; 13; 10; 108; 105; 110; 101; 96]%N) 4 40 false; mkTok 40 "," 6 0 false; mkTok 44 "// @lengthOf(" 7 0 true; mkTok 44 "/// triple" 8 0 true; mkTok 42 "uint8x" 9 0 false; mkTok 43 (string_of_bytes [96; 116; 97; 98; 9; 104; 101; 114; 101; 96]%N) 10 0 false; mkTok 44 "// `tick` ""quote"" 'q'" 10 10 true; mkTok 40 "," 11 0 false; mkTok 32 "@rightPad" 11 2 false; mkTok 8 "(" 11 12 false; mkTok 44 "// a // b" 11 14 true; mkTok 6 ")" 12 0 false; mkTok 32 "@rightPad" 13 0 false; mkTok 8 "(" 13 10 false; mkTok 33 "'\x00'" 13 12 false; mkTok 6 ")" 13 19 false; mkTok 15 "string" 13 21 false; mkTok 42 "int" 13 28 false; mkTok 7 "@lengthOf(" 14 0 false; mkTok 42 "body" 14 11 false; mkTok 44 (string_of_bytes [47; 47; 32; 240; 159; 152; 128; 32; 101; 109; 111; 106; 105]%N) 15 0 true; mkTok 44 (string_of_bytes [47; 47; 9; 116]%N) 16 0 true; mkTok 6 ")" 17 0 false; mkTok 40 "," 18 0 false; mkTok 42 "charz" 18 1 false; mkTok 2 "{" 18 7 false; mkTok 36 "repeat" 18 9 false; mkTok 42 "zchar" 18 16 false; mkTok 2 "{" 18 21 false; mkTok 42 "BodyLength" 18 22 false; mkTok 44 (string_of_bytes [47; 47; 32; 230; 179; 168; 233; 135; 138]%N) 19 0 true; mkTok 44 "// c" 20 0 true; mkTok 7 "@lengthOf(" 21 0 false; mkTok 42 "int" 21 11 false; mkTok 44 "// a // b" 21 15 true; mkTok 6 ")" 22 0 false; mkTok 40 "," 22 2 false; mkTok 3 "}" 22 4 false; mkTok 40 "," 22 6 false; mkTok 3 "}" 22 8 false; mkTok 40 "," 22 10 false; mkTok 32 "@rightPad" 22 12 false; mkTok 8 "(" 22 22 false; mkTok 33 "' '" 23 0 false; mkTok 6 ")" 23 4 false; mkTok 36 "repeat" 23 6 false; mkTok 42 "asx" 24 4 false; mkTok 42 "metadata" 24 8 false; mkTok 43 "`it's`" 24 18 false; mkTok 40 "," 25 4 false; mkTok 29 "float64" 26 0 false; mkTok 42 "trueish" 26 8 false; mkTok 40 "," 26 16 false; mkTok 36 "repeat" 26 17 false; mkTok 44 (string_of_bytes [47; 47; 9; 116]%N) 26 23 true; mkTok 12 "char[" 27 0 false; mkTok 30 "42" 27 6 false; mkTok 13 "]" 27 8 false; mkTok 44 (string_of_bytes [47; 47; 32; 240; 159; 152; 128; 32; 101; 109; 111; 106; 105]%N) 27 10 true; mkTok 42 "body" 28 0 false; mkTok 43 "`a\`" 28 4 false; mkTok 40 "," 28 9 false; mkTok 32 "@rightPad" 28 11 false; mkTok 8 "(" 29 4 false; mkTok 33 "'0'" 30 0 false; mkTok 6 ")" 30 4 false; mkTok 22 "u32" 30 5 false; mkTok 42 "body" 30 10 false; mkTok 43 (string_of_bytes [96; 116; 97; 98; 9; 104; 101; 114; 101; 96]%N) 31 4 false; mkTok 40 "," 31 15 false; mkTok 3 "}" 31 17 false; mkTok 44 "// `tick` ""quote"" 'q'" 31 19 true; mkTok 35 "packet" 32 0 false; mkTok 42 "chars" 32 7 false; mkTok 2 "{" 32 13 false; mkTok 5 "@calculatedFrom(" 32 15 false; mkTok 31 """packet""" 33 4 false; mkTok 6 ")" 33 13 false; mkTok 14 "zchar[" 33 15 false; mkTok 30 "65535" 33 22 false; mkTok 13 "]" 34 0 false; mkTok 42 "_x" 34 1 false; mkTok 40 "," 34 4 false; mkTok 42 "float" 34 6 false; mkTok 42 "As" 35 4 false; mkTok 43 (string_of_bytes [96; 108; 105; 110; 101; 49; 10; 108; 105; 110; 101; 50; 96]%N) 35 6 false; mkTok 44 "// c" 36 6 true; mkTok 40 "," 37 0 false; mkTok 23 "u64" 37 2 false; mkTok 42 "asx" 37 6 false; mkTok 5 "@calculatedFrom(" 37 10 false; mkTok 31 """1""" 38 0 false; mkTok 6 ")" 38 3 false; mkTok 43 "`u8 x,`" 39 0 false; mkTok 40 "," 40 0 false; mkTok 42 "crc" 40 1 false; mkTok 7 "@lengthOf(" 40 5 false; mkTok 42 "msg_type" 40 17 false; mkTok 6 ")" 40 26 false; mkTok 40 "," 40 28 false; mkTok 9 "@tag(" 41 4 false; mkTok 30 "00" 42 4 false; mkTok 6 ")" 42 7 false; mkTok 44 "//x" 42 9 true; mkTok 32 "@rightPad" 43 0 false; mkTok 8 "(" 44 4 false; mkTok 44 "// @lengthOf(" 44 5 true; mkTok 33 "' '" 45 0 false; mkTok 44 "// c" 45 4 true; mkTok 6 ")" 46 0 false; mkTok 44 "/// triple" 46 2 true; mkTok 5 "@calculatedFrom(" 47 0 false; mkTok 31 (string_of_bytes [34; 195; 169; 116; 195; 169; 34]%N) 47 17 false; mkTok 44 (string_of_bytes [47; 47; 32; 240; 159; 152; 128; 32; 101; 109; 111; 106; 105]%N) 47 23 true; mkTok 6 ")" 48 0 false; mkTok 20 "uint8" 48 2 false; mkTok 42 "calculatedFrom" 49 4 false; mkTok 40 "," 49 19 false; mkTok 3 "}" 49 21 false; mkTok 1 "options" 49 22 false; mkTok 2 "{" 49 30 false; mkTok 42 "Packet" 49 33 false; mkTok 4 "=" 49 40 false; mkTok 33 "' '" 49 41 false; mkTok 41 ";" 50 0 false; mkTok 42 "Logon" 50 2 false; mkTok 44 "/// triple" 51 0 true; mkTok 44 "// trailing space " 52 0 true; mkTok 4 "=" 53 0 false; mkTok 30 "255" 53 1 false; mkTok 42 "BodyLength" 54 0 false; mkTok 4 "=" 54 11 false; mkTok 31 """// no comment""" 54 12 false; mkTok 3 "}" 55 0 false; mkTok 1 "options" 55 2 false; mkTok 2 "{" 55 10 false; mkTok 42 "float" 55 12 false; mkTok 4 "=" 55 18 false; mkTok 31 (string_of_bytes [34; 97; 9; 98; 34]%N) 56 0 false; mkTok 41 ";" 56 6 false; mkTok 42 "f32a" 56 8 false; mkTok 4 "=" 56 12 false; mkTok 31 (string_of_bytes [34; 230; 182; 136; 230; 129; 175; 34]%N) 56 14 false; mkTok 44 (string_of_bytes [47; 47; 9; 116]%N) 57 4 true; mkTok 42 "len" 58 4 false; mkTok 4 "=" 58 8 false; mkTok 23 "uint64" 59 4 false; mkTok 41 ";" 59 11 false; mkTok 42 "calculatedFrom" 60 4 false; mkTok 4 "=" 60 18 false; mkTok 33 "'0'" 60 19 false; mkTok 44 (string_of_bytes [47; 47; 32; 230; 179; 168; 233; 135; 138]%N) 60 23 true; mkTok 41 ";" 61 0 false; mkTok 3 "}" 61 2 false; mkTok 0 "<EOF>" 61 3 false] (mkPacket (mkPtok 35 "packet" 2 0 0) (Some (mkPtok 3 "}" 61 2 161)) [(DPacket (mkPacketDef (mkSpan (mkPtok 35 "packet" 2 0 0) (mkPtok 3 "}" 31 17 78)) None (mkPtok 35 "packet" 2 0 0) (mkPtok 42 "roots" 3 0 1) (mkPtok 2 "{" 4 4 2) [(mkFieldWithAttr (mkSpan (mkPtok 28 "f32" 4 5 3) (mkPtok 40 "," 6 0 9)) [] (CheckSumField (mkSpan (mkPtok 28 "f32" 4 5 3) (mkPtok 40 "," 6 0 9)) (mkChecksumFieldDecl (mkSpan (mkPtok 28 "f32" 4 5 3) (mkPtok 40 "," 6 0 9)) (Some (TyBasic (mkSpan (mkPtok 28 "f32" 4 5 3) (mkPtok 28 "f32" 4 5 3)) (mkBasicType (mkSpan (mkPtok 28 "f32" 4 5 3) (mkPtok 28 "f32" 4 5 3)) (mkPtok 28 "f32" 4 5 3)))) (mkPtok 42 "zchar" 4 9 4) (mkCalculatedFrom (mkSpan (mkPtok 5 "@calculatedFrom(" 4 15 5) (mkPtok 6 ")" 4 38 7)) (mkPtok 5 "@calculatedFrom(" 4 15 5) (mkPtok 31 (string_of_bytes [34; 97; 9; 98; 34]%N) 4 32 6) (mkPtok 6 ")" 4 38 7)) (Some (mkPtok 43 (string_of_bytes [96; 99; 114; 108; 102; 13; 10; 108; 105; 110; 101; 96]%N) 4 40 8)) (mkPtok 40 "," 6 0 9)))); (mkFieldWithAttr (mkSpan (mkPtok 42 "uint8x" 9 0 12) (mkPtok 40 "," 11 0 15)) [] (ObjectField (mkSpan (mkPtok 42 "uint8x" 9 0 12) (mkPtok 40 "," 11 0 15)) None (mkPtok 42 "uint8x" 9 0 12) None (Some (mkPtok 43 (string_of_bytes [96; 116; 97; 98; 9; 104; 101; 114; 101; 96]%N) 10 0 13)) (mkPtok 40 "," 11 0 15))); (mkFieldWithAttr (mkSpan (mkPtok 32 "@rightPad" 11 2 16) (mkPtok 40 "," 18 0 31)) [(FAPadding (mkSpan (mkPtok 32 "@rightPad" 11 2 16) (mkPtok 6 ")" 12 0 19)) (mkPaddingAttr (mkSpan (mkPtok 32 "@rightPad" 11 2 16) (mkPtok 6 ")" 12 0 19)) (mkPtok 32 "@rightPad" 11 2 16) (mkPtok 8 "(" 11 12 17) None (mkPtok 6 ")" 12 0 19))); (FAPadding (mkSpan (mkPtok 32 "@rightPad" 13 0 20) (mkPtok 6 ")" 13 19 23)) (mkPaddingAttr (mkSpan (mkPtok 32 "@rightPad" 13 0 20) (mkPtok 6 ")" 13 19 23)) (mkPtok 32 "@rightPad" 13 0 20) (mkPtok 8 "(" 13 10 21) (Some (mkPtok 33 "'\x00'" 13 12 22)) (mkPtok 6 ")" 13 19 23)))] (LengthField (mkSpan (mkPtok 15 "string" 13 21 24) (mkPtok 40 "," 18 0 31)) (mkLengthFieldDecl (mkSpan (mkPtok 15 "string" 13 21 24) (mkPtok 40 "," 18 0 31)) (Some (TyDynamic (mkSpan (mkPtok 15 "string" 13 21 24) (mkPtok 15 "string" 13 21 24)) (mkDynamicString (mkSpan (mkPtok 15 "string" 13 21 24) (mkPtok 15 "string" 13 21 24)) (mkPtok 15 "string" 13 21 24)))) (mkPtok 42 "int" 13 28 25) (mkLengthOf (mkSpan (mkPtok 7 "@lengthOf(" 14 0 26) (mkPtok 6 ")" 17 0 30)) (mkPtok 7 "@lengthOf(" 14 0 26) (mkPtok 42 "body" 14 11 27) (mkPtok 6 ")" 17 0 30)) None (mkPtok 40 "," 18 0 31)))); (mkFieldWithAttr (mkSpan (mkPtok 42 "charz" 18 1 32) (mkPtok 40 "," 22 10 48)) [] (InerObjectField (mkSpan (mkPtok 42 "charz" 18 1 32) (mkPtok 40 "," 22 10 48)) None (InerObjectDecl (mkSpan (mkPtok 42 "charz" 18 1 32) (mkPtok 3 "}" 22 8 47)) (mkPtok 42 "charz" 18 1 32) (mkPtok 2 "{" 18 7 33) [(InerObjectField (mkSpan (mkPtok 36 "repeat" 18 9 34) (mkPtok 40 "," 22 6 46)) (Some (mkPtok 36 "repeat" 18 9 34)) (InerObjectDecl (mkSpan (mkPtok 42 "zchar" 18 16 35) (mkPtok 3 "}" 22 4 45)) (mkPtok 42 "zchar" 18 16 35) (mkPtok 2 "{" 18 21 36) [(LengthField (mkSpan (mkPtok 42 "BodyLength" 18 22 37) (mkPtok 40 "," 22 2 44)) (mkLengthFieldDecl (mkSpan (mkPtok 42 "BodyLength" 18 22 37) (mkPtok 40 "," 22 2 44)) None (mkPtok 42 "BodyLength" 18 22 37) (mkLengthOf (mkSpan (mkPtok 7 "@lengthOf(" 21 0 40) (mkPtok 6 ")" 22 0 43)) (mkPtok 7 "@lengthOf(" 21 0 40) (mkPtok 42 "int" 21 11 41) (mkPtok 6 ")" 22 0 43)) None (mkPtok 40 "," 22 2 44)))] (mkPtok 3 "}" 22 4 45)) (mkPtok 40 "," 22 6 46))] (mkPtok 3 "}" 22 8 47)) (mkPtok 40 "," 22 10 48))); (mkFieldWithAttr (mkSpan (mkPtok 32 "@rightPad" 22 12 49) (mkPtok 40 "," 25 4 57)) [(FAPadding (mkSpan (mkPtok 32 "@rightPad" 22 12 49) (mkPtok 6 ")" 23 4 52)) (mkPaddingAttr (mkSpan (mkPtok 32 "@rightPad" 22 12 49) (mkPtok 6 ")" 23 4 52)) (mkPtok 32 "@rightPad" 22 12 49) (mkPtok 8 "(" 22 22 50) (Some (mkPtok 33 "' '" 23 0 51)) (mkPtok 6 ")" 23 4 52)))] (ObjectField (mkSpan (mkPtok 36 "repeat" 23 6 53) (mkPtok 40 "," 25 4 57)) (Some (mkPtok 36 "repeat" 23 6 53)) (mkPtok 42 "asx" 24 4 54) (Some (mkPtok 42 "metadata" 24 8 55)) (Some (mkPtok 43 "`it's`" 24 18 56)) (mkPtok 40 "," 25 4 57))); (mkFieldWithAttr (mkSpan (mkPtok 29 "float64" 26 0 58) (mkPtok 40 "," 26 16 60)) [] (MetaField (mkSpan (mkPtok 29 "float64" 26 0 58) (mkPtok 40 "," 26 16 60)) None (mkMetaDecl (mkSpan (mkPtok 29 "float64" 26 0 58) (mkPtok 40 "," 26 16 60)) (TyBasic (mkSpan (mkPtok 29 "float64" 26 0 58) (mkPtok 29 "float64" 26 0 58)) (mkBasicType (mkSpan (mkPtok 29 "float64" 26 0 58) (mkPtok 29 "float64" 26 0 58)) (mkPtok 29 "float64" 26 0 58))) (mkPtok 42 "trueish" 26 8 59) None (mkPtok 40 "," 26 16 60)))); (mkFieldWithAttr (mkSpan (mkPtok 36 "repeat" 26 17 61) (mkPtok 40 "," 28 9 69)) [] (MetaField (mkSpan (mkPtok 36 "repeat" 26 17 61) (mkPtok 40 "," 28 9 69)) (Some (mkPtok 36 "repeat" 26 17 61)) (mkMetaDecl (mkSpan (mkPtok 12 "char[" 27 0 63) (mkPtok 40 "," 28 9 69)) (TyFixed (mkSpan (mkPtok 12 "char[" 27 0 63) (mkPtok 13 "]" 27 8 65)) (mkFixedString (mkSpan (mkPtok 12 "char[" 27 0 63) (mkPtok 13 "]" 27 8 65)) (mkPtok 12 "char[" 27 0 63) (mkPtok 30 "42" 27 6 64) (mkPtok 13 "]" 27 8 65))) (mkPtok 42 "body" 28 0 67) (Some (mkPtok 43 "`a\`" 28 4 68)) (mkPtok 40 "," 28 9 69)))); (mkFieldWithAttr (mkSpan (mkPtok 32 "@rightPad" 28 11 70) (mkPtok 40 "," 31 15 77)) [(FAPadding (mkSpan (mkPtok 32 "@rightPad" 28 11 70) (mkPtok 6 ")" 30 4 73)) (mkPaddingAttr (mkSpan (mkPtok 32 "@rightPad" 28 11 70) (mkPtok 6 ")" 30 4 73)) (mkPtok 32 "@rightPad" 28 11 70) (mkPtok 8 "(" 29 4 71) (Some (mkPtok 33 "'0'" 30 0 72)) (mkPtok 6 ")" 30 4 73)))] (MetaField (mkSpan (mkPtok 22 "u32" 30 5 74) (mkPtok 40 "," 31 15 77)) None (mkMetaDecl (mkSpan (mkPtok 22 "u32" 30 5 74) (mkPtok 40 "," 31 15 77)) (TyBasic (mkSpan (mkPtok 22 "u32" 30 5 74) (mkPtok 22 "u32" 30 5 74)) (mkBasicType (mkSpan (mkPtok 22 "u32" 30 5 74) (mkPtok 22 "u32" 30 5 74)) (mkPtok 22 "u32" 30 5 74))) (mkPtok 42 "body" 30 10 75) (Some (mkPtok 43 (string_of_bytes [96; 116; 97; 98; 9; 104; 101; 114; 101; 96]%N) 31 4 76)) (mkPtok 40 "," 31 15 77))))] (mkPtok 3 "}" 31 17 78))); (DPacket (mkPacketDef (mkSpan (mkPtok 35 "packet" 32 0 80) (mkPtok 3 "}" 49 21 126)) None (mkPtok 35 "packet" 32 0 80) (mkPtok 42 "chars" 32 7 81) (mkPtok 2 "{" 32 13 82) [(mkFieldWithAttr (mkSpan (mkPtok 5 "@calculatedFrom(" 32 15 83) (mkPtok 40 "," 34 4 90)) [(FACalculatedFrom (mkSpan (mkPtok 5 "@calculatedFrom(" 32 15 83) (mkPtok 6 ")" 33 13 85)) (mkCalculatedFrom (mkSpan (mkPtok 5 "@calculatedFrom(" 32 15 83) (mkPtok 6 ")" 33 13 85)) (mkPtok 5 "@calculatedFrom(" 32 15 83) (mkPtok 31 """packet""" 33 4 84) (mkPtok 6 ")" 33 13 85)))] (MetaField (mkSpan (mkPtok 14 "zchar[" 33 15 86) (mkPtok 40 "," 34 4 90)) None (mkMetaDecl (mkSpan (mkPtok 14 "zchar[" 33 15 86) (mkPtok 40 "," 34 4 90)) (TyFixed (mkSpan (mkPtok 14 "zchar[" 33 15 86) (mkPtok 13 "]" 34 0 88)) (mkFixedString (mkSpan (mkPtok 14 "zchar[" 33 15 86) (mkPtok 13 "]" 34 0 88)) (mkPtok 14 "zchar[" 33 15 86) (mkPtok 30 "65535" 33 22 87) (mkPtok 13 "]" 34 0 88))) (mkPtok 42 "_x" 34 1 89) None (mkPtok 40 "," 34 4 90)))); (mkFieldWithAttr (mkSpan (mkPtok 42 "float" 34 6 91) (mkPtok 40 "," 37 0 95)) [] (ObjectField (mkSpan (mkPtok 42 "float" 34 6 91) (mkPtok 40 "," 37 0 95)) None (mkPtok 42 "float" 34 6 91) (Some (mkPtok 42 "As" 35 4 92)) (Some (mkPtok 43 (string_of_bytes [96; 108; 105; 110; 101; 49; 10; 108; 105; 110; 101; 50; 96]%N) 35 6 93)) (mkPtok 40 "," 37 0 95))); (mkFieldWithAttr (mkSpan (mkPtok 23 "u64" 37 2 96) (mkPtok 40 "," 40 0 102)) [] (CheckSumField (mkSpan (mkPtok 23 "u64" 37 2 96) (mkPtok 40 "," 40 0 102)) (mkChecksumFieldDecl (mkSpan (mkPtok 23 "u64" 37 2 96) (mkPtok 40 "," 40 0 102)) (Some (TyBasic (mkSpan (mkPtok 23 "u64" 37 2 96) (mkPtok 23 "u64" 37 2 96)) (mkBasicType (mkSpan (mkPtok 23 "u64" 37 2 96) (mkPtok 23 "u64" 37 2 96)) (mkPtok 23 "u64" 37 2 96)))) (mkPtok 42 "asx" 37 6 97) (mkCalculatedFrom (mkSpan (mkPtok 5 "@calculatedFrom(" 37 10 98) (mkPtok 6 ")" 38 3 100)) (mkPtok 5 "@calculatedFrom(" 37 10 98) (mkPtok 31 """1""" 38 0 99) (mkPtok 6 ")" 38 3 100)) (Some (mkPtok 43 "`u8 x,`" 39 0 101)) (mkPtok 40 "," 40 0 102)))); (mkFieldWithAttr (mkSpan (mkPtok 42 "crc" 40 1 103) (mkPtok 40 "," 40 28 107)) [] (LengthField (mkSpan (mkPtok 42 "crc" 40 1 103) (mkPtok 40 "," 40 28 107)) (mkLengthFieldDecl (mkSpan (mkPtok 42 "crc" 40 1 103) (mkPtok 40 "," 40 28 107)) None (mkPtok 42 "crc" 40 1 103) (mkLengthOf (mkSpan (mkPtok 7 "@lengthOf(" 40 5 104) (mkPtok 6 ")" 40 26 106)) (mkPtok 7 "@lengthOf(" 40 5 104) (mkPtok 42 "msg_type" 40 17 105) (mkPtok 6 ")" 40 26 106)) None (mkPtok 40 "," 40 28 107)))); (mkFieldWithAttr (mkSpan (mkPtok 9 "@tag(" 41 4 108) (mkPtok 40 "," 49 19 125)) [(FATag (mkSpan (mkPtok 9 "@tag(" 41 4 108) (mkPtok 6 ")" 42 7 110)) (mkTagAttr (mkSpan (mkPtok 9 "@tag(" 41 4 108) (mkPtok 6 ")" 42 7 110)) (mkPtok 9 "@tag(" 41 4 108) (mkPtok 30 "00" 42 4 109) (mkPtok 6 ")" 42 7 110))); (FAPadding (mkSpan (mkPtok 32 "@rightPad" 43 0 112) (mkPtok 6 ")" 46 0 117)) (mkPaddingAttr (mkSpan (mkPtok 32 "@rightPad" 43 0 112) (mkPtok 6 ")" 46 0 117)) (mkPtok 32 "@rightPad" 43 0 112) (mkPtok 8 "(" 44 4 113) (Some (mkPtok 33 "' '" 45 0 115)) (mkPtok 6 ")" 46 0 117))); (FACalculatedFrom (mkSpan (mkPtok 5 "@calculatedFrom(" 47 0 119) (mkPtok 6 ")" 48 0 122)) (mkCalculatedFrom (mkSpan (mkPtok 5 "@calculatedFrom(" 47 0 119) (mkPtok 6 ")" 48 0 122)) (mkPtok 5 "@calculatedFrom(" 47 0 119) (mkPtok 31 (string_of_bytes [34; 195; 169; 116; 195; 169; 34]%N) 47 17 120) (mkPtok 6 ")" 48 0 122)))] (MetaField (mkSpan (mkPtok 20 "uint8" 48 2 123) (mkPtok 40 "," 49 19 125)) None (mkMetaDecl (mkSpan (mkPtok 20 "uint8" 48 2 123) (mkPtok 40 "," 49 19 125)) (TyBasic (mkSpan (mkPtok 20 "uint8" 48 2 123) (mkPtok 20 "uint8" 48 2 123)) (mkBasicType (mkSpan (mkPtok 20 "uint8" 48 2 123) (mkPtok 20 "uint8" 48 2 123)) (mkPtok 20 "uint8" 48 2 123))) (mkPtok 42 "calculatedFrom" 49 4 124) None (mkPtok 40 "," 49 19 125))))] (mkPtok 3 "}" 49 21 126))); (DOption (mkOptionDef (mkSpan (mkPtok 1 "options" 49 22 127) (mkPtok 3 "}" 55 0 141)) (mkPtok 1 "options" 49 22 127) (mkPtok 2 "{" 49 30 128) [(mkOptionDecl (mkSpan (mkPtok 42 "Packet" 49 33 129) (mkPtok 41 ";" 50 0 132)) (mkPtok 42 "Packet" 49 33 129) (mkPtok 4 "=" 49 40 130) (VPaddingChar (mkSpan (mkPtok 33 "' '" 49 41 131) (mkPtok 33 "' '" 49 41 131)) (mkPtok 33 "' '" 49 41 131)) (Some (mkPtok 41 ";" 50 0 132))); (mkOptionDecl (mkSpan (mkPtok 42 "Logon" 50 2 133) (mkPtok 30 "255" 53 1 137)) (mkPtok 42 "Logon" 50 2 133) (mkPtok 4 "=" 53 0 136) (VDigits (mkSpan (mkPtok 30 "255" 53 1 137) (mkPtok 30 "255" 53 1 137)) (mkPtok 30 "255" 53 1 137)) None); (mkOptionDecl (mkSpan (mkPtok 42 "BodyLength" 54 0 138) (mkPtok 31 """// no comment""" 54 12 140)) (mkPtok 42 "BodyLength" 54 0 138) (mkPtok 4 "=" 54 11 139) (VString (mkSpan (mkPtok 31 """// no comment""" 54 12 140) (mkPtok 31 """// no comment""" 54 12 140)) (mkPtok 31 """// no comment""" 54 12 140)) None)] (mkPtok 3 "}" 55 0 141))); (DOption (mkOptionDef (mkSpan (mkPtok 1 "options" 55 2 142) (mkPtok 3 "}" 61 2 161)) (mkPtok 1 "options" 55 2 142) (mkPtok 2 "{" 55 10 143) [(mkOptionDecl (mkSpan (mkPtok 42 "float" 55 12 144) (mkPtok 41 ";" 56 6 147)) (mkPtok 42 "float" 55 12 144) (mkPtok 4 "=" 55 18 145) (VString (mkSpan (mkPtok 31 (string_of_bytes [34; 97; 9; 98; 34]%N) 56 0 146) (mkPtok 31 (string_of_bytes [34; 97; 9; 98; 34]%N) 56 0 146)) (mkPtok 31 (string_of_bytes [34; 97; 9; 98; 34]%N) 56 0 146)) (Some (mkPtok 41 ";" 56 6 147))); (mkOptionDecl (mkSpan (mkPtok 42 "f32a" 56 8 148) (mkPtok 31 (string_of_bytes [34; 230; 182; 136; 230; 129; 175; 34]%N) 56 14 150)) (mkPtok 42 "f32a" 56 8 148) (mkPtok 4 "=" 56 12 149) (VString (mkSpan (mkPtok 31 (string_of_bytes [34; 230; 182; 136; 230; 129; 175; 34]%N) 56 14 150) (mkPtok 31 (string_of_bytes [34; 230; 182; 136; 230; 129; 175; 34]%N) 56 14 150)) (mkPtok 31 (string_of_bytes [34; 230; 182; 136; 230; 129; 175; 34]%N) 56 14 150)) None); (mkOptionDecl (mkSpan (mkPtok 42 "len" 58 4 152) (mkPtok 41 ";" 59 11 155)) (mkPtok 42 "len" 58 4 152) (mkPtok 4 "=" 58 8 153) (VType (mkSpan (mkPtok 23 "uint64" 59 4 154) (mkPtok 23 "uint64" 59 4 154)) (TyBasic (mkSpan (mkPtok 23 "uint64" 59 4 154) (mkPtok 23 "uint64" 59 4 154)) (mkBasicType (mkSpan (mkPtok 23 "uint64" 59 4 154) (mkPtok 23 "uint64" 59 4 154)) (mkPtok 23 "uint64" 59 4 154)))) (Some (mkPtok 41 ";" 59 11 155))); (mkOptionDecl (mkSpan (mkPtok 42 "calculatedFrom" 60 4 156) (mkPtok 41 ";" 61 0 160)) (mkPtok 42 "calculatedFrom" 60 4 156) (mkPtok 4 "=" 60 18 157) (VPaddingChar (mkSpan (mkPtok 33 "'0'" 60 19 158) (mkPtok 33 "'0'" 60 19 158)) (mkPtok 33 "'0'" 60 19 158)) (Some (mkPtok 41 ";" 61 0 160)))] (mkPtok 3 "}" 61 2 161)))])).
Eval vm_compute in ("<<<M1368>>>" ++ check (runes_of_ascii "packet	Z9_
{
    @lengthOf(pack )calculatedFrom //	t
u128 , /// triple
@tag( 4294967296 )
u64 options1 ,	uint16	uint8x@calculatedFrom(
""\n""  ), //
} packet	pack{ leftPad
MetaDataX , @leftPad
( )@lengthOf( packetx	)
repeat lengthOf { f64
repeatCount
    @calculatedFrom( ""a\""b"" ) `tab	here` ,
}, repeat pack body ,} options {
u128
//
//	t
=true ; }
")).
Eval vm_compute in ("<<<M1400>>>" ++ check (runes_of_ascii "
root packet charz
    { @rightPad ( '0' )
_x	@lengthOf( asx
) `" ++ [233]%N ++ runes_of_ascii "`
, }
")).
Eval vm_compute in ("<<<M1432>>>" ++ check (runes_of_ascii "packet// c
lengthOf
{ matchKey `doc` , i8i8
{ match crc  as zchar
    {	[ 1, ""abc"" ,	0 ,
    0123456789,
65535 ]
    :chars , ""\n"" : uint8x ""a\""b"":  int ,[
""`tick`""
    ,""a	b"" , ""a	b""
    ,4294967296 , 4294967296	, """" , ""a\""b"" ] :
string_ ,
0123456789 :// @lengthOf(
A
    ,""packet""
    // a // b
    :asx  } ,char[00
//
//
] u8x
`u8 x,`, u8x { uint32 float
@calculatedFrom( ""{,}"")
,
//	t
// " ++ [128512]%N ++ runes_of_ascii " emoji
char[
0
// trailing space 
// `tick` ""quote"" 'q'
] zchar
    ,	}, falsey@calculatedFrom( """ ++ [128512]%N ++ runes_of_ascii """ )
    ,} // packet A { u8 x, }
, @calculatedFrom( ""1"" )
zchar[
255
    ]
// @lengthOf(
//
metadata
@lengthOf(	packetx	) , Header @calculatedFrom(
""CRC32"" ) ,
// c
// trailing space 
float @lengthOf(crc ) ``, @tag(42 )@lengthOf(
    A ) @lengthOf( u128) stringy// " ++ [27880; 37322]%N ++ runes_of_ascii "
`" ++ [233]%N ++ runes_of_ascii "` ,	@leftPad ( '0')
    char[4294967296  ]
float , u`" ++ [233]%N ++ runes_of_ascii "` ,@lengthOf(falsey ) // @lengthOf(
@lengthOf( /// triple
lengthOf
) repeat f32 matchKey `line1
line2`
    ,
}
options
    { lengthOf= string;}packet falsey{
@tag( 1
)int16 repeatCount
@lengthOf( charz
)
`a\` // @lengthOf(
, repeat u64 MetaDataX `say ""hi""` , } options {  x
    = // packet A { u8 x, }
""abc"" }
MetaData BodyLength {zchar[ 4294967296]	zchar ,}")).
Eval vm_compute in ("<<<M1464>>>" ++ check (runes_of_ascii "options { Packet = u8 ; }packet  metadata // @lengthOf(
{ charz {	match asx
    as
A
{
[ ""\n"",
    // " ++ [128512]%N ++ runes_of_ascii " emoji
    ""a\""b"" ]
:string_
""a\\"" :float
    // @lengthOf(
    , [ 10 ] :
// c
// a // b
leftPad ,
255:
Packet
,[ ""a	b"", ""a	b"" , """ ++ [28040; 24687]%N ++ runes_of_ascii """	, 42 ,
// " ++ [27880; 37322]%N ++ runes_of_ascii "
// packet A { u8 x, }
""a\\"" ] :
    repeatCount , [  255	, """ ++ [128512]%N ++ runes_of_ascii """ ,
0123456789 // trailing space 
,
""" ++ [233]%N ++ runes_of_ascii "t" ++ [233]%N ++ runes_of_ascii """ ]: a1} , } , }  packet o {@calculatedFrom( ""\n"" )
repeat len
    ,
// trailing space 
//
body Logon
,
    }")).
Eval vm_compute in ("<<<M1496>>>" ++ check (runes_of_ascii "options{ msg_type =
'0' ;
}
// trailing space 
// " ++ [27880; 37322]%N ++ runes_of_ascii "
packet
matchKey	{ @calculatedFrom( ""x y"" )
    zchar[
10 ]metadata , Z9_
@calculatedFrom(""packet"" ), zchar[ 4294967296]
packetx `doc` ,tag
@lengthOf(packetx
) , // c
@rightPad() u
T , char[3// " ++ [128512]%N ++ runes_of_ascii " emoji
]int , @calculatedFrom( ""CRC32""
) repeat
    // @lengthOf(
    metadata {u128
@calculatedFrom(
"""")
, repeat i32
    Z9_
    ,  repeat uint64 trueish `a\` ,
    a1{
    //x
    uint8 _x // packet A { u8 x, }
@lengthOf( _x  ) // trailing space 
, } ,}  , match
options1
as leftPad  { //
""" ++ [28040; 24687]%N ++ runes_of_ascii """
    :
    u8x ,1:
body ,}/// triple
, @calculatedFrom( ""1""
) match T as Foo {  255 : T, } , } options{ } options { }")).
Eval vm_compute in ("<<<M1528>>>" ++ check (runes_of_ascii "root packet string_{
// `tick` ""quote"" 'q'
// c
@lengthOf(
uint8x )
    int16 int
, }
")).
Eval vm_compute in ("<<<M1560>>>" ++ check (runes_of_ascii "root packet
    repeatCount {@tag(1
) @lengthOf( a1)  char[] options1, @rightPad(
    )
float
    @calculatedFrom( ""1""
) `doc` // `tick` ""quote"" 'q'
, Foo {	roots ,
    //	t
    }  ,  pack Pad	, }
")).
Eval vm_compute in ("<<<T1560>>>" ++ terms [mkTok 34 "root" 1 0 false; mkTok 35 "packet" 1 5 false; mkTok 42 "repeatCount" 2 4 false; mkTok 2 "{" 2 16 false; mkTok 9 "@tag(" 2 17 false; mkTok 30 "1" 2 22 false; mkTok 6 ")" 3 0 false; mkTok 7 "@lengthOf(" 3 2 false; mkTok 42 "a1" 3 13 false; mkTok 6 ")" 3 15 false; mkTok 16 "char[]" 3 18 false; mkTok 42 "options1" 3 25 false; mkTok 40 "," 3 33 false; mkTok 32 "@rightPad" 3 35 false; mkTok 8 "(" 3 44 false; mkTok 6 ")" 4 4 false; mkTok 42 "float" 5 0 false; mkTok 5 "@calculatedFrom(" 6 4 false; mkTok 31 """1""" 6 21 false; mkTok 6 ")" 7 0 false; mkTok 43 "`doc`" 7 2 false; mkTok 44 "// `tick` ""quote"" 'q'" 7 8 true; mkTok 40 "," 8 0 false; mkTok 42 "Foo" 8 2 false; mkTok 2 "{" 8 6 false; mkTok 42 "roots" 8 8 false; mkTok 40 "," 8 14 false; mkTok 44 (string_of_bytes [47; 47; 9; 116]%N) 9 4 true; mkTok 3 "}" 10 4 false; mkTok 40 "," 10 7 false; mkTok 42 "pack" 10 10 false; mkTok 42 "Pad" 10 15 false; mkTok 40 "," 10 19 false; mkTok 3 "}" 10 21 false; mkTok 0 "<EOF>" 11 0 false] (mkPacket (mkPtok 34 "root" 1 0 0) (Some (mkPtok 3 "}" 10 21 33)) [(DPacket (mkPacketDef (mkSpan (mkPtok 34 "root" 1 0 0) (mkPtok 3 "}" 10 21 33)) (Some (mkPtok 34 "root" 1 0 0)) (mkPtok 35 "packet" 1 5 1) (mkPtok 42 "repeatCount" 2 4 2) (mkPtok 2 "{" 2 16 3) [(mkFieldWithAttr (mkSpan (mkPtok 9 "@tag(" 2 17 4) (mkPtok 40 "," 3 33 12)) [(FATag (mkSpan (mkPtok 9 "@tag(" 2 17 4) (mkPtok 6 ")" 3 0 6)) (mkTagAttr (mkSpan (mkPtok 9 "@tag(" 2 17 4) (mkPtok 6 ")" 3 0 6)) (mkPtok 9 "@tag(" 2 17 4) (mkPtok 30 "1" 2 22 5) (mkPtok 6 ")" 3 0 6))); (FALengthOf (mkSpan (mkPtok 7 "@lengthOf(" 3 2 7) (mkPtok 6 ")" 3 15 9)) (mkLengthOf (mkSpan (mkPtok 7 "@lengthOf(" 3 2 7) (mkPtok 6 ")" 3 15 9)) (mkPtok 7 "@lengthOf(" 3 2 7) (mkPtok 42 "a1" 3 13 8) (mkPtok 6 ")" 3 15 9)))] (MetaField (mkSpan (mkPtok 16 "char[]" 3 18 10) (mkPtok 40 "," 3 33 12)) None (mkMetaDecl (mkSpan (mkPtok 16 "char[]" 3 18 10) (mkPtok 40 "," 3 33 12)) (TyDynamic (mkSpan (mkPtok 16 "char[]" 3 18 10) (mkPtok 16 "char[]" 3 18 10)) (mkDynamicString (mkSpan (mkPtok 16 "char[]" 3 18 10) (mkPtok 16 "char[]" 3 18 10)) (mkPtok 16 "char[]" 3 18 10))) (mkPtok 42 "options1" 3 25 11) None (mkPtok 40 "," 3 33 12)))); (mkFieldWithAttr (mkSpan (mkPtok 32 "@rightPad" 3 35 13) (mkPtok 40 "," 8 0 22)) [(FAPadding (mkSpan (mkPtok 32 "@rightPad" 3 35 13) (mkPtok 6 ")" 4 4 15)) (mkPaddingAttr (mkSpan (mkPtok 32 "@rightPad" 3 35 13) (mkPtok 6 ")" 4 4 15)) (mkPtok 32 "@rightPad" 3 35 13) (mkPtok 8 "(" 3 44 14) None (mkPtok 6 ")" 4 4 15)))] (CheckSumField (mkSpan (mkPtok 42 "float" 5 0 16) (mkPtok 40 "," 8 0 22)) (mkChecksumFieldDecl (mkSpan (mkPtok 42 "float" 5 0 16) (mkPtok 40 "," 8 0 22)) None (mkPtok 42 "float" 5 0 16) (mkCalculatedFrom (mkSpan (mkPtok 5 "@calculatedFrom(" 6 4 17) (mkPtok 6 ")" 7 0 19)) (mkPtok 5 "@calculatedFrom(" 6 4 17) (mkPtok 31 """1""" 6 21 18) (mkPtok 6 ")" 7 0 19)) (Some (mkPtok 43 "`doc`" 7 2 20)) (mkPtok 40 "," 8 0 22)))); (mkFieldWithAttr (mkSpan (mkPtok 42 "Foo" 8 2 23) (mkPtok 40 "," 10 7 29)) [] (InerObjectField (mkSpan (mkPtok 42 "Foo" 8 2 23) (mkPtok 40 "," 10 7 29)) None (InerObjectDecl (mkSpan (mkPtok 42 "Foo" 8 2 23) (mkPtok 3 "}" 10 4 28)) (mkPtok 42 "Foo" 8 2 23) (mkPtok 2 "{" 8 6 24) [(ObjectField (mkSpan (mkPtok 42 "roots" 8 8 25) (mkPtok 40 "," 8 14 26)) None (mkPtok 42 "roots" 8 8 25) None None (mkPtok 40 "," 8 14 26))] (mkPtok 3 "}" 10 4 28)) (mkPtok 40 "," 10 7 29))); (mkFieldWithAttr (mkSpan (mkPtok 42 "pack" 10 10 30) (mkPtok 40 "," 10 19 32)) [] (ObjectField (mkSpan (mkPtok 42 "pack" 10 10 30) (mkPtok 40 "," 10 19 32)) None (mkPtok 42 "pack" 10 10 30) (Some (mkPtok 42 "Pad" 10 15 31)) None (mkPtok 40 "," 10 19 32)))] (mkPtok 3 "}" 10 21 33)))])).
Eval vm_compute in ("<<<M1592>>>" ++ check (runes_of_ascii "MetaData rootA
{}")).
Eval vm_compute in ("<<<M1624>>>" ++ check (runes_of_ascii "root packet
    body  { @calculatedFrom( ""`tick`"" )
// " ++ [128512]%N ++ runes_of_ascii " emoji
// packet A { u8 x, }
repeat
    string_	{  i64 Foo , match x
    as tag { ""// no comment""
    : pack
    [0 ,
255 ]
    :roots
, }, char[3
] len // `tick` ""quote"" 'q'
,
}
    , @lengthOf( stringy ) // " ++ [27880; 37322]%N ++ runes_of_ascii "
f32 Foo// a // b
,@tag(
0123456789) //
int64 trueish
,	i8
leftPad, trueish Packet `// not a comment`, repeat matchKey
, }
")).
Eval vm_compute in ("<<<M1656>>>" ++ check (runes_of_ascii "MetaData
asx {}
    // a // b
    packet // a // b
float {
// `tick` ""quote"" 'q'
//x
lengthOf // `tick` ""quote"" 'q'
leftPad `say ""hi""` // packet A { u8 x, }
, @calculatedFrom( ""CRC32"" )stringy `a\` , @calculatedFrom(  ""// no comment""
)
Pad@lengthOf(
    A)
, @leftPad (  '\x00' // @lengthOf(
) x {zchar[
65535 ] /// triple
leftPad @lengthOf( //x
repeatCount
) `{ , }` ,_x {
    // " ++ [128512]%N ++ runes_of_ascii " emoji
    i16 msg_type`" ++ [28040; 24687; 31867; 22411]%N ++ runes_of_ascii "` , //
} // `tick` ""quote"" 'q'
, // trailing space 
roots,} , } options
    {}
")).
Eval vm_compute in ("<<<M1688>>>" ++ check (runes_of_ascii "options
    { }
")).
Eval vm_compute in ("<<<M1720>>>" ++ check (runes_of_ascii "// packet A { u8 x, }
root packet Packet
/// triple
// " ++ [27880; 37322]%N ++ runes_of_ascii "
{ @calculatedFrom( ""// no comment"" )
@lengthOf( Foo )match float
    as stringy {
1 : string_
    ,
}
// a // b
// packet A { u8 x, }
,
    char
    u ,repeat zchar[3  ] Header
`crlf
line`  ,
repeat zchar {
charz BodyLength ,
    repeat
    zchar[ 0123456789] crc
`doc` ,	} ,
@calculatedFrom( ""it's""
    )
    int32 As `doc`  ,char[ 65535] x `it's`,
    repeat char
roots  , repeat
//
// c
zchar[ 0 ]
a1 // " ++ [128512]%N ++ runes_of_ascii " emoji
,repeat zchar[ 7 ] pack , @lengthOf(zchar	) @calculatedFrom(
""1"") char  _x
    ,	}")).
Eval vm_compute in ("<<<M1752>>>" ++ check (runes_of_ascii "
")).
Eval vm_compute in ("<<<M1784>>>" ++ check (runes_of_ascii "// c
root
packet A  { }
//
")).
Eval vm_compute in ("<<<T1784>>>" ++ terms [mkTok 44 "// c" 1 0 true; mkTok 34 "root" 2 0 false; mkTok 35 "packet" 3 0 false; mkTok 42 "A" 3 7 false; mkTok 2 "{" 3 10 false; mkTok 3 "}" 3 12 false; mkTok 44 "//" 4 0 true; mkTok 0 "<EOF>" 5 0 false] (mkPacket (mkPtok 34 "root" 2 0 1) (Some (mkPtok 3 "}" 3 12 5)) [(DPacket (mkPacketDef (mkSpan (mkPtok 34 "root" 2 0 1) (mkPtok 3 "}" 3 12 5)) (Some (mkPtok 34 "root" 2 0 1)) (mkPtok 35 "packet" 3 0 2) (mkPtok 42 "A" 3 7 3) (mkPtok 2 "{" 3 10 4) [] (mkPtok 3 "}" 3 12 5)))])).
Eval vm_compute in ("<<<M1816>>>" ++ check (runes_of_ascii "// a // b

")).
Eval vm_compute in ("<<<M1848>>>" ++ check (runes_of_ascii "packet rootA {
//
// " ++ [27880; 37322]%N ++ runes_of_ascii "
o
    ,
    // trailing space 
    } /// triple")).
Eval vm_compute in ("<<<M1880>>>" ++ check (runes_of_ascii "packet msg_type
{@leftPad
    (
    ' ' //
)
@tag(
    42) @lengthOf( chars ) match tag as body
    { ""`tick`""
    :
rootA [	""\n""
] : i64_ , // a // b
""\n""
:
f32a
    , ""`tick`"" :
    // @lengthOf(
    lengthOf ,
    //x
    10 :// " ++ [128512]%N ++ runes_of_ascii " emoji
falsey
    ,
    255 :	falsey ,
}
    ,uint8x  `two words` ,
    @leftPad( '\x00')
    match msg_type as
    body {
    // trailing space 
    1
    /// triple
    : Header,
//	t
//
}  , uint32 Foo
,
u8  T
    @lengthOf( string_ )`u8 x,`  ,
@calculatedFrom(
""`tick`"" ) zchar[0123456789] charz `" ++ [233]%N ++ runes_of_ascii "` ,} options
    // packet A { u8 x, }
    {
repeatCount = ""CRC32""
; }packet o { char[3 //
] MetaDataX`" ++ [233]%N ++ runes_of_ascii "`,	i8 falsey `
` ,f32
chars `a\`	,} root packet string_	{
float64 uint8x ,match T as
    _x { [	""it's"" ,
""\n"" ,""1""//	t
, 42 ,0123456789 ,
3
,
// @lengthOf(
// packet A { u8 x, }
255 ]
    :BodyLength }  ,@calculatedFrom(""x y""
) trueish zchar
//
// trailing space 
, repeat
char[] BodyLength
    , }options {
Header
    = zchar[7
    ] ; } 	 ")).
Eval vm_compute in ("<<<M1912>>>" ++ check (runes_of_ascii "root
    packet roots
    {// " ++ [27880; 37322]%N ++ runes_of_ascii "
}
")).
Eval vm_compute in ("<<<M1944>>>" ++ check (@nil rune)).
Eval vm_compute in ("<<<M1976>>>" ++ check (runes_of_ascii "
packet As	{
i64 roots @lengthOf(o// c
) ,@calculatedFrom( ""1"" )@tag( 0123456789
    )
    @leftPad( '0'
    ) //	t
metadata , @lengthOf(
    x_y_z ) string_ BodyLength
,@lengthOf(int ) string Logon
    ,
repeat lengthOf crc `" ++ [233]%N ++ runes_of_ascii "` ,@lengthOf(calculatedFrom
    )
char[]
    MetaDataX @lengthOf(
o )
, @tag( 10) u32
len
,	repeat
x_y_z	`it's`
, int
    x , repeat Foo {
char[ 0 ] T
@lengthOf(T ), }	,}  packet stringy
{u8x @calculatedFrom( ""\" ++ [233]%N ++ runes_of_ascii """ ) ,
@calculatedFrom( ""CRC32""
// packet A { u8 x, }
/// triple
) @leftPad (
    '0' )	match stringy
    as Header {  255 :
    Z9_ ,[ """ ++ [233]%N ++ runes_of_ascii "t" ++ [233]%N ++ runes_of_ascii """,
    ""{,}"" , 255,10, ""it's""  , // a // b
""\n"" ] : o,[
""""
, ""1"" , 3
    ] : Pad , [ ""{,}""
,
""{,}"" ] : _x , [65535	, // " ++ [27880; 37322]%N ++ runes_of_ascii "
""// no comment"", ""a\\"" , //	t
0123456789 ,""" ++ [28040; 24687]%N ++ runes_of_ascii """
] :u128, [
    3 ,
    10
//	t
/// triple
, ""1"", 00
    // packet A { u8 x, }
    ,7 ]  : len } ,
    @rightPad ( ' ' ) zchar[
    // packet A { u8 x, }
    65535 ]tag `a\`
    ,
int32 len , i8 len
`doc` ,zchar[
255 ] i64_@lengthOf( x_y_z)`" ++ [233]%N ++ runes_of_ascii "` ,@lengthOf( crc) char[
4294967296	]tag
    @lengthOf( BodyLength ) ,@rightPad
    ( //x
)
@tag(
    10 ) float  @calculatedFrom(
    ""abc""
) `it's` ,} options{  len= ""1""} options {
T
    = ""{,}""	;  }
// @lengthOf(
")).
Eval vm_compute in ("<<<M2008>>>" ++ check (runes_of_ascii "root packet SimpleMessage {
	uint16 MsgType `" ++ [28040; 24687; 31867; 22411]%N ++ runes_of_ascii "`,
	string JsonBody `Json" ++ [23383; 31526; 20018; 28040; 24687; 20307]%N ++ runes_of_ascii "`,
}")).
Eval vm_compute in ("<<<T2008>>>" ++ terms [mkTok 34 "root" 1 0 false; mkTok 35 "packet" 1 5 false; mkTok 42 "SimpleMessage" 1 12 false; mkTok 2 "{" 1 26 false; mkTok 21 "uint16" 2 1 false; mkTok 42 "MsgType" 2 8 false; mkTok 43 (string_of_bytes [96; 230; 182; 136; 230; 129; 175; 231; 177; 187; 229; 158; 139; 96]%N) 2 16 false; mkTok 40 "," 2 22 false; mkTok 15 "string" 3 1 false; mkTok 42 "JsonBody" 3 8 false; mkTok 43 (string_of_bytes [96; 74; 115; 111; 110; 229; 173; 151; 231; 172; 166; 228; 184; 178; 230; 182; 136; 230; 129; 175; 228; 189; 147; 96]%N) 3 17 false; mkTok 40 "," 3 29 false; mkTok 3 "}" 4 0 false; mkTok 0 "<EOF>" 4 1 false] (mkPacket (mkPtok 34 "root" 1 0 0) (Some (mkPtok 3 "}" 4 0 12)) [(DPacket (mkPacketDef (mkSpan (mkPtok 34 "root" 1 0 0) (mkPtok 3 "}" 4 0 12)) (Some (mkPtok 34 "root" 1 0 0)) (mkPtok 35 "packet" 1 5 1) (mkPtok 42 "SimpleMessage" 1 12 2) (mkPtok 2 "{" 1 26 3) [(mkFieldWithAttr (mkSpan (mkPtok 21 "uint16" 2 1 4) (mkPtok 40 "," 2 22 7)) [] (MetaField (mkSpan (mkPtok 21 "uint16" 2 1 4) (mkPtok 40 "," 2 22 7)) None (mkMetaDecl (mkSpan (mkPtok 21 "uint16" 2 1 4) (mkPtok 40 "," 2 22 7)) (TyBasic (mkSpan (mkPtok 21 "uint16" 2 1 4) (mkPtok 21 "uint16" 2 1 4)) (mkBasicType (mkSpan (mkPtok 21 "uint16" 2 1 4) (mkPtok 21 "uint16" 2 1 4)) (mkPtok 21 "uint16" 2 1 4))) (mkPtok 42 "MsgType" 2 8 5) (Some (mkPtok 43 (string_of_bytes [96; 230; 182; 136; 230; 129; 175; 231; 177; 187; 229; 158; 139; 96]%N) 2 16 6)) (mkPtok 40 "," 2 22 7)))); (mkFieldWithAttr (mkSpan (mkPtok 15 "string" 3 1 8) (mkPtok 40 "," 3 29 11)) [] (MetaField (mkSpan (mkPtok 15 "string" 3 1 8) (mkPtok 40 "," 3 29 11)) None (mkMetaDecl (mkSpan (mkPtok 15 "string" 3 1 8) (mkPtok 40 "," 3 29 11)) (TyDynamic (mkSpan (mkPtok 15 "string" 3 1 8) (mkPtok 15 "string" 3 1 8)) (mkDynamicString (mkSpan (mkPtok 15 "string" 3 1 8) (mkPtok 15 "string" 3 1 8)) (mkPtok 15 "string" 3 1 8))) (mkPtok 42 "JsonBody" 3 8 9) (Some (mkPtok 43 (string_of_bytes [96; 74; 115; 111; 110; 229; 173; 151; 231; 172; 166; 228; 184; 178; 230; 182; 136; 230; 129; 175; 228; 189; 147; 96]%N) 3 17 10)) (mkPtok 40 "," 3 29 11))))] (mkPtok 3 "}" 4 0 12)))])).
Eval vm_compute in ("<<<M2040>>>" ++ check (runes_of_ascii "options{ i64_ = string ; trueish trueish =
    '\x00'
    leftPad = ""a\\"" /// triple
; crc
    = 255; uint8x
=
""abc""
    ;}")).
Eval vm_compute in ("<<<M2072>>>" ++ check (runes_of_ascii "options{ i64_ = string ; trueish =
    '\x00'
    leftPad = ""a\\"" /// triple
true crc
    = 255; uint8x
=
""abc""
    ;}")).
Eval vm_compute in ("<<<M2104>>>" ++ check (runes_of_ascii "options{ i64_ = string ; trueish =
    '\x00'
    leftPad = ""a\\"" /// triple
; crc
    = 255; uint8x
=

    ;}")).
Eval vm_compute in ("<<<M2136>>>" ++ check (runes_of_ascii "options{ i64_ = stri'1'ng ; trueish =
    '\x00'
    leftPad = ""a\\"" /// triple
; crc
    = 255; uint8x
=
""abc""
    ;}")).
Eval vm_compute in ("<<<M2168>>>" ++ check (runes_of_ascii "  packet
asx
{
/// triple
// @lengthOf(
u32 stringy
{ ,} MetaData
    A {string  _x, zchar Header `a\`
// @lengthOf(
// packet A { u8 x, }
, char[] MetaDataX
,zchar[ 1 ]
    matchKey
    , char[] //
u,	char[0123456789 ]
    matchKey
    `{ , }`, }
")).
Eval vm_compute in ("<<<M2200>>>" ++ check (runes_of_ascii "  packet
asx
{
/// triple
// @lengthOf(
u32 stringy
`" ++ [28040; 24687; 31867; 22411]%N ++ runes_of_ascii "` ,} MetaData
    A {string  , zchar Header `a\`
// @lengthOf(
// packet A { u8 x, }
, char[] MetaDataX
,zchar[ 1 ]
    matchKey
    , char[] //
u,	char[0123456789 ]
    matchKey
    `{ , }`, }
")).
Eval vm_compute in ("<<<M2232>>>" ++ check (runes_of_ascii "  packet
asx
{
/// triple
// @lengthOf(
u32 stringy
`" ++ [28040; 24687; 31867; 22411]%N ++ runes_of_ascii "` ,} MetaData
    A {string  _x, zchar Header `a\`
// @lengthOf(
// packet A { u8 x, }
, MetaDataX char[]
,zchar[ 1 ]
    matchKey
    , char[] //
u,	char[0123456789 ]
    matchKey
    `{ , }`, }
")).
Eval vm_compute in ("<<<M2264>>>" ++ check (runes_of_ascii "  packet
asx
{
/// triple
// @lengthOf(
u32 stringy
`" ++ [28040; 24687; 31867; 22411]%N ++ runes_of_ascii "` ,} MetaData
    A {string  _x, zchar Header `a\`
// @lengthOf(
// packet A { u8 x, }
, char[] MetaDataX
,zchar[ 1 ]")).
Eval vm_compute in ("<<<M2296>>>" ++ check (runes_of_ascii "  packet
asx
{
/// triple
// @lengthOf(
u32 stringy
`" ++ [28040; 24687; 31867; 22411]%N ++ runes_of_ascii "` ,} MetaData
    A {string  _x, zchar Header `a\`
// @lengthOf(
// packet A { u8 x, }
, char[] MetaDataX
,zchar[ 1 ]
    matchKey
    , char[] //
u,	char[0123456789 ] ]
    matchKey
    `{ , }`, }
")).
Eval vm_compute in ("<<<M2328>>>" ++ check (runes_of_ascii "  packet
asx
{
/// triple
// @lengthOf(
u32 stringy
`" ++ [28040; 24687; 31867; 22411]%N ++ runes_of_ascii "` ,'\x01'} MetaData
    A {string  _x, zchar Header `a\`
// @lengthOf(
// packet A { u8 x, }
, char[] MetaDataX
,zchar[ 1 ]
    matchKey
    , char[] //
u,	char[0123456789 ]
    matchKey
    `{ , }`, }
")).
Eval vm_compute in ("<<<M2360>>>" ++ check (runes_of_ascii "root
    packet
Packet")).
Eval vm_compute in ("<<<M2392>>>" ++ check (runes_of_ascii "root
    packet
Packet
{ // trailing space \
matchKey `tab	here` ,}")).
Eval vm_compute in ("<<<M2424>>>" ++ check (runes_of_ascii "options{ falsey // a // b
=
    } '0' options { repeatCount =
true ; string_// a // b
=
// c
// " ++ [27880; 37322]%N ++ runes_of_ascii "
int64
// trailing space 
/// triple
; } // @lengthOf(")).
Eval vm_compute in ("<<<M2456>>>" ++ check (runes_of_ascii "options{ falsey // a // b
=
    '0' } options { repeatCount =")).
Eval vm_compute in ("<<<M2488>>>" ++ check (runes_of_ascii "options{ falsey // a // b
=
    '0' } options { repeatCount =
true ")).
Eval vm_compute in ("<<<M2520>>>" ++ check (runes_of_ascii "options{root} packet
metadata {
@lengthOf(x ) float32
body ``, }
    MetaData
Z9_
    {
    string string_ , Logon x
,
uint32
    // packet A { u8 x, }
    Z9_,asx
_x
    `tab	here` , }
")).
Eval vm_compute in ("<<<M2552>>>" ++ check (runes_of_ascii "options{}root packet
metadata {
@lengthOf(")).
Eval vm_compute in ("<<<M2584>>>" ++ check (runes_of_ascii "options{}root packet
metadata {
@lengthOf(x ) float32
body ``, }
    MetaData MetaData
Z9_
    {
    string string_ , Logon x
,
uint32
    // packet A { u8 x, }
    Z9_,asx
_x
    `tab	here` , }
")).
Eval vm_compute in ("<<<M2616>>>" ++ check (runes_of_ascii "options{}root packet
metadata {
@lengthOf(x ) float32
body ``, }
    MetaData
Z9_
    {
    string string_ , @tag( x
,
uint32
    // packet A { u8 x, }
    Z9_,asx
_x
    `tab	here` , }
")).
Eval vm_compute in ("<<<M2648>>>" ++ check (runes_of_ascii "options{}root packet
metadata {
@lengthOf(x ) float32
body ``, }
    MetaData
Z9_
    {
    string string_ , Logon x
,
uint32
    // packet A { u8 x, }
    Z9_,asx

    `tab	here` , }
")).
Eval vm_compute in ("<<<M2680>>>" ++ check (runes_of_ascii "options{}root packet
" ++ [0]%N ++ runes_of_ascii "metadata {
@lengthOf(x ) float32
body ``, }
    MetaData
Z9_
    {
    string string_ , Logon x
,
uint32
    // packet A { u8 x, }
    Z9_,asx
_x
    `tab	here` , }
")).
Eval vm_compute in ("<<<M2712>>>" ++ check (runes_of_ascii "options {
    falsey=
uint8 ; }")).
Eval vm_compute in ("<<<T2712>>>" ++ terms [mkTok 1 "options" 1 0 false; mkTok 2 "{" 1 8 false; mkTok 42 "falsey" 2 4 false; mkTok 4 "=" 2 10 false; mkTok 20 "uint8" 3 0 false; mkTok 41 ";" 3 6 false; mkTok 3 "}" 3 8 false; mkTok 0 "<EOF>" 3 9 false] (mkPacket (mkPtok 1 "options" 1 0 0) (Some (mkPtok 3 "}" 3 8 6)) [(DOption (mkOptionDef (mkSpan (mkPtok 1 "options" 1 0 0) (mkPtok 3 "}" 3 8 6)) (mkPtok 1 "options" 1 0 0) (mkPtok 2 "{" 1 8 1) [(mkOptionDecl (mkSpan (mkPtok 42 "falsey" 2 4 2) (mkPtok 41 ";" 3 6 5)) (mkPtok 42 "falsey" 2 4 2) (mkPtok 4 "=" 2 10 3) (VType (mkSpan (mkPtok 20 "uint8" 3 0 4) (mkPtok 20 "uint8" 3 0 4)) (TyBasic (mkSpan (mkPtok 20 "uint8" 3 0 4) (mkPtok 20 "uint8" 3 0 4)) (mkBasicType (mkSpan (mkPtok 20 "uint8" 3 0 4) (mkPtok 20 "uint8" 3 0 4)) (mkPtok 20 "uint8" 3 0 4)))) (Some (mkPtok 41 ";" 3 6 5)))] (mkPtok 3 "}" 3 8 6)))])).
Eval vm_compute in ("<<<M2744>>>" ++ check (runes_of_ascii "options {
    " ++ [21517; 23383]%N ++ runes_of_ascii "=
""a\\"" ; }")).
Eval vm_compute in ("<<<M2776>>>" ++ check (runes_of_ascii "MetaData f32a
{
    //	t
    }root
    packet tag tag  {
}
")).
Eval vm_compute in ("<<<M2808>>>" ++ check (runes_of_ascii "MetaData f32a
{
    //	t
    }root
    packet na" ++ [239]%N ++ runes_of_ascii "ve  {
}
")).
Eval vm_compute in ("<<<M2840>>>" ++ check (runes_of_ascii "
options
    {msg_type =
    float32")).
Eval vm_compute in ("<<<M2872>>>" ++ check (runes_of_ascii "
options
    {msg_type =
    float32  }root
packet Z9_{ char /// triple
crc @lengthOf( @lengthOf(
options1 ) //
,} MetaData a1{}
")).
Eval vm_compute in ("<<<M2904>>>" ++ check (runes_of_ascii "
options
    {msg_type =
    float32  }root
packet Z9_{ char /// triple
crc @lengthOf(
options1 ) //
,} MetaData i64{}
")).
Eval vm_compute in ("<<<M2936>>>" ++ check (runes_of_ascii "
options
    {na" ++ [239]%N ++ runes_of_ascii "ve =
    float32  }root
packet Z9_{ char /// triple
crc @lengthOf(
options1 ) //
,} MetaData a1{}
")).
Eval vm_compute in ("<<<M2968>>>" ++ check (runes_of_ascii "packet crc{ // " ++ [128512]%N ++ runes_of_ascii " emoji
repeat string i8i8
`a\` `a\`, }
")).
Eval vm_compute in ("<<<M3000>>>" ++ check (runes_of_ascii "packet crc{ // " ++ [128512]%N ++ runes_of_ascii " emoji
repeat string " ++ [252]%N ++ runes_of_ascii "ber
`a\`, }
")).
Eval vm_compute in ("<<<M3032>>>" ++ check (runes_of_ascii "packet BodyLength {} MetaData")).
Eval vm_compute in ("<<<M3064>>>" ++ check (runes_of_ascii "packet BodyLength {} MetaData zchar{ zchar[// @lengthOf(
42 ]
    pack , string_ string_
A , char[]crc , _x trueish ,
// " ++ [27880; 37322]%N ++ runes_of_ascii "
// " ++ [128512]%N ++ runes_of_ascii " emoji
zchar[
    3 ]	T // trailing space 
, } packet body
{
    }
")).
Eval vm_compute in ("<<<M3096>>>" ++ check (runes_of_ascii "packet BodyLength {} MetaData zchar{ zchar[// @lengthOf(
42 ]
    pack , string_
A , char[]crc , `// not a comment` trueish ,
// " ++ [27880; 37322]%N ++ runes_of_ascii "
// " ++ [128512]%N ++ runes_of_ascii " emoji
zchar[
    3 ]	T // trailing space 
, } packet body
{
    }
")).
Eval vm_compute in ("<<<M3128>>>" ++ check (runes_of_ascii "packet BodyLength {} MetaData zchar{ zchar[// @lengthOf(
42 ]
    pack , string_
A , char[]crc , _x trueish ,
// " ++ [27880; 37322]%N ++ runes_of_ascii "
// " ++ [128512]%N ++ runes_of_ascii " emoji
zchar[
    3 ]	T // trailing space 
 } packet body
{
    }
")).
Eval vm_compute in ("<<<M3160>>>" ++ check (runes_of_ascii "packet BodyLength {} MetaData zchar")).
Eval vm_compute in ("<<<M3192>>>" ++ check (runes_of_ascii "packet
string_ }@lengthOf( int ) match packetx as f32a {
    1 :	calculatedFrom , }  ,
    } packet len
    //	t
    { @calculatedFrom( """ ++ [233]%N ++ runes_of_ascii "t" ++ [233]%N ++ runes_of_ascii """ ) body Header , char[] lengthOf  `two words` ,chars{repeat string_ matchKey ,
    } ,
    }
")).
Eval vm_compute in ("<<<M3224>>>" ++ check (runes_of_ascii "packet
string_ {@lengthOf( int ) match packetx as  {
    1 :	calculatedFrom , }  ,
    } packet len
    //	t
    { @calculatedFrom( """ ++ [233]%N ++ runes_of_ascii "t" ++ [233]%N ++ runes_of_ascii """ ) body Header , char[] lengthOf  `two words` ,chars{repeat string_ matchKey ,
    } ,
    }
")).
Eval vm_compute in ("<<<M3256>>>" ++ check (runes_of_ascii "packet
string_ {@lengthOf( int ) match packetx as f32a {
    1 :	calculatedFrom , ,  }
    } packet len
    //	t
    { @calculatedFrom( """ ++ [233]%N ++ runes_of_ascii "t" ++ [233]%N ++ runes_of_ascii """ ) body Header , char[] lengthOf  `two words` ,chars{repeat string_ matchKey ,
    } ,
    }
")).
Eval vm_compute in ("<<<M3288>>>" ++ check (runes_of_ascii "packet
string_ {@lengthOf( int ) match packetx as f32a {
    1 :	calculatedFrom , }  ,
    } packet len
    //	t
    {")).
Eval vm_compute in ("<<<M3320>>>" ++ check (runes_of_ascii "packet
string_ {@lengthOf( int ) match packetx as f32a {
    1 :	calculatedFrom , }  ,
    } packet len
    //	t
    { @calculatedFrom( """ ++ [233]%N ++ runes_of_ascii "t" ++ [233]%N ++ runes_of_ascii """ ) body Header , char[] lengthOf lengthOf  `two words` ,chars{repeat string_ matchKey ,
    } ,
    }
")).
Eval vm_compute in ("<<<M3352>>>" ++ check (runes_of_ascii "packet
string_ {@lengthOf( int ) match packetx as f32a {
    1 :	calculatedFrom , }  ,
    } packet len
    //	t
    { @calculatedFrom( """ ++ [233]%N ++ runes_of_ascii "t" ++ [233]%N ++ runes_of_ascii """ ) body Header , char[] lengthOf  `two words` ,chars{repeat ) matchKey ,
    } ,
    }
")).
Eval vm_compute in ("<<<M3384>>>" ++ check (runes_of_ascii "packet
string_ {@lengthOf( int ) match packetx as f32a {
    1 :	calculatedFrom , }  ,
    } packet len
    //	t
    { @calculatedFrom( """ ++ [233]%N ++ runes_of_ascii "t" ++ [233]%N ++ runes_of_ascii """ ) body Header , char[] lengthOf  `two words` ,chars{repeat string_ matchKey ,
    } ,
 <   }
")).
Eval vm_compute in ("<<<M3416>>>" ++ check (runes_of_ascii "/// triple
root
packet // packet A { u8 x, }
chars { charz@lengthOf( )
stringy,  @tag(  0 ) // a // b
asx
    As
,
// trailing space 
// trailing space 
x_y_z {
repeat i16 charz , } ,	int16  crc ,}
")).
Eval vm_compute in ("<<<M3448>>>" ++ check (runes_of_ascii "/// triple
root
packet // packet A { u8 x, }
chars { @lengthOf(charz )
stringy,  ;  0 ) // a // b
asx
    As
,
// trailing space 
// trailing space 
x_y_z {
repeat i16 charz , } ,	int16  crc ,}
")).
Eval vm_compute in ("<<<M3480>>>" ++ check (runes_of_ascii "/// triple
root
packet // packet A { u8 x, }
chars { @lengthOf(charz )
stringy,  @tag(  0 ) // a // b
asx`
    As
,
// trailing space 
// trailing space 
x_y_z {
repeat i16 charz , } ,	int16  crc ,}
")).
Eval vm_compute in ("<<<M3512>>>" ++ check (runes_of_ascii "trueish")).
Eval vm_compute in ("<<<M3544>>>" ++ check (runes_of_ascii "'0")).
Eval vm_compute in ("<<<M3576>>>" ++ check (runes_of_ascii """a\""")).
Eval vm_compute in ("<<<M3608>>>" ++ check (runes_of_ascii "{}{}")).
Eval vm_compute in ("<<<M3640>>>" ++ check (runes_of_ascii "packet A { x `d`, }")).
Eval vm_compute in ("<<<M3672>>>" ++ check (runes_of_ascii "packet A { match k as n { 1 : B 2 : C ""s"" : D [1] : E }, }")).
Eval vm_compute in ("<<<M3704>>>" ++ check (runes_of_ascii "packet A")).
Eval vm_compute in ("<<<M3736>>>" ++ check (runes_of_ascii "options { a = [1]; }")).
Eval vm_compute in ("<<<M3768>>>" ++ check ([65533]%N ++ runes_of_ascii "(" ++ [65533; 65533]%N ++ runes_of_ascii "M" ++ [65533]%N ++ runes_of_ascii "b" ++ [65533]%N ++ runes_of_ascii "q" ++ [30; 65533; 4]%N ++ runes_of_ascii "x5" ++ [65533; 65533; 18]%N ++ runes_of_ascii "zT" ++ [65533; 65533; 65533; 1537; 65533]%N ++ runes_of_ascii "h1" ++ [65533]%N)).
Eval vm_compute in ("<<<M3800>>>" ++ check (runes_of_ascii "7" ++ [65533]%N ++ runes_of_ascii "b" ++ [65533; 65533]%N ++ runes_of_ascii "
" ++ [65533; 547; 65533; 65533; 65533; 65533]%N ++ runes_of_ascii "pO" ++ [65533; 65533]%N ++ runes_of_ascii ";" ++ [65533; 65533; 20; 65533]%N ++ runes_of_ascii "d0P" ++ [22]%N ++ runes_of_ascii "o")).
Eval vm_compute in ("<<<M3832>>>" ++ check (runes_of_ascii "(" ++ [19]%N ++ runes_of_ascii "Du " ++ [65533; 65533; 65533; 65533; 65533]%N ++ runes_of_ascii ":a1" ++ [65533]%N ++ runes_of_ascii "-" ++ [15]%N ++ runes_of_ascii "X" ++ [65533; 7; 65533; 0; 65533; 65533; 65533]%N ++ runes_of_ascii "\r" ++ [65533; 65533]%N ++ runes_of_ascii "(" ++ [65533]%N)).
Eval vm_compute in ("<<<M3864>>>" ++ check (runes_of_ascii "j" ++ [65533]%N ++ runes_of_ascii "[" ++ [65533]%N)).
Eval vm_compute in ("<<<M3896>>>" ++ check ([65533]%N ++ runes_of_ascii "'T" ++ [65533; 65533; 65533]%N ++ runes_of_ascii "r" ++ [65533; 65533]%N ++ runes_of_ascii "F" ++ [65533; 65533; 65533; 65533; 28]%N ++ runes_of_ascii " " ++ [65533; 65533; 65533; 65533; 65533]%N ++ runes_of_ascii "P" ++ [839]%N ++ runes_of_ascii "F" ++ [65533; 65533; 65533]%N ++ runes_of_ascii "4" ++ [6; 65533; 65533]%N)).
Eval vm_compute in ("<<<M3928>>>" ++ check ([4]%N ++ runes_of_ascii "IR" ++ [65533]%N ++ runes_of_ascii "}$" ++ [65533; 65533; 65533]%N ++ runes_of_ascii "BL2" ++ [65533]%N ++ runes_of_ascii "vW" ++ [1921; 65533]%N)).
Eval vm_compute in ("<<<M3960>>>" ++ check (runes_of_ascii " " ++ [65533]%N ++ runes_of_ascii "_")).
Eval vm_compute in ("<<<M3992>>>" ++ check (runes_of_ascii "=")).
